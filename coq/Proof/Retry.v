(* Proofs about Model/Retry.v: the run of one request as a function of its outcome
   stream, and invariants of the poll-granular model of several requests sharing one
   token bucket. *)
From TR Require Import Lib.Base Model.Retry.

Lemma app_eq_len {A} (l1 l1' l2 l2' : list A) :
  length l1 = length l1' -> l1 ++ l2 = l1' ++ l2' -> l1 = l1' /\ l2 = l2'.
Proof.
  revert l1'. induction l1 as [|x l1 IH]; intros [|y l1'] Hl H; try discriminate.
  - split; [reflexivity|exact H].
  - cbn in H. inversion H; subst. cbn in Hl. destruct (IH l1') as [-> ->]; [lia|assumption|].
    split; reflexivity.
Qed.

Section RetryProofs.
  Context {Res Err : Type}.
  Notation outcome := (outcome Res Err).
  Notation call := (call Res Err).
  Notation run := (run Res Err).
  Notation cfg := (cfg Err).

  (* ------------------------------------------------------------------ *)
  (* the loop body *)
  Lemma after_retry (c : cfg) hb max a (o : outcome) g bo d :
    after_outcome c hb max a o g = (bo, ARetry d) ->
    exists e, o = Fail e /\ should_retry c e = true /\ (S a < max)%nat /\
              d = backoff c a /\ bo = (if hb then [BWithdraw true] else []) /\ (hb = true -> g = true).
  Proof.
    unfold after_outcome. destruct o as [v|e]; [destruct hb; discriminate|].
    destruct (should_retry c e) eqn:Es; cbn [negb]; [|discriminate].
    destruct (max <=? a + 1)%nat eqn:Em; [discriminate|].
    apply Nat.leb_gt in Em.
    destruct hb; [destruct g|]; intros H; inversion H; subst;
      exists e; repeat split; try reflexivity; try lia; try discriminate; try exact Es.
  Qed.

  Definition tail_ops (hb : bool) (w : why) : list bop :=
    if hb then
      match w with
      | WOk => [BDeposit] | WDenied => [BWithdraw false] | WNotReady => [BWithdraw true] | _ => []
      end
    else [].

  Lemma after_return (c : cfg) hb max a (o : outcome) g bo x w :
    after_outcome c hb max a o g = (bo, AReturn x w) ->
    bo = tail_ops hb w /\
    match w with
    | WOk => exists v, o = Ok v /\ x = inl v
    | WRefused => exists e, o = Fail e /\ should_retry c e = false /\ x = inr e
    | WMax => exists e, o = Fail e /\ should_retry c e = true /\ (max <= S a)%nat /\ x = inr e
    | WDenied => exists e, o = Fail e /\ should_retry c e = true /\ (S a < max)%nat /\
                           hb = true /\ g = false /\ x = inr e
    | WNotReady | WFuel => False
    end.
  Proof.
    unfold after_outcome, tail_ops. destruct o as [v|e].
    - intros H. inversion H; subst. split; [destruct hb; reflexivity|]. exists v. split; reflexivity.
    - destruct (should_retry c e) eqn:Es; cbn [negb].
      + destruct (max <=? a + 1)%nat eqn:Em.
        * intros H; inversion H; subst. split; [destruct hb; reflexivity|].
          apply Nat.leb_le in Em. exists e. repeat split; try reflexivity; try assumption; lia.
        * apply Nat.leb_gt in Em. destruct hb; [destruct g|]; intros H; inversion H; subst.
          split; [reflexivity|]. exists e. repeat split; try reflexivity; try assumption; lia.
      + intros H; inversion H; subst. split; [destruct hb; reflexivity|].
        exists e. repeat split; try reflexivity; exact Es.
  Qed.

  (* the boolean stop condition at attempt a: what makes attempt a the last one *)
  Definition stop_at (c : cfg) (hb : bool) (max : nat) (inner : nat -> Z * outcome)
             (ready : nat -> Z * option Err) (grant : nat -> bool) (a : nat) : bool :=
    match snd (inner a) with
    | Ok _ => true
    | Fail e =>
      negb (should_retry c e) || (max <=? a + 1)%nat || (hb && negb (grant a)) ||
      (match snd (ready (S a)) with Some _ => true | None => false end)
    end.

  (* full description of the last attempt, by reason *)
  Definition last_is (c : cfg) (hb : bool) (max : nat) (inner : nat -> Z * outcome)
             (ready : nat -> Z * option Err) (grant : nat -> bool) (a : nat)
             (x : Res + Err) (w : why) : Prop :=
    match w with
    | WOk => exists v, snd (inner a) = Ok v /\ x = inl v
    | WRefused => exists e, snd (inner a) = Fail e /\ should_retry c e = false /\ x = inr e
    | WMax => exists e, snd (inner a) = Fail e /\ should_retry c e = true /\
                        (max <= S a)%nat /\ x = inr e
    | WDenied => exists e, snd (inner a) = Fail e /\ should_retry c e = true /\
                           (S a < max)%nat /\ hb = true /\ grant a = false /\ x = inr e
    | WNotReady => exists e e', snd (inner a) = Fail e /\ should_retry c e = true /\
                           (S a < max)%nat /\ (hb = true -> grant a = true) /\
                           snd (ready (S a)) = Some e' /\ x = inr e'
    | WFuel => False
    end.

  Fixpoint consistent (b : bucket) (l : list bop) : Prop :=
    match l with
    | [] => True
    | BDeposit :: t => consistent (tb_deposit b) t
    | BWithdraw g :: t => g = fst (tb_try_withdraw b) /\ consistent (snd (tb_try_withdraw b)) t
    end.

  Section Run.
    Context (c : cfg) (hb : bool) (max : nat) (inner : nat -> Z * outcome)
            (ready : nat -> Z * option Err) (grant : nat -> bool).
    Notation go := (go c hb max inner ready grant).
    Notation stopb := (stop_at c hb max inner ready grant).
    Notation last_spec := (last_is c hb max inner ready grant).

    Lemma go_last a t bo x w :
      after_outcome c hb max a (snd (inner a)) (grant a) = (bo, AReturn x w) ->
      let r := mkRun [mkCall a t (t + Z.max 0 (fst (inner a))) (snd (inner a))] x w bo in
      let n := length (calls r) in
      (1 <= n /\ n <= 1)%nat /\
      map (@c_idx Res Err) (calls r) = seq a n /\
      (forall cl, In cl (calls r) -> c_out cl = snd (inner (c_idx cl)) /\
                                     c_end cl = c_start cl + Z.max 0 (fst (inner (c_idx cl)))) /\
      (exists cl rest, calls r = cl :: rest /\ c_start cl = t) /\
      (forall l1 c1 c2 l2, calls r = l1 ++ c1 :: c2 :: l2 ->
         c_start c2 = c_end c1 + Z.max 0 (backoff c (c_idx c1)) + Z.max 0 (fst (ready (c_idx c2)))) /\
      (forall k, (a <= k < a + n - 1)%nat -> stopb k = false) /\
      stopb (a + n - 1)%nat = true /\
      last_spec (a + n - 1)%nat (result r) (reason r) /\
      ops r = (if hb then repeat (BWithdraw true) (n - 1) else []) ++ tail_ops hb (reason r).
    Proof.
      intros Ea. apply after_return in Ea. destruct Ea as [Hbo Hw].
      cbn zeta. cbn [calls result reason ops length].
      replace (a + 1 - 1)%nat with a by lia.
      split; [lia|]. split; [reflexivity|].
      split; [intros cl [<-|[]]; split; reflexivity|].
      split; [eexists; eexists; split; reflexivity|].
      split; [intros l1 c1 c2 l2 H; destruct l1 as [|? [|? ?]]; discriminate|].
      split; [intros k Hk; lia|].
      split; [|split].
      - unfold stop_at. destruct w; try contradiction.
        + destruct Hw as [v [-> _]]. reflexivity.
        + destruct Hw as [e [-> [Hs _]]]. rewrite Hs. reflexivity.
        + destruct Hw as [e [-> [Hs [Hm _]]]]. rewrite Hs.
          replace (max <=? a + 1)%nat with true by (symmetry; apply Nat.leb_le; lia).
          reflexivity.
        + destruct Hw as [e [-> [Hs [Hm [-> [-> _]]]]]]. rewrite Hs. cbn.
          rewrite Bool.orb_true_r. reflexivity.
      - unfold last_is. destruct w; try contradiction; exact Hw.
      - rewrite Hbo. destruct hb; reflexivity.
    Qed.

    (* everything about [go] in one induction *)
    Lemma go_spec fuel : forall a t,
      (fuel + a + 1 = Nat.max (a + 1) max)%nat ->
      let r := go fuel a t in
      let n := length (calls r) in
      (1 <= n /\ n <= S fuel)%nat /\
      map (@c_idx Res Err) (calls r) = seq a n /\
      (forall cl, In cl (calls r) -> c_out cl = snd (inner (c_idx cl)) /\
                                     c_end cl = c_start cl + Z.max 0 (fst (inner (c_idx cl)))) /\
      (exists cl rest, calls r = cl :: rest /\ c_start cl = t) /\
      (forall l1 c1 c2 l2, calls r = l1 ++ c1 :: c2 :: l2 ->
         c_start c2 = c_end c1 + Z.max 0 (backoff c (c_idx c1)) + Z.max 0 (fst (ready (c_idx c2)))) /\
      (forall k, (a <= k < a + n - 1)%nat -> stopb k = false) /\
      stopb (a + n - 1)%nat = true /\
      last_spec (a + n - 1)%nat (result r) (reason r) /\
      ops r = (if hb then repeat (BWithdraw true) (n - 1) else []) ++ tail_ops hb (reason r).
  Proof.
    induction fuel as [|f IH]; intros a t Hf; cbn zeta.
    - (* no fuel: a + 1 >= max, so the loop body cannot ask for a retry *)
      cbn [go]. destruct (after_outcome c hb max a (snd (inner a)) (grant a)) as [bo act] eqn:Ea.
      destruct act as [x w|d].
      + apply (go_last a t bo x w Ea).
      + apply after_retry in Ea. destruct Ea as [e [_ [_ [Hlt _]]]]. lia.
    - cbn [go]. destruct (after_outcome c hb max a (snd (inner a)) (grant a)) as [bo act] eqn:Ea.
      destruct act as [x w|d].
      + pose proof (go_last a t bo x w Ea) as H. cbn zeta in H.
        destruct H as [[H1 H1'] H]. split; [split; [exact H1|lia]|exact H].
      + pose proof Ea as Ea'. apply after_retry in Ea'.
        destruct Ea' as [e [Ho [Hs [Hlt [Hd [Hbo Hg]]]]]].
        destruct (snd (ready (S a))) as [e'|] eqn:Er.
        * (* readiness error *)
          cbn [calls result reason ops length].
          replace (a + 1 - 1)%nat with a by lia.
          split; [lia|]. split; [reflexivity|].
          split; [intros cl [<-|[]]; split; reflexivity|].
          split; [eexists; eexists; split; reflexivity|].
          split; [intros l1 c1 c2 l2 H; destruct l1 as [|? [|? ?]]; discriminate|].
          split; [intros k Hk; lia|].
          split; [|split].
          -- unfold stop_at. rewrite Ho, Er. apply Bool.orb_true_r.
          -- cbn. exists e, e'. repeat split; assumption.
          -- subst bo. unfold tail_ops. destruct hb; reflexivity.
        * specialize (IH (S a) (t + Z.max 0 (fst (inner a)) + Z.max 0 d + Z.max 0 (fst (ready (S a))))).
          assert (Hf' : (f + S a + 1 = Nat.max (S a + 1) max)%nat) by lia.
          specialize (IH Hf'). cbn zeta in IH.
          set (r := go f (S a) _) in *.
          destruct IH as [[Hn1 Hn2] [Hidx [Hout [Hfirst [Hsp [Hbefore [Hstop [Hlast Hops]]]]]]]].
          cbn [calls result reason ops length].
          set (n := length (calls r)) in *.
          assert (Hstop_a : stopb a = false).
          { unfold stop_at. rewrite Ho, Er, Hs. cbn [negb orb].
            replace (max <=? a + 1)%nat with false by (symmetry; apply Nat.leb_gt; lia).
            cbn [orb]. destruct hb; cbn [andb orb]; [rewrite (Hg eq_refl)|]; reflexivity. }
          split; [lia|].
          split; [cbn [map seq c_idx]; f_equal; exact Hidx|].
          split; [intros cl [<-|H]; [split; reflexivity|apply Hout; exact H]|].
          split; [eexists; eexists; split; reflexivity|].
          split.
          { intros l1 c1 c2 l2 H. destruct l1 as [|x0 l1].
            - cbn [app] in H. destruct Hfirst as [cl0 [rest [Hc Hst]]].
              rewrite Hc in H. inversion H; subst c1 c2 l2. cbn [c_end c_idx].
              rewrite Hst.
              assert (Hi : c_idx cl0 = S a).
              { rewrite Hc in Hidx. destruct n; [lia|]. cbn [map seq] in Hidx. congruence. }
              rewrite Hi, Hd. reflexivity.
            - cbn [app] in H. inversion H. eapply Hsp. eassumption. }
          split.
          { intros k Hk. destruct (Nat.eq_dec k a) as [->|Hne]; [exact Hstop_a|].
            apply Hbefore. lia. }
          replace (a + S n - 1)%nat with (S a + n - 1)%nat by lia.
          split; [exact Hstop|]. split; [exact Hlast|].
          rewrite Hops, Hbo. replace (S n - 1)%nat with (S (n - 1)) by lia.
          destruct hb; reflexivity.
  Qed.

    Notation R t0 := (retry_run c hb max inner ready grant t0).

    Lemma run_spec t0 :
      let r := R t0 in
      let n := length (calls r) in
      (1 <= n /\ n <= Nat.max 1 max)%nat /\
      map (@c_idx Res Err) (calls r) = seq 0 n /\
      (forall cl, In cl (calls r) -> c_out cl = snd (inner (c_idx cl)) /\
                                     c_end cl = c_start cl + Z.max 0 (fst (inner (c_idx cl)))) /\
      (exists cl rest, calls r = cl :: rest /\ c_start cl = t0) /\
      (forall l1 c1 c2 l2, calls r = l1 ++ c1 :: c2 :: l2 ->
         c_start c2 = c_end c1 + Z.max 0 (backoff c (c_idx c1)) + Z.max 0 (fst (ready (c_idx c2)))) /\
      (forall k, (k < n - 1)%nat -> stopb k = false) /\
      stopb (n - 1)%nat = true /\
      last_spec (n - 1)%nat (result r) (reason r) /\
      ops r = (if hb then repeat (BWithdraw true) (n - 1) else []) ++ tail_ops hb (reason r).
    Proof.
      unfold retry_run.
      pose proof (go_spec (Nat.pred (Nat.max 1 max)) 0%nat t0) as H.
      assert (Hf : (Nat.pred (Nat.max 1 max) + 0 + 1 = Nat.max (0 + 1) max)%nat) by lia.
      specialize (H Hf). cbn zeta in *.
      destruct H as [[H1 H2] [H3 [H4 [H5 [H6 [H7 [H8 [H9 H10]]]]]]]].
      split; [lia|]. split; [exact H3|]. split; [exact H4|]. split; [exact H5|].
      split; [exact H6|]. split; [intros k Hk; apply H7; lia|].
      split; [exact H8|]. split; [exact H9|exact H10].
    Qed.

    Lemma stop_at_false k :
      stopb k = false ->
      exists e, snd (inner k) = Fail e /\ should_retry c e = true /\ (S k < max)%nat /\
                (hb = true -> grant k = true) /\ snd (ready (S k)) = None.
    Proof.
      unfold stop_at. destruct (snd (inner k)) as [v|e]; [discriminate|].
      intros H. apply Bool.orb_false_iff in H. destruct H as [H Hr].
      apply Bool.orb_false_iff in H. destruct H as [H Hg].
      apply Bool.orb_false_iff in H. destruct H as [Hs Hm].
      exists e. split; [reflexivity|].
      split; [destruct (should_retry c e); [reflexivity|discriminate]|].
      split; [apply Nat.leb_gt in Hm; lia|].
      split; [intros ->; destruct (grant k); [reflexivity|discriminate]|].
      destruct (snd (ready (S k))); [discriminate|reflexivity].
    Qed.

    (* C05_attempt_bounds *)
    Lemma attempt_bounds t0 :
      (1 <= length (calls (R t0)) <= Nat.max 1 max)%nat.
    Proof. pose proof (run_spec t0) as H. cbn zeta in H. tauto. Qed.

    (* C05_stops_at_first *)
    Lemma stops_at_first t0 :
      let r := R t0 in
      let n := length (calls r) in
      map (@c_idx Res Err) (calls r) = seq 0 n /\
      (forall cl, In cl (calls r) -> c_out cl = snd (inner (c_idx cl))) /\
      (forall k, (k < n - 1)%nat ->
         exists e, snd (inner k) = Fail e /\ should_retry c e = true /\ (S k < max)%nat /\
                   (hb = true -> grant k = true) /\ snd (ready (S k)) = None) /\
      last_spec (n - 1)%nat (result r) (reason r).
    Proof.
      pose proof (run_spec t0) as H. cbn zeta in *.
      destruct H as [_ [H3 [H4 [_ [_ [H7 [_ [H9 _]]]]]]]].
      split; [exact H3|]. split; [intros cl Hc; apply H4; exact Hc|].
      split; [intros k Hk; apply stop_at_false; apply H7; exact Hk|exact H9].
    Qed.

    Lemma last_call t0 :
      exists l cl, calls (R t0) = l ++ [cl] /\ c_idx cl = (length (calls (R t0)) - 1)%nat.
    Proof.
      pose proof (run_spec t0) as H. cbn zeta in H.
      destruct H as [[H1 _] [H3 _]].
      destruct (calls (R t0)) as [|x l] eqn:E using rev_ind; [cbn in H1; lia|].
      clear IHl. exists l, x. split; [reflexivity|].
      rewrite app_length in *. cbn [length] in *.
      rewrite map_app in H3. cbn [map] in H3.
      replace (length l + 1)%nat with (S (length l)) in H3 by lia.
      rewrite seq_S in H3. apply app_inj_tail in H3. destruct H3 as [_ H3].
      cbn in H3. lia.
    Qed.

    (* C05_returns_last *)
    Lemma returns_last t0 :
      let r := R t0 in
      reason r <> WFuel /\
      exists l cl, calls r = l ++ [cl] /\
        (reason r <> WNotReady -> result r = out_res (c_out cl)) /\
        (reason r = WNotReady ->
           exists e, snd (ready (S (c_idx cl))) = Some e /\ result r = inr e).
    Proof.
      cbn zeta. pose proof (run_spec t0) as H. cbn zeta in H.
      destruct H as [_ [_ [H4 [_ [_ [_ [_ [H9 _]]]]]]]].
      destruct (last_call t0) as [l [cl [Hc Hi]]].
      assert (Hin : In cl (calls (R t0))) by (rewrite Hc; apply in_or_app; right; left; reflexivity).
      destruct (H4 cl Hin) as [Ho _]. rewrite <- Hi in H9.
      split; [intros Hw; rewrite Hw in H9; exact H9|].
      exists l, cl. split; [exact Hc|]. unfold last_is in H9. rewrite <- Ho in H9.
      destruct (reason (R t0)); split; intros Hw; try congruence.
      - destruct H9 as [v [-> ->]]. reflexivity.
      - destruct H9 as [e [-> [_ ->]]]. reflexivity.
      - destruct H9 as [e [-> [_ [_ ->]]]]. reflexivity.
      - destruct H9 as [e [-> [_ [_ [_ [_ ->]]]]]]. reflexivity.
      - destruct H9 as [e [e' [_ [_ [_ [_ [Hr ->]]]]]]]. exists e'. split; [exact Hr|reflexivity].
      - contradiction.
    Qed.

    (* C05_backoff_before_retry *)
    Lemma backoff_before_retry t0 :
      let r := R t0 in
      (exists cl rest, calls r = cl :: rest /\ c_start cl = t0) /\
      (forall cl, In cl (calls r) -> c_end cl = c_start cl + Z.max 0 (fst (inner (c_idx cl)))) /\
      (forall l1 c1 c2 l2, calls r = l1 ++ c1 :: c2 :: l2 ->
         c_idx c2 = S (c_idx c1) /\
         c_start c2 = c_end c1 + Z.max 0 (backoff c (c_idx c1)) + Z.max 0 (fst (ready (c_idx c2))) /\
         c_start c2 >= c_end c1 + backoff c (c_idx c1) /\
         (fst (ready (c_idx c2)) <= 0 -> 0 <= backoff c (c_idx c1) ->
          c_start c2 = c_end c1 + backoff c (c_idx c1))).
    Proof.
      cbn zeta. pose proof (run_spec t0) as H. cbn zeta in H.
      destruct H as [_ [H3 [H4 [H5 [H6 _]]]]].
      split; [exact H5|]. split; [intros cl Hc; apply H4; exact Hc|].
      intros l1 c1 c2 l2 Hc. pose proof (H6 _ _ _ _ Hc) as Hs.
      split.
      - rewrite Hc in H3. rewrite map_app in H3. cbn [map] in H3.
        rewrite app_length in H3. cbn [length] in H3.
        replace (length l1 + S (S (length l2)))%nat with (length l1 + (2 + length l2))%nat in H3 by lia.
        rewrite seq_app in H3. apply app_eq_len in H3.
        + destruct H3 as [_ H3]. cbn [seq Nat.add] in H3. inversion H3. lia.
        + rewrite map_length, seq_length. reflexivity.
      - split; [exact Hs|]. split; lia.
    Qed.

    (* C05_budget *)
    Lemma budget_ops t0 :
      let r := R t0 in
      let n := length (calls r) in
      (hb = false -> ops r = []) /\
      (hb = true -> ops r = repeat (BWithdraw true) (n - 1) ++
                            match reason r with
                            | WOk => [BDeposit] | WDenied => [BWithdraw false]
                            | WNotReady => [BWithdraw true] | _ => []
                            end) /\
      (forall k, (k < n - 1)%nat -> hb = true -> grant k = true) /\
      (In BDeposit (ops r) <-> hb = true /\ exists v, result r = inl v).
    Proof.
      cbn zeta. pose proof (run_spec t0) as H. cbn zeta in H.
      destruct H as [_ [_ [_ [_ [_ [H7 [_ [H9 H10]]]]]]]].
      split; [intros ->; rewrite H10; reflexivity|].
      split; [intros ->; rewrite H10; reflexivity|].
      split.
      { intros k Hk Hb. destruct (stop_at_false k (H7 k Hk)) as [e [_ [_ [_ [Hg _]]]]].
        apply Hg. exact Hb. }
      rewrite H10. unfold tail_ops, last_is in *.
      assert (Hrep : forall m, ~ In BDeposit (repeat (BWithdraw true) m)).
      { intros m Hin. apply repeat_spec in Hin. discriminate. }
      set (w := reason (R t0)) in *. set (x := result (R t0)) in *. clearbody w x.
      destruct hb; cbn [app]; split.
      - intros Hin. split; [reflexivity|]. apply in_app_or in Hin.
        destruct Hin as [Hin|Hin]; [exfalso; eapply Hrep; exact Hin|].
        destruct w; cbn in Hin; try tauto;
          try (destruct Hin as [Hin|[]]; discriminate).
        destruct H9 as [v [_ ->]]. exists v. reflexivity.
      - intros [_ [v Hv]]. apply in_or_app. right.
        destruct w; try (left; reflexivity); exfalso; try rewrite Hv in H9.
        + destruct H9 as [e [_ [_ H]]]. discriminate.
        + destruct H9 as [e [_ [_ [_ H]]]]. discriminate.
        + destruct H9 as [e [_ [_ [_ [_ [_ H]]]]]]. discriminate.
        + destruct H9 as [e [e' [_ [_ [_ [_ [_ H]]]]]]]. discriminate.
        + exact H9.
      - intros [].
      - intros [H _]. discriminate.
    Qed.

    (* the recorded answers are the ones a token bucket owned by this request gives *)
    Lemma consistent_repeat tail m : forall b,
      Z.of_nat m * SCALE <= tokens b ->
      consistent (mkBucket (tokens b - Z.of_nat m * SCALE) (max_tokens b)) tail ->
      consistent b (repeat (BWithdraw true) m ++ tail).
    Proof.
      induction m as [|m IH]; intros b Hle Ht.
      - cbn [repeat app]. destruct b as [tk mx]. cbn [tokens max_tokens] in *.
        replace (tk - Z.of_nat 0 * SCALE) with tk in Ht by lia. exact Ht.
      - cbn [repeat app consistent]. unfold tb_try_withdraw.
        assert (Hs : tokens b <? SCALE = false) by (apply Z.ltb_ge; unfold SCALE in *; lia).
        rewrite Hs. cbn [fst snd]. split; [reflexivity|].
        apply IH; cbn [tokens max_tokens].
        + unfold SCALE in *. lia.
        + replace (tokens b - SCALE - Z.of_nat m * SCALE) with (tokens b - Z.of_nat (S m) * SCALE)
            by (unfold SCALE; lia).
          exact Ht.
    Qed.
  End Run.

  Lemma budget_sequential (c : cfg) max (inner : nat -> Z * outcome) ready (b : bucket) t0 :
    0 <= tokens b ->
    consistent b (ops (retry_run c true max inner ready (seq_grant b) t0)).
  Proof.
    intros Hb.
    pose proof (run_spec c true max inner ready (seq_grant b) t0) as H. cbn zeta in H.
    destruct H as [[Hn _] [_ [_ [_ [_ [H7 [_ [H9 H10]]]]]]]].
    rewrite H10. set (r := retry_run c true max inner ready (seq_grant b) t0) in *.
    set (n := length (calls r)) in *.
    assert (Hle : Z.of_nat (n - 1) * SCALE <= tokens b).
    { destruct (Nat.eq_dec (n - 1) 0) as [->|Hne]; [unfold SCALE; lia|].
      assert (Hk : (n - 2 < n - 1)%nat) by lia.
      destruct (stop_at_false _ _ _ _ _ _ _ (H7 _ Hk)) as [e [_ [_ [_ [Hg _]]]]].
      specialize (Hg eq_refl). unfold seq_grant in Hg. apply Z.leb_le in Hg.
      replace (S (n - 2)) with (n - 1)%nat in Hg by lia. exact Hg. }
    apply consistent_repeat; [exact Hle|].
    unfold tail_ops, last_is in *. destruct (reason r); cbn [consistent]; try exact I.
    - destruct H9 as [e [_ [_ [_ [_ [Hg _]]]]]]. unfold seq_grant in Hg. apply Z.leb_gt in Hg.
      unfold tb_try_withdraw. cbn [tokens].
      replace (tokens b - Z.of_nat (n - 1) * SCALE <? SCALE) with true; [split; [reflexivity|exact I]|].
      symmetry. apply Z.ltb_lt. replace (Z.of_nat (S (n - 1))) with (Z.of_nat (n - 1) + 1) in Hg by lia.
      unfold SCALE in *. lia.
    - destruct H9 as [e [e' [_ [_ [_ [Hg _]]]]]]. specialize (Hg eq_refl).
      unfold seq_grant in Hg. apply Z.leb_le in Hg.
      unfold tb_try_withdraw. cbn [tokens].
      replace (tokens b - Z.of_nat (n - 1) * SCALE <? SCALE) with false; [split; [reflexivity|exact I]|].
      symmetry. apply Z.ltb_ge. replace (Z.of_nat (S (n - 1))) with (Z.of_nat (n - 1) + 1) in Hg by lia.
      unfold SCALE in *. lia.
  Qed.

  (* ------------------------------------------------------------------ *)
  (* poll-granular model: several requests, one budget, any schedule *)
  Notation rin := (rin Res Err).
  Notation rst := (rst Res Err).
  Notation st := (st Res Err).

  Definition retryable (c : cfg) (inp : rin) (cl : call) : Prop :=
    exists e, c_out cl = Fail e /\ should_retry c e = true /\ (S (c_idx cl) < r_max inp)%nat.

  (* the log of finished inner calls (newest first): attempt numbers are consecutive,
     outcomes are the wrapped service's, every call but the newest failed with a
     retryable error below max_attempts, and the next call started no earlier than
     that failure was observed plus the backoff for it *)
  Fixpoint wf_log (c : cfg) (inp : rin) (l : list call) : Prop :=
    match l with
    | [] => True
    | cl :: rest =>
      c_idx cl = length rest /\ c_out cl = snd (r_inner inp (c_idx cl)) /\
      c_start cl <= c_end cl /\
      match rest with
      | [] => True
      | prev :: _ => retryable c inp prev /\
                     c_end prev + Z.max 0 (backoff c (c_idx prev)) <= c_start cl
      end /\ wf_log c inp rest
    end.

  Definition done_spec (c : cfg) (inp : rin) (hb : bool) (r : rst) (x : Res + Err) (w : why) : Prop :=
    match w with
    | WNotReady =>
      exists prev rest e, log r = prev :: rest /\ S (c_idx prev) = attempt r /\
                          retryable c inp prev /\ r_ready inp (attempt r) = RErr e /\ x = inr e
    | WFuel => False
    | _ =>
      exists cl rest, log r = cl :: rest /\ c_idx cl = attempt r /\ x = out_res (c_out cl) /\
        match w with
        | WOk => exists v, c_out cl = Ok v
        | WRefused => exists e, c_out cl = Fail e /\ should_retry c e = false
        | WMax => exists e, c_out cl = Fail e /\ should_retry c e = true /\
                            (r_max inp <= S (attempt r))%nat
        | WDenied => exists e, c_out cl = Fail e /\ should_retry c e = true /\
                               (S (attempt r) < r_max inp)%nat /\ hb = true
        | _ => True
        end
    end.

  (* invariant of one call future; [g] = withdrawals granted to it so far *)
  Definition RI (c : cfg) (inp : rin) (hb : bool) (t : Z) (r : rst) (g : nat) : Prop :=
    wf_log c inp (log r) /\
    match ph r with
    | PInit => attempt r = 0%nat /\ log r = [] /\ res r = None /\ g = 0%nat
    | PCalling _ =>
      attempt r = length (log r) /\ res r = None /\ cur_start r <= t /\
      (hb = true -> g = attempt r) /\
      match log r with
      | [] => True
      | prev :: _ => retryable c inp prev /\
                     c_end prev + Z.max 0 (backoff c (c_idx prev)) <= cur_start r
      end
    | PSleeping dl =>
      res r = None /\ (hb = true -> g = S (attempt r)) /\
      exists prev rest, log r = prev :: rest /\ c_idx prev = attempt r /\ retryable c inp prev /\
                        dl = c_end prev + Z.max 0 (backoff c (c_idx prev))
    | PReadying _ =>
      res r = None /\ (hb = true -> g = attempt r) /\
      exists prev rest, log r = prev :: rest /\ S (c_idx prev) = attempt r /\ retryable c inp prev /\
                        c_end prev + Z.max 0 (backoff c (c_idx prev)) <= t
    | PDone =>
      (hb = true -> g = attempt r) /\ exists x w, res r = Some (x, w) /\ done_spec c inp hb r x w
    end.

  Definition is_grant (o : bop) : bool := match o with BWithdraw true => true | _ => false end.
  Definition is_deposit (o : bop) : bool := match o with BDeposit => true | _ => false end.
  Definition ngr (l : list bop) : nat := length (filter is_grant l).
  Definition ndep (l : list bop) : nat := length (filter is_deposit l).

  Lemma ngr_app l1 l2 : ngr (l1 ++ l2) = (ngr l1 + ngr l2)%nat.
  Proof. unfold ngr. rewrite filter_app, app_length. reflexivity. Qed.
  Lemma ndep_app l1 l2 : ndep (l1 ++ l2) = (ndep l1 + ndep l2)%nat.
  Proof. unfold ndep. rewrite filter_app, app_length. reflexivity. Qed.

  Lemma consistent_app l1 : forall b l2,
    consistent b l1 -> consistent (fold_left apply_op l1 b) l2 -> consistent b (l1 ++ l2).
  Proof.
    induction l1 as [|o l1 IH]; intros b l2 H1 H2; [exact H2|].
    cbn [app]. destruct o as [|g]; cbn [consistent fold_left apply_op] in *.
    - apply IH; assumption.
    - destruct H1 as [Hg H1]. split; [exact Hg|]. apply IH; assumption.
  Qed.

  Lemma is_some_apply_ops (b : option bucket) l : is_some (apply_ops b l) = is_some b.
  Proof. destruct b; reflexivity. Qed.

  Lemma apply_ops_app (b : option bucket) l1 l2 :
    apply_ops (apply_ops b l1) l2 = apply_ops b (l1 ++ l2).
  Proof. destruct b; cbn; [rewrite fold_left_app|]; reflexivity. Qed.

  Definition ops_ok (b : option bucket) (bo : list bop) : Prop :=
    match b with Some bk => consistent bk bo | None => bo = [] end.

  Lemma ops_ok_app b l1 l2 : ops_ok b l1 -> ops_ok (apply_ops b l1) l2 -> ops_ok b (l1 ++ l2).
  Proof.
    destruct b as [bk|]; cbn.
    - apply consistent_app.
    - intros -> ->. reflexivity.
  Qed.

  Lemma wf_log_length c inp cl rest : wf_log c inp (cl :: rest) -> c_idx cl = length rest.
  Proof. intros [H _]. exact H. Qed.

  Definition poll_ok (r r' : rst) (hb : bool) (bo : list bop) (p : pres Res Err) : Prop :=
    (p = Nothing -> ph r = PDone /\ r' = r) /\
    (forall x, p = Ready x -> ph r <> PDone /\ ph r' = PDone /\ exists w, res r' = Some (x, w)) /\
    (In BDeposit bo <-> hb = true /\ exists v, p = Ready (inl v)) /\
    (In (BWithdraw false) bo -> exists e, p = Ready (inr e)).

  Lemma tail_ops_dep hb w : In BDeposit (tail_ops hb w) <-> hb = true /\ w = WOk.
  Proof.
    unfold tail_ops. destruct hb; [|split; [intros []|intros [H _]; discriminate]].
    destruct w; cbn; split; try tauto; try (intros [H|[]]; discriminate);
      try (intros [_ H]; discriminate).
  Qed.

  Lemma tail_ops_deny hb w : In (BWithdraw false) (tail_ops hb w) -> w = WDenied.
  Proof.
    unfold tail_ops. destruct hb; [|intros []].
    destruct w; cbn; try tauto; try (intros [H|[]]; discriminate).
  Qed.

  Lemma poll_ok_pre (r r1 r' : rst) hb pre bo p :
    ph r1 <> PDone -> ph r <> PDone -> ~ In BDeposit pre -> ~ In (BWithdraw false) pre ->
    poll_ok r1 r' hb bo p -> poll_ok r r' hb (pre ++ bo) p.
  Proof.
    intros H1 H0 Hp1 Hp2 [Ha [Hb [Hc Hd]]]. unfold poll_ok.
    split; [intros Hn; destruct (Ha Hn) as [Hx _]; contradiction|].
    split; [intros x Hx; destruct (Hb x Hx) as [_ Hy]; split; [exact H0|exact Hy]|].
    split.
    - rewrite <- Hc. rewrite in_app_iff. tauto.
    - intros Hin. apply Hd. apply in_app_or in Hin. tauto.
  Qed.

  Lemma poll_ok_pre0 (r r1 r' : rst) hb bo p :
    ph r1 <> PDone -> ph r <> PDone -> poll_ok r1 r' hb bo p -> poll_ok r r' hb bo p.
  Proof.
    intros H1 H0 H. apply (poll_ok_pre r r1 r' hb [] bo p H1 H0); [intros []|intros []|exact H].
  Qed.

  Lemma drive_RI (c : cfg) (inp : rin) fuel : forall t r b g r' b' bo p,
    RI c inp (is_some b) t r g ->
    drive c inp fuel t r b = (r', b', bo, p) ->
    RI c inp (is_some b) t r' (g + ngr bo) /\ b' = apply_ops b bo /\ ops_ok b bo /\
    poll_ok r r' (is_some b) bo p.
  Proof.
    induction fuel as [|f IH]; intros t r b g r' b' bo p HI Hd.
    - cbn in Hd. injection Hd as <- <- <- <-. rewrite Nat.add_0_r.
      split; [exact HI|]. split; [destruct b; reflexivity|].
      split; [destruct b; cbn; [exact I|reflexivity]|].
      unfold poll_ok. split; [discriminate|]. split; [discriminate|].
      split; [split; [intros []|intros [_ [v Hv]]; discriminate]|intros []].
    - cbn [drive] in Hd. destruct HI as [Hwf Hph].
      destruct (ph r) as [|av|dl|rel|] eqn:Eph.
      + (* PInit: first poll, service.call(req) *)
        destruct Hph as [Ha [Hl [Hr Hg]]].
        eapply IH in Hd.
        * destruct Hd as [H1 [H2 [H3 H4]]]. split; [exact H1|]. split; [exact H2|].
          split; [exact H3|]. eapply poll_ok_pre0; [| |exact H4]; [cbn [ph start_call]; discriminate|rewrite Eph; discriminate].
        * unfold RI, start_call. cbn [log ph attempt res cur_start].
          split; [exact Hwf|]. rewrite Hl. cbn [length].
          split; [exact Ha|]. split; [exact Hr|]. split; [lia|].
          split; [intros _; lia|exact I].
      + (* PCalling *)
        destruct Hph as [Ha [Hr [Hcs [Hg Hprev]]]].
        destruct av.
        2:{ injection Hd as <- <- <- <-. rewrite Nat.add_0_r.
            split; [split; [exact Hwf|rewrite Eph; repeat split; assumption]|].
            split; [destruct b; reflexivity|].
            split; [destruct b; cbn; [exact I|reflexivity]|].
            unfold poll_ok. split; [discriminate|]. split; [discriminate|].
            split; [split; [intros []|intros [_ [v Hv]]; discriminate]|intros []]. }
        set (o := snd (r_inner inp (attempt r))) in *.
        set (cl := mkCall (attempt r) (cur_start r) t o) in *.
        set (g0 := match b with Some bk => fst (tb_try_withdraw bk) | None => true end) in *.
        assert (Hwf' : wf_log c inp (cl :: log r)).
        { cbn [wf_log]. subst cl. cbn [c_idx c_out c_start c_end].
          split; [exact Ha|]. split; [reflexivity|]. split; [exact Hcs|].
          split; [|exact Hwf]. destruct (log r); [exact I|exact Hprev]. }
        destruct (after_outcome c (is_some b) (r_max inp) (attempt r) o g0) as [bo0 act] eqn:Ea.
        destruct act as [x w|d].
        * (* the future returns *)
          injection Hd as <- <- <- <-.
          apply after_return in Ea. destruct Ea as [Hbo Hw].
          assert (Hng : ngr bo0 = 0%nat).
          { rewrite Hbo. unfold tail_ops. destruct (is_some b); [|reflexivity].
            destruct w; try reflexivity; contradiction. }
          split.
          { unfold RI. cbn [log ph attempt res cur_start]. split; [exact Hwf'|].
            split; [intros Hb; rewrite Hng; specialize (Hg Hb); lia|].
            exists x, w. split; [reflexivity|].
            unfold done_spec. cbn [log attempt].
            destruct w; try contradiction; exists cl, (log r);
              (split; [reflexivity|]); (split; [reflexivity|]); subst cl; cbn [c_out].
            - destruct Hw as [v [Ho ->]]. split; [rewrite Ho; reflexivity|]. exists v. exact Ho.
            - destruct Hw as [e [Ho [Hs ->]]]. split; [rewrite Ho; reflexivity|]. exists e. tauto.
            - destruct Hw as [e [Ho [Hs [Hm ->]]]]. split; [rewrite Ho; reflexivity|]. exists e. tauto.
            - destruct Hw as [e [Ho [Hs [Hm [Hb [_ ->]]]]]]. split; [rewrite Ho; reflexivity|].
              exists e. tauto. }
          split; [reflexivity|].
          split.
          { unfold ops_ok. destruct b as [bk|]; cbn [is_some] in *.
            - rewrite Hbo. unfold tail_ops. destruct w; cbn [consistent]; try exact I; try contradiction.
              destruct Hw as [e [_ [_ [_ [_ [Hg0 _]]]]]]. subst g0. split; [symmetry; exact Hg0|exact I].
            - rewrite Hbo. reflexivity. }
          unfold poll_ok. split; [discriminate|].
          split; [intros x0 Hx; injection Hx as <-; split; [rewrite Eph; discriminate|];
                  split; [reflexivity|exists w; reflexivity]|].
          rewrite Hbo. split.
          { rewrite tail_ops_dep. split.
            - intros [Hb ->]. split; [exact Hb|]. destruct Hw as [v [_ ->]]. exists v; reflexivity.
            - intros [Hb [v Hv]]. split; [exact Hb|]. injection Hv as ->.
              destruct w; try contradiction; try reflexivity; exfalso;
                decompose [ex and] Hw; discriminate. }
          { intros Hin. apply tail_ops_deny in Hin. subst w.
            destruct Hw as [e [_ [_ [_ [_ [_ ->]]]]]]. exists e. reflexivity. }
        * (* retry: sleep, then readiness, then the next call *)
          apply after_retry in Ea.
          destruct Ea as [e [Ho [Hs [Hlt [Hdl [Hbo Hg0]]]]]].
          destruct (drive c inp f t _ (apply_ops b bo0)) as [[[r1 b1] bo1] p1] eqn:Ed.
          injection Hd as <- <- <- <-.
          eapply (IH _ _ _ (g + ngr bo0)%nat) in Ed.
          2:{ rewrite is_some_apply_ops. unfold RI. cbn [log ph attempt res cur_start].
              split; [exact Hwf'|]. split; [exact Hr|].
              split; [intros Hb; specialize (Hg Hb); rewrite Hbo, Hb; cbn; lia|].
              exists cl, (log r). subst cl. cbn [c_idx c_end c_out].
              split; [reflexivity|]. split; [reflexivity|].
              split; [exists e; repeat split; assumption|]. rewrite Hdl. reflexivity. }
          rewrite is_some_apply_ops in Ed. destruct Ed as [H1 [H2 [H3 H4]]].
          split; [rewrite ngr_app, Nat.add_assoc; exact H1|].
          split; [rewrite H2; apply apply_ops_app|].
          split.
          { apply ops_ok_app; [|exact H3]. unfold ops_ok. destruct b as [bk|]; cbn [is_some] in *.
            - rewrite Hbo. cbn [consistent]. subst g0. rewrite (Hg0 eq_refl). split; [reflexivity|exact I].
            - exact Hbo. }
          eapply poll_ok_pre; [| | | |exact H4].
          -- cbn [ph]. discriminate.
          -- rewrite Eph. discriminate.
          -- rewrite Hbo. destruct (is_some b); [intros [H|[]]; discriminate|intros []].
          -- rewrite Hbo. destruct (is_some b); [intros [H|[]]; discriminate|intros []].
      + (* PSleeping *)
        destruct Hph as [Hr [Hg [prev [rest [Hl [Hi [Hre Hdl]]]]]]].
        destruct (dl <=? t) eqn:Et.
        * apply Z.leb_le in Et. eapply IH in Hd.
          -- destruct Hd as [H1 [H2 [H3 H4]]]. split; [exact H1|]. split; [exact H2|].
             split; [exact H3|]. eapply poll_ok_pre0; [| |exact H4]; [cbn [ph start_call]; discriminate|rewrite Eph; discriminate].
          -- unfold RI. cbn [log ph attempt res cur_start]. split; [exact Hwf|].
             split; [exact Hr|]. split; [exact Hg|]. exists prev, rest.
             split; [exact Hl|]. split; [rewrite Hi; reflexivity|]. split; [exact Hre|]. lia.
        * injection Hd as <- <- <- <-. rewrite Nat.add_0_r.
          split; [split; [exact Hwf|rewrite Eph; split; [exact Hr|]; split; [exact Hg|];
                          exists prev, rest; repeat split; assumption]|].
          split; [destruct b; reflexivity|].
          split; [destruct b; cbn; [exact I|reflexivity]|].
          unfold poll_ok. split; [discriminate|]. split; [discriminate|].
          split; [split; [intros []|intros [_ [v Hv]]; discriminate]|intros []].
      + (* PReadying *)
        destruct Hph as [Hr [Hg [prev [rest [Hl [Hi [Hre Hsp]]]]]]].
        assert (Hstart : RI c inp (is_some b) t (start_call inp t r) g).
        { unfold RI, start_call. cbn [log ph attempt res cur_start]. split; [exact Hwf|].
          rewrite Hl in *. apply wf_log_length in Hwf. cbn [length].
          split; [lia|]. split; [exact Hr|]. split; [lia|]. split; [exact Hg|].
          split; [exact Hre|exact Hsp]. }
        destruct (r_ready inp (attempt r)) as [|e|] eqn:Erd.
        * eapply IH in Hd; [|exact Hstart].
          destruct Hd as [H1 [H2 [H3 H4]]]. split; [exact H1|]. split; [exact H2|].
          split; [exact H3|]. eapply poll_ok_pre0; [| |exact H4]; [cbn [ph start_call]; discriminate|rewrite Eph; discriminate].
        * injection Hd as <- <- <- <-. rewrite Nat.add_0_r.
          split.
          { unfold RI. cbn [log ph attempt res cur_start]. split; [exact Hwf|].
            split; [exact Hg|]. exists (inr e), WNotReady. split; [reflexivity|].
            unfold done_spec. cbn [log attempt]. exists prev, rest, e. repeat split; assumption. }
          split; [destruct b; reflexivity|].
          split; [destruct b; cbn; [exact I|reflexivity]|].
          unfold poll_ok. split; [discriminate|].
          split; [intros x Hx; injection Hx as <-; split; [rewrite Eph; discriminate|];
                  split; [reflexivity|exists WNotReady; reflexivity]|].
          split; [split; [intros []|intros [_ [v Hv]]; discriminate]|intros []].
        * destruct rel.
          -- eapply IH in Hd; [|exact Hstart].
             destruct Hd as [H1 [H2 [H3 H4]]]. split; [exact H1|]. split; [exact H2|].
             split; [exact H3|]. eapply poll_ok_pre0; [| |exact H4]; [cbn [ph start_call]; discriminate|rewrite Eph; discriminate].
          -- injection Hd as <- <- <- <-. rewrite Nat.add_0_r.
             split; [split; [exact Hwf|rewrite Eph; split; [exact Hr|]; split; [exact Hg|];
                             exists prev, rest; repeat split; assumption]|].
             split; [destruct b; reflexivity|].
             split; [destruct b; cbn; [exact I|reflexivity]|].
             unfold poll_ok. split; [discriminate|]. split; [discriminate|].
             split; [split; [intros []|intros [_ [v Hv]]; discriminate]|intros []].
      + (* PDone *)
        injection Hd as <- <- <- <-. rewrite Nat.add_0_r.
        split; [split; [exact Hwf|rewrite Eph; exact Hph]|].
        split; [destruct b; reflexivity|].
        split; [destruct b; cbn; [exact I|reflexivity]|].
        unfold poll_ok. split; [intros _; split; [exact Eph|reflexivity]|]. split; [discriminate|].
        split; [split; [intros []|intros [_ [v Hv]]; discriminate]|intros []].
  Qed.

  (* ---------- the shared bucket ---------- *)
  Lemma bucket_ops bo : forall bk,
    consistent bk bo -> 0 <= tokens bk -> 0 <= max_tokens bk ->
    let bk' := fold_left apply_op bo bk in
    max_tokens bk' = max_tokens bk /\ 0 <= tokens bk' /\
    tokens bk' + Z.of_nat (ngr bo) * SCALE <= tokens bk + Z.of_nat (ndep bo) * SCALE.
  Proof.
    induction bo as [|o bo IH]; intros bk Hc H0 Hm; cbn zeta.
    - cbn. lia.
    - cbn [fold_left]. destruct o as [|g]; cbn [consistent apply_op] in *.
      + assert (Hd : 0 <= tokens (tb_deposit bk) <= tokens bk + SCALE).
        { unfold tb_deposit, U64MAX, SCALE. cbn [tokens]. lia. }
        destruct (IH (tb_deposit bk) Hc) as [I1 [I2 I3]]; [lia|exact Hm|].
        cbn zeta in *. cbn [max_tokens tb_deposit] in I1.
        split; [exact I1|]. split; [exact I2|].
        unfold ngr, ndep in *. cbn [filter is_grant is_deposit length]. lia.
      + destruct Hc as [Hg Hc]. unfold tb_try_withdraw in *.
        destruct (tokens bk <? SCALE) eqn:El; cbn [fst snd] in *.
        * destruct (IH bk Hc H0 Hm) as [I1 [I2 I3]]. subst g.
          split; [exact I1|]. split; [exact I2|].
          unfold ngr, ndep in *. cbn [filter is_grant is_deposit length]. exact I3.
        * apply Z.ltb_ge in El.
          destruct (IH _ Hc) as [I1 [I2 I3]]; cbn [tokens max_tokens] in *; [lia|exact Hm|].
          subst g. split; [exact I1|]. split; [exact I2|].
          unfold ngr, ndep in *. cbn [filter is_grant is_deposit length]. lia.
  Qed.

  (* ghost log of budget operations *)
  Definition grants_of (i : nat) (ol : list (nat * bop)) : nat :=
    length (filter (fun x => Nat.eqb (fst x) i && is_grant (snd x)) ol).
  Definition all_grants (ol : list (nat * bop)) : nat := ngr (map snd ol).
  Definition all_deposits (ol : list (nat * bop)) : nat := ndep (map snd ol).

  Lemma len_filter_rev {A} (f : A -> bool) l : length (filter f (rev l)) = length (filter f l).
  Proof.
    induction l as [|x l IH]; [reflexivity|].
    cbn [rev filter]. rewrite filter_app, app_length, IH. cbn [filter].
    destruct (f x); cbn [length]; lia.
  Qed.

  Lemma grants_of_poll i j bo ol :
    grants_of j (rev (map (pair i) bo) ++ ol) =
    ((if Nat.eqb i j then ngr bo else 0) + grants_of j ol)%nat.
  Proof.
    unfold grants_of. rewrite filter_app, app_length. f_equal.
    rewrite len_filter_rev. unfold ngr.
    induction bo as [|o l IH]; cbn [map filter fst snd length].
    - destruct (Nat.eqb i j); reflexivity.
    - destruct (Nat.eqb i j) eqn:E; cbn [andb].
      + destruct (is_grant o); cbn [length]; rewrite IH; reflexivity.
      + exact IH.
  Qed.

  Lemma all_counts_poll i bo ol :
    all_grants (rev (map (pair i) bo) ++ ol) = (ngr bo + all_grants ol)%nat /\
    all_deposits (rev (map (pair i) bo) ++ ol) = (ndep bo + all_deposits ol)%nat.
  Proof.
    unfold all_grants, all_deposits. rewrite map_app, ngr_app, ndep_app.
    rewrite <- map_rev, map_map. cbn [snd]. rewrite map_id.
    unfold ngr, ndep. rewrite !len_filter_rev. split; reflexivity.
  Qed.

  Fixpoint sumn (f : nat -> nat) (n : nat) : nat :=
    match n with O => O | S m => (sumn f m + f m)%nat end.

  Lemma sumn_le f g n : (forall i, (i < n)%nat -> (f i <= g i)%nat) -> (sumn f n <= sumn g n)%nat.
  Proof.
    induction n as [|n IH]; intros H; cbn [sumn]; [lia|].
    specialize (H n (Nat.lt_succ_diag_r n)) as Hn.
    assert (sumn f n <= sumn g n)%nat by (apply IH; intros i Hi; apply H; lia). lia.
  Qed.

  Lemma sumn_indicator j n : sumn (fun i => if Nat.eqb j i then 1%nat else 0%nat) n = if (j <? n)%nat then 1%nat else 0%nat.
  Proof.
    induction n as [|n IH]; [reflexivity|]. cbn [sumn]. rewrite IH.
    destruct (Nat.ltb_spec j n), (Nat.eqb_spec j n), (Nat.ltb_spec j (S n)); lia.
  Qed.

  Lemma sumn_add f g n : sumn (fun i => (f i + g i)%nat) n = (sumn f n + sumn g n)%nat.
  Proof. induction n as [|n IH]; cbn [sumn]; lia. Qed.

  Lemma sumn_ext f g n : (forall i, f i = g i) -> sumn f n = sumn g n.
  Proof. intros H. induction n as [|n IH]; cbn [sumn]; [reflexivity|]. rewrite IH, H. reflexivity. Qed.

  (* every granted withdrawal belongs to one request *)
  Lemma sum_grants_le ol n : (sumn (fun i => grants_of i ol) n <= all_grants ol)%nat.
  Proof.
    induction ol as [|[j o] ol IH].
    - unfold grants_of, all_grants, ngr. cbn. induction n; cbn [sumn]; lia.
    - unfold all_grants, ngr in *. cbn [map snd filter].
      assert (E : forall i, grants_of i ((j, o) :: ol) =
                  ((if Nat.eqb j i then (if is_grant o then 1 else 0) else 0) + grants_of i ol)%nat).
      { intros i. unfold grants_of. cbn [filter fst snd].
        destruct (Nat.eqb j i); cbn [andb]; [destruct (is_grant o)|]; reflexivity. }
      rewrite (sumn_ext _ _ n E), sumn_add.
      destruct (is_grant o); cbn [length].
      + rewrite sumn_indicator. destruct (j <? n)%nat; lia.
      + rewrite (sumn_ext _ (fun _ => 0%nat)) by (intros i; destruct (Nat.eqb j i); reflexivity).
        assert (sumn (fun _ => 0%nat) n = 0%nat) by (clear; induction n; cbn [sumn]; lia). lia.
  Qed.

  (* ---------- global invariant ---------- *)
  Lemma upd_same {A} (f : nat -> A) i v : upd f i v i = v.
  Proof. unfold upd. rewrite Nat.eqb_refl. reflexivity. Qed.
  Lemma upd_other {A} (f : nat -> A) i v j : j <> i -> upd f i v j = f j.
  Proof. intros H. unfold upd. apply Nat.eqb_neq in H. rewrite H. reflexivity. Qed.

  Definition wf_bucket (b0 : option bucket) : Prop :=
    match b0 with Some k => 0 <= tokens k /\ 0 <= max_tokens k | None => True end.

  (* bucket accounting: what is left plus what was granted never exceeds the initial
     content plus one token per deposit *)
  Definition BI (b0 : option bucket) (s : st) : Prop :=
    match b0, bud s with
    | Some k0, Some k =>
      max_tokens k = max_tokens k0 /\ 0 <= tokens k /\
      tokens k + Z.of_nat (all_grants (oplog s)) * SCALE <=
      tokens k0 + Z.of_nat (all_deposits (oplog s)) * SCALE
    | None, None => True
    | _, _ => False
    end.

  Definition GI (c : cfg) (inps : nat -> rin) (b0 : option bucket) (s : st) : Prop :=
    (forall i, RI c (inps i) (is_some b0) (now s) (reqs s i) (grants_of i (oplog s))) /\ BI b0 s.

  Lemma BI_is_some b0 s : BI b0 s -> is_some (bud s) = is_some b0.
  Proof. unfold BI. destruct b0, (bud s); cbn; tauto. Qed.

  Lemma RI_mono c inp hb t t' r g : t <= t' -> RI c inp hb t r g -> RI c inp hb t' r g.
  Proof.
    intros Ht [Hwf H]. split; [exact Hwf|]. destruct (ph r); try exact H.
    - destruct H as [H1 [H2 [H3 H4]]]. repeat split; try assumption; try tauto. lia.
    - destruct H as [H1 [H2 [prev [rest [H3 [H4 [H5 H6]]]]]]]. split; [exact H1|]. split; [exact H2|].
      exists prev, rest. repeat split; try assumption. lia.
  Qed.

  Lemma GI_init c inps b0 : wf_bucket b0 -> GI c inps b0 (init b0).
  Proof.
    intros Hb. split.
    - intros i. unfold RI. cbn. tauto.
    - unfold BI. cbn. destruct b0 as [k|]; [|exact I]. cbn in Hb.
      unfold all_grants, all_deposits, ngr, ndep. cbn. lia.
  Qed.

  Lemma GI_step c inps b0 s e : wf_bucket b0 -> GI c inps b0 s -> GI c inps b0 (step_st c inps s e).
  Proof.
    intros Hb0 [HR HB]. unfold step_st. destruct e as [i|d|i|i]; cbn [step].
    - (* Poll *)
      destruct (drive c (inps i) (poll_fuel (inps i)) (now s) (reqs s i) (bud s))
        as [[[r' b'] bo] p] eqn:Ed.
      cbn [fst]. pose proof (BI_is_some _ _ HB) as Hsome.
      pose proof (HR i) as Hi. rewrite <- Hsome in Hi.
      destruct (drive_RI _ _ _ _ _ _ _ _ _ _ _ Hi Ed) as [H1 [H2 [H3 _]]].
      rewrite Hsome in H1. split.
      + intros j. cbn [now reqs oplog]. rewrite grants_of_poll.
        destruct (Nat.eq_dec j i) as [->|Hne].
        * rewrite upd_same, Nat.eqb_refl, Nat.add_comm. exact H1.
        * rewrite upd_other by exact Hne.
          replace (Nat.eqb i j) with false by (symmetry; apply Nat.eqb_neq; congruence).
          apply HR.
      + unfold BI in *. cbn [bud oplog]. destruct (all_counts_poll i bo (oplog s)) as [Eg Edp].
        rewrite Eg, Edp. subst b'. destruct b0 as [k0|], (bud s) as [k|]; cbn [apply_ops]; try tauto.
        destruct HB as [Hm [H0 Hle]]. cbn in Hb0. cbn [ops_ok] in H3.
        destruct (bucket_ops bo k H3 H0) as [I1 [I2 I3]]; [lia|]. cbn zeta in *.
        split; [congruence|]. split; [exact I2|]. lia.
    - (* Advance *)
      cbn [fst]. split.
      + intros i. cbn [now reqs oplog]. eapply RI_mono; [|apply HR]. lia.
      + exact HB.
    - (* Complete *)
      destruct (ph (reqs s i)) as [|[|]|dl|rel|] eqn:Eph; cbn [fst]; try (split; assumption).
      split; [|exact HB]. intros j. cbn [now reqs oplog].
      destruct (Nat.eq_dec j i) as [->|Hne]; [|rewrite upd_other by exact Hne; apply HR].
      rewrite upd_same. specialize (HR i). unfold RI in *. rewrite Eph in HR.
      cbn [ph log attempt res cur_start]. exact HR.
    - (* MakeReady *)
      destruct (ph (reqs s i)) as [|av|dl|[|]|] eqn:Eph; cbn [fst]; try (split; assumption).
      split; [|exact HB]. intros j. cbn [now reqs oplog].
      destruct (Nat.eq_dec j i) as [->|Hne]; [|rewrite upd_other by exact Hne; apply HR].
      rewrite upd_same. specialize (HR i). unfold RI in *. rewrite Eph in HR.
      cbn [ph log attempt res cur_start]. exact HR.
  Qed.

  Lemma GI_reach c inps b0 evs :
    wf_bucket b0 -> Forall (GI c inps b0) (states (step_st c inps) (init b0) evs).
  Proof.
    intros Hb. apply reach_inv; [apply GI_init; exact Hb|].
    intros s e H. apply GI_step; assumption.
  Qed.

  (* ---------- what the invariant says about inner calls ---------- *)
  Definition retries (r : rst) : nat := Nat.pred (length (started_calls r)).

  Lemma started_length (r : rst) :
    length (started_calls r) =
    (length (log r) + match ph r with PCalling _ => 1 | _ => 0 end)%nat.
  Proof.
    unfold started_calls. rewrite app_length, map_length, rev_length.
    destruct (ph r); reflexivity.
  Qed.

  Lemma RI_calls c inp hb t r g :
    RI c inp hb t r g ->
    (length (started_calls r) <= Nat.max 1 (r_max inp))%nat /\ (hb = true -> (retries r <= g)%nat).
  Proof.
    intros [Hwf H]. unfold retries. rewrite started_length.
    assert (Hlog : forall prev rest, log r = prev :: rest -> retryable c inp prev ->
                   (length (log r) <= r_max inp)%nat /\ length (log r) = S (c_idx prev)).
    { intros prev rest Hl [e [_ [_ Hlt]]]. rewrite Hl in *. apply wf_log_length in Hwf.
      cbn [length]. lia. }
    destruct (ph r) as [|av|dl|rel|].
    - destruct H as [_ [Hl _]]. rewrite Hl. cbn. split; lia.
    - destruct H as [Ha [_ [_ [Hg Hp]]]]. destruct (log r) as [|prev rest] eqn:El.
      + cbn [length] in *. split; [lia|]. intros Hb. specialize (Hg Hb). lia.
      + destruct Hp as [Hre _]. destruct (Hlog prev rest eq_refl Hre) as [H1 H2].
        destruct Hre as [e [_ [_ Hlt]]]. split; [lia|]. intros Hb. specialize (Hg Hb). lia.
    - destruct H as [_ [Hg [prev [rest [Hl [Hi [Hre _]]]]]]].
      destruct (Hlog prev rest Hl Hre) as [H1 H2]. split; [lia|]. intros Hb. specialize (Hg Hb). lia.
    - destruct H as [_ [Hg [prev [rest [Hl [Hi [Hre _]]]]]]].
      destruct (Hlog prev rest Hl Hre) as [H1 H2]. split; [lia|]. intros Hb. specialize (Hg Hb). lia.
    - destruct H as [Hg [x [w [_ Hd]]]]. unfold done_spec in Hd.
      assert (Hgen : forall cl rest, log r = cl :: rest -> c_idx cl = attempt r ->
                (length (log r) + 0 <= Nat.max 1 (r_max inp))%nat /\
                (hb = true -> (Nat.pred (length (log r) + 0) <= g)%nat)).
      { intros cl rest Hl Hi. pose proof Hwf as Hwf2. rewrite Hl in Hwf2. cbn [wf_log] in Hwf2.
        destruct Hwf2 as [Hidx [_ [_ [Hp _]]]]. rewrite Hl. cbn [length].
        split.
        - destruct rest as [|prev rest']; cbn [length] in *; [lia|].
          destruct Hp as [[e [_ [_ Hlt]]] _]. rewrite Hl in Hwf. cbn [wf_log] in Hwf.
          destruct Hwf as [_ [_ [_ [_ Hwf']]]]. apply wf_log_length in Hwf'. lia.
        - intros Hb. specialize (Hg Hb). lia. }
      destruct w; try contradiction;
        try (destruct Hd as [cl [rest [Hl [Hi _]]]]; exact (Hgen cl rest Hl Hi)).
      destruct Hd as [prev [rest [e [Hl [Hi [Hre _]]]]]].
      destruct (Hlog prev rest Hl Hre) as [H1 H2]. split; [lia|]. intros Hb. specialize (Hg Hb). lia.
  Qed.

  (* C05_shared_budget *)
  Lemma shared_budget (c : cfg) (inps : nat -> rin) (k0 : bucket) evs n :
    0 <= tokens k0 -> 0 <= max_tokens k0 ->
    Forall (fun s => exists k, bud s = Some k /\ 0 <= tokens k /\
              Z.of_nat (sumn (fun i => retries (reqs s i)) n) * SCALE + tokens k <=
              tokens k0 + Z.of_nat (all_deposits (oplog s)) * SCALE)
           (states (step_st c inps) (init (Some k0)) evs).
  Proof.
    intros H0 Hm. eapply Forall_impl; [|apply (GI_reach c inps (Some k0) evs); cbn; split; assumption].
    intros s [HR HB]. unfold BI in HB. destruct (bud s) as [k|]; [|contradiction].
    destruct HB as [_ [Hk Hle]]. exists k. split; [reflexivity|]. split; [exact Hk|].
    assert (Hs : (sumn (fun i => retries (reqs s i)) n <= all_grants (oplog s))%nat).
    { etransitivity; [|apply (sum_grants_le (oplog s) n)]. apply sumn_le. intros i _.
      destruct (RI_calls _ _ _ _ _ _ (HR i)) as [_ H]. apply H. reflexivity. }
    unfold SCALE in *. lia.
  Qed.

  (* any schedule, any interleaving: per-request clauses *)
  Definition sched_spec (c : cfg) (inp : rin) (hb : bool) (t : Z) (r : rst) : Prop :=
    (length (started_calls r) <= Nat.max 1 (r_max inp))%nat /\
    wf_log c inp (log r) /\
    (forall av prev rest, ph r = PCalling av -> log r = prev :: rest ->
        retryable c inp prev /\ c_end prev + Z.max 0 (backoff c (c_idx prev)) <= cur_start r) /\
    (ph r = PDone <-> res r <> None) /\
    (forall x w, res r = Some (x, w) -> done_spec c inp hb r x w).

  Lemma RI_sched c inp hb t r g : RI c inp hb t r g -> sched_spec c inp hb t r.
  Proof.
    intros H. pose proof (RI_calls _ _ _ _ _ _ H) as [Hc _]. destruct H as [Hwf H].
    split; [exact Hc|]. split; [exact Hwf|].
    destruct (ph r) as [|av|dl|rel|] eqn:Eph.
    - destruct H as [_ [_ [Hr _]]]. rewrite Hr.
      split; [discriminate|]. split; [split; [discriminate|congruence]|discriminate].
    - destruct H as [_ [Hr [_ [_ Hp]]]]. rewrite Hr.
      split; [intros av' prev rest _ Hl; rewrite Hl in Hp; exact Hp|].
      split; [split; [discriminate|congruence]|discriminate].
    - destruct H as [Hr _]. rewrite Hr.
      split; [discriminate|]. split; [split; [discriminate|congruence]|discriminate].
    - destruct H as [Hr _]. rewrite Hr.
      split; [discriminate|]. split; [split; [discriminate|congruence]|discriminate].
    - destruct H as [_ [x [w [Hr Hd]]]]. rewrite Hr.
      split; [discriminate|]. split; [split; [discriminate|reflexivity]|].
      intros x' w' E. injection E as <- <-. exact Hd.
  Qed.

  Lemma any_schedule (c : cfg) (inps : nat -> rin) b0 evs :
    wf_bucket b0 ->
    Forall (fun s => forall i, sched_spec c (inps i) (is_some b0) (now s) (reqs s i))
           (states (step_st c inps) (init b0) evs).
  Proof.
    intros Hb. eapply Forall_impl; [|apply (GI_reach c inps b0 evs Hb)].
    intros s [HR _] i. eapply RI_sched. apply HR.
  Qed.

  (* a poll before the deadline of the backoff sleep does nothing; the first poll at or
     after it (service ready) issues the next inner call at that very instant *)
  Lemma poll_before_deadline (c : cfg) (inp : rin) f t r b dl :
    ph r = PSleeping dl -> t < dl -> drive c inp (S f) t r b = (r, b, [], Pending).
  Proof.
    intros Hp Ht. cbn [drive]. rewrite Hp.
    replace (dl <=? t) with false by (symmetry; apply Z.leb_gt; exact Ht). reflexivity.
  Qed.

  Lemma poll_at_deadline (c : cfg) (inp : rin) f t r b dl :
    ph r = PSleeping dl -> dl <= t -> r_ready inp (S (attempt r)) = ROk ->
    drive c inp (S (S f)) t r b =
    drive c inp f t (mkRst (PCalling (negb (fst (r_inner inp (S (attempt r)))))) (S (attempt r)) t
                           (log r) (res r)) b.
  Proof.
    intros Hp Ht Hr. cbn [drive]. rewrite Hp.
    replace (dl <=? t) with true by (symmetry; apply Z.leb_le; exact Ht).
    cbn [ph attempt]. rewrite Hr. reflexivity.
  Qed.

  (* ---------- a poll only returns Pending when the future really waits ---------- *)
  Definition waiting (inp : rin) (t : Z) (r : rst) : Prop :=
    match ph r with
    | PCalling false => True
    | PSleeping dl => t < dl
    | PReadying false => r_ready inp (attempt r) = RGated
    | _ => False
    end.

  Definition mu (inp : rin) (r : rst) : nat :=
    let m := (Nat.max 1 (r_max inp) - attempt r)%nat in
    match ph r with
    | PInit | PReadying _ => (4 * m + 3)%nat
    | PCalling _ => (4 * m + 2)%nat
    | PSleeping _ => (4 * m + 1)%nat
    | PDone => 0%nat
    end.

  Definition sleep_ok (inp : rin) (r : rst) : Prop :=
    forall dl, ph r = PSleeping dl -> (S (attempt r) < r_max inp)%nat.

  Lemma drive_progress (c : cfg) (inp : rin) fuel : forall t r b r' b' bo,
    sleep_ok inp r -> (mu inp r < fuel)%nat ->
    drive c inp fuel t r b = (r', b', bo, Pending) -> waiting inp t r'.
  Proof.
    induction fuel as [|f IH]; intros t r b r' b' bo Hs Hmu Hd; [lia|].
    cbn [drive] in Hd. unfold mu in Hmu.
    destruct (ph r) as [|av|dl|rel|] eqn:Eph.
    - eapply IH; [| |exact Hd].
      + intros dl H. discriminate.
      + unfold mu, start_call. cbn [ph attempt]. lia.
    - destruct av.
      2:{ injection Hd as <- <- <-. unfold waiting. rewrite Eph. exact I. }
      destruct (after_outcome c (is_some b) (r_max inp) (attempt r)
                  (snd (r_inner inp (attempt r)))
                  match b with Some bk => fst (tb_try_withdraw bk) | None => true end)
        as [bo0 act] eqn:Ea.
      destruct act as [x w|d]; [discriminate|].
      apply after_retry in Ea. destruct Ea as [e [_ [_ [Hlt _]]]].
      destruct (drive c inp f t _ (apply_ops b bo0)) as [[[r1 b1] bo1] p1] eqn:Ed.
      injection Hd as <- <- <- ->.
      eapply IH; [| |exact Ed].
      + intros dl _. cbn [attempt]. exact Hlt.
      + unfold mu. cbn [ph attempt]. lia.
    - destruct (dl <=? t) eqn:Et.
      + specialize (Hs dl Eph). eapply IH; [| |exact Hd].
        * intros dl' H. discriminate.
        * unfold mu. cbn [ph attempt]. lia.
      + injection Hd as <- <- <-. unfold waiting. rewrite Eph. apply Z.leb_gt. exact Et.
    - destruct (r_ready inp (attempt r)) as [|e|] eqn:Er.
      + eapply IH; [| |exact Hd].
        * intros dl H. discriminate.
        * unfold mu, start_call. cbn [ph attempt]. lia.
      + discriminate.
      + destruct rel.
        * eapply IH; [| |exact Hd].
          -- intros dl H. discriminate.
          -- unfold mu, start_call. cbn [ph attempt]. lia.
        * injection Hd as <- <- <-. unfold waiting. rewrite Eph. exact Er.
    - discriminate.
  Qed.

  Lemma RI_sleep_ok c inp hb t r g : RI c inp hb t r g -> sleep_ok inp r.
  Proof.
    intros [_ H] dl Hp. rewrite Hp in H.
    destruct H as [_ [_ [prev [rest [_ [Hi [[e [_ [_ Hlt]]] _]]]]]]]. lia.
  Qed.

  Lemma mu_lt_fuel inp r : (mu inp r < poll_fuel inp)%nat.
  Proof. unfold mu, poll_fuel. destruct (ph r); lia. Qed.

  (* what one Poll event does, in any reachable state *)
  Lemma poll_event (c : cfg) (inps : nat -> rin) b0 evs i :
    wf_bucket b0 ->
    let s := fold_left (step_st c inps) evs (init b0) in
    let s' := fst (step c inps s (Poll i)) in
    let o := snd (step c inps s (Poll i)) in
    (o_res o = Pending -> waiting (inps i) (now s) (reqs s' i)) /\
    (o_res o = Nothing -> ph (reqs s i) = PDone /\ reqs s' i = reqs s i) /\
    (forall x, o_res o = Ready x ->
       ph (reqs s i) <> PDone /\ ph (reqs s' i) = PDone /\ exists w, res (reqs s' i) = Some (x, w)) /\
    (In BDeposit (o_ops o) <-> is_some b0 = true /\ exists v, o_res o = Ready (inl v)) /\
    (In (BWithdraw false) (o_ops o) -> exists e, o_res o = Ready (inr e)) /\
    (is_some b0 = false -> o_ops o = []).
  Proof.
    intros Hb. cbn zeta.
    set (s := fold_left (step_st c inps) evs (init b0)).
    assert (HG : GI c inps b0 s).
    { apply fold_left_inv; [apply GI_init; exact Hb|]. intros s0 e H. apply GI_step; assumption. }
    destruct HG as [HR HB]. cbn [step].
    destruct (drive c (inps i) (poll_fuel (inps i)) (now s) (reqs s i) (bud s))
      as [[[r' b'] bo] p] eqn:Ed.
    cbn [fst snd o_res o_ops reqs]. rewrite upd_same.
    pose proof (BI_is_some _ _ HB) as Hsome. pose proof (HR i) as Hi. rewrite <- Hsome in Hi.
    destruct (drive_RI _ _ _ _ _ _ _ _ _ _ _ Hi Ed) as [_ [_ [H3 [P1 [P2 [P3 P4]]]]]].
    rewrite Hsome in *.
    split.
    { intros ->. eapply drive_progress; [| |exact Ed].
      - eapply RI_sleep_ok. exact Hi.
      - apply mu_lt_fuel. }
    split; [exact P1|]. split; [exact P2|]. split; [exact P3|]. split; [exact P4|].
    intros Hn. unfold ops_ok in H3. destruct (bud s); [cbn in Hsome; congruence|exact H3].
  Qed.
End RetryProofs.

(* ---------- non-vacuity: the hypotheses and every stop reason are reachable ---------- *)
Module Examples.
  Definition c1 : cfg Zerr := {| pred := Some (fun e => snd e); backoff := fun k => 5 * Z.of_nat (S k) |}.
  Definition fails_then_ok (n : nat) (k : nat) : Z * outcome Z Zerr :=
    (3, if (k <? n)%nat then Fail (Z.of_nat k, true) else Ok 42).
  Definition rd0 (k : nat) : Z * option Zerr := (0, None).

  (* three failures, then success: 4 calls, backoffs 5, 10, 15 after latencies of 3 *)
  Example run_ok :
    let r := retry_run c1 true 5 (fails_then_ok 3) rd0 (fun _ => true) 100 in
    map (fun cl => (c_start cl, c_end cl)) (calls r) = [(100, 103); (108, 111); (121, 124); (139, 142)] /\
    result r = inl 42 /\ reason r = WOk /\
    ops r = [BWithdraw true; BWithdraw true; BWithdraw true; BDeposit].
  Proof. vm_compute. repeat split; reflexivity. Qed.

  Example run_max : reason (retry_run c1 false 2 (fails_then_ok 3) rd0 (fun _ => true) 0) = WMax /\
                    length (calls (retry_run c1 false 2 (fails_then_ok 3) rd0 (fun _ => true) 0)) = 2%nat.
  Proof. vm_compute. split; reflexivity. Qed.

  Example run_max0 : length (calls (retry_run c1 false 0 (fails_then_ok 3) rd0 (fun _ => true) 0)) = 1%nat.
  Proof. reflexivity. Qed.

  Example run_refused :
    reason (retry_run (Res:=Z) c1 false 5 (fun k => (0, Fail (7, negb (Nat.eqb k 1)))) rd0 (fun _ => true) 0) = WRefused.
  Proof. reflexivity. Qed.

  Example run_denied :
    let r := retry_run c1 true 5 (fails_then_ok 3) rd0 (seq_grant (tb_new 10 1)) 0 in
    reason r = WDenied /\ length (calls r) = 2%nat /\ ops r = [BWithdraw true; BWithdraw false].
  Proof. vm_compute. repeat split; reflexivity. Qed.

  Example run_not_ready :
    let r := retry_run c1 false 5 (fails_then_ok 3)
                       (fun k => (0, if Nat.eqb k 2 then Some (9, true) else None)) (fun _ => true) 0 in
    reason r = WNotReady /\ length (calls r) = 2%nat /\ result r = inr (9, true).
  Proof. vm_compute. repeat split; reflexivity. Qed.

  (* two requests on one bucket holding one token: request 0 gets it, request 1 is denied,
     and the prompt schedule of request 0 reproduces the instants of [retry_run] *)
  Definition inp (i : nat) : rin Z Zerr :=
    {| r_max := 3;
       r_inner := fun k => (true, if (k <? 1)%nat then Fail (Z.of_nat (10 * i + k), true) else Ok 42);
       r_ready := fun _ => ROk |}.
  Definition evs : list ev :=
    [Poll 0; Poll 1; Advance 3; Complete 0; Poll 0; Complete 1; Poll 1;
     Advance 5; Poll 0; Advance 3; Complete 0; Poll 0].
  Definition sfin := fold_left (step_st c1 inp) evs (init (Some (tb_new 2 1))).

  Example shared :
    started_calls (reqs sfin 0) = [(0, 3); (8, 11)] /\
    res (reqs sfin 0) = Some (inl 42, WOk) /\
    res (reqs sfin 1) = Some (inr (10, true), WDenied) /\
    oplog sfin = [(0%nat, BDeposit); (1%nat, BWithdraw false); (0%nat, BWithdraw true)] /\
    option_map tb_balance (bud sfin) = Some 1.
  Proof. vm_compute. repeat split; reflexivity. Qed.

  Example shared_matches_run :
    map (fun cl => (c_start cl, c_end cl))
        (calls (retry_run c1 true 3 (fun k => (3, snd (r_inner (inp 0) k))) rd0 (fun _ => true) 0)) =
    started_calls (reqs sfin 0).
  Proof. vm_compute. reflexivity. Qed.
End Examples.
