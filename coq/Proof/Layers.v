(* C20: the readiness contract is preserved by every layer discipline, every stack and every
   client program; readiness errors surface exactly once; every issued request reaches the wrapped
   service unchanged; pass-through layers compose; listeners only observe. *)
From TR Require Import Lib.Base Model.Layers.

Local Open Scope nat_scope.

(* ------------------------------------------------------------------------- *)
(* An abstract "service with instances": what a layer may assume of the service it wraps
   and must guarantee to its own client. *)
Record iface (T : Type) := mkI {
  iI : T -> Prop;                  (* state invariant *)
  irdy : T -> nat -> bool;         (* instance x has been polled Ready since its last call *)
  ivalid : T -> nat -> Prop;       (* instance x exists *)
  iviol : T -> nat                 (* contract violations seen by the wrapped service *)
}.
Arguments mkI {T}. Arguments iI {T}. Arguments irdy {T}. Arguments ivalid {T}. Arguments iviol {T}.

Section Spec.
  Context {T : Type} (sub : T -> op -> T * ans) (F : iface T).

  (* "frame": the operation preserved the invariant, raised no violation, kept every
     instance and did not touch the readiness of instances outside [touched] *)
  Definition frame (t t' : T) (touched : nat -> Prop) : Prop :=
    iI F t' /\ iviol F t' = iviol F t /\
    (forall y, ivalid F t y -> ivalid F t' y) /\
    (forall y, ivalid F t y -> ~ touched y -> irdy F t' y = irdy F t y).

  Record spec : Prop := {
    sp_poll : forall t x, iI F t -> ivalid F t x ->
      frame t (fst (sub t (OPoll x))) (eq x) /\
      (forall y, ivalid F (fst (sub t (OPoll x))) y -> ivalid F t y) /\
      exists r, snd (sub t (OPoll x)) = ARes r /\
                (r = RReady -> irdy F (fst (sub t (OPoll x))) x = true);
    sp_call : forall t x q, iI F t -> ivalid F t x -> irdy F t x = true ->
      frame t (fst (sub t (OCall x q))) (eq x) /\
      (forall y, ivalid F (fst (sub t (OCall x q))) y -> ivalid F t y);
    sp_clone : forall t x, iI F t -> ivalid F t x ->
      frame t (fst (sub t (OClone x))) (fun _ => False) /\
      exists x', snd (sub t (OClone x)) = AId x' /\ ~ ivalid F t x' /\
                 ivalid F (fst (sub t (OClone x))) x' /\
                 (forall y, ivalid F (fst (sub t (OClone x))) y -> ivalid F t y \/ y = x')
  }.

  Context (Hs : spec).

  Lemma frame_refl t P : iI F t -> frame t t P.
  Proof. intros H. repeat split; auto. Qed.

  Lemma frame_trans t1 t2 t3 (P : nat -> Prop) :
    frame t1 t2 P -> frame t2 t3 P -> frame t1 t3 P.
  Proof.
    intros (A1 & A2 & A3 & A4) (B1 & B2 & B3 & B4). repeat split; auto; try congruence.
    intros y Hy Hn. rewrite B4; auto.
  Qed.

  Lemma frame_weaken t t' (P Q : nat -> Prop) :
    (forall y, P y -> Q y) -> frame t t' P -> frame t t' Q.
  Proof. intros HPQ (A1 & A2 & A3 & A4). repeat split; auto. Qed.

  (* polling y until Ready *)
  Lemma poll_until_spec fuel : forall t y, iI F t -> ivalid F t y ->
    frame t (fst (poll_until sub fuel t y)) (eq y) /\
    (forall z, ivalid F (fst (poll_until sub fuel t y)) z -> ivalid F t z) /\
    (snd (poll_until sub fuel t y) = RReady -> irdy F (fst (poll_until sub fuel t y)) y = true).
  Proof.
    induction fuel as [|f IH]; intros t y HI Hv; cbn [poll_until].
    - cbn. split; [apply frame_refl; exact HI|]. split; [auto|discriminate].
    - destruct (sp_poll Hs t y HI Hv) as (Hf & Hback & r & Hr & Hrdy).
      destruct (sub t (OPoll y)) as [t1 a] eqn:E. cbn [fst snd] in *. subst a.
      destruct r; cbn [fst snd].
      + split; [exact Hf|]. split; [exact Hback|]. intros _. apply Hrdy. reflexivity.
      + pose proof Hf as (A1 & A2 & A3 & A4).
        destruct (IH t1 y A1 (A3 y Hv)) as (Hf2 & Hback2 & Hrdy2).
        split; [eapply frame_trans; [exact Hf|exact Hf2]|].
        split; [intros z Hz; apply Hback; apply Hback2; exact Hz|exact Hrdy2].
      + split; [exact Hf|]. split; [exact Hback|discriminate].
  Qed.

  (* the retry loop on y: no violation, only y touched *)
  Lemma rloop_spec fuel dflt lay : forall rem t y q c, iI F t -> ivalid F t y ->
    frame t (fst (rloop sub fuel dflt lay rem t y q c)) (eq y) /\
    (forall z, ivalid F (fst (rloop sub fuel dflt lay rem t y q c)) z -> ivalid F t z).
  Proof.
    induction rem as [|rem IH]; intros t y q c HI Hv.
    - assert (Hstay : frame t t (eq y) /\ (forall z, ivalid F t z -> ivalid F t z))
        by (split; [apply frame_refl; exact HI|auto]).
      destruct c as [|e|]; cbn [rloop]; try exact Hstay.
      destruct (retryable dflt e); cbn [fst]; exact Hstay.
    - assert (Hstay : frame t t (eq y) /\ (forall z, ivalid F t z -> ivalid F t z))
        by (split; [apply frame_refl; exact HI|auto]).
      destruct c as [|e|]; cbn [rloop]; try exact Hstay.
      destruct (retryable dflt e); cbn [fst]; [|exact Hstay].
      destruct (poll_until_spec fuel t y HI Hv) as (Hf & Hback & Hrdy).
      destruct (poll_until sub fuel t y) as [t1 r] eqn:E. cbn [fst snd] in *.
      destruct r; cbn [fst snd]; try (split; [exact Hf|exact Hback]).
      pose proof Hf as (A1 & A2 & A3 & A4).
      destruct (sp_call Hs t1 y q A1 (A3 y Hv) (Hrdy eq_refl)) as (Hf2 & Hback2).
      destruct (sub t1 (OCall y q)) as [t2 a2] eqn:E2. cbn [fst snd] in *.
      pose proof Hf2 as (B1 & B2 & B3 & B4).
      destruct (IH t2 y q (cres_of a2) B1 (B3 y (A3 y Hv))) as (Hf3 & Hback3).
      split.
      + eapply frame_trans; [exact Hf|]. eapply frame_trans; [exact Hf2|exact Hf3].
      + intros z Hz. apply Hback, Hback2, Hback3. exact Hz.
  Qed.

  (* hedges on fresh clones of y0: no violation, no old instance touched *)
  Definition untouched (t t' : T) : Prop :=
    iI F t' /\ iviol F t' = iviol F t /\
    (forall z, ivalid F t z -> ivalid F t' z) /\
    (forall z, ivalid F t z -> irdy F t' z = irdy F t z).

  Lemma untouched_refl t : iI F t -> untouched t t.
  Proof. intros H. repeat split; auto. Qed.

  (* one hedge attempt: clone y0, poll the clone, call it if ready *)
  Lemma hedge_step fuel t y0 q : iI F t -> ivalid F t y0 ->
    exists h t1, sub t (OClone y0) = (t1, AId h) /\
      let t2 := fst (poll_until sub fuel t1 h) in
      untouched t t2 /\ ivalid F t2 y0 /\
      (snd (poll_until sub fuel t1 h) = RReady ->
       untouched t (fst (sub t2 (OCall h q))) /\ ivalid F (fst (sub t2 (OCall h q))) y0).
  Proof.
    intros HI Hv.
    destruct (sp_clone Hs t y0 HI Hv) as (Hf & h & Hh & Hfresh & Hhv & Hback).
    destruct (sub t (OClone y0)) as [t1 a] eqn:E. cbn [fst snd] in *. subst a.
    exists h, t1. split; [reflexivity|].
    pose proof Hf as (A1 & A2 & A3 & A4).
    destruct (poll_until_spec fuel t1 h A1 Hhv) as (Hf2 & Hback2 & Hrdy).
    destruct (poll_until sub fuel t1 h) as [t2 r] eqn:E2. cbn [fst snd] in *.
    pose proof Hf2 as (B1 & B2 & B3 & B4).
    assert (Hold : forall z, ivalid F t z -> z <> h) by (intros z Hz ->; contradiction).
    assert (U2 : untouched t t2).
    { repeat split; auto; try congruence.
      intros z Hz. rewrite B4; [|auto|intros <-; eapply Hold; eauto]. apply A4; auto. }
    split; [exact U2|]. split; [auto|].
    intros ->.
    destruct (sp_call Hs t2 h q B1 (B3 h Hhv) (Hrdy eq_refl)) as (Hf3 & Hback3).
    destruct (sub t2 (OCall h q)) as [t3 a3] eqn:E3. cbn [fst snd] in *.
    pose proof Hf3 as (C1 & C2 & C3 & C4).
    split; [|auto].
    repeat split; auto; try congruence.
    intros z Hz. rewrite C4; [|auto|intros <-; eapply Hold; eauto].
    rewrite B4; [|auto|intros <-; eapply Hold; eauto]. apply A4; auto.
  Qed.

  Lemma untouched_trans t1 t2 t3 : untouched t1 t2 -> untouched t2 t3 -> untouched t1 t3.
  Proof.
    intros (A1 & A2 & A3 & A4) (B1 & B2 & B3 & B4). repeat split; auto; try congruence.
    intros z Hz. rewrite B4; auto.
  Qed.

  Lemma hedges_spec fuel k : forall t y0 q ok, iI F t -> ivalid F t y0 ->
    untouched t (fst (hedges sub fuel k t y0 q ok)).
  Proof.
    induction k as [|k IH]; intros t y0 q ok HI Hv; cbn [hedges]; [apply untouched_refl; exact HI|].
    destruct (hedge_step fuel t y0 q HI Hv) as (h & t1 & E & U2 & V2 & Hcall). rewrite E.
    destruct (poll_until sub fuel t1 h) as [t2 r] eqn:E2. cbn [fst snd] in *.
    destruct r.
    - destruct (Hcall eq_refl) as [U3 V3].
      destruct (sub t2 (OCall h q)) as [t3 a3]. cbn [fst] in *.
      eapply untouched_trans; [exact U3|]. apply IH; [apply U3|exact V3].
    - eapply untouched_trans; [exact U2|]. apply IH; [apply U2|exact V2].
    - eapply untouched_trans; [exact U2|]. apply IH; [apply U2|exact V2].
  Qed.

  Lemma hseq_spec fuel k : forall t y0 q, iI F t -> ivalid F t y0 ->
    untouched t (fst (hseq sub fuel k t y0 q)).
  Proof.
    induction k as [|k IH]; intros t y0 q HI Hv; cbn [hseq]; [apply untouched_refl; exact HI|].
    destruct (hedge_step fuel t y0 q HI Hv) as (h & t1 & E & U2 & V2 & Hcall). rewrite E.
    destruct (poll_until sub fuel t1 h) as [t2 r] eqn:E2. cbn [fst snd] in *.
    destruct r.
    - destruct (Hcall eq_refl) as [U3 V3].
      destruct (sub t2 (OCall h q)) as [t3 a3]. cbn [fst] in *.
      destruct (is_ok (cres_of a3)); cbn [fst]; [exact U3|].
      eapply untouched_trans; [exact U3|]. apply IH; [apply U3|exact V3].
    - eapply untouched_trans; [exact U2|]. apply IH; [apply U2|exact V2].
    - eapply untouched_trans; [exact U2|]. apply IH; [apply U2|exact V2].
  Qed.
End Spec.
Arguments sp_poll {T sub F}.
Arguments sp_call {T sub F}.
Arguments sp_clone {T sub F}.

(* ------------------------------------------------------------------------- *)

(* the wrapped service satisfies the interface *)
Fixpoint bad_calls (l : list lev) : nat :=
  match l with
  | LCall _ _ false _ :: r => S (bad_calls r)
  | _ :: r => bad_calls r
  | [] => O
  end.

Definition base_iface : iface base :=
  mkI (fun b => violations b = bad_calls (blog b)) (fun b x => ready b x) (fun b x => x < fresh b)
      (fun b => violations b).

Lemma updb_same f i v : updb f i v i = v.
Proof. unfold updb. rewrite Nat.eqb_refl. reflexivity. Qed.
Lemma updb_other f i v j : j <> i -> updb f i v j = f j.
Proof. intros H. unfold updb. apply Nat.eqb_neq in H. rewrite H. reflexivity. Qed.
Lemma updn_same f i v : updn f i v i = v.
Proof. unfold updn. rewrite Nat.eqb_refl. reflexivity. Qed.
Lemma updn_other f i v j : j <> i -> updn f i v j = f j.
Proof. intros H. unfold updn. apply Nat.eqb_neq in H. rewrite H. reflexivity. Qed.

Lemma base_spec : spec base_exec base_iface.
Proof.
  constructor; cbn.
  - intros b x HI Hx. split; [|split].
    + unfold frame. cbn. split; [exact HI|]. split; [reflexivity|]. split; [auto|].
      intros y Hy Hne.
      destruct (answer b x); cbn; try reflexivity; apply updb_other; congruence.
    + auto.
    + exists (answer b x). split; [reflexivity|]. intros ->. apply updb_same.
  - intros b x q HI Hx Hr. rewrite Hr. split; [|auto].
    unfold frame. cbn. split; [exact HI|]. split; [reflexivity|]. split; [auto|].
    intros y Hy Hne. apply updb_other. congruence.
  - intros b x HI Hx. split.
    + unfold frame. cbn. split; [exact HI|]. split; [reflexivity|]. split; [intros; lia|].
      intros y Hy _. apply updb_other. lia.
    + exists (fresh b). split; [reflexivity|]. split; [lia|]. split; [lia|]. intros y Hy. lia.
Qed.

(* ------------------------------------------------------------------------- *)
(* one layer on top of a service satisfying the interface *)
Section Layer.
  Context {T : Type} (sub : T -> op -> T * ans) (F : iface T) (Hs : spec sub F).
  Context (fuel : nat) (d : disc).

  Definition lsub (p : lstate * T) (o : op) : (lstate * T) * ans :=
    let '(l', t', a) := layer_exec sub fuel d (fst p) (snd p) o in ((l', t'), a).

  Definition layer_iface : iface (lstate * T) :=
    mkI (fun p => iI F (snd p) /\
                  (forall x, x < lfresh (fst p) -> ivalid F (snd p) (imap (fst p) x)) /\
                  (forall x y, x < lfresh (fst p) -> y < lfresh (fst p) ->
                               imap (fst p) x = imap (fst p) y -> x = y))
        (fun p x => irdy F (snd p) (imap (fst p) x))
        (fun p x => x < lfresh (fst p))
        (fun p => iviol F (snd p)).

  (* the Swap prefix: clone the ready inner instance, call it *)
  Lemma swap_prefix t y q :
    iI F t -> ivalid F t y -> irdy F t y = true ->
    exists y' t1 t2 a2,
      sub t (OClone y) = (t1, AId y') /\ sub t1 (OCall y q) = (t2, a2) /\
      iI F t2 /\ iviol F t2 = iviol F t /\
      (forall z, ivalid F t z -> ivalid F t2 z) /\
      ivalid F t2 y' /\ ~ ivalid F t y' /\
      (forall z, ivalid F t2 z -> ivalid F t z \/ z = y') /\
      (forall z, ivalid F t z -> z <> y -> irdy F t2 z = irdy F t z).
  Proof.
    intros HI Hy Hr.
    destruct (sp_clone Hs t y HI Hy) as (Hf & y' & Hy' & Hfresh & Hy'v & Hback).
    destruct (sub t (OClone y)) as [t1 a] eqn:E. cbn [fst snd] in *. subst a.
    pose proof Hf as (A1 & A2 & A3 & A4).
    assert (Hr1 : irdy F t1 y = true) by (rewrite A4; auto).
    destruct (sp_call Hs t1 y q A1 (A3 y Hy) Hr1) as (Hf2 & Hback2).
    destruct (sub t1 (OCall y q)) as [t2 a2] eqn:E2. cbn [fst snd] in *.
    pose proof Hf2 as (B1 & B2 & B3 & B4).
    exists y', t1, t2, a2.
    split; [first [reflexivity|assumption]|]. split; [first [reflexivity|assumption]|]. split; [exact B1|]. split; [congruence|].
    split; [auto|]. split; [auto|]. split; [exact Hfresh|]. split.
    - intros z Hz. apply Hback2 in Hz. apply Hback in Hz. exact Hz.
    - intros z Hz Hne. rewrite B4; auto.
  Qed.

  (* what remains to be shown about the final state of a call on top-level instance x *)
  Lemma layer_frame l t x t3 l' :
    iI layer_iface (l, t) -> x < lfresh l ->
    iI F t3 -> iviol F t3 = iviol F t -> (forall z, ivalid F t z -> ivalid F t3 z) ->
    (forall z, ivalid F t z -> z <> imap l x -> irdy F t3 z = irdy F t z) ->
    (l' = l \/ exists y'', l' = mkL (updn (imap l) x y'') (lfresh l) /\ ivalid F t3 y'' /\
                            ~ ivalid F t y'') ->
    frame layer_iface (l, t) (l', t3) (eq x) /\
    (forall z, ivalid layer_iface (l', t3) z -> ivalid layer_iface (l, t) z).
  Proof.
    intros (HI & Hval & Hinj) Hx HI3 Hv3 Hvalid3 Hrdy3 Hl'. cbn in HI, Hval, Hinj.
    assert (Hother : forall z, z < lfresh l -> z <> x -> imap l z <> imap l x)
      by (intros z Hz Hne Heq; apply Hne; apply Hinj; auto).
    destruct Hl' as [->|(y'' & -> & Hy''v & Hy''f)].
    - split; [|cbn; auto]. unfold frame. cbn.
      split; [split; [exact HI3|split; [intros z Hz; apply Hvalid3, Hval, Hz|exact Hinj]]|].
      split; [exact Hv3|]. split; [auto|].
      intros z Hz Hne. apply Hrdy3; [apply Hval; exact Hz|apply Hother; [exact Hz|congruence]].
    - split; [|cbn; auto]. unfold frame. cbn.
      split; [split; [exact HI3|split]|].
      + intros z Hz. destruct (Nat.eq_dec z x) as [->|Hne]; [rewrite updn_same; exact Hy''v|].
        rewrite updn_other by exact Hne. apply Hvalid3, Hval, Hz.
      + intros a b Ha Hb. destruct (Nat.eq_dec a x) as [->|Hna]; destruct (Nat.eq_dec b x) as [->|Hnb];
          rewrite ?updn_same, ?(updn_other _ _ _ _ Hna), ?(updn_other _ _ _ _ Hnb); auto.
        * intros Heq. exfalso. apply Hy''f. rewrite Heq. apply Hval. exact Hb.
        * intros Heq. exfalso. apply Hy''f. rewrite <- Heq. apply Hval. exact Ha.
      + split; [exact Hv3|]. split; [auto|].
        intros z Hz Hne. assert (z <> x) by congruence. rewrite updn_other by assumption.
        apply Hrdy3; [apply Hval; exact Hz|apply Hother; assumption].
  Qed.

  Lemma layer_spec : spec lsub layer_iface.
  Proof.
    constructor.
    - (* poll *)
      intros [l t] x (HI & Hval & Hinj) Hx. cbn in HI, Hval, Hinj, Hx. unfold lsub. cbn [fst snd layer_exec].
      destruct (sp_poll Hs t (imap l x) HI (Hval x Hx)) as (Hf & Hback & r & Hr & Hrdy).
      destruct (sub t (OPoll (imap l x))) as [t1 a] eqn:E. cbn [fst snd] in *. subst a.
      destruct Hf as (A1 & A2 & A3 & A4).
      split; [|split].
      + unfold frame. cbn. split; [split; [exact A1|split; [intros z Hz; apply A3, Hval, Hz|exact Hinj]]|].
        split; [exact A2|]. split; [auto|].
        intros y Hy Hne. apply A4; [auto|]. intros Heq. apply Hne. apply Hinj; auto.
      + cbn. auto.
      + exists r. split; [reflexivity|exact Hrdy].
    - (* call *)
      intros [l t] x q Hinv Hx Hr. pose proof Hinv as (HI & Hval & Hinj).
      cbn in HI, Hval, Hinj, Hx, Hr. unfold lsub. cbn [fst snd layer_exec].
      set (y := imap l x) in *.
      assert (Hy : ivalid F t y) by (apply Hval; exact Hx).
      destruct d as [| |k df|k|k|k df].
      + (* Swap *)
        destruct (swap_prefix t y q HI Hy Hr) as (y' & t1 & t2 & a2 & E1 & E2 & P1 & P2 & P3 & P4 & P5 & P6 & P7).
        rewrite E1, E2. cbn [fst snd].
        apply layer_frame; auto. right. exists y'. auto.
      + (* Direct *)
        destruct (sp_call Hs t y q HI Hy Hr) as (Hf & Hback).
        destruct (sub t (OCall y q)) as [t1 a] eqn:E. cbn [fst snd] in *.
        destruct Hf as (A1 & A2 & A3 & A4).
        apply layer_frame; auto.
      + (* Retry k *)
        destruct (swap_prefix t y q HI Hy Hr) as (y' & t1 & t2 & a2 & E1 & E2 & P1 & P2 & P3 & P4 & P5 & P6 & P7).
        rewrite E1, E2.
        destruct (rloop_spec sub F Hs fuel df false k t2 y q (cres_of a2) P1 (P3 y Hy)) as (Hf & Hback).
        destruct (rloop sub fuel df false k t2 y q (cres_of a2)) as [t3 e] eqn:E3. cbn [fst snd] in *.
        destruct Hf as (A1 & A2 & A3 & A4).
        apply layer_frame; auto; try congruence.
        * intros z Hz Hne. rewrite A4; auto.
        * right. exists y'. auto.
      + (* Hedge k *)
        destruct (swap_prefix t y q HI Hy Hr) as (y' & t1 & t2 & a2 & E1 & E2 & P1 & P2 & P3 & P4 & P5 & P6 & P7).
        rewrite E1, E2.
        destruct (hedges_spec sub F Hs fuel k t2 y' q (is_ok (cres_of a2)) P1 P4) as (D1 & D2 & D3 & D4).
        destruct (hedges sub fuel k t2 y' q (is_ok (cres_of a2))) as [t3 ok]. cbn [fst snd] in *.
        apply layer_frame; auto; try congruence.
        * intros z Hz Hne. rewrite D4; auto.
        * right. exists y'. auto.
      + (* HedgeSeq k *)
        destruct (swap_prefix t y q HI Hy Hr) as (y' & t1 & t2 & a2 & E1 & E2 & P1 & P2 & P3 & P4 & P5 & P6 & P7).
        rewrite E1, E2.
        destruct (is_ok (cres_of a2)).
        { cbn [fst snd]. apply layer_frame; auto. right. exists y'. auto. }
        destruct (hseq_spec sub F Hs fuel k t2 y' q P1 P4) as (D1 & D2 & D3 & D4).
        destruct (hseq sub fuel k t2 y' q) as [t3 ok]. cbn [fst snd] in *.
        apply layer_frame; auto; try congruence.
        * intros z Hz Hne. rewrite D4; auto.
        * right. exists y'. auto.
      + (* Reconnect k *)
        destruct (sp_call Hs t y q HI Hy Hr) as (Hf & Hback).
        destruct (sub t (OCall y q)) as [t1 a] eqn:E. cbn [fst snd] in *.
        pose proof Hf as (A1 & A2 & A3 & A4).
        destruct (sp_clone Hs t1 y A1 (A3 y Hy)) as (Hf2 & z & Hz & Hzfresh & Hzv & Hback2).
        destruct (sub t1 (OClone y)) as [t2 a'] eqn:E2. cbn [fst snd] in *. subst a'.
        pose proof Hf2 as (B1 & B2 & B3 & B4).
        destruct (rloop_spec sub F Hs fuel df true (S k) t2 z q (cres_of a) B1 Hzv) as (Hf3 & Hback3).
        destruct (rloop sub fuel df true (S k) t2 z q (cres_of a)) as [t3 e] eqn:E3. cbn [fst snd] in *.
        destruct Hf3 as (C1 & C2 & C3 & C4).
        apply layer_frame; auto; try congruence.
        intros w Hw Hne. rewrite C4; auto.
        -- rewrite B4; auto.
        -- intros <-. apply Hzfresh. auto.
    - (* clone *)
      intros [l t] x (HI & Hval & Hinj) Hx. cbn in HI, Hval, Hinj, Hx. unfold lsub. cbn [fst snd layer_exec].
      destruct (sp_clone Hs t (imap l x) HI (Hval x Hx)) as (Hf & y' & Hy' & Hfresh & Hy'v & Hback).
      destruct (sub t (OClone (imap l x))) as [t1 a] eqn:E. cbn [fst snd] in *. subst a.
      destruct Hf as (A1 & A2 & A3 & A4). cbn [fst snd].
      split.
      + unfold frame. cbn. split; [split; [exact A1|split]|].
        * intros z Hz. destruct (Nat.eq_dec z (lfresh l)) as [->|Hne]; [rewrite updn_same; exact Hy'v|].
          rewrite updn_other by exact Hne. apply A3, Hval. lia.
        * intros a b Ha Hb.
          destruct (Nat.eq_dec a (lfresh l)) as [->|Hna]; destruct (Nat.eq_dec b (lfresh l)) as [->|Hnb];
            rewrite ?updn_same, ?(updn_other _ _ _ _ Hna), ?(updn_other _ _ _ _ Hnb); auto.
          -- intros Heq. exfalso. apply Hfresh. rewrite Heq. apply Hval. lia.
          -- intros Heq. exfalso. apply Hfresh. rewrite <- Heq. apply Hval. lia.
          -- intros Heq. apply Hinj; auto; lia.
        * split; [exact A2|]. split; [intros; lia|].
          intros z Hz _. rewrite updn_other by lia. apply A4; auto.
      + exists (lfresh l). cbn. split; [reflexivity|]. split; [lia|]. split; [lia|]. intros z Hz. lia.
  Qed.
End Layer.

(* ------------------------------------------------------------------------- *)
(* stacks *)
(* interface of a stack state, by recursion on the stack *)
Fixpoint stack_iface (fuel : nat) (ds : list disc) : iface (list lstate * base) :=
  match ds with
  | [] => mkI (fun t => violations (snd t) = bad_calls (blog (snd t)))
              (fun t x => ready (snd t) x) (fun t x => x < fresh (snd t))
              (fun t => violations (snd t))
  | d :: ds' =>
    let G := layer_iface (stack_iface fuel ds') in
    mkI (fun t => match fst t with l :: ls' => iI G (l, (ls', snd t)) | [] => False end)
        (fun t x => match fst t with l :: ls' => irdy G (l, (ls', snd t)) x | [] => false end)
        (fun t x => match fst t with l :: ls' => ivalid G (l, (ls', snd t)) x | [] => False end)
        (fun t => match fst t with l :: ls' => iviol G (l, (ls', snd t)) | [] => O end)
  end.

Lemma stack_spec fuel ds : spec (execp fuel ds) (stack_iface fuel ds).
Proof.
  induction ds as [|d ds' IH].
  - (* the wrapped service *)
    pose proof base_spec as [Hp Hc Hk].
    constructor; cbn -[base_exec]; unfold execp; cbn [exec].
    + intros [ls b] x HI Hx. cbn [fst snd] in *. specialize (Hp b x HI Hx).
      destruct ls; destruct (base_exec b (OPoll x)) as [b' a]; cbn [fst snd] in *; exact Hp.
    + intros [ls b] x q HI Hx Hr. cbn [fst snd] in *. specialize (Hc b x q HI Hx Hr).
      destruct ls; destruct (base_exec b (OCall x q)) as [b' a]; cbn [fst snd] in *; exact Hc.
    + intros [ls b] x HI Hx. cbn [fst snd] in *. specialize (Hk b x HI Hx).
      destruct ls; destruct (base_exec b (OClone x)) as [b' a]; cbn [fst snd] in *; exact Hk.
  - pose proof (layer_spec (execp fuel ds') (stack_iface fuel ds') IH fuel d) as [Hp Hc Hk].
    assert (Hstep : forall l ls' b o,
              execp fuel (d :: ds') (l :: ls', b) o =
              let '(p', a) := lsub (execp fuel ds') fuel d (l, (ls', b)) o in
              ((fst p' :: fst (snd p'), snd (snd p')), a)).
    { intros l ls' b o. unfold execp at 1. cbn [exec fst snd]. unfold lsub. cbn [fst snd].
      match goal with |- context [layer_exec ?s fuel d l (ls', b) o] =>
        replace s with (execp fuel ds') by reflexivity end.
      destruct (layer_exec (execp fuel ds') fuel d l (ls', b) o) as [[l' t'] a]. reflexivity. }
    constructor.
    + intros [[|l ls'] b] x HI Hx; cbn in HI, Hx; [contradiction|].
      specialize (Hp (l, (ls', b)) x HI Hx). rewrite Hstep.
      destruct (lsub (execp fuel ds') fuel d (l, (ls', b)) (OPoll x)) as [[l' [ls2 b2]] a]. exact Hp.
    + intros [[|l ls'] b] x q HI Hx Hr; cbn in HI, Hx, Hr; [contradiction|].
      specialize (Hc (l, (ls', b)) x q HI Hx Hr). rewrite Hstep.
      destruct (lsub (execp fuel ds') fuel d (l, (ls', b)) (OCall x q)) as [[l' [ls2 b2]] a]. exact Hc.
    + intros [[|l ls'] b] x HI Hx; cbn in HI, Hx; [contradiction|].
      specialize (Hk (l, (ls', b)) x HI Hx). rewrite Hstep.
      destruct (lsub (execp fuel ds') fuel d (l, (ls', b)) (OClone x)) as [[l' [ls2 b2]] a]. exact Hk.
Qed.

(* ------------------------------------------------------------------------- *)
(* ------------------------------------------------------------------------- *)
(* a contract-respecting client of any stack never makes the wrapped service see a violation *)
Lemma istack_facts fuel ds : forall t,
  iI (stack_iface fuel ds) t ->
  iviol (stack_iface fuel ds) t = violations (snd t) /\
  violations (snd t) = bad_calls (blog (snd t)).
Proof.
  induction ds as [|d ds' IH]; intros [ls b] HI; cbn in *.
  - split; [reflexivity|exact HI].
  - destruct ls as [|l ls']; [contradiction|]. destruct HI as (HI & _). cbn in HI.
    apply (IH (ls', b) HI).
Qed.

Definition base_ok (b : base) : Prop := violations b = bad_calls (blog b) /\ 1 <= fresh b.

Lemma init_stack_inv fuel ds b : base_ok b ->
  iI (stack_iface fuel ds) (init_stack ds b) /\ ivalid (stack_iface fuel ds) (init_stack ds b) 0.
Proof.
  intros [Hb Hf]. unfold init_stack. induction ds as [|d ds' IH]; cbn.
  - split; [exact Hb|lia].
  - destruct IH as [IH1 IH2]. split; [|lia]. split; [exact IH1|]. split.
    + intros x Hx. assert (x = 0) by lia. subst. cbn. exact IH2.
    + intros x y Hx Hy _. lia.
Qed.

Lemma init_base_f_ok orc kf am : base_ok (init_base_f orc kf am).
Proof. split; cbn; [reflexivity|lia]. Qed.
Lemma init_base_pf_ok po kf am : base_ok (init_base_pf po kf am).
Proof. split; cbn; [reflexivity|lia]. Qed.
Lemma init_base_ok orc : base_ok (init_base orc).
Proof. apply init_base_f_ok. Qed.
Lemma init_base_p_ok po : base_ok (init_base_p po).
Proof. apply init_base_pf_ok. Qed.

Lemma client_cons cf fuel ds t q rest :
  client cf fuel ds t (q :: rest) =
  let '(t1, r) := poll_until (execp fuel ds) cf t 0 in
  match r with
  | RReady =>
    let '(t2, a) := execp fuel ds t1 (OCall 0 q) in
    let '(t3, out) := client cf fuel ds t2 rest in (t3, code_of_ans a :: out)
  | _ => let '(t3, out) := client cf fuel ds t1 rest in (t3, code_of_rres r :: out)
  end.
Proof. reflexivity. Qed.

Lemma client_spec cf fuel ds : forall reqs t,
  iI (stack_iface fuel ds) t -> ivalid (stack_iface fuel ds) t 0 ->
  let r := client cf fuel ds t reqs in
  iI (stack_iface fuel ds) (fst r) /\
  iviol (stack_iface fuel ds) (fst r) = iviol (stack_iface fuel ds) t.
Proof.
  pose proof (stack_spec fuel ds) as Hs.
  induction reqs as [|q rest IH]; intros t HI Hv; [cbn [client fst]|].
  - split; [exact HI|reflexivity].
  - rewrite client_cons.
    destruct (poll_until_spec (execp fuel ds) (stack_iface fuel ds) Hs cf t 0 HI Hv)
      as (Hf & Hback & Hrdy).
    destruct (poll_until (execp fuel ds) cf t 0) as [t1 r] eqn:E. cbn [fst snd] in *.
    pose proof Hf as (A1 & A2 & A3 & A4).
    assert (Hskip : let r' := let '(t3, out) := client cf fuel ds t1 rest in (t3, code_of_rres r :: out) in
                    iI (stack_iface fuel ds) (fst r') /\
                    iviol (stack_iface fuel ds) (fst r') = iviol (stack_iface fuel ds) t).
    { specialize (IH t1 A1 (A3 0 Hv)). destruct (client cf fuel ds t1 rest) as [t3 out].
      cbn [fst snd] in *. destruct IH as [I1 I2]. split; [exact I1|congruence]. }
    destruct r; [|exact Hskip|exact Hskip].
    destruct (sp_call Hs t1 0 q A1 (A3 0 Hv) (Hrdy eq_refl)) as (Hf2 & Hback2).
    destruct (execp fuel ds t1 (OCall 0 q)) as [t2 a] eqn:E2. cbn [fst snd] in *.
    pose proof Hf2 as (B1 & B2 & B3 & B4).
    specialize (IH t2 B1 (B3 0 (A3 0 Hv))).
    destruct (client cf fuel ds t2 rest) as [t3 out]. cbn [fst snd] in *.
    destruct IH as [I1 I2]. split; [exact I1|congruence].
Qed.

Definition all_calls_ready (l : list lev) : Prop :=
  Forall (fun e => match e with LCall _ _ ok _ => ok = true | _ => True end) l.

Lemma bad_calls_zero l : bad_calls l = 0 -> all_calls_ready l.
Proof.
  induction l as [|e r IH]; intros H; [constructor|].
  destruct e as [x rr|x q ok|x y]; cbn in H.
  - constructor; [exact I|apply IH; exact H].
  - destruct ok; [constructor; [reflexivity|apply IH; exact H]|discriminate].
  - constructor; [exact I|apply IH; exact H].
Qed.

Lemma no_violation_from fuel ds t t' :
  iI (stack_iface fuel ds) t -> iI (stack_iface fuel ds) t' ->
  iviol (stack_iface fuel ds) t' = iviol (stack_iface fuel ds) t ->
  violations (snd t) = 0 ->
  violations (snd t') = 0 /\ all_calls_ready (blog (snd t')).
Proof.
  intros HI HI' Hv H0.
  destruct (istack_facts fuel ds _ HI') as [F1 F2].
  destruct (istack_facts fuel ds _ HI) as [G1 G2].
  assert (Hz : violations (snd t') = 0) by congruence.
  split; [exact Hz|]. apply bad_calls_zero. rewrite <- F2. exact Hz.
Qed.

(* C20 (readiness), sequential client: every stack of layers, every request list, every
   readiness script (shared or per instance), every patience of the client, every fuel *)
Theorem stack_honours_readiness cf fuel ds b0 reqs :
  base_ok b0 -> violations b0 = 0 ->
  let b := snd (fst (client cf fuel ds (init_stack ds b0) reqs)) in
  violations b = 0 /\ all_calls_ready (blog b).
Proof.
  intros Hb H0.
  destruct (init_stack_inv fuel ds b0 Hb) as [HI Hv].
  pose proof (client_spec cf fuel ds reqs (init_stack ds b0) HI Hv) as Hc.
  cbn zeta in *. destruct Hc as [I1 I2].
  apply (no_violation_from fuel ds (init_stack ds b0)); auto.
Qed.

(* ------------------------------------------------------------------------- *)
(* ANY client program (any number of handles, clones of the stack taken at any time, requests
   issued on any handle in any order, handles polled again although ready): the interpreter's
   bookkeeping [crdy] is sound, so that it only ever calls handles that are ready, and the wrapped
   service never sees a violation *)
Section Programs.
  Context {T : Type} (sub : T -> op -> T * ans) (F : iface T) (Hs : spec sub F) (cf : nat).

  Definition pinv (p : T * cst) : Prop :=
    iI F (fst p) /\
    (forall x, In x (hs (snd p)) -> ivalid F (fst p) x) /\
    (forall x, crdy (snd p) x = true -> ivalid F (fst p) x /\ irdy F (fst p) x = true).

  Lemma cstep_inv p o : pinv p ->
    pinv (fst (cstep sub cf p o)) /\ iviol F (fst (fst (cstep sub cf p o))) = iviol F (fst p).
  Proof.
    destruct p as [t c]. intros (HI & Hh & Hr). cbn [fst snd] in *.
    assert (Hsame : pinv (t, c) /\ iviol F (fst (t, c)) = iviol F t)
      by (split; [repeat split; auto; apply Hr; auto|reflexivity]).
    destruct o as [h|h|h|h|]; cbn [cstep fst snd]; try exact Hsame.
    - (* poll *)
      destruct (nth_error (hs c) h) as [x|] eqn:En; [|exact Hsame].
      assert (Hx : ivalid F t x) by (apply Hh; eapply nth_error_In; eauto).
      destruct (poll_until_spec sub F Hs cf t x HI Hx) as (Hf & Hback & Hrdy).
      destruct (poll_until sub cf t x) as [t1 r] eqn:E. cbn [fst snd] in *.
      destruct Hf as (A1 & A2 & A3 & A4).
      split; [|exact A2]. unfold pinv. cbn [fst snd hs crdy]. split; [exact A1|]. split; [intros y Hy; apply A3, Hh, Hy|].
      intros y Hy. destruct (Nat.eq_dec y x) as [->|Hne].
      + rewrite updb_same in Hy. split; [apply A3, Hx|]. apply Hrdy. destruct r; [reflexivity|discriminate|discriminate].
      + rewrite updb_other in Hy by exact Hne. destruct (Hr y Hy) as [V R].
        split; [apply A3, V|]. rewrite A4; auto.
    - (* call *)
      destruct (nth_error (hs c) h) as [x|] eqn:En; [|exact Hsame].
      destruct (crdy c x) eqn:Ec; [|exact Hsame].
      destruct (Hr x Ec) as [Hx Hrx].
      destruct (sp_call Hs t x (Z.of_nat (S (nreq c))) HI Hx Hrx) as (Hf & Hback).
      destruct (sub t (OCall x (Z.of_nat (S (nreq c))))) as [t1 a] eqn:E. cbn [fst snd] in *.
      destruct Hf as (A1 & A2 & A3 & A4).
      split; [|exact A2]. unfold pinv. cbn [fst snd hs crdy]. split; [exact A1|]. split; [intros y Hy; apply A3, Hh, Hy|].
      intros y Hy. destruct (Nat.eq_dec y x) as [->|Hne].
      + rewrite updb_same in Hy. discriminate.
      + rewrite updb_other in Hy by exact Hne. destruct (Hr y Hy) as [V R].
        split; [apply A3, V|]. rewrite A4; auto.
    - (* clone *)
      destruct (nth_error (hs c) h) as [x|] eqn:En; [|exact Hsame].
      assert (Hx : ivalid F t x) by (apply Hh; eapply nth_error_In; eauto).
      destruct (sp_clone Hs t x HI Hx) as (Hf & x' & Hx' & Hfresh & Hx'v & Hback).
      destruct (sub t (OClone x)) as [t1 a] eqn:E. cbn [fst snd] in *. subst a.
      destruct Hf as (A1 & A2 & A3 & A4). cbn [fst snd].
      split; [|exact A2]. unfold pinv. cbn [fst snd hs crdy]. split; [exact A1|]. split.
      + intros y Hy. apply in_app_or in Hy. destruct Hy as [Hy|[<-|[]]]; [apply A3, Hh, Hy|exact Hx'v].
      + intros y Hy. destruct (Nat.eq_dec y x') as [->|Hne].
        * rewrite updb_same in Hy. discriminate.
        * rewrite updb_other in Hy by exact Hne. destruct (Hr y Hy) as [V R].
          split; [apply A3, V|]. rewrite A4; auto.
    - (* gate *)
      destruct (nth_error (hs c) h); exact Hsame.
  Qed.

  Lemma run_cops_inv : forall os p, pinv p ->
    pinv (fst (run_cops sub cf p os)) /\ iviol F (fst (fst (run_cops sub cf p os))) = iviol F (fst p).
  Proof.
    induction os as [|o rest IH]; intros p Hp; cbn [run_cops].
    - split; [exact Hp|reflexivity].
    - destruct (cstep_inv p o Hp) as [H1 H2].
      destruct (cstep sub cf p o) as [p1 z]. cbn [fst] in *.
      destruct (IH p1 H1) as [H3 H4].
      destruct (run_cops sub cf p1 rest) as [p2 zs]. cbn [fst] in *.
      split; [exact H3|congruence].
  Qed.
End Programs.

Theorem any_program_honours_readiness cf fuel ds b0 (os : list cop) :
  base_ok b0 -> violations b0 = 0 ->
  let b := snd (fst (fst (run_cops (execp fuel ds) cf (init_stack ds b0, init_c) os))) in
  violations b = 0 /\ all_calls_ready (blog b).
Proof.
  intros Hb H0.
  destruct (init_stack_inv fuel ds b0 Hb) as [HI Hv].
  assert (Hp : pinv (stack_iface fuel ds) (init_stack ds b0, init_c)).
  { split; [exact HI|]. split.
    - intros x [<-|[]]. exact Hv.
    - intros x Hx. discriminate. }
  destruct (run_cops_inv (execp fuel ds) (stack_iface fuel ds) (stack_spec fuel ds) cf os _ Hp) as [(I1 & _) I2].
  cbn [fst snd] in I2. cbn zeta.
  apply (no_violation_from fuel ds (init_stack ds b0)); auto.
Qed.

(* ------------------------------------------------------------------------- *)
(* readiness answers (Ready, Pending, Err) surface unchanged: the answer any stack gives to
   poll_ready is the wrapped service's answer for the wrapped instance the handle stands for *)
Fixpoint resolve (ls : list lstate) (x : nat) : nat :=
  match ls with
  | [] => x
  | l :: ls' => resolve ls' (imap l x)
  end.

Lemma poll_passes_through fuel ds : forall ls b x,
  length ls = length ds ->
  snd (execp fuel ds (ls, b) (OPoll x)) = ARes (answer b (resolve ls x)).
Proof.
  induction ds as [|d ds' IH]; intros ls b x Hlen; unfold execp; cbn [exec fst snd].
  - destruct ls; [reflexivity|discriminate].
  - destruct ls as [|l ls']; [discriminate|]. cbn [layer_exec fst snd resolve].
    specialize (IH ls' b (imap l x) ltac:(cbn in Hlen; lia)). unfold execp in IH. cbn [fst snd] in IH.
    destruct (exec fuel ds' ls' b (OPoll (imap l x))) as [[ls2 b2] a]. cbn [fst snd] in *. exact IH.
Qed.

(* ------------------------------------------------------------------------- *)
(* Counting what reaches the wrapped service.
   [nerrs]: readiness errors it returned; [ncalls q]: calls it received for request q. *)
Fixpoint nerrs (l : list lev) : nat :=
  match l with
  | LPoll _ RErr :: r => S (nerrs r)
  | _ :: r => nerrs r
  | [] => O
  end.

Fixpoint ncalls (q : Z) (l : list lev) : nat :=
  match l with
  | LCall _ q' _ _ :: r => (if Z.eqb q' q then 1 else 0) + ncalls q r
  | _ :: r => ncalls q r
  | [] => O
  end.

Definition is_err (r : rres) : nat := match r with RErr => 1 | _ => 0 end.
Definition is_crdy (c : cres) : nat := match c with CErr KReady => 1 | _ => 0 end.
Definition no_hedge (d : disc) : Prop := match d with Hedge _ | HedgeSeq _ => False | _ => True end.
Definition plain_disc (d : disc) : Prop := match d with Swap | Direct => True | _ => False end.
(* the layer retries with the crate's default predicate: it cannot tell a lower layer's readiness
   error from a call error and retries it *)
Definition is_dflt (d : disc) : bool :=
  match d with Retry _ true | Reconnect _ true => true | _ => false end.
(* calls through the layer never END with a readiness error given that calls below never do *)
Definition keeps_nr (d : disc) (nr : bool) : bool :=
  match d with Swap | Direct => nr | Hedge _ | HedgeSeq _ => true | _ => false end.

Section Counting.
  Context {T : Type} (sub : T -> op -> T * ans).
  (* ne: readiness errors returned so far; nc q: calls for request q so far *)
  Context (ne : T -> nat) (nc : Z -> T -> nat).

  (* [exact]: every readiness error ends exactly one call; [plain]: every request is forwarded
     exactly once; [nr]: no call ends with a readiness error *)
  Record cspec (exact plain nr : bool) : Prop := {
    cs_poll : forall t x, exists r, snd (sub t (OPoll x)) = ARes r /\
      (ne (fst (sub t (OPoll x))) = ne t + is_err r) /\
      (forall q, nc q (fst (sub t (OPoll x))) = nc q t);
    cs_clone : forall t x, (exists y, snd (sub t (OClone x)) = AId y) /\
      ne (fst (sub t (OClone x))) = ne t /\
      (forall q, nc q (fst (sub t (OClone x))) = nc q t);
    cs_call : forall t x q, exists c, snd (sub t (OCall x q)) = ADone c /\
      (exact = true -> ne (fst (sub t (OCall x q))) = ne t + is_crdy c) /\
      ne t + is_crdy c <= ne (fst (sub t (OCall x q))) /\
      nc q t + 1 <= nc q (fst (sub t (OCall x q))) /\
      (plain = true -> nc q (fst (sub t (OCall x q))) = nc q t + 1) /\
      (forall q', q' <> q -> nc q' (fst (sub t (OCall x q))) = nc q' t) /\
      (nr = true -> c <> CErr KReady)
  }.

  Context (hf pl nr : bool) (Hc : cspec hf pl nr).

  Lemma poll_until_count fuel : forall t y,
    ne (fst (poll_until sub fuel t y)) = ne t + is_err (snd (poll_until sub fuel t y)) /\
    (forall q, nc q (fst (poll_until sub fuel t y)) = nc q t).
  Proof.
    induction fuel as [|f IH]; intros t y; cbn [poll_until].
    - cbn. split; [lia|auto].
    - destruct (cs_poll _ _ _ Hc t y) as (r & Hr & He & Hn).
      destruct (sub t (OPoll y)) as [t1 a] eqn:E. cbn [fst snd] in *. subst a.
      destruct r; cbn [fst snd is_err] in *; try (split; [lia|exact Hn]).
      destruct (IH t1 y) as [I1 I2]. split; [lia|]. intros q. rewrite I2. apply Hn.
  Qed.

  (* the retry loop: [c] (the result of the previous call) is already accounted for *)
  Lemma rloop_count fuel dflt lay : forall rem t y q c,
    let r := rloop sub fuel dflt lay rem t y q c in
    ne t + is_crdy (snd r) <= ne (fst r) + is_crdy c /\
    (hf = true -> (dflt = true -> nr = true) -> (dflt = true -> c <> CErr KReady) ->
     ne (fst r) + is_crdy c = ne t + is_crdy (snd r)) /\
    nc q t <= nc q (fst r) /\
    (forall q', q' <> q -> nc q' (fst r) = nc q' t).
  Proof.
    induction rem as [|rem IH]; intros t y q c; cbn zeta.
    - assert (Hstay : ne t + is_crdy c <= ne t + is_crdy c /\
                      (hf = true -> (dflt = true -> nr = true) -> (dflt = true -> c <> CErr KReady) ->
                       ne t + is_crdy c = ne t + is_crdy c) /\ nc q t <= nc q t /\
                      (forall q', q' <> q -> nc q' t = nc q' t)) by (repeat split; auto).
      destruct c as [|e|]; cbn [rloop]; try exact Hstay.
      destruct (retryable dflt e) eqn:Er; cbn [fst snd]; [|exact Hstay].
      destruct lay; [|exact Hstay]. cbn [is_crdy].
      split; [lia|]. split; [|split; auto].
      intros _ Hd Hc0. destruct e; cbn [is_crdy]; try lia.
      destruct dflt; [exfalso; apply Hc0; reflexivity|discriminate].
    - assert (Hstay : ne t + is_crdy c <= ne t + is_crdy c /\
                      (hf = true -> (dflt = true -> nr = true) -> (dflt = true -> c <> CErr KReady) ->
                       ne t + is_crdy c = ne t + is_crdy c) /\ nc q t <= nc q t /\
                      (forall q', q' <> q -> nc q' t = nc q' t)) by (repeat split; auto).
      destruct c as [|e|]; cbn [rloop]; try exact Hstay.
      destruct (retryable dflt e) eqn:Er; cbn [fst snd]; [|exact Hstay].
      assert (He0 : (dflt = true -> CErr e <> CErr KReady) -> is_crdy (CErr e) = 0).
      { intros Hc0. destruct e; cbn [is_crdy]; try reflexivity.
        destruct dflt; [exfalso; apply Hc0; reflexivity|discriminate]. }
      destruct (poll_until_count fuel t y) as [P1 P2].
      destruct (poll_until sub fuel t y) as [t1 r] eqn:E. cbn [fst snd is_err] in *.
      destruct r; cbn [fst snd is_crdy is_err] in *.
      + destruct (cs_call _ _ _ Hc t1 y q) as (c2 & Hcc & C1 & C2 & C3 & C4 & C5 & C6).
        destruct (sub t1 (OCall y q)) as [t2 a] eqn:E2. cbn [fst snd] in *. subst a. cbn [cres_of].
        specialize (IH t2 y q c2). cbn zeta in IH. destruct IH as (I1 & I2 & I3 & I4).
        split; [lia|]. split; [|split].
        * intros H Hd Hc0. rewrite (He0 Hc0).
          specialize (I2 H Hd (fun Hdt => C6 (Hd Hdt))). rewrite (C1 H) in I2. lia.
        * rewrite <- (P2 q). lia.
        * intros q' Hq. rewrite (I4 q' Hq), (C5 q' Hq). apply P2.
      + split; [lia|]. split; [|split; [rewrite P2; lia|intros; apply P2]].
        intros _ _ Hc0. rewrite (He0 Hc0). lia.
      + split; [lia|]. split; [|split; [rewrite P2; lia|intros; apply P2]].
        intros _ _ Hc0. rewrite (He0 Hc0). lia.
  Qed.

  (* one hedge attempt *)
  Lemma hedges_count fuel k : forall t y0 q ok,
    ne t <= ne (fst (hedges sub fuel k t y0 q ok)) /\
    nc q t <= nc q (fst (hedges sub fuel k t y0 q ok)) /\
    (forall q', q' <> q -> nc q' (fst (hedges sub fuel k t y0 q ok)) = nc q' t).
  Proof.
    induction k as [|k IH]; intros t y0 q ok; cbn [hedges].
    - repeat split; auto.
    - destruct (cs_clone _ _ _ Hc t y0) as ((h & Hh) & K1 & K2).
      destruct (sub t (OClone y0)) as [t1 a] eqn:E. cbn [fst snd] in *. subst a.
      destruct (poll_until_count fuel t1 h) as [P1 P2].
      destruct (poll_until sub fuel t1 h) as [t2 r] eqn:E2. cbn [fst snd] in *.
      destruct r.
      + destruct (cs_call _ _ _ Hc t2 h q) as (c & Hcc & C1 & C2 & C3 & C4 & C5 & C6).
        destruct (sub t2 (OCall h q)) as [t3 a] eqn:E3. cbn [fst snd] in *.
        destruct (IH t3 y0 q (ok || is_ok (cres_of a))) as (I1 & I2 & I3).
        split; [lia|]. split; [rewrite <- (K2 q), <- (P2 q); lia|].
        intros q' Hq. rewrite (I3 q' Hq), (C5 q' Hq), P2. apply K2.
      + destruct (IH t2 y0 q ok) as (I1 & I2 & I3).
        split; [lia|]. split; [rewrite <- (K2 q), <- (P2 q); lia|].
        intros q' Hq. rewrite (I3 q' Hq), P2. apply K2.
      + destruct (IH t2 y0 q ok) as (I1 & I2 & I3).
        split; [lia|]. split; [rewrite <- (K2 q), <- (P2 q); lia|].
        intros q' Hq. rewrite (I3 q' Hq), P2. apply K2.
  Qed.

  Lemma hseq_count fuel k : forall t y0 q,
    ne t <= ne (fst (hseq sub fuel k t y0 q)) /\
    nc q t <= nc q (fst (hseq sub fuel k t y0 q)) /\
    (forall q', q' <> q -> nc q' (fst (hseq sub fuel k t y0 q)) = nc q' t).
  Proof.
    induction k as [|k IH]; intros t y0 q; cbn [hseq].
    - repeat split; auto.
    - destruct (cs_clone _ _ _ Hc t y0) as ((h & Hh) & K1 & K2).
      destruct (sub t (OClone y0)) as [t1 a] eqn:E. cbn [fst snd] in *. subst a.
      destruct (poll_until_count fuel t1 h) as [P1 P2].
      destruct (poll_until sub fuel t1 h) as [t2 r] eqn:E2. cbn [fst snd] in *.
      destruct r.
      + destruct (cs_call _ _ _ Hc t2 h q) as (c & Hcc & C1 & C2 & C3 & C4 & C5 & C6).
        destruct (sub t2 (OCall h q)) as [t3 a] eqn:E3. cbn [fst snd] in *.
        destruct (IH t3 y0 q) as (I1 & I2 & I3).
        destruct (is_ok (cres_of a)); cbn [fst].
        * split; [lia|]. split; [rewrite <- (K2 q), <- (P2 q); lia|].
          intros q' Hq. rewrite (C5 q' Hq), P2. apply K2.
        * split; [lia|]. split; [rewrite <- (K2 q), <- (P2 q); lia|].
          intros q' Hq. rewrite (I3 q' Hq), (C5 q' Hq), P2. apply K2.
      + destruct (IH t2 y0 q) as (I1 & I2 & I3).
        split; [lia|]. split; [rewrite <- (K2 q), <- (P2 q); lia|].
        intros q' Hq. rewrite (I3 q' Hq), P2. apply K2.
      + destruct (IH t2 y0 q) as (I1 & I2 & I3).
        split; [lia|]. split; [rewrite <- (K2 q), <- (P2 q); lia|].
        intros q' Hq. rewrite (I3 q' Hq), P2. apply K2.
  Qed.
End Counting.

Lemma hedge_result_not_ready ok : hedge_result ok <> CErr KReady.
Proof. destruct ok; discriminate. Qed.
Lemma is_crdy_hedge ok : is_crdy (hedge_result ok) = 0.
Proof. destruct ok; reflexivity. Qed.

Section LayerCounting.
  Context {T : Type} (sub : T -> op -> T * ans) (ne : T -> nat) (nc : Z -> T -> nat).
  Context (hf pl nr : bool) (Hc : cspec sub ne nc hf pl nr).
  Context (fuel : nat) (d : disc) (hf' : bool).
  Context (Hhf : hf' = true -> hf = true /\ no_hedge d /\ (is_dflt d = true -> nr = true))
          (Hpl : pl = true -> plain_disc d).

  Lemma layer_cspec :
    cspec (lsub sub fuel d) (fun p => ne (snd p)) (fun q p => nc q (snd p)) hf' pl (keeps_nr d nr).
  Proof.
    constructor.
    - intros [l t] x. unfold lsub. cbn [fst snd layer_exec].
      destruct (cs_poll _ _ _ _ _ _ Hc t (imap l x)) as (r & Hr & He & Hn).
      destruct (sub t (OPoll (imap l x))) as [t1 a]. cbn [fst snd] in *. exists r. auto.
    - intros [l t] x. unfold lsub. cbn [fst snd layer_exec].
      destruct (cs_clone _ _ _ _ _ _ Hc t (imap l x)) as ((y & Hy) & K1 & K2).
      destruct (sub t (OClone (imap l x))) as [t1 a]. cbn [fst snd] in *. subst a. cbn [fst snd].
      split; [eexists; reflexivity|auto].
    - intros [l t] x q. unfold lsub. cbn [fst snd layer_exec].
      set (y := imap l x).
      assert (Hnp : pl = true -> no_hedge d /\ is_dflt d = false /\ keeps_nr d nr = nr).
      { intros H. apply Hpl in H. destruct d; cbn in *; try contradiction; auto. }
      destruct d as [| |k df|k|k|k df].
      + (* Swap *)
        destruct (cs_clone _ _ _ _ _ _ Hc t y) as ((y' & Hy) & K1 & K2).
        destruct (sub t (OClone y)) as [t1 a]. cbn [fst snd] in *. subst a.
        destruct (cs_call _ _ _ _ _ _ Hc t1 y q) as (c & Hcc & C1 & C2 & C3 & C4 & C5 & C6).
        destruct (sub t1 (OCall y q)) as [t2 a]. cbn [fst snd] in *. subst a. cbn [cres_of fst snd].
        exists c. split; [reflexivity|]. rewrite <- K1, <- (K2 q).
        split; [intros H; apply C1; apply Hhf; exact H|]. split; [exact C2|]. split; [exact C3|].
        split; [exact C4|]. split; [|exact C6].
        intros q' Hq. rewrite (C5 q' Hq). apply K2.
      + (* Direct *)
        destruct (cs_call _ _ _ _ _ _ Hc t y q) as (c & Hcc & C1 & C2 & C3 & C4 & C5 & C6).
        destruct (sub t (OCall y q)) as [t1 a]. cbn [fst snd] in *. subst a. cbn [cres_of fst snd].
        exists c. split; [reflexivity|]. split; [intros H; apply C1; apply Hhf; exact H|]. auto 10.
      + (* Retry *)
        destruct (cs_clone _ _ _ _ _ _ Hc t y) as ((y' & Hy) & K1 & K2).
        destruct (sub t (OClone y)) as [t1 a]. cbn [fst snd] in *. subst a.
        destruct (cs_call _ _ _ _ _ _ Hc t1 y q) as (c & Hcc & C1 & C2 & C3 & C4 & C5 & C6).
        destruct (sub t1 (OCall y q)) as [t2 a]. cbn [fst snd] in *. subst a. cbn [cres_of].
        pose proof (rloop_count sub ne nc hf pl nr Hc fuel df false k t2 y q c) as R. cbn zeta in R.
        destruct R as (R1 & R2 & R3 & R4).
        destruct (rloop sub fuel df false k t2 y q c) as [t3 e]. cbn [fst snd] in *.
        exists e. split; [reflexivity|]. rewrite <- K1, <- (K2 q).
        split; [|split; [lia|split; [lia|split; [|split]]]].
        * intros H. destruct (Hhf H) as (H1 & _ & H3).
          assert (Hd : df = true -> nr = true) by (intros ->; apply H3; reflexivity).
          specialize (R2 H1 Hd (fun Hdt => C6 (Hd Hdt))). rewrite (C1 H1) in R2. lia.
        * intros H. destruct (Hnp H) as (_ & Hx & _). cbn in Hx. destruct (Hpl H).
        * intros q' Hq. rewrite (R4 q' Hq), (C5 q' Hq). apply K2.
        * cbn. discriminate.
      + (* Hedge *)
        destruct (cs_clone _ _ _ _ _ _ Hc t y) as ((y' & Hy) & K1 & K2).
        destruct (sub t (OClone y)) as [t1 a]. cbn [fst snd] in *. subst a.
        destruct (cs_call _ _ _ _ _ _ Hc t1 y q) as (c & Hcc & C1 & C2 & C3 & C4 & C5 & C6).
        destruct (sub t1 (OCall y q)) as [t2 a]. cbn [fst snd] in *. subst a. cbn [cres_of].
        destruct (hedges_count sub ne nc hf pl nr Hc fuel k t2 y' q (is_ok c)) as (I1 & I2 & I3).
        destruct (hedges sub fuel k t2 y' q (is_ok c)) as [t3 ok]. cbn [fst snd] in *.
        exists (hedge_result ok). split; [reflexivity|]. rewrite <- K1, <- (K2 q), is_crdy_hedge.
        split; [intros H; destruct (Hhf H) as (_ & [] & _)|]. split; [lia|]. split; [lia|].
        split; [intros H; destruct (Hpl H)|]. split; [|intros _; apply hedge_result_not_ready].
        intros q' Hq. rewrite (I3 q' Hq), (C5 q' Hq). apply K2.
      + (* HedgeSeq *)
        destruct (cs_clone _ _ _ _ _ _ Hc t y) as ((y' & Hy) & K1 & K2).
        destruct (sub t (OClone y)) as [t1 a]. cbn [fst snd] in *. subst a.
        destruct (cs_call _ _ _ _ _ _ Hc t1 y q) as (c & Hcc & C1 & C2 & C3 & C4 & C5 & C6).
        destruct (sub t1 (OCall y q)) as [t2 a]. cbn [fst snd] in *. subst a. cbn [cres_of].
        destruct (is_ok c) eqn:Eok.
        * cbn [fst snd]. exists COk. split; [reflexivity|]. rewrite <- K1, <- (K2 q). cbn [is_crdy].
          split; [intros H; destruct (Hhf H) as (_ & [] & _)|]. split; [lia|]. split; [lia|].
          split; [intros H; destruct (Hpl H)|]. split; [|discriminate].
          intros q' Hq. rewrite (C5 q' Hq). apply K2.
        * destruct (hseq_count sub ne nc hf pl nr Hc fuel k t2 y' q) as (I1 & I2 & I3).
          destruct (hseq sub fuel k t2 y' q) as [t3 ok]. cbn [fst snd] in *.
          exists (hedge_result ok). split; [reflexivity|]. rewrite <- K1, <- (K2 q), is_crdy_hedge.
          split; [intros H; destruct (Hhf H) as (_ & [] & _)|]. split; [lia|]. split; [lia|].
          split; [intros H; destruct (Hpl H)|]. split; [|intros _; apply hedge_result_not_ready].
          intros q' Hq. rewrite (I3 q' Hq), (C5 q' Hq). apply K2.
      + (* Reconnect *)
        destruct (cs_call _ _ _ _ _ _ Hc t y q) as (c & Hcc & C1 & C2 & C3 & C4 & C5 & C6).
        destruct (sub t (OCall y q)) as [t1 a]. cbn [fst snd] in *. subst a.
        destruct (cs_clone _ _ _ _ _ _ Hc t1 y) as ((z & Hz) & K1 & K2).
        destruct (sub t1 (OClone y)) as [t2 a]. cbn [fst snd] in *. subst a. cbn [cres_of].
        pose proof (rloop_count sub ne nc hf pl nr Hc fuel df true (S k) t2 z q c) as R. cbn zeta in R.
        destruct R as (R1 & R2 & R3 & R4).
        destruct (rloop sub fuel df true (S k) t2 z q c) as [t3 e]. cbn [fst snd] in *.
        exists e. split; [reflexivity|].
        split; [|split; [lia|split; [rewrite (K2 q) in R3; lia|split; [|split]]]].
        * intros H. destruct (Hhf H) as (H1 & _ & H3).
          assert (Hd : df = true -> nr = true) by (intros ->; apply H3; reflexivity).
          specialize (R2 H1 Hd (fun Hdt => C6 (Hd Hdt))). rewrite K1, (C1 H1) in R2. lia.
        * intros H. destruct (Hpl H).
        * intros q' Hq. rewrite (R4 q' Hq), K2. apply (C5 q' Hq).
        * cbn. discriminate.
  Qed.
End LayerCounting.

Lemma execp_cons fuel d ds' l ls' b o :
  execp fuel (d :: ds') (l :: ls', b) o =
  let '(p', a) := lsub (execp fuel ds') fuel d (l, (ls', b)) o in
  ((fst p' :: fst (snd p'), snd (snd p')), a).
Proof.
  unfold execp at 1. cbn [exec fst snd]. unfold lsub. cbn [fst snd].
  match goal with |- context [layer_exec ?s fuel d l (ls', b) o] =>
    replace s with (execp fuel ds') by reflexivity end.
  destruct (layer_exec (execp fuel ds') fuel d l (ls', b) o) as [[l' t'] a]. reflexivity.
Qed.

Lemma execp_nil fuel ds b o : execp fuel ds ([], b) o = (([], fst (base_exec b o)), snd (base_exec b o)).
Proof. unfold execp. destruct ds; cbn [exec fst snd]; destruct (base_exec b o); reflexivity. Qed.

Lemma execp_base fuel ls b o : execp fuel [] (ls, b) o = ((ls, fst (base_exec b o)), snd (base_exec b o)).
Proof. unfold execp. cbn [exec fst snd]. destruct ls; destruct (base_exec b o); reflexivity. Qed.

Definition sne (t : list lstate * base) : nat := nerrs (blog (snd t)).
Definition snc (q : Z) (t : list lstate * base) : nat := ncalls q (blog (snd t)).

Lemma base_cspec : cspec base_exec (fun b => nerrs (blog b)) (fun q b => ncalls q (blog b)) true true true.
Proof.
  constructor.
  - intros b x. exists (answer b x). cbn. split; [reflexivity|]. split; [|auto].
    destruct (answer b x); cbn; lia.
  - intros b x. cbn. split; [eexists; reflexivity|auto].
  - intros b x q. exists (call_result b q). cbn. rewrite Z.eqb_refl.
    assert (Hn : is_crdy (call_result b q) = 0 /\ call_result b q <> CErr KReady).
    { unfold call_result. destruct (Z.testbit _ _); [split; [reflexivity|discriminate]|].
      destruct (Nat.ltb _ _); split; try reflexivity; discriminate. }
    destruct Hn as [Hn1 Hn2]. rewrite Hn1.
    split; [reflexivity|]. split; [intros; lia|]. split; [lia|]. split; [lia|]. split; [intros; lia|].
    split; [|intros _; exact Hn2].
    intros q' Hq. apply Z.eqb_neq in Hq. rewrite Z.eqb_sym, Hq. reflexivity.
Qed.

Lemma cspec_weaken {T} (sub : T -> op -> T * ans) ne nc hf pl nr hf' pl' nr' :
  cspec sub ne nc hf pl nr -> (hf' = true -> hf = true) -> (pl' = true -> pl = true) ->
  (nr' = true -> nr = true) -> cspec sub ne nc hf' pl' nr'.
Proof.
  intros [P K C] Hh Hp Hn. constructor; auto.
  intros t x q. destruct (C t x q) as (c & H1 & H2 & H3 & H4 & H5 & H6 & H7).
  exists c. repeat split; auto.
Qed.

(* which stacks: [nr_of]: no call through the stack ends with a readiness error; [exact_of]: no
   hedge layer, and every retrying layer with the DEFAULT predicate sits above layers through which
   no call ends with a readiness error (it has nothing to swallow) *)
Fixpoint nr_of (ds : list disc) : bool :=
  match ds with [] => true | d :: r => keeps_nr d (nr_of r) end.
Definition no_hedgeb (d : disc) : bool := match d with Hedge _ | HedgeSeq _ => false | _ => true end.
Fixpoint exact_of (ds : list disc) : bool :=
  match ds with
  | [] => true
  | d :: r => exact_of r && no_hedgeb d && (negb (is_dflt d) || nr_of r)
  end.
Definition plainb (d : disc) : bool := match d with Swap | Direct => true | _ => false end.

Lemma stack_cspec fuel : forall ds,
  cspec (execp fuel ds) sne snc (exact_of ds) (forallb plainb ds) (nr_of ds).
Proof.
  induction ds as [|d ds' IH].
  - pose proof base_cspec as [P K C]. unfold sne, snc. cbn [exact_of forallb nr_of].
    constructor; intros [ls b]; intros; rewrite execp_base; cbn [fst snd]; auto.
  - assert (Hhf : exact_of (d :: ds') = true ->
                  exact_of ds' = true /\ no_hedge d /\ (is_dflt d = true -> nr_of ds' = true)).
    { cbn [exact_of]. intros H. apply andb_prop in H. destruct H as [H H3]. apply andb_prop in H.
      destruct H as [H1 H2]. split; [exact H1|]. split; [destruct d; cbn in *; auto; discriminate|].
      intros Hd. rewrite Hd in H3. cbn in H3. exact H3. }
    assert (Hpl : forallb plainb ds' = true -> True) by auto.
    pose proof (cspec_weaken _ _ _ _ _ _ (exact_of ds') (forallb plainb (d :: ds')) (nr_of ds') IH
                  (fun H => H) (fun H => proj2 (andb_prop _ _ H)) (fun H => H)) as IH'.
    assert (Hpd : forallb plainb (d :: ds') = true -> plain_disc d).
    { cbn [forallb]. intros H. apply andb_prop in H. destruct H as [H _]. destruct d; cbn in *; auto; discriminate. }
    pose proof (layer_cspec (execp fuel ds') sne snc _ _ _ IH' fuel d (exact_of (d :: ds')) Hhf Hpd) as [P K C].
    pose proof base_cspec as [P0 K0 C0].
    constructor.
    + intros [[|l ls'] b] x.
      * rewrite execp_nil. unfold sne, snc. cbn [fst snd]. apply P0.
      * specialize (P (l, (ls', b)) x). rewrite execp_cons.
        destruct (lsub (execp fuel ds') fuel d (l, (ls', b)) (OPoll x)) as [[l' [ls2 b2]] a]. exact P.
    + intros [[|l ls'] b] x.
      * rewrite execp_nil. unfold sne, snc. cbn [fst snd]. apply K0.
      * specialize (K (l, (ls', b)) x). rewrite execp_cons.
        destruct (lsub (execp fuel ds') fuel d (l, (ls', b)) (OClone x)) as [[l' [ls2 b2]] a]. exact K.
    + intros [[|l ls'] b] x q.
      * rewrite execp_nil. unfold sne, snc. cbn [fst snd].
        destruct (C0 b x q) as (c & H1 & H2 & H3 & H4 & H5 & H6 & H7). exists c. repeat split; auto.
      * specialize (C (l, (ls', b)) x q). rewrite execp_cons. cbn [nr_of].
        destruct (lsub (execp fuel ds') fuel d (l, (ls', b)) (OCall x q)) as [[l' [ls2 b2]] a]. exact C.
Qed.

(* ------------------------------------------------------------------------- *)
(* the sequential client: readiness errors surface exactly once, requests are forwarded *)
Definition surfaced (c : Z) : bool := ((c =? 1) || (c =? 2))%Z.
Definition count_if (f : Z -> bool) (l : list Z) : nat := length (filter f l).

(* the requests for which the client got as far as call() *)
Fixpoint issued (reqs out : list Z) : list Z :=
  match reqs, out with
  | q :: r, c :: o => if ((c =? 1) || (c =? 3))%Z then issued r o else q :: issued r o
  | _, _ => []
  end.

Lemma code_of_rres_cases r : r <> RReady ->
  ((code_of_rres r =? 1) || (code_of_rres r =? 3))%Z = true /\
  (if surfaced (code_of_rres r) then 1 else 0) = is_err r.
Proof. destruct r; intros H; [congruence|split; reflexivity|split; reflexivity]. Qed.

Lemma code_of_ans_done c :
  ((code_of_ans (ADone c) =? 1) || (code_of_ans (ADone c) =? 3))%Z = false /\
  (if surfaced (code_of_ans (ADone c)) then 1 else 0) = is_crdy c.
Proof. destruct c as [|[| | |]|]; split; reflexivity. Qed.

Lemma client_counts cf fuel ds hf pl nr :
  cspec (execp fuel ds) sne snc hf pl nr ->
  forall reqs t,
    let r := client cf fuel ds t reqs in
    (hf = true -> sne (fst r) = sne t + count_if surfaced (snd r)) /\
    (forall q, snc q t + count_occ Z.eq_dec (issued reqs (snd r)) q <= snc q (fst r)) /\
    (pl = true -> forall q, snc q (fst r) = snc q t + count_occ Z.eq_dec (issued reqs (snd r)) q) /\
    length (snd r) = length reqs.
Proof.
  intros Hc. induction reqs as [|q0 rest IH]; intros t; [cbn; repeat split; intros; lia|].
  cbn zeta. rewrite client_cons.
  destruct (poll_until_count (execp fuel ds) sne snc hf pl nr Hc cf t 0) as [P1 P2].
  destruct (poll_until (execp fuel ds) cf t 0) as [t1 r] eqn:E. cbn [fst snd] in *.
  assert (Hskip : r <> RReady ->
    let r' := let '(t3, out) := client cf fuel ds t1 rest in (t3, code_of_rres r :: out) in
    (hf = true -> sne (fst r') = sne t + count_if surfaced (snd r')) /\
    (forall q, snc q t + count_occ Z.eq_dec (issued (q0 :: rest) (snd r')) q <= snc q (fst r')) /\
    (pl = true -> forall q, snc q (fst r') = snc q t + count_occ Z.eq_dec (issued (q0 :: rest) (snd r')) q) /\
    length (snd r') = length (q0 :: rest)).
  { intros Hr. destruct (code_of_rres_cases r Hr) as [K1 K2].
    specialize (IH t1). cbn zeta in IH. destruct (client cf fuel ds t1 rest) as [t3 out].
    cbn [fst snd] in *. destruct IH as (I1 & I2 & I3 & I4).
    cbn [issued]. rewrite K1. unfold count_if in *. cbn [filter].
    split; [|split; [|split]].
    - intros H. rewrite (I1 H), P1. revert K2. destruct (surfaced (code_of_rres r)); cbn [length]; lia.
    - intros q. rewrite <- (P2 q). apply I2.
    - intros H q. rewrite (I3 H q), P2. reflexivity.
    - cbn [length]. lia. }
  destruct r; [|apply Hskip; discriminate|apply Hskip; discriminate]. clear Hskip.
  destruct (cs_call _ _ _ _ _ _ Hc t1 0 q0) as (c & Hcc & C1 & C2 & C3 & C4 & C5 & C6).
  destruct (execp fuel ds t1 (OCall 0 q0)) as [t2 a] eqn:E2. cbn [fst snd] in *. subst a.
  destruct (code_of_ans_done c) as [K1 K2].
  specialize (IH t2). cbn zeta in IH. destruct (client cf fuel ds t2 rest) as [t3 out].
  cbn [fst snd] in *. destruct IH as (I1 & I2 & I3 & I4).
  cbn [issued]. rewrite K1. unfold count_if in *. cbn [filter is_err] in *.
  assert (Hlen : length (code_of_ans (ADone c) :: out) = S (length rest)) by (cbn; lia).
  split; [|split; [|split; [|exact Hlen]]].
  - intros H. rewrite (I1 H), (C1 H), P1. revert K2.
    destruct (surfaced (code_of_ans (ADone c))); cbn [length]; lia.
  - intros q. cbn [count_occ]. destruct (Z.eq_dec q0 q) as [->|Hne].
    + specialize (I2 q). rewrite <- (P2 q). lia.
    + specialize (I2 q). rewrite (C5 q) in I2 by congruence. rewrite <- (P2 q). lia.
  - intros H q. cbn [count_occ]. destruct (Z.eq_dec q0 q) as [->|Hne].
    + rewrite (I3 H q), (C4 H), P2. lia.
    + rewrite (I3 H q), (C5 q) by congruence. rewrite P2. reflexivity.
Qed.

Lemma plainb_forall ds : Forall plain_disc ds -> forallb plainb ds = true.
Proof. induction 1 as [|d r Hd Hr IH]; [reflexivity|]. cbn. rewrite IH. destruct d; cbn in *; tauto. Qed.

(* "none made up", EVERY stack: a request the client saw failing with a readiness error (code 1 at
   poll_ready, code 2 inside the call) was failed by a readiness error of the wrapped service *)
Lemma client_surfaced_le cf fuel ds hf pl nr :
  cspec (execp fuel ds) sne snc hf pl nr ->
  forall reqs t, sne t + count_if surfaced (snd (client cf fuel ds t reqs)) <= sne (fst (client cf fuel ds t reqs)).
Proof.
  intros Hc. induction reqs as [|q0 rest IH]; intros t; [cbn; lia|].
  rewrite client_cons.
  destruct (poll_until_count (execp fuel ds) sne snc hf pl nr Hc cf t 0) as [P1 P2].
  destruct (poll_until (execp fuel ds) cf t 0) as [t1 r] eqn:E. cbn [fst snd] in *.
  assert (Hskip : r <> RReady ->
    sne t + count_if surfaced (snd (let '(t3, out) := client cf fuel ds t1 rest in (t3, code_of_rres r :: out)))
    <= sne (fst (let '(t3, out) := client cf fuel ds t1 rest in (t3, code_of_rres r :: out)))).
  { intros Hr. destruct (code_of_rres_cases r Hr) as [K1 K2].
    specialize (IH t1). destruct (client cf fuel ds t1 rest) as [t3 out]. cbn [fst snd] in *.
    unfold count_if in *. cbn [filter]. revert K2. destruct (surfaced (code_of_rres r)); cbn [length]; lia. }
  destruct r; [|apply Hskip; discriminate|apply Hskip; discriminate]. clear Hskip.
  destruct (cs_call _ _ _ _ _ _ Hc t1 0 q0) as (c & Hcc & C1 & C2 & C3 & C4 & C5 & C6).
  destruct (execp fuel ds t1 (OCall 0 q0)) as [t2 a] eqn:E2. cbn [fst snd] in *. subst a.
  destruct (code_of_ans_done c) as [K1 K2].
  specialize (IH t2). destruct (client cf fuel ds t2 rest) as [t3 out]. cbn [fst snd] in *.
  unfold count_if in *. cbn [filter is_err] in *. revert K2.
  destruct (surfaced (code_of_ans (ADone c))); cbn [length]; lia.
Qed.

Theorem readiness_errors_never_made_up cf fuel ds t reqs :
  let r := client cf fuel ds t reqs in
  nerrs (blog (snd t)) + count_if surfaced (snd r) <= nerrs (blog (snd (fst r))).
Proof. exact (client_surfaced_le cf fuel ds _ _ _ (stack_cspec fuel ds) reqs t). Qed.

(* C20 (readiness errors surface as readiness errors). Stacks with [exact_of ds = true]: no hedge
   layer (hedge fails only the attempt that met the error, by design), and every retry / reconnect
   layer either has a predicate that refuses readiness errors (the driver's retry_on(kind ==
   TRANSIENT) / "E kind=1" predicates) or, with the crate's DEFAULT predicate, has only layers below
   it through which no call can end with a readiness error. For them, any request list, any oracle:
   the wrapped service's readiness errors and the requests the client saw failing with a readiness
   error are equinumerous: each error ends exactly one request, none is swallowed, none is made up.
   (A default-predicate retry ABOVE another retrying layer retries that layer's readiness error like
   any call error -- its own protective condition; see default_predicate_swallows.) *)
Theorem readiness_errors_surface_once cf fuel ds t reqs :
  exact_of ds = true ->
  let r := client cf fuel ds t reqs in
  nerrs (blog (snd (fst r))) = nerrs (blog (snd t)) + count_if surfaced (snd r).
Proof.
  intros Hh. pose proof (stack_cspec fuel ds) as Hc. rewrite Hh in Hc.
  destruct (client_counts cf fuel ds _ _ _ Hc reqs t) as (H1 & _). apply H1. reflexivity.
Qed.

(* in particular (one request): a readiness error met anywhere, at any depth, at poll_ready or
   before a further attempt of a retry / reconnect layer, ends that request with a readiness
   error *)
Corollary readiness_error_ends_request cf fuel ds b0 q :
  exact_of ds = true -> nerrs (blog b0) = 0 ->
  let r := client cf fuel ds (init_stack ds b0) [q] in
  (exists x, In (LPoll x RErr) (blog (snd (fst r)))) -> snd r = [1%Z] \/ snd r = [2%Z].
Proof.
  intros Hh H0 r [x Hx].
  pose proof (readiness_errors_surface_once cf fuel ds (init_stack ds b0) [q] Hh) as H.
  fold r in H. cbn [init_stack snd] in H. rewrite H0 in H.
  assert (Hpos : 1 <= nerrs (blog (snd (fst r)))).
  { clear H. induction (blog (snd (fst r))) as [|e l IH]; [destruct Hx|].
    destruct Hx as [->|Hx]; [cbn; lia|]. specialize (IH Hx). destruct e as [y [| |]|y q' ok res|y z]; cbn; lia. }
  unfold r in *. clear r. cbn [client] in *.
  destruct (poll_until (execp fuel ds) cf (init_stack ds b0) 0) as [t1 [| |]].
  - destruct (execp fuel ds t1 (OCall 0 q)) as [t2 a]. cbn [fst snd] in *.
    destruct a as [i|r'|[|[| | |]|]]; cbn in *; try lia. right. reflexivity.
  - cbn in *. lia.
  - cbn. left. reflexivity.
Qed.

(* the single retrying layer, WHATEVER its predicate: its own failed readiness check before a
   further attempt is returned, not retried (regressions R1 / R2 of the second review) *)
Corollary single_retrying_layer_surfaces_its_readiness_error above k dflt below :
  Forall plain_disc above -> Forall plain_disc below ->
  exact_of (above ++ Retry k dflt :: below) = true /\ exact_of (above ++ Reconnect k dflt :: below) = true.
Proof.
  intros Ha Hb.
  assert (Hbn : nr_of below = true /\ exact_of below = true).
  { induction Hb as [|d r Hd Hr IH]; [split; reflexivity|]. destruct IH as [I1 I2].
    destruct d; cbn in Hd; try contradiction; cbn; rewrite I1, I2; split; reflexivity. }
  destruct Hbn as [Hn He].
  split; induction Ha as [|d r Hd Hr IH]; cbn [app exact_of];
    try (rewrite He, Hn; destruct dflt; reflexivity);
    rewrite IH; destruct d; cbn in Hd; try contradiction; reflexivity.
Qed.

(* with the crates' DEFAULT predicates the equality is false, legitimately: a default-predicate retry
   above another retrying layer retries that layer's readiness error like any other call error (its
   protective condition is triggered). Witness: retry (default, 1 further attempt) over retry (1
   further attempt), the wrapped service fails the first call and answers Err to the poll_ready
   before the inner layer's further attempt: the request is answered Ok, one readiness error in the
   log, none surfaced. The Tower contract is kept all the same (stack_honours_readiness). *)
Example default_predicate_swallows :
  let ds := [Retry 1 true; Retry 1 false] in
  let r := client 8 9 ds (init_stack ds (init_base_f [RReady; RErr] 1 0)) [1%Z] in
  snd r = [0%Z] /\ nerrs (blog (snd (fst r))) = 1 /\ violations (snd (fst r)) = 0 /\ exact_of ds = false.
Proof. vm_compute. repeat split; reflexivity. Qed.

(* the same two layers with the driver's predicate on the outer one: the error surfaces (code 2) *)
Example filtered_predicate_surfaces :
  let ds := [Retry 1 false; Retry 1 false] in
  let r := client 8 9 ds (init_stack ds (init_base_f [RReady; RErr] 1 0)) [1%Z] in
  snd r = [2%Z] /\ nerrs (blog (snd (fst r))) = 1 /\ exact_of ds = true.
Proof. vm_compute. repeat split; reflexivity. Qed.

(* a single default-predicate retry layer returns its own failed readiness check *)
Example single_default_retry_surfaces :
  let ds := [Swap; Retry 2 true; Direct] in
  let r := client 8 9 ds (init_stack ds (init_base_f [RReady; RErr] 2 0)) [1%Z] in
  snd r = [2%Z] /\ exact_of ds = true.
Proof. vm_compute. split; reflexivity. Qed.

(* C20 (each request is forwarded unchanged), sequential client: the wrapped service sees every
   request the client issued (at least once; exactly once when no layer retries or hedges) and no
   other request value *)
Theorem requests_reach_the_service cf fuel ds t reqs :
  let r := client cf fuel ds t reqs in
  (forall q, ncalls q (blog (snd t)) + count_occ Z.eq_dec (issued reqs (snd r)) q
             <= ncalls q (blog (snd (fst r)))) /\
  (Forall plain_disc ds -> forall q,
      ncalls q (blog (snd (fst r))) =
      ncalls q (blog (snd t)) + count_occ Z.eq_dec (issued reqs (snd r)) q).
Proof.
  pose proof (stack_cspec fuel ds) as Hc.
  split.
  - destruct (client_counts cf fuel ds _ _ _ Hc reqs t) as (_ & H2 & _). exact H2.
  - intros Hp. rewrite (plainb_forall ds Hp) in Hc.
    destruct (client_counts cf fuel ds _ _ _ Hc reqs t) as (_ & _ & H3 & _). apply H3. reflexivity.
Qed.

(* the functional half of the readiness clause: a request answered with code 0 was called, on an
   instance that had been polled ready *)
Lemma ncalls_pos_in q l : 1 <= ncalls q l -> exists x ok res, In (LCall x q ok res) l.
Proof.
  induction l as [|e l IH]; cbn; [lia|].
  destruct e as [y r|y q' ok res|y z]; intros H.
  - destruct (IH H) as (x & ok & res & Hin). eauto.
  - destruct (Z.eqb_spec q' q) as [->|Hne].
    + exists y, ok, res. left. reflexivity.
    + destruct (IH ltac:(cbn in H; lia)) as (x & ok' & res' & Hin). eauto.
  - destruct (IH H) as (x & ok & res & Hin). eauto.
Qed.

Theorem answered_request_was_called cf fuel ds b0 q :
  base_ok b0 -> violations b0 = 0 ->
  let r := client cf fuel ds (init_stack ds b0) [q] in
  snd r = [0%Z] -> exists x res, In (LCall x q true res) (blog (snd (fst r))).
Proof.
  intros Hb H0 r Hout.
  destruct (requests_reach_the_service cf fuel ds (init_stack ds b0) [q]) as [H _].
  fold r in H. specialize (H q). rewrite Hout in H. cbn [issued Z.eqb orb count_occ] in H.
  destruct (Z.eq_dec q q) as [_|Hne]; [|congruence].
  destruct (ncalls_pos_in q (blog (snd (fst r))) ltac:(lia)) as (x & ok & res & Hin).
  destruct (stack_honours_readiness cf fuel ds b0 [q] Hb H0) as [_ Hall]. fold r in Hall.
  exists x, res. unfold all_calls_ready in Hall. rewrite Forall_forall in Hall.
  specialize (Hall _ Hin). cbn in Hall. subst ok. exact Hin.
Qed.

(* ------------------------------------------------------------------------- *)
(* the same for ANY client program *)
Definition is_one (z : Z) : bool := (z =? 1)%Z.
Definition is_two (z : Z) : bool := (z =? 2)%Z.
(* request number q was issued between two client states *)
Definition issued_between (c c' : cst) (q : Z) : nat :=
  if ((Z.of_nat (nreq c) <? q) && (q <=? Z.of_nat (nreq c')))%Z then 1 else 0.

Section ProgCount.
  Context {T : Type} (sub : T -> op -> T * ans) (ne : T -> nat) (nc : Z -> T -> nat).
  Context (hf pl nr : bool) (Hc : cspec sub ne nc hf pl nr) (cf : nat).

  Lemma code_of_ans_two c : (if is_two (code_of_ans (ADone c)) then 1 else 0) = is_crdy c.
  Proof. destruct c as [|[| | |]|]; reflexivity. Qed.
  Lemma code_of_rres_one r : (if is_one (code_of_rres r) then 1 else 0) = is_err r.
  Proof. destruct r; reflexivity. Qed.

  Lemma cstep_count p o :
    let r := cstep sub cf p o in
    (hf = true -> ne (fst (fst r)) + count_if is_two (outs (snd p)) =
                  ne (fst p) + (if is_one (snd r) then 1 else 0) + count_if is_two (outs (snd (fst r)))) /\
    (nreq (snd p) <= nreq (snd (fst r)) <= S (nreq (snd p))) /\
    (forall q, nc q (fst p) + issued_between (snd p) (snd (fst r)) q <= nc q (fst (fst r))) /\
    (pl = true -> forall q, nc q (fst (fst r)) = nc q (fst p) + issued_between (snd p) (snd (fst r)) q).
  Proof.
    destruct p as [t c]. cbn zeta. cbn [fst snd].
    assert (Hib : forall c' q, nreq c' = nreq c -> issued_between c c' q = 0).
    { intros c' q E. unfold issued_between. rewrite E. destruct (Z.ltb_spec (Z.of_nat (nreq c)) q);
        destruct (Z.leb_spec q (Z.of_nat (nreq c))); cbn; try reflexivity. lia. }
    assert (Hsame : forall z, is_one z = false ->
      (hf = true -> ne t + count_if is_two (outs c) = ne t + (if is_one z then 1 else 0) + count_if is_two (outs c)) /\
      (nreq c <= nreq c <= S (nreq c)) /\
      (forall q, nc q t + issued_between c c q <= nc q t) /\
      (pl = true -> forall q, nc q t = nc q t + issued_between c c q)).
    { intros z Hz. rewrite Hz. repeat split; intros; rewrite ?Hib by reflexivity; lia. }
    destruct o as [h|h|h|h|]; cbn [cstep fst snd]; try (apply Hsame; reflexivity).
    - destruct (nth_error (hs c) h) as [x|]; [|apply Hsame; reflexivity].
      destruct (poll_until_count sub ne nc hf pl nr Hc cf t x) as [P1 P2].
      destruct (poll_until sub cf t x) as [t1 r]. cbn [fst snd outs nreq] in *.
      rewrite code_of_rres_one.
      split; [intros; lia|]. split; [lia|]. split; [intros q; rewrite Hib by reflexivity; rewrite P2; lia|].
      intros _ q. rewrite Hib by reflexivity. rewrite P2. lia.
    - destruct (nth_error (hs c) h) as [x|]; [|apply Hsame; reflexivity].
      destruct (crdy c x); [|apply Hsame; reflexivity].
      destruct (cs_call _ _ _ _ _ _ Hc t x (Z.of_nat (S (nreq c)))) as (cr & Hcc & C1 & C2 & C3 & C4 & C5 & C6).
      destruct (sub t (OCall x (Z.of_nat (S (nreq c))))) as [t1 a]. cbn [fst snd outs nreq] in *. subst a.
      assert (Hib1 : forall q, issued_between c (mkC (hs c) (updb (crdy c) x false)
                        (code_of_ans (ADone cr) :: outs c) (S (nreq c))) q =
                      if Z.eq_dec q (Z.of_nat (S (nreq c))) then 1 else 0).
      { intros q. unfold issued_between. cbn [nreq].
        destruct (Z.eq_dec q (Z.of_nat (S (nreq c)))) as [->|Hne].
        - destruct (Z.ltb_spec (Z.of_nat (nreq c)) (Z.of_nat (S (nreq c)))); [|lia].
          destruct (Z.leb_spec (Z.of_nat (S (nreq c))) (Z.of_nat (S (nreq c)))); [reflexivity|lia].
        - destruct (Z.ltb_spec (Z.of_nat (nreq c)) q); destruct (Z.leb_spec q (Z.of_nat (S (nreq c))));
            cbn; try reflexivity. lia. }
      unfold count_if. cbn [filter]. pose proof (code_of_ans_two cr) as K.
      split; [|split; [lia|split]].
      + intros H. rewrite (C1 H). revert K. destruct (is_two (code_of_ans (ADone cr))); cbn [length is_one Z.eqb]; lia.
      + intros q. rewrite Hib1. destruct (Z.eq_dec q (Z.of_nat (S (nreq c)))) as [->|Hne]; [lia|].
        rewrite (C5 q Hne). lia.
      + intros H q. rewrite Hib1. destruct (Z.eq_dec q (Z.of_nat (S (nreq c)))) as [->|Hne]; [apply (C4 H)|].
        rewrite (C5 q Hne). lia.
    - destruct (nth_error (hs c) h) as [x|]; [|apply Hsame; reflexivity].
      destruct (cs_clone _ _ _ _ _ _ Hc t x) as ((y & Hy) & K1 & K2).
      destruct (sub t (OClone x)) as [t1 a]. cbn [fst snd] in *. subst a. cbn [fst snd outs nreq].
      split; [intros; cbn; lia|]. split; [lia|]. split; [intros q; rewrite Hib by reflexivity; rewrite K2; lia|].
      intros _ q. rewrite Hib by reflexivity. rewrite K2. lia.
    - destruct (nth_error (hs c) h); apply Hsame; reflexivity.
  Qed.
End ProgCount.

Lemma issued_between_trans c1 c2 c3 q :
  nreq c1 <= nreq c2 -> nreq c2 <= nreq c3 ->
  issued_between c1 c3 q = issued_between c1 c2 q + issued_between c2 c3 q.
Proof.
  intros H1 H2. unfold issued_between.
  destruct (Z.ltb_spec (Z.of_nat (nreq c1)) q); destruct (Z.leb_spec q (Z.of_nat (nreq c3)));
    destruct (Z.leb_spec q (Z.of_nat (nreq c2))); destruct (Z.ltb_spec (Z.of_nat (nreq c2)) q);
    cbn; try reflexivity; lia.
Qed.

Section ProgCount2.
  Context {T : Type} (sub : T -> op -> T * ans) (ne : T -> nat) (nc : Z -> T -> nat).
  Context (hf pl nr : bool) (Hc : cspec sub ne nc hf pl nr) (cf : nat).

  Lemma run_cops_count : forall os p,
    let r := run_cops sub cf p os in
    (hf = true -> ne (fst (fst r)) + count_if is_two (outs (snd p)) =
                  ne (fst p) + count_if is_one (snd r) + count_if is_two (outs (snd (fst r)))) /\
    (nreq (snd p) <= nreq (snd (fst r))) /\
    (forall q, nc q (fst p) + issued_between (snd p) (snd (fst r)) q <= nc q (fst (fst r))) /\
    (pl = true -> forall q, nc q (fst (fst r)) = nc q (fst p) + issued_between (snd p) (snd (fst r)) q).
  Proof.
    induction os as [|o rest IH]; intros p; cbn zeta; cbn [run_cops].
    - cbn [fst snd]. unfold count_if. cbn [filter length].
      assert (Hib : forall q, issued_between (snd p) (snd p) q = 0).
      { intros q. unfold issued_between. destruct (Z.ltb_spec (Z.of_nat (nreq (snd p))) q);
          destruct (Z.leb_spec q (Z.of_nat (nreq (snd p)))); cbn; try reflexivity. lia. }
      repeat split; intros; rewrite ?Hib; lia.
    - destruct (cstep_count sub ne nc hf pl nr Hc cf p o) as (S1 & S2 & S3 & S4).
      destruct (cstep sub cf p o) as [p1 z]. cbn [fst snd] in *.
      specialize (IH p1). cbn zeta in IH. destruct IH as (I1 & I2 & I3 & I4).
      destruct (run_cops sub cf p1 rest) as [p2 zs]. cbn [fst snd] in *.
      unfold count_if in *. cbn [filter].
      split; [|split; [lia|split]].
      + intros H. specialize (S1 H). specialize (I1 H).
        destruct (is_one z); cbn [length]; lia.
      + intros q. rewrite (issued_between_trans (snd p) (snd p1) (snd p2) q) by lia.
        specialize (S3 q). specialize (I3 q). lia.
      + intros H q. rewrite (issued_between_trans (snd p) (snd p1) (snd p2) q) by lia.
        rewrite (I4 H q), (S4 H q). lia.
  Qed.
End ProgCount2.

(* ANY program over a stack with [exact_of ds = true] (see readiness_errors_surface_once): the
   wrapped service's readiness errors are equinumerous with the poll operations that reported a
   readiness error (code 1) plus the requests that ended with one (code 2) *)
Theorem program_readiness_errors_surface_once cf fuel ds b0 os :
  exact_of ds = true -> nerrs (blog b0) = 0 ->
  let r := run_cops (execp fuel ds) cf (init_stack ds b0, init_c) os in
  nerrs (blog (snd (fst (fst r)))) = count_if is_one (snd r) + count_if is_two (outs (snd (fst r))).
Proof.
  intros Hh H0. pose proof (stack_cspec fuel ds) as Hc. rewrite Hh in Hc.
  destruct (run_cops_count (execp fuel ds) sne snc _ _ _ Hc cf os (init_stack ds b0, init_c)) as (H1 & _).
  specialize (H1 eq_refl). cbn zeta. unfold sne in H1. cbn [fst snd init_stack init_c outs] in H1.
  unfold count_if in H1 at 1. cbn [filter length] in H1. lia.
Qed.

(* ANY program over ANY stack: the wrapped service sees every request the client issued
   (requests are numbered 1, 2, ... in the order of issue) at least once, exactly once when no
   layer retries or hedges, and never a request value that was not issued *)
Theorem program_requests_reach_the_service cf fuel ds b0 os :
  (forall q, ncalls q (blog b0) = 0) ->
  let r := run_cops (execp fuel ds) cf (init_stack ds b0, init_c) os in
  let n := nreq (snd (fst r)) in
  (forall q, (1 <= q <= Z.of_nat n)%Z -> 1 <= ncalls q (blog (snd (fst (fst r))))) /\
  (Forall plain_disc ds -> forall q,
      ncalls q (blog (snd (fst (fst r)))) = if ((1 <=? q) && (q <=? Z.of_nat n))%Z then 1 else 0).
Proof.
  intros H0. cbn zeta.
  set (r := run_cops (execp fuel ds) cf (init_stack ds b0, init_c) os).
  split.
  - pose proof (stack_cspec fuel ds) as Hc.
    destruct (run_cops_count (execp fuel ds) sne snc _ _ _ Hc cf os (init_stack ds b0, init_c)) as (_ & _ & H3 & _).
    fold r in H3. intros q Hq. specialize (H3 q). unfold snc, issued_between in H3.
    cbn [fst snd init_c nreq] in H3. change (snd (init_stack ds b0)) with b0 in H3. rewrite H0 in H3.
    destruct (Z.ltb_spec (Z.of_nat 0) q); [|lia].
    destruct (Z.leb_spec q (Z.of_nat (nreq (snd (fst r))))); [|lia].
    cbn [andb] in H3. lia.
  - intros Hp q.
    pose proof (stack_cspec fuel ds) as Hc. rewrite (plainb_forall ds Hp) in Hc.
    destruct (run_cops_count (execp fuel ds) sne snc _ _ _ Hc cf os (init_stack ds b0, init_c)) as (_ & _ & _ & H4).
    fold r in H4. specialize (H4 eq_refl q). unfold snc, issued_between in H4.
    cbn [fst snd init_c nreq] in H4. change (snd (init_stack ds b0)) with b0 in H4. rewrite H0 in H4.
    rewrite H4. cbn [Nat.add].
    replace (Z.of_nat 0 <? q)%Z with (1 <=? q)%Z; [reflexivity|].
    destruct (Z.leb_spec 1 q); destruct (Z.ltb_spec (Z.of_nat 0) q); try reflexivity; lia.
Qed.

(* ------------------------------------------------------------------------- *)
(* Inside a call a layer waits for readiness for as long as it takes. With more fuel than the
   oracle has Pending answers left, no poll loop of the model gives up and no request hangs: the
   fuel bound is not what makes the theorems above true for the scripts run_script executes. *)
Section Starve.
  Context {T : Type} (sub : T -> op -> T * ans) (pend : T -> nat) (fuel : nat).

  Record mspec : Prop := {
    ms_mono : forall t o, pend (fst (sub t o)) <= pend t;
    ms_poll : forall t x, exists r, snd (sub t (OPoll x)) = ARes r /\
                                    (r = RPending -> pend (fst (sub t (OPoll x))) < pend t);
    ms_clone : forall t x, exists y, snd (sub t (OClone x)) = AId y;
    ms_call : forall t x q, pend t < fuel -> snd (sub t (OCall x q)) <> ADone CHang
  }.

  Context (Hm : mspec).

  Lemma poll_until_mono f : forall t y, pend (fst (poll_until sub f t y)) <= pend t.
  Proof.
    induction f as [|f IH]; intros t y; cbn [poll_until]; [cbn; lia|].
    pose proof (ms_mono Hm t (OPoll y)) as M.
    destruct (sub t (OPoll y)) as [t1 a]. cbn [fst snd] in *.
    destruct a as [i|[| |]|c]; cbn [fst]; try lia; specialize (IH t1 y); lia.
  Qed.

  Lemma poll_until_answers f : forall t y, pend t < f -> snd (poll_until sub f t y) <> RPending.
  Proof.
    induction f as [|f IH]; intros t y Hlt; [lia|]. cbn [poll_until].
    destruct (ms_poll Hm t y) as (r & Hr & Hp).
    destruct (sub t (OPoll y)) as [t1 a]. cbn [fst snd] in *. subst a.
    destruct r; cbn [snd]; try discriminate. apply IH. specialize (Hp eq_refl). lia.
  Qed.

  Lemma rloop_mono dflt lay : forall rem t y q c, pend (fst (rloop sub fuel dflt lay rem t y q c)) <= pend t.
  Proof.
    induction rem as [|rem IH]; intros t y q c; destruct c as [|e|]; cbn [rloop fst]; try lia;
      destruct (retryable dflt e); cbn [fst]; try lia.
    pose proof (poll_until_mono fuel t y) as M1.
    destruct (poll_until sub fuel t y) as [t1 r]. cbn [fst snd] in *.
    destruct r; cbn [fst]; try lia.
    pose proof (ms_mono Hm t1 (OCall y q)) as M2.
    destruct (sub t1 (OCall y q)) as [t2 a]. cbn [fst snd] in *.
    specialize (IH t2 y q (cres_of a)). lia.
  Qed.

  Lemma cres_of_no_hang t x q : pend t < fuel -> cres_of (snd (sub t (OCall x q))) <> CHang.
  Proof.
    intros H. pose proof (ms_call Hm t x q H) as C.
    destruct (snd (sub t (OCall x q))) as [i|r|c]; cbn; try discriminate. congruence.
  Qed.

  Lemma rloop_no_hang dflt lay : forall rem t y q c, pend t < fuel -> c <> CHang ->
    snd (rloop sub fuel dflt lay rem t y q c) <> CHang.
  Proof.
    induction rem as [|rem IH]; intros t y q c Hlt Hc; destruct c as [|e|]; cbn [rloop snd]; try congruence;
      destruct (retryable dflt e); cbn [snd]; try congruence.
    - destruct lay; discriminate.
    - pose proof (poll_until_mono fuel t y) as M1.
      pose proof (poll_until_answers fuel t y Hlt) as A1.
      destruct (poll_until sub fuel t y) as [t1 r]. cbn [fst snd] in *.
      destruct r; cbn [snd]; try discriminate; try congruence.
      pose proof (cres_of_no_hang t1 y q ltac:(lia)) as C.
      pose proof (ms_mono Hm t1 (OCall y q)) as M2.
      destruct (sub t1 (OCall y q)) as [t2 a]. cbn [fst snd] in *.
      apply IH; [lia|exact C].
  Qed.

  Lemma hedges_mono k : forall t y0 q ok, pend (fst (hedges sub fuel k t y0 q ok)) <= pend t.
  Proof.
    induction k as [|k IH]; intros t y0 q ok; cbn [hedges fst]; [lia|].
    pose proof (ms_mono Hm t (OClone y0)) as M0.
    destruct (sub t (OClone y0)) as [t1 a]. cbn [fst snd] in *.
    destruct a as [h|r|c]; cbn [fst]; try lia.
    pose proof (poll_until_mono fuel t1 h) as M1.
    destruct (poll_until sub fuel t1 h) as [t2 r]. cbn [fst snd] in *.
    destruct r; try (specialize (IH t2 y0 q ok); lia).
    pose proof (ms_mono Hm t2 (OCall h q)) as M2.
    destruct (sub t2 (OCall h q)) as [t3 a3]. cbn [fst snd] in *.
    specialize (IH t3 y0 q (ok || is_ok (cres_of a3))). lia.
  Qed.

  Lemma hseq_mono k : forall t y0 q, pend (fst (hseq sub fuel k t y0 q)) <= pend t.
  Proof.
    induction k as [|k IH]; intros t y0 q; cbn [hseq fst]; [lia|].
    pose proof (ms_mono Hm t (OClone y0)) as M0.
    destruct (sub t (OClone y0)) as [t1 a]. cbn [fst snd] in *.
    destruct a as [h|r|c]; cbn [fst]; try lia.
    pose proof (poll_until_mono fuel t1 h) as M1.
    destruct (poll_until sub fuel t1 h) as [t2 r]. cbn [fst snd] in *.
    destruct r; try (specialize (IH t2 y0 q); lia).
    pose proof (ms_mono Hm t2 (OCall h q)) as M2.
    destruct (sub t2 (OCall h q)) as [t3 a3]. cbn [fst snd] in *.
    destruct (is_ok (cres_of a3)); cbn [fst]; [lia|]. specialize (IH t3 y0 q). lia.
  Qed.

  Lemma hedge_result_no_hang ok : hedge_result ok <> CHang.
  Proof. destruct ok; discriminate. Qed.

  Context (d : disc).

  Lemma layer_mspec_gen :
    (forall p o, pend (snd (fst (lsub sub fuel d p o))) <= pend (snd p)) /\
    (forall p x, exists r, snd (lsub sub fuel d p (OPoll x)) = ARes r /\
                 (r = RPending -> pend (snd (fst (lsub sub fuel d p (OPoll x)))) < pend (snd p))) /\
    (forall p x, exists y, snd (lsub sub fuel d p (OClone x)) = AId y) /\
    (forall p x q, pend (snd p) < fuel -> snd (lsub sub fuel d p (OCall x q)) <> ADone CHang).
  Proof.
    split; [|split; [|split]].
    - intros [l t] o. unfold lsub. cbn [fst snd].
      destruct o as [x|x|x q]; cbn [layer_exec].
      + pose proof (ms_mono Hm t (OClone (imap l x))) as M.
        destruct (sub t (OClone (imap l x))) as [t1 a]. destruct a; cbn [fst snd] in *; lia.
      + pose proof (ms_mono Hm t (OPoll (imap l x))) as M.
        destruct (sub t (OPoll (imap l x))) as [t1 a]. cbn [fst snd] in *. lia.
      + set (y := imap l x). destruct d as [| |k df|k|k|k df].
        * pose proof (ms_mono Hm t (OClone y)) as M. destruct (sub t (OClone y)) as [t1 a]. cbn [fst snd] in *.
          destruct a as [y'|r|c]; cbn [fst snd]; try lia.
          pose proof (ms_mono Hm t1 (OCall y q)) as M2. destruct (sub t1 (OCall y q)) as [t2 a0]. cbn [fst snd] in *. lia.
        * pose proof (ms_mono Hm t (OCall y q)) as M. destruct (sub t (OCall y q)) as [t1 a]. cbn [fst snd] in *. lia.
        * pose proof (ms_mono Hm t (OClone y)) as M. destruct (sub t (OClone y)) as [t1 a]. cbn [fst snd] in *.
          destruct a as [y'|r|c]; cbn [fst snd]; try lia.
          pose proof (ms_mono Hm t1 (OCall y q)) as M2. destruct (sub t1 (OCall y q)) as [t2 a0]. cbn [fst snd] in *.
          pose proof (rloop_mono df false k t2 y q (cres_of a0)) as M3.
          destruct (rloop sub fuel df false k t2 y q (cres_of a0)) as [t3 e]. cbn [fst snd] in *. lia.
        * pose proof (ms_mono Hm t (OClone y)) as M. destruct (sub t (OClone y)) as [t1 a]. cbn [fst snd] in *.
          destruct a as [y'|r|c]; cbn [fst snd]; try lia.
          pose proof (ms_mono Hm t1 (OCall y q)) as M2. destruct (sub t1 (OCall y q)) as [t2 a0]. cbn [fst snd] in *.
          pose proof (hedges_mono k t2 y' q (is_ok (cres_of a0))) as M3.
          destruct (hedges sub fuel k t2 y' q (is_ok (cres_of a0))) as [t3 ok]. cbn [fst snd] in *. lia.
        * pose proof (ms_mono Hm t (OClone y)) as M. destruct (sub t (OClone y)) as [t1 a]. cbn [fst snd] in *.
          destruct a as [y'|r|c]; cbn [fst snd]; try lia.
          pose proof (ms_mono Hm t1 (OCall y q)) as M2. destruct (sub t1 (OCall y q)) as [t2 a0]. cbn [fst snd] in *.
          destruct (is_ok (cres_of a0)); cbn [fst snd]; [lia|].
          pose proof (hseq_mono k t2 y' q) as M3.
          destruct (hseq sub fuel k t2 y' q) as [t3 ok]. cbn [fst snd] in *. lia.
        * pose proof (ms_mono Hm t (OCall y q)) as M. destruct (sub t (OCall y q)) as [t1 a0]. cbn [fst snd] in *.
          pose proof (ms_mono Hm t1 (OClone y)) as M2. destruct (sub t1 (OClone y)) as [t2 a]. cbn [fst snd] in *.
          destruct a as [z|r|c]; cbn [fst snd]; try lia.
          pose proof (rloop_mono df true (S k) t2 z q (cres_of a0)) as M3.
          destruct (rloop sub fuel df true (S k) t2 z q (cres_of a0)) as [t3 e]. cbn [fst snd] in *. lia.
    - intros [l t] x. unfold lsub. cbn [fst snd layer_exec].
      destruct (ms_poll Hm t (imap l x)) as (r & Hr & Hp).
      destruct (sub t (OPoll (imap l x))) as [t1 a]. cbn [fst snd] in *. exists r. auto.
    - intros [l t] x. unfold lsub. cbn [fst snd layer_exec].
      destruct (ms_clone Hm t (imap l x)) as (y & Hy).
      destruct (sub t (OClone (imap l x))) as [t1 a]. cbn [fst snd] in *. subst a. cbn. eexists; reflexivity.
    - intros [l t] x q Hlt. unfold lsub. cbn [fst snd layer_exec] in *.
      set (y := imap l x).
      assert (Hcl : forall t0 y0, exists t1 z, sub t0 (OClone y0) = (t1, AId z) /\ pend t1 <= pend t0).
      { intros t0 y0. destruct (ms_clone Hm t0 y0) as [z Hz]. pose proof (ms_mono Hm t0 (OClone y0)) as M.
        destruct (sub t0 (OClone y0)) as [t1 a]. cbn [fst snd] in *. subst a. eauto. }
      destruct d as [| |k df|k|k|k df].
      + destruct (Hcl t y) as (t1 & y' & E & M). rewrite E.
        pose proof (cres_of_no_hang t1 y q ltac:(lia)) as C.
        destruct (sub t1 (OCall y q)) as [t2 a0]. cbn [fst snd] in *. congruence.
      + pose proof (cres_of_no_hang t y q Hlt) as C.
        destruct (sub t (OCall y q)) as [t1 a]. cbn [fst snd] in *. congruence.
      + destruct (Hcl t y) as (t1 & y' & E & M). rewrite E.
        pose proof (cres_of_no_hang t1 y q ltac:(lia)) as C. pose proof (ms_mono Hm t1 (OCall y q)) as M2.
        destruct (sub t1 (OCall y q)) as [t2 a0]. cbn [fst snd] in *.
        pose proof (rloop_no_hang df false k t2 y q (cres_of a0) ltac:(lia) C) as A.
        destruct (rloop sub fuel df false k t2 y q (cres_of a0)) as [t3 e]. cbn [fst snd] in *. congruence.
      + destruct (Hcl t y) as (t1 & y' & E & M). rewrite E.
        destruct (sub t1 (OCall y q)) as [t2 a0].
        destruct (hedges sub fuel k t2 y' q (is_ok (cres_of a0))) as [t3 ok]. cbn [fst snd].
        pose proof (hedge_result_no_hang ok). congruence.
      + destruct (Hcl t y) as (t1 & y' & E & M). rewrite E.
        destruct (sub t1 (OCall y q)) as [t2 a0].
        destruct (is_ok (cres_of a0)); cbn [fst snd]; [discriminate|].
        destruct (hseq sub fuel k t2 y' q) as [t3 ok]. cbn [fst snd].
        pose proof (hedge_result_no_hang ok). congruence.
      + pose proof (cres_of_no_hang t y q Hlt) as C. pose proof (ms_mono Hm t (OCall y q)) as M.
        destruct (sub t (OCall y q)) as [t1 a0]. cbn [fst snd] in *.
        destruct (Hcl t1 y) as (t2 & z & E & M2). rewrite E.
        pose proof (rloop_no_hang df true (S k) t2 z q (cres_of a0) ltac:(lia) C) as A.
        destruct (rloop sub fuel df true (S k) t2 z q (cres_of a0)) as [t3 e]. cbn [fst snd] in *. congruence.
  Qed.
End Starve.

Lemma layer_mspec {T} (sub : T -> op -> T * ans) pend fuel (Hm : mspec sub pend fuel) d :
  mspec (lsub sub fuel d) (fun p => pend (snd p)) fuel.
Proof.
  destruct (layer_mspec_gen sub pend fuel Hm d) as (H1 & H2 & H3 & H4).
  constructor; auto.
Qed.

(* Pending answers the wrapped service still has in store *)
Definition bpend (b : base) : nat :=
  if pmode b then length (concat (porc b)) else length (oracle b).

Lemma drop_at_le c : forall l, length (concat (drop_at c l)) <= length (concat l).
Proof.
  induction c as [|c IH]; intros [|h r]; cbn [drop_at concat]; try lia.
  - rewrite !app_length. destruct h; cbn; lia.
  - rewrite !app_length. specialize (IH r). lia.
Qed.

Lemma drop_at_lt c : forall l, head_or_ready (nth c l []) = RPending ->
  length (concat (drop_at c l)) < length (concat l).
Proof.
  induction c as [|c IH]; intros [|h r] H; cbn [drop_at concat nth] in *; try discriminate.
  - rewrite !app_length. destruct h; cbn in *; [discriminate|lia].
  - rewrite !app_length. specialize (IH r H). lia.
Qed.

Lemma base_mspec fuel : mspec base_exec bpend fuel.
Proof.
  constructor.
  - intros b o. destruct o as [x|x|x q]; unfold bpend; cbn; try lia.
    destruct (pmode b); [apply drop_at_le|destruct (oracle b); cbn; lia].
  - intros b x. exists (answer b x). split; [reflexivity|]. intros Hr. unfold bpend, answer in *. cbn.
    destruct (pmode b); [apply drop_at_lt; exact Hr|destruct (oracle b); cbn in *; [discriminate|lia]].
  - intros b x. eexists; reflexivity.
  - intros b x q _. cbn. unfold call_result. destruct (Z.testbit _ _); [discriminate|].
    destruct (Nat.ltb _ _); discriminate.
Qed.

Definition spend (t : list lstate * base) : nat := bpend (snd t).

Lemma stack_mspec fuel : forall ds, mspec (execp fuel ds) spend fuel.
Proof.
  induction ds as [|d ds' IH].
  - pose proof (base_mspec fuel) as [M P K C]. unfold spend.
    constructor; intros [ls b]; intros; rewrite execp_base; cbn [fst snd]; auto.
  - pose proof (layer_mspec (execp fuel ds') spend fuel IH d) as [M P K C].
    pose proof (base_mspec fuel) as [M0 P0 K0 C0].
    constructor.
    + intros [[|l ls'] b] o.
      * rewrite execp_nil. unfold spend. cbn [fst snd]. apply M0.
      * specialize (M (l, (ls', b)) o). rewrite execp_cons.
        destruct (lsub (execp fuel ds') fuel d (l, (ls', b)) o) as [[l' [ls2 b2]] a]. exact M.
    + intros [[|l ls'] b] x.
      * rewrite execp_nil. unfold spend. cbn [fst snd]. apply P0.
      * specialize (P (l, (ls', b)) x). rewrite execp_cons.
        destruct (lsub (execp fuel ds') fuel d (l, (ls', b)) (OPoll x)) as [[l' [ls2 b2]] a]. exact P.
    + intros [[|l ls'] b] x.
      * rewrite execp_nil. cbn [fst snd]. apply K0.
      * specialize (K (l, (ls', b)) x). rewrite execp_cons.
        destruct (lsub (execp fuel ds') fuel d (l, (ls', b)) (OClone x)) as [[l' [ls2 b2]] a]. exact K.
    + intros [[|l ls'] b] x q Hlt.
      * rewrite execp_nil. cbn [fst snd]. apply C0. exact Hlt.
      * specialize (C (l, (ls', b)) x q Hlt). rewrite execp_cons.
        destruct (lsub (execp fuel ds') fuel d (l, (ls', b)) (OCall x q)) as [[l' [ls2 b2]] a]. exact C.
Qed.

(* no request of the sequential client hangs (code 9) when the fuel exceeds the Pending answers in store *)
Theorem client_never_hangs cf fuel ds : forall reqs t,
  spend t < fuel -> ~ In 9%Z (snd (client cf fuel ds t reqs)).
Proof.
  pose proof (stack_mspec fuel ds) as Hm.
  induction reqs as [|q rest IH]; intros t Hlt; [cbn; tauto|].
  rewrite client_cons.
  pose proof (poll_until_mono (execp fuel ds) spend fuel Hm cf t 0) as M1.
  destruct (poll_until (execp fuel ds) cf t 0) as [t1 r]. cbn [fst snd] in *.
  assert (Hskip : r <> RReady ->
            ~ In 9%Z (snd (let '(t3, out) := client cf fuel ds t1 rest in (t3, code_of_rres r :: out)))).
  { intros Hr. specialize (IH t1 ltac:(lia)). destruct (client cf fuel ds t1 rest) as [t3 out].
    cbn [snd] in *. intros [H|H]; [destruct r; cbn in H; congruence|exact (IH H)]. }
  destruct r; [|apply Hskip; discriminate|apply Hskip; discriminate].
  pose proof (ms_mono _ _ _ Hm t1 (OCall 0 q)) as M2.
  pose proof (ms_call _ _ _ Hm t1 0 q ltac:(lia)) as C.
  destruct (execp fuel ds t1 (OCall 0 q)) as [t2 a]. cbn [fst snd] in *.
  specialize (IH t2 ltac:(lia)). destruct (client cf fuel ds t2 rest) as [t3 out]. cbn [snd] in *.
  intros [H|H]; [|exact (IH H)].
  destruct a as [i|r|[|[| | |]|]]; cbn in H; congruence.
Qed.

Theorem program_never_hangs cf fuel ds : forall os p,
  spend (fst p) < fuel -> ~ In 9%Z (outs (snd p)) ->
  ~ In 9%Z (outs (snd (fst (run_cops (execp fuel ds) cf p os)))).
Proof.
  pose proof (stack_mspec fuel ds) as Hm.
  induction os as [|o rest IH]; intros [t c] Hlt Hno; cbn [run_cops fst snd] in *; [exact Hno|].
  assert (Hstep : spend (fst (fst (cstep (execp fuel ds) cf (t, c) o))) <= spend t /\
                  ~ In 9%Z (outs (snd (fst (cstep (execp fuel ds) cf (t, c) o))))).
  { destruct o as [h|h|h|h|]; cbn [cstep fst snd]; try (split; [lia|exact Hno]).
    - destruct (nth_error (hs c) h) as [x|]; [|cbn [fst snd]; split; [lia|exact Hno]].
      pose proof (poll_until_mono (execp fuel ds) spend fuel Hm cf t x) as M.
      destruct (poll_until (execp fuel ds) cf t x) as [t1 r]. cbn [fst snd outs] in *. split; [lia|exact Hno].
    - destruct (nth_error (hs c) h) as [x|]; [|cbn [fst snd]; split; [lia|exact Hno]].
      destruct (crdy c x); [|cbn [fst snd]; split; [lia|exact Hno]].
      pose proof (ms_mono _ _ _ Hm t (OCall x (Z.of_nat (S (nreq c))))) as M.
      pose proof (ms_call _ _ _ Hm t x (Z.of_nat (S (nreq c))) Hlt) as C.
      destruct (execp fuel ds t (OCall x (Z.of_nat (S (nreq c))))) as [t1 a]. cbn [fst snd outs] in *.
      split; [lia|]. intros [H|H]; [|exact (Hno H)]. destruct a as [i|r|[|[| | |]|]]; cbn in H; congruence.
    - destruct (nth_error (hs c) h) as [x|]; [|cbn [fst snd]; split; [lia|exact Hno]].
      pose proof (ms_mono _ _ _ Hm t (OClone x)) as M.
      destruct (execp fuel ds t (OClone x)) as [t1 a]. cbn [fst snd] in *.
      destruct a; cbn [fst snd outs]; split; try lia; exact Hno.
    - destruct (nth_error (hs c) h); cbn [fst snd]; split; try lia; exact Hno. }
  destruct (cstep (execp fuel ds) cf (t, c) o) as [p1 z]. cbn [fst snd] in *.
  destruct Hstep as [S1 S2]. specialize (IH p1 ltac:(lia) S2).
  destruct (run_cops (execp fuel ds) cf p1 rest) as [p2 zs]. exact IH.
Qed.

(* the fuel run_script uses (modes 1 and 3: one more than the number of scripted answers) is
   large enough: no request of any mode-1 / mode-3 script hangs in the model *)
Corollary run_protocol_never_hangs cf ds orc kf am reqs :
  ~ In 9%Z (snd (client cf (S (length orc)) ds (init_stack ds (init_base_f orc kf am)) reqs)).
Proof. apply client_never_hangs. unfold spend, bpend, init_stack. cbn. lia. Qed.

Corollary run_program_never_hangs cf ds po kf am os :
  ~ In 9%Z (outs (snd (fst (run_cops (execp (S (length (concat po))) ds) cf
                                    (init_stack ds (init_base_pf po kf am), init_c) os)))).
Proof. apply program_never_hangs; [unfold spend, bpend, init_stack; cbn; lia|cbn; tauto]. Qed.

(* ------------------------------------------------------------------------- *)
(* (B) transparency: layers that pass through compose, and the stack's result is the inner
   result wrapped by the fold of the layers' pass-through wrappers, outermost first *)
Section Passes.
  Context {E : Type}.

  Lemma wrap_out_comp (w1 w2 : E -> E) (o : outcome E) :
    wrap_out w1 (wrap_out w2 o) = wrap_out (fun e => w1 (w2 e)) o.
  Proof. destruct o; reflexivity. Qed.

  Lemma wrap_out_ext (w1 w2 : E -> E) (o : outcome E) :
    (forall e, w1 e = w2 e) -> wrap_out w1 o = wrap_out w2 o.
  Proof. intros H. destruct o; cbn; [reflexivity|rewrite H; reflexivity]. Qed.

  Theorem stack_passes (st : list (layer_sem E * (E -> E))) :
    Forall (fun p => passes (snd p) (fst p)) st ->
    forall inner req,
      calls (stack_sem (map fst st) inner req) = calls (inner req) /\
      result (stack_sem (map fst st) inner req) = wrap_out (wraps (map snd st)) (result (inner req)).
  Proof.
    induction 1 as [|[L w] rest HL Hrest IH]; intros inner req; cbn [map stack_sem fold_right wraps].
    - split; [reflexivity|]. destruct (result (inner req)); reflexivity.
    - cbn [fst snd] in *. destruct (HL (stack_sem (map fst rest) inner) req) as [H1 H2].
      destruct (IH inner req) as [I1 I2].
      unfold stack_sem in *. split; [congruence|].
      rewrite H2, I2, wrap_out_comp. reflexivity.
  Qed.

  Lemma pass_through_passes (w : E -> E) : passes w (pass_through w).
  Proof. intros inner req. split; reflexivity. Qed.

  (* a stack of passing layers is itself a passing layer (stacks nest) *)
  Corollary stack_is_passing (st : list (layer_sem E * (E -> E))) :
    Forall (fun p => passes (snd p) (fst p)) st ->
    passes (wraps (map snd st)) (stack_sem (map fst st)).
  Proof. intros H inner req. apply stack_passes. exact H. Qed.
End Passes.

(* ------------------------------------------------------------------------- *)
(* (C) listeners only observe. [run_steps] COMPUTES the outcome of a call path through the
   listener invocations: a panic that escapes an invocation ends the run with FPanic. *)
Lemma emit_g_contained g ls ev :
  (forall l, In l ls -> contained g (l ev) = true) ->
  emit_g g ls ev = (map (fun l => l ev) ls, false).
Proof.
  induction ls as [|l rest IH]; intros H; cbn [emit_g map]; [reflexivity|].
  rewrite (H l (or_introl eq_refl)). rewrite IH by (intros l' Hl; apply H; right; exact Hl). reflexivity.
Qed.

Lemma contained_catch_loop r : contained GCatchLoop r = true.
Proof. destruct r; reflexivity. Qed.

(* what the listeners are handed, event by event *)
Fixpoint deliveries_of (ls : list listener) (steps : list lstep) : list (Z * list lresult) :=
  match steps with
  | [] => []
  | SEmit ev :: rest => (ev, map (fun l => l ev) ls) :: deliveries_of ls rest
  | SOut _ _ :: rest => deliveries_of ls rest
  end.

(* the outcome the call path fixes by itself *)
Fixpoint final_of (steps : list lstep) (cur : final) : final :=
  match steps with
  | [] => cur
  | SOut k p :: rest => final_of rest (FOut k p)
  | SEmit _ :: rest => final_of rest cur
  end.

(* a guard contains the listeners [ls]: nothing they do escapes it *)
Definition contains (g : guard) (ls : list listener) : Prop :=
  forall l ev, In l ls -> contained g (l ev) = true.

Lemma run_steps_contained g ls : contains g ls -> forall steps cur acc,
  run_steps g ls steps cur acc = (final_of steps cur, rev acc ++ deliveries_of ls steps).
Proof.
  intros Hg. induction steps as [|s rest IH]; intros cur acc; cbn [run_steps final_of deliveries_of].
  - rewrite app_nil_r. reflexivity.
  - destruct s as [ev|k p].
    + rewrite emit_g_contained by (intros l Hl; apply Hg; exact Hl).
      rewrite IH. cbn [rev]. rewrite <- app_assoc. reflexivity.
    + apply IH.
Qed.

Lemma catch_loop_contains ls : contains GCatchLoop ls.
Proof. intros l ev _. apply contained_catch_loop. Qed.

Lemma run_steps_guarded ls : forall steps cur acc,
  run_steps GCatchLoop ls steps cur acc = (final_of steps cur, rev acc ++ deliveries_of ls steps).
Proof. apply run_steps_contained, catch_loop_contains. Qed.

(* whatever the listeners do -- return, panic, panic with a payload whose destructor panics, nested to
   ANY depth (drop_panic_payload drops 16 levels under catch_unwind and leaks the rest), any subset of
   them, any number of them -- the outcome of a call whose listener invocations go through
   EventListeners::emit / observe (as repaired by d1b49ff) is the outcome the call path fixes by itself *)
Theorem listeners_cannot_change_outcome ls steps cur :
  fst (run_steps GCatchLoop ls steps cur []) = final_of steps cur.
Proof. rewrite run_steps_guarded. reflexivity. Qed.

Corollary outcome_independent_of_listeners ls1 ls2 steps cur :
  fst (run_steps GCatchLoop ls1 steps cur []) = fst (run_steps GCatchLoop ls2 steps cur []).
Proof. rewrite !listeners_cannot_change_outcome. reflexivity. Qed.

(* ... and every listener is handed every event, whatever the others did with it *)
Theorem every_listener_gets_every_event ls steps cur :
  snd (run_steps GCatchLoop ls steps cur []) = deliveries_of ls steps /\
  (forall ev, In (SEmit ev) steps -> In (ev, map (fun l => l ev) ls) (deliveries_of ls steps)) /\
  (forall ev i l, nth_error ls i = Some l -> nth_error (map (fun l => l ev) ls) i = Some (l ev)).
Proof.
  split; [rewrite run_steps_guarded; reflexivity|]. split.
  - intros ev. induction steps as [|s rest IH]; intros Hin; [destruct Hin|].
    destruct Hin as [->|Hin]; cbn [deliveries_of]; [left; reflexivity|].
    destruct s; [right|]; apply IH; exact Hin.
  - intros ev i l H. exact (map_nth_error (fun l0 : listener => l0 ev) i ls H).
Qed.

Fixpoint emits (ev : Z) (steps : list lstep) : nat :=
  match steps with
  | [] => O
  | SEmit e :: rest => (if Z.eqb e ev then 1 else 0) + emits ev rest
  | SOut _ _ :: rest => emits ev rest
  end.

(* per kind, in absolute numbers: a registered listener is invoked exactly once per emitted event *)
Theorem per_kind_counts ls steps cur i l ev :
  nth_error ls i = Some l -> (forall e, l e <> Skipped) ->
  count_kind i ev (snd (run_steps GCatchLoop ls steps cur [])) = Z.of_nat (emits ev steps).
Proof.
  intros Hi Hl. rewrite run_steps_guarded. cbn [snd rev app]. unfold count_kind. f_equal.
  induction steps as [|s rest IH]; [reflexivity|].
  destruct s as [e|k p]; cbn [deliveries_of emits filter fst snd]; [|exact IH].
  rewrite (map_nth_error (fun l0 => l0 e) i ls Hi).
  assert (Hinv : invoked (Some (l e)) = true) by (specialize (Hl e); destruct (l e); try reflexivity; congruence).
  rewrite Hinv, andb_true_r. destruct (Z.eqb e ev); cbn [length]; rewrite IH; reflexivity.
Qed.

(* the same call path with BARE callback invocations (no catch_unwind: reconnect's
   on_state_change / on_reconnect before fix 484f229): the clause is false. A state-change
   observer that panics after the inner call has answered Ok(70) turns the call into a panic, and
   the listener behind it never sees the event. *)
Theorem bare_callbacks_refuted :
  let ls := [(fun _ => Panics); (fun _ => Returns)] in
  let steps := [SOut 0 70; SEmit 0] in
  fst (run_steps GBare ls steps (FOut 0 0) []) = FPanic /\
  final_of steps (FOut 0 0) = FOut 0 70 /\
  count_kind 1 0 (snd (run_steps GBare ls steps (FOut 0 0) [])) = 0%Z /\
  count_kind 1 0 (snd (run_steps GCatchLoop ls steps (FOut 0 0) [])) = 1%Z.
Proof. cbn. repeat split; reflexivity. Qed.

(* ... and for invocations that catch the panic but drop its payload outside the guard
   (EventListeners::emit before fix afefac0; reconnect's callback sites before 56b9388): an ordinary
   panic is contained, a payload whose destructor panics is not *)
Theorem payload_dropped_outside_refuted :
  let steps := [SEmit 0; SOut 0 70] in
  fst (run_steps GCatch [(fun _ => Panics); (fun _ => Returns)] steps (FOut 0 0) []) = FOut 0 70 /\
  fst (run_steps GCatch [(fun _ => Bombs 1); (fun _ => Returns)] steps (FOut 0 0) []) = FPanic /\
  count_kind 1 0 (snd (run_steps GCatch [(fun _ => Bombs 1); (fun _ => Returns)] steps (FOut 0 0) [])) = 0%Z /\
  fst (run_steps GCatchDrop [(fun _ => Bombs 1); (fun _ => Returns)] steps (FOut 0 0) []) = FOut 0 70 /\
  count_kind 1 0 (snd (run_steps GCatchDrop [(fun _ => Bombs 1); (fun _ => Returns)] steps (FOut 0 0) [])) = 1%Z.
Proof. cbn. repeat split; reflexivity. Qed.

(* ... and for invocations that drop the caught payload under a guard but discard the payload of a panic
   raised by THAT drop bare (emit after afefac0 / observe after 56b9388, before d1b49ff): a payload
   nested two levels deep escapes; the bounded drop loop contains it, and any deeper one *)
Theorem nested_payload_refuted :
  let steps := [SEmit 0; SOut 0 70] in
  fst (run_steps GCatchDrop [(fun _ => Bombs 2); (fun _ => Returns)] steps (FOut 0 0) []) = FPanic /\
  count_kind 1 0 (snd (run_steps GCatchDrop [(fun _ => Bombs 2); (fun _ => Returns)] steps (FOut 0 0) [])) = 0%Z /\
  (forall d, fst (run_steps GCatchLoop [(fun _ => Bombs d); (fun _ => Returns)] steps (FOut 0 0) []) = FOut 0 70 /\
             count_kind 1 0 (snd (run_steps GCatchLoop [(fun _ => Bombs d); (fun _ => Returns)] steps (FOut 0 0) [])) = 1%Z).
Proof. cbn. repeat split; reflexivity. Qed.
