(* C20: readiness contract is preserved by every layer discipline and every stack;
   transparent layers compose; listeners only observe. *)
From TR Require Import Lib.Base Model.Layers.

Local Open Scope nat_scope.

(* ------------------------------------------------------------------------- *)
(* An abstract "service with instances": what a layer may assume of the service it wraps
   and must guarantee to its own client. *)
Record iface (T : Type) := mkI {
  iI : T -> Prop;                  (* state invariant *)
  irdy : T -> nat -> bool;         (* instance x has been polled Ready since its last call *)
  ivalid : T -> nat -> Prop;       (* instance x exists *)
  iviol : T -> nat                 (* contract violations seen by the wrapped service *)
}.
Arguments mkI {T}. Arguments iI {T}. Arguments irdy {T}. Arguments ivalid {T}. Arguments iviol {T}.

Section Spec.
  Context {T : Type} (sub : T -> op -> T * ans) (F : iface T).

  (* "frame": the operation preserved the invariant, raised no violation, kept every
     instance and did not touch the readiness of instances outside [touched] *)
  Definition frame (t t' : T) (touched : nat -> Prop) : Prop :=
    iI F t' /\ iviol F t' = iviol F t /\
    (forall y, ivalid F t y -> ivalid F t' y) /\
    (forall y, ivalid F t y -> ~ touched y -> irdy F t' y = irdy F t y).

  Record spec : Prop := {
    sp_poll : forall t x, iI F t -> ivalid F t x ->
      frame t (fst (sub t (OPoll x))) (eq x) /\
      (forall y, ivalid F (fst (sub t (OPoll x))) y -> ivalid F t y) /\
      exists r, snd (sub t (OPoll x)) = ARes r /\
                (r = RReady -> irdy F (fst (sub t (OPoll x))) x = true);
    sp_call : forall t x q, iI F t -> ivalid F t x -> irdy F t x = true ->
      frame t (fst (sub t (OCall x q))) (eq x) /\
      (forall y, ivalid F (fst (sub t (OCall x q))) y -> ivalid F t y);
    sp_clone : forall t x, iI F t -> ivalid F t x ->
      frame t (fst (sub t (OClone x))) (fun _ => False) /\
      exists x', snd (sub t (OClone x)) = AId x' /\ ~ ivalid F t x' /\
                 ivalid F (fst (sub t (OClone x))) x' /\
                 (forall y, ivalid F (fst (sub t (OClone x))) y -> ivalid F t y \/ y = x')
  }.

  Context (Hs : spec).

  Lemma frame_refl t P : iI F t -> frame t t P.
  Proof. intros H. repeat split; auto. Qed.

  Lemma frame_trans t1 t2 t3 (P : nat -> Prop) :
    frame t1 t2 P -> frame t2 t3 P -> frame t1 t3 P.
  Proof.
    intros (A1 & A2 & A3 & A4) (B1 & B2 & B3 & B4). repeat split; auto; try congruence.
    intros y Hy Hn. rewrite B4; auto.
  Qed.

  Lemma frame_weaken t t' (P Q : nat -> Prop) :
    (forall y, P y -> Q y) -> frame t t' P -> frame t t' Q.
  Proof. intros HPQ (A1 & A2 & A3 & A4). repeat split; auto. Qed.

  (* polling y until Ready *)
  Lemma poll_until_spec fuel : forall t y, iI F t -> ivalid F t y ->
    frame t (fst (poll_until sub fuel t y)) (eq y) /\
    (forall z, ivalid F (fst (poll_until sub fuel t y)) z -> ivalid F t z) /\
    (snd (poll_until sub fuel t y) = RReady -> irdy F (fst (poll_until sub fuel t y)) y = true).
  Proof.
    induction fuel as [|f IH]; intros t y HI Hv; cbn [poll_until].
    - cbn. split; [apply frame_refl; exact HI|]. split; [auto|discriminate].
    - destruct (sp_poll Hs t y HI Hv) as (Hf & Hback & r & Hr & Hrdy).
      destruct (sub t (OPoll y)) as [t1 a] eqn:E. cbn [fst snd] in *. subst a.
      destruct r; cbn [fst snd].
      + split; [exact Hf|]. split; [exact Hback|]. intros _. apply Hrdy. reflexivity.
      + pose proof Hf as (A1 & A2 & A3 & A4).
        destruct (IH t1 y A1 (A3 y Hv)) as (Hf2 & Hback2 & Hrdy2).
        split; [eapply frame_trans; [exact Hf|exact Hf2]|].
        split; [intros z Hz; apply Hback; apply Hback2; exact Hz|exact Hrdy2].
      + split; [exact Hf|]. split; [exact Hback|discriminate].
  Qed.

  (* k further attempts on y: no violation, only y touched *)
  Lemma attempts_spec fuel k : forall t y q, iI F t -> ivalid F t y ->
    frame t (fst (attempts sub fuel k t y q)) (eq y) /\
    (forall z, ivalid F (fst (attempts sub fuel k t y q)) z -> ivalid F t z).
  Proof.
    induction k as [|k IH]; intros t y q HI Hv; cbn [attempts].
    - cbn. split; [apply frame_refl; exact HI|auto].
    - destruct (poll_until_spec fuel t y HI Hv) as (Hf & Hback & Hrdy).
      destruct (poll_until sub fuel t y) as [t1 r] eqn:E. cbn [fst snd] in *.
      destruct r; cbn [fst snd]; try (split; [exact Hf|exact Hback]).
      pose proof Hf as (A1 & A2 & A3 & A4).
      destruct (sp_call Hs t1 y q A1 (A3 y Hv) (Hrdy eq_refl)) as (Hf2 & Hback2).
      destruct (sub t1 (OCall y q)) as [t2 a2] eqn:E2. cbn [fst snd] in *.
      pose proof Hf2 as (B1 & B2 & B3 & B4).
      destruct (IH t2 y q B1 (B3 y (A3 y Hv))) as (Hf3 & Hback3).
      assert (Hstop : frame t t2 (eq y) /\ (forall z, ivalid F t2 z -> ivalid F t z)).
      { split; [eapply frame_trans; [exact Hf|exact Hf2]|].
        intros z Hz. apply Hback, Hback2. exact Hz. }
      assert (Hgo : frame t (fst (attempts sub fuel k t2 y q)) (eq y) /\
                    (forall z, ivalid F (fst (attempts sub fuel k t2 y q)) z -> ivalid F t z)).
      { split.
        - eapply frame_trans; [exact Hf|]. eapply frame_trans; [exact Hf2|exact Hf3].
        - intros z Hz. apply Hback, Hback2, Hback3. exact Hz. }
      destruct a2 as [i|r'|[|]]; cbn [fst snd]; first [exact Hgo|exact Hstop].
  Qed.

  (* k hedges on fresh clones of y0: no violation, no old instance touched *)
  Lemma hedges_spec fuel k : forall t y0 q, iI F t -> ivalid F t y0 ->
    iI F (hedges sub fuel k t y0 q) /\ iviol F (hedges sub fuel k t y0 q) = iviol F t /\
    (forall z, ivalid F t z -> ivalid F (hedges sub fuel k t y0 q) z) /\
    (forall z, ivalid F t z -> irdy F (hedges sub fuel k t y0 q) z = irdy F t z).
  Proof.
    induction k as [|k IH]; intros t y0 q HI Hv; cbn [hedges].
    - repeat split; auto.
    - destruct (sp_clone Hs t y0 HI Hv) as (Hf & h & Hh & Hfresh & Hhv & Hback).
      destruct (sub t (OClone y0)) as [t1 a] eqn:E. cbn [fst snd] in *. subst a.
      pose proof Hf as (A1 & A2 & A3 & A4).
      destruct (poll_until_spec fuel t1 h A1 Hhv) as (Hf2 & Hback2 & Hrdy).
      destruct (poll_until sub fuel t1 h) as [t2 r] eqn:E2. cbn [fst snd] in *.
      pose proof Hf2 as (B1 & B2 & B3 & B4).
      assert (Hold : forall z, ivalid F t z -> z <> h) by (intros z Hz ->; contradiction).
      destruct r.
      + destruct (sp_call Hs t2 h q B1 (B3 h Hhv) (Hrdy eq_refl)) as (Hf3 & Hback3).
        destruct (sub t2 (OCall h q)) as [t3 a3] eqn:E3. cbn [fst snd] in *.
        pose proof Hf3 as (C1 & C2 & C3 & C4).
        destruct (IH t3 y0 q C1 (C3 y0 (B3 y0 (A3 y0 Hv)))) as (D1 & D2 & D3 & D4).
        repeat split; auto; try congruence.
        intros z Hz. rewrite D4 by auto. rewrite C4; [|auto|intros <-; eapply Hold; eauto].
        rewrite B4; [|auto|intros <-; eapply Hold; eauto]. apply A4; auto.
      + destruct (IH t2 y0 q B1 (B3 y0 (A3 y0 Hv))) as (D1 & D2 & D3 & D4).
        repeat split; auto; try congruence.
        intros z Hz. rewrite D4 by auto. rewrite B4; [|auto|intros <-; eapply Hold; eauto]. apply A4; auto.
      + destruct (IH t2 y0 q B1 (B3 y0 (A3 y0 Hv))) as (D1 & D2 & D3 & D4).
        repeat split; auto; try congruence.
        intros z Hz. rewrite D4 by auto. rewrite B4; [|auto|intros <-; eapply Hold; eauto]. apply A4; auto.
  Qed.
End Spec.
Arguments sp_poll {T sub F}.
Arguments sp_call {T sub F}.
Arguments sp_clone {T sub F}.

(* ------------------------------------------------------------------------- *)
(* the wrapped service satisfies the interface *)
Fixpoint bad_calls (l : list lev) : nat :=
  match l with
  | LCall _ _ false :: r => S (bad_calls r)
  | _ :: r => bad_calls r
  | [] => O
  end.

Definition base_iface : iface base :=
  mkI (fun b => violations b = bad_calls (blog b)) (fun b x => ready b x) (fun b x => x < fresh b)
      (fun b => violations b).

Lemma updb_same f i v : updb f i v i = v.
Proof. unfold updb. rewrite Nat.eqb_refl. reflexivity. Qed.
Lemma updb_other f i v j : j <> i -> updb f i v j = f j.
Proof. intros H. unfold updb. apply Nat.eqb_neq in H. rewrite H. reflexivity. Qed.
Lemma updn_same f i v : updn f i v i = v.
Proof. unfold updn. rewrite Nat.eqb_refl. reflexivity. Qed.
Lemma updn_other f i v j : j <> i -> updn f i v j = f j.
Proof. intros H. unfold updn. apply Nat.eqb_neq in H. rewrite H. reflexivity. Qed.

Lemma base_spec : spec base_exec base_iface.
Proof.
  constructor; cbn.
  - intros b x HI Hx. split; [|split].
    + unfold frame. cbn. split; [exact HI|]. split; [reflexivity|]. split; [auto|].
      intros y Hy Hne.
      destruct (oracle b) as [|[| |] rest]; cbn; try reflexivity; apply updb_other; congruence.
    + auto.
    + destruct (oracle b) as [|r rest]; cbn.
      * exists RReady. split; [reflexivity|]. intros _. apply updb_same.
      * exists r. split; [reflexivity|]. intros ->. apply updb_same.
  - intros b x q HI Hx Hr. rewrite Hr. split; [|auto].
    unfold frame. cbn. split; [exact HI|]. split; [reflexivity|]. split; [auto|].
    intros y Hy Hne. apply updb_other. congruence.
  - intros b x HI Hx. split.
    + unfold frame. cbn. split; [exact HI|]. split; [reflexivity|]. split; [intros; lia|].
      intros y Hy _. apply updb_other. lia.
    + exists (fresh b). split; [reflexivity|]. split; [lia|]. split; [lia|]. intros y Hy. lia.
Qed.

(* ------------------------------------------------------------------------- *)
(* one layer on top of a service satisfying the interface *)
Section Layer.
  Context {T : Type} (sub : T -> op -> T * ans) (F : iface T) (Hs : spec sub F).
  Context (fuel : nat) (d : disc).

  Definition lsub (p : lstate * T) (o : op) : (lstate * T) * ans :=
    let '(l', t', a) := layer_exec sub fuel d (fst p) (snd p) o in ((l', t'), a).

  Definition layer_iface : iface (lstate * T) :=
    mkI (fun p => iI F (snd p) /\
                  (forall x, x < lfresh (fst p) -> ivalid F (snd p) (imap (fst p) x)) /\
                  (forall x y, x < lfresh (fst p) -> y < lfresh (fst p) ->
                               imap (fst p) x = imap (fst p) y -> x = y))
        (fun p x => irdy F (snd p) (imap (fst p) x))
        (fun p x => x < lfresh (fst p))
        (fun p => iviol F (snd p)).

  (* the Swap prefix: clone the ready inner instance, call it *)
  Lemma swap_prefix t y q :
    iI F t -> ivalid F t y -> irdy F t y = true ->
    exists y' t1 t2 a2,
      sub t (OClone y) = (t1, AId y') /\ sub t1 (OCall y q) = (t2, a2) /\
      iI F t2 /\ iviol F t2 = iviol F t /\
      (forall z, ivalid F t z -> ivalid F t2 z) /\
      ivalid F t2 y' /\ ~ ivalid F t y' /\
      (forall z, ivalid F t2 z -> ivalid F t z \/ z = y') /\
      (forall z, ivalid F t z -> z <> y -> irdy F t2 z = irdy F t z).
  Proof.
    intros HI Hy Hr.
    destruct (sp_clone Hs t y HI Hy) as (Hf & y' & Hy' & Hfresh & Hy'v & Hback).
    destruct (sub t (OClone y)) as [t1 a] eqn:E. cbn [fst snd] in *. subst a.
    pose proof Hf as (A1 & A2 & A3 & A4).
    assert (Hr1 : irdy F t1 y = true) by (rewrite A4; auto).
    destruct (sp_call Hs t1 y q A1 (A3 y Hy) Hr1) as (Hf2 & Hback2).
    destruct (sub t1 (OCall y q)) as [t2 a2] eqn:E2. cbn [fst snd] in *.
    pose proof Hf2 as (B1 & B2 & B3 & B4).
    exists y', t1, t2, a2.
    split; [first [reflexivity|assumption]|]. split; [first [reflexivity|assumption]|]. split; [exact B1|]. split; [congruence|].
    split; [auto|]. split; [auto|]. split; [exact Hfresh|]. split.
    - intros z Hz. apply Hback2 in Hz. apply Hback in Hz. exact Hz.
    - intros z Hz Hne. rewrite B4; auto.
  Qed.

  (* what remains to be shown about the final state of a call on top-level instance x *)
  Lemma layer_frame l t x t3 l' :
    iI layer_iface (l, t) -> x < lfresh l ->
    iI F t3 -> iviol F t3 = iviol F t -> (forall z, ivalid F t z -> ivalid F t3 z) ->
    (forall z, ivalid F t z -> z <> imap l x -> irdy F t3 z = irdy F t z) ->
    (l' = l \/ exists y'', l' = mkL (updn (imap l) x y'') (lfresh l) /\ ivalid F t3 y'' /\
                            ~ ivalid F t y'') ->
    frame layer_iface (l, t) (l', t3) (eq x) /\
    (forall z, ivalid layer_iface (l', t3) z -> ivalid layer_iface (l, t) z).
  Proof.
    intros (HI & Hval & Hinj) Hx HI3 Hv3 Hvalid3 Hrdy3 Hl'. cbn in HI, Hval, Hinj.
    assert (Hother : forall z, z < lfresh l -> z <> x -> imap l z <> imap l x)
      by (intros z Hz Hne Heq; apply Hne; apply Hinj; auto).
    destruct Hl' as [->|(y'' & -> & Hy''v & Hy''f)].
    - split; [|cbn; auto]. unfold frame. cbn.
      split; [split; [exact HI3|split; [intros z Hz; apply Hvalid3, Hval, Hz|exact Hinj]]|].
      split; [exact Hv3|]. split; [auto|].
      intros z Hz Hne. apply Hrdy3; [apply Hval; exact Hz|apply Hother; [exact Hz|congruence]].
    - split; [|cbn; auto]. unfold frame. cbn.
      split; [split; [exact HI3|split]|].
      + intros z Hz. destruct (Nat.eq_dec z x) as [->|Hne]; [rewrite updn_same; exact Hy''v|].
        rewrite updn_other by exact Hne. apply Hvalid3, Hval, Hz.
      + intros a b Ha Hb. destruct (Nat.eq_dec a x) as [->|Hna]; destruct (Nat.eq_dec b x) as [->|Hnb];
          rewrite ?updn_same, ?(updn_other _ _ _ _ Hna), ?(updn_other _ _ _ _ Hnb); auto.
        * intros Heq. exfalso. apply Hy''f. rewrite Heq. apply Hval. exact Hb.
        * intros Heq. exfalso. apply Hy''f. rewrite <- Heq. apply Hval. exact Ha.
      + split; [exact Hv3|]. split; [auto|].
        intros z Hz Hne. assert (z <> x) by congruence. rewrite updn_other by assumption.
        apply Hrdy3; [apply Hval; exact Hz|apply Hother; assumption].
  Qed.

  Lemma layer_spec : spec lsub layer_iface.
  Proof.
    constructor.
    - (* poll *)
      intros [l t] x (HI & Hval & Hinj) Hx. cbn in HI, Hval, Hinj, Hx. unfold lsub. cbn [fst snd layer_exec].
      destruct (sp_poll Hs t (imap l x) HI (Hval x Hx)) as (Hf & Hback & r & Hr & Hrdy).
      destruct (sub t (OPoll (imap l x))) as [t1 a] eqn:E. cbn [fst snd] in *. subst a.
      destruct Hf as (A1 & A2 & A3 & A4).
      split; [|split].
      + unfold frame. cbn. split; [split; [exact A1|split; [intros z Hz; apply A3, Hval, Hz|exact Hinj]]|].
        split; [exact A2|]. split; [auto|].
        intros y Hy Hne. apply A4; [auto|]. intros Heq. apply Hne. apply Hinj; auto.
      + cbn. auto.
      + exists r. split; [reflexivity|exact Hrdy].
    - (* call *)
      intros [l t] x q Hinv Hx Hr. pose proof Hinv as (HI & Hval & Hinj).
      cbn in HI, Hval, Hinj, Hx, Hr. unfold lsub. cbn [fst snd layer_exec].
      set (y := imap l x) in *.
      assert (Hy : ivalid F t y) by (apply Hval; exact Hx).
      destruct d as [| |k|k|k].
      + (* Swap *)
        destruct (swap_prefix t y q HI Hy Hr) as (y' & t1 & t2 & a2 & E1 & E2 & P1 & P2 & P3 & P4 & P5 & P6 & P7).
        rewrite E1, E2. cbn [fst snd].
        apply layer_frame; auto. right. exists y'. auto.
      + (* Direct *)
        destruct (sp_call Hs t y q HI Hy Hr) as (Hf & Hback).
        destruct (sub t (OCall y q)) as [t1 a] eqn:E. cbn [fst snd] in *.
        destruct Hf as (A1 & A2 & A3 & A4).
        apply layer_frame; auto.
      + (* Retry k *)
        destruct (swap_prefix t y q HI Hy Hr) as (y' & t1 & t2 & a2 & E1 & E2 & P1 & P2 & P3 & P4 & P5 & P6 & P7).
        rewrite E1, E2.
        destruct (match a2 with ADone true => true | _ => false end).
        { cbn [fst snd]. apply layer_frame; auto. right. exists y'. auto. }
        destruct (attempts_spec sub F Hs fuel k t2 y q P1 (P3 y Hy)) as (Hf & Hback).
        destruct (attempts sub fuel k t2 y q) as [t3 e] eqn:E3. cbn [fst snd] in *.
        destruct Hf as (A1 & A2 & A3 & A4).
        apply layer_frame; auto; try congruence.
        * intros z Hz Hne. rewrite A4; auto.
        * right. exists y'. auto.
      + (* Hedge k *)
        destruct (swap_prefix t y q HI Hy Hr) as (y' & t1 & t2 & a2 & E1 & E2 & P1 & P2 & P3 & P4 & P5 & P6 & P7).
        rewrite E1, E2.
        destruct (hedges_spec sub F Hs fuel k t2 y' q P1 P4) as (D1 & D2 & D3 & D4).
        cbn [fst snd].
        apply layer_frame; auto; try congruence.
        * intros z Hz Hne. rewrite D4; auto.
        * right. exists y'. auto.
      + (* Reconnect k *)
        destruct (sp_call Hs t y q HI Hy Hr) as (Hf & Hback).
        destruct (sub t (OCall y q)) as [t1 a] eqn:E. cbn [fst snd] in *.
        pose proof Hf as (A1 & A2 & A3 & A4).
        destruct (sp_clone Hs t1 y A1 (A3 y Hy)) as (Hf2 & z & Hz & Hzfresh & Hzv & Hback2).
        destruct (sub t1 (OClone y)) as [t2 a'] eqn:E2. cbn [fst snd] in *. subst a'.
        pose proof Hf2 as (B1 & B2 & B3 & B4).
        destruct (match a with ADone true => true | _ => false end).
        { cbn [fst snd]. apply layer_frame; auto; try congruence.
          intros w Hw Hne. rewrite B4; auto. }
        destruct (attempts_spec sub F Hs fuel k t2 z q B1 Hzv) as (Hf3 & Hback3).
        destruct (attempts sub fuel k t2 z q) as [t3 e] eqn:E3. cbn [fst snd] in *.
        destruct Hf3 as (C1 & C2 & C3 & C4).
        apply layer_frame; auto; try congruence.
        intros w Hw Hne. rewrite C4; auto.
        -- rewrite B4; auto.
        -- intros <-. apply Hzfresh. auto.
    - (* clone *)
      intros [l t] x (HI & Hval & Hinj) Hx. cbn in HI, Hval, Hinj, Hx. unfold lsub. cbn [fst snd layer_exec].
      destruct (sp_clone Hs t (imap l x) HI (Hval x Hx)) as (Hf & y' & Hy' & Hfresh & Hy'v & Hback).
      destruct (sub t (OClone (imap l x))) as [t1 a] eqn:E. cbn [fst snd] in *. subst a.
      destruct Hf as (A1 & A2 & A3 & A4). cbn [fst snd].
      split.
      + unfold frame. cbn. split; [split; [exact A1|split]|].
        * intros z Hz. destruct (Nat.eq_dec z (lfresh l)) as [->|Hne]; [rewrite updn_same; exact Hy'v|].
          rewrite updn_other by exact Hne. apply A3, Hval. lia.
        * intros a b Ha Hb.
          destruct (Nat.eq_dec a (lfresh l)) as [->|Hna]; destruct (Nat.eq_dec b (lfresh l)) as [->|Hnb];
            rewrite ?updn_same, ?(updn_other _ _ _ _ Hna), ?(updn_other _ _ _ _ Hnb); auto.
          -- intros Heq. exfalso. apply Hfresh. rewrite Heq. apply Hval. lia.
          -- intros Heq. exfalso. apply Hfresh. rewrite <- Heq. apply Hval. lia.
          -- intros Heq. apply Hinj; auto; lia.
        * split; [exact A2|]. split; [intros; lia|].
          intros z Hz _. rewrite updn_other by lia. apply A4; auto.
      + exists (lfresh l). cbn. split; [reflexivity|]. split; [lia|]. split; [lia|]. intros z Hz. lia.
  Qed.
End Layer.

(* ------------------------------------------------------------------------- *)
(* stacks *)
Definition execp (fuel : nat) (ds : list disc) (t : list lstate * base) (o : op)
  : (list lstate * base) * ans :=
  let '(ls2, b2, a) := exec fuel ds (fst t) (snd t) o in ((ls2, b2), a).

(* interface of a stack state, by recursion on the stack *)
Fixpoint stack_iface (fuel : nat) (ds : list disc) : iface (list lstate * base) :=
  match ds with
  | [] => mkI (fun t => violations (snd t) = bad_calls (blog (snd t)))
              (fun t x => ready (snd t) x) (fun t x => x < fresh (snd t))
              (fun t => violations (snd t))
  | d :: ds' =>
    let G := layer_iface (stack_iface fuel ds') in
    mkI (fun t => match fst t with l :: ls' => iI G (l, (ls', snd t)) | [] => False end)
        (fun t x => match fst t with l :: ls' => irdy G (l, (ls', snd t)) x | [] => false end)
        (fun t x => match fst t with l :: ls' => ivalid G (l, (ls', snd t)) x | [] => False end)
        (fun t => match fst t with l :: ls' => iviol G (l, (ls', snd t)) | [] => O end)
  end.

Lemma stack_spec fuel ds : spec (execp fuel ds) (stack_iface fuel ds).
Proof.
  induction ds as [|d ds' IH].
  - (* the wrapped service *)
    pose proof base_spec as [Hp Hc Hk].
    constructor; cbn -[base_exec]; unfold execp; cbn [exec].
    + intros [ls b] x HI Hx. cbn [fst snd] in *. specialize (Hp b x HI Hx).
      destruct ls; destruct (base_exec b (OPoll x)) as [b' a]; cbn [fst snd] in *; exact Hp.
    + intros [ls b] x q HI Hx Hr. cbn [fst snd] in *. specialize (Hc b x q HI Hx Hr).
      destruct ls; destruct (base_exec b (OCall x q)) as [b' a]; cbn [fst snd] in *; exact Hc.
    + intros [ls b] x HI Hx. cbn [fst snd] in *. specialize (Hk b x HI Hx).
      destruct ls; destruct (base_exec b (OClone x)) as [b' a]; cbn [fst snd] in *; exact Hk.
  - pose proof (layer_spec (execp fuel ds') (stack_iface fuel ds') IH fuel d) as [Hp Hc Hk].
    assert (Hstep : forall l ls' b o,
              execp fuel (d :: ds') (l :: ls', b) o =
              let '(p', a) := lsub (execp fuel ds') fuel d (l, (ls', b)) o in
              ((fst p' :: fst (snd p'), snd (snd p')), a)).
    { intros l ls' b o. unfold execp at 1. cbn [exec fst snd]. unfold lsub. cbn [fst snd].
      match goal with |- context [layer_exec ?s fuel d l (ls', b) o] =>
        replace s with (execp fuel ds') by reflexivity end.
      destruct (layer_exec (execp fuel ds') fuel d l (ls', b) o) as [[l' t'] a]. reflexivity. }
    constructor.
    + intros [[|l ls'] b] x HI Hx; cbn in HI, Hx; [contradiction|].
      specialize (Hp (l, (ls', b)) x HI Hx). rewrite Hstep.
      destruct (lsub (execp fuel ds') fuel d (l, (ls', b)) (OPoll x)) as [[l' [ls2 b2]] a]. exact Hp.
    + intros [[|l ls'] b] x q HI Hx Hr; cbn in HI, Hx, Hr; [contradiction|].
      specialize (Hc (l, (ls', b)) x q HI Hx Hr). rewrite Hstep.
      destruct (lsub (execp fuel ds') fuel d (l, (ls', b)) (OCall x q)) as [[l' [ls2 b2]] a]. exact Hc.
    + intros [[|l ls'] b] x HI Hx; cbn in HI, Hx; [contradiction|].
      specialize (Hk (l, (ls', b)) x HI Hx). rewrite Hstep.
      destruct (lsub (execp fuel ds') fuel d (l, (ls', b)) (OClone x)) as [[l' [ls2 b2]] a]. exact Hk.
Qed.

(* ------------------------------------------------------------------------- *)
(* a contract-respecting client of any stack never makes the wrapped service see a violation *)
Lemma istack_facts fuel ds : forall t,
  iI (stack_iface fuel ds) t ->
  iviol (stack_iface fuel ds) t = violations (snd t) /\
  violations (snd t) = bad_calls (blog (snd t)).
Proof.
  induction ds as [|d ds' IH]; intros [ls b] HI; cbn in *.
  - split; [reflexivity|exact HI].
  - destruct ls as [|l ls']; [contradiction|]. destruct HI as (HI & _). cbn in HI.
    apply (IH (ls', b) HI).
Qed.

Lemma init_stack_inv fuel ds orc :
  iI (stack_iface fuel ds) (map (fun _ => init_l) ds, init_base orc) /\
  ivalid (stack_iface fuel ds) (map (fun _ => init_l) ds, init_base orc) 0.
Proof.
  induction ds as [|d ds' IH]; cbn.
  - split; [reflexivity|lia].
  - destruct IH as [IH1 IH2]. split; [|lia]. split; [exact IH1|]. split.
    + intros x Hx. assert (x = 0) by lia. subst. cbn. exact IH2.
    + intros x y Hx Hy _. lia.
Qed.

Lemma client_cons fuel ds ls b q rest :
  client fuel ds ls b (q :: rest) =
  let '(t1, r) := poll_until (execp fuel ds) fuel (ls, b) 0 in
  match r with
  | RReady =>
    let '(t2, a) := execp fuel ds t1 (OCall 0 q) in
    let '(ls3, b3, out) := client fuel ds (fst t2) (snd t2) rest in
    (ls3, b3, (match a with ADone true => 2 | _ => 0 end)%Z :: out)
  | RErr => let '(ls3, b3, out) := client fuel ds (fst t1) (snd t1) rest in (ls3, b3, 1%Z :: out)
  | RPending => let '(ls3, b3, out) := client fuel ds (fst t1) (snd t1) rest in (ls3, b3, 3%Z :: out)
  end.
Proof. reflexivity. Qed.

Lemma client_spec fuel ds : forall reqs t,
  iI (stack_iface fuel ds) t -> ivalid (stack_iface fuel ds) t 0 ->
  let r := client fuel ds (fst t) (snd t) reqs in
  iI (stack_iface fuel ds) (fst (fst r), snd (fst r)) /\
  iviol (stack_iface fuel ds) (fst (fst r), snd (fst r)) = iviol (stack_iface fuel ds) t.
Proof.
  pose proof (stack_spec fuel ds) as Hs.
  induction reqs as [|q rest IH]; intros [ls b] HI Hv; cbn [fst snd]; [cbn [client]|].
  - split; [exact HI|reflexivity].
  - rewrite client_cons.
    destruct (poll_until_spec (execp fuel ds) (stack_iface fuel ds) Hs fuel (ls, b) 0 HI Hv)
      as (Hf & Hback & Hrdy).
    destruct (poll_until (execp fuel ds) fuel (ls, b) 0) as [t1 r] eqn:E. cbn [fst snd] in *.
    pose proof Hf as (A1 & A2 & A3 & A4).
    destruct r.
    + destruct (sp_call Hs t1 0 q A1 (A3 0 Hv) (Hrdy eq_refl)) as (Hf2 & Hback2).
      destruct (execp fuel ds t1 (OCall 0 q)) as [t2 a] eqn:E2. cbn [fst snd] in *.
      pose proof Hf2 as (B1 & B2 & B3 & B4).
      specialize (IH t2 B1 (B3 0 (A3 0 Hv))).
      destruct t2 as [ls2 b2]. cbn [fst snd] in *.
      destruct (client fuel ds ls2 b2 rest) as [[ls3 b3] out]. cbn [fst snd] in *.
      destruct IH as [I1 I2]. split; [exact I1|congruence].
    + specialize (IH t1 A1 (A3 0 Hv)). destruct t1 as [ls1 b1]. cbn [fst snd] in *.
      destruct (client fuel ds ls1 b1 rest) as [[ls3 b3] out]. cbn [fst snd] in *.
      destruct IH as [I1 I2]. split; [exact I1|congruence].
    + specialize (IH t1 A1 (A3 0 Hv)). destruct t1 as [ls1 b1]. cbn [fst snd] in *.
      destruct (client fuel ds ls1 b1 rest) as [[ls3 b3] out]. cbn [fst snd] in *.
      destruct IH as [I1 I2]. split; [exact I1|congruence].
Qed.

Definition all_calls_ready (l : list lev) : Prop :=
  Forall (fun e => match e with LCall _ _ ok => ok = true | _ => True end) l.

Lemma bad_calls_zero l : bad_calls l = 0 -> all_calls_ready l.
Proof.
  induction l as [|e r IH]; intros H; [constructor|].
  destruct e as [x rr|x q ok|x y]; cbn in H.
  - constructor; [exact I|apply IH; exact H].
  - destruct ok; [constructor; [reflexivity|apply IH; exact H]|discriminate].
  - constructor; [exact I|apply IH; exact H].
Qed.

(* C20 (readiness): every stack of layers, every request list, every readiness script *)
Theorem stack_honours_readiness fuel ds orc reqs :
  let b := snd (fst (client fuel ds (map (fun _ => init_l) ds) (init_base orc) reqs)) in
  violations b = 0 /\ all_calls_ready (blog b).
Proof.
  destruct (init_stack_inv fuel ds orc) as [HI Hv].
  pose proof (client_spec fuel ds reqs (map (fun _ => init_l) ds, init_base orc) HI Hv) as Hc.
  cbn [fst snd] in Hc. cbn zeta.
  destruct (client fuel ds (map (fun _ => init_l) ds) (init_base orc) reqs) as [[ls3 b3] out].
  cbn [fst snd] in *. destruct Hc as [I1 I2].
  destruct (istack_facts fuel ds _ I1) as [F1 F2]. cbn [snd] in F1, F2.
  destruct (istack_facts fuel ds _ HI) as [G1 G2]. cbn [snd] in G1, G2.
  assert (Hz : violations b3 = 0) by (rewrite <- F1, I2, G1; reflexivity).
  split; [exact Hz|]. apply bad_calls_zero. rewrite <- F2. exact Hz.
Qed.

(* readiness answers surface unchanged: the answer a layer (any stack) gives to poll_ready is
   the wrapped service's answer *)
Lemma poll_passes_through fuel ds : forall ls b x,
  length ls = length ds ->
  snd (execp fuel ds (ls, b) (OPoll x)) = ARes (match oracle b with r :: _ => r | [] => RReady end).
Proof.
  induction ds as [|d ds' IH]; intros ls b x Hlen; unfold execp; cbn [exec fst snd].
  - destruct ls; reflexivity.
  - destruct ls as [|l ls']; [discriminate|]. cbn [layer_exec fst snd].
    specialize (IH ls' b (imap l x) ltac:(cbn in Hlen; lia)). unfold execp in IH. cbn [fst snd] in IH.
    destruct (exec fuel ds' ls' b (OPoll (imap l x))) as [[ls2 b2] a]. cbn [fst snd] in *. exact IH.
Qed.

(* (B) transparency composes *)
Theorem stack_transparent (stack : list layer_sem) :
  Forall transparent stack -> forall inner req, stack_sem stack inner req = inner req.
Proof.
  induction 1 as [|L rest HL Hrest IH]; intros inner req; cbn; [reflexivity|].
  rewrite HL. apply IH.
Qed.

Lemma pass_through_transparent : transparent pass_through.
Proof. intros inner req. reflexivity. Qed.

(* (C) listeners only observe *)
Theorem listeners_do_not_change_outcome events out ls1 ls2 :
  fst (run_with_listeners events out ls1) = fst (run_with_listeners events out ls2).
Proof. reflexivity. Qed.

Theorem every_listener_gets_every_event ls ev :
  length (emit ls ev) = length ls /\
  forall i l, nth_error ls i = Some l -> nth_error (emit ls ev) i = Some (l ev).
Proof.
  induction ls as [|l0 rest IH]; cbn.
  - split; [reflexivity|]. intros i l H. destruct i; discriminate.
  - destruct IH as [IH1 IH2]. split; [f_equal; exact IH1|].
    intros i l H. destruct i as [|i]; cbn in *; [inversion H; reflexivity|apply IH2; exact H].
Qed.

Theorem all_events_delivered events out ls :
  snd (run_with_listeners events out ls) = map (emit ls) events /\
  length (snd (run_with_listeners events out ls)) = length events.
Proof. cbn. split; [reflexivity|apply map_length]. Qed.

(* non-vacuity: a retry layer with two further attempts under a bulkhead-like Swap layer, with a
   Pending and an Err readiness answer on the way *)
Example ex_protocol :
  run_script [1; 2; 0; 2; 2; 2; 0; 1; 0; 0; 2]%Z =
  [0; 1;  1; 0; 0;  2; 0; 1;  1; 0; 1;  1; 0; 0;  2; 0; 1;  1; 0; 0;  2; 0; 1;  1; 1; 2;  0]%Z.
Proof. vm_compute. reflexivity. Qed.
