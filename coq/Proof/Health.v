(* Proofs about Model/Health.v (C18). *)
From TR Require Import Lib.Base Model.Health.

(* ================= per-resource fold over check results ================= *)

Lemma run_snoc f s rs x :
  run_results f s (rs ++ [x]) = apply_result f s (run_results f s rs) x.
Proof. unfold run_results. rewrite fold_left_app. reflexivity. Qed.

Lemma nonunk_snoc rs x :
  nonunk (rs ++ [x]) = if is_unknown x then nonunk rs else nonunk rs ++ [x].
Proof. unfold nonunk. rewrite filter_app. cbn. destruct (is_unknown x); cbn; [apply app_nil_r|reflexivity]. Qed.

Lemma trail_snoc p l x : trail p (l ++ [x]) = if p x then S (trail p l) else O.
Proof. unfold trail. rewrite rev_app_distr. reflexivity. Qed.

(* consecutive_failures / consecutive_successes are the trailing runs of failing /
   non-failing results among the results that are not Unknown *)
Lemma counters_spec f s rs :
  cf (run_results f s rs) = Z.of_nat (trail is_unhealthy (nonunk rs)) /\
  cs (run_results f s rs) = Z.of_nat (trail is_usable (nonunk rs)).
Proof.
  induction rs as [|x rs IH] using rev_ind; [split; reflexivity|].
  rewrite run_snoc, nonunk_snoc. destruct IH as [IHf IHs].
  destruct x; cbn [apply_result is_unknown cf cs]; rewrite ?trail_snoc; cbn [is_unhealthy is_usable];
    try (split; [assumption|assumption]); split; try reflexivity; lia.
Qed.

(* a trailing run of length >= n gives a suffix of n elements satisfying p *)
Lemma lead_prefix p l n :
  (n <= lead p l)%nat -> exists run post, l = run ++ post /\ length run = n /\ Forall (fun x => p x = true) run.
Proof.
  revert n. induction l as [|x t IH]; intros n H; cbn [lead] in H.
  - assert (n = O) by lia. subst. exists [], []. repeat split. constructor.
  - destruct n as [|n]; [exists [], (x :: t); repeat split; constructor|].
    destruct (p x) eqn:E; [|lia].
    destruct (IH n) as (run & post & -> & Hl & Hf); [lia|].
    exists (x :: run), post. repeat split; [cbn; lia|constructor; assumption].
Qed.

Lemma trail_suffix p l n :
  (n <= trail p l)%nat -> exists pre run, l = pre ++ run /\ length run = n /\ Forall (fun x => p x = true) run.
Proof.
  unfold trail. intros H. destruct (lead_prefix p (rev l) n H) as (run & post & Hr & Hl & Hf).
  exists (rev post), (rev run). repeat split.
  - rewrite <- rev_app_distr, <- Hr, rev_involutive. reflexivity.
  - rewrite rev_length. exact Hl.
  - apply Forall_rev. exact Hf.
Qed.

Lemma suffix_trail p pre run : Forall (fun x => p x = true) run -> (length run <= trail p (pre ++ run))%nat.
Proof.
  intros H. unfold trail. rewrite rev_app_distr.
  apply Forall_rev in H. revert H. generalize (rev_length run). generalize (rev run) as r.
  intros r. revert run. induction r as [|x r IH]; intros run Hl Hf; cbn in *; [lia|].
  inversion Hf; subst. rewrite H1. destruct run as [|y run']; cbn in Hl; [lia|].
  specialize (IH run'). cbn in Hl. assert (length r = length run') by lia.
  specialize (IH H H2). cbn. lia.
Qed.


(* exact description of the published status after one more result *)
Lemma status_step f s rs x :
  st (run_results f s (rs ++ [x])) =
  match x with
  | Unknown => st (run_results f s rs)
  | Degraded => Degraded
  | Unhealthy => if f <=? Z.of_nat (trail is_unhealthy (nonunk (rs ++ [x]))) then Unhealthy
                 else st (run_results f s rs)
  | Healthy => if s <=? Z.of_nat (trail is_usable (nonunk (rs ++ [x]))) then Healthy
               else st (run_results f s rs)
  end.
Proof.
  rewrite run_snoc. destruct (counters_spec f s rs) as [Hf Hs].
  rewrite nonunk_snoc.
  destruct x; cbn [apply_result st is_unknown]; rewrite ?trail_snoc; cbn [is_unhealthy is_usable];
    rewrite ?Hf, ?Hs, ?Nat2Z.inj_succ; try reflexivity; unfold Z.succ; reflexivity.
Qed.

Lemma unhealthy_only_after f s rs x :
  1 <= f ->
  st (run_results f s rs) <> Unhealthy ->
  st (run_results f s (rs ++ [x])) = Unhealthy ->
  x = Unhealthy /\ all_suffix is_unhealthy (Z.to_nat f) (nonunk (rs ++ [x])).
Proof.
  intros Hf Hpre Hpost. rewrite status_step in Hpost.
  destruct x; try congruence; try discriminate.
  - destruct (s <=? _); [discriminate|congruence].
  - destruct (f <=? _) eqn:E; [|congruence]. split; [reflexivity|].
    apply Z.leb_le in E. apply trail_suffix. lia.
Qed.

Lemma healthy_only_after f s rs x :
  1 <= s ->
  st (run_results f s rs) <> Healthy ->
  st (run_results f s (rs ++ [x])) = Healthy ->
  x = Healthy /\ all_suffix is_usable (Z.to_nat s) (nonunk (rs ++ [x])).
Proof.
  intros Hs Hpre Hpost. rewrite status_step in Hpost.
  destruct x; try congruence; try discriminate.
  - destruct (s <=? _) eqn:E; [|congruence]. split; [reflexivity|].
    apply Z.leb_le in E. apply trail_suffix. lia.
  - destruct (f <=? _); [discriminate|congruence].
Qed.

(* converses: the thresholds are also sufficient *)
Lemma unhealthy_when f s rs :
  all_suffix is_unhealthy (Z.to_nat f) (nonunk (rs ++ [Unhealthy])) ->
  st (run_results f s (rs ++ [Unhealthy])) = Unhealthy.
Proof.
  intros (pre & run & Hl & Hn & Hf). rewrite status_step.
  pose proof (suffix_trail is_unhealthy pre run Hf) as H. rewrite <- Hl in H.
  destruct (f <=? _) eqn:E; [reflexivity|]. apply Z.leb_gt in E. lia.
Qed.

Lemma healthy_when f s rs :
  all_suffix is_usable (Z.to_nat s) (nonunk (rs ++ [Healthy])) ->
  st (run_results f s (rs ++ [Healthy])) = Healthy.
Proof.
  intros (pre & run & Hl & Hn & Hf). rewrite status_step.
  pose proof (suffix_trail is_usable pre run Hf) as H. rewrite <- Hl in H.
  destruct (s <=? _) eqn:E; [reflexivity|]. apply Z.leb_gt in E. lia.
Qed.

Lemma degraded_at_once f s rs :
  st (run_results f s (rs ++ [Degraded])) = Degraded /\
  cf (run_results f s (rs ++ [Degraded])) = 0 /\
  cs (run_results f s (rs ++ [Degraded])) = cs (run_results f s rs) + 1.
Proof. rewrite run_snoc. repeat split. Qed.

Lemma unknown_noop f s rs rs' :
  run_results f s (rs ++ Unknown :: rs') = run_results f s (rs ++ rs').
Proof. unfold run_results. rewrite !fold_left_app. reflexivity. Qed.

Lemma unknown_dropped f s rs : run_results f s rs = run_results f s (nonunk rs).
Proof.
  induction rs as [|x rs IH] using rev_ind; [reflexivity|].
  rewrite nonunk_snoc. destruct x; cbn [is_unknown]; rewrite ?run_snoc, ?IH; reflexivity.
Qed.

Lemma timeout_is_failure timeout answer delay :
  0 < delay -> timeout < delay -> effective timeout answer delay = Unhealthy.
Proof.
  intros H1 H2. unfold effective.
  destruct (delay <=? 0) eqn:E; [apply Z.leb_le in E; lia|].
  destruct (delay <=? timeout) eqn:E2; [apply Z.leb_le in E2; lia|reflexivity].
Qed.

Lemma in_time_is_answer timeout answer delay :
  delay <= timeout \/ delay <= 0 -> effective timeout answer delay = answer.
Proof.
  intros H. unfold effective.
  destruct (delay <=? 0) eqn:E; [reflexivity|]. apply Z.leb_gt in E.
  destruct (delay <=? timeout) eqn:E2; [reflexivity|]. apply Z.leb_gt in E2. lia.
Qed.

(* ================= selection ================= *)
Lemma In_combine_seq {A} (l : list A) a i x :
  In (i, x) (combine (seq a (length l)) l) -> (a <= i)%nat /\ nth_error l (i - a) = Some x.
Proof.
  revert a. induction l as [|y t IH]; intros a H; cbn in H; [contradiction|].
  destruct H as [H|H].
  - injection H as <- <-. split; [lia|]. replace (a - a)%nat with O by lia. reflexivity.
  - apply IH in H. destruct H as [Hle Hn]. split; [lia|].
    replace (i - a)%nat with (S (i - S a)) by lia. exact Hn.
Qed.

Lemma available_sound flt rs i x :
  In (i, x) (available flt rs) -> flt x = true /\ exists r, nth_error rs i = Some r /\ st r = x.
Proof.
  unfold available. intros H. apply filter_In in H. destruct H as [H Hf]. cbn in Hf.
  split; [exact Hf|].
  rewrite <- (map_length st rs) in H. apply In_combine_seq in H. destruct H as [_ H].
  replace (i - 0)%nat with i in H by lia.
  rewrite nth_error_map in H. destruct (nth_error rs i) as [r|]; [|discriminate].
  exists r. split; [reflexivity|]. cbn in H. congruence.
Qed.

(* whatever the strategy (including any custom selector) and the cursor, the resource
   returned is one that currently passes the filter *)
Lemma get_with_filter_sound flt sg rs c i c' :
  get_with_filter flt sg rs c = (Some i, c') ->
  exists r, nth_error rs i = Some r /\ flt (st r) = true.
Proof.
  unfold get_with_filter. destruct (available flt rs) as [|p av] eqn:Ea; [discriminate|].
  destruct (select sg (map snd (p :: av)) c) as [sel c2]. destruct sel as [j|]; [|discriminate].
  destruct (nth_error (p :: av) j) as [[i' x]|] eqn:En; [|discriminate].
  cbn. intros H. injection H as <- <-.
  apply nth_error_In in En. rewrite <- Ea in En. apply available_sound in En.
  destruct En as [Hf (r & Hr & Hs)]. exists r. split; [exact Hr|]. rewrite Hs. exact Hf.
Qed.

Lemma get_healthy_sound sg rs c i c' :
  get_healthy sg rs c = (Some i, c') -> exists r, nth_error rs i = Some r /\ st r = Healthy.
Proof.
  intros H. apply get_with_filter_sound in H. destruct H as (r & Hr & Hf).
  exists r. split; [exact Hr|]. destruct (st r); try discriminate. reflexivity.
Qed.

Lemma get_usable_sound sg rs c i c' :
  get_usable sg rs c = (Some i, c') ->
  exists r, nth_error rs i = Some r /\ (st r = Healthy \/ st r = Degraded).
Proof.
  intros H. apply get_with_filter_sound in H. destruct H as (r & Hr & Hf).
  exists r. split; [exact Hr|]. destruct (st r); try discriminate; [left|right]; reflexivity.
Qed.

Lemma available_nil flt rs :
  (forall r, In r rs -> flt (st r) = false) -> available flt rs = [].
Proof.
  intros H. unfold available.
  assert (G : forall l (a : nat), (forall r, In r l -> flt (st r) = false) ->
            filter (fun p : nat * status => flt (snd p)) (combine (seq a (length l)) (map st l)) = []).
  { induction l as [|r t IH]; intros a Hl; [reflexivity|]. cbn.
    rewrite (Hl r (or_introl eq_refl)). apply IH. intros r' Hr'. apply Hl. right. exact Hr'. }
  apply G. exact H.
Qed.

Lemma none_when_none flt sg rs c :
  (forall r, In r rs -> flt (st r) = false) -> get_with_filter flt sg rs c = (None, c).
Proof. intros H. unfold get_with_filter. rewrite (available_nil flt rs H). reflexivity. Qed.

Lemma available_nonempty flt rs r :
  In r rs -> flt (st r) = true -> available flt rs <> [].
Proof.
  intros Hin Hf. unfold available.
  assert (G : forall l (a : nat), In r l ->
            filter (fun p : nat * status => flt (snd p)) (combine (seq a (length l)) (map st l)) <> []).
  { induction l as [|y t IH]; intros a Hl; [contradiction|]. cbn.
    destruct Hl as [->|Hl]; [rewrite Hf; discriminate|].
    destruct (flt (st y)); [discriminate|]. apply IH. exact Hl. }
  apply G. exact Hin.
Qed.

Lemma position_Some {A} (p : A -> bool) l i :
  position p l = Some i -> (i < length l)%nat.
Proof.
  revert i. induction l as [|x t IH]; intros i H; cbn in H; [discriminate|].
  destruct (p x); [injection H as <-; cbn; lia|].
  destruct (position p t) as [j|]; [|discriminate]. injection H as <-.
  specialize (IH j eq_refl). cbn. lia.
Qed.

Lemma position_hd_true {A} (p : A -> bool) x t : p x = true -> position p (x :: t) = Some O.
Proof. intros H. cbn. rewrite H. reflexivity. Qed.

Lemma filter_all {A} (p : A -> bool) l : (forall x, In x l -> p x = true) -> filter p l = l.
Proof.
  induction l as [|x t IH]; intros H; [reflexivity|]. cbn.
  rewrite (H x (or_introl eq_refl)). f_equal. apply IH. intros y Hy. apply H. right. exact Hy.
Qed.

Lemma available_all flt rs p : In p (available flt rs) -> flt (snd p) = true.
Proof. unfold available. intros H. apply filter_In in H. tauto. Qed.

(* when every available status is usable, round robin sees all of them *)
Lemma rr_usable_all (statuses : list status) :
  (forall x, In x statuses -> is_usable x = true) ->
  filter (fun i => is_usable (nth i statuses Unknown)) (seq 0 (length statuses)) = seq 0 (length statuses).
Proof.
  intros H. apply filter_all. intros i Hi. apply in_seq in Hi. apply H. apply nth_In. lia.
Qed.

Lemma select_rr_all (statuses : list status) c :
  statuses <> [] ->
  (forall x, In x statuses -> is_usable x = true) ->
  select RoundRobin statuses c =
    (Some (Z.to_nat (c mod Z.of_nat (length statuses))), (c + 1) mod two64).
Proof.
  intros Hne H. unfold select. destruct statuses as [|x t] eqn:E; [congruence|]. rewrite <- E in *.
  rewrite (rr_usable_all statuses H). rewrite seq_length.
  assert (Hl : (0 < length statuses)%nat) by (rewrite E; cbn; lia).
  destruct (seq 0 (length statuses)) as [|y l] eqn:Es.
  { apply (f_equal (@length nat)) in Es. rewrite seq_length in Es. cbn in Es. lia. }
  rewrite <- Es. f_equal. f_equal.
  rewrite seq_nth; [reflexivity|].
  assert (0 <= c mod Z.of_nat (length statuses) < Z.of_nat (length statuses)) by (apply Z.mod_pos_bound; lia).
  lia.
Qed.


Lemma statuses_usable flt rs :
  implies_usable flt -> forall x, In x (map snd (available flt rs)) -> is_usable x = true.
Proof.
  intros Hi x Hx. apply in_map_iff in Hx. destruct Hx as (p & <- & Hp).
  apply Hi. apply (available_all flt rs p Hp).
Qed.

(* the built-in strategies return something whenever some resource qualifies *)
Lemma some_when_some flt sg rs c r :
  implies_usable flt ->
  sg = FirstAvailable \/ sg = RoundRobin \/ sg = PreferHealthy ->
  In r rs -> flt (st r) = true ->
  fst (get_with_filter flt sg rs c) <> None.
Proof.
  intros Hi Hsg Hin Hf. unfold get_with_filter.
  pose proof (available_nonempty flt rs r Hin Hf) as Hne.
  pose proof (statuses_usable flt rs Hi) as Hus.
  destruct (available flt rs) as [|p av] eqn:Ea; [congruence|].
  assert (Hp : is_usable (snd p) = true) by (apply Hus; left; reflexivity).
  destruct Hsg as [ -> | [ -> | -> ] ].
  - unfold select. cbn [map]. rewrite (position_hd_true is_usable (snd p) (map snd av) Hp).
    cbn. discriminate.
  - rewrite select_rr_all; [|discriminate|exact Hus]. rewrite map_length.
    assert (0 <= c mod Z.of_nat (length (p :: av)) < Z.of_nat (length (p :: av)))
      by (apply Z.mod_pos_bound; cbn [length]; lia).
    destruct (nth_error (p :: av) (Z.to_nat (c mod Z.of_nat (length (p :: av))))) eqn:En.
    + cbn. discriminate.
    + apply nth_error_None in En. lia.
  - unfold select. cbn [map]. rewrite (position_hd_true is_usable (snd p) (map snd av) Hp).
    destruct (position is_healthy (snd p :: map snd av)) as [j|] eqn:Ep.
    + apply position_Some in Ep. change (snd p :: map snd av) with (map snd (p :: av)) in Ep.
      rewrite map_length in Ep.
      destruct (nth_error (p :: av) j) eqn:En; [cbn; discriminate|].
      apply nth_error_None in En. lia.
    + cbn. discriminate.
Qed.

(* ---------------- round robin evenness ---------------- *)

(* number of j in [0, m) with (c + j) mod n = p *)
Definition cnt (n p c m : nat) : nat :=
  length (filter (fun j => Nat.eqb ((c + j) mod n) p) (seq 0 m)).

Lemma filter_length_ext {A} (f g : A -> bool) l :
  (forall x, In x l -> f x = g x) -> length (filter f l) = length (filter g l).
Proof.
  induction l as [|x t IH]; intros H; [reflexivity|]. cbn.
  rewrite (H x (or_introl eq_refl)).
  assert (IH' : length (filter f t) = length (filter g t)) by (apply IH; intros y Hy; apply H; right; exact Hy).
  destruct (g x); cbn; rewrite IH'; reflexivity.
Qed.

Lemma cnt_shift n p c : (0 < n)%nat -> cnt n p (S c) n = cnt n p c n.
Proof.
  intros Hn. unfold cnt.
  set (f := fun j => Nat.eqb ((c + j) mod n) p).
  assert (E1 : length (filter (fun j => Nat.eqb ((S c + j) mod n) p) (seq 0 n)) =
               length (filter f (seq 1 n))).
  { rewrite <- seq_shift. rewrite <- (map_length S).
    assert (G : forall l, map S (filter (fun j => Nat.eqb ((S c + j) mod n) p) l) = filter f (map S l)).
    { induction l as [|x t IH]; [reflexivity|]. cbn [filter map].
      assert (Hx : f (S x) = Nat.eqb ((S c + x) mod n) p).
      { unfold f. replace (c + S x)%nat with (S c + x)%nat by lia. reflexivity. }
      rewrite Hx. destruct (Nat.eqb ((S c + x) mod n) p); cbn [map]; rewrite IH; reflexivity. }
    rewrite G. reflexivity. }
  rewrite E1.
  assert (E2 : (length (filter f (seq 0 (S n))) = (if f O then 1 else 0) + length (filter f (seq 1 n)))%nat).
  { cbn [seq filter]. destruct (f O); reflexivity. }
  assert (E3 : (length (filter f (seq 0 (S n))) = length (filter f (seq 0 n)) + (if f n then 1 else 0))%nat).
  { rewrite seq_S. rewrite filter_app, app_length. cbn [filter plus]. destruct (f n); reflexivity. }
  assert (E4 : f n = f O).
  { unfold f. replace (c + n)%nat with (c + 0 + 1 * n)%nat by lia. rewrite Nat.mod_add by lia. reflexivity. }
  rewrite E4 in E3. destruct (f O); lia.
Qed.

Lemma cnt_block0 n p : (p < n)%nat -> cnt n p 0 n = 1%nat.
Proof.
  intros Hp. unfold cnt.
  rewrite (filter_length_ext _ (fun j => Nat.eqb j p)).
  2:{ intros j Hj. apply in_seq in Hj. cbn [plus]. rewrite Nat.mod_small by lia. reflexivity. }
  replace n with (p + S (n - S p))%nat by lia. rewrite seq_app, filter_app, app_length.
  assert (A : forall a m, (a + m <= p)%nat -> filter (fun j => Nat.eqb j p) (seq a m) = []).
  { intros a m. revert a. induction m as [|m IH]; intros a H; [reflexivity|]. cbn.
    destruct (Nat.eqb a p) eqn:E; [apply Nat.eqb_eq in E; lia|]. apply IH. lia. }
  assert (B : forall a m, (p < a)%nat -> filter (fun j => Nat.eqb j p) (seq a m) = []).
  { intros a m. revert a. induction m as [|m IH]; intros a H; [reflexivity|]. cbn.
    destruct (Nat.eqb a p) eqn:E; [apply Nat.eqb_eq in E; lia|]. apply IH. lia. }
  rewrite A by lia. cbn [seq filter plus length]. replace (0 + p)%nat with p by lia.
  rewrite Nat.eqb_refl. rewrite B by lia. reflexivity.
Qed.

Lemma cnt_block n p c : (p < n)%nat -> cnt n p c n = 1%nat.
Proof.
  intros Hp. induction c as [|c IH]; [apply cnt_block0; exact Hp|].
  rewrite cnt_shift by lia. exact IH.
Qed.

Lemma cnt_add n p c m1 m2 : cnt n p c (m1 + m2) = (cnt n p c m1 + cnt n p (c + m1) m2)%nat.
Proof.
  unfold cnt. rewrite seq_app, filter_app, app_length. f_equal.
  cbn [plus].
  assert (Sh : forall k a, seq (m1 + a) k = map (fun j => (m1 + j)%nat) (seq a k)).
  { induction k as [|k IHk]; intros a; [reflexivity|]. cbn [seq map]. f_equal.
    replace (S (m1 + a)) with (m1 + S a)%nat by lia. apply IHk. }
  replace m1 with (m1 + 0)%nat at 1 by lia. rewrite Sh.
  assert (G : forall l, filter (fun j => Nat.eqb ((c + j) mod n) p) (map (fun j => (m1 + j)%nat) l) =
                        map (fun j => (m1 + j)%nat) (filter (fun j => Nat.eqb ((c + m1 + j) mod n) p) l)).
  { induction l as [|x t IH]; [reflexivity|]. cbn [filter map].
    replace (c + (m1 + x))%nat with (c + m1 + x)%nat by lia.
    destruct (Nat.eqb ((c + m1 + x) mod n) p); cbn [map]; rewrite IH; reflexivity. }
  rewrite G, !map_length. reflexivity.
Qed.

Lemma cnt_blocks n p c k : (p < n)%nat -> cnt n p c (k * n) = k.
Proof.
  intros Hp. revert c. induction k as [|k IH]; intros c; [reflexivity|].
  cbn [Nat.mul]. rewrite cnt_add, cnt_block by exact Hp. rewrite IH. reflexivity.
Qed.

Lemma zmod_nat c n : 0 <= c -> (0 < n)%nat -> Z.to_nat (c mod Z.of_nat n) = (Z.to_nat c mod n)%nat.
Proof.
  intros Hc Hn. rewrite <- (Z2Nat.id c Hc) at 1. rewrite <- Nat2Z.inj_mod. apply Nat2Z.id.
Qed.

Lemma gwf_rr flt rs c :
  implies_usable flt -> available flt rs <> [] ->
  get_with_filter flt RoundRobin rs c =
    (option_map fst (nth_error (available flt rs)
                               (Z.to_nat (c mod Z.of_nat (length (available flt rs))))),
     (c + 1) mod two64).
Proof.
  intros Hi Hne. unfold get_with_filter.
  pose proof (statuses_usable flt rs Hi) as Hus.
  destruct (available flt rs) as [|p av] eqn:Ea; [congruence|].
  rewrite select_rr_all; [|discriminate|exact Hus]. rewrite map_length. reflexivity.
Qed.

Definition pick_at (av : list (nat * status)) (q : nat) : option nat := option_map fst (nth_error av q).

Lemma get_many_rr flt rs c m :
  implies_usable flt -> available flt rs <> [] ->
  0 <= c -> c + Z.of_nat m <= two64 ->
  fst (get_many flt RoundRobin rs c m) =
  map (fun j => pick_at (available flt rs) ((Z.to_nat c + j) mod length (available flt rs)))
      (seq 0 m).
Proof.
  intros Hi Hne. revert c. induction m as [|m IH]; intros c Hc Hm; [reflexivity|].
  cbn [get_many]. rewrite gwf_rr by assumption.
  assert (Hn : (0 < length (available flt rs))%nat).
  { destruct (available flt rs); [congruence|cbn; lia]. }
  destruct (get_many flt RoundRobin rs ((c + 1) mod two64) m) as [l c2] eqn:Eg.
  cbn [fst seq map]. f_equal.
  - unfold pick_at. rewrite zmod_nat by assumption. rewrite Nat.add_0_r. reflexivity.
  - destruct m as [|m']; [cbn in Eg; injection Eg as <- _; reflexivity|].
    assert (Hlt : c + 1 < two64) by lia.
    rewrite Z.mod_small in Eg by lia.
    specialize (IH (c + 1) ltac:(lia) ltac:(lia)). rewrite Eg in IH. cbn [fst] in IH.
    rewrite IH. rewrite <- seq_shift, map_map. apply map_ext. intros j.
    replace (Z.to_nat (c + 1) + j)%nat with (Z.to_nat c + S j)%nat by lia. reflexivity.
Qed.

Lemma avail_nodup_aux (q : nat * status -> bool) (l : list status) a :
  NoDup (map fst (filter q (combine (seq a (length l)) l))) /\
  forall x, In x (map fst (filter q (combine (seq a (length l)) l))) -> (a <= x)%nat.
Proof.
  revert a. induction l as [|y t IH]; intros a; cbn [length seq combine filter map].
  - split; [constructor|intros x []].
  - destruct (IH (S a)) as [Hnd Hge].
    destruct (q (a, y)); cbn [map fst].
    + split.
      * constructor; [|exact Hnd]. intros Hin. apply Hge in Hin. lia.
      * intros x [<-|Hx]; [lia|]. apply Hge in Hx. lia.
    + split; [exact Hnd|]. intros x Hx. apply Hge in Hx. lia.
Qed.

Lemma available_nodup flt rs : NoDup (map fst (available flt rs)).
Proof.
  unfold available. rewrite <- (map_length st rs).
  apply (avail_nodup_aux (fun p => flt (snd p)) (map st rs) 0).
Qed.

Lemma count_sel_map {A} i (g : A -> option nat) l :
  count_sel i (map g l) =
  length (filter (fun j => match g j with Some x => Nat.eqb x i | None => false end) l).
Proof.
  unfold count_sel. induction l as [|x t IH]; [reflexivity|]. cbn [map filter].
  destruct (g x) as [y|]; [destruct (Nat.eqb y i)|]; cbn [length]; rewrite ?IH; reflexivity.
Qed.

(* while the eligible set is constant with n members, any k*n consecutive round-robin
   selections (cursor not wrapping at 2^64 inside the window) pick each member exactly k times *)
Lemma round_robin_even flt rs c k i :
  implies_usable flt ->
  let av := available flt rs in
  (0 < length av)%nat ->
  0 <= c -> c + Z.of_nat (k * length av) <= two64 ->
  In i (map fst av) ->
  count_sel i (fst (get_many flt RoundRobin rs c (k * length av))) = k.
Proof.
  intros Hi av Hn Hc Hw Hin.
  assert (Hne : available flt rs <> []) by (fold av; destruct av; [cbn in Hn; lia|discriminate]).
  rewrite get_many_rr by assumption. fold av.
  rewrite count_sel_map.
  apply In_nth_error in Hin. destruct Hin as [p Hp].
  assert (Hpn : (p < length av)%nat).
  { rewrite <- (map_length fst). apply nth_error_Some. congruence. }
  transitivity (cnt (length av) p (Z.to_nat c) (k * length av)); [|apply cnt_blocks; exact Hpn].
  unfold cnt.
  apply filter_length_ext. intros j _.
  set (q := ((Z.to_nat c + j) mod length av)%nat).
  assert (Hq : (q < length av)%nat) by (apply Nat.mod_upper_bound; lia).
  unfold pick_at. rewrite <- nth_error_map.
  destruct (nth_error (map fst av) q) as [x|] eqn:Eq.
  2:{ apply nth_error_None in Eq. rewrite map_length in Eq. lia. }
  destruct (Nat.eqb q p) eqn:E.
  - apply Nat.eqb_eq in E. rewrite E in Eq. rewrite Hp in Eq. injection Eq as <-. apply Nat.eqb_refl.
  - apply Nat.eqb_neq in E. apply Nat.eqb_neq. intros ->. apply E.
    apply (proj1 (NoDup_nth_error (map fst av)) (available_nodup flt rs) q p).
    + rewrite map_length. exact Hq.
    + congruence.
Qed.

(* every pick of such a window is a member of the eligible set *)
Lemma get_many_sound flt sg rs c m o :
  In o (fst (get_many flt sg rs c m)) ->
  forall i, o = Some i -> exists r, nth_error rs i = Some r /\ flt (st r) = true.
Proof.
  revert c. induction m as [|m IH]; intros c Hin i ->; cbn [get_many] in Hin; [destruct Hin|].
  destruct (get_with_filter flt sg rs c) as [r c1] eqn:E.
  destruct (get_many flt sg rs c1 m) as [l c2] eqn:Eg. cbn [fst] in Hin.
  destruct Hin as [->|Hin].
  - apply (get_with_filter_sound _ _ _ _ _ _ E).
  - apply (IH c1); [rewrite Eg; exact Hin|reflexivity].
Qed.

(* ================= the background task: states are folds ================= *)
Section Link.
  Context (c : config).

  Definition rsim_ok (orig : list (status * Z)) (r : rsim) : Prop :=
    r_state r = run_results (fthr c) (sthr c) (r_hist r) /\
    r_finished r = Z.of_nat (length (r_hist r)) /\
    r_hist r = map (eff_at c orig) (seq 0 (length (r_hist r))) /\
    0 <= r_started r /\
    r_script r = skipn (Z.to_nat (r_started r)) orig /\
    match r_pending r with
    | None => r_started r = r_finished r
    | Some (_, e) => r_started r = r_finished r + 1 /\ e = eff_at c orig (length (r_hist r))
    end.

  Lemma finish_ok orig r e :
    r_state r = run_results (fthr c) (sthr c) (r_hist r) ->
    r_finished r = Z.of_nat (length (r_hist r)) ->
    r_hist r = map (eff_at c orig) (seq 0 (length (r_hist r))) ->
    0 <= r_started r ->
    r_script r = skipn (Z.to_nat (r_started r)) orig ->
    r_started r = r_finished r + 1 -> e = eff_at c orig (length (r_hist r)) ->
    rsim_ok orig (finish c r e).
  Proof.
    intros H1 H2 H3 H4 H5 H6 H7. unfold rsim_ok, finish. cbn [r_state r_hist r_finished r_started r_script r_pending].
    rewrite app_length. cbn [length]. repeat split.
    - rewrite run_snoc, <- H1. reflexivity.
    - lia.
    - replace (length (r_hist r) + 1)%nat with (S (length (r_hist r))) by lia.
      rewrite seq_S, map_app. cbn [map plus]. rewrite <- H3, H7. reflexivity.
    - exact H4.
    - exact H5.
    - lia.
  Qed.

  Lemma complete_due_ok orig t r : rsim_ok orig r -> rsim_ok orig (complete_due c t r).
  Proof.
    intros H. unfold complete_due. destruct (r_pending r) as [[due e]|] eqn:Ep; [|exact H].
    destruct (due <=? t); [|exact H].
    destruct H as (H1 & H2 & H3 & H4 & H5 & H6). rewrite Ep in H6. destruct H6 as [H6 H7].
    apply finish_ok; assumption.
  Qed.

  Lemma skipn_step {A} (l : list A) k d :
    match skipn k l with
    | [] => nth k l d = d /\ skipn (S k) l = []
    | x :: tl => nth k l d = x /\ skipn (S k) l = tl
    end.
  Proof.
    revert k. induction l as [|y t IH]; intros k.
    - destruct k; cbn; split; reflexivity.
    - destruct k as [|k]; [cbn; split; reflexivity|]. cbn [skipn nth]. apply IH.
  Qed.

  Lemma start_check_ok orig t r :
    rsim_ok orig r -> r_pending r = None -> rsim_ok orig (start_check c t r).
  Proof.
    intros (H1 & H2 & H3 & H4 & H5 & H6) Hp. rewrite Hp in H6.
    unfold start_check.
    pose proof (skipn_step orig (Z.to_nat (r_started r)) (Healthy, 0)) as Hs.
    rewrite <- H5 in Hs.
    assert (Hk : Z.to_nat (r_started r) = length (r_hist r)) by lia.
    assert (Hsucc : Z.to_nat (r_started r + 1) = S (Z.to_nat (r_started r))) by lia.
    destruct (r_script r) as [|[a d] tl] eqn:Es.
    - destruct Hs as [Hn Hsk]. cbn zeta.
      apply finish_ok; cbn [r_state r_hist r_finished r_started r_script]; try assumption; try lia.
      + rewrite Hsucc. symmetry. exact Hsk.
      + unfold eff_at, answer_at. rewrite <- Hk, Hn. reflexivity.
    - destruct Hs as [Hn Hsk]. cbn zeta.
      destruct (d <=? 0) eqn:Ed.
      + apply finish_ok; cbn [r_state r_hist r_finished r_started r_script]; try assumption; try lia.
        * rewrite Hsucc. symmetry. exact Hsk.
        * unfold eff_at, answer_at. rewrite <- Hk, Hn. cbn [fst snd]. unfold effective. rewrite Ed. reflexivity.
      + unfold rsim_ok. cbn [r_state r_hist r_finished r_started r_script r_pending].
        repeat split; try assumption; try lia.
        * rewrite Hsucc. symmetry. exact Hsk.
        * unfold eff_at, answer_at. rewrite <- Hk, Hn. reflexivity.
  Qed.

  Lemma Forall2_map_r {A B} (R : A -> B -> Prop) (f : B -> B) l l' :
    Forall2 R l l' -> (forall a b, In b l' -> R a b -> R a (f b)) -> Forall2 R l (map f l').
  Proof.
    induction 1 as [|a b l l' Hab Hl IH]; intros Hf; cbn; constructor.
    - apply Hf; [left; reflexivity|exact Hab].
    - apply IH. intros a' b' Hin. apply Hf. right. exact Hin.
  Qed.

  Lemma forallb_idle_none rs r : forallb idle rs = true -> In r rs -> r_pending r = None.
  Proof.
    intros H Hin. rewrite forallb_forall in H. specialize (H r Hin). unfold idle in H.
    destruct (r_pending r); [discriminate|reflexivity].
  Qed.

  (* rounds start only when no check is in flight *)
  Definition sim_ok (scripts : list (list (status * Z))) (s : sim) : Prop :=
    Forall2 rsim_ok scripts (rsims s) /\
    match ph s with
    | PRound _ => True
    | _ => forall r, In r (rsims s) -> r_pending r = None
    end.

  Lemma complete_due_pending t r : r_pending r = None -> r_pending (complete_due c t r) = None.
  Proof. intros H. unfold complete_due. rewrite H. exact H. Qed.

  Lemma settle_ok scripts fuel s : sim_ok scripts s -> sim_ok scripts (settle c fuel s).
  Proof.
    revert s. induction fuel as [|fuel IH]; intros s [Hr Hp]; [split; assumption|].
    cbn [settle].
    assert (Hr' : Forall2 rsim_ok scripts (map (complete_due c (now s)) (rsims s))).
    { apply Forall2_map_r; [exact Hr|]. intros a b _. apply complete_due_ok. }
    assert (Hidle : (forall r, In r (rsims s) -> r_pending r = None) ->
                    forall r, In r (map (complete_due c (now s)) (rsims s)) -> r_pending r = None).
    { intros H r Hin. apply in_map_iff in Hin. destruct Hin as (r0 & <- & Hin).
      apply complete_due_pending. apply H. exact Hin. }
    destruct (ph s) as [u|d|d'] eqn:Eph.
    - destruct (u <=? now s).
      + apply IH. split; cbn [rsims ph]; [exact Hr'|apply Hidle; exact Hp].
      + split; cbn [rsims ph]; [exact Hr'|apply Hidle; exact Hp].
    - destruct (d <=? now s).
      + apply IH. split; cbn [rsims ph]; [|exact I].
        apply Forall2_map_r; [exact Hr'|]. intros a b Hin Hab. apply start_check_ok; [exact Hab|].
        apply Hidle; [exact Hp|exact Hin].
      + split; cbn [rsims ph]; [exact Hr'|apply Hidle; exact Hp].
    - destruct (forallb idle (map (complete_due c (now s)) (rsims s))) eqn:Ei.
      + apply IH. split; cbn [rsims ph]; [exact Hr'|].
        intros r Hin. eapply forallb_idle_none; eassumption.
      + split; cbn [rsims ph]; [exact Hr'|exact I].
  Qed.

  Lemma tick_ms_ok scripts s : sim_ok scripts s -> sim_ok scripts (tick_ms c s).
  Proof. intros [H1 H2]. unfold tick_ms. apply settle_ok. split; assumption. Qed.

  Lemma iter_sim_inv (P : sim -> Prop) (f : sim -> sim) :
    (forall s, P s -> P (f s)) -> forall n s, P s -> P (iter_sim f n s).
  Proof.
    intros Hf n. induction n as [|n IH]; intros s H; cbn [iter_sim]; [exact H|].
    apply IH. apply Hf. exact H.
  Qed.

  Lemma advance_ok scripts n s : sim_ok scripts s -> sim_ok scripts (advance c n s).
  Proof. unfold advance. apply iter_sim_inv. intros s'. apply tick_ms_ok. Qed.

  Lemma start_ok scripts : sim_ok scripts (start c scripts).
  Proof.
    unfold start. apply settle_ok. split; cbn [rsims ph].
    - induction scripts as [|sc t IH]; cbn; constructor; [|exact IH].
      unfold rsim_ok. cbn. repeat split. lia.
    - intros r Hin. apply in_map_iff in Hin. destruct Hin as (sc & <- & _). reflexivity.
  Qed.


  Lemma reach_ok scripts waits : sim_ok scripts (reach c scripts waits).
  Proof.
    unfold reach. apply fold_left_inv; [apply start_ok|]. intros s n. apply advance_ok.
  Qed.

  (* at every observable instant the published state of each resource is the fold of
     apply_result over the effective results of the checks of that resource finished so far *)
  Lemma sim_is_fold scripts waits :
    Forall2 (fun orig r =>
               0 <= r_finished r /\
               r_state r = run_results (fthr c) (sthr c)
                             (map (eff_at c orig) (seq 0 (Z.to_nat (r_finished r)))))
            scripts (rsims (reach c scripts waits)).
  Proof.
    destruct (reach_ok scripts waits) as [H _].
    induction H as [|orig r l l' Hr Hl IH]; constructor; [|exact IH].
    destruct Hr as (H1 & H2 & H3 & _). split; [lia|].
    rewrite H2, Nat2Z.id, <- H3. exact H1.
  Qed.
End Link.

(* ================= non-vacuity ================= *)
Example ex_unhealthy_flip :
  st (run_results 2 2 [Healthy; Healthy; Unhealthy]) = Healthy /\
  st (run_results 2 2 ([Healthy; Healthy; Unhealthy] ++ [Unhealthy])) = Unhealthy.
Proof. split; reflexivity. Qed.
Example ex_unknown_between :
  st (run_results 2 2 [Healthy; Healthy; Unhealthy; Unknown]) = Healthy /\
  st (run_results 2 2 ([Healthy; Healthy; Unhealthy; Unknown] ++ [Unhealthy])) = Unhealthy.
Proof. split; reflexivity. Qed.
Example ex_healthy_flip :
  st (run_results 1 3 [Unhealthy; Degraded; Healthy]) = Degraded /\
  st (run_results 1 3 ([Unhealthy; Degraded; Healthy] ++ [Healthy])) = Healthy.
Proof. split; reflexivity. Qed.
Example ex_hysteresis :
  map (fun k => code (st (run_results 3 2 (firstn k [Unhealthy; Unhealthy; Healthy; Unhealthy; Unhealthy;
                                                      Unhealthy; Healthy; Degraded; Healthy; Healthy]))))
      (seq 0 11) = [3; 3; 3; 3; 3; 3; 2; 2; 1; 0; 0].
Proof. vm_compute. reflexivity. Qed.
Definition ex_rs := [ {| st := Healthy; cf := 0; cs := 1 |}; {| st := Unhealthy; cf := 2; cs := 0 |};
                      {| st := Degraded; cf := 0; cs := 1 |}; {| st := Healthy; cf := 0; cs := 3 |} ].
Example ex_rr_usable :
  map enc_sel (fst (get_many is_usable RoundRobin ex_rs 5 6)) = [3; 0; 2; 3; 0; 2].
Proof. vm_compute. reflexivity. Qed.
Example ex_rr_hyps :
  (0 < length (available is_usable ex_rs))%nat /\ 5 + Z.of_nat (2 * length (available is_usable ex_rs)) <= two64 /\
  map fst (available is_usable ex_rs) = [0; 2; 3]%nat.
Proof. vm_compute. repeat split; try lia; discriminate. Qed.
Example ex_rr_wraps : snd (get_with_filter is_usable RoundRobin ex_rs (two64 - 1)) = 0.
Proof. vm_compute. reflexivity. Qed.
Example ex_none : get_healthy RoundRobin [ {| st := Degraded; cf := 0; cs := 1 |} ] 7 = (None, 7).
Proof. reflexivity. Qed.
Example ex_custom_out_of_range :
  get_usable (Custom (fun _ => Some 1%nat)) [ {| st := Degraded; cf := 0; cs := 1 |} ] 7 = (None, 7).
Proof. reflexivity. Qed.

(* ================= the published status according to the rule of the property ================= *)
Lemma all_suffix_iff p n l : all_suffix p n l <-> (n <= trail p l)%nat.
Proof.
  split.
  - intros (pre & run & -> & Hn & Hf). rewrite <- Hn. apply suffix_trail. exact Hf.
  - apply trail_suffix.
Qed.

Lemma flip_rule_step f s rs x :
  flip_rule f s (rs ++ [x]) x (st (run_results f s rs)) (st (run_results f s (rs ++ [x]))).
Proof.
  rewrite status_step. destruct x; cbn [flip_rule]; try reflexivity.
  - destruct (s <=? _) eqn:E; split; intros H; try reflexivity.
    + exfalso. apply H. apply all_suffix_iff. apply Z.leb_le in E. lia.
    + apply all_suffix_iff in H. apply Z.leb_gt in E. lia.
  - destruct (f <=? _) eqn:E; split; intros H; try reflexivity.
    + exfalso. apply H. apply all_suffix_iff. apply Z.leb_le in E. lia.
    + apply all_suffix_iff in H. apply Z.leb_gt in E. lia.
Qed.

Lemma published_run f s rs : published f s rs (st (run_results f s rs)).
Proof.
  induction rs as [|x rs IH] using rev_ind; [constructor|].
  econstructor; [exact IH|apply flip_rule_step].
Qed.

Lemma all_suffix_dec p n l : all_suffix p n l \/ ~ all_suffix p n l.
Proof.
  destruct (le_lt_dec n (trail p l)) as [H|H].
  - left. apply all_suffix_iff. exact H.
  - right. intros H'. apply all_suffix_iff in H'. lia.
Qed.

Lemma flip_rule_fun f s upto x before a b :
  flip_rule f s upto x before a -> flip_rule f s upto x before b -> a = b.
Proof.
  destruct x; cbn [flip_rule]; intros Ha Hb; try congruence.
  - destruct (all_suffix_dec is_usable (Z.to_nat s) (nonunk upto)) as [H|H];
      destruct Ha as [Ha1 Ha2], Hb as [Hb1 Hb2]; [rewrite (Ha1 H), (Hb1 H)|rewrite (Ha2 H), (Hb2 H)]; reflexivity.
  - destruct (all_suffix_dec is_unhealthy (Z.to_nat f) (nonunk upto)) as [H|H];
      destruct Ha as [Ha1 Ha2], Hb as [Hb1 Hb2]; [rewrite (Ha1 H), (Hb1 H)|rewrite (Ha2 H), (Hb2 H)]; reflexivity.
Qed.

Lemma published_unique f s rs a b : published f s rs a -> published f s rs b -> a = b.
Proof.
  intros Ha. revert b. induction Ha as [|rs x before after Hp IH Hr]; intros b Hb.
  - inversion Hb; [reflexivity|]. destruct rs; discriminate.
  - inversion Hb as [E|rs' x' before' after' Hp' Hr' E]; [destruct rs; discriminate|].
    apply app_inj_tail in E. destruct E as [-> ->]. subst.
    specialize (IH _ Hp'). subst before'. eapply flip_rule_fun; eassumption.
Qed.

Lemma published_is_run f s rs a : published f s rs a <-> a = st (run_results f s rs).
Proof.
  split; [intros H; eapply published_unique; [exact H|apply published_run]|intros ->; apply published_run].
Qed.

(* the "only" clauses, stated on the rule-based specification *)
Lemma published_unhealthy_only_after f s rs x before after :
  published f s rs before -> published f s (rs ++ [x]) after ->
  before <> Unhealthy -> after = Unhealthy ->
  x = Unhealthy /\ all_suffix is_unhealthy (Z.to_nat f) (nonunk (rs ++ [x])).
Proof.
  intros Hb Ha Hne He. apply published_is_run in Hb, Ha. subst.
  rewrite status_step in He.
  destruct x; try congruence; try discriminate.
  - destruct (s <=? _); [discriminate|congruence].
  - destruct (f <=? _) eqn:E; [|congruence]. split; [reflexivity|].
    apply Z.leb_le in E. apply trail_suffix. lia.
Qed.

Lemma published_healthy_only_after f s rs x before after :
  published f s rs before -> published f s (rs ++ [x]) after ->
  before <> Healthy -> after = Healthy ->
  x = Healthy /\ all_suffix is_usable (Z.to_nat s) (nonunk (rs ++ [x])).
Proof.
  intros Hb Ha Hne He. apply published_is_run in Hb, Ha. subst.
  rewrite status_step in He.
  destruct x; try congruence; try discriminate.
  - destruct (s <=? _) eqn:E; [|congruence]. split; [reflexivity|].
    apply Z.leb_le in E. apply trail_suffix. lia.
  - destruct (f <=? _); [discriminate|congruence].
Qed.

(* effective result spelled out *)
Lemma effective_spec timeout a d :
  effective timeout a d = if (0 <? d) && (timeout <? d) then Unhealthy else a.
Proof.
  unfold effective. destruct (d <=? 0) eqn:E1.
  - apply Z.leb_le in E1. destruct (0 <? d) eqn:E2; [apply Z.ltb_lt in E2; lia|reflexivity].
  - apply Z.leb_gt in E1. destruct (0 <? d) eqn:E2; [|apply Z.ltb_ge in E2; lia]. cbn.
    destruct (d <=? timeout) eqn:E3.
    + apply Z.leb_le in E3. destruct (timeout <? d) eqn:E4; [apply Z.ltb_lt in E4; lia|reflexivity].
    + apply Z.leb_gt in E3. destruct (timeout <? d) eqn:E4; [reflexivity|apply Z.ltb_ge in E4; lia].
Qed.

Lemma published_status c scripts waits :
  Forall2 (fun orig r =>
     exists results,
       0 <= r_finished r /\ length results = Z.to_nat (r_finished r) /\
       (forall k, (k < length results)%nat ->
           nth k results Unknown =
             (if (0 <? snd (answer_at orig k)) && (timeout c <? snd (answer_at orig k))
              then Unhealthy else fst (answer_at orig k))) /\
       published (fthr c) (sthr c) results (st (r_state r)))
   scripts (rsims (reach c scripts waits)).
Proof.
  pose proof (sim_is_fold c scripts waits) as H.
  induction H as [|orig r l l' [Hf Hr] Hl IH]; constructor; [|exact IH].
  exists (map (eff_at c orig) (seq 0 (Z.to_nat (r_finished r)))).
  split; [exact Hf|]. split; [rewrite map_length, seq_length; reflexivity|]. split.
  - intros k Hk. rewrite map_length, seq_length in Hk.
    rewrite (nth_indep _ Unknown (eff_at c orig 0)) by (rewrite map_length, seq_length; exact Hk).
    rewrite map_nth, seq_nth by exact Hk. cbn [plus]. unfold eff_at. apply effective_spec.
  - rewrite Hr. apply published_run.
Qed.

(* ================= settle: the fuel bound is never reached ================= *)
Section Fuel.
  Context (c : config).

  (* rounds that can still fire at instant t from tick deadline d (Skip tolerance 5 ms) *)
  Definition rounds_left (t d : Z) : nat :=
    if d <=? t then S (Z.to_nat (Z.min (t - d) 5)) else O.
  Definition need (s : sim) : nat :=
    match ph s with
    | PInit u => if u <=? now s then 4 else 1
    | PTick d => 2 * rounds_left (now s) d + 1
    | PRound d => 2 * rounds_left (now s) d + 2
    end.

  Lemma next_deadline_rounds t d :
    1 <= interval c -> d <= t ->
    (rounds_left t (next_deadline c d t) < rounds_left t d)%nat.
  Proof.
    intros Hi Hd. unfold next_deadline.
    destruct (d + 5 <? t) eqn:E.
    - apply Z.ltb_lt in E.
      assert (0 <= (t - d) mod interval c < interval c) by (apply Z.mod_pos_bound; lia).
      unfold rounds_left.
      destruct (t + interval c - (t - d) mod interval c <=? t) eqn:E2; [apply Z.leb_le in E2; lia|].
      destruct (d <=? t) eqn:E3; [lia|apply Z.leb_gt in E3; lia].
    - apply Z.ltb_ge in E. unfold rounds_left.
      destruct (d <=? t) eqn:E3; [|apply Z.leb_gt in E3; lia].
      destruct (d + interval c <=? t) eqn:E2; [apply Z.leb_le in E2|]; lia.
  Qed.

  Lemma need_pos s : (1 <= need s)%nat.
  Proof. unfold need. destruct (ph s); [destruct (_ <=? _)| |]; lia. Qed.

  Lemma need_bound s : (need s <= 14)%nat.
  Proof.
    unfold need, rounds_left. destruct (ph s) as [u|d|d].
    - destruct (_ <=? _); lia.
    - destruct (d <=? now s); lia.
    - destruct (d <=? now s); lia.
  Qed.

  (* the result of settle does not depend on the fuel once the fuel covers [need] *)
  Lemma settle_fuel_irrel :
    1 <= interval c ->
    forall f1 f2 s, (need s <= f1)%nat -> (need s <= f2)%nat -> settle c f1 s = settle c f2 s.
  Proof.
    intros Hi f1. induction f1 as [|f1 IH]; intros f2 s H1 H2.
    { pose proof (need_pos s). lia. }
    destruct f2 as [|f2]; [pose proof (need_pos s); lia|].
    cbn [settle]. unfold need in H1, H2.
    destruct (ph s) as [u|d|d] eqn:Eph.
    - destruct (u <=? now s) eqn:E; [|reflexivity].
      apply IH; unfold need; cbn [ph now]; unfold rounds_left; rewrite Z.leb_refl, Z.sub_diag; cbn; lia.
    - destruct (d <=? now s) eqn:E; [|reflexivity].
      apply Z.leb_le in E. pose proof (next_deadline_rounds (now s) d Hi E).
      apply IH; unfold need; cbn [ph now]; lia.
    - destruct (forallb idle _); [|reflexivity].
      apply IH; unfold need; cbn [ph now]; lia.
  Qed.

  Lemma fuel_suffices :
    1 <= interval c -> forall s fuel, (fuel0 <= fuel)%nat -> settle c fuel s = settle c fuel0 s.
  Proof.
    intros Hi s fuel Hf. pose proof (need_bound s). unfold fuel0 in *.
    apply settle_fuel_irrel; [exact Hi|lia|lia].
  Qed.

  (* quiescence: nothing more can happen at this instant *)
  Definition quiescent (s : sim) : Prop :=
    map (complete_due c (now s)) (rsims s) = rsims s /\
    match ph s with
    | PInit u => (u <=? now s) = false
    | PTick d => (d <=? now s) = false
    | PRound _ => forallb idle (rsims s) = false
    end.

  Lemma complete_due_idem t r : complete_due c t (complete_due c t r) = complete_due c t r.
  Proof.
    assert (H : r_pending (complete_due c t r) = None \/ complete_due c t r = r /\
                 (forall due e, r_pending r = Some (due, e) -> (due <=? t) = false)).
    { unfold complete_due. destruct (r_pending r) as [[due e]|] eqn:Ep.
      - destruct (due <=? t) eqn:E; [left; reflexivity|].
        right. split; [reflexivity|]. intros due' e' H'. injection H' as <- <-. exact E.
      - left. exact Ep. }
    destruct H as [H|[H1 H2]].
    - unfold complete_due at 1. rewrite H. reflexivity.
    - rewrite H1. unfold complete_due. destruct (r_pending r) as [[due e]|] eqn:Ep; [|reflexivity].
      rewrite (H2 due e eq_refl). reflexivity.
  Qed.

  Lemma map_complete_idem t rs :
    map (complete_due c t) (map (complete_due c t) rs) = map (complete_due c t) rs.
  Proof. rewrite map_map. apply map_ext. intros r. apply complete_due_idem. Qed.

  Lemma settle_quiescent :
    1 <= interval c -> forall fuel s, (need s <= fuel)%nat -> quiescent (settle c fuel s).
  Proof.
    intros Hi fuel. induction fuel as [|fuel IH]; intros s H.
    { pose proof (need_pos s). lia. }
    cbn [settle]. unfold need in H.
    destruct (ph s) as [u|d|d] eqn:Eph.
    - destruct (u <=? now s) eqn:E.
      + apply IH; unfold need; cbn [ph now]; unfold rounds_left; rewrite Z.leb_refl, Z.sub_diag; cbn; lia.
      + split; cbn [now rsims ph]; [apply map_complete_idem|exact E].
    - destruct (d <=? now s) eqn:E.
      + apply Z.leb_le in E. pose proof (next_deadline_rounds (now s) d Hi E).
        apply IH; unfold need; cbn [ph now]; lia.
      + split; cbn [now rsims ph]; [apply map_complete_idem|exact E].
    - destruct (forallb idle (map (complete_due c (now s)) (rsims s))) eqn:E.
      + apply IH; unfold need; cbn [ph now]; lia.
      + split; cbn [now rsims ph]; [apply map_complete_idem|exact E].
  Qed.

  Lemma quiescent_fix s : quiescent s -> forall fuel, settle c fuel s = s.
  Proof.
    intros [Hr Hp] fuel. destruct fuel as [|fuel]; [reflexivity|].
    cbn [settle]. rewrite Hr. destruct s as [t rs p]. cbn [ph now rsims] in *.
    destruct p; rewrite Hp; reflexivity.
  Qed.

  Lemma start_quiescent scripts : 1 <= interval c -> quiescent (start c scripts).
  Proof. intros Hi. unfold start. apply settle_quiescent; [exact Hi|]. pose proof (need_bound {| now := 0; rsims := map (fun sc => {| r_state := rinit; r_script := sc; r_pending := None; r_started := 0; r_finished := 0; r_hist := [] |}) scripts; ph := PInit (init_delay c) |}). unfold fuel0. lia. Qed.

  Lemma tick_quiescent s : 1 <= interval c -> quiescent (tick_ms c s).
  Proof.
    intros Hi. unfold tick_ms. apply settle_quiescent; [exact Hi|].
    pose proof (need_bound {| now := now s + 1; rsims := rsims s; ph := ph s |}). unfold fuel0. lia.
  Qed.

  Lemma advance_quiescent n s : 1 <= interval c -> quiescent s -> quiescent (advance c n s).
  Proof.
    intros Hi. unfold advance. apply iter_sim_inv. intros s' _. apply tick_quiescent. exact Hi.
  Qed.

  Lemma reach_quiescent scripts waits : 1 <= interval c -> quiescent (reach c scripts waits).
  Proof.
    intros Hi. unfold reach. apply fold_left_inv; [apply start_quiescent; exact Hi|].
    intros s n. apply advance_quiescent. exact Hi.
  Qed.

  Lemma reach_settled scripts waits fuel :
    1 <= interval c -> settle c fuel (reach c scripts waits) = reach c scripts waits.
  Proof. intros Hi. apply quiescent_fix. apply reach_quiescent. exact Hi. Qed.
End Fuel.

(* ================= non-vacuity of the added statements ================= *)
(* a reachable state with a check in flight (resource 0: third check, will time out at 9) and timed-out
   checks in the history (resource 1: Degraded after 5 ms > timeout 2 counted as Unhealthy) *)
Definition ex_c := {| fthr := 2; sthr := 2; interval := 3; timeout := 2; init_delay := 1 |}.
Definition ex_scripts : list (list (status * Z)) :=
  [[(Healthy, 2); (Unhealthy, 0); (Healthy, 9); (Degraded, 1)]; [(Degraded, 5); (Unknown, 0)]].
Example ex_reach_pending :
  map (fun r => (r_pending r, r_hist r)) (rsims (reach ex_c ex_scripts [2%nat; 6%nat])) =
    [(Some (9, Unhealthy), [Healthy; Unhealthy]); (None, [Unhealthy; Unknown; Healthy])] /\
  observe (reach ex_c ex_scripts [2%nat; 6%nat]) = [3; 1; 0; 3; 2; 3; 0; 1; 3; 3] /\
  observe (reach ex_c ex_scripts [2%nat; 6%nat; 1%nat]) = [2; 2; 0; 3; 3; 3; 0; 1; 3; 3] /\
  1 <= interval ex_c.
Proof. vm_compute. repeat split; discriminate. Qed.

(* the configuration route bits of the strategy field do not change the model's answer *)
Example ex_route_irrelevant :
  run_script [2;1;1;5;2;0;1 + 16 * 3; 1; 7; 0;0; 0;0; 0;1; 1;1; 2;1; 1;1; 2;1; 1;1; 2;1] =
  run_script [2;1;1;5;2;0;1; 1; 7; 0;0; 0;0; 0;1; 1;1; 2;1; 1;1; 2;1; 1;1; 2;1].
Proof. vm_compute. reflexivity. Qed.

(* ================= the two accessors, one round-robin cursor each ================= *)
Lemma implies_usable_flt_of b : implies_usable (flt_of b).
Proof. intros s. destruct b, s; cbn; congruence. Qed.

Lemma get_many_is_get_one flt sg rs c k :
  get_many flt sg rs c k = get_one flt sg c (repeat rs k).
Proof.
  revert c. induction k as [|k IH]; intros c; [reflexivity|].
  cbn [get_many repeat get_one]. destruct (get_with_filter flt sg rs c) as [r c1].
  rewrite IH. reflexivity.
Qed.

Lemma get_one_app flt sg c l1 l2 :
  get_one flt sg c (l1 ++ l2) =
  (fst (get_one flt sg c l1) ++ fst (get_one flt sg (snd (get_one flt sg c l1)) l2),
   snd (get_one flt sg (snd (get_one flt sg c l1)) l2)).
Proof.
  revert c. induction l1 as [|rs t IH]; intros c; cbn [app get_one fst snd].
  - destruct (get_one flt sg c l2); reflexivity.
  - destruct (get_with_filter flt sg rs c) as [r c1]. rewrite IH.
    destruct (get_one flt sg c1 t) as [l c2]. reflexivity.
Qed.

Lemma get_calls_app sg ch cu l1 l2 :
  get_calls sg ch cu (l1 ++ l2) =
  (fst (get_calls sg ch cu l1) ++
     fst (get_calls sg (fst (snd (get_calls sg ch cu l1))) (snd (snd (get_calls sg ch cu l1))) l2),
   snd (get_calls sg (fst (snd (get_calls sg ch cu l1))) (snd (snd (get_calls sg ch cu l1))) l2)).
Proof.
  revert ch cu. induction l1 as [|[b rs] t IH]; intros ch cu; cbn [app get_calls fst snd].
  - destruct (get_calls sg ch cu l2) as [l [a b]]; reflexivity.
  - destruct (get_with_filter (flt_of b) sg rs (if b then ch else cu)) as [r c1]. rewrite IH.
    destruct (get_calls sg (if b then c1 else ch) (if b then cu else c1) t) as [l [x y]]. reflexivity.
Qed.

Lemma get_calls_length sg ch cu calls : length (fst (get_calls sg ch cu calls)) = length calls.
Proof.
  revert ch cu. induction calls as [|[b rs] t IH]; intros ch cu; [reflexivity|].
  cbn [get_calls]. destruct (get_with_filter _ sg rs _) as [r c1].
  specialize (IH (if b then c1 else ch) (if b then cu else c1)).
  destruct (get_calls sg _ _ t) as [l cc]. cbn [fst length] in *. rewrite IH. reflexivity.
Qed.

(* non-interference: what one accessor returns, and where its cursor ends, does not depend on the
   calls of the other accessor made in between (any strategy) *)
Lemma get_calls_sub sg ch cu calls :
  sub_picks true calls (fst (get_calls sg ch cu calls)) = fst (get_one is_healthy sg ch (sub_calls true calls)) /\
  sub_picks false calls (fst (get_calls sg ch cu calls)) = fst (get_one is_usable sg cu (sub_calls false calls)) /\
  fst (snd (get_calls sg ch cu calls)) = snd (get_one is_healthy sg ch (sub_calls true calls)) /\
  snd (snd (get_calls sg ch cu calls)) = snd (get_one is_usable sg cu (sub_calls false calls)).
Proof.
  revert ch cu. induction calls as [|[b rs] t IH]; intros ch cu; [repeat split|].
  cbn [get_calls]. destruct (get_with_filter (flt_of b) sg rs (if b then ch else cu)) as [r c1] eqn:E.
  specialize (IH (if b then c1 else ch) (if b then cu else c1)).
  destruct (get_calls sg (if b then c1 else ch) (if b then cu else c1) t) as [l [x y]].
  cbn [fst snd] in *. destruct IH as (I1 & I2 & I3 & I4).
  unfold sub_picks, sub_calls in *. cbn [combine filter fst snd map].
  destruct b; cbn [Bool.eqb flt_of] in *; cbn [map snd get_one]; rewrite E.
  - destruct (get_one is_healthy sg c1 _) as [l' c2] eqn:Eg. cbn [fst snd] in *.
    repeat split; congruence.
  - destruct (get_one is_usable sg c1 _) as [l' c2] eqn:Eg. cbn [fst snd] in *.
    repeat split; congruence.
Qed.

Lemma sub_picks_one sg ch cu calls b :
  sub_picks b calls (fst (get_calls sg ch cu calls)) =
  fst (get_one (flt_of b) sg (if b then ch else cu) (sub_calls b calls)).
Proof. destruct (get_calls_sub sg ch cu calls) as (H1 & H2 & _). destruct b; assumption. Qed.

(* round robin, one accessor alone, statuses possibly changing between calls: as long as every call
   sees the same eligible list av, the picks walk av cyclically *)
Lemma get_one_rr flt c rss av :
  implies_usable flt ->
  (forall rs, In rs rss -> available flt rs = av) -> av <> [] ->
  0 <= c -> c + Z.of_nat (length rss) <= two64 ->
  fst (get_one flt RoundRobin c rss) =
  map (fun j => pick_at av ((Z.to_nat c + j) mod length av)) (seq 0 (length rss)).
Proof.
  intros Hi Hav Hne. revert c. induction rss as [|rs rss IH]; intros c Hc Hm; [reflexivity|].
  cbn [get_one length].
  assert (Hb : available flt rs = av) by (apply Hav; left; reflexivity).
  rewrite gwf_rr; [|exact Hi|rewrite Hb; exact Hne]. rewrite Hb.
  assert (Hn : (0 < length av)%nat) by (destruct av; [congruence|cbn; lia]).
  destruct (get_one flt RoundRobin ((c + 1) mod two64) rss) as [l c2] eqn:Eg.
  cbn [fst seq map]. f_equal.
  - unfold pick_at. rewrite zmod_nat by assumption. rewrite Nat.add_0_r. reflexivity.
  - destruct rss as [|rs' rss']; [cbn in Eg; injection Eg as <- _; reflexivity|].
    cbn [length] in Hm.
    rewrite Z.mod_small in Eg by lia.
    specialize (IH ltac:(intros r0 Hr0; apply Hav; right; exact Hr0) (c + 1) ltac:(lia) ltac:(cbn [length]; lia)).
    rewrite Eg in IH. cbn [fst] in IH.
    rewrite IH. rewrite <- seq_shift, map_map. apply map_ext. intros j.
    replace (Z.to_nat (c + 1) + j)%nat with (Z.to_nat c + S j)%nat by lia. reflexivity.
Qed.

Lemma get_one_rr_even flt c rss av k i :
  implies_usable flt ->
  (forall rs, In rs rss -> available flt rs = av) ->
  (0 < length av)%nat -> length rss = (k * length av)%nat ->
  0 <= c -> c + Z.of_nat (length rss) <= two64 ->
  In i (map fst av) ->
  count_sel i (fst (get_one flt RoundRobin c rss)) = k.
Proof.
  intros Hi Hav Hn Hlen Hc Hw Hin.
  assert (Hne : av <> []) by (destruct av; [cbn in Hn; lia|discriminate]).
  destruct rss as [|rs0 rss'] eqn:Eo.
  { cbn in Hlen. assert (k = 0)%nat by nia. subst k. reflexivity. }
  rewrite <- Eo in *.
  assert (Hnd : NoDup (map fst av)).
  { rewrite <- (Hav rs0 ltac:(rewrite Eo; left; reflexivity)). apply available_nodup. }
  rewrite (get_one_rr flt c rss av Hi Hav Hne Hc Hw). rewrite Hlen.
  rewrite count_sel_map.
  apply In_nth_error in Hin. destruct Hin as [p Hp].
  assert (Hpn : (p < length av)%nat).
  { rewrite <- (map_length fst). apply nth_error_Some. congruence. }
  transitivity (cnt (length av) p (Z.to_nat c) (k * length av)); [|apply cnt_blocks; exact Hpn].
  unfold cnt.
  apply filter_length_ext. intros j _.
  set (q := ((Z.to_nat c + j) mod length av)%nat).
  assert (Hq : (q < length av)%nat) by (apply Nat.mod_upper_bound; lia).
  unfold pick_at. rewrite <- nth_error_map.
  destruct (nth_error (map fst av) q) as [x|] eqn:Eq.
  2:{ apply nth_error_None in Eq. rewrite map_length in Eq. lia. }
  destruct (Nat.eqb q p) eqn:E.
  - apply Nat.eqb_eq in E. rewrite E in Eq. rewrite Hp in Eq. injection Eq as <-. apply Nat.eqb_refl.
  - apply Nat.eqb_neq in E. apply Nat.eqb_neq. intros ->. apply E.
    apply (proj1 (NoDup_nth_error (map fst av)) Hnd q p).
    + rewrite map_length. exact Hq.
    + congruence.
Qed.

Lemma in_sub_calls b calls rs : In rs (sub_calls b calls) -> In (b, rs) calls.
Proof.
  unfold sub_calls. intros H. apply in_map_iff in H. destruct H as ([b' rs'] & <- & H).
  apply filter_In in H. destruct H as [H E]. cbn [fst snd] in *.
  apply Bool.eqb_prop in E. subst. exact H.
Qed.

(* THE per-accessor statement: for ANY interleaving of calls through the two accessors, with statuses
   changing in between or not, the picks of accessor b taken alone, over any k*n of its calls that all
   see the same eligible list av of n members, contain each member exactly k times *)
Lemma round_robin_even_per_accessor ch cu calls b av k i :
  (forall rs, In (b, rs) calls -> available (flt_of b) rs = av) ->
  (0 < length av)%nat -> length (sub_calls b calls) = (k * length av)%nat ->
  0 <= (if b then ch else cu) ->
  (if b then ch else cu) + Z.of_nat (k * length av) <= two64 ->
  In i (map fst av) ->
  count_sel i (sub_picks b calls (fst (get_calls RoundRobin ch cu calls))) = k.
Proof.
  intros Hav Hn Hlen Hc Hw Hin. rewrite sub_picks_one.
  apply (get_one_rr_even (flt_of b) _ _ av); try assumption.
  - apply implies_usable_flt_of.
  - intros rs Hrs. apply Hav. apply in_sub_calls. exact Hrs.
  - rewrite Hlen. exact Hw.
Qed.

Lemma filter_split_length {A} (q p : A -> bool) (L : list A) :
  length (filter q L) =
  (length (filter q (filter p L)) + length (filter q (filter (fun x => negb (p x)) L)))%nat.
Proof.
  induction L as [|x t IH]; [reflexivity|]. cbn [filter].
  destruct (p x); cbn [negb filter]; destruct (q x); cbn [length]; lia.
Qed.

Lemma map_snd_combine {A B} (l : list A) (m : list B) : length l = length m -> map snd (combine l m) = m.
Proof.
  revert m. induction l as [|x t IH]; intros [|y m] H; cbn in *; try discriminate; [reflexivity|].
  f_equal. apply IH. lia.
Qed.

Lemma count_sel_split i calls picks :
  length calls = length picks ->
  count_sel i picks = (count_sel i (sub_picks true calls picks) + count_sel i (sub_picks false calls picks))%nat.
Proof.
  intros Hl. unfold sub_picks.
  rewrite <- (map_snd_combine calls picks Hl) at 1.
  rewrite !count_sel_map.
  rewrite (filter_split_length _ (fun p : bool * list rstate * option nat => Bool.eqb (fst (fst p)) true)).
  rewrite (filter_ext (fun p : bool * list rstate * option nat => Bool.eqb (fst (fst p)) false)
                      (fun p => negb (Bool.eqb (fst (fst p)) true))); [reflexivity|].
  intros [[b rs] o]. cbn. destruct b; reflexivity.
Qed.

(* the combined stream is the merge of two even streams: over calls in which get_healthy is called
   kh*n times and get_usable ku*n times, all seeing the same eligible list of n members, each member
   is returned kh + ku times (NOT: every n consecutive calls of the merged stream are a permutation) *)
Lemma round_robin_even_combined ch cu calls av kh ku i :
  (forall b rs, In (b, rs) calls -> available (flt_of b) rs = av) ->
  (0 < length av)%nat ->
  length (sub_calls true calls) = (kh * length av)%nat ->
  length (sub_calls false calls) = (ku * length av)%nat ->
  0 <= ch -> ch + Z.of_nat (kh * length av) <= two64 ->
  0 <= cu -> cu + Z.of_nat (ku * length av) <= two64 ->
  In i (map fst av) ->
  count_sel i (fst (get_calls RoundRobin ch cu calls)) = (kh + ku)%nat.
Proof.
  intros Hav Hn Hh Hu Hch Hwh Hcu Hwu Hin.
  rewrite (count_sel_split i calls) by (symmetry; apply get_calls_length).
  rewrite (round_robin_even_per_accessor ch cu calls true av kh i); try assumption;
    [|intros rs Hrs; apply (Hav true rs Hrs)].
  rewrite (round_robin_even_per_accessor ch cu calls false av ku i); try assumption;
    [reflexivity|intros rs Hrs; apply (Hav false rs Hrs)].
Qed.

(* ---------------- what run_script executes ---------------- *)
Lemma run_events_cons c sg e t s ch cu :
  run_events c sg (e :: t) s ch cu =
  ev_out c sg (s, (ch, cu)) e ++
  run_events c sg t (fst (ev_step c sg (s, (ch, cu)) e))
             (fst (snd (ev_step c sg (s, (ch, cu)) e))) (snd (snd (ev_step c sg (s, (ch, cu)) e))).
Proof.
  destruct e as [op arg]. cbn [run_events ev_out ev_step fst snd].
  destruct (op =? 0); [reflexivity|].
  destruct (op =? 1).
  { destruct (get_many is_healthy sg _ ch (Z.to_nat arg)) as [l c']. reflexivity. }
  destruct (op =? 2); [|reflexivity].
  destruct (get_many is_usable sg _ cu (Z.to_nat arg)) as [l c']. reflexivity.
Qed.

Lemma run_events_split c sg pre e post s ch cu :
  let sc := fold_left (ev_step c sg) pre (s, (ch, cu)) in
  let sc' := ev_step c sg sc e in
  run_events c sg (pre ++ e :: post) s ch cu =
  run_events c sg pre s ch cu ++ ev_out c sg sc e ++
  run_events c sg post (fst sc') (fst (snd sc')) (snd (snd sc')).
Proof.
  revert s ch cu. induction pre as [|e0 pre IH]; intros s ch cu; cbn zeta.
  - cbn [app fold_left run_events]. apply run_events_cons.
  - cbn [app fold_left]. rewrite !run_events_cons. rewrite <- app_assoc. f_equal.
    destruct (ev_step c sg (s, (ch, cu)) e0) as [s1 [h1 u1]] eqn:E. cbn [fst snd]. apply IH.
Qed.

Lemma ev_sim_indep c sg evs s cc :
  fst (fold_left (ev_step c sg) evs (s, cc)) = fold_left (fun s n => advance c n s) (ev_waits evs) s.
Proof.
  revert s cc. induction evs as [|[op arg] evs IH]; intros s cc; [reflexivity|].
  cbn [fold_left ev_waits flat_map fst snd]. unfold ev_step at 2. cbn [fst snd].
  destruct (op =? 0); [cbn [app fold_left]; apply IH|].
  cbn [app]. destruct (op =? 1); [apply IH|]. destruct (op =? 2); apply IH.
Qed.

Lemma ev_state_is_reach c sg scripts pre :
  fst (fold_left (ev_step c sg) pre (start c scripts, (0, 0))) = reach c scripts (ev_waits pre).
Proof. apply ev_sim_indep. Qed.

Lemma get_calls_repeat sg ch cu b rs k :
  get_calls sg ch cu (repeat (b, rs) k) =
  (fst (get_many (flt_of b) sg rs (if b then ch else cu) k),
   (if b then snd (get_many (flt_of b) sg rs ch k) else ch,
    if b then cu else snd (get_many (flt_of b) sg rs cu k))).
Proof.
  revert ch cu. induction k as [|k IH]; intros ch cu; [destruct b; reflexivity|].
  cbn [repeat get_calls get_many].
  destruct b; cbn [flt_of].
  - destruct (get_with_filter is_healthy sg rs ch) as [r c1]. rewrite IH. cbn [flt_of].
    destruct (get_many is_healthy sg rs c1 k) as [l c2]. reflexivity.
  - destruct (get_with_filter is_usable sg rs cu) as [r c1]. rewrite IH. cbn [flt_of].
    destruct (get_many is_usable sg rs c1 k) as [l c2]. reflexivity.
Qed.

Lemma ev_calls_app c sg pre post s cc :
  ev_calls c (pre ++ post) s =
  ev_calls c pre s ++ ev_calls c post (fst (fold_left (ev_step c sg) pre (s, cc))).
Proof.
  revert s cc. induction pre as [|[op arg] pre IH]; intros s cc; [reflexivity|].
  cbn [app ev_calls fold_left]. unfold ev_step at 2. cbn [fst snd].
  destruct (op =? 0) eqn:E0; [apply IH|].
  destruct (op =? 1) eqn:E1; cbn [orb].
  { rewrite <- app_assoc. f_equal. apply IH. }
  destruct (op =? 2) eqn:E2; [rewrite <- app_assoc; f_equal|]; apply IH.
Qed.

(* the cursors after a prefix of events are those of get_calls over all accessor calls so far *)
Lemma ev_cursors c sg evs s ch cu :
  snd (fold_left (ev_step c sg) evs (s, (ch, cu))) = snd (get_calls sg ch cu (ev_calls c evs s)).
Proof.
  revert s ch cu. induction evs as [|[op arg] evs IH]; intros s ch cu; [reflexivity|].
  cbn [fold_left ev_calls]. unfold ev_step at 2. cbn [fst snd].
  destruct (op =? 0) eqn:E0; [apply IH|].
  destruct (op =? 1) eqn:E1; cbn [orb].
  { rewrite IH, get_calls_app, get_calls_repeat. reflexivity. }
  destruct (op =? 2) eqn:E2; [|apply IH].
  rewrite IH, get_calls_app, get_calls_repeat. reflexivity.
Qed.

(* the picks printed by the selection events of a script, in order, are the picks of get_calls over
   all accessor calls of the script (each with the published states at that point) *)
Lemma trace_selection_calls c sg pre e s ch cu :
  fst e = 1 \/ fst e = 2 ->
  let sc := fold_left (ev_step c sg) pre (s, (ch, cu)) in
  map enc_sel (fst (get_calls sg ch cu (ev_calls c (pre ++ [e]) s))) =
  map enc_sel (fst (get_calls sg ch cu (ev_calls c pre s))) ++ ev_out c sg sc e.
Proof.
  intros He sc. rewrite (ev_calls_app c sg pre [e] s (ch, cu)), get_calls_app. cbn [fst].
  rewrite map_app. f_equal.
  pose proof (ev_cursors c sg pre s ch cu) as Hc. fold sc in Hc.
  destruct e as [op arg]. cbn [fst] in He. cbn [ev_calls ev_out].
  rewrite <- Hc. fold sc. rewrite app_nil_r.
  destruct He as [-> | ->]; cbn [Z.eqb Pos.eqb orb]; rewrite get_calls_repeat; reflexivity.
Qed.

(* ================= non-vacuity: one cursor per accessor ================= *)
(* the former starvation witness (two Healthy resources, RoundRobin, get_healthy / get_usable
   alternating): with one cursor per accessor get_healthy now returns 0, 1, 0, 1 and so does get_usable *)
Example ex_rr_witness_script :
  run_script [2;1;1;5;2;0;1; 1; 10; 0;0; 0;0; 0;0; 0;1; 1;1; 2;1; 1;1; 2;1; 1;1; 2;1; 1;1; 2;1] =
    [0; 0; 1; 1; 1; 0; 0; 1; 1; 1;   0; 0; 1; 1; 1; 0; 0; 1; 1; 1;   0; 0; 1; 1; 0; 0; 1; 1].
Proof. vm_compute. reflexivity. Qed.
(* the hypotheses of round_robin_even_per_accessor are met with the accessors interleaved AND the
   statuses changing in between (resource 2 Degraded <-> Unhealthy): get_healthy's eligible list stays
   [0; 1], its four calls return 1, 0, 1, 0 from cursor 3, while get_usable's list changes *)
Definition ex_hhd := [ {| st := Healthy; cf := 0; cs := 1 |}; {| st := Healthy; cf := 0; cs := 1 |};
                       {| st := Degraded; cf := 0; cs := 1 |} ].
Definition ex_hhu := [ {| st := Healthy; cf := 0; cs := 1 |}; {| st := Healthy; cf := 0; cs := 1 |};
                       {| st := Unhealthy; cf := 2; cs := 0 |} ].
Definition ex_calls := [(true, ex_hhd); (false, ex_hhd); (true, ex_hhu); (false, ex_hhu); (false, ex_hhd);
                        (true, ex_hhd); (true, ex_hhu); (false, ex_hhu); (false, ex_hhd)].
Example ex_rr_per_accessor :
  let av := [(0%nat, Healthy); (1%nat, Healthy)] in
  (forall rs, In (true, rs) ex_calls -> available (flt_of true) rs = av) /\
  length (sub_calls true ex_calls) = (2 * length av)%nat /\ 3 + Z.of_nat (2 * length av) <= two64 /\
  map enc_sel (fst (get_calls RoundRobin 3 7 ex_calls)) = [1; 1; 0; 0; 0; 1; 0; 0; 2] /\
  map enc_sel (sub_picks true ex_calls (fst (get_calls RoundRobin 3 7 ex_calls))) = [1; 0; 1; 0] /\
  snd (get_calls RoundRobin 3 7 ex_calls) = (7, 12).
Proof.
  cbn zeta. split.
  { intros rs H. cbn in H.
    repeat (destruct H as [H|H]; [try discriminate; injection H as <-; reflexivity|]). destruct H. }
  split; [reflexivity|]. split; [vm_compute; discriminate|]. vm_compute. repeat split.
Qed.
(* the merged stream of the two accessors is NOT a rotation any more: same eligible list for both,
   alternating calls: 0, 0, 1, 1, ... (each member 2 + 2 times in 8 calls: round_robin_even_combined) *)
Example ex_rr_combined_merge :
  map enc_sel (fst (get_seq RoundRobin [ {| st := Healthy; cf := 0; cs := 1 |}; {| st := Healthy; cf := 0; cs := 1 |} ]
                            0 0 (map Nat.even (seq 0 8)))) = [0; 0; 1; 1; 0; 0; 1; 1].
Proof. vm_compute. reflexivity. Qed.
(* differing eligible sets (healthy {0,1}, usable {0,1,2}), alternating: each accessor's own stream is a
   rotation of its own set: get_healthy 0,1,0,1,0,1 and get_usable 0,1,2,0,1,2 *)
Example ex_rr_differing_sets :
  map enc_sel (fst (get_seq RoundRobin ex_hhd 0 0 (map Nat.even (seq 0 12)))) =
    [0; 0; 1; 1; 0; 2; 1; 0; 0; 1; 1; 2].
Proof. vm_compute. reflexivity. Qed.

(* ================= the Random strategy (crate feature random) ================= *)
(* the Random strategy (any draw): returns something whenever something qualifies, what it returns
   qualifies (get_with_filter_sound), and it leaves the cursor alone *)
Lemma random_some_when_some flt d rs c r :
  implies_usable flt -> In r rs -> flt (st r) = true ->
  exists i r', get_with_filter flt (Random d) rs c = (Some i, c) /\
               nth_error rs i = Some r' /\ flt (st r') = true.
Proof.
  intros Hi Hin Hf.
  pose proof (available_nonempty flt rs r Hin Hf) as Hne.
  pose proof (statuses_usable flt rs Hi) as Hus.
  assert (E : exists i, get_with_filter flt (Random d) rs c = (Some i, c)).
  { unfold get_with_filter. destruct (available flt rs) as [|p av] eqn:Ea; [congruence|].
    unfold select. cbn [map]. change (snd p :: map snd av) with (map snd (p :: av)).
    rewrite (rr_usable_all (map snd (p :: av)) Hus). rewrite map_length, seq_length.
    set (n := length (p :: av)). assert (Hn : (0 < n)%nat) by (unfold n; cbn; lia).
    destruct (seq 0 n) as [|y l] eqn:Es.
    { apply (f_equal (@length nat)) in Es. rewrite seq_length in Es. cbn in Es. lia. }
    rewrite <- Es. rewrite seq_nth by (apply Nat.mod_upper_bound; lia). cbn [plus].
    destruct (nth_error (p :: av) (d mod n)) as [q|] eqn:En.
    - exists (fst q). reflexivity.
    - apply nth_error_None in En. pose proof (Nat.mod_upper_bound d n ltac:(lia)). fold n in En. lia. }
  destruct E as [i E]. destruct (get_with_filter_sound _ _ _ _ _ _ E) as (r' & Hr & Hfr).
  exists i, r'. repeat split; assumption.
Qed.

Example ex_random :
  map (fun d => enc_sel (fst (get_usable (Random d) ex_rs 9))) [0; 1; 2; 3; 7]%nat = [0; 2; 3; 0; 2] /\
  get_healthy (Random 5) [ {| st := Degraded; cf := 0; cs := 1 |} ] 9 = (None, 9).
Proof. vm_compute. split; reflexivity. Qed.

(* ================= observers ================= *)
Lemma observers_cannot_change_status {O} (obs : rstate -> status -> rstate -> list O) f s rs :
  fst (run_observed obs f s rs) = run_results f s rs.
Proof.
  unfold run_observed, run_results.
  assert (G : forall acc, fst (fold_left (fun (acc : rstate * list O) x =>
               let r' := apply_result f s (fst acc) x in (r', snd acc ++ obs (fst acc) x r')) rs acc) =
               fold_left (apply_result f s) rs (fst acc)).
  { induction rs as [|x rs IH]; intros acc; [reflexivity|]. cbn [fold_left]. rewrite IH. reflexivity. }
  apply G.
Qed.
