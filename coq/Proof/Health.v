(* Proofs about Model/Health.v (C18). *)
From TR Require Import Lib.Base Model.Health.

(* ================= per-resource fold over check results ================= *)

Lemma run_snoc f s rs x :
  run_results f s (rs ++ [x]) = apply_result f s (run_results f s rs) x.
Proof. unfold run_results. rewrite fold_left_app. reflexivity. Qed.

Lemma nonunk_snoc rs x :
  nonunk (rs ++ [x]) = if is_unknown x then nonunk rs else nonunk rs ++ [x].
Proof. unfold nonunk. rewrite filter_app. cbn. destruct (is_unknown x); cbn; [apply app_nil_r|reflexivity]. Qed.

Lemma trail_snoc p l x : trail p (l ++ [x]) = if p x then S (trail p l) else O.
Proof. unfold trail. rewrite rev_app_distr. reflexivity. Qed.

(* consecutive_failures / consecutive_successes are the trailing runs of failing /
   non-failing results among the results that are not Unknown *)
Lemma counters_spec f s rs :
  cf (run_results f s rs) = Z.of_nat (trail is_unhealthy (nonunk rs)) /\
  cs (run_results f s rs) = Z.of_nat (trail is_usable (nonunk rs)).
Proof.
  induction rs as [|x rs IH] using rev_ind; [split; reflexivity|].
  rewrite run_snoc, nonunk_snoc. destruct IH as [IHf IHs].
  destruct x; cbn [apply_result is_unknown cf cs]; rewrite ?trail_snoc; cbn [is_unhealthy is_usable];
    try (split; [assumption|assumption]); split; try reflexivity; lia.
Qed.

(* a trailing run of length >= n gives a suffix of n elements satisfying p *)
Lemma lead_prefix p l n :
  (n <= lead p l)%nat -> exists run post, l = run ++ post /\ length run = n /\ Forall (fun x => p x = true) run.
Proof.
  revert n. induction l as [|x t IH]; intros n H; cbn [lead] in H.
  - assert (n = O) by lia. subst. exists [], []. repeat split. constructor.
  - destruct n as [|n]; [exists [], (x :: t); repeat split; constructor|].
    destruct (p x) eqn:E; [|lia].
    destruct (IH n) as (run & post & -> & Hl & Hf); [lia|].
    exists (x :: run), post. repeat split; [cbn; lia|constructor; assumption].
Qed.

Lemma trail_suffix p l n :
  (n <= trail p l)%nat -> exists pre run, l = pre ++ run /\ length run = n /\ Forall (fun x => p x = true) run.
Proof.
  unfold trail. intros H. destruct (lead_prefix p (rev l) n H) as (run & post & Hr & Hl & Hf).
  exists (rev post), (rev run). repeat split.
  - rewrite <- rev_app_distr, <- Hr, rev_involutive. reflexivity.
  - rewrite rev_length. exact Hl.
  - apply Forall_rev. exact Hf.
Qed.

Lemma suffix_trail p pre run : Forall (fun x => p x = true) run -> (length run <= trail p (pre ++ run))%nat.
Proof.
  intros H. unfold trail. rewrite rev_app_distr.
  apply Forall_rev in H. revert H. generalize (rev_length run). generalize (rev run) as r.
  intros r. revert run. induction r as [|x r IH]; intros run Hl Hf; cbn in *; [lia|].
  inversion Hf; subst. rewrite H1. destruct run as [|y run']; cbn in Hl; [lia|].
  specialize (IH run'). cbn in Hl. assert (length r = length run') by lia.
  specialize (IH H H2). cbn. lia.
Qed.


(* exact description of the published status after one more result *)
Lemma status_step f s rs x :
  st (run_results f s (rs ++ [x])) =
  match x with
  | Unknown => st (run_results f s rs)
  | Degraded => Degraded
  | Unhealthy => if f <=? Z.of_nat (trail is_unhealthy (nonunk (rs ++ [x]))) then Unhealthy
                 else st (run_results f s rs)
  | Healthy => if s <=? Z.of_nat (trail is_usable (nonunk (rs ++ [x]))) then Healthy
               else st (run_results f s rs)
  end.
Proof.
  rewrite run_snoc. destruct (counters_spec f s rs) as [Hf Hs].
  rewrite nonunk_snoc.
  destruct x; cbn [apply_result st is_unknown]; rewrite ?trail_snoc; cbn [is_unhealthy is_usable];
    rewrite ?Hf, ?Hs, ?Nat2Z.inj_succ; try reflexivity; unfold Z.succ; reflexivity.
Qed.

Lemma unhealthy_only_after f s rs x :
  1 <= f ->
  st (run_results f s rs) <> Unhealthy ->
  st (run_results f s (rs ++ [x])) = Unhealthy ->
  x = Unhealthy /\ all_suffix is_unhealthy (Z.to_nat f) (nonunk (rs ++ [x])).
Proof.
  intros Hf Hpre Hpost. rewrite status_step in Hpost.
  destruct x; try congruence; try discriminate.
  - destruct (s <=? _); [discriminate|congruence].
  - destruct (f <=? _) eqn:E; [|congruence]. split; [reflexivity|].
    apply Z.leb_le in E. apply trail_suffix. lia.
Qed.

Lemma healthy_only_after f s rs x :
  1 <= s ->
  st (run_results f s rs) <> Healthy ->
  st (run_results f s (rs ++ [x])) = Healthy ->
  x = Healthy /\ all_suffix is_usable (Z.to_nat s) (nonunk (rs ++ [x])).
Proof.
  intros Hs Hpre Hpost. rewrite status_step in Hpost.
  destruct x; try congruence; try discriminate.
  - destruct (s <=? _) eqn:E; [|congruence]. split; [reflexivity|].
    apply Z.leb_le in E. apply trail_suffix. lia.
  - destruct (f <=? _); [discriminate|congruence].
Qed.

(* converses: the thresholds are also sufficient *)
Lemma unhealthy_when f s rs :
  all_suffix is_unhealthy (Z.to_nat f) (nonunk (rs ++ [Unhealthy])) ->
  st (run_results f s (rs ++ [Unhealthy])) = Unhealthy.
Proof.
  intros (pre & run & Hl & Hn & Hf). rewrite status_step.
  pose proof (suffix_trail is_unhealthy pre run Hf) as H. rewrite <- Hl in H.
  destruct (f <=? _) eqn:E; [reflexivity|]. apply Z.leb_gt in E. lia.
Qed.

Lemma healthy_when f s rs :
  all_suffix is_usable (Z.to_nat s) (nonunk (rs ++ [Healthy])) ->
  st (run_results f s (rs ++ [Healthy])) = Healthy.
Proof.
  intros (pre & run & Hl & Hn & Hf). rewrite status_step.
  pose proof (suffix_trail is_usable pre run Hf) as H. rewrite <- Hl in H.
  destruct (s <=? _) eqn:E; [reflexivity|]. apply Z.leb_gt in E. lia.
Qed.

Lemma degraded_at_once f s rs :
  st (run_results f s (rs ++ [Degraded])) = Degraded /\
  cf (run_results f s (rs ++ [Degraded])) = 0 /\
  cs (run_results f s (rs ++ [Degraded])) = cs (run_results f s rs) + 1.
Proof. rewrite run_snoc. repeat split. Qed.

Lemma unknown_noop f s rs rs' :
  run_results f s (rs ++ Unknown :: rs') = run_results f s (rs ++ rs').
Proof. unfold run_results. rewrite !fold_left_app. reflexivity. Qed.

Lemma unknown_dropped f s rs : run_results f s rs = run_results f s (nonunk rs).
Proof.
  induction rs as [|x rs IH] using rev_ind; [reflexivity|].
  rewrite nonunk_snoc. destruct x; cbn [is_unknown]; rewrite ?run_snoc, ?IH; reflexivity.
Qed.

Lemma timeout_is_failure timeout answer delay :
  0 < delay -> timeout < delay -> effective timeout answer delay = Unhealthy.
Proof.
  intros H1 H2. unfold effective.
  destruct (delay <=? 0) eqn:E; [apply Z.leb_le in E; lia|].
  destruct (delay <=? timeout) eqn:E2; [apply Z.leb_le in E2; lia|reflexivity].
Qed.

Lemma in_time_is_answer timeout answer delay :
  delay <= timeout \/ delay <= 0 -> effective timeout answer delay = answer.
Proof.
  intros H. unfold effective.
  destruct (delay <=? 0) eqn:E; [reflexivity|]. apply Z.leb_gt in E.
  destruct (delay <=? timeout) eqn:E2; [reflexivity|]. apply Z.leb_gt in E2. lia.
Qed.

(* ================= selection ================= *)
Lemma In_combine_seq {A} (l : list A) a i x :
  In (i, x) (combine (seq a (length l)) l) -> (a <= i)%nat /\ nth_error l (i - a) = Some x.
Proof.
  revert a. induction l as [|y t IH]; intros a H; cbn in H; [contradiction|].
  destruct H as [H|H].
  - injection H as <- <-. split; [lia|]. replace (a - a)%nat with O by lia. reflexivity.
  - apply IH in H. destruct H as [Hle Hn]. split; [lia|].
    replace (i - a)%nat with (S (i - S a)) by lia. exact Hn.
Qed.

Lemma available_sound flt rs i x :
  In (i, x) (available flt rs) -> flt x = true /\ exists r, nth_error rs i = Some r /\ st r = x.
Proof.
  unfold available. intros H. apply filter_In in H. destruct H as [H Hf]. cbn in Hf.
  split; [exact Hf|].
  rewrite <- (map_length st rs) in H. apply In_combine_seq in H. destruct H as [_ H].
  replace (i - 0)%nat with i in H by lia.
  rewrite nth_error_map in H. destruct (nth_error rs i) as [r|]; [|discriminate].
  exists r. split; [reflexivity|]. cbn in H. congruence.
Qed.

(* whatever the strategy (including any custom selector) and the cursor, the resource
   returned is one that currently passes the filter *)
Lemma get_with_filter_sound flt sg rs c i c' :
  get_with_filter flt sg rs c = (Some i, c') ->
  exists r, nth_error rs i = Some r /\ flt (st r) = true.
Proof.
  unfold get_with_filter. destruct (available flt rs) as [|p av] eqn:Ea; [discriminate|].
  destruct (select sg (map snd (p :: av)) c) as [sel c2]. destruct sel as [j|]; [|discriminate].
  destruct (nth_error (p :: av) j) as [[i' x]|] eqn:En; [|discriminate].
  cbn. intros H. injection H as <- <-.
  apply nth_error_In in En. rewrite <- Ea in En. apply available_sound in En.
  destruct En as [Hf (r & Hr & Hs)]. exists r. split; [exact Hr|]. rewrite Hs. exact Hf.
Qed.

Lemma get_healthy_sound sg rs c i c' :
  get_healthy sg rs c = (Some i, c') -> exists r, nth_error rs i = Some r /\ st r = Healthy.
Proof.
  intros H. apply get_with_filter_sound in H. destruct H as (r & Hr & Hf).
  exists r. split; [exact Hr|]. destruct (st r); try discriminate. reflexivity.
Qed.

Lemma get_usable_sound sg rs c i c' :
  get_usable sg rs c = (Some i, c') ->
  exists r, nth_error rs i = Some r /\ (st r = Healthy \/ st r = Degraded).
Proof.
  intros H. apply get_with_filter_sound in H. destruct H as (r & Hr & Hf).
  exists r. split; [exact Hr|]. destruct (st r); try discriminate; [left|right]; reflexivity.
Qed.

Lemma available_nil flt rs :
  (forall r, In r rs -> flt (st r) = false) -> available flt rs = [].
Proof.
  intros H. unfold available.
  assert (G : forall l (a : nat), (forall r, In r l -> flt (st r) = false) ->
            filter (fun p : nat * status => flt (snd p)) (combine (seq a (length l)) (map st l)) = []).
  { induction l as [|r t IH]; intros a Hl; [reflexivity|]. cbn.
    rewrite (Hl r (or_introl eq_refl)). apply IH. intros r' Hr'. apply Hl. right. exact Hr'. }
  apply G. exact H.
Qed.

Lemma none_when_none flt sg rs c :
  (forall r, In r rs -> flt (st r) = false) -> get_with_filter flt sg rs c = (None, c).
Proof. intros H. unfold get_with_filter. rewrite (available_nil flt rs H). reflexivity. Qed.

Lemma available_nonempty flt rs r :
  In r rs -> flt (st r) = true -> available flt rs <> [].
Proof.
  intros Hin Hf. unfold available.
  assert (G : forall l (a : nat), In r l ->
            filter (fun p : nat * status => flt (snd p)) (combine (seq a (length l)) (map st l)) <> []).
  { induction l as [|y t IH]; intros a Hl; [contradiction|]. cbn.
    destruct Hl as [->|Hl]; [rewrite Hf; discriminate|].
    destruct (flt (st y)); [discriminate|]. apply IH. exact Hl. }
  apply G. exact Hin.
Qed.

Lemma position_Some {A} (p : A -> bool) l i :
  position p l = Some i -> (i < length l)%nat.
Proof.
  revert i. induction l as [|x t IH]; intros i H; cbn in H; [discriminate|].
  destruct (p x); [injection H as <-; cbn; lia|].
  destruct (position p t) as [j|]; [|discriminate]. injection H as <-.
  specialize (IH j eq_refl). cbn. lia.
Qed.

Lemma position_hd_true {A} (p : A -> bool) x t : p x = true -> position p (x :: t) = Some O.
Proof. intros H. cbn. rewrite H. reflexivity. Qed.

Lemma filter_all {A} (p : A -> bool) l : (forall x, In x l -> p x = true) -> filter p l = l.
Proof.
  induction l as [|x t IH]; intros H; [reflexivity|]. cbn.
  rewrite (H x (or_introl eq_refl)). f_equal. apply IH. intros y Hy. apply H. right. exact Hy.
Qed.

Lemma available_all flt rs p : In p (available flt rs) -> flt (snd p) = true.
Proof. unfold available. intros H. apply filter_In in H. tauto. Qed.

(* when every available status is usable, round robin sees all of them *)
Lemma rr_usable_all (statuses : list status) :
  (forall x, In x statuses -> is_usable x = true) ->
  filter (fun i => is_usable (nth i statuses Unknown)) (seq 0 (length statuses)) = seq 0 (length statuses).
Proof.
  intros H. apply filter_all. intros i Hi. apply in_seq in Hi. apply H. apply nth_In. lia.
Qed.

Lemma select_rr_all (statuses : list status) c :
  statuses <> [] ->
  (forall x, In x statuses -> is_usable x = true) ->
  select RoundRobin statuses c =
    (Some (Z.to_nat (c mod Z.of_nat (length statuses))), (c + 1) mod two64).
Proof.
  intros Hne H. unfold select. destruct statuses as [|x t] eqn:E; [congruence|]. rewrite <- E in *.
  rewrite (rr_usable_all statuses H). rewrite seq_length.
  assert (Hl : (0 < length statuses)%nat) by (rewrite E; cbn; lia).
  destruct (seq 0 (length statuses)) as [|y l] eqn:Es.
  { apply (f_equal (@length nat)) in Es. rewrite seq_length in Es. cbn in Es. lia. }
  rewrite <- Es. f_equal. f_equal.
  rewrite seq_nth; [reflexivity|].
  assert (0 <= c mod Z.of_nat (length statuses) < Z.of_nat (length statuses)) by (apply Z.mod_pos_bound; lia).
  lia.
Qed.


Lemma statuses_usable flt rs :
  implies_usable flt -> forall x, In x (map snd (available flt rs)) -> is_usable x = true.
Proof.
  intros Hi x Hx. apply in_map_iff in Hx. destruct Hx as (p & <- & Hp).
  apply Hi. apply (available_all flt rs p Hp).
Qed.

(* the built-in strategies return something whenever some resource qualifies *)
Lemma some_when_some flt sg rs c r :
  implies_usable flt ->
  sg = FirstAvailable \/ sg = RoundRobin \/ sg = PreferHealthy ->
  In r rs -> flt (st r) = true ->
  fst (get_with_filter flt sg rs c) <> None.
Proof.
  intros Hi Hsg Hin Hf. unfold get_with_filter.
  pose proof (available_nonempty flt rs r Hin Hf) as Hne.
  pose proof (statuses_usable flt rs Hi) as Hus.
  destruct (available flt rs) as [|p av] eqn:Ea; [congruence|].
  assert (Hp : is_usable (snd p) = true) by (apply Hus; left; reflexivity).
  destruct Hsg as [ -> | [ -> | -> ] ].
  - unfold select. cbn [map]. rewrite (position_hd_true is_usable (snd p) (map snd av) Hp).
    cbn. discriminate.
  - rewrite select_rr_all; [|discriminate|exact Hus]. rewrite map_length.
    assert (0 <= c mod Z.of_nat (length (p :: av)) < Z.of_nat (length (p :: av)))
      by (apply Z.mod_pos_bound; cbn [length]; lia).
    destruct (nth_error (p :: av) (Z.to_nat (c mod Z.of_nat (length (p :: av))))) eqn:En.
    + cbn. discriminate.
    + apply nth_error_None in En. lia.
  - unfold select. cbn [map]. rewrite (position_hd_true is_usable (snd p) (map snd av) Hp).
    destruct (position is_healthy (snd p :: map snd av)) as [j|] eqn:Ep.
    + apply position_Some in Ep. change (snd p :: map snd av) with (map snd (p :: av)) in Ep.
      rewrite map_length in Ep.
      destruct (nth_error (p :: av) j) eqn:En; [cbn; discriminate|].
      apply nth_error_None in En. lia.
    + cbn. discriminate.
Qed.

(* ---------------- round robin evenness ---------------- *)

(* number of j in [0, m) with (c + j) mod n = p *)
Definition cnt (n p c m : nat) : nat :=
  length (filter (fun j => Nat.eqb ((c + j) mod n) p) (seq 0 m)).

Lemma filter_length_ext {A} (f g : A -> bool) l :
  (forall x, In x l -> f x = g x) -> length (filter f l) = length (filter g l).
Proof.
  induction l as [|x t IH]; intros H; [reflexivity|]. cbn.
  rewrite (H x (or_introl eq_refl)).
  assert (IH' : length (filter f t) = length (filter g t)) by (apply IH; intros y Hy; apply H; right; exact Hy).
  destruct (g x); cbn; rewrite IH'; reflexivity.
Qed.

Lemma cnt_shift n p c : (0 < n)%nat -> cnt n p (S c) n = cnt n p c n.
Proof.
  intros Hn. unfold cnt.
  set (f := fun j => Nat.eqb ((c + j) mod n) p).
  assert (E1 : length (filter (fun j => Nat.eqb ((S c + j) mod n) p) (seq 0 n)) =
               length (filter f (seq 1 n))).
  { rewrite <- seq_shift. rewrite <- (map_length S).
    assert (G : forall l, map S (filter (fun j => Nat.eqb ((S c + j) mod n) p) l) = filter f (map S l)).
    { induction l as [|x t IH]; [reflexivity|]. cbn [filter map].
      assert (Hx : f (S x) = Nat.eqb ((S c + x) mod n) p).
      { unfold f. replace (c + S x)%nat with (S c + x)%nat by lia. reflexivity. }
      rewrite Hx. destruct (Nat.eqb ((S c + x) mod n) p); cbn [map]; rewrite IH; reflexivity. }
    rewrite G. reflexivity. }
  rewrite E1.
  assert (E2 : (length (filter f (seq 0 (S n))) = (if f O then 1 else 0) + length (filter f (seq 1 n)))%nat).
  { cbn [seq filter]. destruct (f O); reflexivity. }
  assert (E3 : (length (filter f (seq 0 (S n))) = length (filter f (seq 0 n)) + (if f n then 1 else 0))%nat).
  { rewrite seq_S. rewrite filter_app, app_length. cbn [filter plus]. destruct (f n); reflexivity. }
  assert (E4 : f n = f O).
  { unfold f. replace (c + n)%nat with (c + 0 + 1 * n)%nat by lia. rewrite Nat.mod_add by lia. reflexivity. }
  rewrite E4 in E3. destruct (f O); lia.
Qed.

Lemma cnt_block0 n p : (p < n)%nat -> cnt n p 0 n = 1%nat.
Proof.
  intros Hp. unfold cnt.
  rewrite (filter_length_ext _ (fun j => Nat.eqb j p)).
  2:{ intros j Hj. apply in_seq in Hj. cbn [plus]. rewrite Nat.mod_small by lia. reflexivity. }
  replace n with (p + S (n - S p))%nat by lia. rewrite seq_app, filter_app, app_length.
  assert (A : forall a m, (a + m <= p)%nat -> filter (fun j => Nat.eqb j p) (seq a m) = []).
  { intros a m. revert a. induction m as [|m IH]; intros a H; [reflexivity|]. cbn.
    destruct (Nat.eqb a p) eqn:E; [apply Nat.eqb_eq in E; lia|]. apply IH. lia. }
  assert (B : forall a m, (p < a)%nat -> filter (fun j => Nat.eqb j p) (seq a m) = []).
  { intros a m. revert a. induction m as [|m IH]; intros a H; [reflexivity|]. cbn.
    destruct (Nat.eqb a p) eqn:E; [apply Nat.eqb_eq in E; lia|]. apply IH. lia. }
  rewrite A by lia. cbn [seq filter plus length]. replace (0 + p)%nat with p by lia.
  rewrite Nat.eqb_refl. rewrite B by lia. reflexivity.
Qed.

Lemma cnt_block n p c : (p < n)%nat -> cnt n p c n = 1%nat.
Proof.
  intros Hp. induction c as [|c IH]; [apply cnt_block0; exact Hp|].
  rewrite cnt_shift by lia. exact IH.
Qed.

Lemma cnt_add n p c m1 m2 : cnt n p c (m1 + m2) = (cnt n p c m1 + cnt n p (c + m1) m2)%nat.
Proof.
  unfold cnt. rewrite seq_app, filter_app, app_length. f_equal.
  cbn [plus].
  assert (Sh : forall k a, seq (m1 + a) k = map (fun j => (m1 + j)%nat) (seq a k)).
  { induction k as [|k IHk]; intros a; [reflexivity|]. cbn [seq map]. f_equal.
    replace (S (m1 + a)) with (m1 + S a)%nat by lia. apply IHk. }
  replace m1 with (m1 + 0)%nat at 1 by lia. rewrite Sh.
  assert (G : forall l, filter (fun j => Nat.eqb ((c + j) mod n) p) (map (fun j => (m1 + j)%nat) l) =
                        map (fun j => (m1 + j)%nat) (filter (fun j => Nat.eqb ((c + m1 + j) mod n) p) l)).
  { induction l as [|x t IH]; [reflexivity|]. cbn [filter map].
    replace (c + (m1 + x))%nat with (c + m1 + x)%nat by lia.
    destruct (Nat.eqb ((c + m1 + x) mod n) p); cbn [map]; rewrite IH; reflexivity. }
  rewrite G, !map_length. reflexivity.
Qed.

Lemma cnt_blocks n p c k : (p < n)%nat -> cnt n p c (k * n) = k.
Proof.
  intros Hp. revert c. induction k as [|k IH]; intros c; [reflexivity|].
  cbn [Nat.mul]. rewrite cnt_add, cnt_block by exact Hp. rewrite IH. reflexivity.
Qed.

Lemma zmod_nat c n : 0 <= c -> (0 < n)%nat -> Z.to_nat (c mod Z.of_nat n) = (Z.to_nat c mod n)%nat.
Proof.
  intros Hc Hn. rewrite <- (Z2Nat.id c Hc) at 1. rewrite <- Nat2Z.inj_mod. apply Nat2Z.id.
Qed.

Lemma gwf_rr flt rs c :
  implies_usable flt -> available flt rs <> [] ->
  get_with_filter flt RoundRobin rs c =
    (option_map fst (nth_error (available flt rs)
                               (Z.to_nat (c mod Z.of_nat (length (available flt rs))))),
     (c + 1) mod two64).
Proof.
  intros Hi Hne. unfold get_with_filter.
  pose proof (statuses_usable flt rs Hi) as Hus.
  destruct (available flt rs) as [|p av] eqn:Ea; [congruence|].
  rewrite select_rr_all; [|discriminate|exact Hus]. rewrite map_length. reflexivity.
Qed.

Definition pick_at (av : list (nat * status)) (q : nat) : option nat := option_map fst (nth_error av q).

Lemma get_many_rr flt rs c m :
  implies_usable flt -> available flt rs <> [] ->
  0 <= c -> c + Z.of_nat m <= two64 ->
  fst (get_many flt RoundRobin rs c m) =
  map (fun j => pick_at (available flt rs) ((Z.to_nat c + j) mod length (available flt rs)))
      (seq 0 m).
Proof.
  intros Hi Hne. revert c. induction m as [|m IH]; intros c Hc Hm; [reflexivity|].
  cbn [get_many]. rewrite gwf_rr by assumption.
  assert (Hn : (0 < length (available flt rs))%nat).
  { destruct (available flt rs); [congruence|cbn; lia]. }
  destruct (get_many flt RoundRobin rs ((c + 1) mod two64) m) as [l c2] eqn:Eg.
  cbn [fst seq map]. f_equal.
  - unfold pick_at. rewrite zmod_nat by assumption. rewrite Nat.add_0_r. reflexivity.
  - destruct m as [|m']; [cbn in Eg; injection Eg as <- _; reflexivity|].
    assert (Hlt : c + 1 < two64) by lia.
    rewrite Z.mod_small in Eg by lia.
    specialize (IH (c + 1) ltac:(lia) ltac:(lia)). rewrite Eg in IH. cbn [fst] in IH.
    rewrite IH. rewrite <- seq_shift, map_map. apply map_ext. intros j.
    replace (Z.to_nat (c + 1) + j)%nat with (Z.to_nat c + S j)%nat by lia. reflexivity.
Qed.

Lemma avail_nodup_aux (q : nat * status -> bool) (l : list status) a :
  NoDup (map fst (filter q (combine (seq a (length l)) l))) /\
  forall x, In x (map fst (filter q (combine (seq a (length l)) l))) -> (a <= x)%nat.
Proof.
  revert a. induction l as [|y t IH]; intros a; cbn [length seq combine filter map].
  - split; [constructor|intros x []].
  - destruct (IH (S a)) as [Hnd Hge].
    destruct (q (a, y)); cbn [map fst].
    + split.
      * constructor; [|exact Hnd]. intros Hin. apply Hge in Hin. lia.
      * intros x [<-|Hx]; [lia|]. apply Hge in Hx. lia.
    + split; [exact Hnd|]. intros x Hx. apply Hge in Hx. lia.
Qed.

Lemma available_nodup flt rs : NoDup (map fst (available flt rs)).
Proof.
  unfold available. rewrite <- (map_length st rs).
  apply (avail_nodup_aux (fun p => flt (snd p)) (map st rs) 0).
Qed.

Lemma count_sel_map {A} i (g : A -> option nat) l :
  count_sel i (map g l) =
  length (filter (fun j => match g j with Some x => Nat.eqb x i | None => false end) l).
Proof.
  unfold count_sel. induction l as [|x t IH]; [reflexivity|]. cbn [map filter].
  destruct (g x) as [y|]; [destruct (Nat.eqb y i)|]; cbn [length]; rewrite ?IH; reflexivity.
Qed.

(* while the eligible set is constant with n members, any k*n consecutive round-robin
   selections (cursor not wrapping at 2^64 inside the window) pick each member exactly k times *)
Lemma round_robin_even flt rs c k i :
  implies_usable flt ->
  let av := available flt rs in
  (0 < length av)%nat ->
  0 <= c -> c + Z.of_nat (k * length av) <= two64 ->
  In i (map fst av) ->
  count_sel i (fst (get_many flt RoundRobin rs c (k * length av))) = k.
Proof.
  intros Hi av Hn Hc Hw Hin.
  assert (Hne : available flt rs <> []) by (fold av; destruct av; [cbn in Hn; lia|discriminate]).
  rewrite get_many_rr by assumption. fold av.
  rewrite count_sel_map.
  apply In_nth_error in Hin. destruct Hin as [p Hp].
  assert (Hpn : (p < length av)%nat).
  { rewrite <- (map_length fst). apply nth_error_Some. congruence. }
  transitivity (cnt (length av) p (Z.to_nat c) (k * length av)); [|apply cnt_blocks; exact Hpn].
  unfold cnt.
  apply filter_length_ext. intros j _.
  set (q := ((Z.to_nat c + j) mod length av)%nat).
  assert (Hq : (q < length av)%nat) by (apply Nat.mod_upper_bound; lia).
  unfold pick_at. rewrite <- nth_error_map.
  destruct (nth_error (map fst av) q) as [x|] eqn:Eq.
  2:{ apply nth_error_None in Eq. rewrite map_length in Eq. lia. }
  destruct (Nat.eqb q p) eqn:E.
  - apply Nat.eqb_eq in E. rewrite E in Eq. rewrite Hp in Eq. injection Eq as <-. apply Nat.eqb_refl.
  - apply Nat.eqb_neq in E. apply Nat.eqb_neq. intros ->. apply E.
    apply (proj1 (NoDup_nth_error (map fst av)) (available_nodup flt rs) q p).
    + rewrite map_length. exact Hq.
    + congruence.
Qed.

(* every pick of such a window is a member of the eligible set *)
Lemma get_many_sound flt sg rs c m o :
  In o (fst (get_many flt sg rs c m)) ->
  forall i, o = Some i -> exists r, nth_error rs i = Some r /\ flt (st r) = true.
Proof.
  revert c. induction m as [|m IH]; intros c Hin i ->; cbn [get_many] in Hin; [destruct Hin|].
  destruct (get_with_filter flt sg rs c) as [r c1] eqn:E.
  destruct (get_many flt sg rs c1 m) as [l c2] eqn:Eg. cbn [fst] in Hin.
  destruct Hin as [->|Hin].
  - apply (get_with_filter_sound _ _ _ _ _ _ E).
  - apply (IH c1); [rewrite Eg; exact Hin|reflexivity].
Qed.

(* ================= the background task: states are folds ================= *)
Section Link.
  Context (c : config).

  Definition rsim_ok (orig : list (status * Z)) (r : rsim) : Prop :=
    r_state r = run_results (fthr c) (sthr c) (r_hist r) /\
    r_finished r = Z.of_nat (length (r_hist r)) /\
    r_hist r = map (eff_at c orig) (seq 0 (length (r_hist r))) /\
    0 <= r_started r /\
    r_script r = skipn (Z.to_nat (r_started r)) orig /\
    match r_pending r with
    | None => r_started r = r_finished r
    | Some (_, e) => r_started r = r_finished r + 1 /\ e = eff_at c orig (length (r_hist r))
    end.

  Lemma finish_ok orig r e :
    r_state r = run_results (fthr c) (sthr c) (r_hist r) ->
    r_finished r = Z.of_nat (length (r_hist r)) ->
    r_hist r = map (eff_at c orig) (seq 0 (length (r_hist r))) ->
    0 <= r_started r ->
    r_script r = skipn (Z.to_nat (r_started r)) orig ->
    r_started r = r_finished r + 1 -> e = eff_at c orig (length (r_hist r)) ->
    rsim_ok orig (finish c r e).
  Proof.
    intros H1 H2 H3 H4 H5 H6 H7. unfold rsim_ok, finish. cbn [r_state r_hist r_finished r_started r_script r_pending].
    rewrite app_length. cbn [length]. repeat split.
    - rewrite run_snoc, <- H1. reflexivity.
    - lia.
    - replace (length (r_hist r) + 1)%nat with (S (length (r_hist r))) by lia.
      rewrite seq_S, map_app. cbn [map plus]. rewrite <- H3, H7. reflexivity.
    - exact H4.
    - exact H5.
    - lia.
  Qed.

  Lemma complete_due_ok orig t r : rsim_ok orig r -> rsim_ok orig (complete_due c t r).
  Proof.
    intros H. unfold complete_due. destruct (r_pending r) as [[due e]|] eqn:Ep; [|exact H].
    destruct (due <=? t); [|exact H].
    destruct H as (H1 & H2 & H3 & H4 & H5 & H6). rewrite Ep in H6. destruct H6 as [H6 H7].
    apply finish_ok; assumption.
  Qed.

  Lemma skipn_step {A} (l : list A) k d :
    match skipn k l with
    | [] => nth k l d = d /\ skipn (S k) l = []
    | x :: tl => nth k l d = x /\ skipn (S k) l = tl
    end.
  Proof.
    revert k. induction l as [|y t IH]; intros k.
    - destruct k; cbn; split; reflexivity.
    - destruct k as [|k]; [cbn; split; reflexivity|]. cbn [skipn nth]. apply IH.
  Qed.

  Lemma start_check_ok orig t r :
    rsim_ok orig r -> r_pending r = None -> rsim_ok orig (start_check c t r).
  Proof.
    intros (H1 & H2 & H3 & H4 & H5 & H6) Hp. rewrite Hp in H6.
    unfold start_check.
    pose proof (skipn_step orig (Z.to_nat (r_started r)) (Healthy, 0)) as Hs.
    rewrite <- H5 in Hs.
    assert (Hk : Z.to_nat (r_started r) = length (r_hist r)) by lia.
    assert (Hsucc : Z.to_nat (r_started r + 1) = S (Z.to_nat (r_started r))) by lia.
    destruct (r_script r) as [|[a d] tl] eqn:Es.
    - destruct Hs as [Hn Hsk]. cbn zeta.
      apply finish_ok; cbn [r_state r_hist r_finished r_started r_script]; try assumption; try lia.
      + rewrite Hsucc. symmetry. exact Hsk.
      + unfold eff_at, answer_at. rewrite <- Hk, Hn. reflexivity.
    - destruct Hs as [Hn Hsk]. cbn zeta.
      destruct (d <=? 0) eqn:Ed.
      + apply finish_ok; cbn [r_state r_hist r_finished r_started r_script]; try assumption; try lia.
        * rewrite Hsucc. symmetry. exact Hsk.
        * unfold eff_at, answer_at. rewrite <- Hk, Hn. cbn [fst snd]. unfold effective. rewrite Ed. reflexivity.
      + unfold rsim_ok. cbn [r_state r_hist r_finished r_started r_script r_pending].
        repeat split; try assumption; try lia.
        * rewrite Hsucc. symmetry. exact Hsk.
        * unfold eff_at, answer_at. rewrite <- Hk, Hn. reflexivity.
  Qed.

  Lemma Forall2_map_r {A B} (R : A -> B -> Prop) (f : B -> B) l l' :
    Forall2 R l l' -> (forall a b, In b l' -> R a b -> R a (f b)) -> Forall2 R l (map f l').
  Proof.
    induction 1 as [|a b l l' Hab Hl IH]; intros Hf; cbn; constructor.
    - apply Hf; [left; reflexivity|exact Hab].
    - apply IH. intros a' b' Hin. apply Hf. right. exact Hin.
  Qed.

  Lemma forallb_idle_none rs r : forallb idle rs = true -> In r rs -> r_pending r = None.
  Proof.
    intros H Hin. rewrite forallb_forall in H. specialize (H r Hin). unfold idle in H.
    destruct (r_pending r); [discriminate|reflexivity].
  Qed.

  (* rounds start only when no check is in flight *)
  Definition sim_ok (scripts : list (list (status * Z))) (s : sim) : Prop :=
    Forall2 rsim_ok scripts (rsims s) /\
    match ph s with
    | PRound _ => True
    | _ => forall r, In r (rsims s) -> r_pending r = None
    end.

  Lemma complete_due_pending t r : r_pending r = None -> r_pending (complete_due c t r) = None.
  Proof. intros H. unfold complete_due. rewrite H. exact H. Qed.

  Lemma settle_ok scripts fuel s : sim_ok scripts s -> sim_ok scripts (settle c fuel s).
  Proof.
    revert s. induction fuel as [|fuel IH]; intros s [Hr Hp]; [split; assumption|].
    cbn [settle].
    assert (Hr' : Forall2 rsim_ok scripts (map (complete_due c (now s)) (rsims s))).
    { apply Forall2_map_r; [exact Hr|]. intros a b _. apply complete_due_ok. }
    assert (Hidle : (forall r, In r (rsims s) -> r_pending r = None) ->
                    forall r, In r (map (complete_due c (now s)) (rsims s)) -> r_pending r = None).
    { intros H r Hin. apply in_map_iff in Hin. destruct Hin as (r0 & <- & Hin).
      apply complete_due_pending. apply H. exact Hin. }
    destruct (ph s) as [u|d|d'] eqn:Eph.
    - destruct (u <=? now s).
      + apply IH. split; cbn [rsims ph]; [exact Hr'|apply Hidle; exact Hp].
      + split; cbn [rsims ph]; [exact Hr'|apply Hidle; exact Hp].
    - destruct (d <=? now s).
      + apply IH. split; cbn [rsims ph]; [|exact I].
        apply Forall2_map_r; [exact Hr'|]. intros a b Hin Hab. apply start_check_ok; [exact Hab|].
        apply Hidle; [exact Hp|exact Hin].
      + split; cbn [rsims ph]; [exact Hr'|apply Hidle; exact Hp].
    - destruct (forallb idle (map (complete_due c (now s)) (rsims s))) eqn:Ei.
      + apply IH. split; cbn [rsims ph]; [exact Hr'|].
        intros r Hin. eapply forallb_idle_none; eassumption.
      + split; cbn [rsims ph]; [exact Hr'|exact I].
  Qed.

  Lemma tick_ms_ok scripts s : sim_ok scripts s -> sim_ok scripts (tick_ms c s).
  Proof. intros [H1 H2]. unfold tick_ms. apply settle_ok. split; assumption. Qed.

  Lemma iter_sim_inv (P : sim -> Prop) (f : sim -> sim) :
    (forall s, P s -> P (f s)) -> forall n s, P s -> P (iter_sim f n s).
  Proof.
    intros Hf n. induction n as [|n IH]; intros s H; cbn [iter_sim]; [exact H|].
    apply IH. apply Hf. exact H.
  Qed.

  Lemma advance_ok scripts n s : sim_ok scripts s -> sim_ok scripts (advance c n s).
  Proof. unfold advance. apply iter_sim_inv. intros s'. apply tick_ms_ok. Qed.

  Lemma start_ok scripts : sim_ok scripts (start c scripts).
  Proof.
    unfold start. apply settle_ok. split; cbn [rsims ph].
    - induction scripts as [|sc t IH]; cbn; constructor; [|exact IH].
      unfold rsim_ok. cbn. repeat split. lia.
    - intros r Hin. apply in_map_iff in Hin. destruct Hin as (sc & <- & _). reflexivity.
  Qed.


  Lemma reach_ok scripts waits : sim_ok scripts (reach c scripts waits).
  Proof.
    unfold reach. apply fold_left_inv; [apply start_ok|]. intros s n. apply advance_ok.
  Qed.

  (* at every observable instant the published state of each resource is the fold of
     apply_result over the effective results of the checks of that resource finished so far *)
  Lemma sim_is_fold scripts waits :
    Forall2 (fun orig r =>
               0 <= r_finished r /\
               r_state r = run_results (fthr c) (sthr c)
                             (map (eff_at c orig) (seq 0 (Z.to_nat (r_finished r)))))
            scripts (rsims (reach c scripts waits)).
  Proof.
    destruct (reach_ok scripts waits) as [H _].
    induction H as [|orig r l l' Hr Hl IH]; constructor; [|exact IH].
    destruct Hr as (H1 & H2 & H3 & _). split; [lia|].
    rewrite H2, Nat2Z.id, <- H3. exact H1.
  Qed.
End Link.

(* ================= non-vacuity ================= *)
Example ex_unhealthy_flip :
  st (run_results 2 2 [Healthy; Healthy; Unhealthy]) = Healthy /\
  st (run_results 2 2 ([Healthy; Healthy; Unhealthy] ++ [Unhealthy])) = Unhealthy.
Proof. split; reflexivity. Qed.
Example ex_unknown_between :
  st (run_results 2 2 [Healthy; Healthy; Unhealthy; Unknown]) = Healthy /\
  st (run_results 2 2 ([Healthy; Healthy; Unhealthy; Unknown] ++ [Unhealthy])) = Unhealthy.
Proof. split; reflexivity. Qed.
Example ex_healthy_flip :
  st (run_results 1 3 [Unhealthy; Degraded; Healthy]) = Degraded /\
  st (run_results 1 3 ([Unhealthy; Degraded; Healthy] ++ [Healthy])) = Healthy.
Proof. split; reflexivity. Qed.
Example ex_hysteresis :
  map (fun k => code (st (run_results 3 2 (firstn k [Unhealthy; Unhealthy; Healthy; Unhealthy; Unhealthy;
                                                      Unhealthy; Healthy; Degraded; Healthy; Healthy]))))
      (seq 0 11) = [3; 3; 3; 3; 3; 3; 2; 2; 1; 0; 0].
Proof. vm_compute. reflexivity. Qed.
Definition ex_rs := [ {| st := Healthy; cf := 0; cs := 1 |}; {| st := Unhealthy; cf := 2; cs := 0 |};
                      {| st := Degraded; cf := 0; cs := 1 |}; {| st := Healthy; cf := 0; cs := 3 |} ].
Example ex_rr_usable :
  map enc_sel (fst (get_many is_usable RoundRobin ex_rs 5 6)) = [3; 0; 2; 3; 0; 2].
Proof. vm_compute. reflexivity. Qed.
Example ex_rr_hyps :
  (0 < length (available is_usable ex_rs))%nat /\ 5 + Z.of_nat (2 * length (available is_usable ex_rs)) <= two64 /\
  map fst (available is_usable ex_rs) = [0; 2; 3]%nat.
Proof. vm_compute. repeat split; try lia; discriminate. Qed.
Example ex_rr_wraps : snd (get_with_filter is_usable RoundRobin ex_rs (two64 - 1)) = 0.
Proof. vm_compute. reflexivity. Qed.
Example ex_none : get_healthy RoundRobin [ {| st := Degraded; cf := 0; cs := 1 |} ] 7 = (None, 7).
Proof. reflexivity. Qed.
Example ex_custom_out_of_range :
  get_usable (Custom (fun _ => Some 1%nat)) [ {| st := Degraded; cf := 0; cs := 1 |} ] 7 = (None, 7).
Proof. reflexivity. Qed.
