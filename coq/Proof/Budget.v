(* Proofs about Model/Budget.v: generic facts of the atomic-step machine (case analysis of a
   step, an invariant rule, the real-time structure of the log of completed operations),
   then the token bucket (bounds, conservation, linearizability), the AIMD budget
   (bounds, conservation, ceiling in bounds) and the refutation of the pinned deposit. *)
From TR Require Import Lib.Base Model.Budget.
From Coq Require Import Permutation Sorted.

Lemma mset_same m l v : mset m l v l = v.
Proof. unfold mset. destruct l; reflexivity. Qed.

Lemma mset_other m l l' v : l <> l' -> mset m l v l' = m l'.
Proof. unfold mset. destruct l, l'; cbn; intros H; try reflexivity; exfalso; apply H; reflexivity. Qed.

(* ------------------------------------------------------------------------- *)
Section SetNth.
  Context {A : Type}.

  Lemma set_nth_length (n : nat) (x : A) l : length (set_nth n x l) = length l.
  Proof. revert n; induction l as [|a t IH]; intros [|n]; cbn; auto. Qed.

  Lemma nth_error_set_nth_same (n : nat) (x y : A) l :
    nth_error l n = Some y -> nth_error (set_nth n x l) n = Some x.
  Proof.
    revert n; induction l as [|a t IH]; intros [|n]; cbn; intros H; try discriminate; auto.
  Qed.

  Lemma nth_error_set_nth_other (n k : nat) (x : A) l :
    n <> k -> nth_error (set_nth n x l) k = nth_error l k.
  Proof.
    revert n k; induction l as [|a t IH]; intros [|n] [|k] H; cbn; auto.
    exfalso; apply H; reflexivity.
  Qed.

  Lemma Forall_set_nth (Q : A -> Prop) (n : nat) (x : A) l :
    Forall Q l -> Q x -> Forall Q (set_nth n x l).
  Proof.
    intros H Hx; revert n; induction H as [|a t Ha Ht IH]; intros [|n]; cbn; constructor; auto.
  Qed.

  Lemma In_set_nth (n : nat) (x y : A) l : In y (set_nth n x l) -> y = x \/ In y l.
  Proof.
    revert n; induction l as [|a t IH]; intros [|n]; cbn; try tauto.
    - intros [H|H]; auto.
    - intros [H|H]; auto. destruct (IH _ H); auto.
  Qed.
End SetNth.

Lemma Forall_nth_error {A} (Q : A -> Prop) l n x : Forall Q l -> nth_error l n = Some x -> Q x.
Proof. intros H E. apply nth_error_In in E. rewrite Forall_forall in H. auto. Qed.

(* ------------------------------------------------------------------------- *)
Section MachineProofs.
  Context {PC CALL : Type} (P : prog PC CALL).
  Notation state := (state PC CALL).
  Notation thread := (thread PC CALL).
  Notation orec := (orec CALL).

  Definition cont_state (s : state) (e : nat * bool) (t : thread) (c : cur PC CALL)
             (rest : list CALL) (m' : mem) (pc' : PC) : state :=
    {| st_mem := m';
       st_thr := set_nth (fst e)
                   {| th_calls := rest;
                      th_cur := Some {| c_call := c_call c; c_pc := pc'; c_first := c_first c |};
                      th_steps := th_steps t + 1 |} (st_thr s);
       st_log := st_log s;
       st_clock := st_clock s + 1 |}.

  Definition done_state (s : state) (e : nat * bool) (t : thread) (c : cur PC CALL)
             (rest : list CALL) (m' : mem) (ret : Z) : state :=
    {| st_mem := m';
       st_thr := set_nth (fst e)
                   {| th_calls := rest; th_cur := None; th_steps := th_steps t + 1 |} (st_thr s);
       st_log := {| r_tid := fst e; r_call := c_call c; r_ret := ret;
                    r_first := c_first c; r_res := st_clock s |} :: st_log s;
       st_clock := st_clock s + 1 |}.

  (* case analysis of one step *)
  Lemma step_cases (s : state) (e : nat * bool) (Q : state -> Prop) :
    Q (tick s) ->
    (forall t c rest pc',
        nth_error (st_thr s) (fst e) = Some t ->
        begin_op P (st_clock s) t = Some (c, rest) ->
        p_next P (c_pc c) (o_val (exec (st_mem s) (p_op P (c_pc c)) (snd e)))
               (o_ok (exec (st_mem s) (p_op P (c_pc c)) (snd e))) = inl pc' ->
        Q (cont_state s e t c rest (o_mem (exec (st_mem s) (p_op P (c_pc c)) (snd e))) pc')) ->
    (forall t c rest ret,
        nth_error (st_thr s) (fst e) = Some t ->
        begin_op P (st_clock s) t = Some (c, rest) ->
        p_next P (c_pc c) (o_val (exec (st_mem s) (p_op P (c_pc c)) (snd e)))
               (o_ok (exec (st_mem s) (p_op P (c_pc c)) (snd e))) = inr ret ->
        Q (done_state s e t c rest (o_mem (exec (st_mem s) (p_op P (c_pc c)) (snd e))) ret)) ->
    Q (step P s e).
  Proof.
    intros Hskip Hcont Hdone. unfold step, step1.
    destruct (nth_error (st_thr s) (fst e)) as [t|] eqn:Et; [|exact Hskip].
    destruct (begin_op P (st_clock s) t) as [[c rest]|] eqn:Eb; [|exact Hskip].
    destruct (p_next P (c_pc c) _ _) as [pc'|ret] eqn:En; cbn [fst].
    - eapply Hcont; eauto.
    - eapply Hdone; eauto.
  Qed.

  Lemma begin_op_cases clock (t : thread) c rest :
    begin_op P clock t = Some (c, rest) ->
    (th_cur t = Some c /\ rest = th_calls t) \/
    (th_cur t = None /\ exists k, th_calls t = k :: rest /\
                                  c = {| c_call := k; c_pc := p_start P k; c_first := clock |}).
  Proof.
    unfold begin_op. destruct (th_cur t) as [c0|].
    - intros H; inversion H; subst; left; auto.
    - destruct (th_calls t) as [|k r]; [discriminate|].
      intros H; inversion H; subst. right. split; auto. exists k; auto.
  Qed.

  Lemma wsum_set_nth (w : PC -> Z) n (t t' : thread) l :
    nth_error l n = Some t -> wsum w (set_nth n t' l) = wsum w l - wt w t + wt w t'.
  Proof.
    revert n; induction l as [|a r IH]; intros [|n]; cbn; intros H; try discriminate.
    - inversion H; subst. lia.
    - rewrite (IH _ H). lia.
  Qed.

  Lemma wsum_init (w : PC -> Z) progs : wsum w (map (@mk_thread PC CALL) progs) = 0.
  Proof. induction progs as [|p r IH]; cbn; auto. Qed.

  Lemma wsum_quiescent (w : PC -> Z) (s : state) : quiescent s -> wsum w (st_thr s) = 0.
  Proof.
    unfold quiescent. induction (st_thr s) as [|t r IH]; cbn; intros H; auto.
    unfold wt. rewrite (H t (or_introl eq_refl)). rewrite IH; auto.
  Qed.

  (* ---- invariant rule: a global predicate over (memory, log, weighted count of program
     points) and a local predicate over (call, program point) of every thread ---- *)
  Section InvRule.
    Context (G : mem -> list orec -> Z -> Prop) (L : CALL -> PC -> Prop) (w : PC -> Z).

    Definition thread_ok (t : thread) : Prop :=
      forall c, th_cur t = Some c -> L (c_call c) (c_pc c).

    Definition inv (s : state) : Prop :=
      G (st_mem s) (st_log s) (wsum w (st_thr s)) /\ Forall thread_ok (st_thr s).

    Context (start_ok : forall k, L k (p_start P k))
            (start_w : forall k, w (p_start P k) = 0)
            (step_ok : forall m log W call pc sp tid first clock,
                G m log W -> L call pc ->
                match p_next P pc (o_val (exec m (p_op P pc) sp)) (o_ok (exec m (p_op P pc) sp)) with
                | inl pc' => G (o_mem (exec m (p_op P pc) sp)) log (W - w pc + w pc') /\ L call pc'
                | inr ret => G (o_mem (exec m (p_op P pc) sp))
                               ({| r_tid := tid; r_call := call; r_ret := ret;
                                   r_first := first; r_res := clock |} :: log) (W - w pc)
                end).

    Lemma inv_begin (s : state) n t c rest :
      inv s -> nth_error (st_thr s) n = Some t -> begin_op P (st_clock s) t = Some (c, rest) ->
      L (c_call c) (c_pc c) /\ wt w t = w (c_pc c).
    Proof.
      intros [_ Hth] Et Eb. pose proof (Forall_nth_error _ _ _ _ Hth Et) as Ht.
      destruct (begin_op_cases _ _ _ _ Eb) as [[Ec _]|[Ec [k [_ Hc]]]].
      - split; [apply Ht; auto|]. unfold wt. rewrite Ec. reflexivity.
      - subst c; cbn. split; [apply start_ok|]. unfold wt. rewrite Ec. symmetry. apply start_w.
    Qed.

    Lemma inv_step (s : state) (e : nat * bool) : inv s -> inv (step P s e).
    Proof.
      intros Hi. apply step_cases.
      - exact Hi.
      - intros t c rest pc' Et Eb En.
        destruct (inv_begin _ _ _ _ _ Hi Et Eb) as [HL Hw]. destruct Hi as [HG Hth].
        pose proof (step_ok _ _ _ _ _ (snd e) (fst e) (c_first c) (st_clock s) HG HL) as H.
        rewrite En in H. destruct H as [HG' HL'].
        split; cbn.
        + rewrite (wsum_set_nth _ _ _ _ _ Et). unfold wt at 2; cbn. rewrite Hw.
          exact HG'.
        + apply Forall_set_nth; auto. intros c0 E0; cbn in E0. inversion E0; subst; cbn. exact HL'.
      - intros t c rest ret Et Eb En.
        destruct (inv_begin _ _ _ _ _ Hi Et Eb) as [HL Hw]. destruct Hi as [HG Hth].
        pose proof (step_ok _ _ _ _ _ (snd e) (fst e) (c_first c) (st_clock s) HG HL) as H.
        rewrite En in H.
        split; cbn.
        + rewrite (wsum_set_nth _ _ _ _ _ Et). unfold wt at 2; cbn. rewrite Hw.
          replace (wsum w (st_thr s) - w (c_pc c) + 0) with (wsum w (st_thr s) - w (c_pc c)) by lia.
          exact H.
        + apply Forall_set_nth; auto. intros c0 E0; cbn in E0. discriminate.
    Qed.

    Lemma inv_init m progs : G m [] 0 -> inv (init_state m progs).
    Proof.
      intros H; split; cbn.
      - rewrite wsum_init. exact H.
      - apply Forall_forall. intros t Ht. apply in_map_iff in Ht. destruct Ht as [p [<- _]].
        intros c E; cbn in E; discriminate.
    Qed.

    Lemma inv_reach m progs sched :
      G m [] 0 -> Forall inv (states (step P) (init_state m progs) sched).
    Proof. intros H. apply reach_inv; [apply inv_init; exact H|intros s e; apply inv_step]. Qed.
  End InvRule.

  (* ---- real-time structure of the log ---- *)
  Definition newer (a b : orec) : Prop := r_res b < r_res a.

  Definition tinv (s : state) : Prop :=
    Forall (fun r => r_first r <= r_res r /\ r_res r < st_clock s) (st_log s)
    /\ StronglySorted newer (st_log s)
    /\ Forall (fun t => forall c, th_cur t = Some c -> c_first c <= st_clock s) (st_thr s).

  Lemma tinv_step (s : state) e : tinv s -> tinv (step P s e).
  Proof.
    intros (Hl & Hs & Ht).
    assert (Hl' : Forall (fun r => r_first r <= r_res r /\ r_res r < st_clock s + 1) (st_log s)).
    { eapply Forall_impl; [|exact Hl]. cbn; intros r [? ?]; lia. }
    assert (Ht' : Forall (fun t => forall c, th_cur t = Some c -> c_first c <= st_clock s + 1)
                         (st_thr s)).
    { eapply Forall_impl; [|exact Ht]. cbn; intros t H c E. specialize (H c E). lia. }
    assert (Hb : forall t c rest, nth_error (st_thr s) (fst e) = Some t ->
                                  begin_op P (st_clock s) t = Some (c, rest) ->
                                  c_first c <= st_clock s).
    { intros t c rest Et Eb. pose proof (Forall_nth_error _ _ _ _ Ht Et) as H.
      destruct (begin_op_cases _ _ _ _ Eb) as [[Ec _]|[Ec [k [_ Hc]]]]; [auto|subst c; cbn; lia]. }
    apply step_cases.
    - split; [|split]; cbn; auto.
    - intros t c rest pc' Et Eb _. split; [|split]; cbn; auto.
      apply Forall_set_nth; auto. intros c0 E0; cbn in E0; inversion E0; subst; cbn.
      specialize (Hb _ _ _ Et Eb). lia.
    - intros t c rest ret Et Eb _. specialize (Hb _ _ _ Et Eb). split; [|split]; cbn.
      + constructor; [cbn; lia|exact Hl'].
      + constructor; [exact Hs|]. eapply Forall_impl; [|exact Hl]. unfold newer; cbn. intros r [? ?]; lia.
      + apply Forall_set_nth; auto. intros c0 E0; cbn in E0; discriminate.
  Qed.

  Lemma tinv_init m progs : tinv (init_state m progs).
  Proof.
    split; [|split]; cbn; try constructor.
    apply Forall_forall. intros t Ht. apply in_map_iff in Ht. destruct Ht as [p [<- _]].
    intros c E; cbn in E; discriminate.
  Qed.

  Lemma tinv_reach m progs sched : Forall tinv (states (step P) (init_state m progs) sched).
  Proof. apply reach_inv; [apply tinv_init|intros s e; apply tinv_step]. Qed.

  (* in a list sorted newest-first, an operation that responded before another one took
     its first step sits at a larger index; in the reversed list at a smaller one *)
  Lemma sorted_nth_le (l : list orec) :
    StronglySorted newer l ->
    forall i j a b, nth_error l i = Some a -> nth_error l j = Some b -> (i <= j)%nat ->
                    r_res b <= r_res a.
  Proof.
    induction 1 as [|x l Hs IH Hf]; intros i j a b Ea Eb Hij.
    - destruct i; discriminate.
    - destruct i as [|i], j as [|j]; cbn in *.
      + inversion Ea; inversion Eb; subst; lia.
      + inversion Ea; subst. apply nth_error_In in Eb. rewrite Forall_forall in Hf.
        specialize (Hf _ Eb). unfold newer in Hf. lia.
      + lia.
      + eapply IH; eauto. lia.
  Qed.

  Lemma realtime_order (s : state) :
    tinv s ->
    forall i j a b, nth_error (rev (st_log s)) i = Some a -> nth_error (rev (st_log s)) j = Some b ->
                    r_res a < r_first b -> (i < j)%nat.
  Proof.
    intros (Hl & Hs & _) i j a b Ea Eb Hab.
    assert (Hi : (i < length (st_log s))%nat).
    { rewrite <- rev_length. apply nth_error_Some. rewrite Ea; discriminate. }
    assert (Hj : (j < length (st_log s))%nat).
    { rewrite <- rev_length. apply nth_error_Some. rewrite Eb; discriminate. }
    rewrite nth_error_nth' with (d := a) in Ea by (rewrite rev_length; exact Hi).
    rewrite nth_error_nth' with (d := a) in Eb by (rewrite rev_length; exact Hj).
    rewrite rev_nth in Ea by exact Hi. rewrite rev_nth in Eb by exact Hj.
    inversion Ea as [Ea']; inversion Eb as [Eb']; clear Ea Eb.
    destruct (Nat.lt_ge_cases i j) as [|Hge]; [assumption|exfalso].
    (* j <= i: b is at an index <= a's in the reversed list, i.e. >= in the log *)
    assert (Hb : r_first b <= r_res b).
    { rewrite Forall_forall in Hl. apply Hl. rewrite <- Eb'. apply nth_In. lia. }
    assert (r_res b <= r_res a).
    { apply (sorted_nth_le _ Hs (length (st_log s) - S i) (length (st_log s) - S j) a b).
      - rewrite <- Ea'. apply nth_error_nth'. lia.
      - rewrite <- Eb'. apply nth_error_nth'. lia.
      - lia. }
    lia.
  Qed.

  (* ---- program order: per thread, the completed operations (in log order), the call in
     progress and the calls not yet begun make up the thread's program ---- *)
  Definition cur_calls (t : thread) : list CALL :=
    match th_cur t with Some c => [c_call c] | None => [] end.
  Definition done_calls (tid : nat) (log : list orec) : list CALL :=
    map r_call (filter (fun r => Nat.eqb (r_tid r) tid) (rev log)).

  Definition hinv (progs : list (list CALL)) (s : state) : Prop :=
    forall tid t, nth_error (st_thr s) tid = Some t ->
                  done_calls tid (st_log s) ++ cur_calls t ++ th_calls t = nth tid progs [].

  Lemma begin_op_calls clock (t : thread) c rest :
    begin_op P clock t = Some (c, rest) -> cur_calls t ++ th_calls t = c_call c :: rest.
  Proof.
    intros Eb. destruct (begin_op_cases _ _ _ _ Eb) as [[Ec ->]|[Ec [k [Hk Hc]]]]; unfold cur_calls; rewrite Ec.
    - reflexivity.
    - subst c; cbn. exact Hk.
  Qed.

  Lemma done_calls_cons_other tid x log :
    r_tid x <> tid -> done_calls tid (x :: log) = done_calls tid log.
  Proof.
    intros H. unfold done_calls. cbn [rev]. rewrite filter_app, map_app. cbn.
    destruct (Nat.eqb_spec (r_tid x) tid); [contradiction|]. cbn. apply app_nil_r.
  Qed.

  Lemma done_calls_cons_same tid x log :
    r_tid x = tid -> done_calls tid (x :: log) = done_calls tid log ++ [r_call x].
  Proof.
    intros H. unfold done_calls. cbn [rev]. rewrite filter_app, map_app. cbn.
    destruct (Nat.eqb_spec (r_tid x) tid); [|contradiction]. reflexivity.
  Qed.

  Lemma hinv_step progs (s : state) e : hinv progs s -> hinv progs (step P s e).
  Proof.
    intros H. apply step_cases.
    - exact H.
    - intros t c rest pc' Et Eb _ tid t' Et'. cbn in Et'.
      destruct (Nat.eq_dec (fst e) tid) as [<-|Hne].
      + rewrite (nth_error_set_nth_same _ _ _ _ Et) in Et'. inversion Et'; subst t'.
        unfold cur_calls; cbn [th_cur th_calls c_call st_log cont_state app].
        rewrite <- (H _ _ Et), (begin_op_calls _ _ _ _ Eb). reflexivity.
      + rewrite nth_error_set_nth_other in Et' by exact Hne. apply H; exact Et'.
    - intros t c rest ret Et Eb _ tid t' Et'. cbn in Et'. cbn [st_log done_state].
      destruct (Nat.eq_dec (fst e) tid) as [<-|Hne].
      + rewrite (nth_error_set_nth_same _ _ _ _ Et) in Et'. inversion Et'; subst t'.
        rewrite done_calls_cons_same by reflexivity. unfold cur_calls; cbn [th_cur th_calls r_call app].
        rewrite <- (H _ _ Et), (begin_op_calls _ _ _ _ Eb), <- app_assoc. reflexivity.
      + rewrite nth_error_set_nth_other in Et' by exact Hne.
        rewrite done_calls_cons_other by exact Hne. apply H; exact Et'.
  Qed.

  Lemma hinv_init m progs : hinv progs (init_state m progs).
  Proof.
    intros tid t Et. cbn in Et. rewrite nth_error_map in Et.
    destruct (nth_error progs tid) as [p|] eqn:Ep; [|discriminate]. inversion Et; subst t; cbn.
    symmetry. apply nth_error_nth. exact Ep.
  Qed.

  Lemma hinv_reach m progs sched :
    Forall (hinv progs) (states (step P) (init_state m progs) sched).
  Proof. apply reach_inv; [apply hinv_init|intros s e; apply hinv_step]. Qed.

  (* ---- draining is running: the final state of a script is a reachable state ---- *)
  Lemma drain_thread_run fuel (s : state) tid :
    exists sched, drain_thread P fuel s tid = fold_left (step P) sched s.
  Proof.
    revert s; induction fuel as [|f IH]; intros s; cbn.
    - exists []; reflexivity.
    - destruct (nth_error (st_thr s) tid) as [t|]; [|exists []; reflexivity].
      destruct (th_finished t); [exists []; reflexivity|].
      destruct (IH (step P s (tid, false))) as [sch E]. exists ((tid, false) :: sch). exact E.
  Qed.

  Lemma drain_run fuel n (s : state) :
    exists sched, drain P fuel n s = fold_left (step P) sched s.
  Proof.
    unfold drain. generalize (seq 0 n) as l. intros l; revert s.
    induction l as [|t r IH]; intros s; cbn.
    - exists []; reflexivity.
    - destruct (drain_thread_run fuel s t) as [s1 E1]. destruct (IH (drain_thread P fuel s t)) as [s2 E2].
      exists (s1 ++ s2). rewrite fold_left_app, <- E1. exact E2.
  Qed.

  Lemma run_trace_state snap (s : state) sched :
    fst (run_trace P snap s sched) = fold_left (step P) sched s.
  Proof.
    revert s; induction sched as [|e t IH]; intros s; cbn; auto.
    unfold step at 2. destruct (step1 P s e) as [s' c] eqn:E1.
    specialize (IH s'). destruct (run_trace P snap s' t) as [s'' tr]. cbn in *. exact IH.
  Qed.
End MachineProofs.

(* ------------------------------------------------------------------------- *)
(* sequential replay, one more operation at the end *)
Lemma seq_run_snoc {C : Type} (f : Z -> C -> Z * Z) b cs c :
  seq_run f b (cs ++ [c]) =
  (fst (seq_run f b cs) ++ [fst (f (snd (seq_run f b cs)) c)],
   snd (f (snd (seq_run f b cs)) c)).
Proof.
  revert b; induction cs as [|x t IH]; intros b; cbn.
  - destruct (f b c); reflexivity.
  - destruct (f b x) as [r b']. rewrite IH. destruct (seq_run f b' t) as [rs bf]; cbn. reflexivity.
Qed.

Lemma sat_add_le a b : sat_add a b <= a + b.
Proof. unfold sat_add. lia. Qed.

Lemma sat_add_nonneg a b : 0 <= a -> 0 <= b -> 0 <= sat_add a b.
Proof. unfold sat_add, U64MAX. lia. Qed.

(* ------------------------------------------------------------------------- *)
(* token bucket. [maxs] = max_tokens * 1000, [init0] = initial_tokens * 1000 *)
Ltac slia := unfold SCALE, U64MAX in *; lia.

Section TokenBucket.
  Context (maxs init0 : Z) (Hmax : 0 <= maxs) (Hinit : 0 <= init0).

  Definition tb_lin (m : mem) (log : list (orec tb_call)) : Prop :=
    seq_run (tb_seq maxs) init0 (map r_call (rev log)) = (map r_ret (rev log), m LTok).

  Definition tb_G (m : mem) (log : list (orec tb_call)) (W : Z) : Prop :=
    0 <= m LTok <= Z.max init0 maxs
    /\ countz tb_is_grant log * SCALE + m LTok <= init0 + countz tb_is_deposit log * SCALE
    /\ tb_lin m log.

  Definition tb_L (call : tb_call) (pc : tb_pc) : Prop :=
    match pc with
    | TwLoad => call = TbWithdraw
    | TwCas c => call = TbWithdraw /\ SCALE <= c
    | TdLoad | TdCas _ => call = TbDeposit
    | TbLoad => call = TbBalance
    end.

  Lemma tb_lin_cons m m' log x :
    tb_lin m log ->
    tb_seq maxs (m LTok) (r_call x) = (r_ret x, m' LTok) ->
    tb_lin m' (x :: log).
  Proof.
    unfold tb_lin; intros H Hx. cbn [rev]. rewrite !map_app. cbn [map].
    rewrite seq_run_snoc, H. cbn [fst snd]. rewrite Hx. reflexivity.
  Qed.

  Lemma tb_lin_same m m' log : tb_lin m log -> m' LTok = m LTok -> tb_lin m' log.
  Proof. unfold tb_lin; intros H E. rewrite E. exact H. Qed.

  Lemma tb_dep_bounds p : 0 <= p -> 0 <= tb_dep maxs p <= maxs /\ tb_dep maxs p <= p + SCALE.
  Proof. intros Hp. unfold tb_dep, sat_add, U64MAX, SCALE. lia. Qed.

  Lemma tb_grant_cons tid call ret first clock (log : list (orec tb_call)) :
    countz tb_is_grant ({| r_tid := tid; r_call := call; r_ret := ret; r_first := first;
                           r_res := clock |} :: log)
    = b2z (match call with TbWithdraw => ret =? 1 | _ => false end) + countz tb_is_grant log.
  Proof. reflexivity. Qed.

  Lemma tb_deposit_cons tid call ret first clock (log : list (orec tb_call)) :
    countz tb_is_deposit ({| r_tid := tid; r_call := call; r_ret := ret; r_first := first;
                             r_res := clock |} :: log)
    = b2z (match call with TbDeposit => true | _ => false end) + countz tb_is_deposit log.
  Proof. reflexivity. Qed.

  Lemma tb_step_ok :
    forall m log W call pc sp tid first clock,
      tb_G m log W -> tb_L call pc ->
      match p_next (tb_prog maxs) pc (o_val (exec m (p_op (tb_prog maxs) pc) sp))
                   (o_ok (exec m (p_op (tb_prog maxs) pc) sp)) with
      | inl pc' => tb_G (o_mem (exec m (p_op (tb_prog maxs) pc) sp)) log (W - 0 + 0) /\ tb_L call pc'
      | inr ret => tb_G (o_mem (exec m (p_op (tb_prog maxs) pc) sp))
                        ({| r_tid := tid; r_call := call; r_ret := ret;
                            r_first := first; r_res := clock |} :: log) (W - 0)
      end.
  Proof.
    intros m log W call pc sp tid first clock (Hb & Hc & Hl) HL.
    destruct pc as [|c| |p|]; unfold tb_L in HL;
      cbn [tb_prog p_next p_op tb_op tb_next exec o_val o_ok o_mem] in *.
    - (* try_withdraw: load *)
      subst call. destruct (Z.ltb_spec (m LTok) SCALE) as [Hlt|Hge].
      + split; [exact Hb|split].
        * rewrite tb_grant_cons, tb_deposit_cons; cbn [b2z Z.eqb Pos.eqb]; slia.
        * eapply tb_lin_cons; [exact Hl|]. cbn.
          destruct (Z.ltb_spec (m LTok) SCALE); [reflexivity|slia].
      + split; [split; [exact Hb|split; [exact Hc|exact Hl]]|]. cbn. auto.
    - (* try_withdraw: cas *)
      destruct HL as [-> Hsc].
      destruct ((m LTok =? c) && negb sp) eqn:E; cbn [o_val o_ok o_mem].
      + apply andb_prop in E. destruct E as [E _]. apply Z.eqb_eq in E.
        split; [|split].
        * rewrite mset_same. slia.
        * rewrite mset_same. rewrite tb_grant_cons, tb_deposit_cons; cbn [b2z Z.eqb Pos.eqb]; slia.
        * eapply tb_lin_cons; [exact Hl|]. cbn. rewrite ?mset_same.
          destruct (Z.ltb_spec (m LTok) SCALE); [slia|]. rewrite E. reflexivity.
      + split; [split; [exact Hb|split; [exact Hc|exact Hl]]|]. cbn. reflexivity.
    - (* deposit: load *)
      split; [split; [exact Hb|split; [exact Hc|exact Hl]]|]. cbn. exact HL.
    - (* deposit: cas *)
      cbn in HL. subst call.
      destruct ((m LTok =? p) && negb sp) eqn:E; cbn [o_val o_ok o_mem].
      + apply andb_prop in E. destruct E as [E _]. apply Z.eqb_eq in E.
        destruct (tb_dep_bounds p) as [Hd1 Hd2]; [slia|].
        split; [|split].
        * rewrite mset_same. slia.
        * rewrite mset_same. rewrite tb_grant_cons, tb_deposit_cons; cbn [b2z Z.eqb Pos.eqb]; slia.
        * eapply tb_lin_cons; [exact Hl|]. cbn. rewrite ?mset_same, E. reflexivity.
      + split; [split; [exact Hb|split; [exact Hc|exact Hl]]|]. cbn. reflexivity.
    - (* balance *)
      cbn in HL. subst call. split; [exact Hb|split].
      + rewrite tb_grant_cons, tb_deposit_cons; cbn [b2z Z.eqb Pos.eqb]; slia.
      + eapply tb_lin_cons; [exact Hl|]. cbn. reflexivity.
  Qed.

  Definition tb_inv := inv (PC := tb_pc) tb_G tb_L (fun _ => 0).

  Lemma tb_inv_step s e : tb_inv s -> tb_inv (step (tb_prog maxs) s e).
  Proof.
    apply inv_step.
    - intros k; destruct k; cbn; auto.
    - reflexivity.
    - exact tb_step_ok.
  Qed.
End TokenBucket.

Lemma tb_reach maxs init0 progs sched :
  0 <= maxs -> 0 <= init0 ->
  Forall (tb_inv maxs init0)
         (states (step (tb_prog maxs)) (init_state (tb_mem0 init0) progs) sched).
Proof.
  intros Hm Hi. apply reach_inv.
  - apply inv_init. split; [|split]; cbn; [lia|lia|reflexivity].
  - intros s e. apply tb_inv_step; assumption.
Qed.

(* ---- step level: any (scaled) maximum and any (scaled) initial balance ---- *)
Lemma tb_conservation_steps :
  forall (maxs init0 : Z) (progs : list (list tb_call)) (sched : list (nat * bool)),
    0 <= maxs -> 0 <= init0 ->
    Forall (fun s => tb_grants s * SCALE + st_mem s LTok <= init0 + tb_deposits s * SCALE)
           (states (step (tb_prog maxs)) (init_state (tb_mem0 init0) progs) sched).
Proof.
  intros maxs init0 progs sched Hm Hi.
  eapply Forall_impl; [|apply tb_reach; assumption].
  intros s [(_ & Hc & _) _]. exact Hc.
Qed.

Lemma tb_balance_steps :
  forall (maxs init0 : Z) (progs : list (list tb_call)) (sched : list (nat * bool)),
    0 <= maxs -> 0 <= init0 ->
    Forall (fun s => 0 <= st_mem s LTok <= Z.max init0 maxs
                     /\ (init0 <= maxs -> st_mem s LTok <= maxs))
           (states (step (tb_prog maxs)) (init_state (tb_mem0 init0) progs) sched).
Proof.
  intros maxs init0 progs sched Hm Hi.
  eapply Forall_impl; [|apply tb_reach; assumption].
  intros s [(Hb & _ & _) _]. split; [exact Hb|lia].
Qed.

(* linearizability: the completed operations, in the order of their completing step, are a
   sequential history with the same return values and the same balance, and that order
   respects real time (a response before another operation's first step) *)
Lemma tb_linearizable_steps :
  forall (maxs init0 : Z) (progs : list (list tb_call)) (sched : list (nat * bool)),
    0 <= maxs -> 0 <= init0 ->
    Forall (fun s =>
              exists lin : list (orec tb_call),
                Permutation lin (st_log s)
                /\ (forall i j a b, nth_error lin i = Some a -> nth_error lin j = Some b ->
                                    r_res a < r_first b -> (i < j)%nat)
                /\ seq_run (tb_seq maxs) init0 (map r_call lin) = (map r_ret lin, st_mem s LTok))
           (states (step (tb_prog maxs)) (init_state (tb_mem0 init0) progs) sched).
Proof.
  intros maxs init0 progs sched Hm Hi.
  pose proof (Forall_and (tb_reach maxs init0 progs sched Hm Hi)
                         (tinv_reach (tb_prog maxs) (tb_mem0 init0) progs sched)) as H.
  eapply Forall_impl; [|exact H].
  intros s [[(_ & _ & Hl) _] Ht]. exists (rev (st_log s)). split; [|split].
  - apply Permutation_sym, Permutation_rev.
  - apply realtime_order. exact Ht.
  - exact Hl.
Qed.

(* ---- the constructor TokenBucketBudget::new: saturating scale, initial clamped to max ---- *)
Lemma sat_mul_bounds a : 0 <= a -> 0 <= sat_mul a SCALE <= a * SCALE /\ sat_mul a SCALE <= U64MAX.
Proof. intros H. unfold sat_mul, SCALE, U64MAX. lia. Qed.

Lemma tb_new_facts maxt initial :
  0 <= maxt -> 0 <= initial ->
  0 <= tb_maxs maxt <= maxt * SCALE
  /\ tb_maxs maxt <= U64MAX
  /\ 0 <= tb_init maxt initial <= tb_maxs maxt
  /\ tb_init maxt initial <= Z.min initial maxt * SCALE.
Proof.
  intros Hm Hi. unfold tb_init, tb_maxs.
  pose proof (sat_mul_bounds maxt Hm). pose proof (sat_mul_bounds initial Hi). slia.
Qed.

(* the balance the constructor stores is exactly initial*1000 when that is representable and
   below the maximum (ordinary configurations) *)
Lemma tb_init_ordinary maxt initial :
  0 <= initial <= maxt -> maxt * SCALE <= U64MAX ->
  tb_maxs maxt = maxt * SCALE /\ tb_init maxt initial = initial * SCALE.
Proof. intros H1 H2. unfold tb_init, tb_maxs, sat_mul. slia. Qed.

Lemma tb_conservation :
  forall (maxt initial : Z) (progs : list (list tb_call)) (sched : list (nat * bool)),
    0 <= maxt -> 0 <= initial ->
    Forall (fun s =>
              tb_grants s * SCALE + st_mem s LTok <= tb_init maxt initial + tb_deposits s * SCALE
              /\ tb_grants s + st_mem s LTok / SCALE <= Z.min initial maxt + tb_deposits s
              /\ tb_grants s + st_mem s LTok / SCALE <= initial + tb_deposits s)
           (states (step (tb_new_prog maxt)) (init_state (tb_new_mem maxt initial) progs) sched).
Proof.
  intros maxt initial progs sched Hm Hi.
  destruct (tb_new_facts maxt initial Hm Hi) as (Hms & _ & Hin & Hle).
  eapply Forall_impl; [|apply (tb_conservation_steps (tb_maxs maxt) (tb_init maxt initial)); lia].
  cbn beta. intros s Hc. split; [exact Hc|].
  assert (st_mem s LTok / SCALE
          <= Z.min initial maxt + tb_deposits s - tb_grants s).
  { apply Z.div_le_upper_bound; slia. }
  lia.
Qed.

(* the balance NEVER exceeds the configured maximum, whatever initial_tokens was *)
Lemma tb_balance_le_max :
  forall (maxt initial : Z) (progs : list (list tb_call)) (sched : list (nat * bool)),
    0 <= maxt -> 0 <= initial ->
    Forall (fun s =>
              0 <= st_mem s LTok <= tb_maxs maxt
              /\ st_mem s LTok <= maxt * SCALE
              /\ 0 <= st_mem s LTok / SCALE <= maxt)
           (states (step (tb_new_prog maxt)) (init_state (tb_new_mem maxt initial) progs) sched).
Proof.
  intros maxt initial progs sched Hm Hi.
  destruct (tb_new_facts maxt initial Hm Hi) as (Hms & _ & Hin & _).
  eapply Forall_impl; [|apply (tb_balance_steps (tb_maxs maxt) (tb_init maxt initial)); lia].
  cbn beta. intros s [Hb Hc]. specialize (Hc (proj2 Hin)).
  assert (H2 : st_mem s LTok / SCALE <= maxt) by (apply Z.div_le_upper_bound; slia).
  assert (H3 : 0 <= st_mem s LTok / SCALE) by (apply Z.div_pos; slia).
  lia.
Qed.

Lemma tb_linearizable :
  forall (maxt initial : Z) (progs : list (list tb_call)) (sched : list (nat * bool)),
    0 <= maxt -> 0 <= initial ->
    Forall (fun s =>
              exists lin : list (orec tb_call),
                Permutation lin (st_log s)
                /\ (forall i j a b, nth_error lin i = Some a -> nth_error lin j = Some b ->
                                    r_res a < r_first b -> (i < j)%nat)
                /\ seq_run (tb_seq (tb_maxs maxt)) (tb_init maxt initial) (map r_call lin)
                   = (map r_ret lin, st_mem s LTok))
           (states (step (tb_new_prog maxt)) (init_state (tb_new_mem maxt initial) progs) sched).
Proof.
  intros maxt initial progs sched Hm Hi.
  destruct (tb_new_facts maxt initial Hm Hi) as (Hms & _ & Hin & _).
  apply (tb_linearizable_steps (tb_maxs maxt) (tb_init maxt initial)); lia.
Qed.

(* ------------------------------------------------------------------------- *)
(* AimdController update functions *)
Section Controller.
  Context (c : acfg) (dec : Z -> Z)
          (Hmm : a_min c <= a_max c).

  Lemma clampz_bounds x : a_min c <= clampz (a_min c) (a_max c) x <= a_max c.
  Proof.
    unfold clampz. destruct (Z.ltb_spec x (a_min c)); [lia|].
    destruct (Z.ltb_spec (a_max c) x); lia.
  Qed.

  Lemma ctl_fail_bounds x : a_min c <= ctl_fail c dec x <= a_max c.
  Proof. unfold ctl_fail. lia. Qed.

  Lemma ctl_succ_bounds x :
    0 <= a_inc c -> a_max c <= U64MAX -> a_min c <= x -> a_min c <= ctl_succ c x <= a_max c.
  Proof. unfold ctl_succ, sat_add. lia. Qed.

  Lemma ctl_succs_bounds n x :
    0 <= a_inc c -> 0 <= n -> a_max c <= U64MAX -> a_min c <= x ->
    a_min c <= ctl_succs c n x <= a_max c.
  Proof.
    intros Hi Hn Hu Hx. unfold ctl_succs, sat_add, sat_mul.
    assert (0 <= a_inc c * n) by (apply Z.mul_nonneg_nonneg; assumption).
    unfold U64MAX in *. lia.
  Qed.
End Controller.

(* ------------------------------------------------------------------------- *)
(* AIMD budget *)
Section AimdBudget.
  Context (b : bcfg) (dec : Z -> Z).
  Context (Hmin : 0 <= a_min (b_ctl b)) (Hmm : a_min (b_ctl b) <= a_max (b_ctl b))
          (Hu : a_max (b_ctl b) <= U64MAX) (Hinc : 0 <= a_inc (b_ctl b))
          (Hamt : 0 <= b_amt b) (Hw : 0 <= b_w b).

  Definition ab_G (m : mem) (log : list (orec ab_call)) (W : Z) : Prop :=
    0 <= m LTok <= a_max (b_ctl b)
    /\ a_min (b_ctl b) <= m LLim <= a_max (b_ctl b)
    /\ countz ab_is_grant log * b_w b + m LTok
       <= a_max (b_ctl b) + (countz ab_is_deposit log + W) * b_amt b.

  Definition ab_L (call : ab_call) (pc : ab_pc) : Prop :=
    match pc with
    | AwLoad => call = AbWithdraw
    | AwCas c => call = AbWithdraw /\ b_w b <= c
    | AwFLoad | AwFCas _ => call = AbWithdraw
    | AdLim => call = AbDeposit
    | AdLoad ceil | AdCas ceil _ => call = AbDeposit /\ 0 <= ceil <= a_max (b_ctl b)
    | AdSLoad | AdSCas _ => call = AbDeposit
    | AbLoadTok => call = AbBalance
    | AbLoadLim => call = AbMax
    end.

  Lemma ab_grant_cons tid call ret first clock (log : list (orec ab_call)) :
    countz ab_is_grant ({| r_tid := tid; r_call := call; r_ret := ret; r_first := first;
                           r_res := clock |} :: log)
    = b2z (match call with AbWithdraw => ret =? 1 | _ => false end) + countz ab_is_grant log.
  Proof. reflexivity. Qed.

  Lemma ab_deposit_cons tid call ret first clock (log : list (orec ab_call)) :
    countz ab_is_deposit ({| r_tid := tid; r_call := call; r_ret := ret; r_first := first;
                             r_res := clock |} :: log)
    = b2z (match call with AbDeposit => true | _ => false end) + countz ab_is_deposit log.
  Proof. reflexivity. Qed.

  Lemma ab_dep_bounds ceil p :
    0 <= p -> 0 <= ceil -> 0 <= ab_dep b ceil p <= ceil /\ ab_dep b ceil p <= p + b_amt b.
  Proof. intros Hp Hc. unfold ab_dep, sat_add, U64MAX. lia. Qed.

  Ltac ab_cnt := rewrite ab_grant_cons, ab_deposit_cons; cbn [b2z Z.eqb Pos.eqb].

  Lemma ab_step_ok :
    forall m log W call pc sp tid first clock,
      ab_G m log W -> ab_L call pc ->
      match p_next (ab_prog b dec) pc (o_val (exec m (p_op (ab_prog b dec) pc) sp))
                   (o_ok (exec m (p_op (ab_prog b dec) pc) sp)) with
      | inl pc' => ab_G (o_mem (exec m (p_op (ab_prog b dec) pc) sp)) log
                        (W - ab_weight pc + ab_weight pc') /\ ab_L call pc'
      | inr ret => ab_G (o_mem (exec m (p_op (ab_prog b dec) pc) sp))
                        ({| r_tid := tid; r_call := call; r_ret := ret;
                            r_first := first; r_res := clock |} :: log) (W - ab_weight pc)
      end.
  Proof.
    intros m log W call pc sp tid first clock (Hb & Hl & Hc) HL.
    destruct pc as [|c| |p| |ceil|ceil p| |p| |]; unfold ab_L in HL;
      cbn [ab_prog p_next p_op ab_op ab_next exec o_val o_ok o_mem ab_weight] in *.
    - (* try_withdraw: load *)
      subst call. destruct (Z.ltb_spec (m LTok) (b_w b)).
      + split; [|reflexivity]. cbn [ab_weight]; repeat split; try lia.
      + split; [|cbn; split; [reflexivity|lia]]. cbn [ab_weight]; repeat split; try lia.
    - (* try_withdraw: cas *)
      destruct HL as [-> Hsc].
      destruct ((m LTok =? c) && negb sp) eqn:E; cbn [o_val o_ok o_mem].
      + apply andb_prop in E. destruct E as [E _]. apply Z.eqb_eq in E.
        cbn [ab_weight]. split; [|split].
        * rewrite mset_same. lia.
        * rewrite mset_other by discriminate. lia.
        * rewrite mset_same. ab_cnt. lia.
      + split; [|reflexivity]. cbn [ab_weight]; repeat split; try lia.
    - (* record_failure: load *)
      split; [|exact HL]. cbn [ab_weight]; repeat split; try lia.
    - (* record_failure: cas *)
      subst call.
      destruct ((m LLim =? p) && negb sp) eqn:E; cbn [o_val o_ok o_mem].
      + pose proof (ctl_fail_bounds (b_ctl b) dec Hmm p).
        cbn [ab_weight]. split; [|split].
        * rewrite mset_other by discriminate. lia.
        * rewrite mset_same. lia.
        * rewrite mset_other by discriminate. ab_cnt. lia.
      + split; [|reflexivity]. cbn [ab_weight]; repeat split; try lia.
    - (* deposit: read the ceiling *)
      subst call. split; [|cbn; split; [reflexivity|lia]]. cbn [ab_weight]; repeat split; try lia.
    - (* deposit: load tokens *)
      split; [|exact HL]. cbn [ab_weight]; repeat split; try lia.
    - (* deposit: cas tokens *)
      destruct HL as [-> Hceil].
      destruct ((m LTok =? p) && negb sp) eqn:E; cbn [o_val o_ok o_mem].
      + apply andb_prop in E. destruct E as [E _]. apply Z.eqb_eq in E.
        destruct (ab_dep_bounds ceil p) as [Hd1 Hd2]; [lia|lia|].
        cbn [ab_weight]. split; [|reflexivity]. split; [|split].
        * rewrite mset_same. lia.
        * rewrite mset_other by discriminate. lia.
        * rewrite mset_same. lia.
      + split; [|cbn; split; [reflexivity|lia]]. cbn [ab_weight]; repeat split; try lia.
    - (* record_success: load *)
      split; [|exact HL]. cbn [ab_weight]; repeat split; try lia.
    - (* record_success: cas *)
      subst call.
      destruct ((m LLim =? p) && negb sp) eqn:E; cbn [o_val o_ok o_mem].
      + apply andb_prop in E. destruct E as [E _]. apply Z.eqb_eq in E.
        pose proof (ctl_succ_bounds (b_ctl b) Hmm p Hinc Hu).
        cbn [ab_weight]. split; [|split].
        * rewrite mset_other by discriminate. lia.
        * rewrite mset_same. lia.
        * rewrite mset_other by discriminate. ab_cnt. lia.
      + split; [|reflexivity]. cbn [ab_weight]; repeat split; try lia.
    - (* balance() *)
      subst call. cbn [ab_weight]; repeat split; try lia. ab_cnt. lia.
    - (* current_max() *)
      subst call. cbn [ab_weight]; repeat split; try lia. ab_cnt. lia.
  Qed.

  Definition ab_inv := inv (PC := ab_pc) ab_G ab_L ab_weight.

  Lemma ab_inv_step s e : ab_inv s -> ab_inv (step (ab_prog b dec) s e).
  Proof.
    apply inv_step.
    - intros k; destruct k; cbn; auto.
    - intros k; destruct k; reflexivity.
    - exact ab_step_ok.
  Qed.

  Lemma ab_reach progs sched :
    Forall ab_inv (states (step (ab_prog b dec)) (init_state (ab_mem b) progs) sched).
  Proof.
    apply reach_inv.
    - apply inv_init. pose proof (clampz_bounds (b_ctl b) Hmm (a_max (b_ctl b))).
      split; [|split]; cbn; unfold ctl_init; lia.
    - intros s e. apply ab_inv_step.
  Qed.
End AimdBudget.

Lemma ab_cfg_reach (min_b max_b amount w : Z) (dec : Z -> Z) progs sched :
  0 <= min_b <= max_b -> max_b <= U64MAX -> 0 <= amount -> 0 <= w ->
  Forall (ab_inv (ab_cfg min_b max_b amount w))
         (states (step (ab_prog (ab_cfg min_b max_b amount w) dec))
                 (init_state (ab_mem (ab_cfg min_b max_b amount w)) progs) sched).
Proof. intros H1 H2 H3 H4. apply ab_reach; cbn; lia. Qed.

(* grants * withdraw_amount + balance <= initial (= max_budget) + deposits * deposit_amount,
   where a deposit counts from the moment its tokens are added (the compare-exchange on the
   balance), which is before it returns: it still has to raise the ceiling. At quiescence
   these are exactly the completed deposits. *)
Lemma ab_conservation :
  forall (min_b max_b amount w : Z) (dec : Z -> Z) (progs : list (list ab_call))
         (sched : list (nat * bool)),
    0 <= min_b <= max_b -> max_b <= U64MAX -> 0 <= amount -> 0 <= w ->
    Forall (fun s =>
              ab_grants s * w + st_mem s LTok
              <= max_b + (ab_deposits s + ab_deposits_in_effect s) * amount
              /\ (quiescent s -> ab_grants s * w + st_mem s LTok <= max_b + ab_deposits s * amount))
           (states (step (ab_prog (ab_cfg min_b max_b amount w) dec))
                   (init_state (ab_mem (ab_cfg min_b max_b amount w)) progs) sched).
Proof.
  intros min_b max_b amount w dec progs sched H1 H2 H3 H4.
  eapply Forall_impl; [|apply ab_cfg_reach; assumption].
  intros s [(_ & _ & Hc) _]. cbn in Hc. unfold ab_grants, ab_deposits, ab_deposits_in_effect.
  split; [exact Hc|]. intros Hq. rewrite (wsum_quiescent _ _ Hq) in Hc. lia.
Qed.

Lemma ab_balance_le_max :
  forall (min_b max_b amount w : Z) (dec : Z -> Z) (progs : list (list ab_call))
         (sched : list (nat * bool)),
    0 <= min_b <= max_b -> max_b <= U64MAX -> 0 <= amount -> 0 <= w ->
    Forall (fun s => 0 <= st_mem s LTok <= max_b)
           (states (step (ab_prog (ab_cfg min_b max_b amount w) dec))
                   (init_state (ab_mem (ab_cfg min_b max_b amount w)) progs) sched).
Proof.
  intros min_b max_b amount w dec progs sched H1 H2 H3 H4.
  eapply Forall_impl; [|apply ab_cfg_reach; assumption].
  intros s [(Hb & _ & _) _]. exact Hb.
Qed.

Lemma ab_limit_in_bounds :
  forall (min_b max_b amount w : Z) (dec : Z -> Z) (progs : list (list ab_call))
         (sched : list (nat * bool)),
    0 <= min_b <= max_b -> max_b <= U64MAX -> 0 <= amount -> 0 <= w ->
    Forall (fun s => min_b <= st_mem s LLim <= max_b)
           (states (step (ab_prog (ab_cfg min_b max_b amount w) dec))
                   (init_state (ab_mem (ab_cfg min_b max_b amount w)) progs) sched).
Proof.
  intros min_b max_b amount w dec progs sched H1 H2 H3 H4.
  eapply Forall_impl; [|apply ab_cfg_reach; assumption].
  intros s [(_ & Hl & _) _]. exact Hl.
Qed.

(* per thread: completed operations ++ operation in progress ++ calls not begun = its program
   (any program of the machine, any initial memory) *)
Lemma tb_program_order :
  forall (maxs : Z) (m0 : mem) (progs : list (list tb_call)) (sched : list (nat * bool)),
    Forall (fun s => forall tid t, nth_error (st_thr s) tid = Some t ->
                       done_calls tid (st_log s) ++ cur_calls t ++ th_calls t = nth tid progs [])
           (states (step (tb_prog maxs)) (init_state m0 progs) sched).
Proof. intros. apply hinv_reach. Qed.

Lemma ab_program_order :
  forall (b : bcfg) (dec : Z -> Z) (m0 : mem) (progs : list (list ab_call))
         (sched : list (nat * bool)),
    Forall (fun s => forall tid t, nth_error (st_thr s) tid = Some t ->
                       done_calls tid (st_log s) ++ cur_calls t ++ th_calls t = nth tid progs [])
           (states (step (ab_prog b dec)) (init_state m0 progs) sched).
Proof. intros. apply hinv_reach. Qed.

(* the rounding of (x as f64) at the boundaries the generator uses *)
Example r53_samples :
  (r53 (U64MAX - 1), Z.min (r53 U64MAX) U64MAX, r53 (2 ^ 53 + 3), r53 (2 ^ 53 + 1), r53 (2 ^ 63 + 1024),
   dec_q 1 1 (U64MAX - 1), dec_q 1 2 (2 ^ 53 + 3), dec_q 1 1 7, dec_q 3 2 5)
  = (2 ^ 64, U64MAX, 2 ^ 53 + 4, 2 ^ 53, 2 ^ 63, U64MAX, 2 ^ 52 + 2, 7, 7).
Proof. vm_compute. reflexivity. Qed.

(* ------------------------------------------------------------------------- *)
(* Regression witness: with the pinned deposit (load; store) conservation fails.
   Worker 0 deposits, worker 1 withdraws between the deposit's load and store:
   the store overwrites (refunds) the granted withdrawal. *)
Example C08_pinned_refuted :
  exists (maxt initial : Z) (progs : list (list tb_call)) (sched : list (nat * bool)),
    0 <= maxt /\ 0 <= initial /\
    let s := fold_left (step (tbp_prog (maxt * SCALE))) sched (init_state (tb_mem initial) progs) in
    ~ (countz tb_is_grant (st_log s) * SCALE + st_mem s LTok
       <= initial * SCALE + countz tb_is_deposit (st_log s) * SCALE).
Proof.
  exists 5, 2, [[TbDeposit]; [TbWithdraw]], [(0, false); (1, false); (1, false); (0, false)]%nat.
  split; [lia|split; [lia|]]. vm_compute. intros H; apply H; reflexivity.
Qed.

(* the same schedule on the repaired program: the deposit's compare-exchange fails and retries *)
Example repaired_same_schedule :
  let s := fold_left (step (tb_prog (5 * SCALE)))
                     [(0, false); (1, false); (1, false); (0, false); (0, false)]%nat
                     (init_state (tb_mem 2) [[TbDeposit]; [TbWithdraw]]) in
  (st_mem s LTok, tb_grants s, tb_deposits s) = (2000, 1, 1).
Proof. vm_compute. reflexivity. Qed.

(* non-vacuity: a spurious compare_exchange_weak failure is a possible step and is retried *)
Example spurious_failure_retried :
  let s := fold_left (step (tb_prog (5 * SCALE)))
                     [(0, false); (0, true); (0, false); (0, false)]%nat
                     (init_state (tb_mem 2) [[TbWithdraw]]) in
  (st_mem s LTok, map r_ret (st_log s), map (@th_steps _ _) (st_thr s)) = (1000, [1], [4]).
Proof. vm_compute. reflexivity. Qed.

Example aimd_budget_run :
  let b := ab_cfg 1 4 1 1 in
  let s := fold_left (step (ab_prog b (dec_q 1 2)))
                     (map (fun t => (t, false)) [1; 1; 1; 1; 1; 1; 1; 1; 1; 1; 1; 0; 0; 1; 1; 1; 0; 0; 0]%nat)
                     (init_state (ab_mem b) [[AbDeposit]; [AbWithdraw; AbWithdraw; AbWithdraw; AbWithdraw; AbWithdraw]]) in
  (st_mem s LTok, st_mem s LLim, ab_grants s, ab_deposits s) = (1, 3, 4, 1).
Proof. vm_compute. reflexivity. Qed.

(* the constructor clamps and saturates (reachable hypotheses of the constructor-level
   theorems: initial > max, and sizes beyond 2^64 / 1000) *)
Example constructor_clamps :
  (tb_init 2 5, tb_maxs 2, tb_init 18446744073709552 18446744073709552, tb_maxs U64MAX,
   tb_init 7 U64MAX)
  = (2000, 2000, U64MAX, U64MAX, 7000).
Proof. vm_compute. reflexivity. Qed.

(* before /repo a863e6a the balance started at initial*1000 > max*1000 and the first deposit
   LOWERED it to the maximum: with the unclamped start the cap fails in the initial state *)
Example unclamped_start_refuted :
  let s := init_state (PC := tb_pc) (tb_mem 5) [[TbDeposit]] in
  ~ (st_mem s LTok <= 2 * SCALE)
  /\ st_mem (fold_left (step (tb_prog (2 * SCALE))) [(0, false); (0, false)]%nat s) LTok = 2 * SCALE.
Proof. vm_compute. split; [intros H; apply H; reflexivity|reflexivity]. Qed.

(* the builder's default floor: max_budget 4 with min_budget unset runs with floor 4 (a refused
   withdrawal at factor 0 takes the ceiling to the floor 4 = max, not below: the deposit that follows
   still finds the full balance 4) *)
Example builder_default_floor :
  run_script [3; -1; 4; 1; 5; 0; 1; 3; 0; 0; 1; 0; 2; 0; 1; 1; 0; 0]
  = [0; 2; 4; 3; 0; 4; 0].
Proof. vm_compute. reflexivity. Qed.

(* the script interface on the defect-shaped corpus entry *)
Example script_example :
  run_script [0; 5; 2; 0; 0; 0; 0; 0; 2; 1; 1; 0; 1; 0; 0; 5; 0; 1; 1; 0; 0]
  = [1; -1; 2; 0; 1; -1; 2; 0; 3; 1; 1; 0; 3; -1; 1; 0; 3; 2; 2; 0; 3; 2; 2; 1; 2; 0].
Proof. vm_compute. reflexivity. Qed.
