(* Invariants of the hedge model (Model/Hedge.v) and the lemmas Props/C12.v uses.
   Structure: (1) facts about the two receive loops and the timer loop of one poll;
   (2) a per-call invariant `Cfull c i now n x` (n = attempt tasks spawned by the poll in
   progress that have not run yet), preserved by every primitive of the model: a task sending
   its result, a task making its inner call, a task running for the first time (and possibly
   being suspended on an unready clone, or giving up because its clone's poll_ready failed), the
   script completing an inner call, making a clone ready or making its readiness fail,
   cancellation, the clock, and the poll itself in each phase; (3) the system invariant
   by induction over event lists (Lib/Base.v reach_inv); (4) the statements of C12 and
   non-vacuity examples. *)
From TR Require Import Lib.Base Model.Hedge.

(* ---------- vocabulary ---------- *)
Definition it_att (m : item) : nat := fst (fst m).
Definition it_ok (m : item) : bool := snd (fst m).
Definition it_val (m : item) : Z := snd m.
Definition att (e : item * Z) : nat := it_att (fst e).
Definition pending (x : call) : Prop := ph x = Latency \/ ph x = Drain.
Definition out_of (ok : bool) : outcome := if ok then OOk else OErr.
Definition is_err (m : item) : Prop := it_ok m = false.
(* launch instants once the n tasks that are spawned but have not run yet have run (at `now`) *)
Definition es (now : Z) (n : nat) (x : call) : list Z := launch x ++ repeat now n.
Definition spaced (c : cfg) (l : list Z) : Prop :=
  forall k, (S k < length l)%nat -> nth k l 0 + delay c (S k) <= nth (S k) l 0.
Definition hd_pe (cs : list item) : option Z :=
  match cs with [] => None | m :: _ => Some (it_val m) end.
Definition upd_pe (l : list item) (pe : option Z) : option Z :=
  fold_left (fun p m => if Nat.eqb (it_att m) 0 then Some (it_val m) else p) l pe.

(* ---------- small facts ---------- *)
Lemma delay_nonneg c k : 0 <= delay c k.
Proof.
  unfold delay. destruct (dcfg c); try lia. destruct k; lia.
Qed.

Lemma nth_repeat_lt {A} (a d : A) n j : (j < n)%nat -> nth j (repeat a n) d = a.
Proof.
  revert n. induction j as [|j IH]; intros n Hn; (destruct n as [|n]; [lia|]); cbn.
  - reflexivity.
  - apply IH. lia.
Qed.

Lemma nth_app_repeat {A} (l : list A) a n d k :
  (length l <= k)%nat -> (k < length l + n)%nat -> nth k (l ++ repeat a n) d = a.
Proof.
  intros H1 H2. rewrite app_nth2 by lia. apply nth_repeat_lt. lia.
Qed.

Lemma find_skip {A} (f : A -> bool) l l' :
  Forall (fun m => f m = false) l -> find f (l ++ l') = find f l'.
Proof.
  induction 1 as [|a l Ha _ IH]; cbn; [reflexivity|]. rewrite Ha. exact IH.
Qed.

Lemma find_all_false {A} (f : A -> bool) l :
  Forall (fun m => f m = false) l -> find f l = None.
Proof. induction 1 as [|a l Ha _ IH]; cbn; [reflexivity|]. rewrite Ha. exact IH. Qed.

(* pigeonhole: distinct numbers below n *)
Lemma nodup_below_len (l : list nat) n :
  NoDup l -> (forall k, In k l -> (k < n)%nat) -> (length l <= n)%nat.
Proof.
  intros Hnd Hlt. rewrite <- (seq_length n 0). apply NoDup_incl_length; [exact Hnd|].
  intros k Hk. apply in_seq. specialize (Hlt k Hk). lia.
Qed.

Lemma nodup_below_full (l : list nat) n :
  NoDup l -> (forall k, In k l -> (k < n)%nat) -> (n <= length l)%nat ->
  forall k, (k < n)%nat -> In k l.
Proof.
  intros Hnd Hlt Hlen k Hk.
  assert (Hincl : incl (seq 0 n) l).
  { apply NoDup_length_incl; [exact Hnd|rewrite seq_length; exact Hlen|].
    intros j Hj. apply in_seq. specialize (Hlt j Hj). lia. }
  apply Hincl. apply in_seq. lia.
Qed.

Lemma closed_spec x :
  closed x = true <->
  length (launch x) = sp x /\ waiting x = [] /\
  forall n, (n < length (starts x))%nat -> gate x n <> None.
Proof.
  unfold closed. rewrite !andb_true_iff, Nat.eqb_eq, forallb_forall. split.
  - intros [[H1 H2] H3]. split; [exact H1|]. split; [destruct (waiting x); [reflexivity|discriminate]|].
    intros n Hn. specialize (H3 n). rewrite in_seq in H3. specialize (H3 ltac:(lia)).
    destruct (gate x n); [discriminate|discriminate H3].
  - intros (H1 & H2 & H3). split; [split; [exact H1|rewrite H2; reflexivity]|].
    intros n Hn. apply in_seq in Hn. specialize (H3 n ltac:(lia)).
    destruct (gate x n); [reflexivity|congruence].
Qed.

(* ---------- lists of task ids ---------- *)
Lemma mem_In k l : mem k l = true <-> In k l.
Proof.
  unfold mem. rewrite existsb_exists. split.
  - intros [y [Hy He]]. apply Nat.eqb_eq in He. subst. exact Hy.
  - intros H. exists k. split; [exact H|apply Nat.eqb_refl].
Qed.

Lemma in_remove_id j k l : In j (remove_id k l) <-> In j l /\ j <> k.
Proof.
  unfold remove_id. rewrite filter_In. split; intros [H1 H2]; split; try exact H1.
  - intros ->. rewrite Nat.eqb_refl in H2. discriminate.
  - apply Bool.negb_true_iff. apply Nat.eqb_neq. exact H2.
Qed.

Lemma remove_id_cons k y t :
  remove_id k (y :: t) = if Nat.eqb y k then remove_id k t else y :: remove_id k t.
Proof. unfold remove_id. cbn. destruct (Nat.eqb y k); reflexivity. Qed.

Lemma remove_id_notin k l : ~ In k l -> remove_id k l = l.
Proof.
  induction l as [|y t IH]; intros H; [reflexivity|].
  rewrite remove_id_cons. destruct (Nat.eqb_spec y k) as [->|Hne].
  - exfalso. apply H. left. reflexivity.
  - f_equal. apply IH. intros Hi. apply H. right. exact Hi.
Qed.

Lemma length_remove_id k l : NoDup l -> In k l -> S (length (remove_id k l)) = length l.
Proof.
  induction l as [|y t IH]; intros Hnd Hin; [destruct Hin|].
  inversion Hnd as [|? ? Hy Ht]; subst. rewrite remove_id_cons.
  destruct (Nat.eqb_spec y k) as [->|Hne]; cbn [length].
  - rewrite remove_id_notin by exact Hy. reflexivity.
  - f_equal. apply IH; [exact Ht|]. destruct Hin as [->|Hin]; [congruence|exact Hin].
Qed.

Lemma nodup_snoc (l : list nat) k : NoDup l -> ~ In k l -> NoDup (l ++ [k]).
Proof.
  induction l as [|y t IH]; intros H Hx; cbn.
  - constructor; [intros []|constructor].
  - inversion H as [|? ? Hy Ht]; subst. constructor.
    + rewrite in_app_iff. intros [Hin|[->|[]]]; [exact (Hy Hin)|]. apply Hx. left. reflexivity.
    + apply IH; [exact Ht|]. intros Hin. apply Hx. right. exact Hin.
Qed.

Lemma nodup_app_intro (l1 l2 : list nat) :
  NoDup l1 -> NoDup l2 -> (forall j, In j l1 -> In j l2 -> False) -> NoDup (l1 ++ l2).
Proof.
  induction l1 as [|y t IH]; intros H1 H2 Hd; cbn; [exact H2|].
  inversion H1 as [|? ? Hy Ht]; subst. constructor.
  - rewrite in_app_iff. intros [Hin|Hin]; [exact (Hy Hin)|]. apply (Hd y); [left; reflexivity|exact Hin].
  - apply IH; [exact Ht|exact H2|]. intros j J1 J2. apply (Hd j); [right; exact J1|exact J2].
Qed.

(* the owner of an inner call determines its position *)
Lemma owner_inj (l : list (nat * Z)) : NoDup (map fst l) ->
  forall n n' k s s', nth_error l n = Some (k, s) -> nth_error l n' = Some (k, s') -> n = n'.
Proof.
  intros Hnd n n' k s s' H1 H2.
  assert (E1 : nth_error (map fst l) n = Some k) by (rewrite nth_error_map, H1; reflexivity).
  assert (E2 : nth_error (map fst l) n' = Some k) by (rewrite nth_error_map, H2; reflexivity).
  rewrite NoDup_nth_error in Hnd. apply Hnd; [|congruence].
  apply nth_error_Some. congruence.
Qed.

(* ---------- the timer branch ---------- *)
Lemma fire_spec c now fuel : forall s dl, (maxa c - s <= fuel)%nat ->
  let '(s', dl') := fire c now fuel s dl in
  (s <= s')%nat /\ ((s <= maxa c)%nat -> (s' <= maxa c)%nat) /\
  (s' = s -> dl' = dl /\ ((s < maxa c)%nat -> now < dl)) /\
  ((s < s')%nat -> dl <= now /\ (forall j, (s < j < s')%nat -> delay c j = 0) /\
                   ((s' < maxa c)%nat -> dl' = now + delay c s' /\ now < dl')).
Proof.
  induction fuel as [|f IH]; intros s dl Hf; cbn [fire].
  - repeat split; try lia.
  - destruct ((s <? maxa c)%nat && (dl <=? now)) eqn:G.
    + apply andb_true_iff in G. destruct G as [G1 G2].
      apply Nat.ltb_lt in G1. apply Z.leb_le in G2.
      destruct (S s <? maxa c)%nat eqn:G3.
      * apply Nat.ltb_lt in G3.
        specialize (IH (S s) (now + delay c (S s)) ltac:(lia)).
        destruct (fire c now f (S s) (now + delay c (S s))) as [s' dl'].
        destruct IH as (I1 & I2 & I3 & I4).
        split; [lia|]. split; [intros; apply I2; lia|]. split; [intros; lia|].
        intros _. split; [exact G2|].
        destruct (Nat.eq_dec s' (S s)) as [E|E].
        -- destruct (I3 E) as [Ed Hlt]. split; [intros j Hj; lia|].
           intros Hs'. subst s'. split; [exact Ed|]. rewrite Ed. apply Hlt. exact G3.
        -- destruct (I4 ltac:(lia)) as (J1 & J2 & J3). split.
           ++ intros j Hj. destruct (Nat.eq_dec j (S s)) as [->|Hne].
              ** pose proof (delay_nonneg c (S s)). lia.
              ** apply J2. lia.
           ++ exact J3.
      * apply Nat.ltb_ge in G3. split; [lia|]. split; [lia|]. split; [intros; lia|].
        intros _. split; [exact G2|]. split; [intros j Hj; lia|]. intros; lia.
    + split; [lia|]. split; [auto|]. split.
      * intros _. split; [reflexivity|]. intros Hs.
        apply andb_false_iff in G. destruct G as [G|G].
        -- apply Nat.ltb_ge in G. lia.
        -- apply Z.leb_gt in G. exact G.
      * intros; lia.
Qed.

(* ---------- the receive branches ---------- *)
Lemma upd_pe_app l1 l2 pe : upd_pe (l1 ++ l2) pe = upd_pe l2 (upd_pe l1 pe).
Proof. unfold upd_pe. apply fold_left_app. Qed.

Lemma upd_pe_val i l : forall pe,
  (forall m, In m l -> it_att m = 0%nat -> it_val m = val i 0) ->
  (forall e, pe = Some e -> e = val i 0) ->
  forall e, upd_pe l pe = Some e -> e = val i 0.
Proof.
  induction l as [|m l IH]; intros pe Hv Hp e He; cbn in He; [apply Hp; exact He|].
  refine (IH _ _ _ e He); [intros m' Hm'; apply Hv; right; exact Hm'|].
  intros e' He'. destruct (Nat.eqb_spec (it_att m) 0) as [E|E]; [|apply Hp; exact He'].
  injection He' as <-. apply (Hv m (or_introl eq_refl) E).
Qed.

Lemma upd_pe_some l : forall pe,
  (In 0%nat (map it_att l) \/ pe <> None) -> upd_pe l pe <> None.
Proof.
  induction l as [|m l IH]; intros pe H; cbn.
  - destruct H as [[]|H]; exact H.
  - apply IH. destruct (Nat.eqb_spec (it_att m) 0) as [E|E].
    + right. discriminate.
    + destruct H as [[H|H]|H]; [congruence|left; exact H|right; exact H].
Qed.

Lemma consume_lat_spec mx q : forall cs e pe,
  match consume_lat mx q cs e pe with
  | CCont cs' e' pe' =>
      cs' = cs ++ q /\ Forall is_err q /\ e' = (e + length q)%nat /\ pe' = upd_pe q pe
  | CDone r v cs' rest e' pe' =>
      exists pre m, q = pre ++ m :: rest /\ cs' = cs ++ pre ++ [m] /\ Forall is_err pre /\
        ((r = 1 /\ it_ok m = true /\ v = it_val m) \/
         (r = 3 /\ it_ok m = false /\ e' = (e + length pre + 1)%nat /\ (mx <= e')%nat /\
          pe' = upd_pe (pre ++ [m]) pe /\
          v = match pe' with Some x => x | None => it_val m end))
  end.
Proof.
  induction q as [|[[k ok] v] q IH]; intros cs e pe; cbn [consume_lat].
  - rewrite app_nil_r. repeat split; [constructor|cbn; lia].
  - destruct ok.
    + exists [], (k, true, v). cbn. repeat split; [constructor|]. left. repeat split.
    + destruct (mx <=? S e)%nat eqn:G.
      * apply Nat.leb_le in G. exists [], (k, false, v). cbn. repeat split; [constructor|].
        right. repeat split; try lia. 
      * apply Nat.leb_gt in G.
        specialize (IH (cs ++ [(k, false, v)]) (S e) (if Nat.eqb k 0 then Some v else pe)).
        destruct (consume_lat mx q (cs ++ [(k, false, v)]) (S e) (if Nat.eqb k 0 then Some v else pe))
          as [r0 v0 cs' rest e' pe'|cs' e' pe'].
        -- destruct IH as (pre & m & Hq & Hcs & Hpre & Hr).
           exists ((k, false, v) :: pre), m. split; [cbn; rewrite Hq; reflexivity|].
           split; [rewrite Hcs, <- app_assoc; reflexivity|].
           split; [constructor; [reflexivity|exact Hpre]|].
           destruct Hr as [Hr|(R1 & R2 & R3 & R4 & R5 & R6)]; [left; exact Hr|right].
           repeat split; try assumption; cbn [length]; try lia.
        -- destruct IH as (Hcs & Hq & He & Hpe).
           split; [rewrite Hcs, <- app_assoc; reflexivity|].
           split; [constructor; [reflexivity|exact Hq]|].
           split; [cbn [length]; lia|exact Hpe].
Qed.

Lemma hd_pe_snoc cs m pe :
  pe = hd_pe cs -> match pe with None => Some (it_val m) | Some _ => pe end = hd_pe (cs ++ [m]).
Proof. intros ->. destruct cs; reflexivity. Qed.

Lemma consume_drain_spec q : forall cs e pe, pe = hd_pe cs ->
  match consume_drain q cs e pe with
  | CCont cs' e' pe' => cs' = cs ++ q /\ Forall is_err q /\ pe' = hd_pe cs'
  | CDone r v cs' rest e' pe' =>
      exists pre m, q = pre ++ m :: rest /\ cs' = cs ++ pre ++ [m] /\ Forall is_err pre /\
        r = 1 /\ it_ok m = true /\ v = it_val m
  end.
Proof.
  induction q as [|[[k ok] v] q IH]; intros cs e pe Hpe; cbn [consume_drain].
  - rewrite app_nil_r. repeat split; [constructor|exact Hpe].
  - destruct ok.
    + exists [], (k, true, v). cbn. repeat split. constructor.
    + specialize (IH (cs ++ [(k, false, v)]) e (match pe with None => Some v | Some _ => pe end)
                     (hd_pe_snoc cs (k, false, v) pe Hpe)).
      destruct (consume_drain q (cs ++ [(k, false, v)]) e (match pe with None => Some v | Some _ => pe end))
        as [r0 v0 cs' rest e' pe'|cs' e' pe'].
      * destruct IH as (pre & m & Hq & Hcs & Hpre & Hr).
        exists ((k, false, v) :: pre), m. split; [cbn; rewrite Hq; reflexivity|].
        split; [rewrite Hcs, <- app_assoc; reflexivity|].
        split; [constructor; [reflexivity|exact Hpre]|exact Hr].
      * destruct IH as (Hcs & Hq & Hp).
        split; [rewrite Hcs, <- app_assoc; reflexivity|].
        split; [constructor; [reflexivity|exact Hq]|exact Hp].
Qed.

(* what AllAttemptsFailed e at instant tau guarantees: every attempt was launched; each has made
   its inner call or failed readiness (nobody waits); every inner call has finished without
   success; every readiness failure was delivered *)
Definition failed_spec (c : cfg) (i : nat) (x : call) (e tau : Z) : Prop :=
  length (launch x) = maxa c /\ (length (starts x) + length (rfl x) = maxa c)%nat /\
  (forall n, (n < length (starts x))%nat -> exists o, gate x n = Some o /\ o <> OOk /\
      (o = OErr -> exists k tk, In ((k, false, val i n), tk) (dlog x) /\ tk <= tau)) /\
  (forall k, In k (rfl x) -> exists tk, In ((k, false, rval i k), tk) (dlog x) /\ tk <= tau) /\
  (latency_mode c = true -> (1 < maxa c)%nat ->
      e = val i 0 /\ forall n, (n < length (starts x))%nat -> gate x n = Some OErr) /\
  (latency_mode c = false \/ maxa c = 1%nat ->
      exists k tk rest, dlog x = ((k, false, e), tk) :: rest).

(* where the message m, logged at tau, came from: the inner call of its attempt, or the failed
   readiness of its attempt's clone *)
Definition ent_ok (i : nat) (now : Z) (x : call) (m : item) (tau : Z) : Prop :=
  (exists n s, nth_error (starts x) n = Some (it_att m, s) /\
               gate x n = Some (out_of (it_ok m)) /\ it_val m = val i n /\ s <= tau <= now) \/
  (In (it_att m) (rfl x) /\ it_ok m = false /\ it_val m = rval i (it_att m) /\
   nth (it_att m) (launch x) 0 <= tau <= now).

(* n = attempt tasks spawned by the poll in progress that have not run yet;
   h = tasks that have been launched, are not waiting for readiness and have not made their
   inner call yet (1 in the middle of a launch / of a readiness notification, else 0) *)
Record Cbase (c : cfg) (i : nat) (now : Z) (n h : nat) (x : call) : Prop := {
  a_len : (length (launch x) + n = sp x)%nat;
  a_max : (sp x <= maxa c)%nat;
  a_created : ph x = Created -> sp x = 0%nat /\ dlog x = [] /\ queue x = [] /\ cons x = [];
  a_pos : pending x -> (1 <= sp x)%nat;
  a_lat : ph x = Latency -> latency_mode c = true /\ (1 < maxa c)%nat;
  a_drain : ph x = Drain -> sp x = maxa c /\ (latency_mode c = false \/ maxa c = 1%nat);
  a_par : latency_mode c = false -> (1 <= sp x)%nat -> sp x = maxa c;
  b_t0 : (1 <= sp x)%nat -> nth 0 (es now n x) 0 = t0 x;
  b_le : Forall (fun t => t <= now) (launch x);
  b_sp : latency_mode c = true -> spaced c (es now n x);
  b_par : latency_mode c = false -> Forall (eq (t0 x)) (es now n x);
  b_dl : ph x = Latency -> (sp x < maxa c)%nat ->
         dline x = nth (sp x - 1) (es now n x) 0 + delay c (sp x);
  s_cnt : (length (starts x) + length (waiting x) + length (rfl x) + h = length (launch x))%nat;
  s_nd : NoDup (map fst (starts x));
  s_in : forall k s, In (k, s) (starts x) ->
         (k < length (launch x))%nat /\ ~ In k (waiting x) /\ nth k (launch x) 0 <= s <= now;
  s_hd : forall k s, nth_error (starts x) 0 = Some (k, s) -> k = 0%nat /\ s = nth 0 (launch x) 0;
  s_pr : (1 <= length (launch x))%nat -> (1 <= length (starts x) + h)%nat;
  w_in : forall k, In k (waiting x) -> (1 <= k < length (launch x))%nat /\ rdy x k = false;
  w_nd : NoDup (waiting x);
  g_off : gated c = false -> forall k, rdy x k = true;
  g_seq : gated c = false -> forall n0 k s, nth_error (starts x) n0 = Some (k, s) ->
          s = nth k (launch x) 0 /\ (rfl x = [] -> k = n0);
  c_log : map fst (dlog x) = cons x ++ queue x;
  c_ent : forall m tau, In (m, tau) (dlog x) -> ent_ok i now x m tau;
  c_nd : NoDup (map att (dlog x));
  c_err : pending x -> Forall is_err (cons x);
  c_lat : ph x = Latency ->
          errs x = length (cons x) /\ (forall e, perr x = Some e -> e = val i 0) /\
          (In 0%nat (map it_att (cons x)) -> perr x <> None);
  c_drn : ph x = Drain -> perr x = hd_pe (cons x);
  d_wk : pending x -> queue x <> [] -> woken x = true;
  e_res : forall r v tau, res x = Some (r, v, tau) -> ph x = Done /\ tau <= now;
  e_ok : forall v tau, res x = Some (1, v, tau) ->
         exists k t1, find it_ok (map fst (dlog x)) = Some (k, true, v) /\
                      In ((k, true, v), t1) (dlog x) /\ t1 <= tau;
  e_fail : forall e tau, res x = Some (3, e, tau) -> failed_spec c i x e tau;
  f_one : latency_mode c = true -> forall v tau, In ((0%nat, true, v), tau) (dlog x) ->
          tau < t0 x + delay c 1 -> sp x = 1%nat;
  w_ne : forall k, In k (waiting x) -> rerr x k = false;
  r_in : forall k, In k (rfl x) ->
         (1 <= k < length (launch x))%nat /\ ~ In k (waiting x) /\ ~ In k (map fst (starts x));
  r_nd : NoDup (rfl x);
  r_dlv : pending x -> forall k, In k (rfl x) -> In k (map att (dlog x));
  g_inc : gated c = false -> forall n0 n1 k0 k1 s0 s1, (n0 < n1)%nat ->
          nth_error (starts x) n0 = Some (k0, s0) -> nth_error (starts x) n1 = Some (k1, s1) -> (k0 < k1)%nat;
  c_lt : ph x = Latency -> (errs x < maxa c)%nat
}.


(* open the record without shadowing the projections *)
Ltac open_base H :=
  let HB := fresh "HB" in pose proof H as HB;
  destruct HB as [F01 F02 F03 F04 F05 F06 F07 F08 F09 F10 F11 F12 F13 F14 F15 F16 F17 F18 F19 F20 F21 F22 F23 F24 F25 F26 F27 F28 F29 F30 F31 F32 F33 F34 F35 F36 F37 F38].

Ltac ent := unfold ent_ok; cbn [ph t0 sp errs perr dline queue launch waiting rdy starts gate woken dlog cons res rerr rfl].

(* every started inner call that has finished without panicking has delivered its message *)
Definition DlvExcept (n0 : nat) (x : call) : Prop :=
  pending x -> forall n k s o, n <> n0 -> nth_error (starts x) n = Some (k, s) -> gate x n = Some o ->
  o <> OPanic -> In k (map att (dlog x)).
Definition Cdlv (x : call) : Prop :=
  pending x -> forall n k s o, nth_error (starts x) n = Some (k, s) -> gate x n = Some o ->
  o <> OPanic -> In k (map att (dlog x)).
Definition Dcl (x : call) : Prop := ph x = Drain -> closed x = true -> woken x = true.
Definition Bwk (c : cfg) (now : Z) (x : call) : Prop :=
  ph x = Latency -> (sp x < maxa c)%nat -> dline x <= now -> woken x = true.
Definition Cfull c i now n x := Cbase c i now n 0 x /\ Cdlv x /\ Dcl x /\ Bwk c now x.

Lemma es_le c i now n h x : Cbase c i now n h x -> Forall (fun t => t <= now) (es now n x).
Proof.
  intros H. unfold es. apply Forall_app. split; [apply (b_le _ _ _ _ _ _ H)|].
  apply Forall_forall. intros t Ht. apply repeat_spec in Ht. lia.
Qed.

Lemma es_len c i now n h x : Cbase c i now n h x -> length (es now n x) = sp x.
Proof. intros H. unfold es. rewrite app_length, repeat_length. apply (a_len _ _ _ _ _ _ H). Qed.

Lemma pending_not_done x : pending x -> ph x <> Done.
Proof. intros [H|H]; rewrite H; discriminate. Qed.

(* the attempt task that made a logged message has made an inner call *)
Lemma att_owner c i now n h x k :
  Cbase c i now n h x -> In k (map att (dlog x)) -> In k (map fst (starts x)) \/ In k (rfl x).
Proof.
  intros H Hin. apply in_map_iff in Hin. destruct Hin as [[m tau] [E Hin]].
  unfold att in E. cbn in E. subst k.
  destruct (c_ent _ _ _ _ _ _ H m tau Hin) as [(n0 & s & E1 & _)|(E1 & _)].
  - left. apply in_map_iff. exists (it_att m, s). split; [reflexivity|]. apply (nth_error_In _ _ E1).
  - right. exact E1.
Qed.

(* ---------- a message is pushed into the channel ---------- *)
Lemma push_ok c i now n x k n0 s b :
  Cbase c i now n 0 x -> DlvExcept n0 x -> pending x ->
  nth_error (starts x) n0 = Some (k, s) -> gate x n0 = Some (out_of b) -> ~ In k (map att (dlog x)) ->
  Cfull c i now n
    (mkCall (ph x) (t0 x) (sp x) (errs x) (perr x) (dline x) (queue x ++ [(k, b, val i n0)])
            (launch x) (waiting x) (rdy x) (starts x) (gate x) true
            (dlog x ++ [((k, b, val i n0), now)]) (cons x) (res x) (rerr x) (rfl x)).
Proof.
  intros H Hd Hp Hk Hg Hnin.
  assert (Hnd : ph x <> Done) by (apply pending_not_done; exact Hp).
  assert (Hkn : s <= now).
  { destruct (s_in _ _ _ _ _ _ H k s (nth_error_In _ _ Hk)) as (_ & _ & E). lia. }
  split; [|split; [|split]].
  - open_base H.
    constructor; cbn [ph t0 sp errs perr dline queue launch waiting rdy starts gate woken dlog cons res rerr rfl];
      unfold es in *; cbn [launch]; try assumption.
    + intros E. destruct Hp as [Hp|Hp]; congruence.
    + rewrite map_app, (c_log _ _ _ _ _ _ H), <- app_assoc. reflexivity.
    + intros m tau Hin. apply in_app_or in Hin. destruct Hin as [Hin|[Hin|[]]].
      * apply (c_ent _ _ _ _ _ _ H). exact Hin.
      * injection Hin as <- <-. left. exists n0, s. cbn. repeat split; try assumption; lia.
    + rewrite map_app. cbn. apply nodup_snoc; [apply (c_nd _ _ _ _ _ _ H)|exact Hnin].
    + intros _ _. reflexivity.
    + intros v0 tau E. destruct (e_res _ _ _ _ _ _ H _ _ _ E) as [E1 _]. contradiction.
    + intros v0 tau E. destruct (e_res _ _ _ _ _ _ H _ _ _ E) as [E1 _]. contradiction.
    + intros Hl v0 tau Hin Hlt. apply in_app_or in Hin. destruct Hin as [Hin|[Hin|[]]].
      * apply (f_one _ _ _ _ _ _ H Hl _ _ Hin Hlt).
      * injection Hin as Ek Eb Ev Et. subst k b tau.
        pose proof (a_pos _ _ _ _ _ _ H Hp) as Hpos.
        destruct (Nat.eq_dec (sp x) 1) as [E|E]; [exact E|exfalso].
        pose proof (es_len _ _ _ _ _ _ H) as Hlen.
        pose proof (b_sp _ _ _ _ _ _ H Hl 0%nat ltac:(lia)) as Hs.
        rewrite (b_t0 _ _ _ _ _ _ H Hpos) in Hs.
        pose proof (es_le _ _ _ _ _ _ H) as Hle. rewrite Forall_forall in Hle.
        specialize (Hle (nth 1 (es now n x) 0) ltac:(apply nth_In; lia)). lia.
    + intros _ k' Hk'. rewrite map_app, in_app_iff. left. apply (r_dlv _ _ _ _ _ _ H Hp k' Hk').
  - intros _ n' k' s' o' Hk' Hg' Ho'. cbn [starts gate dlog] in *. rewrite map_app, in_app_iff.
    destruct (Nat.eq_dec n' n0) as [->|Hne].
    + right. left. rewrite Hk in Hk'. injection Hk' as <- _. reflexivity.
    + left. apply (Hd Hp n' k' s' o' Hne Hk' Hg' Ho').
  - intros _ _. reflexivity.
  - intros _ _ _. reflexivity.
Qed.

Lemma wake_ok c i now n h x :
  Cbase c i now n h x ->
  Cbase c i now n h (mkCall (ph x) (t0 x) (sp x) (errs x) (perr x) (dline x) (queue x) (launch x)
                            (waiting x) (rdy x) (starts x) (gate x) true (dlog x) (cons x) (res x) (rerr x) (rfl x)).
Proof.
  intros H. open_base H.
  constructor; cbn [ph t0 sp errs perr dline queue launch waiting rdy starts gate woken dlog cons res rerr rfl];
    unfold es in *; cbn [launch]; try assumption.
  intros _ _. reflexivity.
Qed.

(* ---------- an attempt task finishes ---------- *)
Lemma finish_ok c i now n x k n0 s o :
  Cbase c i now n 0 x -> Bwk c now x -> DlvExcept n0 x ->
  nth_error (starts x) n0 = Some (k, s) -> gate x n0 = Some o -> ~ In k (map att (dlog x)) ->
  Cfull c i now n (finish i now x k n0 o).
Proof.
  intros H Hb Hd Hk Hg Hnin.
  assert (Hcd : pending x -> o = OPanic -> Cdlv x).
  { intros Hp -> _ n' k' s' o' Hk' Hg' Ho'. destruct (Nat.eq_dec n' n0) as [->|Hne]; [congruence|].
    apply (Hd Hp n' k' s' o' Hne Hk' Hg' Ho'). }
  assert (Hnp : ~ pending x -> Cfull c i now n x).
  { intros Hn. split; [exact H|split; [|split]].
    - intros Hp. contradiction.
    - intros E. exfalso. apply Hn. right. exact E.
    - exact Hb. }
  unfold finish. destruct (ph x) eqn:P.
  - apply Hnp. intros [E|E]; congruence.
  - destruct o.
    + rewrite <- P. apply (push_ok c i now n x k n0 s true); try assumption. left. exact P.
    + rewrite <- P. apply (push_ok c i now n x k n0 s false); try assumption. left. exact P.
    + split; [exact H|split; [|split]].
      * apply Hcd; [left; exact P|reflexivity].
      * intros E. congruence.
      * exact Hb.
  - destruct o.
    + rewrite <- P. apply (push_ok c i now n x k n0 s true); try assumption. right. exact P.
    + rewrite <- P. apply (push_ok c i now n x k n0 s false); try assumption. right. exact P.
    + assert (Hp : pending x) by (right; exact P).
      destruct (closed x) eqn:Cl.
      * rewrite <- P. split; [|split; [|split]].
        -- apply wake_ok. exact H.
        -- intros _. cbn [starts gate dlog]. apply (Hcd Hp eq_refl Hp).
        -- intros _ _. reflexivity.
        -- intros E. cbn in E. congruence.
      * split; [exact H|split; [|split]].
        -- apply Hcd; [exact Hp|reflexivity].
        -- intros _ E. congruence.
        -- exact Hb.
  - apply Hnp. intros [E|E]; congruence.
  - apply Hnp. intros [E|E]; congruence.
Qed.

(* ---------- an attempt task makes its inner call ---------- *)
Lemma call_inner_ok c i now n x k :
  Cbase c i now n 1 x -> Cdlv x -> Bwk c now x ->
  (k < length (launch x))%nat -> ~ In k (waiting x) -> ~ In k (map fst (starts x)) -> ~ In k (rfl x) ->
  (starts x = [] -> k = 0%nat /\ nth 0 (launch x) 0 = now) ->
  (gated c = false -> nth k (launch x) 0 = now /\ (forall k' s', In (k', s') (starts x) -> (k' < k)%nat) /\
                      (rfl x = [] -> k = length (starts x))) ->
  Cfull c i now n (call_inner i now x k).
Proof.
  intros H Hd Hb K1 K2 K3 K6 K4 K5. unfold call_inner.
  set (x1 := mkCall (ph x) (t0 x) (sp x) (errs x) (perr x) (dline x) (queue x) (launch x) (waiting x)
                    (rdy x) (starts x ++ [(k, now)]) (gate x) (woken x) (dlog x) (cons x) (res x) (rerr x) (rfl x)).
  assert (Hkn : nth k (launch x) 0 <= now).
  { pose proof (b_le _ _ _ _ _ _ H) as Hle. rewrite Forall_forall in Hle. apply Hle. apply nth_In. exact K1. }
  assert (H1 : Cbase c i now n 0 x1).
  { open_base H.
    constructor; unfold x1; cbn [ph t0 sp errs perr dline queue launch waiting rdy starts gate woken dlog cons res rerr rfl];
      unfold es in *; cbn [launch]; try assumption.
    - rewrite app_length. cbn. lia.
    - rewrite map_app. cbn. apply nodup_snoc; assumption.
    - intros k' s' Hin. apply in_app_or in Hin. destruct Hin as [Hin|[Hin|[]]].
      + apply (s_in _ _ _ _ _ _ H). exact Hin.
      + injection Hin as <- <-. repeat split; try assumption; lia.
    - intros k' s' E. destruct (starts x) as [|p l] eqn:Es.
      + cbn in E. injection E as <- <-. destruct (K4 eq_refl) as [K41 K42]. split; [exact K41|symmetry; exact K42].
      + cbn in E. apply (s_hd _ _ _ _ _ _ H k' s'). rewrite Es. exact E.
    - intros _. rewrite app_length. cbn. lia.
    - intros G n0 k' s' E.
      assert (n0 < length (starts x ++ [(k, now)]))%nat by (apply nth_error_Some; congruence).
      rewrite app_length in H0. cbn in H0.
      destruct (Nat.eq_dec n0 (length (starts x))) as [->|Hne].
      + rewrite nth_error_app2 in E by lia. rewrite Nat.sub_diag in E. cbn in E. injection E as <- <-.
        destruct (K5 G) as (K51 & _ & K53). split; [symmetry; exact K51|exact K53].
      + rewrite nth_error_app1 in E by lia. apply (g_seq _ _ _ _ _ _ H G n0 k' s' E).
    - intros m tau Hin. destruct (c_ent _ _ _ _ _ _ H m tau Hin) as [(n0 & s & E1 & E2)|R].
      + ent. left. exists n0, s. split; [|exact E2]. rewrite nth_error_app1; [exact E1|].
        apply nth_error_Some. congruence.
      + ent. right. exact R.
    - intros e tau E. exfalso. destruct (e_fail _ _ _ _ _ _ H e tau E) as (F0 & F1 & _).
      pose proof (s_cnt _ _ _ _ _ _ H). lia.
    - intros k' Hk'. destruct (r_in _ _ _ _ _ _ H k' Hk') as (R1 & R2 & R3).
      split; [exact R1|]. split; [exact R2|].
      rewrite map_app, in_app_iff. intros [Hin|[Hin|[]]]; [exact (R3 Hin)|]. cbn in Hin. subst k'. exact (K6 Hk').
    - intros G n0 n1 k0 k1 s0 s1 Hlt E0 E1.
      assert (n1 < length (starts x ++ [(k, now)]))%nat by (apply nth_error_Some; congruence).
      rewrite app_length in H0. cbn in H0.
      rewrite nth_error_app1 in E0 by lia.
      destruct (Nat.eq_dec n1 (length (starts x))) as [->|Hne].
      + rewrite nth_error_app2 in E1 by lia. rewrite Nat.sub_diag in E1. cbn in E1. injection E1 as <- <-.
        destruct (K5 G) as (_ & K52 & _). apply (K52 k0 s0). apply (nth_error_In _ _ E0).
      + rewrite nth_error_app1 in E1 by lia. apply (g_inc _ _ _ _ _ _ H G n0 n1 k0 k1 s0 s1 Hlt E0 E1). }
  assert (Hnew : nth_error (starts x1) (length (starts x)) = Some (k, now)).
  { unfold x1. cbn. rewrite nth_error_app2 by lia. rewrite Nat.sub_diag. reflexivity. }
  assert (Hold : forall n' k' s', n' <> length (starts x) -> nth_error (starts x1) n' = Some (k', s') ->
                  nth_error (starts x) n' = Some (k', s')).
  { intros n' k' s' Hne E. unfold x1 in E. cbn in E.
    assert (n' < length (starts x ++ [(k, now)]))%nat by (apply nth_error_Some; congruence).
    rewrite app_length in H0. cbn in H0. rewrite nth_error_app1 in E by lia. exact E. }
  destruct (gate x (length (starts x))) as [o|] eqn:G.
  - apply (finish_ok c i now n x1 k (length (starts x)) now o); try assumption.
    + intros Hp n' k' s' o' Hne Hk' Hg' Ho'. apply (Hd Hp n' k' s' o'); try assumption.
      apply Hold; assumption.
    + intros Hin. destruct (att_owner c i now n 1 x k H Hin) as [A|A]; [exact (K3 A)|exact (K6 A)].
  - split; [exact H1|split; [|split]].
    + intros Hp n' k' s' o' Hk' Hg' Ho'.
      destruct (Nat.eq_dec n' (length (starts x))) as [->|Hne].
      * unfold x1 in Hg'. cbn in Hg'. congruence.
      * apply (Hd Hp n' k' s' o'); try assumption. apply Hold; assumption.
    + intros _ Cl. apply closed_spec in Cl. destruct Cl as (_ & _ & Cl). exfalso.
      apply (Cl (length (starts x))); [unfold x1; cbn; rewrite app_length; cbn; lia|exact G].
    + exact Hb.
Qed.

(* ---------- a spawned task runs for the first time ---------- *)
Lemma es_shift now n x st' :
  st' = launch x ++ [now] -> st' ++ repeat now n = es now (S n) x.
Proof. intros ->. unfold es. rewrite <- app_assoc. reflexivity. Qed.

Lemma launched_base c i now n x wt h :
  Cbase c i now (S n) 0 x ->
  (wt = waiting x /\ h = 1%nat) \/
  (wt = waiting x ++ [length (launch x)] /\ h = 0%nat /\ (1 <= length (launch x))%nat /\
   rdy x (length (launch x)) = false /\ rerr x (length (launch x)) = false) ->
  Cbase c i now n h (mkCall (ph x) (t0 x) (sp x) (errs x) (perr x) (dline x) (queue x)
                            (launch x ++ [now]) wt (rdy x) (starts x) (gate x) (woken x)
                            (dlog x) (cons x) (res x) (rerr x) (rfl x)).
Proof.
  intros H Hw. open_base H.
  assert (Hwl : forall k, In k (waiting x) -> (k < length (launch x))%nat).
  { intros k Hk. destruct (w_in _ _ _ _ _ _ H k Hk) as [E _]. lia. }
  constructor; cbn [ph t0 sp errs perr dline queue launch waiting rdy starts gate woken dlog cons res rerr rfl];
    unfold es in *; cbn [launch]; rewrite ?(es_shift now n x _ eq_refl); unfold es; try assumption.
  - rewrite app_length. cbn. lia.
  - apply Forall_app. split; [assumption|]. constructor; [lia|constructor].
  - rewrite app_length. cbn [length].
    destruct Hw as [[-> ->]|(-> & -> & _)]; [lia|rewrite app_length; cbn; lia].
  - intros k s Hin. destruct (s_in _ _ _ _ _ _ H k s Hin) as (E1 & E2 & E3).
    rewrite app_length. cbn [length]. rewrite app_nth1 by exact E1.
    split; [lia|]. split; [|exact E3].
    destruct Hw as [[-> _]|(-> & _)]; [exact E2|].
    rewrite in_app_iff. intros [Hin'|[Hin'|[]]]; [exact (E2 Hin')|lia].
  - intros k s E. destruct (s_hd _ _ _ _ _ _ H k s E) as [E1 E2]. split; [exact E1|].
    destruct (s_in _ _ _ _ _ _ H k s (nth_error_In _ _ E)) as (E3 & _). subst k.
    rewrite app_nth1 by exact E3. exact E2.
  - intros _.
    destruct Hw as [[_ ->]|(_ & -> & Hl & _)]; [lia|].
    pose proof (s_pr _ _ _ _ _ _ H Hl). lia.
  - intros k Hk. rewrite app_length. cbn [length].
    destruct Hw as [[-> _]|(-> & _ & Hl & Hr & _)].
    + destruct (w_in _ _ _ _ _ _ H k Hk) as [E1 E2]. split; [lia|exact E2].
    + apply in_app_or in Hk. destruct Hk as [Hk|[<-|[]]].
      * destruct (w_in _ _ _ _ _ _ H k Hk) as [E1 E2]. split; [lia|exact E2].
      * split; [lia|exact Hr].
  - destruct Hw as [[-> _]|(-> & _)]; [exact (w_nd _ _ _ _ _ _ H)|].
    apply nodup_snoc; [exact (w_nd _ _ _ _ _ _ H)|]. intros Hin. specialize (Hwl _ Hin). lia.
  - intros G n0 k s E. destruct (g_seq _ _ _ _ _ _ H G n0 k s E) as [E1 E2]. split; [|exact E2].
    destruct (s_in _ _ _ _ _ _ H k s (nth_error_In _ _ E)) as (E3 & _).
    rewrite app_nth1 by exact E3. exact E1.
  - intros m tau Hin. destruct (c_ent _ _ _ _ _ _ H m tau Hin) as [L|(R1 & R2 & R3 & R4)]; ent; [left; exact L|right].
    destruct (r_in _ _ _ _ _ _ H _ R1) as (Q1 & _). rewrite app_nth1 by lia. repeat split; assumption || lia.
  - intros e tau E. exfalso. destruct (e_fail _ _ _ _ _ _ H e tau E) as (F0 & _).
    pose proof (a_len _ _ _ _ _ _ H). pose proof (a_max _ _ _ _ _ _ H). lia.
  - intros k Hk. destruct Hw as [[-> _]|(-> & _ & _ & _ & Hre)]; [apply (w_ne _ _ _ _ _ _ H k Hk)|].
    apply in_app_or in Hk. destruct Hk as [Hk|[<-|[]]]; [apply (w_ne _ _ _ _ _ _ H k Hk)|exact Hre].
  - intros k Hk. destruct (r_in _ _ _ _ _ _ H k Hk) as (Q1 & Q2 & Q3). rewrite app_length. cbn [length].
    split; [lia|]. split; [|exact Q3].
    destruct Hw as [[-> _]|(-> & _)]; [exact Q2|].
    rewrite in_app_iff. intros [Hin'|[Hin'|[]]]; [exact (Q2 Hin')|lia].
Qed.

(* ---------- a launched hedge task learns that its clone's poll_ready failed ---------- *)
Lemma fail_push_ok c i now n x k :
  Cbase c i now n 1 x -> Cdlv x -> pending x ->
  (1 <= k < length (launch x))%nat -> ~ In k (waiting x) -> ~ In k (map fst (starts x)) -> ~ In k (rfl x) ->
  (1 <= length (starts x))%nat ->
  Cfull c i now n
    (mkCall (ph x) (t0 x) (sp x) (errs x) (perr x) (dline x) (queue x ++ [(k, false, rval i k)])
            (launch x) (waiting x) (rdy x) (starts x) (gate x) true
            (dlog x ++ [((k, false, rval i k), now)]) (cons x) (res x) (rerr x) (rfl x ++ [k])).
Proof.
  intros H Hd Hp K1 K2 K3 K6 K7.
  assert (Hnd : ph x <> Done) by (apply pending_not_done; exact Hp).
  assert (Hkn : nth k (launch x) 0 <= now).
  { pose proof (b_le _ _ _ _ _ _ H) as Hle. rewrite Forall_forall in Hle. apply Hle. apply nth_In. lia. }
  assert (Hnin : ~ In k (map att (dlog x))).
  { intros Hin. destruct (att_owner c i now n 1 x k H Hin) as [A|A]; [exact (K3 A)|exact (K6 A)]. }
  pose proof (s_cnt _ _ _ _ _ _ H) as Hcnt.
  split; [|split; [|split]].
  - open_base H.
    constructor; cbn [ph t0 sp errs perr dline queue launch waiting rdy starts gate woken dlog cons res rerr rfl];
      unfold es in *; cbn [launch]; try assumption.
    + intros E. destruct Hp as [Hp|Hp]; congruence.
    + rewrite app_length. cbn. lia.
    + intros _. lia.
    + intros G n0 k' s' E. destruct (g_seq _ _ _ _ _ _ H G n0 k' s' E) as [E1 _]. split; [exact E1|].
      intros Er. destruct (rfl x); discriminate.
    + rewrite map_app, (c_log _ _ _ _ _ _ H), <- app_assoc. reflexivity.
    + intros m tau Hin. apply in_app_or in Hin. destruct Hin as [Hin|[Hin|[]]].
      * destruct (c_ent _ _ _ _ _ _ H m tau Hin) as [L|(R1 & R2)]; ent; [left; exact L|right].
        split; [apply in_or_app; left; exact R1|exact R2].
      * injection Hin as <- <-. ent. right. cbn. split; [apply in_or_app; right; left; reflexivity|].
        repeat split; try reflexivity; lia.
    + rewrite map_app. cbn. apply nodup_snoc; [apply (c_nd _ _ _ _ _ _ H)|exact Hnin].
    + intros _ _. reflexivity.
    + intros v0 tau E. destruct (e_res _ _ _ _ _ _ H _ _ _ E) as [E1 _]. contradiction.
    + intros v0 tau E. destruct (e_res _ _ _ _ _ _ H _ _ _ E) as [E1 _]. contradiction.
    + intros Hl v0 tau Hin Hlt. apply in_app_or in Hin. destruct Hin as [Hin|[Hin|[]]].
      * apply (f_one _ _ _ _ _ _ H Hl _ _ Hin Hlt).
      * discriminate Hin.
    + intros k' Hk'. apply in_app_or in Hk'. destruct Hk' as [Hk'|[<-|[]]].
      * apply (r_in _ _ _ _ _ _ H k' Hk').
      * split; [exact K1|]. split; assumption.
    + apply nodup_snoc; [apply (r_nd _ _ _ _ _ _ H)|exact K6].
    + intros _ k' Hk'. rewrite map_app, in_app_iff. apply in_app_or in Hk'. destruct Hk' as [Hk'|[<-|[]]].
      * left. apply (r_dlv _ _ _ _ _ _ H Hp k' Hk').
      * right. left. reflexivity.
  - intros _ n' k' s' o' Hk' Hg' Ho'. cbn [starts gate dlog] in *. rewrite map_app, in_app_iff.
    left. apply (Hd Hp n' k' s' o' Hk' Hg' Ho').
  - intros _ _. reflexivity.
  - intros _ _ _. reflexivity.
Qed.

Lemma fail_skip_ok c i now n x k :
  Cbase c i now n 1 x ->
  (1 <= k < length (launch x))%nat -> ~ In k (waiting x) -> ~ In k (map fst (starts x)) -> ~ In k (rfl x) ->
  (1 <= length (starts x))%nat -> ~ pending x ->
  Cfull c i now n
            (mkCall (ph x) (t0 x) (sp x) (errs x) (perr x) (dline x) (queue x) (launch x) (waiting x)
                    (rdy x) (starts x) (gate x) (woken x) (dlog x) (cons x) (res x) (rerr x) (rfl x ++ [k])).
Proof.
  intros H K1 K2 K3 K6 K7 Hn.
  { pose proof (s_cnt _ _ _ _ _ _ H) as Hcnt. split; [|split; [|split]].
    - open_base H.
      constructor; cbn [ph t0 sp errs perr dline queue launch waiting rdy starts gate woken dlog cons res rerr rfl];
        unfold es in *; cbn [launch]; try assumption.
      + rewrite app_length. cbn. lia.
      + intros _. lia.
      + intros G n0 k' s' E. destruct (g_seq _ _ _ _ _ _ H G n0 k' s' E) as [E1 _]. split; [exact E1|].
        intros Er. destruct (rfl x); discriminate.
      + intros m tau Hin. destruct (c_ent _ _ _ _ _ _ H m tau Hin) as [L|(R1 & R2)]; ent; [left; exact L|right].
        split; [apply in_or_app; left; exact R1|exact R2].
      + intros e tau E. exfalso. destruct (e_fail _ _ _ _ _ _ H e tau E) as (F0 & F1 & _). lia.
      + intros k' Hk'. apply in_app_or in Hk'. destruct Hk' as [Hk'|[<-|[]]].
        * apply (r_in _ _ _ _ _ _ H k' Hk').
        * split; [exact K1|]. split; assumption.
      + apply nodup_snoc; [apply (r_nd _ _ _ _ _ _ H)|exact K6].
      + intros Hp. contradiction.
    - intros Hp. contradiction.
    - intros E. exfalso. apply Hn. right. exact E.
    - intros E. exfalso. apply Hn. left. exact E. }
Qed.

Lemma fail_ready_ok c i now n x k :
  Cbase c i now n 1 x -> Cdlv x -> Bwk c now x ->
  (1 <= k < length (launch x))%nat -> ~ In k (waiting x) -> ~ In k (map fst (starts x)) -> ~ In k (rfl x) ->
  (1 <= length (starts x))%nat ->
  Cfull c i now n (fail_ready i now x k).
Proof.
  intros H Hd Hb K1 K2 K3 K6 K7.
  unfold fail_ready. destruct (ph x) eqn:P.
  - rewrite <- P. apply fail_skip_ok; try assumption. intros [E|E]; congruence.
  - rewrite <- P. apply fail_push_ok; try assumption. left. exact P.
  - rewrite <- P. apply fail_push_ok; try assumption. right. exact P.
  - rewrite <- P. apply fail_skip_ok; try assumption. intros [E|E]; congruence.
  - rewrite <- P. apply fail_skip_ok; try assumption. intros [E|E]; congruence.
Qed.

Lemma launch_ok c i now n x : Cfull c i now (S n) x -> Cfull c i now n (launch_task i now x).
Proof.
  intros (H & Hd & Hc & Hb). unfold launch_task.
  pose proof (s_cnt _ _ _ _ _ _ H) as Hcnt.
  assert (Hns : ~ In (length (launch x)) (map fst (starts x))).
  { intros Hin. apply in_map_iff in Hin. destruct Hin as [[k s] [E Hin]]. cbn in E. subst k.
    destruct (s_in _ _ _ _ _ _ H _ _ Hin) as [E _]. lia. }
  assert (Hnw : ~ In (length (launch x)) (waiting x)).
  { intros Hin. destruct (w_in _ _ _ _ _ _ H _ Hin) as [E _]. lia. }
  assert (Hnr : ~ In (length (launch x)) (rfl x)).
  { intros Hin. destruct (r_in _ _ _ _ _ _ H _ Hin) as [E _]. lia. }
  destruct (negb (Nat.eqb (length (launch x)) 0) && rerr x (length (launch x))) eqn:RE.
  { apply andb_true_iff in RE. destruct RE as [RE1 RE2]. apply Bool.negb_true_iff in RE1. apply Nat.eqb_neq in RE1.
    apply fail_ready_ok.
    - apply launched_base; [exact H|]. left. split; reflexivity.
    - exact Hd.
    - exact Hb.
    - cbn. rewrite app_length. cbn. lia.
    - exact Hnw.
    - exact Hns.
    - exact Hnr.
    - cbn. pose proof (s_pr _ _ _ _ _ _ H ltac:(lia)). lia. }
  destruct (Nat.eqb (length (launch x)) 0 || rdy x (length (launch x))) eqn:R.
  - apply call_inner_ok.
    + apply launched_base; [exact H|]. left. split; reflexivity.
    + exact Hd.
    + exact Hb.
    + cbn. rewrite app_length. cbn. lia.
    + exact Hnw.
    + exact Hns.
    + exact Hnr.
    + cbn. intros Es. destruct (Nat.eq_dec (length (launch x)) 0) as [E|E].
      * split; [exact E|]. apply length_zero_iff_nil in E. rewrite E. reflexivity.
      * exfalso. pose proof (s_pr _ _ _ _ _ _ H ltac:(lia)) as P. rewrite Es in P. cbn in P. lia.
    + cbn. intros G.
      assert (Ew : waiting x = []).
      { destruct (waiting x) as [|k0 l] eqn:Ew; [reflexivity|exfalso].
        destruct (w_in _ _ _ _ _ _ H k0) as [_ E]; [rewrite Ew; left; reflexivity|].
        rewrite (g_off _ _ _ _ _ _ H G k0) in E. discriminate. }
      rewrite Ew in Hcnt. cbn in Hcnt. split; [|split].
      * rewrite app_nth2 by lia. rewrite Nat.sub_diag. reflexivity.
      * intros k' s' Hin. destruct (s_in _ _ _ _ _ _ H _ _ Hin) as [E _]. exact E.
      * intros Er. rewrite Er in Hcnt. cbn in Hcnt. lia.
  - apply orb_false_iff in R. destruct R as [R1 R2]. apply Nat.eqb_neq in R1.
    assert (R3 : rerr x (length (launch x)) = false).
    { apply andb_false_iff in RE. destruct RE as [RE|RE]; [|exact RE].
      apply Bool.negb_false_iff in RE. apply Nat.eqb_eq in RE. contradiction. }
    split; [|split; [|split]].
    + apply launched_base; [exact H|]. right. repeat split; try assumption; lia.
    + exact Hd.
    + intros _ Cl. apply closed_spec in Cl. destruct Cl as (_ & Cl & _). cbn in Cl.
      destruct (waiting x); discriminate.
    + exact Hb.
Qed.

Lemma run_tasks_ok c i now n : forall x, Cfull c i now n x -> Cfull c i now 0 (run_tasks i now n x).
Proof.
  induction n as [|n IH]; intros x H; cbn [run_tasks]; [exact H|].
  apply IH. apply launch_ok. exact H.
Qed.

(* what running tasks leaves alone *)
Lemma finish_frame i now y k n o :
  launch (finish i now y k n o) = launch y /\ starts (finish i now y k n o) = starts y /\
  res (finish i now y k n o) = res y /\ rdy (finish i now y k n o) = rdy y.
Proof.
  unfold finish. destruct (ph y); try (repeat split; fail); destruct o; try (repeat split; fail);
    destruct (closed y); repeat split.
Qed.

Lemma call_inner_frame i now y k :
  launch (call_inner i now y k) = launch y /\ res (call_inner i now y k) = res y /\
  starts (call_inner i now y k) = starts y ++ [(k, now)] /\ rdy (call_inner i now y k) = rdy y.
Proof.
  unfold call_inner. destruct (gate y (length (starts y))).
  - destruct (finish_frame i now
      (mkCall (ph y) (t0 y) (sp y) (errs y) (perr y) (dline y) (queue y) (launch y) (waiting y)
              (rdy y) (starts y ++ [(k, now)]) (gate y) (woken y) (dlog y) (cons y) (res y) (rerr y) (rfl y))
      k (length (starts y)) o) as (E1 & E2 & E3 & E4).
    rewrite E1, E2, E3, E4. repeat split.
  - repeat split.
Qed.

Lemma fail_ready_frame i now y k :
  launch (fail_ready i now y k) = launch y /\ res (fail_ready i now y k) = res y /\
  starts (fail_ready i now y k) = starts y /\ rdy (fail_ready i now y k) = rdy y.
Proof. unfold fail_ready. destruct (ph y); repeat split. Qed.

Lemma launch_task_frame i now y :
  launch (launch_task i now y) = launch y ++ [now] /\ res (launch_task i now y) = res y /\
  rdy (launch_task i now y) = rdy y /\
  starts (launch_task i now y) =
    if negb (Nat.eqb (length (launch y)) 0) && rerr y (length (launch y)) then starts y
    else if Nat.eqb (length (launch y)) 0 || rdy y (length (launch y))
    then starts y ++ [(length (launch y), now)] else starts y.
Proof.
  unfold launch_task. destruct (negb (Nat.eqb (length (launch y)) 0) && rerr y (length (launch y))).
  - match goal with |- context [fail_ready i now ?z ?k] =>
      destruct (fail_ready_frame i now z k) as (E1 & E2 & E3 & E4) end.
    rewrite E1, E2, E3, E4. repeat split.
  - destruct (Nat.eqb (length (launch y)) 0 || rdy y (length (launch y))).
    + match goal with |- context [call_inner i now ?z ?k] =>
        destruct (call_inner_frame i now z k) as (E1 & E2 & E3 & E4) end.
      rewrite E1, E2, E3, E4. repeat split.
    + repeat split.
Qed.

Lemma run_tasks_launch i now n : forall x, launch (run_tasks i now n x) = launch x ++ repeat now n.
Proof.
  induction n as [|n IH]; intros x; cbn [run_tasks repeat]; [rewrite app_nil_r; reflexivity|].
  rewrite IH. destruct (launch_task_frame i now x) as (E & _). rewrite E, <- app_assoc. reflexivity.
Qed.

Lemma run_tasks_res i now n : forall x, res (run_tasks i now n x) = res x.
Proof.
  induction n as [|n IH]; intros x; cbn [run_tasks]; [reflexivity|].
  rewrite IH. destruct (launch_task_frame i now x) as (_ & E & _). exact E.
Qed.

(* ---------- the script completes an inner call ---------- *)
Lemma failed_spec_gate c i x x' e tau :
  launch x' = launch x -> starts x' = starts x -> dlog x' = dlog x -> rfl x' = rfl x ->
  (forall k o, gate x k = Some o -> gate x' k = Some o) ->
  failed_spec c i x e tau -> failed_spec c i x' e tau.
Proof.
  intros E0 E1 E2 E3 Hg (F0 & F1 & F2 & FR & F3 & F4). unfold failed_spec. rewrite E0, E1, E2, E3.
  split; [exact F0|]. split; [exact F1|]. split; [|split; [exact FR|split; [|exact F4]]].
  - intros k Hk. destruct (F2 k Hk) as (o & G & R). exists o. split; [apply Hg; exact G|exact R].
  - intros L M. destruct (F3 L M) as [R1 R2]. split; [exact R1|]. intros k Hk. apply Hg. apply R2. exact Hk.
Qed.

Lemma complete_ok c i now x n0 o :
  Cfull c i now 0 x -> Cfull c i now 0 (complete_call i now x n0 o).
Proof.
  intros (H & Hd & Hc & Hb). unfold complete_call.
  destruct (gate x n0) eqn:G; [exact (conj H (conj Hd (conj Hc Hb)))|].
  set (x1 := mkCall (ph x) (t0 x) (sp x) (errs x) (perr x) (dline x) (queue x) (launch x) (waiting x)
                    (rdy x) (starts x) (fun j => if Nat.eqb j n0 then Some o else gate x j) (woken x)
                    (dlog x) (cons x) (res x) (rerr x) (rfl x)).
  assert (Hg : forall j o', gate x j = Some o' -> gate x1 j = Some o').
  { intros j o' Gj. unfold x1. cbn. destruct (Nat.eqb_spec j n0) as [->|_]; [congruence|exact Gj]. }
  assert (Hg2 : forall j, j <> n0 -> gate x1 j = gate x j).
  { intros j Hj. unfold x1. cbn. apply Nat.eqb_neq in Hj. rewrite Hj. reflexivity. }
  assert (H1 : Cbase c i now 0 0 x1).
  { open_base H.
    constructor; unfold x1; cbn [ph t0 sp errs perr dline queue launch waiting rdy starts gate woken dlog cons res rerr rfl];
      unfold es in *; cbn [launch]; try assumption.
    - intros m tau Hin. destruct (c_ent _ _ _ _ _ _ H m tau Hin) as [(n1 & s & E1 & E2 & E3)|R]; ent.
      + left. exists n1, s. split; [exact E1|]. split; [apply (Hg _ _ E2)|exact E3].
      + right. exact R.
    - intros e tau E. apply (failed_spec_gate c i x); try reflexivity; [exact Hg|].
      apply (e_fail _ _ _ _ _ _ H). exact E. }
  destruct (nth_error (starts x) n0) as [[k s]|] eqn:K.
  - apply (finish_ok c i now 0 x1 k n0 s o); try assumption.
    + intros Hp n' k' s' o' Hne Hk' Hg' Ho'. rewrite (Hg2 n' Hne) in Hg'. apply (Hd Hp n' k' s' o'); assumption.
    + unfold x1. cbn. rewrite Nat.eqb_refl. reflexivity.
    + intros Hin. apply in_map_iff in Hin. destruct Hin as [[m tau] [E Hin]]. unfold att in E. cbn in E.
      destruct (c_ent _ _ _ _ _ _ H m tau Hin) as [(n1 & s1 & E1 & E2 & _)|(R1 & _)].
      * rewrite E in E1.
        pose proof (owner_inj (starts x) (s_nd _ _ _ _ _ _ H) n1 n0 k s1 s E1 K). congruence.
      * rewrite E in R1. destruct (r_in _ _ _ _ _ _ H k R1) as (_ & _ & Q). apply Q.
        apply in_map_iff. exists (k, s). split; [reflexivity|apply (nth_error_In _ _ K)].
  - split; [exact H1|split; [|split]].
    + intros Hp n' k' s' o' Hk' Hg' Ho'. unfold x1 in Hk'. cbn in Hk'.
      rewrite (Hg2 n') in Hg' by congruence. apply (Hd Hp n' k' s' o'); assumption.
    + intros E Cl. apply (Hc E). apply closed_spec. apply closed_spec in Cl.
      destruct Cl as (C1 & C2 & C3). split; [exact C1|]. split; [exact C2|]. intros j Hj.
      unfold x1 in C3. cbn in C3. rewrite <- (Hg2 j).
      * apply C3. exact Hj.
      * intros ->. apply nth_error_None in K. lia.
    + exact Hb.
Qed.

(* ---------- the script makes a clone ready ---------- *)
Lemma ready_ok c i now x k :
  Cfull c i now 0 x -> Cfull c i now 0 (ready_call i now x k).
Proof.
  intros (H & Hd & Hc & Hb). unfold ready_call.
  destruct (rdy x k) eqn:R; [exact (conj H (conj Hd (conj Hc Hb)))|].
  set (x1 := mkCall (ph x) (t0 x) (sp x) (errs x) (perr x) (dline x) (queue x) (launch x)
                    (remove_id k (waiting x)) (fun j => if Nat.eqb j k then true else rdy x j)
                    (starts x) (gate x) (woken x) (dlog x) (cons x) (res x) (rerr x) (rfl x)).
  assert (Hb1 : forall h, (length (starts x) + length (remove_id k (waiting x)) + length (rfl x) + h = length (launch x))%nat ->
                Cbase c i now 0 h x1).
  { intros h Hh. open_base H.
    constructor; unfold x1; cbn [ph t0 sp errs perr dline queue launch waiting rdy starts gate woken dlog cons res rerr rfl];
      unfold es in *; cbn [launch]; try assumption.
    - intros k' s' Hin. destruct (s_in _ _ _ _ _ _ H k' s' Hin) as (E1 & E2 & E3).
      split; [exact E1|]. split; [|exact E3]. intros Hin'. apply in_remove_id in Hin'. apply E2. apply Hin'.
    - intros Hl. pose proof (s_pr _ _ _ _ _ _ H Hl). lia.
    - intros k' Hk'. apply in_remove_id in Hk'. destruct Hk' as [Hk' Hne].
      destruct (w_in _ _ _ _ _ _ H k' Hk') as [E1 E2]. split; [exact E1|].
      apply Nat.eqb_neq in Hne. rewrite Hne. exact E2.
    - apply NoDup_filter. exact (w_nd _ _ _ _ _ _ H).
    - intros G k'. destruct (Nat.eqb k' k); [reflexivity|apply (g_off _ _ _ _ _ _ H G)].
    - intros k' Hk'. apply in_remove_id in Hk'. destruct Hk' as [Hk' _]. apply (w_ne _ _ _ _ _ _ H k' Hk').
    - intros k' Hk'. destruct (r_in _ _ _ _ _ _ H k' Hk') as (Q1 & Q2 & Q3). split; [exact Q1|]. split; [|exact Q3].
      intros Hin'. apply in_remove_id in Hin'. apply Q2. apply Hin'. }
  pose proof (s_cnt _ _ _ _ _ _ H) as Hcnt.
  destruct (mem k (waiting x)) eqn:M.
  - apply mem_In in M. destruct (w_in _ _ _ _ _ _ H k M) as [K1 _].
    pose proof (length_remove_id k (waiting x) (w_nd _ _ _ _ _ _ H) M) as L.
    apply call_inner_ok.
    + apply Hb1. lia.
    + exact Hd.
    + exact Hb.
    + unfold x1. cbn. lia.
    + unfold x1. cbn. intros Hin. apply in_remove_id in Hin. destruct Hin as [_ Hin]. congruence.
    + unfold x1. cbn. intros Hin. apply in_map_iff in Hin. destruct Hin as [[k' s] [E Hin]]. cbn in E. subst k'.
      destruct (s_in _ _ _ _ _ _ H _ _ Hin) as (_ & E & _). contradiction.
    + unfold x1. cbn. intros Hin. destruct (r_in _ _ _ _ _ _ H k Hin) as (_ & Q & _). contradiction.
    + unfold x1. cbn. intros Es. exfalso.
      pose proof (s_pr _ _ _ _ _ _ H ltac:(lia)) as P. rewrite Es in P. cbn in P. lia.
    + intros G. rewrite (g_off _ _ _ _ _ _ H G k) in R. discriminate.
  - assert (Hn : ~ In k (waiting x)).
    { intros Hin. apply mem_In in Hin. congruence. }
    pose proof (remove_id_notin k (waiting x) Hn) as Er.
    split; [apply Hb1; rewrite Er; lia|split; [|split]].
    + exact Hd.
    + intros E Cl. apply (Hc E). apply closed_spec. apply closed_spec in Cl.
      destruct Cl as (C1 & C2 & C3). unfold x1 in C1, C2, C3. cbn in C1, C2, C3. rewrite Er in C2.
      split; [exact C1|]. split; [exact C2|exact C3].
    + exact Hb.
Qed.

(* ---------- the script makes a clone's poll_ready fail ---------- *)
Lemma readyerr_ok c i now x k :
  Cfull c i now 0 x -> Cfull c i now 0 (readyerr_call i now x k).
Proof.
  intros (H & Hd & Hc & Hb). unfold readyerr_call.
  destruct (rerr x k) eqn:R; [exact (conj H (conj Hd (conj Hc Hb)))|].
  set (x1 := mkCall (ph x) (t0 x) (sp x) (errs x) (perr x) (dline x) (queue x) (launch x)
                    (remove_id k (waiting x)) (rdy x)
                    (starts x) (gate x) (woken x) (dlog x) (cons x) (res x)
                    (fun j => if Nat.eqb j k then true else rerr x j) (rfl x)).
  assert (Hb1 : forall h, (length (starts x) + length (remove_id k (waiting x)) + length (rfl x) + h = length (launch x))%nat ->
                Cbase c i now 0 h x1).
  { intros h Hh. open_base H.
    constructor; unfold x1; cbn [ph t0 sp errs perr dline queue launch waiting rdy starts gate woken dlog cons res rerr rfl];
      unfold es in *; cbn [launch]; try assumption.
    - intros k' s' Hin. destruct (s_in _ _ _ _ _ _ H k' s' Hin) as (E1 & E2 & E3).
      split; [exact E1|]. split; [|exact E3]. intros Hin'. apply in_remove_id in Hin'. apply E2. apply Hin'.
    - intros Hl. pose proof (s_pr _ _ _ _ _ _ H Hl). lia.
    - intros k' Hk'. apply in_remove_id in Hk'. destruct Hk' as [Hk' Hne].
      apply (w_in _ _ _ _ _ _ H k' Hk').
    - apply NoDup_filter. exact (w_nd _ _ _ _ _ _ H).
    - intros k' Hk'. apply in_remove_id in Hk'. destruct Hk' as [Hk' Hne].
      apply Nat.eqb_neq in Hne. rewrite Hne. apply (w_ne _ _ _ _ _ _ H k' Hk').
    - intros k' Hk'. destruct (r_in _ _ _ _ _ _ H k' Hk') as (Q1 & Q2 & Q3). split; [exact Q1|]. split; [|exact Q3].
      intros Hin'. apply in_remove_id in Hin'. apply Q2. apply Hin'. }
  pose proof (s_cnt _ _ _ _ _ _ H) as Hcnt.
  destruct (mem k (waiting x)) eqn:M.
  - apply mem_In in M. destruct (w_in _ _ _ _ _ _ H k M) as [K1 _].
    pose proof (length_remove_id k (waiting x) (w_nd _ _ _ _ _ _ H) M) as L.
    apply fail_ready_ok.
    + apply Hb1. lia.
    + exact Hd.
    + exact Hb.
    + unfold x1. cbn. lia.
    + unfold x1. cbn. intros Hin. apply in_remove_id in Hin. destruct Hin as [_ Hin]. congruence.
    + unfold x1. cbn. intros Hin. apply in_map_iff in Hin. destruct Hin as [[k' s] [E Hin]]. cbn in E. subst k'.
      destruct (s_in _ _ _ _ _ _ H _ _ Hin) as (_ & E & _). contradiction.
    + unfold x1. cbn. intros Hin. destruct (r_in _ _ _ _ _ _ H k Hin) as (_ & Q & _). contradiction.
    + unfold x1. cbn. pose proof (s_pr _ _ _ _ _ _ H ltac:(lia)) as P. lia.
  - assert (Hn : ~ In k (waiting x)).
    { intros Hin. apply mem_In in Hin. congruence. }
    pose proof (remove_id_notin k (waiting x) Hn) as Er.
    split; [apply Hb1; rewrite Er; lia|split; [|split]].
    + exact Hd.
    + intros E Cl. apply (Hc E). apply closed_spec. apply closed_spec in Cl.
      destruct Cl as (C1 & C2 & C3). unfold x1 in C1, C2, C3. cbn in C1, C2, C3. rewrite Er in C2.
      split; [exact C1|]. split; [exact C2|exact C3].
    + exact Hb.
Qed.

(* ---------- cancellation ---------- *)
Lemma drop_ok c i now x : Cfull c i now 0 x -> Cfull c i now 0 (drop_call x).
Proof.
  intros (H & Hd & Hc & Hb).
  assert (Hgo : ph x <> Done -> Cfull c i now 0
            (mkCall Dropped (t0 x) (sp x) (errs x) (perr x) (dline x) (queue x) (launch x) (waiting x)
                    (rdy x) (starts x) (gate x) false (dlog x) (cons x) (res x) (rerr x) (rfl x))).
  { intros Hnd.
    assert (Hnp : forall y, ph y = Dropped -> ~ pending y) by (intros y E [P|P]; congruence).
    assert (Hres : forall r0 v0 tau, res x <> Some (r0, v0, tau)).
    { intros r0 v0 tau E. destruct (e_res _ _ _ _ _ _ H _ _ _ E) as [E1 _]. contradiction. }
    split; [|split; [|split]].
    - open_base H.
      constructor; cbn [ph t0 sp errs perr dline queue launch waiting rdy starts gate woken dlog cons res rerr rfl];
        unfold es in *; cbn [launch]; try assumption; try (intros; discriminate);
        try (intros P; exfalso; revert P; apply Hnp; reflexivity);
        try (intros ? ? E; exfalso; revert E; apply Hres);
        try (intros ? ? ? E; exfalso; revert E; apply Hres).
    - intros P. exfalso. revert P. apply Hnp. reflexivity.
    - intros E. discriminate.
    - intros E. discriminate. }
  unfold drop_call. destruct (ph x) eqn:P; try (apply Hgo; congruence);
    exact (conj H (conj Hd (conj Hc Hb))).
Qed.

(* ---------- the clock advances ---------- *)
Lemma advance_ok c i now t1 x :
  now <= t1 -> Cfull c i now 0 x -> Cfull c i t1 0 (advance_call c now t1 x).
Proof.
  intros Ht (H & Hd & Hc & Hb). unfold advance_call. split; [|split; [|split]].
  - open_base H.
    constructor; cbn [ph t0 sp errs perr dline queue launch waiting rdy starts gate woken dlog cons res rerr rfl];
      unfold es in *; cbn [launch repeat] in *; try assumption.
    + eapply Forall_impl; [|exact (b_le _ _ _ _ _ _ H)]. cbn. intros; lia.
    + intros k s Hin. destruct (s_in _ _ _ _ _ _ H k s Hin) as (E1 & E2 & E3).
      repeat split; try assumption; lia.
    + intros m tau Hin. destruct (c_ent _ _ _ _ _ _ H m tau Hin) as [(n0 & s & E1 & E2 & E3 & E4)|(R1 & R2 & R3 & R4)]; ent.
      * left. exists n0, s. repeat split; try assumption; lia.
      * right. repeat split; try assumption; lia.
    + intros P Q. rewrite (d_wk _ _ _ _ _ _ H P Q). reflexivity.
    + intros r0 v0 tau E. destruct (e_res _ _ _ _ _ _ H r0 v0 tau E) as [E1 E2]. split; [exact E1|lia].
  - exact Hd.
  - intros E Cl. cbn in E. cbn [woken]. rewrite Hc; [reflexivity|exact E|].
    rewrite <- Cl. reflexivity.
  - intros E S D. cbn in E, S, D. cbn [woken].
    destruct (Z.le_gt_cases (dline x) now) as [L|L].
    + rewrite (Hb E S L). reflexivity.
    + unfold timer_fires. rewrite E.
      apply Nat.ltb_lt in S. rewrite S. apply Z.ltb_lt in L. rewrite L.
      apply Z.leb_le in D. rewrite D. apply orb_true_r.
Qed.

(* ---------- the call future resolves ---------- *)
Lemma resolve_ok c i now n x r v cs rest e pe :
  Cbase c i now n 0 x ->
  cons x ++ queue x = cs ++ rest ->
  (r = 1 -> exists k t1, find it_ok (map fst (dlog x)) = Some (k, true, v) /\
                         In ((k, true, v), t1) (dlog x) /\ t1 <= now) ->
  (r = 3 -> failed_spec c i x v now) ->
  Cfull c i now n (resolve now x r v cs rest e pe).
Proof.
  intros H Hlog Hok Hfail. unfold resolve.
  assert (Hnp : forall y, ph y = Done -> ~ pending y) by (intros y E [P|P]; congruence).
  split; [|split; [|split]].
  - open_base H.
    constructor; cbn [ph t0 sp errs perr dline queue launch waiting rdy starts gate woken dlog cons res rerr rfl];
      unfold es in *; cbn [launch]; try assumption; try (intros; discriminate);
      try (intros P; exfalso; revert P; apply Hnp; reflexivity).
    + rewrite (c_log _ _ _ _ _ _ H). exact Hlog.
    + intros r0 v0 tau E. injection E as -> -> ->. split; [reflexivity|lia].
    + intros v0 tau E. injection E as -> -> ->. apply Hok. reflexivity.
    + intros e0 tau E. injection E as -> -> ->. apply Hfail. reflexivity.
  - intros P. exfalso. revert P. apply Hnp. reflexivity.
  - intros E. discriminate.
  - intros E. discriminate.
Qed.

Lemma in_log c i now n h x m :
  Cbase c i now n h x -> In m (cons x ++ queue x) -> exists tau, In (m, tau) (dlog x).
Proof.
  intros H Hin. rewrite <- (c_log _ _ _ _ _ _ H) in Hin. apply in_map_iff in Hin.
  destruct Hin as [[m' tau] [E Hin]]. cbn in E. subst m'. exists tau. exact Hin.
Qed.

Lemma dlog_len c i now n h x :
  Cbase c i now n h x -> (length (dlog x) <= length (starts x) + length (rfl x))%nat.
Proof.
  intros H. rewrite <- (map_length att), <- (map_length fst (starts x)), <- app_length.
  apply NoDup_incl_length; [apply (c_nd _ _ _ _ _ _ H)|].
  intros k Hk. apply in_or_app. apply (att_owner c i now n h x k H Hk).
Qed.

(* the success case of both receive loops *)
Lemma ok_found c i now n x pre m rest :
  Cbase c i now n 0 x -> pending x ->
  queue x = pre ++ m :: rest -> Forall is_err pre -> it_ok m = true ->
  exists k t1, find it_ok (map fst (dlog x)) = Some (k, true, it_val m) /\
               In ((k, true, it_val m), t1) (dlog x) /\ t1 <= now.
Proof.
  intros H Hp Hq Hpre Hm.
  assert (Hin : In m (cons x ++ queue x)).
  { rewrite Hq. apply in_or_app. right. apply in_or_app. right. left. reflexivity. }
  destruct (in_log _ _ _ _ _ _ _ H Hin) as [t1 Ht1].
  destruct m as [[k ok] v0]. cbn in Hm. subst ok. exists k, t1. cbn [it_val snd].
  split; [|split; [exact Ht1|]].
  - rewrite (c_log _ _ _ _ _ _ H), Hq. rewrite find_skip by (apply (c_err _ _ _ _ _ _ H Hp)).
    rewrite find_skip by exact Hpre. reflexivity.
  - destruct (c_ent _ _ _ _ _ _ H _ _ Ht1) as [(n0 & s & _ & _ & _ & E)|(_ & _ & _ & E)]; lia.
Qed.

Lemma spaced_extend c l now d :
  spaced c l -> (1 <= length l)%nat ->
  ((0 < d)%nat -> nth (length l - 1) l 0 + delay c (length l) <= now) ->
  (forall j, (length l < j < length l + d)%nat -> delay c j = 0) ->
  spaced c (l ++ repeat now d).
Proof.
  intros Hs Hl Hfirst Hz k Hk. rewrite app_length, repeat_length in Hk.
  destruct (Nat.lt_ge_cases (S k) (length l)) as [L|L].
  - rewrite !app_nth1 by lia. apply Hs. lia.
  - rewrite (nth_app_repeat l now d 0 (S k)) by lia.
    destruct (Nat.eq_dec (S k) (length l)) as [E|E].
    + rewrite app_nth1 by lia. rewrite E.
      replace k with (length l - 1)%nat by lia. apply Hfirst. lia.
    + rewrite (nth_app_repeat l now d 0 k) by lia. rewrite (Hz (S k)) by lia. lia.
Qed.

Lemma item_eta (m : item) : m = (it_att m, it_ok m, it_val m).
Proof. destruct m as [[k ok] v]. reflexivity. Qed.

(* a logged message of an attempt that made an inner call / that failed readiness *)
Lemma log_of_start c i now n h x n0 k s m tk :
  Cbase c i now n h x -> nth_error (starts x) n0 = Some (k, s) -> In (m, tk) (dlog x) -> it_att m = k ->
  gate x n0 = Some (out_of (it_ok m)) /\ it_val m = val i n0 /\ tk <= now.
Proof.
  intros H K Hin E.
  destruct (c_ent _ _ _ _ _ _ H m tk Hin) as [(n1 & s1 & E1 & E2 & E3 & E4)|(R1 & _)].
  - rewrite E in E1.
    pose proof (owner_inj (starts x) (s_nd _ _ _ _ _ _ H) n1 n0 k s1 s E1 K) as En. subst n1.
    split; [exact E2|]. split; [exact E3|lia].
  - exfalso. rewrite E in R1. destruct (r_in _ _ _ _ _ _ H k R1) as (_ & _ & Q). apply Q.
    apply in_map_iff. exists (k, s). split; [reflexivity|apply (nth_error_In _ _ K)].
Qed.

Lemma log_of_rfail c i now n h x k m tk :
  Cbase c i now n h x -> In k (rfl x) -> In (m, tk) (dlog x) -> it_att m = k ->
  m = (k, false, rval i k) /\ tk <= now.
Proof.
  intros H K Hin E.
  destruct (c_ent _ _ _ _ _ _ H m tk Hin) as [(n1 & s1 & E1 & _)|(R1 & R2 & R3 & R4)].
  - exfalso. rewrite E in E1. destruct (r_in _ _ _ _ _ _ H k K) as (_ & _ & Q). apply Q.
    apply in_map_iff. exists (k, s1). split; [reflexivity|apply (nth_error_In _ _ E1)].
  - split; [|lia]. rewrite (item_eta m), E, R2, R3, E. reflexivity.
Qed.

(* every one of the max attempts has delivered an error *)
Lemma all_errors c i now n x :
  Cbase c i now n 0 x -> Forall is_err (cons x ++ queue x) ->
  (maxa c <= length (cons x ++ queue x))%nat ->
  length (launch x) = maxa c /\ (length (starts x) + length (rfl x) = maxa c)%nat /\
  (forall n0, (n0 < length (starts x))%nat ->
    exists k tk, In ((k, false, val i n0), tk) (dlog x) /\ gate x n0 = Some OErr /\ tk <= now /\
                 (n0 = 0%nat -> k = 0%nat)) /\
  (forall k, In k (rfl x) -> exists tk, In ((k, false, rval i k), tk) (dlog x) /\ tk <= now).
Proof.
  intros H Herr Hlen.
  pose proof (dlog_len _ _ _ _ _ _ H) as L1. pose proof (a_len _ _ _ _ _ _ H) as L2.
  pose proof (a_max _ _ _ _ _ _ H) as L3. pose proof (s_cnt _ _ _ _ _ _ H) as L5.
  assert (L4 : length (dlog x) = length (cons x ++ queue x)).
  { rewrite <- (c_log _ _ _ _ _ _ H), map_length. reflexivity. }
  assert (Hincl : incl (map fst (starts x) ++ rfl x) (map att (dlog x))).
  { apply NoDup_length_incl; [apply (c_nd _ _ _ _ _ _ H)|rewrite app_length, !map_length; lia|].
    intros j Hj. apply in_or_app. apply (att_owner c i now n 0 x j H Hj). }
  assert (Hm : forall m tk, In (m, tk) (dlog x) -> is_err m).
  { intros m tk Hin. rewrite Forall_forall in Herr. apply Herr. rewrite <- (c_log _ _ _ _ _ _ H).
    apply in_map_iff. exists (m, tk). split; [reflexivity|exact Hin]. }
  split; [lia|]. split; [lia|]. split.
  - intros n0 Hn0.
    destruct (nth_error (starts x) n0) as [[k s]|] eqn:K; [|apply nth_error_None in K; lia].
    assert (Hin : In k (map att (dlog x))).
    { apply Hincl. apply in_or_app. left. apply in_map_iff. exists (k, s). split; [reflexivity|apply (nth_error_In _ _ K)]. }
    apply in_map_iff in Hin. destruct Hin as [[m tk] [E Hin]]. unfold att in E. cbn in E.
    destruct (log_of_start c i now n 0 x n0 k s m tk H K Hin E) as (E2 & E3 & E4).
    pose proof (Hm m tk Hin) as Hme. unfold is_err in Hme. rewrite Hme in E2. cbn in E2.
    exists k, tk. split; [|split; [exact E2|split; [exact E4|]]].
    + rewrite (item_eta m) in Hin. rewrite E, Hme, E3 in Hin. exact Hin.
    + intros ->. apply (s_hd _ _ _ _ _ _ H k s K).
  - intros k Hk.
    assert (Hin : In k (map att (dlog x))) by (apply Hincl; apply in_or_app; right; exact Hk).
    apply in_map_iff in Hin. destruct Hin as [[m tk] [E Hin]]. unfold att in E. cbn in E.
    destruct (log_of_rfail c i now n 0 x k m tk H Hk Hin E) as (E1 & E2). subst m.
    exists tk. split; [exact Hin|exact E2].
Qed.

(* a message of the primary carries the value of inner call 0 *)
Lemma primary_val c i now n h x m :
  Cbase c i now n h x -> In m (cons x ++ queue x) -> it_att m = 0%nat -> it_val m = val i 0.
Proof.
  intros H Hin E. destruct (in_log _ _ _ _ _ _ _ H Hin) as [tau Hin'].
  destruct (c_ent _ _ _ _ _ _ H _ _ Hin') as [(n0 & s & E1 & _ & E3 & _)|(R1 & _)].
  - rewrite E in E1.
    destruct (nth_error (starts x) 0) as [[k0 s0]|] eqn:K0.
    + destruct (s_hd _ _ _ _ _ _ H k0 s0 K0) as [Ek0 _]. subst k0.
      pose proof (owner_inj (starts x) (s_nd _ _ _ _ _ _ H) n0 0 0%nat s s0 E1 K0). subst n0. exact E3.
    + apply nth_error_None in K0. assert (n0 < length (starts x))%nat by (apply nth_error_Some; congruence). lia.
  - exfalso. rewrite E in R1. destruct (r_in _ _ _ _ _ _ H _ R1) as (Q & _). lia.
Qed.

Lemma lat_failed c i now n x pre m rest :
  Cbase c i now n 0 x -> ph x = Latency ->
  queue x = pre ++ m :: rest -> Forall is_err pre -> it_ok m = false ->
  (maxa c <= errs x + length pre + 1)%nat ->
  failed_spec c i x (match upd_pe (pre ++ [m]) (perr x) with Some e => e | None => it_val m end) now.
Proof.
  intros H P Hq Hpre Hm Hmax.
  assert (Hp : pending x) by (left; exact P).
  destruct (c_lat _ _ _ _ _ _ H P) as (Le & Lv & Ls).
  pose proof (dlog_len _ _ _ _ _ _ H) as L1. pose proof (a_len _ _ _ _ _ _ H) as L2.
  pose proof (a_max _ _ _ _ _ _ H) as L3. pose proof (s_cnt _ _ _ _ _ _ H) as L5.
  assert (L4 : length (dlog x) = length (cons x ++ queue x)).
  { rewrite <- (c_log _ _ _ _ _ _ H), map_length. reflexivity. }
  assert (Hrest : rest = []).
  { rewrite Hq, !app_length in L4. cbn [length] in L4. destruct rest; [reflexivity|cbn [length] in L4; lia]. }
  subst rest.
  assert (Herr : Forall is_err (cons x ++ queue x)).
  { rewrite Hq. apply Forall_app. split; [apply (c_err _ _ _ _ _ _ H Hp)|].
    apply Forall_app. split; [exact Hpre|]. constructor; [exact Hm|constructor]. }
  destruct (all_errors c i now n x H Herr) as (Hl & Hs & Hall & Hrf).
  { rewrite Hq, !app_length. cbn [length]. lia. }
  destruct (a_lat _ _ _ _ _ _ H P) as [Hlm Hm1].
  pose proof (s_pr _ _ _ _ _ _ H ltac:(lia)) as Hs1.
  split; [exact Hl|]. split; [exact Hs|]. split; [|split; [exact Hrf|split]].
  - intros n0 Hn0. destruct (Hall n0 Hn0) as (k & tk & T1 & T2 & T3 & _). exists OErr.
    split; [exact T2|]. split; [discriminate|]. intros _. exists k, tk. split; [exact T1|exact T3].
  - intros _ _. split.
    + destruct (Hall 0%nat ltac:(lia)) as (k & tk & T1 & _ & _ & T4). specialize (T4 eq_refl). subst k.
      assert (Hin0 : In 0%nat (map it_att (cons x ++ queue x))).
      { rewrite <- (c_log _ _ _ _ _ _ H), map_map. apply in_map_iff.
        exists ((0%nat, false, val i 0), tk). split; [reflexivity|exact T1]. }
      rewrite Hq, map_app, in_app_iff in Hin0.
      assert (Hne : upd_pe (pre ++ [m]) (perr x) <> None).
      { apply upd_pe_some. destruct Hin0 as [Hin0|Hin0]; [right; apply Ls; exact Hin0|left; exact Hin0]. }
      destruct (upd_pe (pre ++ [m]) (perr x)) as [e0|] eqn:U; [|congruence].
      apply (upd_pe_val i (pre ++ [m]) (perr x)); [|exact Lv|exact U].
      intros m' Hm' E'. apply (primary_val c i now n 0 x m' H); [|exact E'].
      rewrite Hq. apply in_or_app. right. exact Hm'.
    + intros n0 Hn0. destruct (Hall n0 Hn0) as (k & tk & _ & T2 & _). exact T2.
  - intros [E|E]; [congruence|lia].
Qed.

(* the error counter stays below max_hedged_attempts as long as the timer loop goes on *)
Lemma consume_lat_cont mx q : forall cs e pe,
  match consume_lat mx q cs e pe with
  | CCont _ e' _ => (e < mx)%nat -> (e' < mx)%nat
  | CDone _ _ _ _ _ _ => True
  end.
Proof.
  induction q as [|[[k ok] v] q IH]; intros cs e pe; cbn [consume_lat]; [auto|].
  destruct ok; [exact I|]. destruct (mx <=? S e)%nat eqn:G; [exact I|].
  apply Nat.leb_gt in G.
  specialize (IH (cs ++ [(k, false, v)]) (S e) (if Nat.eqb k 0 then Some v else pe)).
  destruct (consume_lat mx q (cs ++ [(k, false, v)]) (S e) (if Nat.eqb k 0 then Some v else pe)); [exact I|].
  intros _. apply IH. exact G.
Qed.

Lemma poll_lat_ok c i now n x :
  Cbase c i now n 0 x -> Cdlv x -> ph x = Latency ->
  let x1 := fst (fst (poll_latency c now x)) in
  Cfull c i now (sp x1 - length (launch x1)) x1.
Proof.
  intros H Hd P. unfold poll_latency.
  assert (Hp : pending x) by (left; exact P).
  pose proof (a_len _ _ _ _ _ _ H) as Hlen.
  pose proof (consume_lat_spec (maxa c) (queue x) (cons x) (errs x) (perr x)) as S.
  pose proof (consume_lat_cont (maxa c) (queue x) (cons x) (errs x) (perr x)) as Hcont.
  destruct (consume_lat (maxa c) (queue x) (cons x) (errs x) (perr x)) as [r v cs rest e pe|cs e pe].
  - cbn [fst]. destruct S as (pre & m & Hq & Hcs & Hpre & Hr).
    replace (sp (resolve now x r v cs rest e pe) - length (launch (resolve now x r v cs rest e pe)))%nat
      with n by (cbn; lia).
    apply resolve_ok; [exact H|rewrite Hq, Hcs, <- !app_assoc; reflexivity| |].
    + intros R. destruct Hr as [(R1 & R2 & R3)|(R1 & _)]; [|congruence]. subst v.
      apply (ok_found c i now n x pre m rest); assumption.
    + intros R. destruct Hr as [(R1 & _)|(R1 & R2 & R3 & R4 & R5 & R6)]; [congruence|].
      subst v pe. apply (lat_failed c i now n x pre m rest); try assumption. lia.
  - destruct S as (Hcs & Herr & He & Hpe).
    pose proof (fire_spec c now (maxa c) (sp x) (dline x) ltac:(lia)) as F.
    destruct (fire c now (maxa c) (sp x) (dline x)) as [s' dl']. cbn [fst].
    destruct F as (F1 & F2 & F3 & F4).
    pose proof (a_max _ _ _ _ _ _ H) as Hmax. specialize (F2 Hmax).
    pose proof (a_pos _ _ _ _ _ _ H Hp) as Hpos.
    destruct (a_lat _ _ _ _ _ _ H P) as [Hl Hm1].
    destruct (c_lat _ _ _ _ _ _ H P) as (Le & Lv & Ls).
    pose proof (es_len _ _ _ _ _ _ H) as Hel.
    cbn [sp launch].
    replace (s' - length (launch x))%nat with (n + (s' - sp x))%nat by lia.
    assert (Hes : launch x ++ repeat now (n + (s' - sp x)) = es now n x ++ repeat now (s' - sp x)).
    { unfold es. rewrite repeat_app, app_assoc. reflexivity. }
    assert (Hallerr : Forall is_err (cons x ++ queue x)).
    { apply Forall_app. split; [apply (c_err _ _ _ _ _ _ H Hp)|exact Herr]. }
    split; [|split; [|split]].
    + constructor; cbn [ph t0 sp errs perr dline queue launch waiting rdy starts gate woken dlog cons res rerr rfl];
        try (unfold es at 1); cbn [launch]; rewrite ?Hes.
      * lia.
      * exact F2.
      * discriminate.
      * intros _. lia.
      * intros _. split; assumption.
      * discriminate.
      * intros E. congruence.
      * intros _. rewrite app_nth1 by lia. apply (b_t0 _ _ _ _ _ _ H Hpos).
      * apply (b_le _ _ _ _ _ _ H).
      * intros _. apply spaced_extend.
        -- apply (b_sp _ _ _ _ _ _ H Hl).
        -- lia.
        -- intros D. rewrite Hel. destruct (F4 ltac:(lia)) as (G1 & _).
           rewrite <- (b_dl _ _ _ _ _ _ H P ltac:(lia)). exact G1.
        -- intros j Hj. rewrite Hel in Hj. destruct (Nat.eq_dec s' (sp x)) as [E|E]; [lia|].
           destruct (F4 ltac:(lia)) as (_ & G2 & _). apply G2. lia.
      * intros E. congruence.
      * intros _ S1. destruct (Nat.eq_dec s' (sp x)) as [E|E].
        -- destruct (F3 E) as [G1 _]. rewrite G1, E. replace (sp x - sp x)%nat with 0%nat by lia.
           cbn [repeat]. rewrite app_nil_r. apply (b_dl _ _ _ _ _ _ H P). lia.
        -- destruct (F4 ltac:(lia)) as (_ & _ & G3). destruct (G3 S1) as [G4 _]. rewrite G4.
           rewrite (nth_app_repeat (es now n x) now (s' - sp x) 0 (s' - 1)) by lia. reflexivity.
      * apply (s_cnt _ _ _ _ _ _ H).
      * apply (s_nd _ _ _ _ _ _ H).
      * apply (s_in _ _ _ _ _ _ H).
      * apply (s_hd _ _ _ _ _ _ H).
      * apply (s_pr _ _ _ _ _ _ H).
      * apply (w_in _ _ _ _ _ _ H).
      * apply (w_nd _ _ _ _ _ _ H).
      * apply (g_off _ _ _ _ _ _ H).
      * apply (g_seq _ _ _ _ _ _ H).
      * rewrite app_nil_r, Hcs. apply (c_log _ _ _ _ _ _ H).
      * apply (c_ent _ _ _ _ _ _ H).
      * apply (c_nd _ _ _ _ _ _ H).
      * intros _. rewrite Hcs. exact Hallerr.
      * intros _. split; [|split].
        -- rewrite He, Hcs, app_length. lia.
        -- rewrite Hpe. apply upd_pe_val; [|exact Lv].
           intros m' Hm' E'. apply (primary_val c i now n 0 x m' H); [|exact E'].
           apply in_or_app. right. exact Hm'.
        -- rewrite Hcs, Hpe, map_app, in_app_iff. intros Hin. apply upd_pe_some.
           destruct Hin as [Hin|Hin]; [right; apply Ls; exact Hin|left; exact Hin].
      * discriminate.
      * intros _ Q. congruence.
      * intros r0 v0 tau E. destruct (e_res _ _ _ _ _ _ H _ _ _ E) as [E1 _]. congruence.
      * intros v0 tau E. destruct (e_res _ _ _ _ _ _ H _ _ _ E) as [E1 _]. congruence.
      * intros e0 tau E. destruct (e_res _ _ _ _ _ _ H _ _ _ E) as [E1 _]. congruence.
      * intros _ v0 tau Hin _. exfalso.
        rewrite Forall_forall in Hallerr. specialize (Hallerr (0%nat, true, v0)).
        rewrite <- (c_log _ _ _ _ _ _ H) in Hallerr.
        assert (Hx : is_err (0%nat, true, v0)).
        { apply Hallerr. apply in_map_iff. exists ((0%nat, true, v0), tau). split; [reflexivity|exact Hin]. }
        discriminate Hx.
      * apply (w_ne _ _ _ _ _ _ H).
      * apply (r_in _ _ _ _ _ _ H).
      * apply (r_nd _ _ _ _ _ _ H).
      * intros _. apply (r_dlv _ _ _ _ _ _ H Hp).
      * apply (g_inc _ _ _ _ _ _ H).
      * intros _. exact (Hcont (c_lt _ _ _ _ _ _ H P)).
    + intros _ n0 k s o Hk Hg Ho. cbn [starts gate dlog] in *. apply (Hd Hp n0 k s o); assumption.
    + intros E. discriminate.
    + intros _ S1 D. cbn [sp dline] in S1, D. exfalso.
      destruct (Nat.eq_dec s' (sp x)) as [E|E].
      * destruct (F3 E) as [G1 G2]. specialize (G2 ltac:(lia)). lia.
      * destruct (F4 ltac:(lia)) as (_ & _ & G3). destruct (G3 S1) as [_ G5]. lia.
Qed.

Lemma drain_failed c i now n x ev :
  Cbase c i now n 0 x -> Cdlv x -> ph x = Drain -> closed x = true -> Forall is_err (queue x) ->
  hd_pe (cons x ++ queue x) = Some ev ->
  failed_spec c i x ev now.
Proof.
  intros H Hd P Cl Herr Hhd.
  assert (Hp : pending x) by (right; exact P).
  apply closed_spec in Cl. destruct Cl as (C1 & C2 & C3).
  destruct (a_drain _ _ _ _ _ _ H P) as [Hsp Hmode].
  pose proof (s_cnt _ _ _ _ _ _ H) as Hcnt. rewrite C2 in Hcnt. cbn in Hcnt.
  assert (Hall : Forall is_err (cons x ++ queue x)).
  { apply Forall_app. split; [apply (c_err _ _ _ _ _ _ H Hp)|exact Herr]. }
  assert (Hm : forall m tk, In (m, tk) (dlog x) -> is_err m).
  { intros m tk Hin. rewrite Forall_forall in Hall. apply Hall. rewrite <- (c_log _ _ _ _ _ _ H).
    apply in_map_iff. exists (m, tk). split; [reflexivity|exact Hin]. }
  assert (Hent : forall n0 k s o, nth_error (starts x) n0 = Some (k, s) -> gate x n0 = Some o -> o <> OPanic ->
             o = OErr /\ exists tk, In ((k, false, val i n0), tk) (dlog x) /\ tk <= now).
  { intros n0 k s o K G Ho. pose proof (Hd Hp n0 k s o K G Ho) as Hin.
    apply in_map_iff in Hin. destruct Hin as [[m tk] [E Hin]]. unfold att in E. cbn in E.
    destruct (log_of_start c i now n 0 x n0 k s m tk H K Hin E) as (E2 & E3 & E4).
    pose proof (Hm m tk Hin) as Hme. unfold is_err in Hme. rewrite Hme in E2. cbn in E2.
    split; [congruence|]. exists tk. split; [|exact E4].
    rewrite (item_eta m) in Hin. rewrite E, Hme, E3 in Hin. exact Hin. }
  split; [lia|]. split; [lia|]. split; [|split; [|split]].
  - intros n0 Hn0.
    destruct (nth_error (starts x) n0) as [[k s]|] eqn:K; [|apply nth_error_None in K; lia].
    destruct (gate x n0) as [o|] eqn:G; [|exfalso; apply (C3 n0); [lia|exact G]].
    exists o. split; [reflexivity|].
    destruct o.
    + destruct (Hent n0 k s OOk K G ltac:(discriminate)) as [E _]. discriminate.
    + split; [discriminate|]. intros _. exists k. apply (Hent n0 k s OErr K G). discriminate.
    + split; [discriminate|]. intros E. discriminate.
  - intros k Hk. pose proof (r_dlv _ _ _ _ _ _ H Hp k Hk) as Hin.
    apply in_map_iff in Hin. destruct Hin as [[m tk] [E Hin]]. unfold att in E. cbn in E.
    destruct (log_of_rfail c i now n 0 x k m tk H Hk Hin E) as (E1 & E2). subst m.
    exists tk. split; [exact Hin|exact E2].
  - intros L M. destruct Hmode as [E|E]; [congruence|lia].
  - intros _. pose proof (c_log _ _ _ _ _ _ H) as Hlog.
    destruct (cons x ++ queue x) as [|m l] eqn:Ecq; [discriminate|]. cbn in Hhd. injection Hhd as Ev.
    destruct (dlog x) as [|[m' tk] rest] eqn:Ed; [discriminate|]. cbn in Hlog. injection Hlog as Em El.
    subst m'. inversion Hall as [|? ? Hme _]; subst. unfold is_err in Hme.
    exists (it_att m), tk, rest. rewrite (item_eta m) at 1. rewrite Hme. reflexivity.
Qed.

Lemma poll_drain_ok c i now n x :
  Cbase c i now n 0 x -> Cdlv x -> ph x = Drain ->
  let x1 := fst (fst (poll_drain now x)) in
  Cfull c i now (sp x1 - length (launch x1)) x1.
Proof.
  intros H Hd P. unfold poll_drain.
  assert (Hp : pending x) by (right; exact P).
  pose proof (a_len _ _ _ _ _ _ H) as Hlen.
  pose proof (consume_drain_spec (queue x) (cons x) (errs x) (perr x) (c_drn _ _ _ _ _ _ H P)) as S.
  assert (Hn : forall r v cs rest e pe,
     (sp (resolve now x r v cs rest e pe) - length (launch (resolve now x r v cs rest e pe)))%nat = n).
  { intros. cbn. lia. }
  destruct (consume_drain (queue x) (cons x) (errs x) (perr x)) as [r v cs rest e pe|cs e pe].
  - cbn [fst]. destruct S as (pre & m & Hq & Hcs & Hpre & R1 & R2 & R3). rewrite Hn.
    apply resolve_ok; [exact H|rewrite Hq, Hcs, <- !app_assoc; reflexivity| |].
    + intros _. subst v. apply (ok_found c i now n x pre m rest); assumption.
    + intros R. congruence.
  - destruct S as (Hcs & Herr & Hpe).
    destruct (closed x) eqn:Cl.
    + destruct pe as [ev|]; cbn [fst]; rewrite Hn.
      * apply resolve_ok; [exact H|rewrite Hcs, app_nil_r; reflexivity|intros R; discriminate|].
        intros _. apply (drain_failed c i now n x ev); try assumption. rewrite <- Hcs. symmetry. exact Hpe.
      * apply resolve_ok; [exact H|rewrite Hcs, app_nil_r; reflexivity|intros R; discriminate|intros R; discriminate].
    + cbn [fst sp launch]. replace (sp x - length (launch x))%nat with n by lia.
      split; [|split; [|split]].
      * open_base H.
        constructor; cbn [ph t0 sp errs perr dline queue launch waiting rdy starts gate woken dlog cons res rerr rfl];
          unfold es in *; cbn [launch]; try assumption; try (intros; discriminate).
        -- intros _. apply (a_pos _ _ _ _ _ _ H). exact Hp.
        -- intros _. apply (a_drain _ _ _ _ _ _ H). exact P.
        -- rewrite app_nil_r, Hcs. exact (c_log _ _ _ _ _ _ H).
        -- intros _. rewrite Hcs. apply Forall_app. split; [apply (c_err _ _ _ _ _ _ H); exact Hp|exact Herr].
        -- intros _. exact Hpe.
        -- intros _ Q. congruence.
        -- intros r0 v0 tau E. destruct (e_res _ _ _ _ _ _ H r0 v0 tau E) as [E1 _]. congruence.
        -- intros _. apply (r_dlv _ _ _ _ _ _ H Hp).
      * intros _ n0 k s o Hk Hg Ho. cbn [starts gate dlog] in *. apply (Hd Hp n0 k s o); assumption.
      * intros _ Cl'. exfalso. change (closed x = true) in Cl'. congruence.
      * intros E. discriminate.
Qed.

Lemma begin_ok c i now x :
  (1 <= maxa c)%nat -> Cbase c i now 0 0 x -> ph x = Created ->
  let x0 := begin c now x in
  Cbase c i now (sp x0) 0 x0 /\ Cdlv x0 /\ (ph x0 = Latency \/ ph x0 = Drain).
Proof.
  intros Hm H P.
  destruct (a_created _ _ _ _ _ _ H P) as (E1 & E2 & E3 & E4).
  pose proof (a_len _ _ _ _ _ _ H) as E5. rewrite E1, Nat.add_0_r in E5. apply length_zero_iff_nil in E5.
  pose proof (s_cnt _ _ _ _ _ _ H) as E6. rewrite E5 in E6. cbn in E6.
  assert (E7 : starts x = []) by (apply length_zero_iff_nil; lia).
  assert (E8 : waiting x = []) by (apply length_zero_iff_nil; lia).
  assert (E9 : rfl x = []) by (apply length_zero_iff_nil; lia).
  assert (Hres : forall r0 v0 tau, res x <> Some (r0, v0, tau)).
  { intros r0 v0 tau E. destruct (e_res _ _ _ _ _ _ H _ _ _ E) as [E10 _]. congruence. }
  assert (Hrep : forall k, Forall (eq now) (repeat now k)).
  { intros k. apply Forall_forall. intros t Ht. apply repeat_spec in Ht. congruence. }
  assert (Hcd : forall y, starts y = [] -> Cdlv y).
  { intros y Ey _ n0 k s o Hk. rewrite Ey in Hk. destruct n0; discriminate. }
  assert (Hsp1 : forall l, (length l <= 1)%nat -> spaced c l).
  { intros l Hl k Hk. lia. }
  unfold begin. destruct (1 <? maxa c)%nat eqn:M; [destruct (latency_mode c) eqn:L|].
  - apply Nat.ltb_lt in M. split; [|split; [apply Hcd; apply E7|left; reflexivity]].
    constructor; cbn [ph t0 sp errs perr dline queue launch waiting rdy starts gate woken dlog cons res rerr rfl];
      unfold es; cbn [launch]; rewrite ?E2, ?E3, ?E4, ?E5, ?E7, ?E8, ?E9; cbn [repeat app length map nth];
      try (intros; discriminate); try lia; try reflexivity; try (constructor; fail);
      try (intros ? []; fail); try (intros ? ? []; fail); try (intros ? ? ? []; fail);
      try (exact (g_off _ _ _ _ _ _ H)); try (intros ? [|?] ? ? E; discriminate E);
      try (intros ? [|?] ? ? ? ? ? ? E; discriminate E);
      try (intros ? ? ? E; exfalso; exact (Hres _ _ _ E));
      try (intros ? ? E; exfalso; exact (Hres _ _ _ E));
      try (intros _ Q; congruence);
      first [ solve [intros E; congruence]
            | solve [intros _; split; [exact L|exact M]]
            | solve [intros _; apply Hsp1; cbn; lia]
            | solve [intros _; split; [reflexivity|split; [intros; discriminate|intros []]]] ].
  - apply Nat.ltb_lt in M. split; [|split; [apply Hcd; apply E7|right; reflexivity]].
    constructor; cbn [ph t0 sp errs perr dline queue launch waiting rdy starts gate woken dlog cons res rerr rfl];
      unfold es; cbn [launch]; rewrite ?E2, ?E3, ?E4, ?E5, ?E7, ?E8, ?E9; cbn [app length map];
      try (intros; discriminate); try lia; try reflexivity; try (constructor; fail);
      try (intros ? []; fail); try (intros ? ? []; fail); try (intros ? ? ? []; fail);
      try (exact (g_off _ _ _ _ _ _ H)); try (intros ? [|?] ? ? E; discriminate E);
      try (intros ? [|?] ? ? ? ? ? ? E; discriminate E);
      try (intros ? ? ? E; exfalso; exact (Hres _ _ _ E));
      try (intros ? ? E; exfalso; exact (Hres _ _ _ E));
      try (intros _ Q; congruence);
      first [ solve [intros E; congruence]
            | solve [intros _; split; [reflexivity|left; exact L]]
            | solve [intros _; apply nth_repeat_lt; lia]
            | solve [intros _; apply Hrep]
            | solve [intros; reflexivity] ].
  - apply Nat.ltb_ge in M. assert (M1 : maxa c = 1%nat) by lia.
    split; [|split; [apply Hcd; apply E7|right; reflexivity]].
    constructor; cbn [ph t0 sp errs perr dline queue launch waiting rdy starts gate woken dlog cons res rerr rfl];
      unfold es; cbn [launch]; rewrite ?E2, ?E3, ?E4, ?E5, ?E7, ?E8, ?E9; cbn [repeat app length map nth];
      try (intros; discriminate); try lia; try reflexivity; try (constructor; fail);
      try (intros ? []; fail); try (intros ? ? []; fail); try (intros ? ? ? []; fail);
      try (exact (g_off _ _ _ _ _ _ H)); try (intros ? [|?] ? ? E; discriminate E);
      try (intros ? [|?] ? ? ? ? ? ? E; discriminate E);
      try (intros ? ? ? E; exfalso; exact (Hres _ _ _ E));
      try (intros ? ? E; exfalso; exact (Hres _ _ _ E));
      try (intros _ Q; congruence);
      first [ solve [intros; lia]
            | solve [intros _; split; [lia|right; exact M1]]
            | solve [intros _; apply Hsp1; cbn; lia]
            | solve [intros _; apply (Hrep 1%nat)]
            | solve [intros; reflexivity] ].
Qed.

Lemma poll_body_ok c i now x :
  (1 <= maxa c)%nat -> Cfull c i now 0 x ->
  let x1 := fst (fst (poll_body c now x)) in
  Cfull c i now (sp x1 - length (launch x1)) x1.
Proof.
  intros Hm (H & Hd & Hc & Hb). unfold poll_body.
  assert (Hsame : Cfull c i now (sp x - length (launch x)) x).
  { pose proof (a_len _ _ _ _ _ _ H) as L. replace (sp x - length (launch x))%nat with 0%nat by lia.
    exact (conj H (conj Hd (conj Hc Hb))). }
  destruct (ph x) eqn:P.
  - destruct (begin_ok c i now x Hm H P) as (B1 & B2 & [B3|B3]); rewrite B3.
    + apply (poll_lat_ok c i now _ _ B1 B2 B3).
    + apply (poll_drain_ok c i now _ _ B1 B2 B3).
  - apply (poll_lat_ok c i now _ _ H Hd P).
  - apply (poll_drain_ok c i now _ _ H Hd P).
  - exact Hsame.
  - exact Hsame.
Qed.

Lemma poll_call_ok c i now x :
  (1 <= maxa c)%nat -> Cfull c i now 0 x -> Cfull c i now 0 (fst (fst (poll_call c i now x))).
Proof.
  intros Hm H. unfold poll_call.
  pose proof (poll_body_ok c i now x Hm H) as B.
  destruct (poll_body c now x) as [[x1 r0] v0]. cbn [fst] in *.
  apply run_tasks_ok. exact B.
Qed.

(* ---------- the system invariant ---------- *)
Definition Inv (c : cfg) (s : st) : Prop := forall j, Cfull c j (now s) 0 (calls s j).

Lemma upd_same {A} (f : nat -> A) i v : upd f i v i = v.
Proof. unfold upd. rewrite Nat.eqb_refl. reflexivity. Qed.
Lemma upd_other {A} (f : nat -> A) i v j : j <> i -> upd f i v j = f j.
Proof. intros H. unfold upd. apply Nat.eqb_neq in H. rewrite H. reflexivity. Qed.

Lemma inv_init c : Inv c (init c).
Proof.
  intros j. cbn. split; [|split; [|split]].
  - constructor; cbn; try (intros; discriminate); try lia; try (constructor; fail);
      try (intros ? []; fail); try (intros ? ? []; fail); try (intros ? ? ? []; fail);
      try (intros ? [|?] ? ? E; discriminate E);
      try (intros ? [|?] ? ? ? ? ? ? E; discriminate E).
    + intros _. repeat split.
    + intros [E|E]; discriminate.
    + intros _ k Hk. cbn in Hk. lia.
    + intros G k. rewrite G. reflexivity.
    + intros [E|E]; discriminate.
  - intros [E|E]; discriminate.
  - intros E; discriminate.
  - intros E; discriminate.
Qed.

Lemma inv_step c s e : (1 <= maxa c)%nat -> Inv c s -> Inv c (step_st c s e).
Proof.
  intros Hm H j. unfold step_st, step. destruct e as [i|i|d|i k o|i k|i k].
  - pose proof (poll_call_ok c i (now s) (calls s i) Hm (H i)) as B.
    destruct (poll_call c i (now s) (calls s i)) as [[x r0] v0]. cbn [fst now calls] in *.
    destruct (Nat.eq_dec j i) as [->|Hne]; [rewrite upd_same; exact B|rewrite upd_other by exact Hne; apply H].
  - cbn [fst now calls].
    destruct (Nat.eq_dec j i) as [->|Hne]; [rewrite upd_same; apply drop_ok; apply H|rewrite upd_other by exact Hne; apply H].
  - cbn [fst now calls]. apply advance_ok; [lia|apply H].
  - cbn [fst now calls].
    destruct (Nat.eq_dec j i) as [->|Hne]; [rewrite upd_same; apply complete_ok; apply H|rewrite upd_other by exact Hne; apply H].
  - cbn [fst now calls].
    destruct (Nat.eq_dec j i) as [->|Hne]; [rewrite upd_same; apply ready_ok; apply H|rewrite upd_other by exact Hne; apply H].
  - cbn [fst now calls].
    destruct (Nat.eq_dec j i) as [->|Hne]; [rewrite upd_same; apply readyerr_ok; apply H|rewrite upd_other by exact Hne; apply H].
Qed.

Lemma reach c evs : (1 <= maxa c)%nat -> Forall (Inv c) (states (step_st c) (init c) evs).
Proof. intros Hm. apply reach_inv; [apply inv_init|intros s e; apply inv_step; exact Hm]. Qed.

Lemma reach_last c evs : (1 <= maxa c)%nat -> Inv c (fold_left (step_st c) evs (init c)).
Proof. intros Hm. apply fold_left_inv; [apply inv_init|intros s e; apply inv_step; exact Hm]. Qed.

(* ================= the statements used by Props/C12.v ================= *)

Lemma bounded_starts c evs i : (1 <= maxa c)%nat ->
  Forall (fun s => let x := calls s i in
     (length (starts x) <= length (launch x))%nat /\ (length (launch x) <= maxa c)%nat /\
     (forall v tau, latency_mode c = true -> In ((0%nat, true, v), tau) (dlog x) ->
         tau < t0 x + delay c 1 -> length (launch x) = 1%nat /\ length (starts x) = 1%nat))
  (states (step_st c) (init c) evs).
Proof.
  intros Hm. eapply Forall_impl; [|apply reach; exact Hm]. intros s H. cbv beta zeta.
  destruct (H i) as (B & _).
  pose proof (a_len _ _ _ _ _ _ B) as L1. pose proof (a_max _ _ _ _ _ _ B) as L2.
  pose proof (s_cnt _ _ _ _ _ _ B) as L3.
  split; [lia|]. split; [lia|]. intros v tau L Hin Hlt.
  pose proof (f_one _ _ _ _ _ _ B L v tau Hin Hlt).
  pose proof (s_pr _ _ _ _ _ _ B ltac:(lia)). lia.
Qed.

Lemma spacing c evs i : (1 <= maxa c)%nat ->
  Forall (fun s => let x := calls s i in
     (latency_mode c = true -> forall k, (S k < length (launch x))%nat ->
          nth k (launch x) 0 + delay c (S k) <= nth (S k) (launch x) 0) /\
     (latency_mode c = false -> (1 <= length (launch x))%nat ->
          length (launch x) = maxa c /\ Forall (eq (t0 x)) (launch x)) /\
     ((1 <= length (launch x))%nat -> nth 0 (launch x) 0 = t0 x) /\
     (forall k s0, In (k, s0) (starts x) ->
          (k < length (launch x))%nat /\ nth k (launch x) 0 <= s0 <= now s) /\
     (forall k s0, nth_error (starts x) 0 = Some (k, s0) -> k = 0%nat /\ s0 = t0 x) /\
     (ph x = Latency -> (length (launch x) < maxa c)%nat ->
          dline x = nth (length (launch x) - 1) (launch x) 0 + delay c (length (launch x)) /\
          (dline x <= now s -> woken x = true)))
  (states (step_st c) (init c) evs).
Proof.
  intros Hm. eapply Forall_impl; [|apply reach; exact Hm]. intros s H. cbv beta zeta.
  destruct (H i) as (B & _ & _ & Hb).
  pose proof (a_len _ _ _ _ _ _ B) as L1. rewrite Nat.add_0_r in L1.
  pose proof (b_sp _ _ _ _ _ _ B) as S1. pose proof (b_par _ _ _ _ _ _ B) as S2.
  pose proof (b_t0 _ _ _ _ _ _ B) as S3. pose proof (b_dl _ _ _ _ _ _ B) as S4.
  unfold es in *. cbn [repeat] in *. rewrite app_nil_r in *. rewrite <- L1 in *.
  split; [|split; [|split; [|split; [|split]]]].
  - intros L. apply (S1 L).
  - intros L P. split; [|apply (S2 L)]. rewrite L1. apply (a_par _ _ _ _ _ _ B L). lia.
  - exact S3.
  - intros k s0 Hin. destruct (s_in _ _ _ _ _ _ B k s0 Hin) as (E1 & _ & E3). split; assumption.
  - intros k s0 E. destruct (s_hd _ _ _ _ _ _ B k s0 E) as [E1 E2]. split; [exact E1|].
    rewrite E2. apply S3.
    assert (In (k, s0) (starts (calls s i))) by (apply (nth_error_In _ _ E)).
    destruct (s_in _ _ _ _ _ _ B k s0 H0) as (E3 & _). lia.
  - intros P Q. split; [apply (S4 P Q)|]. intros D. apply (Hb P); [lia|exact D].
Qed.

(* which tasks wait for readiness, which have failed readiness; without back-pressure nobody
   waits and every inner call is made at the launch instant of its attempt; if moreover no clone
   failed readiness the inner calls are made in attempt order *)
Lemma readiness c evs i : (1 <= maxa c)%nat ->
  Forall (fun s => let x := calls s i in
     (length (starts x) + length (waiting x) + length (rfl x) = length (launch x))%nat /\
     NoDup (map fst (starts x)) /\ NoDup (waiting x) /\ NoDup (rfl x) /\
     (forall k, In k (waiting x) ->
        (1 <= k < length (launch x))%nat /\ rdy x k = false /\ rerr x k = false /\
        ~ In k (map fst (starts x)) /\ ~ In k (rfl x)) /\
     (forall k, In k (rfl x) -> (1 <= k < length (launch x))%nat /\ ~ In k (map fst (starts x))) /\
     (gated c = false -> waiting x = [] /\
        (length (starts x) + length (rfl x) = length (launch x))%nat /\
        forall n k s0, nth_error (starts x) n = Some (k, s0) ->
          s0 = nth k (launch x) 0 /\ (rfl x = [] -> k = n)))
  (states (step_st c) (init c) evs).
Proof.
  intros Hm. eapply Forall_impl; [|apply reach; exact Hm]. intros s H. cbv beta zeta.
  destruct (H i) as (B & _).
  pose proof (s_cnt _ _ _ _ _ _ B) as L1.
  split; [lia|]. split; [apply (s_nd _ _ _ _ _ _ B)|]. split; [apply (w_nd _ _ _ _ _ _ B)|].
  split; [apply (r_nd _ _ _ _ _ _ B)|]. split; [|split].
  - intros k Hk. destruct (w_in _ _ _ _ _ _ B k Hk) as [E1 E2]. split; [exact E1|]. split; [exact E2|].
    split; [apply (w_ne _ _ _ _ _ _ B k Hk)|]. split.
    + intros Hin. apply in_map_iff in Hin. destruct Hin as [[k' s0] [E Hin]]. cbn in E. subst k'.
      destruct (s_in _ _ _ _ _ _ B k s0 Hin) as (_ & E & _). contradiction.
    + intros Hin. destruct (r_in _ _ _ _ _ _ B k Hin) as (_ & E & _). contradiction.
  - intros k Hk. destruct (r_in _ _ _ _ _ _ B k Hk) as (E1 & _ & E3). split; assumption.
  - intros G.
    assert (Ew : waiting (calls s i) = []).
    { destruct (waiting (calls s i)) as [|k0 l] eqn:Ew; [reflexivity|exfalso].
      destruct (w_in _ _ _ _ _ _ B k0) as [_ E]; [rewrite Ew; left; reflexivity|].
      rewrite (g_off _ _ _ _ _ _ B G k0) in E. discriminate. }
    split; [exact Ew|]. rewrite Ew in L1. cbn in L1. split; [lia|]. apply (g_seq _ _ _ _ _ _ B G).
Qed.

Lemma spaced_mono c l : spaced c l ->
  forall d a, (a + d < length l)%nat -> nth a l 0 <= nth (a + d) l 0.
Proof.
  intros Hs. induction d as [|d IH]; intros a Ha.
  - rewrite Nat.add_0_r. lia.
  - specialize (IH a ltac:(lia)). specialize (Hs (a + d)%nat ltac:(lia)).
    pose proof (delay_nonneg c (S (a + d))). replace (a + S d)%nat with (S (a + d)) by lia. lia.
Qed.

(* clause 2 read directly on the inner calls: without back-pressure, consecutive inner calls are
   made by attempts of increasing number, the later one no earlier than its configured delay
   after the earlier one (if no clone failed readiness they are attempts n and n+1) *)
Lemma start_spacing c evs i : (1 <= maxa c)%nat -> gated c = false -> latency_mode c = true ->
  Forall (fun s => let x := calls s i in
     forall n k1 s1 k2 s2, nth_error (starts x) n = Some (k1, s1) ->
       nth_error (starts x) (S n) = Some (k2, s2) ->
       (k1 < k2)%nat /\ s1 + delay c k2 <= s2 /\ (rfl x = [] -> k1 = n /\ k2 = S n))
  (states (step_st c) (init c) evs).
Proof.
  intros Hm G L. eapply Forall_impl; [|apply reach; exact Hm]. intros s H. cbv beta zeta.
  destruct (H i) as (B & _). intros n k1 s1 k2 s2 E1 E2.
  destruct (g_seq _ _ _ _ _ _ B G n k1 s1 E1) as [A1 A2].
  destruct (g_seq _ _ _ _ _ _ B G (S n) k2 s2 E2) as [A3 A4].
  pose proof (g_inc _ _ _ _ _ _ B G n (S n) k1 k2 s1 s2 ltac:(lia) E1 E2) as Hlt.
  destruct (s_in _ _ _ _ _ _ B k2 s2 (nth_error_In _ _ E2)) as (K2 & _).
  pose proof (b_sp _ _ _ _ _ _ B L) as Sp. unfold es in Sp. cbn [repeat] in Sp. rewrite app_nil_r in Sp.
  split; [exact Hlt|]. split.
  - subst s1 s2. destruct k2 as [|k2']; [lia|].
    pose proof (Sp k2' ltac:(lia)) as S1.
    pose proof (spaced_mono c _ Sp (k2' - k1)%nat k1 ltac:(lia)) as S2.
    replace (k1 + (k2' - k1))%nat with k2' in S2 by lia. lia.
  - intros Er. split; [apply A2; exact Er|apply A4; exact Er].
Qed.

Lemma run_tasks_starts_mono i now n : forall x e, In e (starts x) -> In e (starts (run_tasks i now n x)).
Proof.
  induction n as [|n IH]; intros x e He; cbn [run_tasks]; [exact He|].
  apply IH. destruct (launch_task_frame i now x) as (_ & _ & _ & E). rewrite E.
  destruct (negb (Nat.eqb (length (launch x)) 0) && rerr x (length (launch x))); [exact He|].
  destruct (Nat.eqb (length (launch x)) 0 || rdy x (length (launch x))); [|exact He].
  apply in_or_app. left. exact He.
Qed.

Lemma spacing_prompt c evs i : (1 <= maxa c)%nat ->
  let s := fold_left (step_st c) evs (init c) in
  let x := calls s i in
  ph x = Latency -> (length (launch x) < maxa c)%nat -> dline x <= now s ->
  r (snd (step c s (Poll i))) = 0 ->
  let x' := calls (step_st c s (Poll i)) i in
  (length (launch x) < length (launch x'))%nat /\ nth (length (launch x)) (launch x') 0 = now s /\
  (rdy x (length (launch x)) = true -> rerr x (length (launch x)) = false ->
   In (length (launch x), now s) (starts x')).
Proof.
  intros Hm s x P Q D. subst x.
  destruct (reach_last c evs Hm i) as (B & _). fold s in B.
  pose proof (a_len _ _ _ _ _ _ B) as L1. rewrite Nat.add_0_r in L1.
  pose proof (a_pos _ _ _ _ _ _ B (or_introl P)) as Lp.
  unfold step_st, step, poll_call, poll_body. rewrite P. unfold poll_latency.
  pose proof (consume_lat_spec (maxa c) (queue (calls s i)) (cons (calls s i)) (errs (calls s i)) (perr (calls s i))) as S.
  destruct (consume_lat (maxa c) (queue (calls s i)) (cons (calls s i)) (errs (calls s i)) (perr (calls s i)))
    as [r0 v0 cs rest e pe|cs e pe].
  - cbn. intros R. exfalso. destruct S as (pre & m & _ & _ & _ & [(R1 & _)|(R1 & _)]); lia.
  - pose proof (fire_spec c (now s) (maxa c) (sp (calls s i)) (dline (calls s i)) ltac:(lia)) as F.
    destruct (fire c (now s) (maxa c) (sp (calls s i)) (dline (calls s i))) as [s' dl'].
    destruct F as (F1 & _ & F3 & _).
    cbn [snd fst r calls sp launch]. intros _. rewrite upd_same.
    assert (Hs : (sp (calls s i) < s')%nat).
    { destruct (Nat.eq_dec s' (sp (calls s i))) as [E|E]; [|lia].
      destruct (F3 E) as [_ G]. specialize (G ltac:(lia)). lia. }
    split; [|split].
    + rewrite run_tasks_launch. cbn [launch]. rewrite app_length, repeat_length. lia.
    + rewrite run_tasks_launch. cbn [launch]. apply nth_app_repeat; lia.
    + intros R RE. destruct (s' - length (launch (calls s i)))%nat as [|d] eqn:Ed; [lia|].
      cbn [run_tasks]. apply run_tasks_starts_mono.
      match goal with |- In _ (starts (launch_task i (now s) ?y)) =>
        destruct (launch_task_frame i (now s) y) as (_ & _ & _ & E) end.
      rewrite E. cbn [launch rdy rerr starts]. rewrite R, RE, orb_true_r, andb_false_r.
      apply in_or_app. right. left. reflexivity.
Qed.

Lemma ready_starts c evs i k : (1 <= maxa c)%nat ->
  let s := fold_left (step_st c) evs (init c) in
  In k (waiting (calls s i)) ->
  In (k, now s) (starts (calls (step_st c s (Ready i k)) i)).
Proof.
  intros Hm s Hk.
  destruct (reach_last c evs Hm i) as (B & _). fold s in B.
  destruct (w_in _ _ _ _ _ _ B k Hk) as [_ R].
  unfold step_st, step. cbn [fst calls]. rewrite upd_same. unfold ready_call. rewrite R.
  apply mem_In in Hk. rewrite Hk.
  match goal with |- In _ (starts (call_inner i (now s) ?y k)) =>
    destruct (call_inner_frame i (now s) y k) as (_ & _ & E & _) end.
  rewrite E. apply in_or_app. right. left. reflexivity.
Qed.

Lemma poll_first_ok c i now x :
  Cfull c i now 0 x -> pending x ->
  let y := poll_call c i now x in
  (forall k v0, find it_ok (queue x) = Some (k, true, v0) ->
       snd (fst y) = 1 /\ snd y = v0 /\ res (fst (fst y)) = Some (1, v0, now)) /\
  (find it_ok (queue x) = None -> snd (fst y) <> 1).
Proof.
  intros (B & _) Hp.
  assert (Hfind : forall pre m rest, Forall is_err pre -> it_ok m = true ->
            find it_ok (pre ++ m :: rest) = Some m).
  { intros pre m rest Hpre Hm. rewrite find_skip by exact Hpre. cbn. rewrite Hm. reflexivity. }
  assert (Hnone : forall q, Forall is_err q -> find it_ok q = None).
  { intros q Hq. apply find_all_false. exact Hq. }
  unfold poll_call, poll_body. destruct Hp as [P|P]; rewrite P.
  - unfold poll_latency.
    pose proof (consume_lat_spec (maxa c) (queue x) (cons x) (errs x) (perr x)) as S.
    destruct (consume_lat (maxa c) (queue x) (cons x) (errs x) (perr x)) as [r0 v1 cs rest e pe|cs e pe].
    + cbn [fst snd]. rewrite run_tasks_res. cbn [res resolve].
      destruct S as (pre & m & Hq & Hcs & Hpre & [(R1 & R2 & R3)|(R1 & R2 & R3 & R4 & _)]).
      * rewrite Hq, (Hfind pre m rest Hpre R2). split; [|intros E; discriminate].
        intros k v0 E. injection E as E. subst m r0 v1. cbn. repeat split.
      * assert (Hrest : rest = []).
        { pose proof (dlog_len _ _ _ _ _ _ B) as L1. pose proof (a_len _ _ _ _ _ _ B) as L2.
          pose proof (a_max _ _ _ _ _ _ B) as L3. pose proof (s_cnt _ _ _ _ _ _ B) as L5.
          destruct (c_lat _ _ _ _ _ _ B P) as (Le & _).
          assert (L4 : length (dlog x) = length (cons x ++ queue x)).
          { rewrite <- (c_log _ _ _ _ _ _ B), map_length. reflexivity. }
          rewrite Hq, !app_length in L4. cbn [length] in L4.
          destruct rest; [reflexivity|cbn [length] in L4; lia]. }
        subst rest. rewrite Hq.
        rewrite (Hnone (pre ++ [m])) by (apply Forall_app; split; [exact Hpre|constructor; [exact R2|constructor]]).
        split; [intros k v0 E; discriminate|intros _; lia].
    + destruct S as (_ & Herr & _). rewrite (Hnone _ Herr).
      destruct (fire c now (maxa c) (sp x) (dline x)) as [s' dl']. cbn [fst snd].
      split; [intros k v0 E; discriminate|intros _; lia].
  - unfold poll_drain.
    pose proof (consume_drain_spec (queue x) (cons x) (errs x) (perr x) (c_drn _ _ _ _ _ _ B P)) as S.
    destruct (consume_drain (queue x) (cons x) (errs x) (perr x)) as [r0 v1 cs rest e pe|cs e pe].
    + cbn [fst snd]. rewrite run_tasks_res. cbn [res resolve].
      destruct S as (pre & m & Hq & Hcs & Hpre & R1 & R2 & R3).
      rewrite Hq, (Hfind pre m rest Hpre R2). split; [|intros E; discriminate].
      intros k v0 E. injection E as E. subst m r0 v1. cbn. repeat split.
    + destruct S as (_ & Herr & _). rewrite (Hnone _ Herr).
      destruct (closed x); [destruct pe|]; cbn [fst snd];
        (split; [intros k v0 E; discriminate|intros _; lia]).
Qed.

Lemma first_success_wins c evs i : (1 <= maxa c)%nat ->
  let s := fold_left (step_st c) evs (init c) in
  let x := calls s i in
  ph x = Latency \/ ph x = Drain ->
  let o := snd (step c s (Poll i)) in
  let x' := calls (step_st c s (Poll i)) i in
  (forall k v0, find it_ok (queue x) = Some (k, true, v0) ->
       r o = 1 /\ v o = v0 /\ res x' = Some (1, v0, now s)) /\
  (find it_ok (queue x) = None -> r o <> 1) /\
  (map fst (dlog x) = cons x ++ queue x /\ Forall (fun m => it_ok m = false) (cons x)) /\
  (queue x <> [] -> woken x = true).
Proof.
  intros Hm s x Hp. subst x.
  pose proof (reach_last c evs Hm i) as B. fold s in B.
  pose proof (poll_first_ok c i (now s) (calls s i) B Hp) as F.
  unfold step_st, step. destruct (poll_call c i (now s) (calls s i)) as [[x1 r0] v1].
  cbn [fst snd r v calls] in *. rewrite upd_same. destruct F as [F1 F2].
  destruct B as (B & _).
  split; [exact F1|]. split; [exact F2|]. split.
  - split; [apply (c_log _ _ _ _ _ _ B)|apply (c_err _ _ _ _ _ _ B Hp)].
  - apply (d_wk _ _ _ _ _ _ B Hp).
Qed.

Lemma ok_is_earliest c evs i : (1 <= maxa c)%nat ->
  Forall (fun s => let x := calls s i in
     forall v tau, res x = Some (1, v, tau) ->
       exists k t1, find it_ok (map fst (dlog x)) = Some (k, true, v) /\
                    In ((k, true, v), t1) (dlog x) /\ t1 <= tau /\ tau <= now s)
  (states (step_st c) (init c) evs).
Proof.
  intros Hm. eapply Forall_impl; [|apply reach; exact Hm]. intros s H. cbv beta zeta.
  destruct (H i) as (B & _). intros v tau E.
  destruct (e_ok _ _ _ _ _ _ B v tau E) as (k & t1 & E1 & E2 & E3).
  destruct (e_res _ _ _ _ _ _ B _ _ _ E) as [_ E4].
  exists k, t1. repeat split; assumption.
Qed.

Lemma all_failed_only_if c evs i : (1 <= maxa c)%nat ->
  Forall (fun s => let x := calls s i in
     forall e tau, res x = Some (3, e, tau) ->
       length (launch x) = maxa c /\ (length (starts x) + length (rfl x) = maxa c)%nat /\ waiting x = [] /\
       (forall k, (k < maxa c)%nat -> In k (map fst (starts x)) \/ In k (rfl x)) /\
       (forall n, (n < length (starts x))%nat -> exists o, gate x n = Some o /\ o <> OOk /\
           (o = OErr -> exists k tk, In ((k, false, val i n), tk) (dlog x) /\ tk <= tau)) /\
       (forall k, In k (rfl x) -> exists tk, In ((k, false, rval i k), tk) (dlog x) /\ tk <= tau) /\
       (latency_mode c = true -> (1 < maxa c)%nat ->
           e = val i 0 /\ forall n, (n < length (starts x))%nat -> gate x n = Some OErr) /\
       (latency_mode c = false \/ maxa c = 1%nat ->
           exists k tk rest, dlog x = ((k, false, e), tk) :: rest) /\
       (maxa c = 1%nat -> e = val i 0))
  (states (step_st c) (init c) evs).
Proof.
  intros Hm. eapply Forall_impl; [|apply reach; exact Hm]. intros s H. cbv beta zeta.
  destruct (H i) as (B & _). intros e tau E.
  destruct (e_fail _ _ _ _ _ _ B e tau E) as (F0 & F1 & F2 & FR & F3 & F4).
  pose proof (s_cnt _ _ _ _ _ _ B) as L1.
  split; [exact F0|]. split; [exact F1|]. split; [apply length_zero_iff_nil; lia|].
  split; [|split; [exact F2|split; [exact FR|split; [exact F3|split; [exact F4|]]]]].
  - intros k Hk. apply in_app_or.
    apply (nodup_below_full (map fst (starts (calls s i)) ++ rfl (calls s i)) (maxa c)); [| |rewrite app_length, map_length; lia|exact Hk].
    + apply nodup_app_intro; [apply (s_nd _ _ _ _ _ _ B)|apply (r_nd _ _ _ _ _ _ B)|].
      intros j J1 J2. destruct (r_in _ _ _ _ _ _ B j J2) as (_ & _ & Q). exact (Q J1).
    + intros j Hj. apply in_app_or in Hj. destruct Hj as [Hj|Hj].
      * apply in_map_iff in Hj. destruct Hj as [[j' s0] [Ej Hj]]. cbn in Ej. subst j'.
        destruct (s_in _ _ _ _ _ _ B j s0 Hj) as (Q & _). lia.
      * destruct (r_in _ _ _ _ _ _ B j Hj) as (Q & _). lia.
  - intros M. destruct (F4 (or_intror M)) as (k & tk & rest & Ed).
    destruct (c_ent _ _ _ _ _ _ B (k, false, e) tk) as [(n0 & s0 & E1 & _ & E3 & _)|(R1 & _)]; [rewrite Ed; left; reflexivity| |].
    + cbn in E3. assert (n0 < length (starts (calls s i)))%nat by (apply nth_error_Some; congruence).
      replace n0 with 0%nat in E3 by lia. exact E3.
    + exfalso. destruct (r_in _ _ _ _ _ _ B _ R1) as (Q & _). lia.
Qed.

Lemma no_result_lost c evs i : (1 <= maxa c)%nat ->
  Forall (fun s => let x := calls s i in
     map fst (dlog x) = cons x ++ queue x /\
     NoDup (map att (dlog x)) /\
     (forall m tau, In (m, tau) (dlog x) ->
        (exists n s0, nth_error (starts x) n = Some (it_att m, s0) /\
                      gate x n = Some (out_of (it_ok m)) /\ it_val m = val i n /\ s0 <= tau <= now s) \/
        (In (it_att m) (rfl x) /\ it_ok m = false /\ it_val m = rval i (it_att m) /\
         nth (it_att m) (launch x) 0 <= tau <= now s)) /\
     (pending x -> forall n k s0 o, nth_error (starts x) n = Some (k, s0) -> gate x n = Some o ->
        o <> OPanic -> In k (map att (dlog x))) /\
     (pending x -> forall k, In k (rfl x) -> In k (map att (dlog x))) /\
     (pending x -> Forall (fun m => it_ok m = false) (cons x)) /\
     (pending x -> queue x <> [] -> woken x = true) /\
     (ph x = Drain -> closed x = true -> woken x = true))
  (states (step_st c) (init c) evs).
Proof.
  intros Hm. eapply Forall_impl; [|apply reach; exact Hm]. intros s H. cbv beta zeta.
  destruct (H i) as (B & Hd & Hc & _).
  split; [apply (c_log _ _ _ _ _ _ B)|]. split; [apply (c_nd _ _ _ _ _ _ B)|].
  split; [apply (c_ent _ _ _ _ _ _ B)|]. split; [exact Hd|]. split; [apply (r_dlv _ _ _ _ _ _ B)|].
  split; [apply (c_err _ _ _ _ _ _ B)|]. split; [apply (d_wk _ _ _ _ _ _ B)|exact Hc].
Qed.

(* a waiting attempt whose clone's poll_ready starts failing gives up at that instant: no inner
   call, and (while the call is unresolved) its error is delivered *)
Lemma readyerr_fails c evs i k : (1 <= maxa c)%nat ->
  let s := fold_left (step_st c) evs (init c) in
  In k (waiting (calls s i)) ->
  let x' := calls (step_st c s (ReadyErr i k)) i in
  In k (rfl x') /\ starts x' = starts (calls s i) /\ ~ In k (waiting x') /\
  (pending (calls s i) -> In ((k, false, rval i k), now s) (dlog x')).
Proof.
  intros Hm s Hk.
  destruct (reach_last c evs Hm i) as (B & _). fold s in B.
  pose proof (w_ne _ _ _ _ _ _ B k Hk) as R.
  unfold step_st, step. cbn [fst calls]. rewrite upd_same. unfold readyerr_call. rewrite R.
  apply mem_In in Hk. rewrite Hk. unfold fail_ready.
  cbn [ph t0 sp errs perr dline queue launch waiting rdy starts gate woken dlog cons res rerr rfl].
  destruct (ph (calls s i)) eqn:P;
    cbn [ph t0 sp errs perr dline queue launch waiting rdy starts gate woken dlog cons res rerr rfl];
    (split; [apply in_or_app; right; left; reflexivity|]); (split; [reflexivity|]);
    (split; [intros Hin; apply in_remove_id in Hin; destruct Hin as [_ Hin]; congruence|]);
    intros [Q|Q]; try congruence; apply in_or_app; right; left; reflexivity.
Qed.

(* the reverse of clause 4 in the timer loop: once max_hedged_attempts messages have been
   delivered and all of them are errors, the next poll reports AllAttemptsFailed *)
Lemma all_failed_reported c evs i : (1 <= maxa c)%nat ->
  let s := fold_left (step_st c) evs (init c) in
  let x := calls s i in
  ph x = Latency -> Forall (fun m => it_ok m = false) (map fst (dlog x)) ->
  (maxa c <= length (dlog x))%nat ->
  r (snd (step c s (Poll i))) = 3.
Proof.
  intros Hm s x P Herr Hlen. subst x.
  destruct (reach_last c evs Hm i) as (B & _). fold s in B.
  destruct (c_lat _ _ _ _ _ _ B P) as (Le & _).
  pose proof (c_lt _ _ _ _ _ _ B P) as Lt.
  rewrite (c_log _ _ _ _ _ _ B) in Herr. apply Forall_app in Herr. destruct Herr as [_ Hq].
  assert (L4 : length (dlog (calls s i)) = (length (cons (calls s i)) + length (queue (calls s i)))%nat).
  { rewrite <- app_length, <- (c_log _ _ _ _ _ _ B), map_length. reflexivity. }
  unfold step, poll_call, poll_body. rewrite P. unfold poll_latency.
  pose proof (consume_lat_spec (maxa c) (queue (calls s i)) (cons (calls s i)) (errs (calls s i)) (perr (calls s i))) as S.
  pose proof (consume_lat_cont (maxa c) (queue (calls s i)) (cons (calls s i)) (errs (calls s i)) (perr (calls s i))) as C.
  destruct (consume_lat (maxa c) (queue (calls s i)) (cons (calls s i)) (errs (calls s i)) (perr (calls s i)))
    as [r0 v0 cs rest e pe|cs e pe].
  - cbn. destruct S as (pre & m & Hq' & _ & _ & [(R1 & R2 & _)|(R1 & _)]); [|exact R1].
    exfalso. rewrite Hq' in Hq. apply Forall_app in Hq. destruct Hq as [_ Hq]. inversion Hq as [|? ? Hm' _]; subst.
    congruence.
  - exfalso. destruct S as (_ & _ & He & _). specialize (C Lt). lia.
Qed.

(* microsecond delays: the model's delay (whole milliseconds) is the configured one rounded up *)
Lemma ms_of_ceil d : 0 <= d < dmax -> d <= 1000 * ms_of true d < d + 1000.
Proof.
  intros Hd. unfold ms_of, clamp. rewrite Z.min_r, Z.max_r by lia.
  destruct (dmax <=? d) eqn:G; [apply Z.leb_le in G; lia|].
  pose proof (Z.div_mod (d + 999) 1000 ltac:(lia)). pose proof (Z.mod_pos_bound (d + 999) 1000 ltac:(lia)). lia.
Qed.

Lemma ms_of_plain d : 0 <= d < dmax -> ms_of false d = d.
Proof.
  intros Hd. unfold ms_of, clamp. rewrite Z.min_r, Z.max_r by lia.
  destruct (dmax <=? d) eqn:G; [apply Z.leb_le in G; lia|reflexivity].
Qed.

Lemma ms_of_round d : 0 <= d < dmax -> d <= 1000 * ms_of true d < d + 1000 /\ ms_of false d = d.
Proof. intros H. split; [apply ms_of_ceil; exact H|apply ms_of_plain; exact H]. Qed.

(* ---------- no ReadyErr event, no readiness failure ---------- *)
Definition clean (x : call) : Prop := (forall k, rerr x k = false) /\ rfl x = [].

Lemma finish_rr i now y k n o :
  rerr (finish i now y k n o) = rerr y /\ rfl (finish i now y k n o) = rfl y.
Proof.
  unfold finish. destruct (ph y); try (split; reflexivity); destruct o; try (split; reflexivity);
    destruct (closed y); split; reflexivity.
Qed.

Lemma call_inner_rr i now y k :
  rerr (call_inner i now y k) = rerr y /\ rfl (call_inner i now y k) = rfl y.
Proof.
  unfold call_inner. destruct (gate y (length (starts y))); [|split; reflexivity].
  match goal with |- context [finish i now ?z ?a ?b ?c] => destruct (finish_rr i now z a b c) as [E1 E2] end.
  rewrite E1, E2. split; reflexivity.
Qed.

Lemma launch_task_clean i now y : clean y -> clean (launch_task i now y).
Proof.
  intros [C1 C2]. unfold launch_task. rewrite C1, andb_false_r.
  destruct (Nat.eqb (length (launch y)) 0 || rdy y (length (launch y))).
  - match goal with |- context [call_inner i now ?z ?a] => destruct (call_inner_rr i now z a) as [E1 E2] end.
    unfold clean. rewrite E1, E2. split; [exact C1|exact C2].
  - split; [exact C1|exact C2].
Qed.

Lemma run_tasks_clean i now n : forall y, clean y -> clean (run_tasks i now n y).
Proof.
  induction n as [|n IH]; intros y C; cbn [run_tasks]; [exact C|]. apply IH. apply launch_task_clean. exact C.
Qed.

Lemma poll_body_rr c now y :
  rerr (fst (fst (poll_body c now y))) = rerr y /\ rfl (fst (fst (poll_body c now y))) = rfl y.
Proof.
  assert (HL : forall z, rerr (fst (fst (poll_latency c now z))) = rerr z /\ rfl (fst (fst (poll_latency c now z))) = rfl z).
  { intros z. unfold poll_latency. destruct (consume_lat (maxa c) (queue z) (cons z) (errs z) (perr z)).
    - split; reflexivity.
    - destruct (fire c now (maxa c) (sp z) (dline z)). split; reflexivity. }
  assert (HD : forall z, rerr (fst (fst (poll_drain now z))) = rerr z /\ rfl (fst (fst (poll_drain now z))) = rfl z).
  { intros z. unfold poll_drain. destruct (consume_drain (queue z) (cons z) (errs z) (perr z)).
    - split; reflexivity.
    - destruct (closed z); [destruct pe|]; split; reflexivity. }
  assert (HB : rerr (begin c now y) = rerr y /\ rfl (begin c now y) = rfl y).
  { unfold begin. destruct (1 <? maxa c)%nat; [destruct (latency_mode c)|]; split; reflexivity. }
  unfold poll_body. destruct (ph y).
  - destruct HB as [B1 B2]. destruct (ph (begin c now y)).
    all: try (destruct (HD (begin c now y)) as [E1 E2]; rewrite E1, E2, B1, B2; split; reflexivity).
    destruct (HL (begin c now y)) as [E1 E2]. rewrite E1, E2, B1, B2. split; reflexivity.
  - apply HL.
  - apply HD.
  - split; reflexivity.
  - split; reflexivity.
Qed.

Lemma poll_call_clean c i now y : clean y -> clean (fst (fst (poll_call c i now y))).
Proof.
  intros C. unfold poll_call. pose proof (poll_body_rr c now y) as [E1 E2].
  destruct (poll_body c now y) as [[x1 r0] v0]. cbn [fst] in *.
  apply run_tasks_clean. destruct C as [C1 C2]. split; [rewrite E1; exact C1|rewrite E2; exact C2].
Qed.

Lemma complete_call_clean i now y n o : clean y -> clean (complete_call i now y n o).
Proof.
  intros [C1 C2]. unfold complete_call. destruct (gate y n); [split; assumption|].
  destruct (nth_error (starts y) n) as [[k s0]|]; [|split; assumption].
  match goal with |- context [finish i now ?z ?a ?b ?c] => destruct (finish_rr i now z a b c) as [E1 E2] end.
  unfold clean. rewrite E1, E2. split; assumption.
Qed.

Lemma ready_call_clean i now y k : clean y -> clean (ready_call i now y k).
Proof.
  intros [C1 C2]. unfold ready_call. destruct (rdy y k); [split; assumption|].
  destruct (mem k (waiting y)); [|split; assumption].
  match goal with |- context [call_inner i now ?z ?a] => destruct (call_inner_rr i now z a) as [E1 E2] end.
  unfold clean. rewrite E1, E2. split; assumption.
Qed.

Lemma drop_call_clean y : clean y -> clean (drop_call y).
Proof. intros [C1 C2]. unfold drop_call. destruct (ph y); split; assumption. Qed.

Lemma step_clean c s e : (forall j k, e <> ReadyErr j k) ->
  (forall j, clean (calls s j)) -> forall j, clean (calls (step_st c s e) j).
Proof.
  intros He C j. unfold step_st, step. destruct e as [i|i|d|i n o|i k|i k].
  - pose proof (poll_call_clean c i (now s) (calls s i) (C i)) as B.
    destruct (poll_call c i (now s) (calls s i)) as [[x r0] v0]. cbn [fst now calls] in *.
    destruct (Nat.eq_dec j i) as [->|Hne]; [rewrite upd_same; exact B|rewrite upd_other by exact Hne; apply C].
  - cbn [fst calls]. destruct (Nat.eq_dec j i) as [->|Hne];
      [rewrite upd_same; apply drop_call_clean; apply C|rewrite upd_other by exact Hne; apply C].
  - cbn [fst calls]. apply (C j).
  - cbn [fst calls]. destruct (Nat.eq_dec j i) as [->|Hne];
      [rewrite upd_same; apply complete_call_clean; apply C|rewrite upd_other by exact Hne; apply C].
  - cbn [fst calls]. destruct (Nat.eq_dec j i) as [->|Hne];
      [rewrite upd_same; apply ready_call_clean; apply C|rewrite upd_other by exact Hne; apply C].
  - exfalso. apply (He i k). reflexivity.
Qed.

(* without a ReadyErr event no attempt ever fails readiness: rfl stays empty, and the statements
   that mention rfl read as the property does ("every attempt it can start has been started") *)
Lemma no_readyerr_no_rfl c evs i : (1 <= maxa c)%nat ->
  (forall j k, ~ In (ReadyErr j k) evs) ->
  Forall (fun s => rfl (calls s i) = []) (states (step_st c) (init c) evs).
Proof.
  intros _ Hno.
  assert (G : forall evs s, (forall j k, ~ In (ReadyErr j k) evs) -> (forall j, clean (calls s j)) ->
              Forall (fun s => rfl (calls s i) = []) (states (step_st c) s evs)).
  { clear evs Hno. induction evs as [|e t IH]; intros s Hno C; cbn [states].
    - constructor; [apply (C i)|constructor].
    - constructor; [apply (C i)|]. apply IH.
      + intros j k Hin. apply (Hno j k). right. exact Hin.
      + apply step_clean; [|exact C]. intros j k ->. apply (Hno j k). left. reflexivity. }
  apply G; [exact Hno|]. intros j. cbn. split; reflexivity.
Qed.

(* ---------- positive delays: one launch per step at most ---------- *)
Definition pos_delays (c : cfg) : Prop := forall k, (1 <= k)%nat -> 1 <= delay c k.

Lemma pos_delays_fixed c d : dcfg c = Fixed d -> 1 <= d -> pos_delays c.
Proof. intros E Hd k _. unfold delay. rewrite E. lia. Qed.

Lemma pos_delays_latency c : pos_delays c -> latency_mode c = true.
Proof.
  intros H. specialize (H 1%nat ltac:(lia)). unfold delay in H. unfold latency_mode.
  destruct (dcfg c); [apply Z.ltb_lt; lia|lia|reflexivity].
Qed.

Lemma poll_call_one_launch c i now x : (1 <= maxa c)%nat -> pos_delays c -> Cfull c i now 0 x ->
  (length (launch (fst (fst (poll_call c i now x)))) <= S (length (launch x)))%nat.
Proof.
  intros Hm Hpos (B & _).
  pose proof (a_len _ _ _ _ _ _ B) as L. rewrite Nat.add_0_r in L.
  pose proof (pos_delays_latency c Hpos) as Lat.
  assert (HL : forall z, (sp z <= maxa c)%nat ->
             (length (launch z) = sp z \/ (length (launch z) = 0%nat /\ sp z = 1%nat /\ now < dline z)) ->
             let z1 := fst (fst (poll_latency c now z)) in
             (length (launch z1) + (sp z1 - length (launch z1)) <= S (length (launch z)))%nat).
  { intros z Hz Hl. unfold poll_latency.
    destruct (consume_lat (maxa c) (queue z) (cons z) (errs z) (perr z)).
    - unfold resolve. cbn [fst launch sp]. destruct Hl as [Hl|(Hl & Hs & _)]; lia.
    - pose proof (fire_spec c now (maxa c) (sp z) (dline z) ltac:(lia)) as F.
      destruct (fire c now (maxa c) (sp z) (dline z)) as [s' dl']. cbn [fst sp launch].
      destruct F as (F1 & F2 & F3 & F4).
      assert (s' <= S (sp z))%nat.
      { destruct (Nat.le_gt_cases s' (S (sp z))) as [G|G]; [exact G|exfalso].
        destruct (F4 ltac:(lia)) as (_ & F5 & _). specialize (F5 (S (sp z)) ltac:(lia)).
        specialize (Hpos (S (sp z)) ltac:(lia)). lia. }
      destruct Hl as [Hl|(Hl & Hs & Hd)]; [lia|].
      destruct (Nat.eq_dec s' (sp z)) as [E|E]; [lia|].
      destruct (F4 ltac:(lia)) as (F6 & _). lia. }
  unfold poll_call.
  destruct (poll_body c now x) as [[x1 r0] v0] eqn:PB. cbn [fst].
  rewrite run_tasks_launch, app_length, repeat_length.
  unfold poll_body in PB. destruct (ph x) eqn:P.
  - destruct (a_created _ _ _ _ _ _ B P) as (E1 & _).
    assert (El : length (launch x) = 0%nat) by lia.
    unfold begin in PB. rewrite Lat in PB.
    destruct (1 <? maxa c)%nat eqn:M.
    + cbn [ph] in PB. apply Nat.ltb_lt in M.
      match type of PB with poll_latency c now ?z = _ =>
        pose proof (HL z ltac:(cbn; lia)
                       ltac:(right; cbn [launch sp dline]; split; [exact El|split; [reflexivity|specialize (Hpos 1%nat ltac:(lia)); lia]])) as Q;
        rewrite PB in Q end.
      cbn [fst launch] in Q. lia.
    + cbn [ph] in PB. unfold poll_drain in PB. cbn [queue cons errs perr] in PB.
      destruct (consume_drain (queue x) (cons x) 0 None); [injection PB as <- _ _; unfold resolve; cbn [launch sp]; lia|].
      match type of PB with (if ?b then _ else _) = _ => destruct b end;
        [destruct pe|]; injection PB as <- _ _; unfold resolve; cbn [launch sp]; lia.
  - pose proof (HL x (a_max _ _ _ _ _ _ B) ltac:(left; exact L)) as Q.
    rewrite PB in Q. cbn [fst] in Q. exact Q.
  - unfold poll_drain in PB.
    destruct (consume_drain (queue x) (cons x) (errs x) (perr x)); [injection PB as <- _ _; unfold resolve; cbn [launch sp]; lia|].
    destruct (closed x); [destruct pe|]; injection PB as <- _ _; unfold resolve; cbn [launch sp]; lia.
  - injection PB as <- _ _. lia.
  - injection PB as <- _ _. lia.
Qed.

Lemma step_one_launch c s e i : (1 <= maxa c)%nat -> pos_delays c -> Inv c s ->
  (length (launch (calls (step_st c s e) i)) <= S (length (launch (calls s i))))%nat.
Proof.
  intros Hm Hpos H. unfold step_st, step. destruct e as [j|j|d|j n o|j k|j k].
  - pose proof (poll_call_one_launch c j (now s) (calls s j) Hm Hpos (H j)) as B.
    destruct (poll_call c j (now s) (calls s j)) as [[x r0] v0]. cbn [fst now calls] in *.
    destruct (Nat.eq_dec i j) as [->|Hne]; [rewrite upd_same; exact B|rewrite upd_other by exact Hne; lia].
  - cbn [fst calls]. destruct (Nat.eq_dec i j) as [->|Hne]; [rewrite upd_same|rewrite upd_other by exact Hne; lia].
    unfold drop_call. destruct (ph (calls s j)); cbn; lia.
  - cbn [fst calls]. unfold advance_call. cbn. lia.
  - cbn [fst calls]. destruct (Nat.eq_dec i j) as [->|Hne]; [rewrite upd_same|rewrite upd_other by exact Hne; lia].
    unfold complete_call. destruct (gate (calls s j) n); [lia|].
    destruct (nth_error (starts (calls s j)) n) as [[k0 s0]|]; [|cbn; lia].
    match goal with |- context [finish j (now s) ?z ?a ?b ?c0] => destruct (finish_frame j (now s) z a b c0) as (E & _) end.
    rewrite E. cbn. lia.
  - cbn [fst calls]. destruct (Nat.eq_dec i j) as [->|Hne]; [rewrite upd_same|rewrite upd_other by exact Hne; lia].
    unfold ready_call. destruct (rdy (calls s j) k); [lia|]. destruct (mem k (waiting (calls s j))); [|cbn; lia].
    match goal with |- context [call_inner j (now s) ?z ?a] => destruct (call_inner_frame j (now s) z a) as (E & _) end.
    rewrite E. cbn. lia.
  - cbn [fst calls]. destruct (Nat.eq_dec i j) as [->|Hne]; [rewrite upd_same|rewrite upd_other by exact Hne; lia].
    unfold readyerr_call. destruct (rerr (calls s j) k); [lia|]. destruct (mem k (waiting (calls s j))); [|cbn; lia].
    match goal with |- context [fail_ready j (now s) ?z ?a] => destruct (fail_ready_frame j (now s) z a) as (E & _) end.
    rewrite E. cbn. lia.
Qed.

(* with positive delays (a fixed positive delay in particular) a script cannot launch more
   attempts than it has events: a maximum above that number is never reached *)
Lemma launches_le_events c evs i : (1 <= maxa c)%nat -> pos_delays c ->
  (length (launch (calls (fold_left (step_st c) evs (init c)) i)) <= length evs)%nat.
Proof.
  intros Hm Hpos.
  assert (G : forall evs s, Inv c s ->
     (length (launch (calls (fold_left (step_st c) evs s) i)) <= length (launch (calls s i)) + length evs)%nat).
  { clear evs. induction evs as [|e t IH]; intros s H; cbn [fold_left length]; [lia|].
    specialize (IH (step_st c s e) (inv_step c s e Hm H)).
    pose proof (step_one_launch c s e i Hm Hpos H). lia. }
  specialize (G evs (init c) (inv_init c)). cbn in G. exact G.
Qed.

(* ---------- below the bound, the step function does not depend on max_hedged_attempts ---------- *)
Definition st_eq (s1 s2 : st) : Prop := now s1 = now s2 /\ forall j, calls s1 j = calls s2 j.

Lemma delay_same c1 c2 k : dcfg c1 = dcfg c2 -> delay c1 k = delay c2 k.
Proof. intros E. unfold delay. rewrite E. reflexivity. Qed.

Lemma pos_delays_same c1 c2 : dcfg c1 = dcfg c2 -> pos_delays c1 -> pos_delays c2.
Proof. intros E H k Hk. rewrite <- (delay_same c1 c2 k E). apply H. exact Hk. Qed.

Lemma consume_lat_irrel mx1 mx2 q : forall cs e pe,
  (e + length q < mx1)%nat -> (e + length q < mx2)%nat ->
  consume_lat mx1 q cs e pe = consume_lat mx2 q cs e pe.
Proof.
  induction q as [|[[k ok] v] q IH]; intros cs e pe H1 H2; cbn [consume_lat]; [reflexivity|].
  destruct ok; [reflexivity|]. cbn [length] in H1, H2.
  replace (mx1 <=? S e)%nat with false by (symmetry; apply Nat.leb_gt; lia).
  replace (mx2 <=? S e)%nat with false by (symmetry; apply Nat.leb_gt; lia).
  apply IH; lia.
Qed.

Lemma fire_pos c now fuel s dl : pos_delays c -> (S s < maxa c)%nat -> (2 <= fuel)%nat ->
  fire c now fuel s dl = if dl <=? now then (S s, now + delay c (S s)) else (s, dl).
Proof.
  intros Hpos Hs Hf. destruct fuel as [|[|f]]; [lia|lia|]. cbn [fire].
  replace (s <? maxa c)%nat with true by (symmetry; apply Nat.ltb_lt; lia).
  replace (S s <? maxa c)%nat with true by (symmetry; apply Nat.ltb_lt; lia).
  cbn [andb]. destruct (dl <=? now); [|reflexivity].
  specialize (Hpos (S s) ltac:(lia)).
  replace (now + delay c (S s) <=? now) with false by (symmetry; apply Z.leb_gt; lia).
  reflexivity.
Qed.

Lemma poll_latency_irrel c1 c2 now x : dcfg c1 = dcfg c2 -> pos_delays c1 ->
  (errs x + length (queue x) < maxa c1)%nat -> (errs x + length (queue x) < maxa c2)%nat ->
  (S (sp x) < maxa c1)%nat -> (S (sp x) < maxa c2)%nat ->
  poll_latency c1 now x = poll_latency c2 now x.
Proof.
  intros E Hpos Q1 Q2 S1 S2. unfold poll_latency.
  rewrite (consume_lat_irrel (maxa c1) (maxa c2) (queue x) (cons x) (errs x) (perr x) Q1 Q2).
  destruct (consume_lat (maxa c2) (queue x) (cons x) (errs x) (perr x)); [reflexivity|].
  rewrite (fire_pos c1 now (maxa c1) (sp x) (dline x) Hpos S1 ltac:(lia)).
  rewrite (fire_pos c2 now (maxa c2) (sp x) (dline x) (pos_delays_same c1 c2 E Hpos) S2 ltac:(lia)).
  rewrite (delay_same c1 c2 (S (sp x)) E). reflexivity.
Qed.

Lemma poll_call_irrel c1 c2 i now x : dcfg c1 = dcfg c2 -> pos_delays c1 -> Cfull c1 i now 0 x ->
  (length (launch x) + 2 < maxa c1)%nat -> (length (launch x) + 2 < maxa c2)%nat ->
  poll_call c1 i now x = poll_call c2 i now x.
Proof.
  intros E Hpos (B & _) M1 M2.
  pose proof (a_len _ _ _ _ _ _ B) as L. rewrite Nat.add_0_r in L.
  assert (PB : poll_body c1 now x = poll_body c2 now x).
  { unfold poll_body. destruct (ph x) eqn:P; try reflexivity.
    - destruct (a_created _ _ _ _ _ _ B P) as (E1 & _ & E3 & _).
      assert (Eb : begin c1 now x = begin c2 now x).
      { unfold begin. rewrite (pos_delays_latency c1 Hpos), (pos_delays_latency c2 (pos_delays_same c1 c2 E Hpos)).
        rewrite (delay_same c1 c2 1 E).
        replace (1 <? maxa c1)%nat with true by (symmetry; apply Nat.ltb_lt; lia).
        replace (1 <? maxa c2)%nat with true by (symmetry; apply Nat.ltb_lt; lia). reflexivity. }
      rewrite <- Eb.
      assert (Pb : ph (begin c1 now x) = Latency).
      { unfold begin. rewrite (pos_delays_latency c1 Hpos).
        replace (1 <? maxa c1)%nat with true by (symmetry; apply Nat.ltb_lt; lia). reflexivity. }
      rewrite Pb. apply poll_latency_irrel; try assumption;
        unfold begin; rewrite (pos_delays_latency c1 Hpos);
        replace (1 <? maxa c1)%nat with true by (symmetry; apply Nat.ltb_lt; lia);
        cbn [errs queue sp]; rewrite ?E3; cbn [length]; lia.
    - destruct (c_lat _ _ _ _ _ _ B P) as (Le & _).
      pose proof (dlog_len _ _ _ _ _ _ B) as D1. pose proof (s_cnt _ _ _ _ _ _ B) as D2.
      assert (D3 : length (dlog x) = (length (cons x) + length (queue x))%nat).
      { rewrite <- app_length, <- (c_log _ _ _ _ _ _ B), map_length. reflexivity. }
      apply poll_latency_irrel; try assumption; lia. }
  unfold poll_call. rewrite PB. reflexivity.
Qed.

Lemma advance_call_irrel c1 c2 now t1 x :
  (sp x < maxa c1)%nat -> (sp x < maxa c2)%nat -> advance_call c1 now t1 x = advance_call c2 now t1 x.
Proof.
  intros H1 H2. unfold advance_call, timer_fires.
  replace (sp x <? maxa c1)%nat with true by (symmetry; apply Nat.ltb_lt; lia).
  replace (sp x <? maxa c2)%nat with true by (symmetry; apply Nat.ltb_lt; lia). reflexivity.
Qed.

Lemma step_irrel c1 c2 s1 s2 e : dcfg c1 = dcfg c2 -> pos_delays c1 -> (1 <= maxa c1)%nat ->
  st_eq s1 s2 -> Inv c1 s1 ->
  (forall j, (length (launch (calls s1 j)) + 2 < maxa c1)%nat /\ (length (launch (calls s1 j)) + 2 < maxa c2)%nat) ->
  st_eq (fst (step c1 s1 e)) (fst (step c2 s2 e)) /\ snd (step c1 s1 e) = snd (step c2 s2 e).
Proof.
  intros E Hpos Hm [Hn Hc] H Hb. unfold step. rewrite <- Hn.
  assert (Hu : forall i (y : call) j, upd (calls s1) i y j = upd (calls s2) i y j).
  { intros i y j. unfold upd. destruct (Nat.eqb j i); [reflexivity|apply Hc]. }
  destruct e as [i|i|d|i n o|i k|i k]; try rewrite <- (Hc i).
  - destruct (Hb i) as [B1 B2].
    rewrite <- (poll_call_irrel c1 c2 i (now s1) (calls s1 i) E Hpos (H i) B1 B2).
    destruct (poll_call c1 i (now s1) (calls s1 i)) as [[x r0] v0]. cbn [fst snd now calls].
    split; [split; [reflexivity|apply Hu]|reflexivity].
  - cbn [fst snd now calls]. split; [split; [reflexivity|apply Hu]|reflexivity].
  - cbv zeta. cbn [fst snd now calls]. split; [split; [reflexivity|]|reflexivity].
    intros j. cbn [calls]. rewrite <- (Hc j). destruct (Hb j) as [B1 B2]. destruct (H j) as (B & _).
    pose proof (a_len _ _ _ _ _ _ B) as L. apply advance_call_irrel; lia.
  - cbn [fst snd now calls]. split; [split; [reflexivity|apply Hu]|reflexivity].
  - cbn [fst snd now calls]. split; [split; [reflexivity|apply Hu]|reflexivity].
  - cbn [fst snd now calls]. split; [split; [reflexivity|apply Hu]|reflexivity].
Qed.

Lemma fold_left_ext_in {A B} (f g : A -> B -> A) l : (forall a b, f a b = g a b) ->
  forall a, fold_left f l a = fold_left g l a.
Proof. intros H. induction l as [|b l IH]; intros a; cbn; [reflexivity|]. rewrite H. apply IH. Qed.

Lemma obs_irrel s1 s2 s1' s2' total : st_eq s1 s2 -> st_eq s1' s2' ->
  new_starts s1 s1' total = new_starts s2 s2' total /\ new_launches s1 s1' total = new_launches s2 s2' total /\
  wake_mask s1' total = wake_mask s2' total /\ inflight s1' total = inflight s2' total /\ now s1' = now s2'.
Proof.
  intros [_ Hc] [Hn' Hc']. unfold new_starts, new_launches, wake_mask, inflight.
  repeat split; try exact Hn'; apply fold_left_ext_in; intros a j; rewrite ?(Hc j), ?(Hc' j); reflexivity.
Qed.

(* the trace of a run does not depend on max_hedged_attempts as long as it exceeds the number
   of events + 1 (positive delays): running a script whose maximum is larger with
   (number of events + 2) -- as cfg_of does -- gives the trace of the configured maximum *)
Lemma run_evs_maxa_irrelevant c1 c2 total evs : dcfg c1 = dcfg c2 -> gated c1 = gated c2 -> pos_delays c1 ->
  (length evs + 2 <= maxa c1)%nat -> (length evs + 2 <= maxa c2)%nat ->
  run_evs c1 total (init c1) evs = run_evs c2 total (init c2) evs.
Proof.
  intros E G Hpos M1 M2.
  assert (Hm : (1 <= maxa c1)%nat) by lia.
  assert (K : forall evs s1 s2 n, st_eq s1 s2 -> Inv c1 s1 ->
     (forall j, (length (launch (calls s1 j)) <= n)%nat) ->
     (n + length evs + 2 <= maxa c1)%nat -> (n + length evs + 2 <= maxa c2)%nat ->
     run_evs c1 total s1 evs = run_evs c2 total s2 evs).
  { clear evs M1 M2. induction evs as [|e t IH]; intros s1 s2 n Hs H Hl N1 N2; cbn [run_evs]; [reflexivity|].
    cbn [length] in N1, N2.
    destruct (step_irrel c1 c2 s1 s2 e E Hpos Hm Hs H) as [Hs' Ho].
    { intros j. specialize (Hl j). lia. }
    pose proof (inv_step c1 s1 e Hm H) as H'.
    assert (Hl' : forall j, (length (launch (calls (step_st c1 s1 e) j)) <= S n)%nat).
    { intros j. pose proof (step_one_launch c1 s1 e j Hm Hpos H). specialize (Hl j). lia. }
    unfold step_st in H', Hl'.
    destruct (step c1 s1 e) as [s1' o1]. destruct (step c2 s2 e) as [s2' o2]. cbn [fst snd] in *.
    subst o2. destruct (obs_irrel s1 s2 s1' s2' total Hs Hs') as (O1 & O2 & O3 & O4 & O5).
    rewrite O1, O2, O3, O4, O5. f_equal.
    apply (IH s1' s2' (S n)); try assumption; lia. }
  apply (K evs (init c1) (init c2) 0%nat); try lia.
  - split; [reflexivity|]. intros j. cbn. unfold init_call. rewrite G. reflexivity.
  - apply inv_init.
  - intros j. cbn. lia.
Qed.

(* the only hypothesis of the statements, 1 <= max_hedged_attempts, holds for the
   configuration of every script (the builder stores n.max(1)) *)
Lemma cfg_of_maxa sc : (1 <= maxa (cfg_of sc))%nat.
Proof.
  unfold cfg_of. cbn [maxa].
  match goal with |- context [if ?b then _ else _] => destruct b eqn:B end; [|apply Nat.le_max_l].
  apply andb_true_iff in B. destruct B as [B _]. apply Z.ltb_lt in B. lia.
Qed.

(* ================= non-vacuity ================= *)
Definition cfg_fixed10 : cfg := {| maxa := 2; dcfg := Fixed 10; gated := false |}.
Definition cfg_fixed10g : cfg := {| maxa := 2; dcfg := Fixed 10; gated := true |}.
(* the reproducer of the upstream defect: hedge fails at once, primary succeeds at 100 ms *)
Definition evs_repro : list ev :=
  [Poll 0; Complete 0 1 OErr; Advance 10; Poll 0; Advance 1; Poll 0; Advance 89; Complete 0 0 OOk; Poll 0].
Example ex_repro :
  let x := calls (fold_left (step_st cfg_fixed10) evs_repro (init cfg_fixed10)) 0 in
  res x = Some (1, val 0 0, 100) /\ launch x = [0; 10] /\ starts x = [(0%nat, 0); (1%nat, 10)] /\
  dlog x = [((1%nat, false, val 0 1), 10); ((0%nat, true, val 0 0), 100)].
Proof. vm_compute. repeat split. Qed.

(* back-pressure: the hedge is launched at 10 ms, its clone is not ready; the primary succeeds
   at 15 ms and the call resolves at the next poll; the hedge makes its call when readied *)
Example ex_backpressure :
  let s := fold_left (step_st cfg_fixed10g) [Poll 0; Advance 10; Poll 0; Advance 5; Complete 0 0 OOk]
                     (init cfg_fixed10g) in
  let x := calls s 0 in
  ph x = Latency /\ launch x = [0; 10] /\ waiting x = [1%nat] /\ starts x = [(0%nat, 0)] /\
  find it_ok (queue x) = Some (0%nat, true, val 0 0) /\ woken x = true /\
  snd (step cfg_fixed10g s (Poll 0)) = {| r := 1; v := val 0 0 |} /\
  starts (calls (step_st cfg_fixed10g (step_st cfg_fixed10g s (Poll 0)) (Ready 0 1)) 0)
    = [(0%nat, 0); (1%nat, 15)].
Proof. vm_compute. repeat split. Qed.

(* hypotheses of spacing_prompt: the timer is due, the poll stays pending and launches the hedge *)
Example ex_prompt :
  let s := fold_left (step_st cfg_fixed10) [Poll 0; Advance 10] (init cfg_fixed10) in
  let x := calls s 0 in
  ph x = Latency /\ (length (launch x) < maxa cfg_fixed10)%nat /\ dline x = now s /\ woken x = true /\
  r (snd (step cfg_fixed10 s (Poll 0))) = 0 /\ rdy x 1 = true /\
  starts (calls (step_st cfg_fixed10 s (Poll 0)) 0) = [(0%nat, 0); (1%nat, 10)].
Proof. vm_compute. repeat split. apply le_n. Qed.

(* hypotheses of first_success_wins: pending with an error and then a success queued *)
Example ex_first_ok :
  let c := {| maxa := 3; dcfg := Immediate; gated := false |} in
  let s := fold_left (step_st c) [Poll 0; Complete 0 2 OErr; Complete 0 1 OOk; Complete 0 0 OOk] (init c) in
  let x := calls s 0 in
  ph x = Drain /\ find it_ok (queue x) = Some (1%nat, true, val 0 1) /\
  snd (step c s (Poll 0)) = {| r := 1; v := val 0 1 |}.
Proof. vm_compute. repeat split. Qed.

(* all attempts fail in latency mode with dynamic delays [0; 50]: the primary's error is carried *)
Example ex_all_failed :
  let c := {| maxa := 3; dcfg := Dynamic [0; 50]; gated := false |} in
  let x := calls (fold_left (step_st c)
                   [Poll 0; Advance 49; Poll 0; Advance 1; Poll 0; Complete 0 1 OErr; Complete 0 2 OErr;
                    Poll 0; Complete 0 0 OErr; Poll 0] (init c)) 0 in
  res x = Some (3, val 0 0, 50) /\ launch x = [0; 0; 50].
Proof. vm_compute. repeat split. Qed.

(* parallel mode with back-pressure: clones get ready out of order, the carried error is the
   first one received (inner call 1, made by attempt task 2) *)
Example ex_all_failed_parallel :
  let c := {| maxa := 3; dcfg := Immediate; gated := true |} in
  let x := calls (fold_left (step_st c)
                   [Poll 0; Ready 0 2; Complete 0 1 OErr; Ready 0 1; Complete 0 2 OErr; Complete 0 0 OErr; Poll 0]
                   (init c)) 0 in
  res x = Some (3, val 0 1, 0) /\ launch x = [0; 0; 0] /\ map fst (starts x) = [0%nat; 2%nat; 1%nat].
Proof. vm_compute. repeat split. Qed.

(* the primary succeeds before the first delay has elapsed: exactly one inner call *)
Example ex_primary_fast :
  let x := calls (fold_left (step_st cfg_fixed10) [Poll 0; Advance 5; Complete 0 0 OOk; Advance 20; Poll 0]
                            (init cfg_fixed10)) 0 in
  In ((0%nat, true, val 0 0), 5) (dlog x) /\ 5 < t0 x + delay cfg_fixed10 1 /\ launch x = [0] /\
  res x = Some (1, val 0 0, 25).
Proof. vm_compute. repeat split. left. reflexivity. Qed.

(* a clone whose poll_ready fails: hedge 1 gives up at its launch (10 ms) without an inner call; the
   call goes on waiting for the primary and reports AllAttemptsFailed only when that has failed
   too -- with ONE inner call made *)
Example ex_ready_err :
  let evs := [ReadyErr 0 1; Poll 0; Advance 10; Poll 0; Poll 0; Advance 5; Complete 0 0 OErr] in
  let s := fold_left (step_st cfg_fixed10) evs (init cfg_fixed10) in
  let x := calls s 0 in
  ph x = Latency /\ launch x = [0; 10] /\ starts x = [(0%nat, 0)] /\ rfl x = [1%nat] /\ waiting x = [] /\
  dlog x = [((1%nat, false, rval 0 1), 10); ((0%nat, false, val 0 0), 15)] /\
  Forall (fun m => it_ok m = false) (map fst (dlog x)) /\ (maxa cfg_fixed10 <= length (dlog x))%nat /\
  snd (step cfg_fixed10 s (Poll 0)) = {| r := 3; v := val 0 0 |} /\
  res (calls (step_st cfg_fixed10 s (Poll 0)) 0) = Some (3, val 0 0, 15).
Proof. vm_compute. repeat split; repeat constructor. Qed.

(* back-pressure: the waiting hedge's clone starts failing while it waits *)
Example ex_ready_err_waiting :
  let s := fold_left (step_st cfg_fixed10g) [Poll 0; Advance 10; Poll 0; Advance 3] (init cfg_fixed10g) in
  waiting (calls s 0) = [1%nat] /\
  let x' := calls (step_st cfg_fixed10g s (ReadyErr 0 1)) 0 in
  rfl x' = [1%nat] /\ waiting x' = [] /\ starts x' = [(0%nat, 0)] /\
  queue x' = [(1%nat, false, rval 0 1)] /\ woken x' = true.
Proof. vm_compute. repeat split. Qed.

(* hypotheses of start_spacing: no back-pressure, latency mode, three inner calls, one readiness
   failure in between (attempt 2): inner call 2 is made by attempt 3 *)
Example ex_start_spacing :
  let c := {| maxa := 4; dcfg := Dynamic [5; 0; 7]; gated := false |} in
  let x := calls (fold_left (step_st c) [ReadyErr 0 2; Poll 0; Advance 5; Poll 0; Advance 7; Poll 0] (init c)) 0 in
  gated c = false /\ latency_mode c = true /\
  starts x = [(0%nat, 0); (1%nat, 5); (3%nat, 12)] /\ rfl x = [2%nat] /\ launch x = [0; 5; 5; 12].
Proof. vm_compute. repeat split. Qed.

(* microsecond delays: 900 us and 1500 us behave as 1 ms and 2 ms; Duration::MAX never elapses *)
Example ex_micros :
  delay (cfg_of [3; 34; 1; 2; 900; 1500]) 1 = 1 /\ delay (cfg_of [3; 34; 1; 2; 900; 1500]) 2 = 2 /\
  delay (cfg_of [2; 0; 1; 1; 10 ^ 18]) 1 = dmax /\ delay (cfg_of [2; 32; 1; 1; 10 ^ 18]) 1 = dmax /\
  run_script [2; 0; 1; 1; 10 ^ 18; 1; 0; 0; 3; 100000; 0; 1; 0; 0; 4; 0; 0; 1; 0; 0] =
    [0; 0; 1; 0; 0; 1; 0;  -1; 0; 0; 0; 0; 1; 100000;  0; 0; 0; 0; 0; 1; 100000;
     -1; 0; 0; 0; 1; 0; 100000;  1; 0; 0; 0; 0; 0; 100000].
Proof. vm_compute. repeat split. Qed.
