(* Proofs for C14, real-number layer (over Proof/Backoff.v): what the returned delay IS, in R.
   (G) rounding: rnd_rel_or_zero / rnd_abs (relative error u = 2^-53 plus the underflow term
       ETA = 2^-1022), integers below 2^53 are exact (rnd_int), (1 +/- u)^k against 1 +/- 2ku.
   (H) rhe_real: Duration::try_from_secs_f64's round-half-even is within 1/2 ns.
   (I) as_secs_real: Duration::as_secs_f64(d) is within (1 +/- u)^2 of d / 10^9.
   (J) UB / G_UB / powi_UB: an upper bound on the square-and-multiply result that needs no
       finiteness hypothesis, hence secs_real: the product is finite whenever the real product is
       at most 2^64 s, and then within (1 +/- u)^(e+3) of initial/10^9 * multiplier^e.
   (K) Rz_real / Rz_real_capped, real_value, real_capped: the returned nanoseconds against
       initial * multiplier^e, below and above the cap.
   (L) dur_sat_upper/lower, jitter_real: the jittered delay against base * (1 -/+ factor).
   (M) stays_capped, Examples. *)
From Flocq Require Import Core Relative FLT IEEE754.BinarySingleNaN IEEE754.Binary IEEE754.Bits.
From Coq Require Import Reals Lra Lia ZArith PArith NArith Psatz.
From TR Require Import Lib.Base Model.Backoff Proof.Backoff.
Local Open Scope R_scope.

Local Existing Instance prec53.
Local Existing Instance prec_lt_emax.
Local Existing Instance fexp64_valid.
Local Existing Instance fexp64_mono.

(* ---------- rounding ---------- *)
Definition ETA : R := bpow radix2 (-1022).

Lemma u53_small : 0 < u53 <= / 1024.
Proof.
  unfold u53. assert (0 < bpow radix2 (-52)) by apply bpow_gt_0.
  assert (bpow radix2 (-52) <= bpow radix2 (-9)) by (apply bpow_le; lia).
  change (bpow radix2 (-9)) with (/ 512) in *. lra.
Qed.

Lemma ETA_pos : 0 < ETA.
Proof. apply bpow_gt_0. Qed.

Lemma rnd_rel_or_zero t : t = 0 \/ ETA <= t -> t * (1 - u53) <= rnd t <= t * (1 + u53).
Proof.
  intros [->|H]; [rewrite rnd_0; lra | apply rnd_rel, H].
Qed.

Lemma rnd_abs t : 0 <= t -> t * (1 - u53) - ETA <= rnd t <= t * (1 + u53) + ETA.
Proof.
  intros H0. pose proof ETA_pos. pose proof u53_small.
  destruct (Rle_lt_dec ETA t) as [Ht|Ht].
  - pose proof (rnd_rel t Ht). lra.
  - assert (0 <= rnd t) by (apply rnd_ge_0, H0).
    assert (rnd t <= ETA).
    { unfold ETA. rewrite <- (rnd_bpow (-1022)) by lia. apply rnd_le. fold ETA. lra. }
    nra.
Qed.

Lemma rnd_int z : (Z.abs z < 2 ^ 53)%Z -> rnd (IZR z) = IZR z.
Proof.
  intros H. apply round_generic; auto with typeclass_instances.
  apply (generic_format_FLT radix2 (3 - 1024 - 53) 53).
  exists (Float radix2 z 0).
  - unfold F2R. simpl. lra.
  - exact H.
  - simpl. lia.
Qed.

(* ---------- (1 +/- u)^k ---------- *)
Lemma pow_1pu_lin k : INR k * u53 <= / 2 -> (1 + u53) ^ k <= 1 + 2 * INR k * u53.
Proof.
  pose proof u53_small as Hu.
  induction k as [|k IH]; intros H.
  - simpl. lra.
  - rewrite S_INR in H. assert (Hk : 0 <= INR k) by apply pos_INR.
    assert (H' : INR k * u53 <= / 2) by nra.
    specialize (IH H'). rewrite <- tech_pow_Rmult, S_INR.
    assert (0 < (1 + u53) ^ k) by (apply pow_lt; lra). nra.
Qed.

Lemma pow_1mu_lin k : 1 - INR k * u53 <= (1 - u53) ^ k.
Proof.
  pose proof u53_small as Hu.
  induction k as [|k IH].
  - simpl. lra.
  - rewrite <- tech_pow_Rmult, S_INR. assert (Hk : 0 <= INR k) by apply pos_INR.
    assert (0 < (1 - u53) ^ k) by (apply pow_lt; lra).
    destruct (Rle_lt_dec (1 - INR k * u53) 0); nra.
Qed.

(* ---------- round-half-even to whole numbers is within 1/2 ---------- *)
Lemma rhe_half n d : (0 < d)%Z -> (2 * Z.abs (rhe n d * d - n) <= d)%Z.
Proof.
  intros Hd. pose proof (Z.div_mod n d ltac:(lia)) as E.
  pose proof (Z.mod_pos_bound n d Hd) as B. unfold rhe.
  destruct (Z.compare_spec (2 * (n mod d)) d); [destruct (Z.even (n / d))|..]; nia.
Qed.

Lemma rhe_real n d : (0 < d)%Z -> Rabs (IZR (rhe n d) - IZR n / IZR d) <= / 2.
Proof.
  intros Hd. pose proof (rhe_half n d Hd) as H.
  assert (D : 0 < IZR d) by (apply IZR_lt; exact Hd).
  replace (IZR (rhe n d) - IZR n / IZR d) with (IZR (rhe n d * d - n) / IZR d)
    by (rewrite minus_IZR, mult_IZR; field; lra).
  unfold Rdiv. rewrite Rabs_mult, (Rabs_pos_eq (/ IZR d)) by (apply Rlt_le, Rinv_0_lt_compat, D).
  rewrite <- abs_IZR.
  apply Rmult_le_reg_r with (IZR d); [exact D|].
  rewrite Rmult_assoc, Rinv_l by lra.
  assert (IZR (2 * Z.abs (rhe n d * d - n)) <= IZR d) by (apply IZR_le, H).
  rewrite mult_IZR in H0. lra.
Qed.

(* ---------- Duration::as_secs_f64 against the real number of seconds ---------- *)
Definition GIGA : R := 1000000000.

Lemma ETA_le_nano : ETA <= / GIGA.
Proof.
  apply Rle_trans with (bpow radix2 (-30)); [apply bpow_le; lia|].
  change (bpow radix2 (-30)) with (/ 1073741824). unfold GIGA.
  apply Rinv_le_contravar; lra.
Qed.

Lemma as_secs_real d : (0 <= d <= DUR_MAX)%Z ->
  exists s, FR (as_secs_f64 d) s /\
    IZR d / GIGA * (1 - u53) ^ 2 <= s <= IZR d / GIGA * (1 + u53) ^ 2.
Proof.
  intros Hd. destruct (DUR_MAX_div d Hd) as [Hs Hn].
  pose proof u53_small as Hu. pose proof ETA_le_nano as HE. pose proof ETA_pos as HE0.
  unfold as_secs_f64.
  assert (Z1023 : forall k z, (0 <= z <= 2 ^ k)%Z -> (0 <= k <= 1023)%Z -> (Z.abs z <= 2 ^ 1023)%Z).
  { intros k z Hz Hk. rewrite Z.abs_eq by lia. apply Z.le_trans with (2 ^ k)%Z; [lia|]. apply Z.pow_le_mono_r; lia. }
  pose proof (FR_of_Z (d / NANOS) (Z1023 64%Z _ Hs ltac:(lia))) as FA.
  pose proof (FR_of_Z (d mod NANOS) (Z1023 30%Z _ Hn ltac:(lia))) as FB.
  assert (HN : (0 <= NANOS <= 2 ^ 30)%Z) by (unfold NANOS; change (2 ^ 30)%Z with 1073741824%Z; lia).
  pose proof (FR_of_Z NANOS (Z1023 30%Z _ HN ltac:(lia))) as FC.
  assert (Hmod : (0 <= d mod NANOS < NANOS)%Z) by (apply Z.mod_pos_bound; unfold NANOS; lia).
  rewrite (rnd_int (d mod NANOS)) in FB
    by (rewrite Z.abs_eq by lia; unfold NANOS in Hmod; change (2 ^ 53)%Z with 9007199254740992%Z; lia).
  rewrite (rnd_int NANOS) in FC by (unfold NANOS; change (2 ^ 53)%Z with 9007199254740992%Z; simpl; lia).
  change (IZR NANOS) with GIGA in FC.
  set (S := IZR (d / NANOS)) in *. set (Q := IZR (d mod NANOS)) in *.
  assert (HS : S = 0 \/ 1 <= S).
  { unfold S. destruct (Z.eq_dec (d / NANOS) 0) as [->|Hne]; [left; reflexivity|right].
    apply (IZR_le 1). lia. }
  assert (HQ : Q = 0 \/ 1 <= Q).
  { unfold Q. destruct (Z.eq_dec (d mod NANOS) 0) as [->|Hne]; [left; reflexivity|right].
    apply (IZR_le 1). lia. }
  assert (HQ' : Q < GIGA) by (unfold Q, GIGA; apply IZR_lt; unfold NANOS in *; lia).
  assert (HS64 : 0 <= S <= bpow radix2 64).
  { unfold S. split; [apply IZR_le; lia|]. rewrite <- IZR_Zpower by lia. apply IZR_le. exact (proj2 Hs). }
  assert (EX : IZR d / GIGA = S + Q / GIGA).
  { unfold S, Q, GIGA. change 1000000000 with (IZR NANOS).
    rewrite (Z.div_mod d NANOS) at 1 by (unfold NANOS; lia).
    rewrite plus_IZR, mult_IZR. field. unfold NANOS. lra. }
  assert (G0 : 0 < GIGA) by (unfold GIGA; lra).
  assert (Hqc : 0 <= Q / GIGA < 1).
  { split.
    - apply Rmult_le_pos; [destruct HQ; lra | apply Rlt_le, Rinv_0_lt_compat, G0].
    - apply Rmult_lt_reg_r with GIGA; [exact G0|]. unfold Rdiv. rewrite Rmult_assoc, Rinv_l by lra. lra. }
  assert (Hqc' : Q / GIGA = 0 \/ ETA <= Q / GIGA).
  { destruct HQ as [->|HQ1]; [left; unfold Rdiv; lra|right].
    apply Rle_trans with (/ GIGA); [exact HE|].
    unfold Rdiv. rewrite <- (Rmult_1_l (/ GIGA)) at 1.
    apply Rmult_le_compat_r; [apply Rlt_le, Rinv_0_lt_compat, G0 | exact HQ1]. }
  assert (FQ : FR (fdiv (of_Z (d mod NANOS)) (of_Z NANOS)) (rnd (Q / GIGA))).
  { apply FR_div; try assumption; [lra|]. rewrite Rabs_pos_eq by lra.
    apply Rle_trans with 1; [lra|]. change 1 with (bpow radix2 0). apply bpow_le. lia. }
  pose proof (rnd_rel_or_zero (Q / GIGA) Hqc') as Rq.
  assert (HS' : S = 0 \/ ETA <= S).
  { destruct HS as [->|H1]; [left; reflexivity|right].
    apply Rle_trans with 1; [|exact H1]. change 1 with (bpow radix2 0). apply bpow_le. lia. }
  pose proof (rnd_rel_or_zero S HS') as Ra.
  set (a := rnd S) in *. set (q := rnd (Q / GIGA)) in *.
  assert (Ha0 : 0 <= a) by (apply rnd_ge_0; lra).
  assert (Hq0 : 0 <= q) by (apply rnd_ge_0; lra).
  assert (Ha64 : a <= bpow radix2 64) by (unfold a; rewrite <- (rnd_bpow 64) by lia; apply rnd_le; lra).
  assert (Hq1 : q <= 1) by (unfold q; rewrite <- rnd_1; apply rnd_le; lra).
  assert (B64 : bpow radix2 64 + 1 <= bpow radix2 65).
  { change (bpow radix2 65) with (bpow radix2 (64 + 1)). rewrite bpow_plus.
    assert (1 <= bpow radix2 64) by (change 1 with (bpow radix2 0); apply bpow_le; lia).
    change (bpow radix2 1) with 2. lra. }
  assert (Haq : a + q = 0 \/ ETA <= a + q).
  { destruct HS as [HS0|HS1].
    - destruct HQ as [HQ0|HQ1].
      + left. unfold a, q. rewrite HS0, HQ0. unfold Rdiv. rewrite Rmult_0_l, rnd_0. lra.
      + right. destruct Hqc' as [Hz|Hge]; [exfalso; unfold Rdiv in Hz; 
          assert (0 < Q * / GIGA) by (apply Rmult_lt_0_compat; [lra|apply Rinv_0_lt_compat, G0]); lra|].
        assert (ETA <= q) by (unfold q, ETA; rewrite <- (rnd_bpow (-1022)) by lia; apply rnd_le; exact Hge).
        lra.
    - right. assert (1 <= a) by (unfold a; rewrite <- rnd_1; apply rnd_le; exact HS1).
      assert (ETA <= 1) by (change 1 with (bpow radix2 0); apply bpow_le; lia). lra. }
  pose proof (rnd_rel_or_zero (a + q) Haq) as Rs.
  exists (rnd (a + q)). split.
  - apply FR_add; try assumption. rewrite Rabs_pos_eq by lra.
    apply Rle_trans with (bpow radix2 65); [lra|]. apply bpow_le. lia.
  - rewrite EX. destruct Hqc as [Hqc0 _]. destruct HS64 as [HS0 _]. split; nra.
Qed.

(* ---------- an upper bound on powi that needs no finiteness: hence finiteness ---------- *)
(* x is in the class P (>= 1, possibly +inf) and its extended value is at most t (1+u)^k *)
Definition UB (x : f64) (t : R) (k : nat) : Prop := P x /\ 1 <= t /\ V x <= t * (1 + u53) ^ k.

Lemma UB_weaken x t k k' : UB x t k -> (k <= k')%nat -> UB x t k'.
Proof.
  intros (Px & T & U) Hk. split; [exact Px|]. split; [exact T|].
  pose proof u53_small as Hu.
  eapply Rle_trans; [exact U|]. apply Rmult_le_compat_l; [lra|].
  apply Rle_pow; [lra | exact Hk].
Qed.

Lemma UB_mul x y t t' k k' : UB x t k -> UB y t' k' -> UB (fmul x y) (t * t') (k + k' + 1).
Proof.
  intros (Px & T & Ux) (Py & T' & Uy). pose proof u53_small as Hu.
  destruct (fmul_P x y Px Py) as [Pm E].
  split; [exact Pm|]. split; [nra|]. rewrite E.
  eapply Rle_trans; [apply Rmin_l|].
  destruct Px as [Nx Hx], Py as [Ny Hy].
  assert (Hxy : 1 <= V x * V y) by nra.
  assert (HE : ETA <= V x * V y).
  { apply Rle_trans with 1; [|exact Hxy]. change 1 with (bpow radix2 0). apply bpow_le. lia. }
  destruct (rnd_rel _ HE) as [_ R2].
  eapply Rle_trans; [exact R2|].
  rewrite !pow_add, pow_1.
  assert (0 < (1 + u53) ^ k) by (apply pow_lt; lra).
  assert (0 < (1 + u53) ^ k') by (apply pow_lt; lra).
  replace (t * t' * ((1 + u53) ^ k * (1 + u53) ^ k' * (1 + u53)))
    with (t * (1 + u53) ^ k * (t' * (1 + u53) ^ k') * (1 + u53)) by ring.
  apply Rmult_le_compat_r; [lra|]. apply Rmult_le_compat; lra.
Qed.

Section PowiUpper.
  Context (mu : R).

  Lemma G_UB p : forall r a j e, (1 <= e)%nat ->
    UB r (mu ^ j) j -> UB a (mu ^ e) (e - 1) ->
    UB (G fmul r a p) (mu ^ (j + e * Pos.to_nat p)) (j + e * Pos.to_nat p).
  Proof.
    induction p as [q IH|q IH|]; intros r a j e He Rr Ra; cbn [G].
    - pose proof (UB_mul r a _ _ _ _ Rr Ra) as R1.
      pose proof (UB_mul a a _ _ _ _ Ra Ra) as R2.
      rewrite <- pow_add in R1, R2.
      replace (j + (e - 1) + 1)%nat with (j + e)%nat in R1 by lia.
      apply (UB_weaken _ _ _ (e + e - 1)) in R2; [|lia].
      specialize (IH (fmul r a) (fmul a a) (j + e)%nat (e + e)%nat ltac:(lia) R1 R2).
      rewrite Pos2Nat.inj_xI.
      replace (j + e * S (2 * Pos.to_nat q))%nat with (j + e + (e + e) * Pos.to_nat q)%nat by lia.
      exact IH.
    - pose proof (UB_mul a a _ _ _ _ Ra Ra) as R2.
      rewrite <- pow_add in R2.
      apply (UB_weaken _ _ _ (e + e - 1)) in R2; [|lia].
      specialize (IH r (fmul a a) j (e + e)%nat ltac:(lia) Rr R2).
      rewrite Pos2Nat.inj_xO.
      replace (j + e * (2 * Pos.to_nat q))%nat with (j + (e + e) * Pos.to_nat q)%nat by lia.
      exact IH.
    - pose proof (UB_mul r a _ _ _ _ Rr Ra) as R1.
      rewrite <- pow_add in R1.
      replace (j + (e - 1) + 1)%nat with (j + e)%nat in R1 by lia.
      change (Pos.to_nat 1) with 1%nat. rewrite Nat.mul_1_r. exact R1.
  Qed.
End PowiUpper.

Lemma powi_UB m n : P m -> finite64 m = true ->
  UB (powi m n) (B2R64 m ^ N.to_nat n) (N.to_nat n).
Proof.
  intros Pm Fm. pose proof (P_B2R_ge1 m Pm Fm) as Hmu.
  assert (U1 : UB fone (B2R64 m ^ 0) 0).
  { split; [exact P_fone|]. split; [simpl; lra|]. rewrite V_fone. simpl. lra. }
  destruct n as [|p]; cbn [powi N.to_nat].
  - exact U1.
  - rewrite powi_pos_G.
    assert (U2 : UB m (B2R64 m ^ 1) (1 - 1)).
    { split; [exact Pm|]. split; [rewrite pow_1; exact Hmu|]. rewrite V_finite by exact Fm. simpl. lra. }
    pose proof (G_UB (B2R64 m) p fone m 0 1 ltac:(lia) U1 U2) as H.
    rewrite Nat.add_0_l, Nat.mul_1_l in H. exact H.
Qed.

Lemma INR_e_bound a : INR (N.to_nat (N.min a I32_MAX)) <= 2147483647.
Proof.
  rewrite INR_IZR_INZ. apply IZR_le. rewrite N_nat_Z. unfold I32_MAX. lia.
Qed.

Lemma e_u53_small a k : (k <= 8)%nat -> INR (N.to_nat (N.min a I32_MAX) + k) * u53 <= / 1024.
Proof.
  intros Hk. pose proof (INR_e_bound a) as He. rewrite plus_INR.
  assert (INR k <= 8) by (replace 8 with (INR 8) by (simpl; lra); apply le_INR, Hk).
  assert (Hu : u53 = / 9007199254740992).
  { unfold u53. change (bpow radix2 (-52)) with (/ 4503599627370496). lra. }
  rewrite Hu. assert (0 <= INR (N.to_nat (N.min a I32_MAX))) by apply pos_INR. lra.
Qed.

(* ---------- the binary64 product of exponential_interval against the real product ---------- *)
Lemma wf_cfg_finite_mult c : wf_cfg c = true -> finite64 (multiplier c) = true.
Proof.
  intros W. unfold wf_cfg in W. apply andb_prop in W. destruct W as [W _].
  apply andb_prop in W. destruct W as [W _]. apply andb_prop in W. destruct W as [_ W].
  unfold wf_mult in W. apply andb_prop in W. apply W.
Qed.

Lemma GIGA_bounds : 1 <= GIGA <= bpow radix2 30.
Proof. unfold GIGA. change (bpow radix2 30) with 1073741824. lra. Qed.

Lemma pow_split3 t e : t ^ (e + 3) = t ^ (e + 1) * t ^ 2.
Proof. rewrite <- pow_add. f_equal. lia. Qed.

Lemma secs_real c a : wf_cfg c = true -> (1 <= initial c)%Z ->
  let e := N.to_nat (N.min a I32_MAX) in
  let x := IZR (initial c) / GIGA * B2R64 (multiplier c) ^ e in
  NN (secs_of c a) /\
  (finite64 (secs_of c a) = true ->
     x * (1 - u53) ^ (e + 3) <= B2R64 (secs_of c a) <= x * (1 + u53) ^ (e + 3)) /\
  (x <= bpow radix2 64 -> finite64 (secs_of c a) = true).
Proof.
  intros W Hi e x. destruct (wf_cfg_spec c W) as (Hini & Pm & _ & _).
  pose proof (wf_cfg_finite_mult c W) as Fm.
  pose proof u53_small as Hu. pose proof GIGA_bounds as HG.
  destruct (as_secs_real (initial c) Hini) as (s & FS & Hs).
  set (X := IZR (initial c) / GIGA) in *.
  assert (HX : / GIGA <= X).
  { unfold X, Rdiv. rewrite <- (Rmult_1_l (/ GIGA)) at 1.
    apply Rmult_le_compat_r; [apply Rlt_le, Rinv_0_lt_compat; lra | apply (IZR_le 1), Hi]. }
  assert (HG' : 0 < / GIGA) by (apply Rinv_0_lt_compat; lra).
  assert (Hspos : 0 < s).
  { assert (0 < (1 - u53) ^ 2) by (apply pow_lt; lra). nra. }
  pose proof (FR_pos_NN _ _ FS Hspos) as NS.
  set (n := N.min a I32_MAX) in *.
  pose proof (powi_mono (multiplier c) n n Pm (N.le_refl n)) as Hpp.
  pose proof Hpp as (Pp & _ & _).
  pose proof (P_B2R_ge1 _ Pm Fm) as Hmu.
  set (mu := B2R64 (multiplier c)) in *.
  assert (Hmue : 1 <= mu ^ e) by (apply pow_R1_Rle, Hmu).
  assert (HVS : 0 < V (as_secs_f64 (initial c))).
  { destruct FS as [F E]. rewrite V_finite by exact F. rewrite E. exact Hspos. }
  destruct (fmul_S_mono _ _ _ NS (proj1 FS) HVS Hpp) as (N1 & _ & _).
  split; [exact N1|]. split.
  - intros F. pose proof (real_error_partial c a W Hi F) as B.
    unfold real_error_bound in B. cbv zeta in B. fold n e mu in B.
    destruct FS as [_ ES]. rewrite ES in B. fold (secs_of c a).
    unfold x. rewrite !pow_split3.
    assert (0 < (1 - u53) ^ (e + 1)) by (apply pow_lt; lra).
    assert (0 < (1 + u53) ^ (e + 1)) by (apply pow_lt; lra).
    destruct B as [B1 B2]. destruct Hs as [Hs1 Hs2]. split.
    + eapply Rle_trans; [|exact B1].
      replace (X * mu ^ e * ((1 - u53) ^ (e + 1) * (1 - u53) ^ 2))
        with (X * (1 - u53) ^ 2 * (mu ^ e * (1 - u53) ^ (e + 1))) by ring.
      rewrite (Rmult_assoc s). apply Rmult_le_compat_r; [nra | exact Hs1].
    + eapply Rle_trans; [exact B2|].
      replace (X * mu ^ e * ((1 + u53) ^ (e + 1) * (1 + u53) ^ 2))
        with (X * (1 + u53) ^ 2 * (mu ^ e * (1 + u53) ^ (e + 1))) by ring.
      rewrite (Rmult_assoc s). apply Rmult_le_compat_r; [nra | exact Hs2].
  - intros Hx.
    (* the power is finite *)
    pose proof (powi_UB (multiplier c) n Pm Fm) as (_ & _ & U). fold mu e in U.
    assert (Hpe : (1 + u53) ^ e <= 1 + 2 * INR e * u53).
    { apply pow_1pu_lin. pose proof (e_u53_small a 0 ltac:(lia)) as A. fold n e in A.
      rewrite Nat.add_0_r in A. lra. }
    assert (Hpe2 : (1 + u53) ^ (e + 2) <= 1 + 2 * INR (e + 2) * u53).
    { apply pow_1pu_lin. pose proof (e_u53_small a 2 ltac:(lia)) as A. fold n e in A. lra. }
    pose proof (e_u53_small a 0 ltac:(lia)) as A0. fold n e in A0. rewrite Nat.add_0_r in A0.
    pose proof (e_u53_small a 2 ltac:(lia)) as A2. fold n e in A2.
    assert (Hmub : mu ^ e <= bpow radix2 94).
    { change (bpow radix2 94) with (bpow radix2 (64 + 30)). rewrite bpow_plus.
      assert (mu ^ e <= x * GIGA).
      { unfold x. replace (X * mu ^ e * GIGA) with (mu ^ e * (X * GIGA)) by ring.
        assert (1 <= X * GIGA).
        { apply Rmult_le_reg_r with (/ GIGA); [exact HG'|]. rewrite Rmult_assoc, Rinv_r by lra. lra. }
        nra. }
      assert (0 < bpow radix2 64) by apply bpow_gt_0. nra. }
    assert (B95 : bpow radix2 95 < OMEGA) by (apply bpow_lt; lia).
    assert (B94 : 2 * bpow radix2 94 = bpow radix2 95).
    { change (bpow radix2 95) with (bpow radix2 (1 + 94)). rewrite bpow_plus. change (bpow radix2 1) with 2. lra. }
    assert (Fp : finite64 (powi (multiplier c) n) = true).
    { apply V_lt_omega_finite; [apply Pp|]. eapply Rle_lt_trans; [exact U|].
      assert (0 < (1 + u53) ^ e) by (apply pow_lt; lra). nra. }
    destruct (fmul_NN_finite _ _ NS (proj1 Pp) (proj1 FS) Fp) as [N2 E].
    apply V_lt_omega_finite; [exact N2|]. unfold secs_of. fold n. rewrite E.
    eapply Rle_lt_trans; [apply Rmin_l|].
    apply Rle_lt_trans with (bpow radix2 65); [|apply bpow_lt; lia].
    rewrite <- (rnd_bpow 65) by lia. apply rnd_le.
    rewrite (V_finite _ (proj1 FS)), (V_finite _ Fp) in *. destruct FS as [_ ES]. rewrite ES in *.
    (* s * p <= X (1+u)^2 * mu^e (1+u)^e = x (1+u)^(e+2) <= 2 x *)
    assert (Hprod : s * B2R64 (powi (multiplier c) n) <= x * (1 + u53) ^ (e + 2)).
    { unfold x. replace (e + 2)%nat with (2 + e)%nat by lia. rewrite pow_add.
      replace (X * mu ^ e * ((1 + u53) ^ 2 * (1 + u53) ^ e))
        with (X * (1 + u53) ^ 2 * (mu ^ e * (1 + u53) ^ e)) by ring.
      pose proof (P_B2R_ge1 _ Pp Fp). apply Rmult_le_compat; lra. }
    eapply Rle_trans; [exact Hprod|].
    change (bpow radix2 65) with (bpow radix2 (64 + 1)). rewrite bpow_plus. change (bpow radix2 1) with 2.
    assert (0 <= x) by (unfold x; nra).
    assert ((1 + u53) ^ (e + 2) <= 2) by lra. nra.
Qed.

(* ---------- the conversion to whole nanoseconds and the cap, in real terms ---------- *)
Lemma K_real x : NN x -> IZR (K x * NANOS) / IZR (2 ^ 1074) = V x * GIGA.
Proof.
  intros N. rewrite (V_K x N), mult_IZR. change (IZR NANOS) with GIGA.
  replace (IZR (2 ^ 1074)) with (bpow radix2 1074) by (rewrite <- IZR_Zpower by lia; reflexivity).
  change (-1074)%Z with (- (1074))%Z. rewrite bpow_opp.
  assert (0 < bpow radix2 1074) by apply bpow_gt_0. field. lra.
Qed.

Lemma K_pos_real x : NN x -> 0 < V x -> (0 < K x)%Z.
Proof.
  intros N H. rewrite (V_K x N) in H. apply lt_IZR.
  assert (0 < bpow radix2 (-1074)) by apply bpow_gt_0. nra.
Qed.

Lemma K_big_real x : NN x -> (2 ^ 1138 <= K x)%Z -> bpow radix2 64 <= V x.
Proof.
  intros N H. rewrite (V_K x N). apply IZR_le in H.
  replace (IZR (2 ^ 1138)) with (bpow radix2 1138) in H by (rewrite <- IZR_Zpower by lia; reflexivity).
  change (bpow radix2 64) with (bpow radix2 (1138 + -1074)). rewrite bpow_plus.
  apply Rmult_le_compat_r; [apply bpow_ge_0 | exact H].
Qed.

Lemma DUR_MAX_real : IZR DUR_MAX + 1 = bpow radix2 64 * GIGA.
Proof.
  replace (bpow radix2 64) with (IZR (2 ^ 64)) by (rewrite <- IZR_Zpower by lia; reflexivity).
  unfold GIGA. rewrite <- mult_IZR. rewrite <- (plus_IZR _ 1). f_equal.
Qed.

Lemma Rz_real cap z t : NN z -> finite64 z = true -> B2R64 z = t -> 0 < t ->
  (0 <= cap <= DUR_MAX)%Z -> t * GIGA + / 2 <= IZR cap ->
  Rabs (IZR (Rz cap z) - t * GIGA) <= / 2.
Proof.
  intros N F E Ht Hc Hcap. pose proof GIGA_bounds as HG. pose proof DUR_MAX_real as HD.
  assert (HV : V z = t) by (rewrite V_finite by exact F; exact E).
  rewrite (Rz_NN cap z N).
  assert (K0 : (0 <? K z)%Z = true) by (apply Z.ltb_lt, K_pos_real; [exact N | rewrite HV; exact Ht]).
  rewrite K0.
  assert (HcR : IZR cap <= IZR DUR_MAX) by (apply IZR_le; lia).
  destruct (2 ^ 1138 <=? K z)%Z eqn:A.
  - exfalso. apply Z.leb_le in A. pose proof (K_big_real z N A) as B. rewrite HV in B. nra.
  - pose proof (rhe_real (K z * NANOS) (2 ^ 1074) pow1074) as R. rewrite (K_real z N), HV in R.
    assert (Hle : (rhe (K z * NANOS) (2 ^ 1074) <= cap)%Z).
    { apply le_IZR. apply Rabs_le_inv in R. lra. }
    rewrite Z.min_l by exact Hle. exact R.
Qed.

Lemma Rz_real_capped cap z : NN z -> 0 < V z -> (0 <= cap <= DUR_MAX)%Z ->
  (finite64 z = true -> IZR cap + / 2 <= B2R64 z * GIGA) -> Rz cap z = cap.
Proof.
  intros N HV Hc H. rewrite (Rz_NN cap z N).
  assert (K0 : (0 <? K z)%Z = true) by (apply Z.ltb_lt, K_pos_real; assumption).
  rewrite K0. destruct (2 ^ 1138 <=? K z)%Z eqn:A; [reflexivity|].
  apply Z.leb_gt in A.
  assert (F : finite64 z = true).
  { destruct (NN_finite_or_inf z N) as [F| ->]; [exact F|]. exfalso. unfold K, pinf in A.
    assert (2 ^ 1138 <= 2 ^ 2098)%Z by (apply Z.pow_le_mono_r; lia). lia. }
  specialize (H F).
  pose proof (rhe_real (K z * NANOS) (2 ^ 1074) pow1074) as R.
  rewrite (K_real z N), (V_finite z F) in R. apply Rabs_le_inv in R.
  apply Z.min_r. apply le_IZR. lra.
Qed.

Lemma two_u53 : 2 * u53 = bpow radix2 (-52).
Proof. unfold u53. lra. Qed.

Lemma INR_plus3 e : INR (e + 3) = INR e + 3.
Proof. rewrite plus_INR. simpl. lra. Qed.

Lemma base_of_zero c a : wf_cfg c = true -> initial c = 0%Z -> base_of c a = 0%Z.
Proof.
  intros W E. unfold base_of. rewrite exponential_interval_Rz, E.
  apply Rz_zero. destruct (as_secs_real 0 ltac:(unfold DUR_MAX, NANOS; lia)) as (s & FS & Hs).
  unfold Rdiv in Hs. rewrite !Rmult_0_l in Hs. replace s with 0 in FS by lra. exact FS.
Qed.

(* clause "equal to initial x multiplier^attempt until that reaches max_interval":
   v = the real product in nanoseconds; whenever v, enlarged by the error bound, stays below the
   cap, the returned delay is within (e+3) 2^-52 v + 1 ns of v *)
Theorem real_value c a : wf_cfg c = true ->
  let e := N.to_nat (N.min a I32_MAX) in
  let v := IZR (initial c) * B2R64 (multiplier c) ^ e in
  v * (1 + (INR e + 3) * bpow radix2 (-52)) + 1 <= IZR (cap_of (max_interval c)) ->
  Rabs (IZR (base_of c a) - v) <= v * (INR e + 3) * bpow radix2 (-52) + 1.
Proof.
  intros W e v Hcap. destruct (wf_cfg_spec c W) as (Hini & Pm & _ & Hc).
  pose proof GIGA_bounds as HG. pose proof u53_small as Hu. pose proof DUR_MAX_real as HD.
  destruct (Z.eq_dec (initial c) 0) as [E0|Hne].
  - rewrite (base_of_zero c a W E0). unfold v. rewrite E0, Rmult_0_l, Rminus_0_r, Rabs_R0. lra.
  - assert (Hi : (1 <= initial c)%Z) by lia.
    destruct (secs_real c a W Hi) as (N & Hfin & Hx). fold e in Hfin, Hx.
    set (x := IZR (initial c) / GIGA * B2R64 (multiplier c) ^ e) in *.
    assert (Ev : v = x * GIGA) by (unfold v, x; field; lra).
    assert (Hmue : 1 <= B2R64 (multiplier c) ^ e).
    { apply pow_R1_Rle, P_B2R_ge1; [exact Pm | apply wf_cfg_finite_mult, W]. }
    assert (Hv0 : 1 <= v) by (unfold v; assert (1 <= IZR (initial c)) by (apply (IZR_le 1), Hi); nra).
    assert (He0 : 0 <= INR e) by apply pos_INR.
    assert (Hb : 0 < bpow radix2 (-52)) by apply bpow_gt_0.
    assert (HcR : IZR (cap_of (max_interval c)) <= IZR DUR_MAX) by (apply IZR_le; lia).
    assert (Hx64 : x <= bpow radix2 64).
    { apply Rmult_le_reg_r with GIGA; [lra|]. rewrite <- Ev, <- HD.
      assert (0 <= v * ((INR e + 3) * bpow radix2 (-52))) by (apply Rmult_le_pos; [lra|apply Rmult_le_pos; lra]).
      lra. }
    pose proof (Hx Hx64) as F. destruct (Hfin F) as [L U].
    pose proof (e_u53_small a 3 ltac:(lia)) as A3. fold e in A3.
    pose proof (pow_1pu_lin (e + 3) ltac:(lra)) as PU.
    pose proof (pow_1mu_lin (e + 3)) as PL.
    rewrite INR_plus3 in PU, PL, A3.
    set (t := B2R64 (secs_of c a)) in *.
    assert (Hx0 : 0 < x) by nra.
    assert (Ht : 0 < t).
    { assert (0 < (1 - u53) ^ (e + 3)) by (apply pow_lt; lra). nra. }
    pose proof two_u53 as T2.
    assert (HtU : t * GIGA <= v * (1 + (INR e + 3) * bpow radix2 (-52))).
    { rewrite Ev, <- T2. nra. }
    assert (HtL : v * (1 - (INR e + 3) * bpow radix2 (-52)) <= t * GIGA).
    { rewrite Ev, <- T2. nra. }
    unfold base_of. rewrite exponential_interval_Rz. fold (secs_of c a).
    pose proof (Rz_real (cap_of (max_interval c)) (secs_of c a) t N F eq_refl Ht Hc ltac:(lra)) as R.
    apply Rabs_le_inv in R. apply Rabs_le. split; nra.
Qed.

(* "... and never above max_interval afterwards": once the real product, reduced by the error
   bound, is above the cap, the returned delay is exactly the cap *)
Theorem real_capped c a : wf_cfg c = true ->
  let e := N.to_nat (N.min a I32_MAX) in
  let v := IZR (initial c) * B2R64 (multiplier c) ^ e in
  IZR (cap_of (max_interval c)) + 1 <= v * (1 - (INR e + 3) * bpow radix2 (-52)) ->
  base_of c a = cap_of (max_interval c).
Proof.
  intros W e v Hcap. destruct (wf_cfg_spec c W) as (Hini & Pm & _ & Hc).
  pose proof GIGA_bounds as HG. pose proof u53_small as Hu.
  assert (He0 : 0 <= INR e) by apply pos_INR.
  assert (Hb : 0 < bpow radix2 (-52)) by apply bpow_gt_0.
  assert (Hc0 : 0 <= IZR (cap_of (max_interval c))) by (apply IZR_le; lia).
  destruct (Z.eq_dec (initial c) 0) as [E0|Hne].
  - exfalso. unfold v in Hcap. rewrite E0, !Rmult_0_l in Hcap. lra.
  - assert (Hi : (1 <= initial c)%Z) by lia.
    destruct (secs_real c a W Hi) as (N & Hfin & _). fold e in Hfin.
    set (x := IZR (initial c) / GIGA * B2R64 (multiplier c) ^ e) in *.
    assert (Ev : v = x * GIGA) by (unfold v, x; field; lra).
    assert (Hmue : 1 <= B2R64 (multiplier c) ^ e).
    { apply pow_R1_Rle, P_B2R_ge1; [exact Pm | apply wf_cfg_finite_mult, W]. }
    assert (Hv0 : 1 <= v) by (unfold v; assert (1 <= IZR (initial c)) by (apply (IZR_le 1), Hi); nra).
    assert (Hx0 : 0 < x) by nra.
    unfold base_of. rewrite exponential_interval_Rz. fold (secs_of c a).
    apply Rz_real_capped; [exact N| |exact Hc|].
    + (* the product is positive *)
      destruct (NN_finite_or_inf _ N) as [F|Einf].
      * rewrite V_finite by exact F. destruct (Hfin F) as [L _].
        assert (0 < (1 - u53) ^ (e + 3)) by (apply pow_lt; lra). nra.
      * rewrite Einf. unfold V, pinf. apply bpow_gt_0.
    + intros F. destruct (Hfin F) as [L _].
      pose proof (pow_1mu_lin (e + 3)) as PL. rewrite INR_plus3 in PL.
      pose proof two_u53 as T2.
      assert (v * (1 - (INR e + 3) * bpow radix2 (-52)) <= B2R64 (secs_of c a) * GIGA).
      { rewrite Ev, <- T2.
        assert (A1 : 1 - (INR e + 3) * (2 * u53) <= (1 - u53) ^ (e + 3)) by nra.
        assert (A2 : x * (1 - (INR e + 3) * (2 * u53)) <= x * (1 - u53) ^ (e + 3))
          by (apply Rmult_le_compat_l; lra).
        replace (x * GIGA * (1 - (INR e + 3) * (2 * u53))) with (x * (1 - (INR e + 3) * (2 * u53)) * GIGA) by ring.
        apply Rmult_le_compat_r; lra. }
      lra.
Qed.

(* ---------- jitter, in real terms ---------- *)
Lemma dur_sat_upper x a : FR x a -> 0 <= a -> IZR (dur_sat x) <= a * GIGA + / 2.
Proof.
  intros Fx Ha. pose proof GIGA_bounds as HG. pose proof DUR_MAX_real as HD.
  destruct (dur_sat_cases x a Fx) as [[Hle ->]|(Hpos & N & ->)]; [nra|].
  assert (HV : V x = a) by (destruct Fx as [F E]; rewrite V_finite by exact F; exact E).
  rewrite (tfs_NN x N). destruct (2 ^ 1138 <=? K x)%Z eqn:A.
  - apply Z.leb_le in A. pose proof (K_big_real x N A) as B. rewrite HV in B. nra.
  - pose proof (rhe_real (K x * NANOS) (2 ^ 1074) pow1074) as R. rewrite (K_real x N), HV in R.
    apply Rabs_le_inv in R. lra.
Qed.

Lemma dur_sat_lower x a : FR x a -> 0 <= a ->
  a * GIGA - / 2 <= IZR (dur_sat x) \/ dur_sat x = DUR_MAX.
Proof.
  intros Fx Ha. pose proof GIGA_bounds as HG.
  destruct (dur_sat_cases x a Fx) as [[Hle ->]|(Hpos & N & ->)]; [left; nra|].
  assert (HV : V x = a) by (destruct Fx as [F E]; rewrite V_finite by exact F; exact E).
  rewrite (tfs_NN x N). destruct (2 ^ 1138 <=? K x)%Z eqn:A; [right; reflexivity|left].
  pose proof (rhe_real (K x * NANOS) (2 ^ 1074) pow1074) as R. rewrite (K_real x N), HV in R.
  apply Rabs_le_inv in R. lra.
Qed.

Lemma jitter_hi_bound X s phi dl h : 0 <= X -> 0 <= phi <= 1 ->
  s <= X * (1 + u53) ^ 2 -> 0 <= s -> 0 <= dl -> dl <= s * phi * (1 + u53) + ETA ->
  h <= (s + dl) * (1 + u53) + ETA ->
  h <= X * (1 + phi) + X * (10 * u53) + 3 * ETA.
Proof.
  intros HX Hphi Hs Hs0 Hdl0 Hdl Hh. pose proof u53_small as Hu. pose proof ETA_pos as HE.
  assert (S1 : s <= X * (1 + 3 * u53)).
  { eapply Rle_trans; [exact Hs|]. apply Rmult_le_compat_l; [exact HX|]. nra. }
  assert (S2 : s + dl <= X * (1 + phi + 7 * u53 + u53 * u53 * 3) + ETA).
  { assert (s + dl <= s * (1 + phi + phi * u53) + ETA) by nra.
    assert (s * (1 + phi + phi * u53) <= X * (1 + 3 * u53) * (1 + phi + phi * u53))
      by (apply Rmult_le_compat_r; nra).
    assert (X * (1 + 3 * u53) * (1 + phi + phi * u53) <= X * (1 + phi + 7 * u53 + u53 * u53 * 3)).
    { rewrite Rmult_assoc. apply Rmult_le_compat_l; [exact HX|]. nra. }
    lra. }
  assert (S3 : (s + dl) * (1 + u53) <= (X * (1 + phi + 7 * u53 + u53 * u53 * 3) + ETA) * (1 + u53))
    by (apply Rmult_le_compat_r; lra).
  assert (S4 : X * (1 + phi + 7 * u53 + u53 * u53 * 3) * (1 + u53) <= X * (1 + phi + 10 * u53)).
  { rewrite Rmult_assoc. apply Rmult_le_compat_l; [exact HX|]. nra. }
  nra.
Qed.

Lemma jitter_lo_bound X s phi dl l : 0 <= X -> 0 <= phi <= 1 ->
  X * (1 - u53) ^ 2 <= s <= X * (1 + u53) ^ 2 -> 0 <= dl <= s -> dl <= s * phi * (1 + u53) + ETA ->
  (s - dl) * (1 - u53) - ETA <= l ->
  X * (1 - phi) - X * (6 * u53) - 2 * ETA <= l.
Proof.
  intros HX Hphi [Hs1 Hs2] [Hdl0 Hdl1] Hdl Hl. pose proof u53_small as Hu. pose proof ETA_pos as HE.
  assert (S0 : 0 <= s) by lra.
  assert (S1 : s <= X * (1 + 3 * u53)).
  { eapply Rle_trans; [exact Hs2|]. apply Rmult_le_compat_l; [exact HX|]. nra. }
  assert (S2 : X * (1 - 2 * u53) <= s).
  { eapply Rle_trans; [|exact Hs1]. apply Rmult_le_compat_l; [exact HX|]. nra. }
  (* l >= w - u w - eta >= w - u s - eta, w = s - dl *)
  assert (L1 : s - dl - u53 * s - ETA <= l) by nra.
  assert (L2 : s * (1 - phi) - 2 * u53 * s - 2 * ETA <= l) by nra.
  assert (L3 : X * (1 - 2 * u53) * (1 - phi) <= s * (1 - phi)) by (apply Rmult_le_compat_r; lra).
  assert (L4 : 2 * u53 * s <= 2 * u53 * (X * (1 + 3 * u53))) by (apply Rmult_le_compat_l; lra).
  assert (L5 : X * (1 - phi) - X * (2 * u53) <= X * (1 - 2 * u53) * (1 - phi)) by nra.
  assert (L6 : 2 * u53 * (X * (1 + 3 * u53)) <= X * (4 * u53)) by nra.
  lra.
Qed.

Lemma ETA_GIGA : ETA * GIGA <= / 8.
Proof.
  pose proof GIGA_bounds as HG. pose proof ETA_pos.
  apply Rle_trans with (bpow radix2 (-1022) * bpow radix2 30); [unfold ETA; apply Rmult_le_compat_l; [apply bpow_ge_0 | lra]|].
  rewrite <- bpow_plus. apply Rle_trans with (bpow radix2 (-3)); [apply bpow_le; lia|].
  change (bpow radix2 (-3)) with (/ 8). lra.
Qed.

Lemma sixteen_u53 : 16 * u53 = bpow radix2 (-49).
Proof.
  unfold u53. change (bpow radix2 (-49)) with (bpow radix2 (3 + -52)). rewrite bpow_plus.
  change (bpow radix2 3) with 8. lra.
Qed.

Lemma FR_unique x a b : FR x a -> FR x b -> a = b.
Proof. intros [_ A] [_ B]. congruence. Qed.

(* "jittered variants stay within the randomization factor of that value": with B the
   un-jittered (capped) delay in ns and phi the factor, every draw random_range may return gives
   a delay in [B (1 - phi), B (1 + phi)] up to a relative 2^-49 and one nanosecond *)
Theorem jitter_real c a draw : wf_cfg c = true -> draw_in_range c a draw = true ->
  let B := IZR (base_of c a) in
  let phi := B2R64 (factor c) in
  0 <= phi <= 1 /\
  exists r, next_interval (ExponentialRandom c) a draw = Some r /\
    B * (1 - phi) - B * bpow radix2 (-49) - 1 <= IZR r /\
    IZR r <= B * (1 + phi) + B * bpow radix2 (-49) + 1 /\
    (0 <= r <= DUR_MAX)%Z.
Proof.
  intros W D B phi. destruct (wf_cfg_spec c W) as (_ & _ & Hf & _).
  destruct (base_range c a W) as [Hb Hc].
  assert (Hd : (0 <= base_of c a <= DUR_MAX)%Z) by lia.
  destruct (wf_factor_FR (factor c) Hf) as (phi' & Ff & Hphi).
  assert (Ephi : phi' = phi) by (destruct Ff as [_ E]; symmetry; exact E). subst phi'.
  split; [exact Hphi|].
  pose proof u53_small as Hu. pose proof ETA_pos as HE. pose proof GIGA_bounds as HG.
  pose proof ETA_GIGA as HEG. pose proof sixteen_u53 as H16.
  (* the structure of the two ends of the range, as in jitter_ok *)
  destruct (as_secs_real (base_of c a) Hd) as (s & FS & Hs).
  destruct (as_secs_FR (base_of c a) Hd) as (s' & FS' & Hs0 & Hs1).
  assert (Es : s' = s) by (apply (FR_unique _ _ _ FS' FS)). subst s'.
  assert (Rs : rnd s = s) by (destruct FS as [_ <-]; apply rnd_B2R).
  assert (B66 : bpow radix2 65 + bpow radix2 65 = bpow radix2 66).
  { change (bpow radix2 66) with (bpow radix2 (65 + 1)). rewrite bpow_plus. change (bpow radix2 1) with 2. lra. }
  assert (Hsp : 0 <= s * phi <= s) by nra.
  assert (FD : FR (fmul (as_secs_f64 (base_of c a)) (factor c)) (rnd (s * phi))).
  { apply FR_mul; try assumption. apply bpow_le_1023 with 65%Z; [lia|]. rewrite Rabs_pos_eq; lra. }
  assert (Hdl : 0 <= rnd (s * phi) <= s).
  { split; [apply rnd_ge_0; lra|]. apply Rle_trans with (rnd s); [apply rnd_le; lra | rewrite Rs; lra]. }
  pose proof (rnd_abs (s * phi) ltac:(lra)) as Rdl.
  set (dl := rnd (s * phi)) in *.
  assert (FL : FR (jitter_lo (base_of c a) (factor c)) (rnd (s - dl))).
  { unfold jitter_lo. apply FR_sub; try assumption. apply bpow_le_1023 with 65%Z; [lia|]. rewrite Rabs_pos_eq; lra. }
  assert (FH : FR (jitter_hi (base_of c a) (factor c)) (rnd (s + dl))).
  { unfold jitter_hi. apply FR_add; try assumption. apply bpow_le_1023 with 66%Z; [lia|]. rewrite Rabs_pos_eq; lra. }
  pose proof (rnd_abs (s - dl) ltac:(lra)) as Rl. pose proof (rnd_abs (s + dl) ltac:(lra)) as Rh.
  assert (Hl0 : 0 <= rnd (s - dl)) by (apply rnd_ge_0; lra).
  assert (Hh0 : 0 <= rnd (s + dl)) by (apply rnd_ge_0; lra).
  set (l := rnd (s - dl)) in *. set (h := rnd (s + dl)) in *.
  set (X := IZR (base_of c a) / GIGA) in *.
  assert (HB0 : 0 <= B) by (apply IZR_le; lia).
  assert (HBmax : B <= IZR DUR_MAX) by (apply IZR_le; lia).
  assert (HX : 0 <= X) by (unfold X; apply Rmult_le_pos; [exact HB0 | apply Rlt_le, Rinv_0_lt_compat; lra]).
  assert (EX : X * GIGA = B) by (unfold X, B; field; lra).
  assert (Hhi : h <= X * (1 + phi) + X * (10 * u53) + 3 * ETA).
  { apply (jitter_hi_bound X s phi dl h); try lra. }
  assert (Hlo : X * (1 - phi) - X * (6 * u53) - 2 * ETA <= l).
  { apply (jitter_lo_bound X s phi dl l); try lra. }
  (* the draw lies between the ends, dur_sat is monotone *)
  rewrite draw_in_range_eq in D. apply andb_prop in D. destruct D as [D1 D2].
  assert (Fd : finite64 draw = true).
  { destruct FL as [F1 _], FH as [F2 _]. exact (fle_finite_mid _ draw _ F1 F2 D1 D2). }
  pose proof (FR_self draw Fd) as FDr.
  apply (fle_FR _ _ _ _ FL FDr) in D1. apply (fle_FR _ _ _ _ FDr FH) in D2.
  pose proof (dur_sat_mono _ _ _ _ FL FDr D1) as M1.
  pose proof (dur_sat_mono _ _ _ _ FDr FH D2) as M2.
  pose proof (dur_sat_range draw _ FDr) as Rr.
  exists (dur_sat draw). split; [rewrite next_interval_random; apply randomize_total; exact W|].
  apply IZR_le in M1, M2.
  split; [|split; [|exact Rr]].
  - destruct (dur_sat_lower _ _ FL Hl0) as [Lw|Emax].
    + assert (X * (1 - phi) * GIGA - X * (6 * u53) * GIGA - 2 * (ETA * GIGA) <= l * GIGA) by nra.
      replace (X * (1 - phi) * GIGA) with (B * (1 - phi)) in H by (rewrite <- EX; ring).
      replace (X * (6 * u53) * GIGA) with (B * (6 * u53)) in H by (rewrite <- EX; ring).
      rewrite <- H16. nra.
    + rewrite Emax in M1. assert (0 <= B * bpow radix2 (-49)) by (rewrite <- H16; nra). nra.
  - pose proof (dur_sat_upper _ _ FH Hh0) as Up.
    assert (h * GIGA <= X * (1 + phi) * GIGA + X * (10 * u53) * GIGA + 3 * (ETA * GIGA)) by nra.
    replace (X * (1 + phi) * GIGA) with (B * (1 + phi)) in H by (rewrite <- EX; ring).
    replace (X * (10 * u53) * GIGA) with (B * (10 * u53)) in H by (rewrite <- EX; ring).
    rewrite <- H16. nra.
Qed.

(* "never above max_interval afterwards": once the cap is reached it is kept *)
Theorem stays_capped c a b k : wf_cfg c = true -> max_interval c = Some k -> (a <= b)%N ->
  base_of c a = k -> base_of c b = k.
Proof.
  intros W Hk Hab Ha. pose proof (base_mono c a b W Hab) as M.
  destruct (base_range c b W) as [Hb _]. rewrite Hk in Hb. cbn [cap_of] in Hb. lia.
Qed.

(* ---------- non-vacuity: the hypotheses of real_value / real_capped are met ---------- *)
Lemma B2R_ftwo : B2R64 ftwo = 2.
Proof.
  destruct (FR_of_Z 2 ltac:(simpl; lia)) as [_ E]. unfold ftwo. rewrite E. apply (rnd_int 2). simpl. lia.
Qed.

(* 100 ms x 2^3 = 800 ms is below the 5 s cap: real_value applies (and gives 800 ms +/- 2 ns);
   100 ms x 2^6 = 6.4 s is above it: real_capped applies (the delay is exactly 5 s) *)
Example real_value_hypotheses_satisfiable :
  wf_cfg jitter_cfg = true /\
  IZR (initial jitter_cfg) * B2R64 (multiplier jitter_cfg) ^ N.to_nat (N.min 3 I32_MAX)
    * (1 + (INR (N.to_nat (N.min 3 I32_MAX)) + 3) * bpow radix2 (-52)) + 1
    <= IZR (cap_of (max_interval jitter_cfg)) /\
  IZR (cap_of (max_interval jitter_cfg)) + 1
    <= IZR (initial jitter_cfg) * B2R64 (multiplier jitter_cfg) ^ N.to_nat (N.min 6 I32_MAX)
       * (1 - (INR (N.to_nat (N.min 6 I32_MAX)) + 3) * bpow radix2 (-52)) /\
  base_of jitter_cfg 3 = (800 * MS)%Z /\ base_of jitter_cfg 6 = (5 * NANOS)%Z.
Proof.
  split; [vm_compute; reflexivity|].
  change (multiplier jitter_cfg) with ftwo. rewrite B2R_ftwo.
  change (N.to_nat (N.min 3 I32_MAX)) with 3%nat. change (N.to_nat (N.min 6 I32_MAX)) with 6%nat.
  change (initial jitter_cfg) with 100000000%Z.
  change (cap_of (max_interval jitter_cfg)) with 5000000000%Z.
  change (bpow radix2 (-52)) with (/ 4503599627370496).
  split; [simpl; lra|]. split; [simpl; lra|].
  split; vm_compute; reflexivity.
Qed.

Theorem stays_capped_next_interval c a b k draw :
  wf_cfg c = true -> max_interval c = Some k -> (a <= b)%N ->
  next_interval (Exponential c) a draw = Some k -> next_interval (Exponential c) b draw = Some k.
Proof.
  intros W Hk Hab Ha. rewrite next_interval_exp in *. f_equal.
  apply (stays_capped c a b k W Hk Hab). congruence.
Qed.
