(* C04: the sequential driver [seq_step]/[run_seq] of Model/CircuitSpec.v is what the
   service-level model of Model/Circuit.v ([st], [step], [poll], [complete], ...) does to its
   circuit when one client uses the service sequentially: every call is polled, the clock
   advances by the call's latency, the inner service completes, the call is polled again. *)
From TR Require Import Lib.Base Model.Circuit Model.CircuitSpec Proof.CircuitSpec.
From TR Require Proof.Circuit.
From RecordUpdate Require Import RecordUpdate.

#[local] Arguments Z.add : simpl never.
#[local] Arguments Z.sub : simpl never.
#[local] Arguments Z.max : simpl never.
#[local] Arguments Z.leb : simpl never.
#[local] Arguments Z.ltb : simpl never.
#[local] Arguments Z.eqb : simpl never.
#[local] Arguments Z.mul : simpl never.
#[local] Arguments upd : simpl never.
#[local] Arguments record : simpl never.
#[local] Arguments try_acquire : simpl never.
#[local] Arguments transition_to : simpl never.

(* the classifier verdict carried by an outcome *)
Definition fail_of (o : outcome) : bool :=
  match o with OOk f => f | OErr f => f | OPanic | OCPanic => false end.

Lemma circ_gsync old s : circ (gsync old s) = circ s.
Proof. exact (Proof.Circuit.circ_gsync old s). Qed.
Lemma now_gsync old s : now (gsync old s) = now s.
Proof. exact (Proof.Circuit.now_gsync old s). Qed.
Lemma cs_gsync old s : cs (gsync old s) = cs s.
Proof. unfold gsync. destruct (_ =? _); reflexivity. Qed.
Lemma gate_gsync old s : gate (gsync old s) = gate s.
Proof. unfold gsync. destruct (_ =? _); reflexivity. Qed.

Lemma upd_same {A} (f : nat -> A) i v : upd f i v i = v.
Proof. unfold upd. rewrite Nat.eqb_refl. reflexivity. Qed.
Lemma upd_other {A} (f : nat -> A) i j v : j <> i -> upd f i v j = f j.
Proof. intros H. unfold upd. apply Nat.eqb_neq in H. rewrite H. reflexivity. Qed.

(* ------------------------------------------------------------------------- *)
(* the first poll of a fresh caller *)

Lemma poll_created_rejected cf s i c' :
  cs s i = Created -> try_acquire (now s) cf (circ s) = (c', false) ->
  circ (fst (poll cf s i)) = c' /\ now (fst (poll cf s i)) = now s /\
  cs (fst (poll cf s i)) = upd (cs s) i Done /\ gate (fst (poll cf s i)) = gate s /\
  started (snd (poll cf s i)) = false.
Proof.
  intros Hc Ht. unfold poll. cbn. rewrite Hc. rewrite Ht. cbn. repeat split.
Qed.

Lemma poll_created_admitted cf s i c' :
  cs s i = Created -> gate s i = None -> try_acquire (now s) cf (circ s) = (c', true) ->
  exists tr,
    circ (fst (poll cf s i)) = c' /\ now (fst (poll cf s i)) = now s /\
    cs (fst (poll cf s i)) = upd (cs s) i (Running (now s) tr) /\
    gate (fst (poll cf s i)) = gate s /\ started (snd (poll cf s i)) = true.
Proof.
  intros Hc Hg Ht. unfold poll. cbn. rewrite Hc. rewrite Ht.
  exists (match state c' with HalfOpen => Some (phase c') | _ => None end).
  unfold poll_running.
  match goal with |- context [gate ?x i] => assert (Hgx : gate x i = None) end.
  { destruct (state c'); cbn; rewrite gate_gsync; exact Hg. }
  rewrite Hgx. cbn [fst snd started].
  destruct (state c'); cbn; rewrite circ_gsync, now_gsync, cs_gsync, gate_gsync; cbn; repeat split.
Qed.

(* the poll that finds the inner call completed records the outcome *)
Lemma poll_running_completed cf s i start tr o :
  cs s i = Running start tr -> gate s i = Some o -> o <> OPanic -> o <> OCPanic ->
  circ (fst (poll cf s i)) = record (now s) cf (fail_of o) (now s - start) (circ s) /\
  now (fst (poll cf s i)) = now s /\
  cs (fst (poll cf s i)) = upd (cs s) i Done /\ gate (fst (poll cf s i)) = gate s.
Proof.
  intros Hc Hg Ho Hoc. unfold poll. cbn. rewrite Hc. unfold poll_running. cbn. rewrite Hg.
  destruct o as [f|f| |]; [| |congruence|congruence]; cbn [fst];
    rewrite circ_gsync, now_gsync, cs_gsync, gate_gsync; cbn; repeat split.
Qed.

(* ------------------------------------------------------------------------- *)
(* one sequential call *)

(* rejected: the caller is finished after its first poll; no time passes *)
Lemma sequential_call_rejected cf s i f l :
  cs s i = Created -> snd (try_acquire (now s) cf (circ s)) = false ->
  let s1 := step_st cf s (Poll i) in
  seq_step cf (now s, circ s) (HCall f l) = ((now s1, circ s1), Some false) /\
  started (snd (step cf s (Poll i))) = false /\
  (forall j, cs s1 j = upd (cs s) i Done j) /\ gate s1 = gate s.
Proof.
  intros Hc Hrej s1. subst s1. unfold step_st, step.
  destruct (try_acquire (now s) cf (circ s)) as [c' ok] eqn:Ht. cbn [snd] in Hrej. subst ok.
  destruct (poll_created_rejected cf s i c' Hc Ht) as (a1 & a2 & a3 & a4 & a5).
  unfold seq_step. rewrite Ht, a1, a2, a3. auto.
Qed.

(* admitted: first poll starts the inner call, the clock advances by the latency, the inner
   call completes, the second poll records the outcome — exactly seq_step's HCall *)
Lemma sequential_call_admitted cf s i o l :
  cs s i = Created -> gate s i = None -> o <> OPanic -> o <> OCPanic ->
  snd (try_acquire (now s) cf (circ s)) = true ->
  let s1 := step_st cf s (Poll i) in let s2 := step_st cf s1 (Advance l) in
  let s3 := step_st cf s2 (Complete i o) in let s4 := step_st cf s3 (Poll i) in
  seq_step cf (now s, circ s) (HCall (fail_of o) l) = ((now s4, circ s4), Some true) /\
  started (snd (step cf s (Poll i))) = true /\
  (forall j, cs s4 j = upd (cs s) i Done j) /\ gate s4 = upd (gate s) i (Some o).
Proof.
  intros Hc Hg Ho Hoc Hadm s1 s2 s3 s4.
  destruct (try_acquire (now s) cf (circ s)) as [c' ok] eqn:Ht. cbn [snd] in Hadm. subst ok.
  destruct (poll_created_admitted cf s i c' Hc Hg Ht) as (tr & a1 & a2 & a3 & a4 & a5).
  fold (step cf s (Poll i)) in a1, a2, a3, a4, a5. fold (step_st cf s (Poll i)) in a1, a2, a3, a4.
  fold s1 in a1, a2, a3, a4. clearbody s1.
  assert (b : circ s2 = c' /\ now s2 = now s + lat l /\ cs s2 = cs s1 /\ gate s2 = gate s1).
  { subst s2. unfold step_st, step, lat. cbn. rewrite a1, a2. auto. }
  destruct b as (b1 & b2 & b3 & b4). clearbody s2.
  assert (c : circ s3 = c' /\ now s3 = now s + lat l /\ cs s3 = cs s1 /\
              gate s3 = upd (gate s) i (Some o)).
  { subst s3. unfold step_st, step, complete. cbn [fst]. rewrite b4, a4, Hg. cbn.
    auto. }
  destruct c as (c1 & c2 & c3 & c4). clearbody s3.
  assert (Hcs3 : cs s3 i = Running (now s) tr) by (rewrite c3, a3; apply upd_same).
  assert (Hg3 : gate s3 i = Some o) by (rewrite c4; apply upd_same).
  destruct (poll_running_completed cf s3 i (now s) tr o Hcs3 Hg3 Ho Hoc) as (d1 & d2 & d3 & d4).
  fold (step cf s3 (Poll i)) in d1, d2, d3, d4. fold (step_st cf s3 (Poll i)) in d1, d2, d3, d4.
  fold s4 in d1, d2, d3, d4.
  unfold seq_step. rewrite Ht, d1, d2, c1, c2.
  replace (now s + lat l - now s) with (lat l) by lia.
  repeat split; [exact a5| |congruence].
  intros j. rewrite d3, c3, a3. unfold upd. destruct (j =? i)%nat; reflexivity.
Qed.

(* the unconditional four-step form: the circuit always ends up as seq_step says; the clock
   too when the call was admitted — a rejected caller that nevertheless lets [l] ms pass has
   simply waited (seq_step's rejected call takes no time) *)
Lemma sequential_call cf s i o l :
  cs s i = Created -> gate s i = None -> o <> OPanic -> o <> OCPanic -> 0 <= l ->
  let s1 := step_st cf s (Poll i) in let s2 := step_st cf s1 (Advance l) in
  let s3 := step_st cf s2 (Complete i o) in let s4 := step_st cf s3 (Poll i) in
  let '(p', inv) := seq_step cf (now s, circ s) (HCall (fail_of o) l) in
  circ s4 = snd p' /\
  now s4 = (if started (snd (step cf s (Poll i))) then fst p' else fst p' + l) /\
  Some (started (snd (step cf s (Poll i)))) = inv.
Proof.
  intros Hc Hg Ho Hoc Hl s1 s2 s3 s4.
  destruct (snd (try_acquire (now s) cf (circ s))) eqn:Hadm.
  - destruct (sequential_call_admitted cf s i o l Hc Hg Ho Hoc Hadm) as (E & Hst & _).
    fold s1 s2 s3 s4 in E. rewrite E, Hst. cbn. auto.
  - destruct (sequential_call_rejected cf s i (fail_of o) l Hc Hadm) as (E & Hst & Hcs & Hgt).
    fold s1 in E, Hcs, Hgt. rewrite E, Hst. cbn [fst snd].
    assert (Hd1 : cs s1 i = Done) by (rewrite Hcs; apply upd_same).
    clearbody s1.
    assert (b : circ s2 = circ s1 /\ now s2 = now s1 + l /\ cs s2 = cs s1 /\ gate s2 = gate s1).
    { subst s2. unfold step_st, step. cbn. repeat split. lia. }
    destruct b as (b1 & b2 & b3 & b4). clearbody s2.
    assert (c : circ s3 = circ s1 /\ now s3 = now s1 + l /\ cs s3 = cs s1).
    { subst s3. unfold step_st, step, complete. cbn [fst]. destruct (gate s2 i); cbn; auto. }
    destruct c as (c1 & c2 & c3). clearbody s3.
    subst s4. unfold step_st, step, poll. cbn. rewrite c3, Hd1. cbn. auto.
Qed.

(* ------------------------------------------------------------------------- *)
(* the other history events *)

Lemma sequential_wait cf s d :
  let s' := step_st cf s (Advance d) in
  seq_step cf (now s, circ s) (HWait d) = ((now s', circ s'), None) /\
  cs s' = cs s /\ gate s' = gate s.
Proof. unfold step_st, step, seq_step, lat. cbn. auto. Qed.

Lemma sequential_force_open cf s :
  let s' := step_st cf s ForceOpen in
  seq_step cf (now s, circ s) HForceOpen = ((now s', circ s'), None) /\
  cs s' = cs s /\ gate s' = gate s.
Proof.
  unfold step_st, step, seq_step. cbn [fst]. rewrite circ_gsync, now_gsync, cs_gsync, gate_gsync.
  cbn. auto.
Qed.

Lemma sequential_force_closed cf s :
  let s' := step_st cf s ForceClosed in
  seq_step cf (now s, circ s) HForceClosed = ((now s', circ s'), None) /\
  cs s' = cs s /\ gate s' = gate s.
Proof.
  unfold step_st, step, seq_step. cbn [fst]. rewrite circ_gsync, now_gsync, cs_gsync, gate_gsync.
  cbn. auto.
Qed.

Lemma sequential_reset cf s :
  let s' := step_st cf s Reset in
  seq_step cf (now s, circ s) HReset = ((now s', circ s'), None) /\
  cs s' = cs s /\ gate s' = gate s.
Proof.
  unfold step_st, step, seq_step. cbn [fst]. rewrite circ_gsync, now_gsync, cs_gsync, gate_gsync.
  cbn. auto.
Qed.

Lemma force_open_circ cf s : circ (step_st cf s ForceOpen) = force_open (now s) (circ s).
Proof. unfold step_st, step. cbn [fst]. rewrite circ_gsync. reflexivity. Qed.
Lemma force_closed_circ cf s : circ (step_st cf s ForceClosed) = force_closed (now s) (circ s).
Proof. unfold step_st, step. cbn [fst]. rewrite circ_gsync. reflexivity. Qed.
Lemma reset_circ cf s : circ (step_st cf s Reset) = reset (now s) (circ s).
Proof. unfold step_st, step. cbn [fst]. rewrite circ_gsync. reflexivity. Qed.

(* ------------------------------------------------------------------------- *)
(* whole histories: the script a sequential client produces.  The client is adaptive in one
   respect only: a rejected call returns at once (its first poll is its last), so nothing is
   advanced/completed for it — this is what seq_step's "rejected calls take no time" means.
   [oc] picks the inner result for a classifier verdict; caller ids are i, i+1, ... *)
Section History.
  Context (cf : cfg) (oc : bool -> outcome).

  Definition evs_of_hev (s : st) (i : nat) (e : hev) : list ev :=
    match e with
    | HCall f l =>
      if started (snd (step cf s (Poll i)))
      then [Poll i; Advance l; Complete i (oc f); Poll i] else [Poll i]
    | HWait d => [Advance d]
    | HForceOpen => [ForceOpen]
    | HForceClosed => [ForceClosed]
    | HReset => [Reset]
    end.

  (* was the inner service invoked by this history event? *)
  Definition inv_of_hev (s : st) (i : nat) (e : hev) : option bool :=
    match e with
    | HCall _ _ => Some (started (snd (step cf s (Poll i))))
    | _ => None
    end.

  Definition after_hev (s : st) (i : nat) (e : hev) : st :=
    fold_left (step_st cf) (evs_of_hev s i e) s.

  Fixpoint script_of_history (s : st) (i : nat) (h : list hev) : list ev :=
    match h with
    | [] => []
    | e :: rest => evs_of_hev s i e ++ script_of_history (after_hev s i e) (S i) rest
    end.

  (* what the user observes of the service model after each history event: the same three
     state views and metrics that [run_evs] prints, packaged as [conc_obs] *)
  Fixpoint service_obs (s : st) (i : nat) (h : list hev) : list hobs :=
    match h with
    | [] => []
    | e :: rest =>
      conc_obs cf (circ (after_hev s i e)) (inv_of_hev s i e)
      :: service_obs (after_hev s i e) (S i) rest
    end.

  Fixpoint final_state (s : st) (i : nat) (h : list hev) : st :=
    match h with
    | [] => s
    | e :: rest => final_state (after_hev s i e) (S i) rest
    end.

  (* [service_obs] really observes a run of [step] over [script_of_history] *)
  Lemma script_runs s i h :
    fold_left (step_st cf) (script_of_history s i h) s = final_state s i h.
  Proof.
    revert s i. induction h as [|e rest IH]; intros s i; [reflexivity|].
    cbn [script_of_history final_state]. rewrite fold_left_app. apply IH.
  Qed.

  (* callers i, i+1, ... have not been used *)
  Definition fresh (s : st) (i : nat) : Prop :=
    forall j, (i <= j)%nat -> cs s j = Created /\ gate s j = None.

  Context (oc_ok : forall f, fail_of (oc f) = f /\ oc f <> OPanic /\ oc f <> OCPanic).

  Lemma hev_step s i e :
    fresh s i ->
    seq_step cf (now s, circ s) e =
      ((now (after_hev s i e), circ (after_hev s i e)), inv_of_hev s i e) /\
    fresh (after_hev s i e) (S i).
  Proof.
    intros Hf. destruct (Hf i (le_n i)) as [Hc Hg].
    destruct e as [f l|d| | |]; unfold after_hev, evs_of_hev, inv_of_hev.
    - destruct (oc_ok f) as (Hfo & Hnp & Hncp).
      destruct (snd (try_acquire (now s) cf (circ s))) eqn:Hadm.
      + destruct (sequential_call_admitted cf s i (oc f) l Hc Hg Hnp Hncp Hadm) as (E & Hst & Hcs & Hgt).
        rewrite Hst. cbn [fold_left]. rewrite Hfo in E. split; [exact E|].
        intros j Hj. rewrite Hcs, Hgt, !upd_other by lia. apply Hf. lia.
      + destruct (sequential_call_rejected cf s i f l Hc Hadm) as (E & Hst & Hcs & Hgt).
        rewrite Hst. cbn [fold_left]. split; [exact E|].
        intros j Hj. rewrite Hcs, Hgt, !upd_other by lia. apply Hf. lia.
    - cbn [fold_left]. destruct (sequential_wait cf s d) as (E & Hcs & Hgt).
      split; [exact E|]. intros j Hj. rewrite Hcs, Hgt. apply Hf. lia.
    - cbn [fold_left]. destruct (sequential_force_open cf s) as (E & Hcs & Hgt).
      split; [exact E|]. intros j Hj. rewrite Hcs, Hgt. apply Hf. lia.
    - cbn [fold_left]. destruct (sequential_force_closed cf s) as (E & Hcs & Hgt).
      split; [exact E|]. intros j Hj. rewrite Hcs, Hgt. apply Hf. lia.
    - cbn [fold_left]. destruct (sequential_reset cf s) as (E & Hcs & Hgt).
      split; [exact E|]. intros j Hj. rewrite Hcs, Hgt. apply Hf. lia.
  Qed.

  Lemma service_obs_run_seq h : forall s i,
    fresh s i -> service_obs s i h = run_seq cf (now s, circ s) h.
  Proof.
    induction h as [|e rest IH]; intros s i Hf; [reflexivity|].
    cbn [service_obs run_seq]. destruct (hev_step s i e Hf) as [E Hf'].
    rewrite E. cbn [snd]. f_equal. apply IH. exact Hf'.
  Qed.

  Lemma fresh_init : fresh init 0.
  Proof. intros j _. split; reflexivity. Qed.

  Theorem service_history_run_seq h :
    service_obs init 0 h = run_seq cf (0, new_circuit) h.
  Proof. apply (service_obs_run_seq h init 0 fresh_init). Qed.

  Theorem service_history_refines_spec h :
    wf cf = true -> service_obs init 0 h = run_spec cf (0, SClosed []) h.
  Proof. intros Hwf. rewrite service_history_run_seq. apply refines_spec. exact Hwf. Qed.
End History.

(* ------------------------------------------------------------------------- *)
(* non-vacuity *)

(* errors are failures, responses are successes (the default classifier) *)
Definition oc_default (f : bool) : outcome := if f then OErr true else OOk false.

Lemma oc_default_ok :
  forall f, fail_of (oc_default f) = f /\ oc_default f <> OPanic /\ oc_default f <> OCPanic.
Proof. intros [|]; cbn; repeat split; congruence. Qed.

(* three failures trip the count-based breaker (window 3); the next call is rejected and its
   script is a single poll; after the wait a trial call closes the breaker again *)
Example ex_service_script :
  let h := [HCall true 2; HCall true 0; HCall true 0; HCall false 5; HWait 10; HCall false 1] in
  script_of_history cf_count oc_default init 0 h =
    [Poll 0; Advance 2; Complete 0 (OErr true); Poll 0;
     Poll 1; Advance 0; Complete 1 (OErr true); Poll 1;
     Poll 2; Advance 0; Complete 2 (OErr true); Poll 2;
     Poll 3;
     Advance 10;
     Poll 5; Advance 1; Complete 5 (OOk false); Poll 5]
  /\ map (fun o => (o_state o, o_invoked o)) (service_obs cf_count oc_default init 0 h) =
     [(Closed, Some true); (Closed, Some true); (Open, Some true); (Open, Some false);
      (Open, None); (Closed, Some true)]
  /\ service_obs cf_count oc_default init 0 h = run_spec cf_count (0, SClosed []) h
  /\ now (final_state cf_count oc_default init 0 h) = 13.
Proof. vm_compute. repeat split; reflexivity. Qed.

(* the hypotheses of the per-call lemma are satisfiable, in both branches *)
Example ex_sequential_call_admitted :
  cs init 0%nat = Created /\ gate init 0%nat = None /\
  snd (try_acquire (now init) cf_count (circ init)) = true.
Proof. repeat split. Qed.

Example ex_sequential_call_rejected :
  let s := step_st cf_count init ForceOpen in
  cs s 0%nat = Created /\ snd (try_acquire (now s) cf_count (circ s)) = false.
Proof. vm_compute. split; reflexivity. Qed.

#[local] Arguments Z.of_nat : simpl never.

(* ------------------------------------------------------------------------- *)
(* The count-based counters always describe the ring buffer exactly — in every reachable state
   of the SERVICE model (concurrent callers, late outcomes recorded while open, trials while
   half-open, cancellations), not only along sequential histories.  In particular none of them
   is ever negative: the code's `usize` decrements in slide_count_window cannot underflow. *)
Definition counts_ok (c : circuit) : Prop :=
  tc c = Z.of_nat (length (cwin c)) /\
  fc c = Z.of_nat (length (filter fst (cwin c))) /\
  sc c = tc c - fc c /\
  slowc c = Z.of_nat (length (filter snd (cwin c))).

Definition same_cnt (c c' : circuit) : Prop :=
  cwin c' = cwin c /\ tc c' = tc c /\ fc c' = fc c /\ sc c' = sc c /\ slowc c' = slowc c.

Lemma counts_same c c' : counts_ok c -> same_cnt c c' -> counts_ok c'.
Proof. intros (A&B&C&D) (E1&E2&E3&E4&E5). unfold counts_ok. rewrite E1, E2, E3, E4, E5. auto. Qed.

Lemma counts_clear c : counts_ok (clear_window c).
Proof. unfold counts_ok. cbn. repeat split. Qed.

Lemma counts_transition now s c : counts_ok c -> counts_ok (transition_to now s c).
Proof.
  intros H. unfold transition_to. destruct (cstate_eqb (state c) s); [exact H|].
  unfold counts_ok. cbn. repeat split.
Qed.

Lemma counts_slide_loop n : forall fuel c, counts_ok c -> counts_ok (slide_loop fuel n c).
Proof.
  induction fuel as [|k IH]; intros c H; cbn [slide_loop]; [exact H|].
  destruct (n <? Z.of_nat (length (cwin c))); [|exact H].
  destruct (cwin c) as [|[oldf olds] rest] eqn:Ew; [exact H|].
  apply IH. destruct H as (A&B&C&D). rewrite Ew in A, B, D. cbn [filter fst snd length] in A, B, D.
  unfold counts_ok.
  destruct oldf, olds; cbn [filter fst snd length] in *; cbn; rewrite ?Nat2Z.inj_succ in *; repeat split; lia.
Qed.

Lemma counts_record_cb cf f sl c :
  counts_ok c -> counts_ok (slide_count_window cf f sl (bump f sl c)).
Proof.
  intros (A&B&C&D). unfold slide_count_window.
  set (c1 := _ <| cwin := _ |>).
  assert (H1 : counts_ok c1).
  { subst c1. unfold counts_ok, bump.
    destruct f, sl; cbn; rewrite !filter_app, !app_length; cbn [filter fst snd length];
      rewrite ?Nat2Z.inj_add, ?Nat.add_0_r; cbn [length]; repeat split; try lia. }
  destruct (state c1); [apply counts_slide_loop; exact H1|apply counts_slide_loop; exact H1|exact H1].
Qed.

Lemma counts_evaluate now cf c : counts_ok c -> counts_ok (evaluate_window now cf c).
Proof.
  intros H. unfold evaluate_window.
  set (c1 := if time_based cf then cleanup_old_records now cf c else c).
  assert (H1 : counts_ok c1)
    by (subst c1; destruct (time_based cf); [eapply counts_same; [exact H|repeat split]|exact H]).
  destruct (if time_based cf then time_based_stats c1 else (tc c1, fc c1, sc c1, slowc c1)) as [[[a b] d] e].
  destruct (_ <? minc cf); [exact H1|].
  destruct (negb (time_based cf) && _); [exact H1|].
  destruct (_ || _); [|exact H1]. apply counts_transition. exact H1.
Qed.

Lemma counts_record now cf f d c : counts_ok c -> counts_ok (record now cf f d c).
Proof.
  intros H. unfold record.
  set (c1 := if time_based cf then _ else _).
  assert (H1 : counts_ok c1).
  { subst c1. destruct (time_based cf).
    - eapply counts_same; [exact H|repeat split].
    - apply (counts_record_cb cf f (slow_on cf && (slow_thr cf <=? d)) c H). }
  destruct (state c1).
  - apply counts_evaluate. exact H1.
  - apply counts_evaluate. exact H1.
  - destruct f; [apply counts_transition; exact H1|].
    cbn. destruct (permitted cf <=? hos c1 + 1).
    + apply counts_transition. eapply counts_same; [exact H1|repeat split].
    + eapply counts_same; [exact H1|repeat split].
Qed.

Lemma counts_try_acquire now cf c : counts_ok c -> counts_ok (fst (try_acquire now cf c)).
Proof.
  intros H. unfold try_acquire. destruct (state c).
  - exact H.
  - destruct (wait_open cf <=? now - last_change c); cbn [fst]; [|exact H].
    eapply counts_same; [apply (counts_transition now HalfOpen c H)|repeat split].
  - destruct (admitted c <? permitted cf); cbn [fst]; [|exact H].
    eapply counts_same; [exact H|repeat split].
Qed.

Lemma counts_drop_trial tr c : counts_ok c -> counts_ok (drop_trial tr c).
Proof.
  intros H. destruct tr as [p|]; cbn; [destruct (p =? phase c)|]; exact H.
Qed.

Lemma counts_poll_running cf s i start tr b :
  counts_ok (circ s) -> counts_ok (circ (fst (poll_running cf s i start tr b))).
Proof.
  intros H. unfold poll_running. destruct (gate s i) as [[f|f| |]|]; cbn [fst].
  - rewrite circ_gsync. cbn. apply counts_record. exact H.
  - rewrite circ_gsync. cbn. apply counts_record. exact H.
  - cbn. apply counts_drop_trial.
    replace (circ (ghandback tr s)) with (circ s)
      by (destruct tr as [q|]; cbn; [destruct (_ =? _)|]; reflexivity).
    exact H.
  - exact H.
  - exact H.
Qed.

Lemma counts_step cf s e : counts_ok (circ s) -> counts_ok (circ (step_st cf s e)).
Proof.
  intros H. unfold step_st, step. destruct e as [i|i|d|i o| | |]; cbn [fst].
  - unfold poll. cbn. destruct (cs s i) as [|start tr| |]; try exact H.
    + pose proof (counts_try_acquire (now s) cf (circ s) H) as Ha.
      destruct (try_acquire (now s) cf (circ s)) as [c' ok]. cbn [fst] in Ha. destruct ok; cbn [fst].
      * apply counts_poll_running. destruct (state c'); cbn; rewrite circ_gsync; exact Ha.
      * exact Ha.
    + apply counts_poll_running. exact H.
  - unfold drop. cbn. destruct (cs s i) as [|start tr| |]; cbn; try exact H.
    apply counts_drop_trial.
    replace (circ (ghandback tr (s <| woken := upd (woken s) i false |>))) with (circ s)
      by (destruct tr as [q|]; cbn; [destruct (_ =? _)|]; reflexivity).
    exact H.
  - exact H.
  - unfold complete. destruct (gate s i); exact H.
  - rewrite circ_gsync. cbn. apply counts_transition. exact H.
  - rewrite circ_gsync. cbn. apply counts_transition. exact H.
  - rewrite circ_gsync. cbn. apply counts_clear.
Qed.

Lemma filter_len_le {A} (p : A -> bool) l : (length (filter p l) <= length l)%nat.
Proof. induction l as [|x l IH]; cbn; [lia|]. destruct (p x); cbn; lia. Qed.

Theorem counts_consistent cf evs :
  Forall (fun s => counts_ok (circ s) /\ 0 <= fc (circ s) /\ 0 <= sc (circ s) /\
                   0 <= tc (circ s) /\ 0 <= slowc (circ s))
         (states (step_st cf) init evs).
Proof.
  eapply Forall_impl; [|apply (reach_inv (step_st cf) (fun s => counts_ok (circ s)) init);
                        [cbn; repeat split|intros s e; apply counts_step]].
  intros s H. split; [exact H|]. destruct H as (A&B&C&D).
  assert (length (filter fst (cwin (circ s))) <= length (cwin (circ s)))%nat by apply filter_len_le.
  repeat split; lia.
Qed.

(* a late outcome while open, trials while half-open, a slide: the counters keep describing the
   buffer (scenario of the review, 32 events) *)
Example ex_counts :
  let cf := mkCfg false 2 100 2 1 2 true 5 1 1 10 2 false in
  let evs := [Poll 7%nat; Poll 0%nat; Complete 0%nat (OErr true); Poll 0%nat; Poll 1%nat; Advance 6;
              Complete 1%nat (OErr true); Poll 1%nat; Complete 7%nat (OOk false); Poll 7%nat;
              Advance 10; Poll 2%nat; Poll 3%nat; Complete 2%nat (OOk false); Poll 2%nat] in
  let c := circ (fold_left (step_st cf) evs init) in
  state c = HalfOpen /\ cwin c = [(false, false)] /\ (tc c, fc c, sc c, slowc c) = (1, 0, 1, 0).
Proof. vm_compute. repeat split. Qed.

From Coq Require QArith.

(* ------------------------------------------------------------------------- *)
(* What the documented machine's [trips] means, independently of the model's arithmetic:
   [rate_ge] (shared by model and spec) is the comparison of two rationals whenever the window is
   non-empty, and the window over which a closed breaker is judged is never empty (it contains
   the call just recorded), so the value of [rate_ge] at total = 0 is never used. *)
Lemma rate_ge_rational cnt total num den :
  0 < total -> 0 < den ->
  (rate_ge cnt total num den = true <->
   QArith_base.Qle (QArith_base.Qmake num (Z.to_pos den)) (QArith_base.Qmake cnt (Z.to_pos total))).
Proof.
  intros Ht Hd. unfold rate_ge, QArith_base.Qle. cbn [QArith_base.Qnum QArith_base.Qden].
  rewrite !Z2Pos.id by lia. rewrite Z.leb_le. reflexivity.
Qed.

Lemma window_push_nonempty cf t hist f sl :
  0 <= wdur cf -> window cf t (hist ++ [(t, f, sl)]) <> [].
Proof.
  intros Hd. unfold window. destruct (time_based cf).
  - rewrite filter_app. cbn [filter fst].
    replace (wdur cf <? t - t) with false by (symmetry; apply Z.ltb_ge; lia). cbn [negb].
    intros H. apply app_eq_nil in H. destruct H as [_ H]. discriminate.
  - intros H. apply (f_equal (@length _)) in H. rewrite lastn_length, app_length in H. cbn [length] in H.
    assert (1 <= Z.to_nat (Z.max (wsize cf) 1))%nat by lia. lia.
Qed.

Lemma trips_meaning cf t hist f sl :
  wf cf = true ->
  let hist' := hist ++ [(t, f, sl)] in
  let w := window cf t hist' in
  let n := Z.of_nat (length w) in
  0 < n /\
  (trips cf t hist' = true <->
   enough cf t hist' = true /\
   (QArith_base.Qle (QArith_base.Qmake (fnum cf) (Z.to_pos (fden cf)))
                    (QArith_base.Qmake (count_fail w) (Z.to_pos n)) \/
    (slow_on cf = true /\
     QArith_base.Qle (QArith_base.Qmake (snum cf) (Z.to_pos (sden cf)))
                     (QArith_base.Qmake (count_slow w) (Z.to_pos n))))).
Proof.
  intros Hwf hist' w n.
  assert (Hd : 0 <= wdur cf) by (apply wf_dur; exact Hwf).
  assert (Hfd : 0 < fden cf /\ 0 < sden cf).
  { unfold wf in Hwf. repeat (apply andb_true_iff in Hwf; destruct Hwf as [Hwf ?]).
    split; apply Z.ltb_lt; assumption. }
  assert (Hn : 0 < n).
  { subst n w hist'. pose proof (window_push_nonempty cf t hist f sl Hd) as H.
    destruct (window cf t (hist ++ [(t, f, sl)])); [congruence|cbn [length]; lia]. }
  split; [exact Hn|].
  unfold trips. fold hist'. fold w. fold n.
  rewrite andb_true_iff, orb_true_iff, andb_true_iff.
  rewrite (rate_ge_rational _ _ _ _ Hn (proj1 Hfd)), (rate_ge_rational _ _ _ _ Hn (proj2 Hfd)).
  reflexivity.
Qed.
