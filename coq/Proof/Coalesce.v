(* Invariant of the coalesce model and the lemmas Props/C11.v uses. *)
From TR Require Import Lib.Base Model.Coalesce.

Lemma upd_same {A} (f : nat -> A) i v : upd f i v i = v.
Proof. unfold upd. rewrite Nat.eqb_refl. reflexivity. Qed.
Lemma upd_other {A} (f : nat -> A) i v j : j <> i -> upd f i v j = f j.
Proof. intros H. unfold upd. apply Nat.eqb_neq in H. rewrite H. reflexivity. Qed.
Arguments upd : simpl never.

(* ---------- the map ---------- *)
Lemma lookup_In_1 m k l : lookup k m = Some l -> In (k, l) m.
Proof.
  induction m as [|[k' l'] t IH]; cbn; [discriminate|].
  destruct (Nat.eqb_spec k' k) as [->|Hne]; intros H.
  - injection H as ->. left. reflexivity.
  - right. apply IH. exact H.
Qed.

Lemma lookup_None m k : lookup k m = None <-> ~ In k (List.map fst m).
Proof.
  induction m as [|[k' l'] t IH]; cbn.
  - split; [intros _ []|reflexivity].
  - destruct (Nat.eqb_spec k' k) as [->|Hne].
    + split; [discriminate|]. intros H. exfalso. apply H. left. reflexivity.
    + rewrite IH. split; intros H.
      * intros [Hc|Hc]; [exact (Hne Hc)|exact (H Hc)].
      * intros Hc. apply H. right. exact Hc.
Qed.

Lemma lookup_In_2 m k l : NoDup (List.map fst m) -> In (k, l) m -> lookup k m = Some l.
Proof.
  induction m as [|[k' l'] t IH]; cbn; intros Hnd Hin; [destruct Hin|].
  inversion Hnd as [|? ? Hk Ht]; subst.
  destruct (Nat.eqb_spec k' k) as [->|Hne].
  - destruct Hin as [Heq|Hin]; [congruence|].
    exfalso. apply Hk. apply (in_map fst) in Hin. exact Hin.
  - destruct Hin as [Heq|Hin]; [congruence|]. apply IH; assumption.
Qed.

Lemma in_remove_key k' l k m : In (k', l) (remove_key k m) <-> In (k', l) m /\ k' <> k.
Proof.
  unfold remove_key. rewrite filter_In. cbn. split; intros [H1 H2]; split; try exact H1.
  - intros ->. rewrite Nat.eqb_refl in H2. discriminate.
  - apply Bool.negb_true_iff. apply Nat.eqb_neq. exact H2.
Qed.

Lemma nodup_remove_key k m : NoDup (List.map fst m) -> NoDup (List.map fst (remove_key k m)).
Proof.
  induction m as [|[k' l'] t IH]; cbn; intros H; [constructor|].
  inversion H as [|? ? Hk Ht]; subst. destruct (negb (Nat.eqb k' k)); cbn.
  - constructor; [|apply IH; exact Ht]. intros Hin. apply Hk.
    apply in_map_iff in Hin. destruct Hin as [[a b] [Hf Hi]]. cbn in Hf. subst a.
    apply in_remove_key in Hi. destruct Hi as [Hi _]. apply (in_map fst) in Hi. exact Hi.
  - apply IH. exact Ht.
Qed.

Lemma remove_key_absent k m : ~ In k (List.map fst (remove_key k m)).
Proof.
  intros H. apply in_map_iff in H. destruct H as [[a b] [Hf Hi]]. cbn in Hf. subst a.
  apply in_remove_key in Hi. destruct Hi as [_ Hi]. apply Hi. reflexivity.
Qed.

Lemma in_remove_id j i l : In j (remove_id i l) <-> In j l /\ j <> i.
Proof.
  unfold remove_id. rewrite filter_In. split; intros [H1 H2]; split; try exact H1.
  - intros ->. rewrite Nat.eqb_refl in H2. discriminate.
  - apply Bool.negb_true_iff. apply Nat.eqb_neq. exact H2.
Qed.

Lemma nodup_remove_id i l : NoDup l -> NoDup (remove_id i l).
Proof. intros H. apply NoDup_filter. exact H. Qed.

Lemma nodup_snoc (l : list nat) x : NoDup l -> ~ In x l -> NoDup (l ++ [x]).
Proof.
  induction l as [|y t IH]; intros H Hx; cbn.
  - constructor; [intros []|constructor].
  - inversion H as [|? ? Hy Ht]; subst. constructor.
    + rewrite in_app_iff. intros [Hin|[->|[]]]; [exact (Hy Hin)|].
      apply Hx. left. reflexivity.
    + apply IH; [exact Ht|]. intros Hin. apply Hx. right. exact Hin.
Qed.

Arguments remove_id : simpl never.
Arguments remove_key : simpl never.
Arguments lookup : simpl never.

(* ---------- the invariant, over the components it talks about ---------- *)
Record P (cs : nat -> cst) (m : list (nat * nat)) (ch : nat -> chst) (fl : list nat)
         (ck : nat -> option nat) : Prop := {
  p_nd : NoDup (List.map fst m);
  p_map : forall k l, In (k, l) m <-> cs l = Leading k;
  p_open : forall l, ch l = Open <-> exists k, cs l = Leading k;
  p_fl : forall i, In i fl <-> exists k, cs i = Leading k;
  p_flnd : NoDup fl;
  p_wait : forall i l, cs i = Waiting l -> ch l <> NoChan /\ ck i = ck l /\ exists k, ck i = Some k;
  p_lead : forall i k, cs i = Leading k -> ck i = Some k;
  p_idle : forall i, cs i = Idle -> ch i = NoChan;
  p_sent : forall l o, ch l = Sent o -> o <> OPanic /\ cs l = Done;
  p_closed : forall l, ch l = Closed -> cs l = Done \/ cs l = Dropped
}.

Definition Inv (s : st) : Prop := P (cs s) (reqs s) (chan s) (inflight s) (ckey s).

Lemma P_init : Inv init.
Proof.
  constructor; cbn; try (constructor; fail); try discriminate.
  - intros k l. split; [intros []|discriminate].
  - intros l. split; [discriminate|intros [k H]; discriminate].
  - intros i. split; [intros []|intros [k H]; discriminate].
Qed.

Ltac cases_on x i :=
  destruct (Nat.eq_dec x i) as [->|?];
  [rewrite ?upd_same in * | rewrite ?upd_other in * by assumption].

(* call(): the key is in the map - the caller becomes a waiter on the leader's channel *)
Lemma P_waiter cs m ch fl ck i l k :
  P cs m ch fl ck -> cs i = Idle -> cs l = Leading k ->
  P (upd cs i (Waiting l)) m ch fl (upd ck i (Some k)).
Proof.
  intros [Hnd Hmap Hopen Hfl Hflnd Hwait Hlead Hidle Hsent Hclosed] Hi Hl.
  assert (Hli : l <> i) by (intros ->; congruence).
  assert (Hchi : ch i = NoChan) by (apply Hidle; exact Hi).
  constructor.
  - exact Hnd.
  - intros k0 l0. rewrite Hmap. cases_on l0 i; [|tauto]. split; congruence.
  - intros l0. rewrite Hopen. cases_on l0 i; [|tauto].
    split; intros [k0 H]; congruence.
  - intros j. rewrite Hfl. cases_on j i; [|tauto]. split; intros [k0 H]; congruence.
  - exact Hflnd.
  - intros j l0. cases_on j i.
    + intros H. injection H as <-. rewrite upd_other by exact Hli.
      rewrite (Hlead l k Hl). repeat split; [|eexists; reflexivity].
      intros Hc. assert (ch l = Open) by (apply Hopen; eexists; exact Hl). congruence.
    + intros H. destruct (Hwait j l0 H) as (H1 & H2 & H3).
      assert (l0 <> i) by (intros ->; congruence).
      rewrite upd_other by assumption. auto.
  - intros j k0. cases_on j i; [discriminate|]. apply Hlead.
  - intros j. cases_on j i; [discriminate|]. apply Hidle.
  - intros l0 o H. destruct (Hsent l0 o H) as [H1 H2]. split; [exact H1|].
    cases_on l0 i; [congruence|exact H2].
  - intros l0 H. cases_on l0 i; [congruence|]. apply Hclosed. exact H.
Qed.

(* call(): the key is free - the caller becomes the leader and calls the inner service *)
Lemma P_leader cs m ch fl ck i k :
  P cs m ch fl ck -> cs i = Idle -> (forall l, cs l <> Leading k) ->
  P (upd cs i (Leading k)) ((k, i) :: m) (upd ch i Open) (fl ++ [i]) (upd ck i (Some k)).
Proof.
  intros [Hnd Hmap Hopen Hfl Hflnd Hwait Hlead Hidle Hsent Hclosed] Hi Hfree.
  assert (Hchi : ch i = NoChan) by (apply Hidle; exact Hi).
  constructor.
  - cbn. constructor; [|exact Hnd]. intros Hin. apply in_map_iff in Hin.
    destruct Hin as [[a b] [Hf Hin]]. cbn in Hf. subst a. apply Hmap in Hin. exact (Hfree b Hin).
  - intros k0 l0. cbn. rewrite Hmap. cases_on l0 i.
    + split; [intros [H|H]; congruence|]. intros H. left. congruence.
    + split; [intros [H|H]; congruence|]. intros H. right. exact H.
  - intros l0. cases_on l0 i.
    + split; [eexists; reflexivity|reflexivity].
    + apply Hopen.
  - intros j. rewrite in_app_iff. cbn. rewrite Hfl. cases_on j i.
    + split; [eexists; reflexivity|]. intros _. right. left. reflexivity.
    + split; [intros [H|[H|[]]]; congruence|]. intros H. left. exact H.
  - apply nodup_snoc; [exact Hflnd|]. rewrite Hfl. intros [k0 H]. congruence.
  - intros j l0. cases_on j i; [discriminate|]. intros H.
    destruct (Hwait j l0 H) as (H1 & H2 & H3).
    assert (l0 <> i) by (intros ->; congruence).
    rewrite !upd_other by assumption. auto.
  - intros j k0. cases_on j i; [congruence|]. apply Hlead.
  - intros j. cases_on j i; [discriminate|]. apply Hidle.
  - intros l0 o. cases_on l0 i; [discriminate|]. apply Hsent.
  - intros l0. cases_on l0 i; [discriminate|]. apply Hclosed.
Qed.

(* the leader's key entry is removed: InFlight::complete (message) or InFlight::cancel (none) *)
Lemma P_leader_end cs m ch fl ck i k c' chv :
  P cs m ch fl ck -> cs i = Leading k ->
  ((exists o, chv = Sent o /\ o <> OPanic /\ c' = Done) \/
   (chv = Closed /\ (c' = Done \/ c' = Dropped))) ->
  P (upd cs i c') (remove_key k m) (upd ch i chv) (remove_id i fl) ck.
Proof.
  intros [Hnd Hmap Hopen Hfl Hflnd Hwait Hlead Hidle Hsent Hclosed] Hi Hend.
  assert (Hc' : c' = Done \/ c' = Dropped) by (destruct Hend as [(o&_&_&->)|[_ H]]; auto).
  assert (Hchv : chv <> Open /\ chv <> NoChan)
    by (destruct Hend as [(o&->&_&_)|[-> _]]; split; discriminate).
  assert (Huniq : forall l, cs l = Leading k -> l = i).
  { intros l Hl. apply Hmap in Hl. apply Hmap in Hi.
    apply (lookup_In_2 _ _ _ Hnd) in Hl. apply (lookup_In_2 _ _ _ Hnd) in Hi. congruence. }
  constructor.
  - apply nodup_remove_key. exact Hnd.
  - intros k0 l0. rewrite in_remove_key, Hmap. cases_on l0 i.
    + split; [intros [H1 H2]; congruence|]. destruct Hc'; congruence.
    + split; [tauto|]. intros H. split; [exact H|]. intros ->. apply Huniq in H. congruence.
  - intros l0. cases_on l0 i.
    + split; [intros H; destruct Hchv; congruence|]. intros [k0 H]. destruct Hc'; congruence.
    + apply Hopen.
  - intros j. rewrite in_remove_id, Hfl. cases_on j i.
    + split; [tauto|]. intros [k0 H]. destruct Hc'; congruence.
    + tauto.
  - apply nodup_remove_id. exact Hflnd.
  - intros j l0. cases_on j i; [destruct Hc'; congruence|]. intros H.
    destruct (Hwait j l0 H) as (H1 & H2 & H3). repeat split; try assumption.
    cases_on l0 i; [apply Hchv|exact H1].
  - intros j k0. cases_on j i; [destruct Hc'; congruence|]. apply Hlead.
  - intros j. cases_on j i; [destruct Hc'; congruence|]. apply Hidle.
  - intros l0 o. cases_on l0 i.
    + intros ->. destruct Hend as [(o'&Ho&Hp&->)|[Ho _]]; [|discriminate].
      injection Ho as <-. auto.
    + apply Hsent.
  - intros l0. cases_on l0 i; [intros _; exact Hc'|]. apply Hclosed.
Qed.

(* a waiter resolves or is dropped *)
Lemma P_waiter_end cs m ch fl ck i l c' :
  P cs m ch fl ck -> cs i = Waiting l -> (c' = Done \/ c' = Dropped) ->
  P (upd cs i c') m ch fl ck.
Proof.
  intros [Hnd Hmap Hopen Hfl Hflnd Hwait Hlead Hidle Hsent Hclosed] Hi Hc'.
  constructor.
  - exact Hnd.
  - intros k0 l0. rewrite Hmap. cases_on l0 i; [|tauto]. split; destruct Hc'; congruence.
  - intros l0. rewrite Hopen. cases_on l0 i; [|tauto].
    split; intros [k0 H]; destruct Hc'; congruence.
  - intros j. rewrite Hfl. cases_on j i; [|tauto]. split; intros [k0 H]; destruct Hc'; congruence.
  - exact Hflnd.
  - intros j l0. cases_on j i; [destruct Hc'; congruence|]. apply Hwait.
  - intros j k0. cases_on j i; [destruct Hc'; congruence|]. apply Hlead.
  - intros j. cases_on j i; [destruct Hc'; congruence|]. apply Hidle.
  - intros l0 o H. destruct (Hsent l0 o H) as [H1 H2]. split; [exact H1|].
    cases_on l0 i; [congruence|exact H2].
  - intros l0 H. cases_on l0 i; [exact Hc'|]. apply Hclosed. exact H.
Qed.

Lemma lookup_leader s k l : Inv s -> (lookup k (reqs s) = Some l <-> cs s l = Leading k).
Proof.
  intros H. rewrite <- (p_map _ _ _ _ _ H). split.
  - apply lookup_In_1.
  - apply lookup_In_2. apply (p_nd _ _ _ _ _ H).
Qed.

Lemma lookup_free s k : Inv s -> (lookup k (reqs s) = None <-> forall l, cs s l <> Leading k).
Proof.
  intros H. split.
  - intros Hn l Hl. apply (lookup_leader s k l H) in Hl. congruence.
  - intros Hf. destruct (lookup k (reqs s)) as [l|] eqn:E; [|reflexivity].
    apply (lookup_leader s k l H) in E. exfalso. exact (Hf l E).
Qed.

Lemma inv_step s e : Inv s -> Inv (step_st s e).
Proof.
  intros H. unfold step_st. destruct e as [i k|i|i|i o]; cbn [step fst].
  - unfold call. destruct (cs s i) eqn:Ei; try exact H.
    destruct (lookup k (reqs s)) as [l|] eqn:El; unfold Inv; cbn.
    + apply P_waiter; [exact H|exact Ei|]. apply lookup_leader; assumption.
    + apply P_leader; [exact H|exact Ei|]. apply lookup_free; assumption.
  - unfold poll. cbn. destruct (cs s i) as [|k|l| |] eqn:Ei; cbn [fst]; try exact H.
    + assert (Hlk : lookup k (reqs s) = Some i) by (apply lookup_leader; assumption).
      destruct (gate s i) as [[]|] eqn:Eg; cbn [fst]; try exact H;
        unfold close_key; cbn; rewrite Hlk; unfold Inv; cbn;
        (apply (P_leader_end _ _ _ _ _ i k); [exact H|exact Ei|]).
      * left. eexists. repeat split; discriminate.
      * left. eexists. repeat split; discriminate.
      * right. auto.
    + destruct (chan s l) eqn:Ec; cbn [fst]; try exact H; unfold Inv; cbn;
        apply (P_waiter_end _ _ _ _ _ i l); auto.
  - unfold drop. cbn. destruct (cs s i) as [|k|l| |] eqn:Ei; try exact H.
    + assert (Hlk : lookup k (reqs s) = Some i) by (apply lookup_leader; assumption).
      unfold close_key; cbn; rewrite Hlk; unfold Inv; cbn.
      apply (P_leader_end _ _ _ _ _ i k); [exact H|exact Ei|]. right. auto.
    + unfold Inv; cbn. apply (P_waiter_end _ _ _ _ _ i l); auto.
  - unfold complete. destruct (gate s i); exact H.
Qed.

Lemma inv_run evs : Inv (run evs).
Proof. unfold run. apply fold_left_inv; [apply P_init|intros; apply inv_step; assumption]. Qed.

(* ---------- C11 clause 1: one inner call per key ---------- *)
Definition leads (s : st) (k : nat) (i : nat) : bool :=
  match cs s i with Leading k' => Nat.eqb k' k | _ => false end.

Lemma filter_le1 {A} (f : A -> bool) (l : list A) :
  NoDup l -> (forall x y, In x l -> In y l -> f x = true -> f y = true -> x = y) ->
  (length (filter f l) <= 1)%nat.
Proof.
  induction l as [|a t IH]; intros Hnd Hu; cbn; [lia|].
  inversion Hnd as [|? ? Ha Ht]; subst.
  destruct (f a) eqn:Ea; cbn.
  - assert (filter f t = []) as ->; [|cbn; lia].
    destruct (filter f t) as [|b t'] eqn:Ef; [reflexivity|]. exfalso.
    assert (Hb : In b (filter f t)) by (rewrite Ef; left; reflexivity).
    apply filter_In in Hb. destruct Hb as [Hb1 Hb2].
    assert (a = b) by (apply Hu; [left; reflexivity|right; exact Hb1|exact Ea|exact Hb2]).
    subst. exact (Ha Hb1).
  - apply IH; [exact Ht|]. intros x y Hx Hy. apply Hu; right; assumption.
Qed.

Lemma one_per_key evs :
  let s := run evs in
  NoDup (inflight s) /\
  (forall i, In i (inflight s) <-> exists k, cs s i = Leading k) /\
  (forall i j k, cs s i = Leading k -> cs s j = Leading k -> i = j) /\
  (forall k, (length (filter (leads s k) (inflight s)) <= 1)%nat).
Proof.
  intros s. pose proof (inv_run evs) as H. fold s in H.
  assert (Hu : forall i j k, cs s i = Leading k -> cs s j = Leading k -> i = j).
  { intros i j k Hi Hj. apply (lookup_leader s k i H) in Hi. apply (lookup_leader s k j H) in Hj. congruence. }
  repeat split.
  - apply (p_flnd _ _ _ _ _ H).
  - apply (p_fl _ _ _ _ _ H).
  - apply (p_fl _ _ _ _ _ H).
  - exact Hu.
  - intros k. apply filter_le1; [apply (p_flnd _ _ _ _ _ H)|].
    intros x y _ _ Hx Hy. unfold leads in Hx, Hy.
    destruct (cs s x) as [|kx| | |] eqn:Ex; try discriminate.
    destruct (cs s y) as [|ky| | |] eqn:Ey; try discriminate.
    apply Nat.eqb_eq in Hx, Hy. subst. exact (Hu x y k Ex Ey).
Qed.

(* ---------- single steps ---------- *)
Lemma call_waiter s i l k :
  Inv s -> cs s i = Idle -> cs s l = Leading k ->
  cs (step_st s (Call i k)) i = Waiting l /\ inflight (step_st s (Call i k)) = inflight s /\
  reqs (step_st s (Call i k)) = reqs s /\ chan (step_st s (Call i k)) = chan s.
Proof.
  intros H Hi Hl. unfold step_st. cbn [step fst]. unfold call. rewrite Hi.
  apply (lookup_leader s k l H) in Hl. rewrite Hl. cbn. rewrite upd_same. auto.
Qed.

Lemma call_leader s i k :
  Inv s -> cs s i = Idle -> (forall l, cs s l <> Leading k) ->
  cs (step_st s (Call i k)) i = Leading k /\
  inflight (step_st s (Call i k)) = inflight s ++ [i] /\
  chan (step_st s (Call i k)) i = Open.
Proof.
  intros H Hi Hf. unfold step_st. cbn [step fst]. unfold call. rewrite Hi.
  apply (lookup_free s k H) in Hf. rewrite Hf. cbn. rewrite !upd_same. auto.
Qed.

Lemma poll_leader_finish s l k o :
  Inv s -> cs s l = Leading k -> gate s l = Some o -> o <> OPanic ->
  let s' := step_st s (Poll l) in
  snd (step s (Poll l)) = {| r := code o; val := Z.of_nat l |} /\
  chan s' l = Sent o /\ cs s' l = Done /\ lookup k (reqs s') = None /\ ~ In l (inflight s').
Proof.
  intros H Hl Hg Ho s'. unfold s', step_st. cbn [step]. unfold poll. cbn. rewrite Hl, Hg.
  assert (Hlk : lookup k (reqs s) = Some l) by (apply lookup_leader; assumption).
  destruct o; [| |congruence]; unfold close_key; cbn; rewrite Hlk; cbn; rewrite !upd_same;
    (repeat split; [apply lookup_None; apply remove_key_absent|
                    rewrite in_remove_id; intros [_ Hc]; apply Hc; reflexivity]).
Qed.

Lemma leader_gone_step s l k e :
  Inv s -> cs s l = Leading k -> (e = Drop l \/ (e = Poll l /\ gate s l = Some OPanic)) ->
  let s' := step_st s e in
  chan s' l = Closed /\ (cs s' l = Done \/ cs s' l = Dropped) /\
  lookup k (reqs s') = None /\ ~ In l (inflight s') /\
  (forall i, i <> l -> cs s' i = cs s i) /\
  (e = Poll l -> r (snd (step s e)) = 5).
Proof.
  intros H Hl He s'. unfold s', step_st.
  assert (Hlk : lookup k (reqs s) = Some l) by (apply lookup_leader; assumption).
  destruct He as [->|[-> Hg]]; cbn [step fst].
  - unfold drop. cbn. rewrite Hl. unfold close_key; cbn; rewrite Hlk; cbn. rewrite !upd_same.
    repeat split; auto.
    + apply lookup_None. apply remove_key_absent.
    + rewrite in_remove_id. intros [_ Hc]. apply Hc. reflexivity.
    + intros i Hi. apply upd_other. exact Hi.
    + discriminate.
  - unfold poll. cbn. rewrite Hl, Hg. unfold close_key; cbn; rewrite Hlk; cbn. rewrite !upd_same.
    repeat split; auto.
    + apply lookup_None. apply remove_key_absent.
    + rewrite in_remove_id. intros [_ Hc]. apply Hc. reflexivity.
    + intros i Hi. apply upd_other. exact Hi.
Qed.

Lemma poll_waiter s i l :
  cs s i = Waiting l ->
  let s' := step_st s (Poll i) in
  match chan s l with
  | Sent o => snd (step s (Poll i)) = {| r := code o; val := Z.of_nat l |} /\ cs s' i = Done
  | Closed => snd (step s (Poll i)) = {| r := 3; val := -1 |} /\ cs s' i = Done
  | _ => snd (step s (Poll i)) = {| r := 0; val := -1 |} /\ cs s' i = Waiting l /\ woken s' i = true
  end.
Proof.
  intros Hi s'. unfold s', step_st. cbn [step]. unfold poll. cbn. rewrite Hi.
  destruct (chan s l); cbn; rewrite ?upd_same; auto.
Qed.

(* only l's own call/poll/drop touch the channel created by l *)
Lemma chan_frame s e l :
  Inv s -> e <> Poll l -> e <> Drop l -> (forall k, e <> Call l k) ->
  chan (step_st s e) l = chan s l.
Proof.
  intros H Hp Hd Hc. unfold step_st. destruct e as [i k|i|i|i o]; cbn [step fst].
  - unfold call. destruct (cs s i) eqn:Ei; try reflexivity.
    destruct (lookup k (reqs s)); cbn; [reflexivity|].
    apply upd_other. intros ->. exact (Hc k eq_refl).
  - assert (l <> i) by congruence.
    unfold poll. cbn. destruct (cs s i) as [|k|l'| |] eqn:Ei; cbn [fst]; try reflexivity.
    + assert (Hlk : lookup k (reqs s) = Some i) by (apply lookup_leader; assumption).
      destruct (gate s i) as [[]|]; cbn [fst]; try reflexivity;
        unfold close_key; cbn; rewrite Hlk; cbn; apply upd_other; assumption.
    + destruct (chan s l'); reflexivity.
  - assert (l <> i) by congruence.
    unfold drop. cbn. destruct (cs s i) as [|k|l'| |] eqn:Ei; try reflexivity.
    assert (Hlk : lookup k (reqs s) = Some i) by (apply lookup_leader; assumption).
    unfold close_key; cbn; rewrite Hlk; cbn; apply upd_other; assumption.
  - unfold complete. destruct (gate s i); reflexivity.
Qed.

(* a caller that is not Idle is not affected by Call; one that is Done/Dropped by nothing *)
Lemma finished_frozen s e l :
  Inv s -> (cs s l = Done \/ cs s l = Dropped) ->
  chan (step_st s e) l = chan s l /\ cs (step_st s e) l = cs s l.
Proof.
  intros H Hl.
  assert (Hcs : cs (step_st s e) l = cs s l).
  { unfold step_st. destruct e as [i k|i|i|i o]; cbn [step fst].
    - unfold call. destruct (cs s i) eqn:Ei; try reflexivity.
      assert (l <> i) by (intros ->; destruct Hl; congruence).
      destruct (lookup k (reqs s)); cbn; apply upd_other; assumption.
    - unfold poll. cbn. destruct (cs s i) as [|k|l'| |] eqn:Ei; cbn [fst]; try reflexivity.
      + assert (l <> i) by (intros ->; destruct Hl; congruence).
        destruct (gate s i) as [[]|]; cbn [fst]; try reflexivity;
          unfold close_key; cbn; destruct (lookup k (reqs s)); cbn; apply upd_other; assumption.
      + assert (l <> i) by (intros ->; destruct Hl; congruence).
        destruct (chan s l'); cbn; try reflexivity; apply upd_other; assumption.
    - unfold drop. cbn. destruct (cs s i) as [|k|l'| |] eqn:Ei; try reflexivity;
        assert (l <> i) by (intros ->; destruct Hl; congruence).
      + unfold close_key; cbn; destruct (lookup k (reqs s)); cbn; apply upd_other; assumption.
      + cbn. apply upd_other; assumption.
    - unfold complete. destruct (gate s i); reflexivity. }
  split; [|exact Hcs].
  unfold step_st in *. destruct e as [i k|i|i|i o].
  - destruct (Nat.eq_dec i l) as [->|Hne]; [|apply chan_frame; congruence].
    cbn [step fst]. unfold call. destruct Hl as [Hl|Hl]; rewrite Hl; reflexivity.
  - destruct (Nat.eq_dec i l) as [->|Hne]; [|apply chan_frame; congruence].
    cbn [step fst]. unfold poll. cbn. destruct Hl as [Hl|Hl]; rewrite Hl; reflexivity.
  - destruct (Nat.eq_dec i l) as [->|Hne]; [|apply chan_frame; congruence].
    cbn [step fst]. unfold drop. cbn. destruct Hl as [Hl|Hl]; rewrite Hl; reflexivity.
  - apply chan_frame; congruence.
Qed.

Lemma frozen_run evs s l :
  Inv s -> (cs s l = Done \/ cs s l = Dropped) ->
  chan (fold_left step_st evs s) l = chan s l /\ Inv (fold_left step_st evs s).
Proof.
  revert s. induction evs as [|e t IH]; intros s H Hl; cbn [fold_left]; [auto|].
  destruct (finished_frozen s e l H Hl) as [Hc Hs].
  destruct (IH (step_st s e)) as [Hc2 Hi2].
  - apply inv_step. exact H.
  - rewrite Hs. exact Hl.
  - split; [congruence|exact Hi2].
Qed.

Lemma waiter_frame s e i l :
  cs s i = Waiting l -> e <> Poll i -> e <> Drop i -> cs (step_st s e) i = Waiting l.
Proof.
  intros Hi Hp Hd. unfold step_st. destruct e as [j k|j|j|j o]; cbn [step fst].
  - unfold call. destruct (cs s j) eqn:Ej; try exact Hi.
    assert (i <> j) by (intros ->; congruence).
    destruct (lookup k (reqs s)); cbn; rewrite upd_other by assumption; exact Hi.
  - assert (i <> j) by congruence.
    unfold poll. cbn. destruct (cs s j) as [|k|l'| |] eqn:Ej; cbn [fst]; try exact Hi.
    + destruct (gate s j) as [[]|]; cbn [fst]; try exact Hi;
        unfold close_key; cbn; destruct (lookup k (reqs s)); cbn; rewrite upd_other by assumption; exact Hi.
    + destruct (chan s l'); cbn; try exact Hi; rewrite upd_other by assumption; exact Hi.
  - assert (i <> j) by congruence.
    unfold drop. cbn. destruct (cs s j) as [|k|l'| |] eqn:Ej; try exact Hi.
    + unfold close_key; cbn; destruct (lookup k (reqs s)); cbn; rewrite upd_other by assumption; exact Hi.
    + cbn. rewrite upd_other by assumption. exact Hi.
  - unfold complete. destruct (gate s j); exact Hi.
Qed.

Lemma waiter_run evs s i l :
  cs s i = Waiting l -> (forall e, In e evs -> e <> Poll i /\ e <> Drop i) ->
  cs (fold_left step_st evs s) i = Waiting l.
Proof.
  revert s. induction evs as [|e t IH]; intros s Hi Hq; cbn [fold_left]; [exact Hi|].
  apply IH.
  - destruct (Hq e (or_introl eq_refl)). apply waiter_frame; assumption.
  - intros e' Hin. apply Hq. right. exact Hin.
Qed.

(* a caller that did not lead at its call() never makes an inner call *)
Lemma never_leads_step s e i :
  cs s i <> Idle -> (forall k, cs s i <> Leading k) ->
  cs (step_st s e) i <> Idle /\ (forall k, cs (step_st s e) i <> Leading k).
Proof.
  intros Hn Hl.
  destruct (cs s i) as [|k|l| |] eqn:Ei; try congruence; try (exfalso; exact (Hl k eq_refl)).
    assert (Hc : cs (step_st s e) i = Waiting l \/ cs (step_st s e) i = Done \/ cs (step_st s e) i = Dropped).
    { destruct e as [j k|j|j|j o].
      - left. apply waiter_frame; congruence.
      - destruct (Nat.eq_dec j i) as [->|Hne]; [|left; apply waiter_frame; congruence].
        pose proof (poll_waiter s i l Ei) as Hp. cbv zeta in Hp.
        destruct (chan s l); intuition.
      - destruct (Nat.eq_dec j i) as [->|Hne]; [|left; apply waiter_frame; congruence].
        right. right. unfold step_st. cbn [step fst]. unfold drop. cbn. rewrite Ei. cbn. apply upd_same.
      - left. apply waiter_frame; congruence. }
    destruct Hc as [Hc|[Hc|Hc]]; rewrite Hc; split; intros; discriminate.
  - assert (Hc : cs (step_st s e) i = Done).
    { unfold step_st. destruct e as [j k|j|j|j o]; cbn [step fst].
      - unfold call. destruct (cs s j) eqn:Ej; try exact Ei.
        assert (i <> j) by (intros ->; congruence).
        destruct (lookup k (reqs s)); cbn; rewrite upd_other by assumption; exact Ei.
      - unfold poll. cbn. destruct (cs s j) as [|k|l'| |] eqn:Ej; cbn [fst]; try exact Ei;
          assert (i <> j) by (intros ->; congruence).
        + destruct (gate s j) as [[]|]; cbn [fst]; try exact Ei;
            unfold close_key; cbn; destruct (lookup k (reqs s)); cbn; rewrite upd_other by assumption; exact Ei.
        + destruct (chan s l'); cbn; try exact Ei; rewrite upd_other by assumption; exact Ei.
      - unfold drop. cbn. destruct (cs s j) as [|k|l'| |] eqn:Ej; try exact Ei;
          assert (i <> j) by (intros ->; congruence).
        + unfold close_key; cbn; destruct (lookup k (reqs s)); cbn; rewrite upd_other by assumption; exact Ei.
        + cbn. rewrite upd_other by assumption. exact Ei.
      - unfold complete. destruct (gate s j); exact Ei. }
    rewrite Hc. split; intros; discriminate.
  - assert (Hc : cs (step_st s e) i = Dropped).
    { unfold step_st. destruct e as [j k|j|j|j o]; cbn [step fst].
      - unfold call. destruct (cs s j) eqn:Ej; try exact Ei.
        assert (i <> j) by (intros ->; congruence).
        destruct (lookup k (reqs s)); cbn; rewrite upd_other by assumption; exact Ei.
      - unfold poll. cbn. destruct (cs s j) as [|k|l'| |] eqn:Ej; cbn [fst]; try exact Ei;
          assert (i <> j) by (intros ->; congruence).
        + destruct (gate s j) as [[]|]; cbn [fst]; try exact Ei;
            unfold close_key; cbn; destruct (lookup k (reqs s)); cbn; rewrite upd_other by assumption; exact Ei.
        + destruct (chan s l'); cbn; try exact Ei; rewrite upd_other by assumption; exact Ei.
      - unfold drop. cbn. destruct (cs s j) as [|k|l'| |] eqn:Ej; try exact Ei;
          assert (i <> j) by (intros ->; congruence).
        + unfold close_key; cbn; destruct (lookup k (reqs s)); cbn; rewrite upd_other by assumption; exact Ei.
        + cbn. rewrite upd_other by assumption. exact Ei.
      - unfold complete. destruct (gate s j); exact Ei. }
    rewrite Hc. split; intros; discriminate.
Qed.

Lemma never_leads_run evs s i :
  Inv s -> cs s i <> Idle -> (forall k, cs s i <> Leading k) ->
  ~ In i (inflight (fold_left step_st evs s)).
Proof.
  revert s. induction evs as [|e t IH]; intros s H Hn Hl; cbn [fold_left].
  - rewrite (p_fl _ _ _ _ _ H). intros [k Hk]. exact (Hl k Hk).
  - destruct (never_leads_step s e i Hn Hl) as [Hn' Hl'].
    apply IH; [apply inv_step; exact H|exact Hn'|exact Hl'].
Qed.

Lemma run_app evs1 evs2 : run (evs1 ++ evs2) = fold_left step_st evs2 (run evs1).
Proof. unfold run. apply fold_left_app. Qed.

Lemma inv_fold evs s : Inv s -> Inv (fold_left step_st evs s).
Proof. intros H. apply fold_left_inv; [exact H|intros; apply inv_step; assumption]. Qed.

(* ---------- C11: the clauses ---------- *)
Lemma waiter_makes_no_call evs l k i :
  let s := run evs in
  cs s l = Leading k -> cs s i = Idle ->
  let s2 := step_st s (Call i k) in
  cs s2 i = Waiting l /\ inflight s2 = inflight s /\
  forall evs2, ~ In i (inflight (fold_left step_st evs2 s2)).
Proof.
  intros s Hl Hi s2. pose proof (inv_run evs) as H. fold s in H.
  destruct (call_waiter s i l k H Hi Hl) as (Hc & Hf & _). fold s2 in Hc, Hf.
  repeat split; try assumption. intros evs2. apply never_leads_run.
  - apply inv_step. exact H.
  - rewrite Hc. discriminate.
  - rewrite Hc. discriminate.
Qed.

Lemma waiters_share evs l k i o evs2 :
  let s := run evs in
  cs s l = Leading k -> cs s i = Waiting l -> gate s l = Some o -> o <> OPanic ->
  (forall e, In e evs2 -> e <> Poll i /\ e <> Drop i) ->
  snd (step s (Poll l)) = {| r := code o; val := Z.of_nat l |} /\
  snd (step (fold_left step_st evs2 (step_st s (Poll l))) (Poll i)) =
    {| r := code o; val := Z.of_nat l |}.
Proof.
  intros s Hl Hi Hg Ho Hq. pose proof (inv_run evs) as H. fold s in H.
  destruct (poll_leader_finish s l k o H Hl Hg Ho) as (Hr & Hch & Hd & _). cbv zeta in *.
  split; [exact Hr|].
  set (s1 := step_st s (Poll l)) in *.
  assert (H1 : Inv s1) by (apply inv_step; exact H).
  assert (Hil : i <> l) by (intros ->; congruence).
  assert (Hi1 : cs s1 i = Waiting l).
  { apply waiter_frame; [exact Hi|congruence|discriminate]. }
  destruct (frozen_run evs2 s1 l H1 (or_introl Hd)) as [Hc2 _].
  pose proof (waiter_run evs2 s1 i l Hi1 Hq) as Hi2.
  pose proof (poll_waiter _ i l Hi2) as Hp. cbv zeta in Hp.
  rewrite Hc2, Hch in Hp. apply Hp.
Qed.

Lemma free_key_leads evs k j :
  let s := run evs in
  (forall l, cs s l <> Leading k) -> cs s j = Idle ->
  let s2 := step_st s (Call j k) in
  cs s2 j = Leading k /\ inflight s2 = inflight s ++ [j] /\ chan s2 j = Open.
Proof.
  intros s Hf Hj s2. apply call_leader; [apply inv_run|exact Hj|exact Hf].
Qed.

Lemma leader_gone evs l k e :
  let s := run evs in
  cs s l = Leading k -> (e = Drop l \/ (e = Poll l /\ gate s l = Some OPanic)) ->
  let s1 := step_st s e in
  lookup k (reqs s1) = None /\ ~ In l (inflight s1) /\
  (forall j, cs s1 j = Idle ->
     cs (step_st s1 (Call j k)) j = Leading k /\
     inflight (step_st s1 (Call j k)) = inflight s1 ++ [j]) /\
  (forall i evs2, cs s i = Waiting l -> (forall e', In e' evs2 -> e' <> Poll i /\ e' <> Drop i) ->
     snd (step (fold_left step_st evs2 s1) (Poll i)) = {| r := 3; val := -1 |}).
Proof.
  intros s Hl He s1. pose proof (inv_run evs) as H. fold s in H.
  destruct (leader_gone_step s l k e H Hl He) as (Hch & Hd & Hlk & Hfl & Hoth & _). fold s1 in Hch, Hd, Hlk, Hfl, Hoth.
  assert (H1 : Inv s1) by (apply inv_step; exact H).
  repeat split; try assumption.
  - apply call_leader; [exact H1|assumption|]. apply lookup_free; assumption.
  - apply call_leader; [exact H1|assumption|]. apply lookup_free; assumption.
  - intros i evs2 Hi Hq.
    assert (Hil : i <> l) by (intros ->; congruence).
    assert (Hi1 : cs s1 i = Waiting l) by (rewrite Hoth; assumption).
    destruct (frozen_run evs2 s1 l H1 Hd) as [Hc2 _].
    pose proof (waiter_run evs2 s1 i l Hi1 Hq) as Hi2.
    pose proof (poll_waiter _ i l Hi2) as Hp. cbv zeta in Hp.
    rewrite Hc2, Hch in Hp. apply Hp.
Qed.

Lemma fresh_after_completion evs l k o :
  let s := run evs in
  cs s l = Leading k -> gate s l = Some o -> o <> OPanic ->
  let s1 := step_st s (Poll l) in
  lookup k (reqs s1) = None /\ ~ In l (inflight s1) /\ (forall l', cs s1 l' <> Leading k) /\
  (forall j, cs s1 j = Idle ->
     cs (step_st s1 (Call j k)) j = Leading k /\
     inflight (step_st s1 (Call j k)) = inflight s1 ++ [j]).
Proof.
  intros s Hl Hg Ho s1. pose proof (inv_run evs) as H. fold s in H.
  destruct (poll_leader_finish s l k o H Hl Hg Ho) as (_ & _ & _ & Hlk & Hfl). fold s1 in Hlk, Hfl.
  assert (H1 : Inv s1) by (apply inv_step; exact H).
  repeat split; try assumption.
  - apply lookup_free; assumption.
  - apply call_leader; [exact H1|assumption|]. apply lookup_free; assumption.
  - apply call_leader; [exact H1|assumption|]. apply lookup_free; assumption.
Qed.

Lemma no_cross_key evs i l :
  let s := run evs in
  cs s i = Waiting l ->
  ckey s i = ckey s l /\ (exists k, ckey s i = Some k) /\
  (r (snd (step s (Poll i))) = 1 \/ r (snd (step s (Poll i))) = 2 ->
     val (snd (step s (Poll i))) = Z.of_nat l /\
     exists o, chan s l = Sent o /\ r (snd (step s (Poll i))) = code o) /\
  (forall e l0, e <> Poll l0 -> e <> Drop l0 -> (forall k, e <> Call l0 k) ->
     chan (step_st s e) l0 = chan s l0).
Proof.
  intros s Hi. pose proof (inv_run evs) as H. fold s in H.
  destruct (p_wait _ _ _ _ _ H i l Hi) as (_ & Hk & Hex).
  repeat split; try assumption.
  - pose proof (poll_waiter s i l Hi) as Hp. cbv zeta in Hp.
    destruct (chan s l); destruct Hp as [Hp _]; rewrite Hp in *; cbn in *; intuition; discriminate.
  - pose proof (poll_waiter s i l Hi) as Hp. cbv zeta in Hp.
    destruct (chan s l) as [| |o|]; destruct Hp as [Hp _]; rewrite Hp in *; cbn in *;
      try (destruct H0; discriminate).
    exists o. auto.
  - intros e l0. apply chan_frame. exact H.
Qed.

Lemma no_wait_forever evs i l :
  let s := run evs in
  cs s i = Waiting l ->
  (r (snd (step s (Poll i))) = 0 <-> exists k, cs s l = Leading k) /\
  (r (snd (step s (Poll i))) = 0 ->
     woken (step_st s (Poll i)) i = true /\ cs (step_st s (Poll i)) i = Waiting l) /\
  (r (snd (step s (Poll i))) <> 0 -> cs (step_st s (Poll i)) i = Done).
Proof.
  intros s Hi. pose proof (inv_run evs) as H. fold s in H.
  destruct (p_wait _ _ _ _ _ H i l Hi) as (Hnc & _ & _).
  pose proof (p_open _ _ _ _ _ H l) as Hop.
  pose proof (poll_waiter s i l Hi) as Hp. cbv zeta in Hp.
  destruct (chan s l) as [| |o|] eqn:Ec; try congruence.
  - destruct Hp as (Hp & Hc & Hw). rewrite Hp. cbn. split; [|split].
    + split; [intros _; apply Hop; reflexivity|reflexivity].
    + intros _. split; assumption.
    + intros Hn. exfalso. apply Hn. reflexivity.
  - destruct Hp as (Hp & Hc). rewrite Hp. cbn. split; [|split].
    + split; [destruct o; discriminate|]. intros Hk. apply Hop in Hk. discriminate.
    + intros Hz. destruct o; discriminate.
    + intros _. exact Hc.
  - destruct Hp as (Hp & Hc). rewrite Hp. cbn. split; [|split].
    + split; [discriminate|]. intros Hk. apply Hop in Hk. discriminate.
    + discriminate.
    + intros _. exact Hc.
Qed.

(* ---------- non-vacuity ---------- *)
Example ex_share :
  let evs := [Call 0 7; Call 1 7; Call 2 7; Poll 1; Complete 0 OErr] in
  let s := run evs in
  cs s 0%nat = Leading 7 /\ cs s 1%nat = Waiting 0 /\ cs s 2%nat = Waiting 0 /\
  gate s 0%nat = Some OErr /\ inflight s = [0%nat] /\
  snd (step (run (evs ++ [Poll 0; Call 3 7; Poll 1])) (Poll 2)) = {| r := 2; val := 0 |} /\
  cs (run (evs ++ [Poll 0; Call 3 7])) 3%nat = Leading 7.
Proof. vm_compute. repeat split; reflexivity. Qed.

Example ex_leader_dropped :
  let evs := [Call 0 1; Call 1 1; Poll 1; Drop 0] in
  let s := run evs in
  cs s 1%nat = Waiting 0 /\ chan s 0%nat = Closed /\ inflight s = [] /\
  snd (step s (Poll 1)) = {| r := 3; val := -1 |} /\
  inflight (step_st s (Call 2 1)) = [2%nat].
Proof. vm_compute. repeat split; reflexivity. Qed.

Example ex_leader_panics :
  let s := run [Call 0 1; Call 1 1; Complete 0 OPanic; Poll 0] in
  chan s 0%nat = Closed /\ snd (step s (Poll 1)) = {| r := 3; val := -1 |}.
Proof. vm_compute. repeat split; reflexivity. Qed.

Example ex_two_keys :
  let s := run [Call 0 1; Call 1 2; Call 2 1; Call 3 2; Complete 1 OOk; Poll 1] in
  inflight s = [0%nat] /\ cs s 2%nat = Waiting 0 /\ cs s 3%nat = Waiting 1 /\
  snd (step s (Poll 3)) = {| r := 1; val := 1 |} /\ snd (step s (Poll 2)) = {| r := 0; val := -1 |}.
Proof. vm_compute. repeat split; reflexivity. Qed.
