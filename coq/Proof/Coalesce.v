(* Invariant of the coalesce model and the lemmas Props/C11.v uses. *)
From TR Require Import Lib.Base Model.Coalesce.

Lemma upd_same {A} (f : nat -> A) i v : upd f i v i = v.
Proof. unfold upd. rewrite Nat.eqb_refl. reflexivity. Qed.
Lemma upd_other {A} (f : nat -> A) i v j : j <> i -> upd f i v j = f j.
Proof. intros H. unfold upd. apply Nat.eqb_neq in H. rewrite H. reflexivity. Qed.
Arguments upd : simpl never.

(* ---------- the map ---------- *)
Lemma lookup_In_1 m k l : lookup k m = Some l -> In (k, l) m.
Proof.
  induction m as [|[k' l'] t IH]; cbn; [discriminate|].
  destruct (Nat.eqb_spec k' k) as [->|Hne]; intros H.
  - injection H as ->. left. reflexivity.
  - right. apply IH. exact H.
Qed.

Lemma lookup_None m k : lookup k m = None <-> ~ In k (List.map fst m).
Proof.
  induction m as [|[k' l'] t IH]; cbn.
  - split; [intros _ []|reflexivity].
  - destruct (Nat.eqb_spec k' k) as [->|Hne].
    + split; [discriminate|]. intros H. exfalso. apply H. left. reflexivity.
    + rewrite IH. split; intros H.
      * intros [Hc|Hc]; [exact (Hne Hc)|exact (H Hc)].
      * intros Hc. apply H. right. exact Hc.
Qed.

Lemma lookup_In_2 m k l : NoDup (List.map fst m) -> In (k, l) m -> lookup k m = Some l.
Proof.
  induction m as [|[k' l'] t IH]; cbn; intros Hnd Hin; [destruct Hin|].
  inversion Hnd as [|? ? Hk Ht]; subst.
  destruct (Nat.eqb_spec k' k) as [->|Hne].
  - destruct Hin as [Heq|Hin]; [congruence|].
    exfalso. apply Hk. apply (in_map fst) in Hin. exact Hin.
  - destruct Hin as [Heq|Hin]; [congruence|]. apply IH; assumption.
Qed.

Lemma in_remove_key k' l k m : In (k', l) (remove_key k m) <-> In (k', l) m /\ k' <> k.
Proof.
  unfold remove_key. rewrite filter_In. cbn. split; intros [H1 H2]; split; try exact H1.
  - intros ->. rewrite Nat.eqb_refl in H2. discriminate.
  - apply Bool.negb_true_iff. apply Nat.eqb_neq. exact H2.
Qed.

Lemma nodup_remove_key k m : NoDup (List.map fst m) -> NoDup (List.map fst (remove_key k m)).
Proof.
  induction m as [|[k' l'] t IH]; cbn; intros H; [constructor|].
  inversion H as [|? ? Hk Ht]; subst. destruct (negb (Nat.eqb k' k)); cbn.
  - constructor; [|apply IH; exact Ht]. intros Hin. apply Hk.
    apply in_map_iff in Hin. destruct Hin as [[a b] [Hf Hi]]. cbn in Hf. subst a.
    apply in_remove_key in Hi. destruct Hi as [Hi _]. apply (in_map fst) in Hi. exact Hi.
  - apply IH. exact Ht.
Qed.

Lemma remove_key_absent k m : ~ In k (List.map fst (remove_key k m)).
Proof.
  intros H. apply in_map_iff in H. destruct H as [[a b] [Hf Hi]]. cbn in Hf. subst a.
  apply in_remove_key in Hi. destruct Hi as [_ Hi]. apply Hi. reflexivity.
Qed.

Lemma remove_key_notin k m : lookup k m = None -> remove_key k m = m.
Proof.
  unfold remove_key. induction m as [|[k' l'] t IH]; cbn; [reflexivity|].
  destruct (Nat.eqb_spec k' k) as [->|Hne]; [discriminate|]. intros H. cbn. rewrite (IH H). reflexivity.
Qed.

Lemma remove_key_head k i m : remove_key k ((k, i) :: m) = remove_key k m.
Proof. unfold remove_key. cbn. rewrite Nat.eqb_refl. reflexivity. Qed.

Lemma in_remove_id j i l : In j (remove_id i l) <-> In j l /\ j <> i.
Proof.
  unfold remove_id. rewrite filter_In. split; intros [H1 H2]; split; try exact H1.
  - intros ->. rewrite Nat.eqb_refl in H2. discriminate.
  - apply Bool.negb_true_iff. apply Nat.eqb_neq. exact H2.
Qed.

Lemma nodup_remove_id i l : NoDup l -> NoDup (remove_id i l).
Proof. intros H. apply NoDup_filter. exact H. Qed.

Lemma nodup_snoc (l : list nat) x : NoDup l -> ~ In x l -> NoDup (l ++ [x]).
Proof.
  induction l as [|y t IH]; intros H Hx; cbn.
  - constructor; [intros []|constructor].
  - inversion H as [|? ? Hy Ht]; subst. constructor.
    + rewrite in_app_iff. intros [Hin|[->|[]]]; [exact (Hy Hin)|].
      apply Hx. left. reflexivity.
    + apply IH; [exact Ht|]. intros Hin. apply Hx. right. exact Hin.
Qed.

Arguments remove_id : simpl never.
Arguments remove_key : simpl never.
Arguments lookup : simpl never.

(* ---------- the invariant, over the components it talks about ---------- *)
Record P (cs : nat -> cst) (m : list (nat * nat)) (ch : nat -> chst) (fl : list nat)
         (ck : nat -> option nat) : Prop := {
  p_nd : NoDup (List.map fst m);
  p_map : forall k l, In (k, l) m <-> cs l = Leading k;
  p_open : forall l, ch l = Open <-> exists k, cs l = Leading k;
  p_fl : forall i, In i fl <-> exists k, cs i = Leading k;
  p_flnd : NoDup fl;
  p_wait : forall i l, cs i = Waiting l -> ch l <> NoChan /\ ck i = ck l /\ exists k, ck i = Some k;
  p_lead : forall i k, cs i = Leading k -> ck i = Some k;
  p_idle : forall i, cs i = Idle -> ch i = NoChan;
  p_sent : forall l o, ch l = Sent o -> o <> OPanic /\ cs l = Done;
  p_closed : forall l, ch l = Closed -> cs l = Done \/ cs l = Dropped
}.

Definition Inv (s : st) : Prop := P (cs s) (reqs s) (chan s) (inflight s) (ckey s).

Lemma P_init b : Inv (init_b b).
Proof.
  constructor; cbn; try (constructor; fail); try discriminate.
  - intros k l. split; [intros []|discriminate].
  - intros l. split; [discriminate|intros [k H]; discriminate].
  - intros i. split; [intros []|intros [k H]; discriminate].
Qed.

Ltac cases_on x i :=
  destruct (Nat.eq_dec x i) as [->|?];
  [rewrite ?upd_same in * | rewrite ?upd_other in * by assumption].

(* call(): the key is in the map - the caller becomes a waiter on the leader's channel *)
Lemma P_waiter cs m ch fl ck i l k :
  P cs m ch fl ck -> cs i = Idle -> cs l = Leading k ->
  P (upd cs i (Waiting l)) m ch fl (upd ck i (Some k)).
Proof.
  intros [Hnd Hmap Hopen Hfl Hflnd Hwait Hlead Hidle Hsent Hclosed] Hi Hl.
  assert (Hli : l <> i) by (intros ->; congruence).
  assert (Hchi : ch i = NoChan) by (apply Hidle; exact Hi).
  constructor.
  - exact Hnd.
  - intros k0 l0. rewrite Hmap. cases_on l0 i; [|tauto]. split; congruence.
  - intros l0. rewrite Hopen. cases_on l0 i; [|tauto].
    split; intros [k0 H]; congruence.
  - intros j. rewrite Hfl. cases_on j i; [|tauto]. split; intros [k0 H]; congruence.
  - exact Hflnd.
  - intros j l0. cases_on j i.
    + intros H. injection H as <-. rewrite upd_other by exact Hli.
      rewrite (Hlead l k Hl). repeat split; [|eexists; reflexivity].
      intros Hc. assert (ch l = Open) by (apply Hopen; eexists; exact Hl). congruence.
    + intros H. destruct (Hwait j l0 H) as (H1 & H2 & H3).
      assert (l0 <> i) by (intros ->; congruence).
      rewrite upd_other by assumption. auto.
  - intros j k0. cases_on j i; [discriminate|]. apply Hlead.
  - intros j. cases_on j i; [discriminate|]. apply Hidle.
  - intros l0 o H. destruct (Hsent l0 o H) as [H1 H2]. split; [exact H1|].
    cases_on l0 i; [congruence|exact H2].
  - intros l0 H. cases_on l0 i; [congruence|]. apply Hclosed. exact H.
Qed.

(* call(): the key is free - the caller becomes the leader and calls the inner service *)
Lemma P_leader cs m ch fl ck i k :
  P cs m ch fl ck -> cs i = Idle -> (forall l, cs l <> Leading k) ->
  P (upd cs i (Leading k)) ((k, i) :: m) (upd ch i Open) (fl ++ [i]) (upd ck i (Some k)).
Proof.
  intros [Hnd Hmap Hopen Hfl Hflnd Hwait Hlead Hidle Hsent Hclosed] Hi Hfree.
  assert (Hchi : ch i = NoChan) by (apply Hidle; exact Hi).
  constructor.
  - cbn. constructor; [|exact Hnd]. intros Hin. apply in_map_iff in Hin.
    destruct Hin as [[a b] [Hf Hin]]. cbn in Hf. subst a. apply Hmap in Hin. exact (Hfree b Hin).
  - intros k0 l0. cbn. rewrite Hmap. cases_on l0 i.
    + split; [intros [H|H]; congruence|]. intros H. left. congruence.
    + split; [intros [H|H]; congruence|]. intros H. right. exact H.
  - intros l0. cases_on l0 i.
    + split; [eexists; reflexivity|reflexivity].
    + apply Hopen.
  - intros j. rewrite in_app_iff. cbn. rewrite Hfl. cases_on j i.
    + split; [eexists; reflexivity|]. intros _. right. left. reflexivity.
    + split; [intros [H|[H|[]]]; congruence|]. intros H. left. exact H.
  - apply nodup_snoc; [exact Hflnd|]. rewrite Hfl. intros [k0 H]. congruence.
  - intros j l0. cases_on j i; [discriminate|]. intros H.
    destruct (Hwait j l0 H) as (H1 & H2 & H3).
    assert (l0 <> i) by (intros ->; congruence).
    rewrite !upd_other by assumption. auto.
  - intros j k0. cases_on j i; [congruence|]. apply Hlead.
  - intros j. cases_on j i; [discriminate|]. apply Hidle.
  - intros l0 o. cases_on l0 i; [discriminate|]. apply Hsent.
  - intros l0. cases_on l0 i; [discriminate|]. apply Hclosed.
Qed.

(* the leader's key entry is removed: InFlight::complete (message) or InFlight::cancel (none) *)
Lemma P_leader_end cs m ch fl ck i k c' chv :
  P cs m ch fl ck -> cs i = Leading k ->
  ((exists o, chv = Sent o /\ o <> OPanic /\ c' = Done) \/
   (chv = Closed /\ (c' = Done \/ c' = Dropped))) ->
  P (upd cs i c') (remove_key k m) (upd ch i chv) (remove_id i fl) ck.
Proof.
  intros [Hnd Hmap Hopen Hfl Hflnd Hwait Hlead Hidle Hsent Hclosed] Hi Hend.
  assert (Hc' : c' = Done \/ c' = Dropped) by (destruct Hend as [(o&_&_&->)|[_ H]]; auto).
  assert (Hchv : chv <> Open /\ chv <> NoChan)
    by (destruct Hend as [(o&->&_&_)|[-> _]]; split; discriminate).
  assert (Huniq : forall l, cs l = Leading k -> l = i).
  { intros l Hl. apply Hmap in Hl. apply Hmap in Hi.
    apply (lookup_In_2 _ _ _ Hnd) in Hl. apply (lookup_In_2 _ _ _ Hnd) in Hi. congruence. }
  constructor.
  - apply nodup_remove_key. exact Hnd.
  - intros k0 l0. rewrite in_remove_key, Hmap. cases_on l0 i.
    + split; [intros [H1 H2]; congruence|]. destruct Hc'; congruence.
    + split; [tauto|]. intros H. split; [exact H|]. intros ->. apply Huniq in H. congruence.
  - intros l0. cases_on l0 i.
    + split; [intros H; destruct Hchv; congruence|]. intros [k0 H]. destruct Hc'; congruence.
    + apply Hopen.
  - intros j. rewrite in_remove_id, Hfl. cases_on j i.
    + split; [tauto|]. intros [k0 H]. destruct Hc'; congruence.
    + tauto.
  - apply nodup_remove_id. exact Hflnd.
  - intros j l0. cases_on j i; [destruct Hc'; congruence|]. intros H.
    destruct (Hwait j l0 H) as (H1 & H2 & H3). repeat split; try assumption.
    cases_on l0 i; [apply Hchv|exact H1].
  - intros j k0. cases_on j i; [destruct Hc'; congruence|]. apply Hlead.
  - intros j. cases_on j i; [destruct Hc'; congruence|]. apply Hidle.
  - intros l0 o. cases_on l0 i.
    + intros ->. destruct Hend as [(o'&Ho&Hp&->)|[Ho _]]; [|discriminate].
      injection Ho as <-. auto.
    + apply Hsent.
  - intros l0. cases_on l0 i; [intros _; exact Hc'|]. apply Hclosed.
Qed.

(* a waiter resolves or is dropped *)
Lemma P_waiter_end cs m ch fl ck i l c' :
  P cs m ch fl ck -> cs i = Waiting l -> (c' = Done \/ c' = Dropped) ->
  P (upd cs i c') m ch fl ck.
Proof.
  intros [Hnd Hmap Hopen Hfl Hflnd Hwait Hlead Hidle Hsent Hclosed] Hi Hc'.
  constructor.
  - exact Hnd.
  - intros k0 l0. rewrite Hmap. cases_on l0 i; [|tauto]. split; destruct Hc'; congruence.
  - intros l0. rewrite Hopen. cases_on l0 i; [|tauto].
    split; intros [k0 H]; destruct Hc'; congruence.
  - intros j. rewrite Hfl. cases_on j i; [|tauto]. split; intros [k0 H]; destruct Hc'; congruence.
  - exact Hflnd.
  - intros j l0. cases_on j i; [destruct Hc'; congruence|]. apply Hwait.
  - intros j k0. cases_on j i; [destruct Hc'; congruence|]. apply Hlead.
  - intros j. cases_on j i; [destruct Hc'; congruence|]. apply Hidle.
  - intros l0 o H. destruct (Hsent l0 o H) as [H1 H2]. split; [exact H1|].
    cases_on l0 i; [congruence|exact H2].
  - intros l0 H. cases_on l0 i; [exact Hc'|]. apply Hclosed. exact H.
Qed.

(* call() of a would-be leader whose inner.call() panics: registered and released again *)
Lemma P_call_panic cs m ch fl ck i k :
  P cs m ch fl ck -> cs i = Idle ->
  P (upd cs i Done) m (upd ch i Closed) fl (upd ck i (Some k)).
Proof.
  intros [Hnd Hmap Hopen Hfl Hflnd Hwait Hlead Hidle Hsent Hclosed] Hi.
  assert (Hchi : ch i = NoChan) by (apply Hidle; exact Hi).
  constructor.
  - exact Hnd.
  - intros k0 l0. rewrite Hmap. cases_on l0 i; [|tauto]. split; congruence.
  - intros l0. cases_on l0 i.
    + split; [discriminate|intros [k0 H]; discriminate].
    + apply Hopen.
  - intros j. rewrite Hfl. cases_on j i; [|tauto]. split; intros [k0 H]; congruence.
  - exact Hflnd.
  - intros j l0. cases_on j i; [discriminate|]. intros H.
    destruct (Hwait j l0 H) as (H1 & H2 & H3).
    assert (l0 <> i) by (intros ->; congruence).
    rewrite !upd_other by assumption. auto.
  - intros j k0. cases_on j i; [discriminate|]. apply Hlead.
  - intros j. cases_on j i; [discriminate|]. apply Hidle.
  - intros l0 o. cases_on l0 i; [discriminate|]. apply Hsent.
  - intros l0. cases_on l0 i; [intros _; left; reflexivity|]. apply Hclosed.
Qed.

(* call() of a would-be waiter that unwinds before it returns (recorder panic): nothing is left *)
Lemma P_call_unwound cs m ch fl ck i k :
  P cs m ch fl ck -> cs i = Idle ->
  P (upd cs i Done) m ch fl (upd ck i (Some k)).
Proof.
  intros [Hnd Hmap Hopen Hfl Hflnd Hwait Hlead Hidle Hsent Hclosed] Hi.
  assert (Hchi : ch i = NoChan) by (apply Hidle; exact Hi).
  constructor.
  - exact Hnd.
  - intros k0 l0. rewrite Hmap. cases_on l0 i; [|tauto]. split; congruence.
  - intros l0. rewrite Hopen. cases_on l0 i; [|tauto]. split; intros [k0 H]; congruence.
  - intros j. rewrite Hfl. cases_on j i; [|tauto]. split; intros [k0 H]; congruence.
  - exact Hflnd.
  - intros j l0. cases_on j i; [discriminate|]. intros H.
    destruct (Hwait j l0 H) as (H1 & H2 & H3).
    assert (l0 <> i) by (intros ->; congruence).
    rewrite !upd_other by assumption. auto.
  - intros j k0. cases_on j i; [discriminate|]. apply Hlead.
  - intros j. cases_on j i; [discriminate|]. apply Hidle.
  - intros l0 o H. destruct (Hsent l0 o H) as [H1 H2]. split; [exact H1|].
    cases_on l0 i; [congruence|exact H2].
  - intros l0 H. cases_on l0 i; [congruence|]. apply Hclosed. exact H.
Qed.

Lemma lookup_leader s k l : Inv s -> (lookup k (reqs s) = Some l <-> cs s l = Leading k).
Proof.
  intros H. rewrite <- (p_map _ _ _ _ _ H). split.
  - apply lookup_In_1.
  - apply lookup_In_2. apply (p_nd _ _ _ _ _ H).
Qed.

Lemma lookup_free s k : Inv s -> (lookup k (reqs s) = None <-> forall l, cs s l <> Leading k).
Proof.
  intros H. split.
  - intros Hn l Hl. apply (lookup_leader s k l H) in Hl. congruence.
  - intros Hf. destruct (lookup k (reqs s)) as [l|] eqn:E; [|reflexivity].
    apply (lookup_leader s k l H) in E. exfalso. exact (Hf l E).
Qed.


Arguments wake_waiters : simpl never.

Lemma inv_step s e : Inv s -> Inv (step_st s e).
Proof.
  intros H. unfold step_st. destruct e as [i k|i|i|i o|i k|i|i k|d]; cbn [step fst].
  - unfold call. destruct (cs s i) eqn:Ei; try exact H.
    destruct (lookup k (reqs s)) as [l|] eqn:El; unfold Inv; cbn.
    + apply P_waiter; [exact H|exact Ei|]. apply lookup_leader; assumption.
    + apply P_leader; [exact H|exact Ei|]. apply lookup_free; assumption.
  - unfold poll. cbn. destruct (cs s i) as [|k|l| |] eqn:Ei; cbn [fst]; try exact H.
    + assert (Hlk : lookup k (reqs s) = Some i) by (apply lookup_leader; assumption).
      destruct (gate s i) as [[]|] eqn:Eg; try destruct (bomb s i) eqn:Eb; cbn [fst]; try exact H;
        unfold close_key; cbn; rewrite Hlk; unfold Inv; cbn;
        (apply (P_leader_end _ _ _ _ _ i k); [exact H|exact Ei|]);
        first [right; split; [reflexivity|auto] | left; eexists; repeat split; discriminate].
    + destruct (chan s l) eqn:Ec; try destruct (bomb s l) eqn:Eb; cbn [fst]; try exact H; unfold Inv; cbn;
        apply (P_waiter_end _ _ _ _ _ i l); auto.
  - unfold drop. cbn. destruct (cs s i) as [|k|l| |] eqn:Ei; try exact H.
    + assert (Hlk : lookup k (reqs s) = Some i) by (apply lookup_leader; assumption).
      unfold close_key; cbn; rewrite Hlk; unfold Inv; cbn.
      apply (P_leader_end _ _ _ _ _ i k); [exact H|exact Ei|]. right. auto.
    + unfold Inv; cbn. apply (P_waiter_end _ _ _ _ _ i l); auto.
  - unfold complete. destruct (gate s i); exact H.
  - unfold call_panic. destruct (cs s i) eqn:Ei; try exact H.
    destruct (lookup k (reqs s)) as [l|] eqn:El; cbn [fst].
    + unfold call. rewrite Ei, El. unfold Inv; cbn.
      apply P_waiter; [exact H|exact Ei|]. apply lookup_leader; assumption.
    + unfold Inv; cbn. rewrite remove_key_head, (remove_key_notin _ _ El).
      apply P_call_panic; [exact H|exact Ei].
  - exact H.
  - unfold call_panic_rec. destruct (cs s i) eqn:Ei; try exact H.
    destruct (lookup k (reqs s)) as [l|] eqn:El; cbn [fst]; unfold Inv; cbn.
    + apply P_call_unwound; [exact H|exact Ei].
    + rewrite remove_key_head, (remove_key_notin _ _ El). apply P_call_panic; [exact H|exact Ei].
  - exact H.
Qed.

Lemma inv_run_b b evs : Inv (run_b b evs).
Proof. unfold run_b. apply fold_left_inv; [apply P_init|intros; apply inv_step; assumption]. Qed.

Lemma inv_fold evs s : Inv s -> Inv (fold_left step_st evs s).
Proof. intros H. apply fold_left_inv; [exact H|intros; apply inv_step; assumption]. Qed.

Lemma run_b_app b evs1 evs2 : run_b b (evs1 ++ evs2) = fold_left step_st evs2 (run_b b evs1).
Proof. unfold run_b. apply fold_left_app. Qed.

(* ---------- what an event can touch ---------- *)
Definition subject (e : ev) : nat :=
  match e with
  | Call i _ | Poll i | Drop i | Complete i _ | CallPanic i _ | Arm i | CallPanicRec i _ => i
  | Advance _ => 0%nat
  end.

Lemma close_key_cs s k m : cs (close_key s k m) = cs s.
Proof. unfold close_key. destruct (lookup k (reqs s)); reflexivity. Qed.

Lemma cs_other s e j : subject e <> j -> cs (step_st s e) j = cs s j.
Proof.
  intros Hne. assert (Hj : j <> subject e) by congruence. clear Hne.
  unfold step_st. destruct e as [i k|i|i|i o|i k|i|i k|d]; cbn [step fst subject] in *.
  - unfold call. destruct (cs s i); try reflexivity.
    destruct (lookup k (reqs s)); cbn; apply upd_other; assumption.
  - unfold poll. cbn. destruct (cs s i) as [|k|l| |]; cbn [fst]; try reflexivity.
    + destruct (gate s i) as [[]|]; try destruct (bomb s i); cbn [fst cs]; try reflexivity;
        rewrite upd_other by assumption; rewrite close_key_cs; reflexivity.
    + destruct (chan s l); try destruct (bomb s l); cbn [fst cs]; try reflexivity; apply upd_other; assumption.
  - unfold drop. cbn. destruct (cs s i) as [|k|l| |]; try reflexivity; cbn [cs].
    + rewrite upd_other by assumption. rewrite close_key_cs. reflexivity.
    + apply upd_other; assumption.
  - unfold complete. destruct (gate s i); reflexivity.
  - unfold call_panic. destruct (cs s i); try reflexivity.
    destruct (lookup k (reqs s)); cbn [fst].
    + unfold call. destruct (cs s i); try reflexivity.
      destruct (lookup k (reqs s)); cbn; apply upd_other; assumption.
    + cbn. apply upd_other; assumption.
  - reflexivity.
  - unfold call_panic_rec. destruct (cs s i); try reflexivity.
    destruct (lookup k (reqs s)); cbn; apply upd_other; assumption.
  - reflexivity.
Qed.

Lemma busy_step s e : busy (step_st s e) = busy s.
Proof.
  unfold step_st. destruct e as [i k|i|i|i o|i k|i|i k|d]; cbn [step fst].
  - unfold call. destruct (cs s i); try reflexivity. destruct (lookup k (reqs s)); reflexivity.
  - unfold poll. cbn. destruct (cs s i) as [|k|l| |]; cbn [fst]; try reflexivity.
    + destruct (gate s i) as [[]|]; try destruct (bomb s i); cbn [fst busy]; try reflexivity;
        unfold close_key; cbn; destruct (lookup k (reqs s)); reflexivity.
    + destruct (chan s l); try destruct (bomb s l); reflexivity.
  - unfold drop. cbn. destruct (cs s i) as [|k|l| |]; try reflexivity; cbn [busy].
    unfold close_key; cbn; destruct (lookup k (reqs s)); reflexivity.
  - unfold complete. destruct (gate s i); reflexivity.
  - unfold call_panic. destruct (cs s i); try reflexivity.
    destruct (lookup k (reqs s)); cbn [fst]; [|reflexivity].
    unfold call. destruct (cs s i); try reflexivity. destruct (lookup k (reqs s)); reflexivity.
  - reflexivity.
  - unfold call_panic_rec. destruct (cs s i); try reflexivity. destruct (lookup k (reqs s)); reflexivity.
  - reflexivity.
Qed.

Lemma busy_run_b b evs : busy (run_b b evs) = b.
Proof.
  unfold run_b. apply (fold_left_inv step_st (fun s => busy s = b)); [reflexivity|].
  intros s e H. rewrite busy_step. exact H.
Qed.

(* ---------- C11 clause 1: one inner call per key ---------- *)
Definition leads (s : st) (k : nat) (i : nat) : bool :=
  match cs s i with Leading k' => Nat.eqb k' k | _ => false end.

Lemma filter_le1 {A} (f : A -> bool) (l : list A) :
  NoDup l -> (forall x y, In x l -> In y l -> f x = true -> f y = true -> x = y) ->
  (length (filter f l) <= 1)%nat.
Proof.
  induction l as [|a t IH]; intros Hnd Hu; cbn; [lia|].
  inversion Hnd as [|? ? Ha Ht]; subst.
  destruct (f a) eqn:Ea; cbn.
  - assert (filter f t = []) as ->; [|cbn; lia].
    destruct (filter f t) as [|b t'] eqn:Ef; [reflexivity|]. exfalso.
    assert (Hb : In b (filter f t)) by (rewrite Ef; left; reflexivity).
    apply filter_In in Hb. destruct Hb as [Hb1 Hb2].
    assert (a = b) by (apply Hu; [left; reflexivity|right; exact Hb1|exact Ea|exact Hb2]).
    subst. exact (Ha Hb1).
  - apply IH; [exact Ht|]. intros x y Hx Hy. apply Hu; right; assumption.
Qed.

Lemma one_per_key b evs :
  let s := run_b b evs in
  NoDup (inflight s) /\
  (forall i, In i (inflight s) <-> exists k, cs s i = Leading k) /\
  (forall i j k, cs s i = Leading k -> cs s j = Leading k -> i = j) /\
  (forall k, (length (filter (leads s k) (inflight s)) <= 1)%nat).
Proof.
  intros s. pose proof (inv_run_b b evs) as H. fold s in H.
  assert (Hu : forall i j k, cs s i = Leading k -> cs s j = Leading k -> i = j).
  { intros i j k Hi Hj. apply (lookup_leader s k i H) in Hi. apply (lookup_leader s k j H) in Hj. congruence. }
  repeat split.
  - apply (p_flnd _ _ _ _ _ H).
  - apply (p_fl _ _ _ _ _ H).
  - apply (p_fl _ _ _ _ _ H).
  - exact Hu.
  - intros k. apply filter_le1; [apply (p_flnd _ _ _ _ _ H)|].
    intros x y _ _ Hx Hy. unfold leads in Hx, Hy.
    destruct (cs s x) as [|kx| | |] eqn:Ex; try discriminate.
    destruct (cs s y) as [|ky| | |] eqn:Ey; try discriminate.
    apply Nat.eqb_eq in Hx, Hy. subst. exact (Hu x y k Ex Ey).
Qed.

Lemma map_entry_is_leader b evs k l :
  lookup k (reqs (run_b b evs)) = Some l <-> cs (run_b b evs) l = Leading k.
Proof. apply lookup_leader. apply inv_run_b. Qed.

(* ---------- single steps ---------- *)
Lemma call_waiter s i l k :
  Inv s -> cs s i = Idle -> cs s l = Leading k ->
  cs (step_st s (Call i k)) i = Waiting l /\ inflight (step_st s (Call i k)) = inflight s /\
  reqs (step_st s (Call i k)) = reqs s /\ chan (step_st s (Call i k)) = chan s.
Proof.
  intros H Hi Hl. unfold step_st. cbn [step fst]. unfold call. rewrite Hi.
  apply (lookup_leader s k l H) in Hl. rewrite Hl. cbn. rewrite upd_same. auto.
Qed.

Lemma call_leader s i k :
  Inv s -> cs s i = Idle -> (forall l, cs s l <> Leading k) ->
  cs (step_st s (Call i k)) i = Leading k /\
  inflight (step_st s (Call i k)) = inflight s ++ [i] /\
  chan (step_st s (Call i k)) i = Open.
Proof.
  intros H Hi Hf. unfold step_st. cbn [step fst]. unfold call. rewrite Hi.
  apply (lookup_free s k H) in Hf. rewrite Hf. cbn. rewrite !upd_same. auto.
Qed.

Lemma poll_leader_finish s l k o :
  Inv s -> cs s l = Leading k -> gate s l = Some o -> o <> OPanic -> bomb s l = false ->
  let s' := step_st s (Poll l) in
  snd (step s (Poll l)) = {| r := code o; val := Z.of_nat l |} /\
  chan s' l = Sent o /\ cs s' l = Done /\ lookup k (reqs s') = None /\ ~ In l (inflight s') /\
  bomb s' = bomb s.
Proof.
  intros H Hl Hg Ho Hb s'. unfold s', step_st. cbn [step]. unfold poll. cbn. rewrite Hl, Hg, Hb.
  assert (Hlk : lookup k (reqs s) = Some l) by (apply lookup_leader; assumption).
  destruct o; [| |congruence]; unfold close_key; cbn; rewrite Hlk; cbn; rewrite !upd_same;
    (repeat split; [apply lookup_None; apply remove_key_absent|
                    rewrite in_remove_id; intros [_ Hc]; apply Hc; reflexivity]).
Qed.

Definition leader_fails (s : st) (l : nat) (e : ev) : Prop :=
  e = Drop l \/ (e = Poll l /\ gate s l = Some OPanic) \/
  (e = Poll l /\ gate s l <> None /\ bomb s l = true).

Lemma leader_gone_step s l k e :
  Inv s -> cs s l = Leading k -> leader_fails s l e ->
  let s' := step_st s e in
  chan s' l = Closed /\ (cs s' l = Done \/ cs s' l = Dropped) /\
  lookup k (reqs s') = None /\ ~ In l (inflight s') /\
  (forall i, i <> l -> cs s' i = cs s i) /\
  (e = Poll l -> r (snd (step s e)) = 5).
Proof.
  intros H Hl He s'. unfold s', step_st.
  assert (Hlk : lookup k (reqs s) = Some l) by (apply lookup_leader; assumption).
  assert (Hfin : forall m, lookup k (remove_key k m) = None)
    by (intros m; apply lookup_None; apply remove_key_absent).
  assert (Hnin : forall fl, ~ In l (remove_id l fl))
    by (intros fl; rewrite in_remove_id; intros [_ Hc]; apply Hc; reflexivity).
  destruct He as [->|[[-> Hg]|[-> [Hg Hb]]]]; cbn [step fst].
  - unfold drop. cbn. rewrite Hl. unfold close_key; cbn; rewrite Hlk; cbn. rewrite !upd_same.
    repeat split; auto.
    + intros i Hi. apply upd_other. exact Hi.
    + discriminate.
  - unfold poll. cbn. rewrite Hl, Hg. unfold close_key; cbn; rewrite Hlk; cbn. rewrite !upd_same.
    repeat split; auto.
    intros i Hi. apply upd_other. exact Hi.
  - unfold poll. cbn. rewrite Hl, Hb. destruct (gate s l) as [[]|]; [| | |congruence];
      unfold close_key; cbn; rewrite Hlk; cbn; rewrite !upd_same;
      (repeat split; auto; intros i Hi; apply upd_other; exact Hi).
Qed.

Lemma poll_waiter s i l :
  cs s i = Waiting l ->
  let s' := step_st s (Poll i) in
  match chan s l with
  | Sent o =>
    if bomb s l
    then snd (step s (Poll i)) = {| r := 5; val := -1 |} /\ cs s' i = Done /\ bomb s' l = false
    else snd (step s (Poll i)) = {| r := code o; val := Z.of_nat l |} /\ cs s' i = Done /\ bomb s' l = false
  | Closed => snd (step s (Poll i)) = {| r := 3; val := -1 |} /\ cs s' i = Done
  | _ => snd (step s (Poll i)) = {| r := 0; val := -1 |} /\ cs s' i = Waiting l /\
         polled s' i = true /\ (busy s = true -> woken s' i = true)
  end.
Proof.
  intros Hi s'. unfold s', step_st. cbn [step]. unfold poll. cbn. rewrite Hi.
  destruct (chan s l); try destruct (bomb s l) eqn:Eb; cbn; rewrite ?upd_same; auto;
    repeat split; auto; intros ->; apply upd_same.
Qed.

(* only l's own call/poll/drop touch the channel created by l *)
Lemma chan_frame s e l :
  Inv s -> e <> Poll l -> e <> Drop l -> (forall k, e <> Call l k) -> (forall k, e <> CallPanic l k) ->
  (forall k, e <> CallPanicRec l k) ->
  chan (step_st s e) l = chan s l.
Proof.
  intros H Hp Hd Hc Hcp Hcr. unfold step_st. destruct e as [i k|i|i|i o|i k|i|i k|d]; cbn [step fst].
  - unfold call. destruct (cs s i) eqn:Ei; try reflexivity.
    destruct (lookup k (reqs s)); cbn; [reflexivity|].
    apply upd_other. intros ->. exact (Hc k eq_refl).
  - assert (l <> i) by congruence.
    unfold poll. cbn. destruct (cs s i) as [|k|l'| |] eqn:Ei; cbn [fst]; try reflexivity.
    + assert (Hlk : lookup k (reqs s) = Some i) by (apply lookup_leader; assumption).
      destruct (gate s i) as [[]|]; try destruct (bomb s i); cbn [fst]; try reflexivity;
        unfold close_key; cbn; rewrite Hlk; cbn; apply upd_other; assumption.
    + destruct (chan s l'); try destruct (bomb s l'); reflexivity.
  - assert (l <> i) by congruence.
    unfold drop. cbn. destruct (cs s i) as [|k|l'| |] eqn:Ei; try reflexivity.
    assert (Hlk : lookup k (reqs s) = Some i) by (apply lookup_leader; assumption).
    unfold close_key; cbn; rewrite Hlk; cbn; apply upd_other; assumption.
  - unfold complete. destruct (gate s i); reflexivity.
  - unfold call_panic. destruct (cs s i) eqn:Ei; try reflexivity.
    destruct (lookup k (reqs s)) eqn:El; cbn [fst].
    + unfold call. rewrite Ei, El. reflexivity.
    + cbn. apply upd_other. intros ->. exact (Hcp k eq_refl).
  - reflexivity.
  - unfold call_panic_rec. destruct (cs s i) eqn:Ei; try reflexivity.
    destruct (lookup k (reqs s)) eqn:El; cbn [fst]; [reflexivity|].
    cbn. apply upd_other. intros ->. exact (Hcr k eq_refl).
  - reflexivity.
Qed.

(* a caller that is Done/Dropped is changed by nothing, and neither is its channel *)
Lemma finished_frozen s e l :
  Inv s -> (cs s l = Done \/ cs s l = Dropped) ->
  chan (step_st s e) l = chan s l /\ cs (step_st s e) l = cs s l.
Proof.
  intros H Hl.
  destruct (Nat.eq_dec (subject e) l) as [He|He].
  - unfold step_st. destruct e as [i k|i|i|i o|i k|i|i k|d]; cbn [subject] in He; try subst i; cbn [step fst].
    + unfold call. destruct Hl as [Hl|Hl]; rewrite Hl; auto.
    + unfold poll. cbn. destruct Hl as [Hl|Hl]; rewrite Hl; auto.
    + unfold drop. cbn. destruct Hl as [Hl|Hl]; rewrite Hl; auto.
    + unfold complete. destruct (gate s l); auto.
    + unfold call_panic. destruct Hl as [Hl|Hl]; rewrite Hl; auto.
    + auto.
    + unfold call_panic_rec. destruct Hl as [Hl|Hl]; rewrite Hl; auto.
    + auto.
  - split; [|apply cs_other; exact He].
    apply chan_frame; try exact H; intros; intros ->; apply He; reflexivity.
Qed.

Lemma frozen_run evs s l :
  Inv s -> (cs s l = Done \/ cs s l = Dropped) ->
  chan (fold_left step_st evs s) l = chan s l /\ Inv (fold_left step_st evs s).
Proof.
  revert s. induction evs as [|e t IH]; intros s H Hl; cbn [fold_left]; [auto|].
  destruct (finished_frozen s e l H Hl) as [Hc Hs].
  destruct (IH (step_st s e)) as [Hc2 Hi2].
  - apply inv_step. exact H.
  - rewrite Hs. exact Hl.
  - split; [congruence|exact Hi2].
Qed.

Lemma waiter_frame s e i l :
  cs s i = Waiting l -> e <> Poll i -> e <> Drop i -> cs (step_st s e) i = Waiting l.
Proof.
  intros Hi Hp Hd.
  destruct (Nat.eq_dec (subject e) i) as [He|He]; [|rewrite cs_other by exact He; exact Hi].
  unfold step_st. destruct e as [j k|j|j|j o|j k|j|j k|d]; cbn [subject] in He; try subst j; cbn [step fst];
    try congruence.
  - unfold call. rewrite Hi. exact Hi.
  - unfold complete. destruct (gate s i); exact Hi.
  - unfold call_panic. rewrite Hi. exact Hi.
  - exact Hi.
  - unfold call_panic_rec. rewrite Hi. exact Hi.
Qed.

Lemma waiter_run evs s i l :
  cs s i = Waiting l -> (forall e, In e evs -> e <> Poll i /\ e <> Drop i) ->
  cs (fold_left step_st evs s) i = Waiting l.
Proof.
  revert s. induction evs as [|e t IH]; intros s Hi Hq; cbn [fold_left]; [exact Hi|].
  apply IH.
  - destruct (Hq e (or_introl eq_refl)). apply waiter_frame; assumption.
  - intros e' Hin. apply Hq. right. exact Hin.
Qed.

(* an armed Clone panic comes only from Arm *)
Lemma bomb_frame s e l : e <> Arm l -> bomb s l = false -> bomb (step_st s e) l = false.
Proof.
  intros Ha Hb. unfold step_st. destruct e as [i k|i|i|i o|i k|i|i k|d]; cbn [step fst].
  - unfold call. destruct (cs s i); try exact Hb. destruct (lookup k (reqs s)); exact Hb.
  - unfold poll. cbn. destruct (cs s i) as [|k|l'| |]; cbn [fst]; try exact Hb.
    + destruct (gate s i) as [[]|]; try destruct (bomb s i) eqn:Eb; cbn [fst bomb]; try exact Hb;
        unfold close_key; cbn; destruct (lookup k (reqs s)); cbn; try exact Hb;
        (destruct (Nat.eq_dec l i) as [->|Hn]; [apply upd_same|rewrite upd_other by exact Hn; exact Hb]).
    + destruct (chan s l'); try destruct (bomb s l') eqn:Eb; cbn [fst bomb]; try exact Hb.
      destruct (Nat.eq_dec l l') as [->|Hn]; [apply upd_same|rewrite upd_other by exact Hn; exact Hb].
  - unfold drop. cbn. destruct (cs s i) as [|k|l'| |]; try exact Hb; cbn [bomb].
    unfold close_key; cbn; destruct (lookup k (reqs s)); exact Hb.
  - unfold complete. destruct (gate s i); exact Hb.
  - unfold call_panic. destruct (cs s i); try exact Hb.
    destruct (lookup k (reqs s)); cbn [fst]; [|exact Hb].
    unfold call. destruct (cs s i); try exact Hb. destruct (lookup k (reqs s)); exact Hb.
  - cbn. rewrite upd_other; [exact Hb|]. intros ->. apply Ha. reflexivity.
  - unfold call_panic_rec. destruct (cs s i); try exact Hb. destruct (lookup k (reqs s)); exact Hb.
  - exact Hb.
Qed.

Lemma bomb_run evs s l :
  (forall e, In e evs -> e <> Arm l) -> bomb s l = false -> bomb (fold_left step_st evs s) l = false.
Proof.
  revert s. induction evs as [|e t IH]; intros s Hq Hb; cbn [fold_left]; [exact Hb|].
  apply IH.
  - intros e' Hin. apply Hq. right. exact Hin.
  - apply bomb_frame; [apply Hq; left; reflexivity|exact Hb].
Qed.

Lemma ev_eq_poll_drop e i : {e = Poll i} + {e = Drop i} + {e <> Poll i /\ e <> Drop i}.
Proof.
  destruct e as [j k|j|j|j o|j k|j|j k|d]; try (right; split; discriminate).
  - destruct (Nat.eq_dec j i) as [->|Hn]; [left; left; reflexivity|right; split; congruence].
  - destruct (Nat.eq_dec j i) as [->|Hn]; [left; right; reflexivity|right; split; congruence].
Qed.

Lemma cs_finished s e l : (cs s l = Done \/ cs s l = Dropped) -> cs (step_st s e) l = cs s l.
Proof.
  intros Hl.
  destruct (Nat.eq_dec (subject e) l) as [He|He]; [|apply cs_other; exact He].
  unfold step_st. destruct e as [i k|i|i|i o|i k|i|i k|d]; cbn [subject] in He; try subst i; cbn [step fst].
  - unfold call. destruct Hl as [Hl|Hl]; rewrite Hl; auto.
  - unfold poll. cbn. destruct Hl as [Hl|Hl]; rewrite Hl; auto.
  - unfold drop. cbn. destruct Hl as [Hl|Hl]; rewrite Hl; auto.
  - unfold complete. destruct (gate s l); auto.
  - unfold call_panic. destruct Hl as [Hl|Hl]; rewrite Hl; auto.
  - auto.
  - unfold call_panic_rec. destruct Hl as [Hl|Hl]; rewrite Hl; auto.
  - auto.
Qed.

(* a caller that did not lead at its call() never makes an inner call *)
Lemma never_leads_step s e i :
  cs s i <> Idle -> (forall k, cs s i <> Leading k) ->
  cs (step_st s e) i <> Idle /\ (forall k, cs (step_st s e) i <> Leading k).
Proof.
  intros Hn Hl.
  assert (Hc : (exists l, cs (step_st s e) i = Waiting l) \/ cs (step_st s e) i = Done \/
               cs (step_st s e) i = Dropped).
  { destruct (cs s i) as [|k|l| |] eqn:Ei; try congruence; try (exfalso; exact (Hl k eq_refl)).
    - destruct (ev_eq_poll_drop e i) as [[ -> | -> ]|[Hp Hd]].
      + pose proof (poll_waiter s i l Ei) as Hp. cbv zeta in Hp.
        destruct (chan s l); try destruct (bomb s l); intuition eauto.
      + right. right. unfold step_st. cbn [step fst]. unfold drop. cbn. rewrite Ei. cbn. apply upd_same.
      + left. exists l. apply waiter_frame; assumption.
    - right. left. rewrite <- Ei. apply cs_finished. left. exact Ei.
    - right. right. rewrite <- Ei. apply cs_finished. right. exact Ei. }
  destruct Hc as [[l Hc]|[Hc|Hc]]; rewrite Hc; split; intros; discriminate.
Qed.

Lemma never_leads_run evs s i :
  Inv s -> cs s i <> Idle -> (forall k, cs s i <> Leading k) ->
  ~ In i (inflight (fold_left step_st evs s)).
Proof.
  revert s. induction evs as [|e t IH]; intros s H Hn Hl; cbn [fold_left].
  - rewrite (p_fl _ _ _ _ _ H). intros [k Hk]. exact (Hl k Hk).
  - destruct (never_leads_step s e i Hn Hl) as [Hn' Hl'].
    apply IH; [apply inv_step; exact H|exact Hn'|exact Hl'].
Qed.

(* ---------- C11: the clauses ---------- *)
Lemma waiter_makes_no_call b evs l k i :
  let s := run_b b evs in
  cs s l = Leading k -> cs s i = Idle ->
  let s2 := step_st s (Call i k) in
  cs s2 i = Waiting l /\ inflight s2 = inflight s /\
  forall evs2, ~ In i (inflight (fold_left step_st evs2 s2)).
Proof.
  intros s Hl Hi s2. pose proof (inv_run_b b evs) as H. fold s in H.
  destruct (call_waiter s i l k H Hi Hl) as (Hc & Hf & _). fold s2 in Hc, Hf.
  repeat split; try assumption. intros evs2. apply never_leads_run.
  - apply inv_step. exact H.
  - rewrite Hc. discriminate.
  - rewrite Hc. discriminate.
Qed.

(* a waiter in front of a channel that holds the leader's result *)
Lemma sent_delivers b evs i l o evs2 :
  let s := run_b b evs in
  cs s i = Waiting l -> chan s l = Sent o -> bomb s l = false ->
  (forall e, In e evs2 -> e <> Poll i /\ e <> Drop i /\ e <> Arm l) ->
  snd (step (fold_left step_st evs2 s) (Poll i)) = {| r := code o; val := Z.of_nat l |}.
Proof.
  intros s Hi Hc Hb Hq. pose proof (inv_run_b b evs) as H. fold s in H.
  destruct (p_sent _ _ _ _ _ H l o Hc) as [_ Hd].
  destruct (frozen_run evs2 s l H (or_introl Hd)) as [Hc2 _].
  assert (Hi2 : cs (fold_left step_st evs2 s) i = Waiting l).
  { apply waiter_run; [exact Hi|]. intros e Hin. destruct (Hq e Hin) as (?&?&?). auto. }
  assert (Hb2 : bomb (fold_left step_st evs2 s) l = false).
  { apply bomb_run; [|exact Hb]. intros e Hin. destruct (Hq e Hin) as (?&?&?). auto. }
  pose proof (poll_waiter _ i l Hi2) as Hp. cbv zeta in Hp.
  rewrite Hc2, Hc, Hb2 in Hp. apply Hp.
Qed.

Lemma waiters_share b evs l k i o evs2 :
  let s := run_b b evs in
  cs s l = Leading k -> cs s i = Waiting l -> gate s l = Some o -> o <> OPanic -> bomb s l = false ->
  (forall e, In e evs2 -> e <> Poll i /\ e <> Drop i /\ e <> Arm l) ->
  snd (step s (Poll l)) = {| r := code o; val := Z.of_nat l |} /\
  snd (step (fold_left step_st evs2 (step_st s (Poll l))) (Poll i)) =
    {| r := code o; val := Z.of_nat l |}.
Proof.
  intros s Hl Hi Hg Ho Hb Hq. pose proof (inv_run_b b evs) as H. fold s in H.
  destruct (poll_leader_finish s l k o H Hl Hg Ho Hb) as (Hr & Hch & Hd & _ & _ & Hbb). cbv zeta in *.
  split; [exact Hr|].
  assert (Hil : i <> l) by (intros ->; congruence).
  assert (E : step_st s (Poll l) = run_b b (evs ++ [Poll l])).
  { rewrite run_b_app. reflexivity. }
  rewrite E. apply (sent_delivers b (evs ++ [Poll l]) i l o evs2); rewrite <- ?E.
  - apply waiter_frame; [exact Hi|congruence|discriminate].
  - exact Hch.
  - rewrite Hbb. exact Hb.
  - exact Hq.
Qed.

(* the Clone made for one waiter panics: that waiter's poll panics, nobody else notices *)
Lemma clone_panic_waiter b evs i l o :
  let s := run_b b evs in
  cs s i = Waiting l -> chan s l = Sent o -> bomb s l = true ->
  let s1 := step_st s (Poll i) in
  snd (step s (Poll i)) = {| r := 5; val := -1 |} /\ cs s1 i = Done /\ bomb s1 l = false /\
  chan s1 = chan s /\ reqs s1 = reqs s /\ inflight s1 = inflight s /\
  (forall j, j <> i -> cs s1 j = cs s j).
Proof.
  intros s Hi Hc Hb s1. unfold s1, step_st. cbn [step]. unfold poll. cbn. rewrite Hi, Hc, Hb. cbn.
  rewrite !upd_same. repeat split; auto. intros j Hj. apply upd_other. exact Hj.
Qed.

Lemma free_key_leads b evs k j :
  let s := run_b b evs in
  (forall l, cs s l <> Leading k) -> cs s j = Idle ->
  let s2 := step_st s (Call j k) in
  cs s2 j = Leading k /\ inflight s2 = inflight s ++ [j] /\ chan s2 j = Open.
Proof.
  intros s Hf Hj s2. apply call_leader; [apply inv_run_b|exact Hj|exact Hf].
Qed.

Lemma leader_gone b evs l k e :
  let s := run_b b evs in
  cs s l = Leading k ->
  (e = Drop l \/ (e = Poll l /\ gate s l = Some OPanic) \/
   (e = Poll l /\ gate s l <> None /\ bomb s l = true)) ->
  let s1 := step_st s e in
  lookup k (reqs s1) = None /\ ~ In l (inflight s1) /\
  (e = Poll l -> r (snd (step s e)) = 5) /\
  (forall j, cs s1 j = Idle ->
     cs (step_st s1 (Call j k)) j = Leading k /\
     inflight (step_st s1 (Call j k)) = inflight s1 ++ [j]) /\
  (forall i evs2, cs s i = Waiting l -> (forall e', In e' evs2 -> e' <> Poll i /\ e' <> Drop i) ->
     snd (step (fold_left step_st evs2 s1) (Poll i)) = {| r := 3; val := -1 |}).
Proof.
  intros s Hl He s1. pose proof (inv_run_b b evs) as H. fold s in H.
  destruct (leader_gone_step s l k e H Hl He) as (Hch & Hd & Hlk & Hfl & Hoth & Hr5).
  fold s1 in Hch, Hd, Hlk, Hfl, Hoth.
  assert (H1 : Inv s1) by (apply inv_step; exact H).
  repeat split; try assumption.
  - apply call_leader; [exact H1|assumption|]. apply lookup_free; assumption.
  - apply call_leader; [exact H1|assumption|]. apply lookup_free; assumption.
  - intros i evs2 Hi Hq.
    assert (Hil : i <> l) by (intros ->; congruence).
    assert (Hi1 : cs s1 i = Waiting l) by (rewrite Hoth; assumption).
    destruct (frozen_run evs2 s1 l H1 Hd) as [Hc2 _].
    pose proof (waiter_run evs2 s1 i l Hi1 Hq) as Hi2.
    pose proof (poll_waiter _ i l Hi2) as Hp. cbv zeta in Hp.
    rewrite Hc2, Hch in Hp. apply Hp.
Qed.

(* the leader's poll with its inner call finished: whichever way it ends (result, inner panic,
   Clone panic), the key is free and the next call leads *)
Lemma fresh_after_completion b evs l k o :
  let s := run_b b evs in
  cs s l = Leading k -> gate s l = Some o ->
  let s1 := step_st s (Poll l) in
  lookup k (reqs s1) = None /\ ~ In l (inflight s1) /\ (forall l', cs s1 l' <> Leading k) /\
  (forall j, cs s1 j = Idle ->
     cs (step_st s1 (Call j k)) j = Leading k /\
     inflight (step_st s1 (Call j k)) = inflight s1 ++ [j]).
Proof.
  intros s Hl Hg s1. pose proof (inv_run_b b evs) as H. fold s in H.
  assert (Hx : lookup k (reqs s1) = None /\ ~ In l (inflight s1)).
  { destruct (bomb s l) eqn:Hb; [|destruct o].
    - destruct (leader_gone_step s l k (Poll l) H Hl) as (_ & _ & Hlk & Hfl & _).
      + right. right. repeat split; congruence.
      + split; assumption.
    - destruct (poll_leader_finish s l k OOk H Hl Hg) as (_ & _ & _ & Hlk & Hfl & _); [discriminate|exact Hb|].
      split; assumption.
    - destruct (poll_leader_finish s l k OErr H Hl Hg) as (_ & _ & _ & Hlk & Hfl & _); [discriminate|exact Hb|].
      split; assumption.
    - destruct (leader_gone_step s l k (Poll l) H Hl) as (_ & _ & Hlk & Hfl & _).
      + right. left. split; [reflexivity|exact Hg].
      + split; assumption. }
  destruct Hx as [Hlk Hfl].
  assert (H1 : Inv s1) by (apply inv_step; exact H).
  repeat split; try assumption.
  - apply lookup_free; assumption.
  - apply call_leader; [exact H1|assumption|]. apply lookup_free; assumption.
  - apply call_leader; [exact H1|assumption|]. apply lookup_free; assumption.
Qed.

Lemma no_cross_key b evs i l :
  let s := run_b b evs in
  cs s i = Waiting l ->
  ckey s i = ckey s l /\ (exists k, ckey s i = Some k) /\
  (r (snd (step s (Poll i))) = 1 \/ r (snd (step s (Poll i))) = 2 ->
     val (snd (step s (Poll i))) = Z.of_nat l /\
     exists o, chan s l = Sent o /\ r (snd (step s (Poll i))) = code o) /\
  (forall e l0, e <> Poll l0 -> e <> Drop l0 -> (forall k, e <> Call l0 k) ->
     (forall k, e <> CallPanic l0 k) -> (forall k, e <> CallPanicRec l0 k) ->
     chan (step_st s e) l0 = chan s l0).
Proof.
  intros s Hi. pose proof (inv_run_b b evs) as H. fold s in H.
  destruct (p_wait _ _ _ _ _ H i l Hi) as (_ & Hk & Hex).
  split; [exact Hk|]. split; [exact Hex|]. split.
  - intros Hr. pose proof (poll_waiter s i l Hi) as Hp. cbv zeta in Hp.
    destruct (chan s l) as [| |o|]; try destruct (bomb s l); destruct Hp as [Hp _];
      rewrite Hp in *; cbn in *; try (destruct Hr; discriminate).
    split; [reflexivity|]. exists o. auto.
  - intros e l0. apply chan_frame. exact H.
Qed.

Lemma no_wait_forever b evs i l :
  let s := run_b b evs in
  cs s i = Waiting l ->
  (r (snd (step s (Poll i))) = 0 <-> exists k, cs s l = Leading k) /\
  (r (snd (step s (Poll i))) = 0 ->
     cs (step_st s (Poll i)) i = Waiting l /\ polled (step_st s (Poll i)) i = true /\
     (b = true -> woken (step_st s (Poll i)) i = true)) /\
  (r (snd (step s (Poll i))) <> 0 -> cs (step_st s (Poll i)) i = Done).
Proof.
  intros s Hi. pose proof (inv_run_b b evs) as H. fold s in H.
  destruct (p_wait _ _ _ _ _ H i l Hi) as (Hnc & _ & _).
  pose proof (p_open _ _ _ _ _ H l) as Hop.
  pose proof (poll_waiter s i l Hi) as Hp. cbv zeta in Hp.
  assert (Hbusy : busy s = b) by apply busy_run_b.
  destruct (chan s l) as [| |o|] eqn:Ec; try congruence.
  - destruct Hp as (Hp & Hc & Hpl & Hw). rewrite Hp. cbn. split; [|split].
    + split; [intros _; apply Hop; reflexivity|reflexivity].
    + intros _. repeat split; try assumption. intros ->. apply Hw. exact Hbusy.
    + intros Hn. exfalso. apply Hn. reflexivity.
  - assert (Hrr : r (snd (step s (Poll i))) <> 0 /\ cs (step_st s (Poll i)) i = Done).
    { destruct (bomb s l); destruct Hp as (Hp & Hc & _); rewrite Hp; cbn; split; try exact Hc;
        try discriminate; try (destruct o; discriminate). }
    destruct Hrr as [Hr Hc]. split; [|split].
    + split; [intros Hz; congruence|]. intros Hk. apply Hop in Hk. discriminate.
    + intros Hz. congruence.
    + intros _. exact Hc.
  - destruct Hp as (Hp & Hc). rewrite Hp. cbn. split; [|split].
    + split; [discriminate|]. intros Hk. apply Hop in Hk. discriminate.
    + discriminate.
    + intros _. exact Hc.
Qed.

(* once nobody leads, one round of polls resolves every waiter *)
Lemma quiescent_one_round b evs i l :
  let s := run_b b evs in
  (forall j k, cs s j <> Leading k) -> cs s i = Waiting l ->
  (r (snd (step s (Poll i))) = 1 \/ r (snd (step s (Poll i))) = 2 \/
   r (snd (step s (Poll i))) = 3 \/ r (snd (step s (Poll i))) = 5) /\
  cs (step_st s (Poll i)) i = Done.
Proof.
  intros s Hq Hi. pose proof (inv_run_b b evs) as H. fold s in H.
  destruct (p_wait _ _ _ _ _ H i l Hi) as (Hnc & _ & _).
  pose proof (p_open _ _ _ _ _ H l) as Hop.
  pose proof (poll_waiter s i l Hi) as Hp. cbv zeta in Hp.
  destruct (chan s l) as [| |o|] eqn:Ec; try congruence.
  - exfalso. destruct Hop as [Hop _]. destruct (Hop eq_refl) as [k Hk]. exact (Hq l k Hk).
  - destruct (p_sent _ _ _ _ _ H l o Ec) as [Ho _].
    destruct (bomb s l); destruct Hp as (Hp & Hc & _); rewrite Hp; cbn; split; try exact Hc; auto.
    destruct o; auto.
  - destruct Hp as (Hp & Hc). rewrite Hp. cbn. auto.
Qed.

(* RecvError (a lagging receiver) never happens: no step reports it *)
Lemma no_recv_error s e : r (snd (step s e)) <> 4.
Proof.
  destruct e as [i k|i|i|i o|i k|i|i k|d]; cbn [step snd]; try (cbn; discriminate).
  - unfold poll. cbn. destruct (cs s i) as [|k|l| |]; cbn; try discriminate.
    + destruct (gate s i) as [[]|]; try destruct (bomb s i); cbn; discriminate.
    + destruct (chan s l) as [| |[]|]; try destruct (bomb s l); cbn; discriminate.
  - unfold call_panic. destruct (cs s i); cbn; try discriminate.
    destruct (lookup k (reqs s)); cbn; discriminate.
  - unfold call_panic_rec. destruct (cs s i); cbn; try discriminate.
    destruct (lookup k (reqs s)); cbn; discriminate.
Qed.

(* ---------- inner.call() panics ---------- *)
Lemma sync_panic_frees_key b evs i k :
  let s := run_b b evs in
  cs s i = Idle ->
  let s1 := step_st s (CallPanic i k) in
  inflight s1 = inflight s /\ reqs s1 = reqs s /\
  (forall l, cs s l = Leading k ->
     cs s1 i = Waiting l /\ r (snd (step s (CallPanic i k))) = -1 /\ chan s1 = chan s) /\
  ((forall l, cs s l <> Leading k) ->
     r (snd (step s (CallPanic i k))) = 5 /\ cs s1 i = Done /\ chan s1 i = Closed /\
     (forall j, j <> i -> cs s1 j = cs s j /\ chan s1 j = chan s j) /\
     (forall l, cs s1 l <> Leading k) /\
     forall j, cs s1 j = Idle ->
       cs (step_st s1 (Call j k)) j = Leading k /\
       inflight (step_st s1 (Call j k)) = inflight s1 ++ [j]).
Proof.
  intros s Hi s1. pose proof (inv_run_b b evs) as H. fold s in H.
  assert (H1 : Inv s1) by (apply inv_step; exact H).
  destruct (lookup k (reqs s)) as [l0|] eqn:El.
  - assert (E : step s (CallPanic i k) = (call s i k, no_obs)).
    { cbn [step]. unfold call_panic. rewrite Hi, El. reflexivity. }
    unfold s1, step_st. rewrite E. cbn [fst snd]. unfold call. rewrite Hi, El. cbn.
    apply (lookup_leader s k l0 H) in El.
    split; [reflexivity|]. split; [reflexivity|]. split.
    + intros l Hl. assert (l = l0).
      { apply (lookup_leader s k l H) in Hl. apply (lookup_leader s k l0 H) in El. congruence. }
      subst l. rewrite upd_same. auto.
    + intros Hf. exfalso. exact (Hf l0 El).
  - assert (E : step s (CallPanic i k) =
                (mkSt (upd (cs s) i Done) (reqs s) (upd (chan s) i Closed) (inflight s) (gate s)
                      (woken s) (polled s) (upd (ckey s) i (Some k)) (bomb s) (busy s),
                 {| r := 5; val := -1 |})).
    { cbn [step]. unfold call_panic. rewrite Hi, El.
      rewrite remove_key_head, (remove_key_notin _ _ El). reflexivity. }
    unfold s1, step_st in *. rewrite E in *. cbn [fst snd] in *. cbn [inflight reqs cs chan r].
    split; [reflexivity|]. split; [reflexivity|]. split.
    + intros l Hl. apply (lookup_leader s k l H) in Hl. congruence.
    + intros _.
      assert (Hfree : forall l, upd (cs s) i Done l <> Leading k).
      { intros l. destruct (Nat.eq_dec l i) as [->|Hn]; [rewrite upd_same; discriminate|].
        rewrite upd_other by exact Hn. apply (lookup_free s k H). exact El. }
      rewrite !upd_same. split; [reflexivity|]. split; [reflexivity|]. split; [reflexivity|].
      split; [|split; [exact Hfree|]].
      * intros j Hj. rewrite !upd_other by exact Hj. auto.
      * intros j Hj. destruct (call_leader _ j k H1 Hj Hfree) as (Ha & Hb & _). auto.
Qed.

(* ---------- the metrics recorder / tracing subscriber panics inside call() ---------- *)
Lemma recorder_panic_frees_key b evs i k :
  let s := run_b b evs in
  cs s i = Idle ->
  let s1 := step_st s (CallPanicRec i k) in
  r (snd (step s (CallPanicRec i k))) = 5 /\ cs s1 i = Done /\
  inflight s1 = inflight s /\ reqs s1 = reqs s /\
  (forall j, j <> i -> cs s1 j = cs s j /\ chan s1 j = chan s j) /\
  (forall evs2, ~ In i (inflight (fold_left step_st evs2 s1))) /\
  ((forall l, cs s l <> Leading k) ->
     (forall l, cs s1 l <> Leading k) /\
     forall j, cs s1 j = Idle ->
       cs (step_st s1 (Call j k)) j = Leading k /\
       inflight (step_st s1 (Call j k)) = inflight s1 ++ [j]).
Proof.
  intros s Hi s1. pose proof (inv_run_b b evs) as H. fold s in H.
  assert (H1 : Inv s1) by (apply inv_step; exact H).
  assert (Hd : cs s1 i = Done).
  { unfold s1, step_st. cbn [step]. unfold call_panic_rec. rewrite Hi.
    destruct (lookup k (reqs s)); cbn; apply upd_same. }
  assert (Hnl : forall evs2, ~ In i (inflight (fold_left step_st evs2 s1))).
  { intros evs2. apply never_leads_run; [exact H1|rewrite Hd; discriminate|rewrite Hd; discriminate]. }
  assert (Hoth : forall j, j <> i -> cs s1 j = cs s j).
  { intros j Hj. apply cs_other. cbn. congruence. }
  assert (Hch : forall j, j <> i -> chan s1 j = chan s j).
  { intros j Hj. apply chan_frame; try exact H; try discriminate; intros k0 E; injection E; congruence. }
  assert (Hrest : r (snd (step s (CallPanicRec i k))) = 5 /\ inflight s1 = inflight s /\ reqs s1 = reqs s).
  { unfold s1, step_st. cbn [step]. unfold call_panic_rec. rewrite Hi.
    destruct (lookup k (reqs s)) eqn:El; cbn; [auto|].
    rewrite remove_key_head, (remove_key_notin _ _ El). auto. }
  destruct Hrest as (Hr & Hfl & Hrq).
  repeat split; try assumption; try (apply Hoth; assumption); try (apply Hch; assumption).
  - intros l. destruct (Nat.eq_dec l i) as [->|Hn]; [rewrite Hd; discriminate|].
    rewrite Hoth by exact Hn. apply H0.
  - apply call_leader; [exact H1|assumption|].
    intros l. destruct (Nat.eq_dec l i) as [->|Hn]; [rewrite Hd; discriminate|].
    rewrite Hoth by exact Hn. apply H0.
  - apply call_leader; [exact H1|assumption|].
    intros l. destruct (Nat.eq_dec l i) as [->|Hn]; [rewrite Hd; discriminate|].
    rewrite Hoth by exact Hn. apply H0.
Qed.

(* ---------- time ---------- *)
Definition is_advance (e : ev) : bool := match e with Advance _ => true | _ => false end.

Lemma advance_noop s d : step s (Advance d) = (s, no_obs).
Proof. reflexivity. Qed.

Lemma drop_advances evs : forall s,
  fold_left step_st (filter (fun e => negb (is_advance e)) evs) s = fold_left step_st evs s.
Proof.
  induction evs as [|e t IH]; intros s; [reflexivity|].
  destruct e; cbn [filter is_advance negb fold_left]; apply IH.
Qed.

Lemma time_is_irrelevant :
  (forall s d, step s (Advance d) = (s, no_obs)) /\
  (forall b evs, run_b b (filter (fun e => negb (is_advance e)) evs) = run_b b evs).
Proof. split; [reflexivity|]. intros b evs. apply drop_advances. Qed.

(* ---------- cancelling a waiter concerns nobody else ---------- *)
Lemma waiter_cancel_is_local b evs i l :
  let s := run_b b evs in
  cs s i = Waiting l ->
  let s1 := step_st s (Drop i) in
  cs s1 i = Dropped /\ (forall j, j <> i -> cs s1 j = cs s j) /\
  reqs s1 = reqs s /\ chan s1 = chan s /\ inflight s1 = inflight s /\ bomb s1 = bomb s /\
  forall evs2, ~ In i (inflight (fold_left step_st evs2 s1)).
Proof.
  intros s Hi s1. pose proof (inv_run_b b evs) as H. fold s in H.
  assert (H1 : Inv s1) by (apply inv_step; exact H).
  assert (E : s1 = mkSt (upd (cs s) i Dropped) (reqs s) (chan s) (inflight s) (gate s)
                        (upd (woken s) i false) (polled s) (ckey s) (bomb s) (busy s)).
  { unfold s1, step_st. cbn [step fst]. unfold drop. cbn. rewrite Hi. reflexivity. }
  assert (Hc : cs s1 i = Dropped) by (rewrite E; cbn; apply upd_same).
  assert (Hnl : forall evs2, ~ In i (inflight (fold_left step_st evs2 s1))).
  { intros evs2. apply never_leads_run; [exact H1|rewrite Hc; discriminate|rewrite Hc; discriminate]. }
  repeat split; try exact Hc; try exact Hnl; try (rewrite E; reflexivity).
  intros j Hj. rewrite E. cbn. apply upd_other. exact Hj.
Qed.

(* ---------- no lost wake-up ---------- *)
Definition wait_ok (s : st) (i l : nat) : Prop :=
  woken s i = true \/ (busy s = false /\ exists k, cs s l = Leading k).

Record Q (s : st) : Prop := {
  q_idle : forall i, cs s i = Idle -> polled s i = false;
  q_wait : forall i l, cs s i = Waiting l -> polled s i = true -> wait_ok s i l;
  q_lead : forall i k, cs s i = Leading k -> polled s i = true -> gate s i <> None -> woken s i = true
}.

Lemma Q_init b : Q (init_b b).
Proof. constructor; cbn; intros; try discriminate; reflexivity. Qed.

(* a call(): the caller was Idle (never polled); nothing else moves *)
Lemma Q_enter s i c ck rq ch fl :
  Inv s -> Q s -> cs s i = Idle -> c <> Idle ->
  Q (mkSt (upd (cs s) i c) rq ch fl (gate s) (woken s) (polled s) ck (bomb s) (busy s)).
Proof.
  intros H [Qi Qw Ql] Hi Hc. pose proof (Qi i Hi) as Hpi. constructor; cbn.
  - intros j. cases_on j i; [congruence|apply Qi].
  - intros j l. cases_on j i; [congruence|]. intros Hj Hp.
    destruct (Qw j l Hj Hp) as [Hw|[Hb [k Hk]]]; [left; exact Hw|right].
    split; [exact Hb|]. exists k. cbn. rewrite upd_other; [exact Hk|]. intros ->. congruence.
  - intros j k. cases_on j i; [congruence|apply Ql].
Qed.

(* the entry of leader l is removed (message or not), l becomes c (Done / Dropped) *)
Lemma Q_leader_end s l k c m :
  Q s -> cs s l = Leading k -> lookup k (reqs s) = Some l -> (c = Done \/ c = Dropped) ->
  let s0 := mkSt (cs s) (reqs s) (chan s) (inflight s) (gate s) (upd (woken s) l false)
                 (polled s) (ckey s) (bomb s) (busy s) in
  let s1 := close_key s0 k m in
  forall fl bm,
  Q (mkSt (upd (cs s1) l c) (reqs s1) (chan s1) fl (gate s1) (woken s1) (polled s1) (ckey s1) bm (busy s1)).
Proof.
  intros [Qi Qw Ql] Hl Hlk Hc s0 s1 fl bm.
  unfold s1, close_key. cbn. rewrite Hlk. cbn.
  assert (Hmono : forall j, j <> l -> woken s j = true ->
                  (if busy s then upd (woken s) l false else wake_waiters s0 l) j = true).
  { intros j Hj Hw. destruct (busy s); [rewrite upd_other by exact Hj; exact Hw|].
    unfold wake_waiters. cbn. destruct (cs s j); try (rewrite upd_other by exact Hj; exact Hw).
    destruct (Nat.eqb l0 l && polled s j); [reflexivity|rewrite upd_other by exact Hj; exact Hw]. }
  constructor; cbn.
  - intros j. cases_on j l; [destruct Hc; congruence|apply Qi].
  - intros j l0. cases_on j l; [destruct Hc; congruence|]. intros Hj Hp.
    destruct (Qw j l0 Hj Hp) as [Hw|[Hb [k0 Hk0]]].
    + left. apply Hmono; assumption.
    + destruct (Nat.eq_dec l0 l) as [->|Hn].
      * left. rewrite Hb. unfold wake_waiters. cbn. rewrite Hj, Nat.eqb_refl, Hp. reflexivity.
      * right. split; [exact Hb|]. exists k0. cbn. rewrite upd_other by exact Hn. exact Hk0.
  - intros j k0. cases_on j l; [destruct Hc; congruence|]. intros Hj Hp Hg.
    apply Hmono; [assumption|]. apply (Ql j k0); assumption.
Qed.

(* a waiter resolves, panics or is dropped *)
Lemma Q_waiter_end s i l c bm :
  Q s -> cs s i = Waiting l -> (c = Done \/ c = Dropped) ->
  Q (mkSt (upd (cs s) i c) (reqs s) (chan s) (inflight s) (gate s) (upd (woken s) i false)
          (polled s) (ckey s) bm (busy s)).
Proof.
  intros [Qi Qw Ql] Hi Hc. constructor; cbn.
  - intros j. cases_on j i; [destruct Hc; congruence|apply Qi].
  - intros j l0. cases_on j i; [destruct Hc; congruence|]. intros Hj Hp.
    destruct (Qw j l0 Hj Hp) as [Hw|[Hb [k Hk]]]; [left; cbn; rewrite upd_other by assumption; exact Hw|right].
    split; [exact Hb|]. exists k. cbn. rewrite upd_other; [exact Hk|]. intros ->. congruence.
  - intros j k. cases_on j i; [destruct Hc; congruence|apply Ql].
Qed.

(* only the wake flag of a caller that is neither waiting nor leading is cleared *)
Lemma Q_reset s i :
  Q s -> (forall l, cs s i <> Waiting l) -> (forall k, cs s i <> Leading k) ->
  Q (mkSt (cs s) (reqs s) (chan s) (inflight s) (gate s) (upd (woken s) i false)
          (polled s) (ckey s) (bomb s) (busy s)).
Proof.
  intros [Qi Qw Ql] Hw Hl. constructor; cbn.
  - exact Qi.
  - intros j l Hj Hp. assert (j <> i) by (intros ->; exact (Hw l Hj)).
    destruct (Qw j l Hj Hp) as [Hx|Hx]; [left; cbn; rewrite upd_other by assumption; exact Hx|right; exact Hx].
  - intros j k Hj Hp Hg. assert (j <> i) by (intros ->; exact (Hl k Hj)).
    rewrite upd_other by assumption. apply (Ql j k); assumption.
Qed.

Lemma Q_step s e : Inv s -> Q s -> Q (step_st s e).
Proof.
  intros H HQ. unfold step_st. destruct e as [i k|i|i|i o|i k|i|i k|d]; cbn [step fst].
  - unfold call. destruct (cs s i) eqn:Ei; try exact HQ.
    destruct (lookup k (reqs s)); apply Q_enter; auto; discriminate.
  - unfold poll. cbn. destruct (cs s i) as [|k|l| |] eqn:Ei; cbn [fst].
    + apply Q_reset; [exact HQ|rewrite Ei; discriminate|rewrite Ei; discriminate].
    + assert (Hlk : lookup k (reqs s) = Some i) by (apply lookup_leader; assumption).
      destruct (gate s i) as [[]|] eqn:Eg; [destruct (bomb s i) eqn:Eb|destruct (bomb s i) eqn:Eb| |];
        cbn [fst]; try (apply (Q_leader_end s i k Done); auto).
      (* pending leader *)
      destruct HQ as [Qi Qw Ql]. constructor; cbn.
      * intros j Hj. cases_on j i; [congruence|apply Qi; exact Hj].
      * intros j l Hj Hp. assert (j <> i) by (intros ->; congruence).
        rewrite upd_other in Hp by assumption.
        destruct (Qw j l Hj Hp) as [Hx|Hx]; [left; cbn; rewrite upd_other by assumption; exact Hx|right; exact Hx].
      * intros j k0 Hj Hp Hg. cases_on j i; [congruence|]. apply (Ql j k0); assumption.
    + destruct (chan s l) as [| |o|] eqn:Ec; [| |destruct (bomb s l) eqn:Eb|]; cbn [fst];
        try (apply (Q_waiter_end s i l Done); auto).
      * (* NoChan: not reachable *)
        exfalso. destruct (p_wait _ _ _ _ _ H i l Ei) as [Hn _]. exact (Hn Ec).
      * (* Open: pending waiter *)
        assert (Hll : exists k, cs s l = Leading k) by (apply (p_open _ _ _ _ _ H); exact Ec).
        destruct HQ as [Qi Qw Ql]. constructor; cbn.
        -- intros j Hj. cases_on j i; [congruence|apply Qi; exact Hj].
        -- intros j l0 Hj Hp. destruct (Nat.eq_dec j i) as [->|Hn].
           ++ assert (l0 = l) by congruence. subst l0. unfold wait_ok. cbn.
              destruct (busy s); [left; apply upd_same|right; auto].
           ++ rewrite upd_other in Hp by exact Hn.
              destruct (Qw j l0 Hj Hp) as [Hx|Hx]; [left; cbn|right; exact Hx].
              destruct (busy s); rewrite ?upd_other by exact Hn; exact Hx.
        -- intros j k0 Hj Hp Hg. assert (j <> i) by (intros ->; congruence).
           rewrite upd_other in Hp by assumption.
           destruct (busy s); rewrite ?upd_other by assumption; apply (Ql j k0); assumption.
    + apply Q_reset; [exact HQ|rewrite Ei; discriminate|rewrite Ei; discriminate].
    + apply Q_reset; [exact HQ|rewrite Ei; discriminate|rewrite Ei; discriminate].
  - unfold drop. cbn. destruct (cs s i) as [|k|l| |] eqn:Ei.
    + apply Q_reset; [exact HQ|rewrite Ei; discriminate|rewrite Ei; discriminate].
    + assert (Hlk : lookup k (reqs s) = Some i) by (apply lookup_leader; assumption).
      apply (Q_leader_end s i k Dropped); auto.
    + apply (Q_waiter_end s i l Dropped); auto.
    + apply Q_reset; [exact HQ|rewrite Ei; discriminate|rewrite Ei; discriminate].
    + apply Q_reset; [exact HQ|rewrite Ei; discriminate|rewrite Ei; discriminate].
  - unfold complete. destruct (gate s i) eqn:Eg; [exact HQ|].
    destruct HQ as [Qi Qw Ql]. constructor; cbn.
    + exact Qi.
    + intros j l Hj Hp. destruct (Qw j l Hj Hp) as [Hx|Hx]; [left; cbn|right; exact Hx].
      destruct (cs s i); try exact Hx. destruct (polled s i); [|exact Hx].
      destruct (Nat.eq_dec j i) as [->|Hn]; [apply upd_same|rewrite upd_other by exact Hn; exact Hx].
    + intros j k Hj Hp Hg. destruct (Nat.eq_dec j i) as [->|Hn].
      * rewrite Hj, Hp. apply upd_same.
      * rewrite upd_other in Hg by exact Hn. pose proof (Ql j k Hj Hp Hg) as Hx.
        destruct (cs s i); try exact Hx. destruct (polled s i); [|exact Hx].
        rewrite upd_other by exact Hn. exact Hx.
  - unfold call_panic. destruct (cs s i) eqn:Ei; try exact HQ.
    destruct (lookup k (reqs s)) eqn:El; cbn [fst].
    + unfold call. rewrite Ei, El. apply Q_enter; auto; discriminate.
    + apply Q_enter; auto; discriminate.
  - destruct HQ as [Qi Qw Ql]. constructor; cbn; assumption.
  - unfold call_panic_rec. destruct (cs s i) eqn:Ei; try exact HQ.
    destruct (lookup k (reqs s)) eqn:El; cbn [fst]; apply Q_enter; auto; discriminate.
  - exact HQ.
Qed.

Lemma Q_run_b b evs : Inv (run_b b evs) /\ Q (run_b b evs).
Proof.
  unfold run_b. apply (fold_left_inv step_st (fun s => Inv s /\ Q s)).
  - split; [apply P_init|apply Q_init].
  - intros s e [H HQ]. split; [apply inv_step; exact H|apply Q_step; assumption].
Qed.

(* Every request that has returned Pending is either woken (its executor will poll it) or is
   waiting for something that has not happened yet: a waiter for its leader's fate (only when
   waiters do not spin), a leader for its inner call. *)
Lemma no_lost_wakeup b evs :
  let s := run_b b evs in
  (forall i, cs s i = Idle -> polled s i = false) /\
  (forall i l, cs s i = Waiting l -> polled s i = true ->
     woken s i = true \/ (b = false /\ exists k, cs s l = Leading k)) /\
  (forall i k, cs s i = Leading k -> polled s i = true -> gate s i <> None -> woken s i = true).
Proof.
  intros s. destruct (Q_run_b b evs) as [_ [Qi Qw Ql]]. fold s in Qi, Qw, Ql.
  split; [exact Qi|]. split; [|exact Ql].
  intros i l Hi Hp. destruct (Qw i l Hi Hp) as [Hx|[Hb Hk]]; [left; exact Hx|right].
  split; [|exact Hk]. unfold s in Hb. rewrite busy_run_b in Hb. exact Hb.
Qed.

Lemma waiter_woken_when_settled b evs i l e :
  let s := run_b b evs in
  cs s i = Waiting l -> polled s i = true ->
  (exists k, cs s l = Leading k) -> (forall k, cs (step_st s e) l <> Leading k) ->
  woken (step_st s e) i = true /\ cs (step_st s e) i = Waiting l.
Proof.
  intros s Hi Hp [k Hl] Hn.
  assert (Hsub : subject e = l).
  { destruct (Nat.eq_dec (subject e) l) as [He|He]; [exact He|].
    exfalso. apply (Hn k). rewrite cs_other by exact He. exact Hl. }
  assert (Hil : i <> l) by (intros ->; congruence).
  assert (Hi1 : cs (step_st s e) i = Waiting l).
  { rewrite cs_other; [exact Hi|]. congruence. }
  assert (Hp1 : polled (step_st s e) i = true).
  { unfold step_st. destruct e as [j k0|j|j|j o|j k0|j|j k0|d]; cbn [subject] in Hsub; try subst j; cbn [step fst].
    - unfold call. rewrite Hl. exact Hp.
    - unfold poll. cbn. rewrite Hl. destruct (gate s l) as [[]|]; try destruct (bomb s l); cbn [fst polled];
        first [rewrite upd_other by exact Hil; exact Hp
              |unfold close_key; cbn; destruct (lookup k (reqs s)); cbn; exact Hp].
    - unfold drop. cbn. rewrite Hl. cbn [polled]. unfold close_key; cbn; destruct (lookup k (reqs s)); cbn; exact Hp.
    - unfold complete. destruct (gate s l); exact Hp.
    - unfold call_panic. rewrite Hl. exact Hp.
    - exact Hp.
    - unfold call_panic_rec. rewrite Hl. exact Hp.
    - exact Hp. }
  split; [|exact Hi1].
  assert (Hs : step_st s e = run_b b (evs ++ [e])) by (rewrite run_b_app; reflexivity).
  destruct (no_lost_wakeup b (evs ++ [e])) as (_ & Hw & _). rewrite <- Hs in Hw.
  destruct (Hw i l Hi1 Hp1) as [Hx|[_ [k1 Hk1]]]; [exact Hx|].
  exfalso. exact (Hn k1 Hk1).
Qed.

(* ---------- the trace run_script prints is the run of step ---------- *)
Lemma run_evs_row total evs : forall s k e,
  nth_error evs k = Some e ->
  firstn 5 (skipn (5 * k)%nat (run_evs total s evs)) =
    row total (step_st (fold_left step_st (firstn k evs) s) e)
        (snd (step (fold_left step_st (firstn k evs) s) e)).
Proof.
  induction evs as [|e0 t IH]; intros s k e Hk; [destruct k; discriminate|].
  destruct k as [|k].
  - cbn in Hk. injection Hk as ->. reflexivity.
  - cbn [nth_error] in Hk. replace (5 * S k)%nat with (5 + 5 * k)%nat by lia.
    cbn [run_evs]. cbv zeta. unfold row at 1. cbn [app]. cbn [Nat.add skipn firstn fold_left].
    apply (IH (step_st s e0) k e Hk).
Qed.

Lemma trace_is_run sc k e :
  let n := callers_of (zn sc 0) in
  let evs := evs_of n (chunk3 (skipn 1 sc)) in
  nth_error evs k = Some e ->
  let s := run (firstn k evs) in
  firstn 5 (skipn (5 * k)%nat (run_script sc)) =
    [r (snd (step s e)); val (snd (step s e)); wake_mask (step_st s e) n;
     flight_mask (step_st s e); bomb_mask (step_st s e) n].
Proof.
  intros n evs Hk s. unfold run_script. fold n. fold evs.
  rewrite (run_evs_row n evs init k e Hk). reflexivity.
Qed.

(* ---------- non-vacuity ---------- *)
Example ex_share :
  let evs := [Call 0 7; Call 1 7; Call 2 7; Poll 1; Complete 0 OErr] in
  let s := run evs in
  cs s 0%nat = Leading 7 /\ cs s 1%nat = Waiting 0 /\ cs s 2%nat = Waiting 0 /\
  gate s 0%nat = Some OErr /\ inflight s = [0%nat] /\ bomb s 0%nat = false /\
  snd (step (run (evs ++ [Poll 0; Call 3 7; Poll 1])) (Poll 2)) = {| r := 2; val := 0 |} /\
  cs (run (evs ++ [Poll 0; Call 3 7])) 3%nat = Leading 7.
Proof. vm_compute. repeat split; reflexivity. Qed.

Example ex_leader_dropped :
  let evs := [Call 0 1; Call 1 1; Poll 1; Drop 0] in
  let s := run evs in
  cs s 1%nat = Waiting 0 /\ chan s 0%nat = Closed /\ inflight s = [] /\
  snd (step s (Poll 1)) = {| r := 3; val := -1 |} /\
  inflight (step_st s (Call 2 1)) = [2%nat].
Proof. vm_compute. repeat split; reflexivity. Qed.

Example ex_leader_panics :
  let s := run [Call 0 1; Call 1 1; Complete 0 OPanic; Poll 0] in
  chan s 0%nat = Closed /\ snd (step s (Poll 1)) = {| r := 3; val := -1 |}.
Proof. vm_compute. repeat split; reflexivity. Qed.

Example ex_two_keys :
  let s := run [Call 0 1; Call 1 2; Call 2 1; Call 3 2; Complete 1 OOk; Poll 1] in
  inflight s = [0%nat] /\ cs s 2%nat = Waiting 0 /\ cs s 3%nat = Waiting 1 /\
  snd (step s (Poll 3)) = {| r := 1; val := 1 |} /\ snd (step s (Poll 2)) = {| r := 0; val := -1 |}.
Proof. vm_compute. repeat split; reflexivity. Qed.

(* inner.call() panics under the would-be leader 0: key 4 is free, 1 leads, 2 waits on 1 and shares its result;
   a would-be waiter (3) does not reach the inner service *)
Example ex_sync_panic :
  let s := run [Call 9 5] in
  cs s 0%nat = Idle /\ (forall l, l = 9%nat -> cs s l <> Leading 4) /\
  snd (step s (CallPanic 0 4)) = {| r := 5; val := -1 |} /\
  let s1 := run [Call 9 5; CallPanic 0 4; Call 1 4; Call 2 4; CallPanic 3 4; Complete 1 OOk; Poll 1] in
  inflight s1 = [9%nat] /\ cs s1 2%nat = Waiting 1 /\ cs s1 3%nat = Waiting 1 /\
  snd (step s1 (Poll 2)) = {| r := 1; val := 1 |} /\ snd (step s1 (Poll 3)) = {| r := 1; val := 1 |} /\
  snd (step s1 (Poll 0)) = {| r := 9; val := -1 |}.
Proof. vm_compute. repeat split; try reflexivity. intros l ->. discriminate. Qed.

(* the Clone of the leader's result panics in the leader's completing poll: hypotheses of leader_gone (third case) *)
Example ex_clone_panic_leader :
  let s := run [Call 0 2; Call 1 2; Poll 1; Arm 0; Complete 0 OOk] in
  cs s 0%nat = Leading 2 /\ gate s 0%nat <> None /\ bomb s 0%nat = true /\ cs s 1%nat = Waiting 0 /\
  snd (step s (Poll 0)) = {| r := 5; val := -1 |} /\
  snd (step (step_st s (Poll 0)) (Poll 1)) = {| r := 3; val := -1 |} /\
  bomb (step_st s (Poll 0)) 0%nat = false /\
  cs (step_st (step_st s (Poll 0)) (Call 2 2)) 2%nat = Leading 2.
Proof. vm_compute. repeat split; try reflexivity. discriminate. Qed.

(* ... or only when the channel's value is cloned for the first waiter: hypotheses of clone_panic_waiter *)
Example ex_clone_panic_waiter :
  let s := run [Call 0 1; Call 1 1; Call 2 1; Complete 0 OErr; Poll 0; Arm 0] in
  cs s 1%nat = Waiting 0 /\ cs s 2%nat = Waiting 0 /\ chan s 0%nat = Sent OErr /\ bomb s 0%nat = true /\
  snd (step s (Poll 1)) = {| r := 5; val := -1 |} /\
  snd (step (step_st s (Poll 1)) (Poll 2)) = {| r := 2; val := 0 |}.
Proof. vm_compute. repeat split; reflexivity. Qed.

(* the two waiter disciplines: a pending waiter is woken at once (the code), or when its leader's fate is settled *)
Example ex_wake_disciplines :
  let evs := [Call 0 1; Call 1 1; Poll 1] in
  woken (run_b true evs) 1%nat = true /\ woken (run_b false evs) 1%nat = false /\
  polled (run_b false evs) 1%nat = true /\ cs (run_b false evs) 1%nat = Waiting 0 /\
  cs (run_b false evs) 0%nat = Leading 1 /\
  woken (run_b false (evs ++ [Drop 0])) 1%nat = true /\
  woken (run_b false (evs ++ [Complete 0 OOk; Poll 0])) 1%nat = true /\
  woken (run_b false (evs ++ [Complete 0 OOk])) 1%nat = false /\
  snd (step (run_b false (evs ++ [Complete 0 OOk; Poll 0])) (Poll 1)) = {| r := 1; val := 0 |}.
Proof. vm_compute. repeat split; reflexivity. Qed.

(* the recorder panics in call(): under a would-be leader (key 4 free: hypotheses of recorder_panic_frees_key, last
   part) and under a would-be waiter (3, while 1 leads); days pass in between and change nothing *)
Example ex_recorder_panic :
  let s := run [Call 9 5] in
  cs s 0%nat = Idle /\ (forall l, l = 9%nat -> cs s l <> Leading 4) /\
  snd (step s (CallPanicRec 0 4)) = {| r := 5; val := -1 |} /\
  let s1 := run [Call 9 5; CallPanicRec 0 4; Call 1 4; Call 2 4; Poll 2; Advance 86400000; CallPanicRec 3 4;
                 Advance 30000; Complete 1 OOk; Poll 1] in
  inflight s1 = [9%nat] /\ cs s1 2%nat = Waiting 1 /\ cs s1 3%nat = Done /\
  snd (step s1 (Poll 2)) = {| r := 1; val := 1 |} /\ snd (step s1 (Poll 3)) = {| r := 9; val := -1 |} /\
  snd (step (run [Call 9 5; CallPanicRec 0 4; Call 1 4; Call 2 4; Poll 2; Advance 86400000]) (Poll 2)) =
    {| r := 0; val := -1 |}.
Proof. vm_compute. repeat split; try reflexivity. intros l ->. discriminate. Qed.

Example ex_script :
  run_script [103; 7; 0; 4; 5; 1; 4; 4; 1; 1; 1; 1; 0] =
    [5; -1; 0; 0; 0;  -1; -1; 0; 2; 0;  -1; -1; 0; 2; 0;  2; 1; 0; 0; 0] /\
  run_script [2; 5; 0; 0; 6; 0; 0; 4; 0; 1; 1; 0; 0; 5; 1; 0] =
    [-1; -1; 0; 1; 0;  -1; -1; 0; 1; 1;  -1; -1; 0; 1; 1;  5; -1; 0; 0; 0;  -1; -1; 0; 2; 0] /\
  run_script [2; 8; 0; 3; 5; 1; 3; 3; 0; 60000; 1; 1; 0] =
    [5; -1; 0; 0; 0;  -1; -1; 0; 2; 0;  -1; -1; 0; 2; 0;  0; -1; 0; 2; 0].
Proof. vm_compute. repeat split; reflexivity. Qed.
