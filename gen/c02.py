"""C02: rate limiter admits at most limit_for_period calls per window."""
from ratelimiter_common import *
PROP = "C02"
RULE = ("random scripts, bursts of callers polled in random order at every millisecond, idle gaps; three window types, limits 1..4, timeouts from 0 to several periods, "
        "arrivals exactly on window boundaries; non-trivial = some caller had to wait or was rejected")


def monitor(s, t):
    d = decode(s, t)
    if d is None:
        return "malformed or panicking run: %s" % t[:12]
    wt, limit, P = s[0], s[1], s[2]
    adm = [a for (a, _) in admissions(s, t)]
    if limit < 1 or P <= 0:
        return None
    if wt == 1:
        for i in range(len(adm) - limit):
            if adm[i + limit] - adm[i] < P:
                return "sliding log: %d consecutive admissions at %s span less than the period %d" % (limit + 1, adm[i:i + limit + 1], P)
        return None
    # fixed window / sliding counter: time (from the limiter's creation at 0) must be cuttable into
    # consecutive windows, none shorter than the period, each holding at most `limit` admissions.
    if not feasible(adm, limit, P):
        return "admissions at %s cannot be cut into consecutive windows >= %d ms with at most %d admissions each" % (adm, P, limit)
    return None


def feasible(adm, limit, P):
    """exact decision by dynamic programming. A solution can be normalised so that every cut is either
    exactly P after the previous cut or sits at an admission instant (moving a cut to the right until one of
    the two happens keeps the solution valid), so cuts of the form 0 + kP or a_j + kP suffice."""
    if len(adm) <= limit:
        return True
    import functools
    K = (adm[-1] // P) + 2
    cands = sorted(set([k * P for k in range(K + 1)] + [a + k * P for a in adm for k in range(K + 1)]))

    @functools.lru_cache(None)
    def ok(idx, start):
        # admissions adm[idx:] are all >= start; the current window starts at `start`
        if len(adm) - idx <= limit:
            return True          # the last window may be infinite
        for c in cands:
            if c < start + P:
                continue
            k = idx
            while k < len(adm) and adm[k] < c:
                k += 1
            if k - idx > limit:
                break            # later cuts only add admissions to this window
            if ok(k, c):
                return True
        return False

    return ok(0, 0)
