"""C02: rate limiter admits at most limit_for_period calls per window."""
from ratelimiter_common import *
PROP = "C02"
RULE = ("random scripts, bursts of callers polled in random order at every millisecond, idle gaps (fresh callers at one instant or spread), arrivals at exact multiples of the "
        "period, metronomes (limit fresh callers every P-d ms for P/d+2 rounds: saturated windows back to back), up to 20 callers waiting at once; three window types, "
        "limits 1..7 (and 5..130 with limit+1 simultaneous callers; up to 60 with 1 s / 60 s periods), periods 5 ms..2 s, 60 s, 1 day, 2^32+5 ms, 60 days, 0, "
        "Duration::MAX, 2^62..2^64 s and the edge of what Instant can hold (sliding counter: only scripts that pass the bit-exact f64-vs-rational test), "
        "timeouts 0 .. ten periods and Duration::MAX, clock jumps up to 60 days, callers through fresh clones / one long-lived service value / clone chains; "
        "non-trivial = some caller had to wait or was rejected")


def monitor(s, t):
    d = decode(s, t)
    if d is None:
        return "malformed or panicking run: %s" % t[:12]
    wt, limit, P = s[0], s[1], dur(s[2])
    # every inner call() the implementation made, in whatever event (call(), poll, drop, clock advance)
    adm = [a for (a, _) in admissions(s, t)]
    if limit < 1 or P <= 0:
        return None
    if wt == 1:
        for i in range(len(adm) - limit):
            if adm[i + limit] - adm[i] < P:
                return "sliding log: %d consecutive admissions at %s span less than the period %d" % (limit + 1, adm[i:i + limit + 1], P)
        return None
    # fixed window / sliding counter: time must be cuttable into consecutive windows, none shorter than the
    # period, each holding at most `limit` admissions. Weakest reading: the first window is everything before the
    # first cut (an implementation may align its windows to anything, e.g. to the epoch).
    if not feasible(adm, limit, P):
        return "admissions at %s cannot be cut into consecutive windows >= %d ms with at most %d admissions each" % (adm, P, limit)
    return None


def selftest(n=20000, seed=1):
    """feasible() against brute force over all cut sets; returns the number of disagreements"""
    import random
    rng = random.Random(seed)
    bad = 0
    for _ in range(n):
        P = rng.choice([3, 4, 5, 8, 10])
        limit = rng.choice([1, 2, 3])
        adm = sorted(rng.randrange(0, 5 * P) for _ in range(rng.randint(0, 7)))
        arrived = None
        if rng.random() < 0.5:
            arrived = [(None if rng.random() < 0.6 else rng.randrange(max(0, a - 2 * P), a + 1)) for a in adm]
        origin = rng.choice([None, None, 0])
        if feasible_bruteforce(adm, limit, P, arrived, origin) != feasible(adm, limit, P, arrived, origin):
            bad += 1
    return bad


if __name__ == "__main__":
    print("feasible vs brute force: %d disagreements" % selftest())
    assert feasible([15, 17, 26], 1, 10) and feasible([4, 8, 8, 8, 10, 11], 3, 4)
    assert not feasible([0, 0, 100, 100, 100, 100], 2, 100)
