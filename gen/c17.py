"""C17 fallback: generator, independent monitor.

The monitor states the PROPERTY over the implementation's trace: a success comes back unchanged and invokes
nothing of the fallback (no predicate, no strategy closure, no backup call — also not ahead of / while waiting
for the inner call); an error the predicate refuses comes back unchanged as Inner and runs no strategy; an
accepted error yields exactly what the configured strategy specifies for that call's own request and error;
the inner (and, for the Service strategy, the backup) service is called once with that call's request. How often
the predicate is evaluated, the order of the events of different calls, the flags of ineffective script
operations and the treatment of readiness errors are pinned by the trace comparison with the model only."""
import itertools

PROP = "C17"
DRIVER = "c17"
MODEL = "C17"
MODEL_QUALID = "Model.Fallback.run_script"
FORMAT = ("[strategy 0..5 (value,value_fn [generator returns value+1+100*call],from_error,from_request_error,service,exception); pred_mode: bits0-1 0=none "
          "1=even-errors 2=all 3=none-accepted, +4: the builder calls handle() BEFORE the strategy setter, +8 name() first, "
          "+16 on_event() between the setters, +32 name()+on_event() last, +64 decoy strategy setter first, +128 convenience "
          "constructor of layer.rs (only without predicate), +256 decoy handle(negated predicate) before the real handle(); value; req; inner_kind 0=ok 1=err; inner_val; backup_kind; "
          "backup_val] ++ (op,a,b)*: 1 CALL (a 0 service/1 clone/2 fresh clone, b request), 2 POLL call a, 3 INNER_DONE "
          "(call a, outcome b), 4 BACKUP_DONE (call a, outcome b), 5 DROP call a, 6 READY_FAIL (handle a, error b); outcome "
          "b mod 4: 0 Ok(b div 4) 1 Err(b div 4) 2,3 panic; no ops = CALL req; POLL; INNER_DONE; POLL; BACKUP_DONE; POLL with the "
          "header's outcomes -> [n_calls; (result_kind 0=Ok 1=Err(Inner) 2=Err(FallbackFailed) 3=panicked 4=dropped 5=unfinished, "
          "payload)*; n_ready; (kind,payload)*; n_ops; effect flag*; n_events; (call, kind 0=inner(req) 1=predicate(e) 2=value_fn "
          "3=from_error(e) 4=from_request_error(req,e) 5=backup(req) 6=exception(e), a, b)*]")
RULE = ("full grid strategies x predicates x builder order x inner/backup outcomes x payloads (finite, enumerated completely); "
        "builder routes (name(), on_event(), overridden strategy setter, overridden handle(), convenience constructors); random payloads; random "
        "op scripts: 1-4 overlapping calls with distinct requests through the service / a clone / fresh clones, inner and "
        "backup answers (ok, error, panic) delivered in random order between hand polls, futures dropped half-way, "
        "duplicate / misdirected operations, readiness errors; thorough: every op sequence of length <= 4 over an 8-letter "
        "alphabet after two calls; non-trivial = some call's inner service failed (a fallback decision is taken)")
TRUSTED = ["closures passed to the layer (fe, fre, fx, predicates) are mirrored by hand in Model/Fallback.v run_script and "
           "harness/src/bin/c17.rs; each logs its invocation, tagged with the call being polled"]
ASSUMPTIONS = ["backup service and strategy closures are deterministic functions of their arguments",
               "a readiness error of the inner service is not an 'inner error' of a call: the crate reports it as Inner(e) "
               "without consulting predicate or strategy (modelled so; the monitor also accepts the exception strategy applied)"]


def header(st, pm, v=9, req=0, ik=0, iv=0, bk=0, bv=0):
    return [st, pm, v, req, ik, iv, bk, bv]


def corpus():
    return [
        [4, 1, 9, 5, 1, 8, 1, 77], [0, 1, 9, 5, 1, 7, 0, 0],
        # two overlapping calls answered in reverse order (from_request_error), then a third that succeeds
        header(3, 0) + [1, 0, 5, 1, 1, 6, 2, 0, 0, 2, 1, 0, 3, 1, 41, 3, 0, 29, 2, 1, 0, 2, 0, 0, 1, 2, 8, 2, 2, 0, 3, 2, 400, 2, 2, 0],
        # backup service: dropped between the inner failure and the backup answer; a second call completes
        header(4, 1) + [1, 0, 5, 1, 1, 6, 2, 0, 0, 2, 1, 0, 3, 0, 4 * 8 + 1, 3, 1, 4 * 6 + 1, 2, 0, 0, 2, 1, 0, 5, 0, 0, 4, 0, 4 * 700,
                        4, 1, 4 * 801 + 1, 2, 1, 0],
        # value_fn: two calls fall back, each must get the value the generator produced for it (9+1+100*call)
        header(1, 0) + [1, 0, 5, 1, 1, 6, 2, 0, 0, 2, 1, 0, 3, 0, 4 * 7 + 1, 3, 1, 4 * 8 + 1, 2, 1, 0, 2, 0, 0],
        # readiness error, then a normal call; inner panic
        header(5, 2) + [6, 0, 33, 1, 0, 4, 2, 0, 0, 3, 0, 2, 2, 0, 0, 6, 1, 34],
        # convenience constructor, overridden strategy setter, name/on_event around handle
        header(1, 128, ik=1, iv=6), header(2, 64 + 32 + 16 + 8 + 4 + 1, ik=1, iv=6), header(0, 64 + 2, ik=1, iv=7),
    ]


ROUTES_QUICK = [1, 2, 4, 8, 16, 3, 12, 21, 31, 32, 33, 40, 46, 63]


def generate(rng, tier):
    out = []
    for st in range(6):
        for pm in range(8):
            for ik in (0, 1):
                for iv in (6, 7):
                    for bk in (0, 1):
                        for req in (0, 5):
                            out.append([st, pm, 9, req, ik, iv, bk, 77])
    routes = ROUTES_QUICK if tier == "quick" else range(1, 64)
    for st in range(6):
        for pm in range(8):
            for route in routes:
                for iv in (6, 7):
                    out.append([st, pm + 8 * route, 9, 5, 1, iv, (route + iv) % 2, 77])
                out.append([st, pm + 8 * route, 9, 5, 0, 6, 0, 77])
    n = 200 if tier == "quick" else 5000
    for _ in range(n):
        out.append([rng.randrange(6), rng.randrange(8) + 8 * rng.choice([0, 0, rng.randrange(64)]), rng.randrange(-50, 50),
                    rng.randrange(-100, 100), rng.randrange(2), rng.randrange(-1000, 1000), rng.randrange(2),
                    rng.randrange(-1000, 1000)])
    for _ in range(1500 if tier == "quick" else 40000):
        out.append(rand_ops_script(rng))
    if tier == "thorough":
        out += exhaustive()
    return out


def enc(kind, val=0):
    return 4 * val + kind


def rand_ops_script(rng):
    st = rng.randrange(6)
    pm = rng.randrange(8) + 8 * rng.choice([0, 0, rng.randrange(64)])
    nc = rng.randrange(1, 5)
    reqs = rng.sample(range(0, 21), nc)
    plans = []
    for k in range(nc):
        c = rng.random()
        if c < 0.3:
            io = enc(0, rng.randrange(300, 400))
        elif c < 0.93:
            io = enc(1, rng.randrange(-10, 31))
        else:
            io = enc(2)
        c = rng.random()
        bo = enc(0, rng.randrange(700, 800)) if c < 0.5 else enc(1, rng.randrange(800, 900)) if c < 0.93 else enc(2)
        plan = [(2, k, 0), (3, k, io), (2, k, 0), (4, k, bo), (2, k, 0)]
        if rng.random() < 0.15:
            plan.insert(rng.randrange(len(plan) + 1), (5, k, 0))          # dropped somewhere
        if rng.random() < 0.2:
            plan.insert(rng.randrange(len(plan) + 1), (2, k, 0))          # extra poll
        if rng.random() < 0.15:
            plan.insert(rng.randrange(len(plan) + 1), (rng.choice([3, 4]), k, enc(rng.randrange(2), rng.randrange(900, 999))))
        if rng.random() < 0.1:
            plan = plan[:rng.randrange(len(plan))]                       # left unfinished
        plans.append(plan)
    ops = []
    created = 0
    pending = [list(p) for p in plans]
    while created < nc or any(pending[k] for k in range(created)):
        choices = [k for k in range(created) if pending[k]]
        if created < nc and (not choices or rng.random() < 0.35):
            ops.append((1, rng.randrange(3), reqs[created]))
            created += 1
        else:
            k = rng.choice(choices)
            ops.append(pending[k].pop(0))
        c = rng.random()
        if c < 0.04:
            ops.append((6, rng.randrange(3), rng.randrange(-10, 31)))
        elif c < 0.07:
            ops.append((rng.choice([2, 3, 4, 5]), rng.choice([-1, nc, nc + 3, created]), enc(1, 6)))
        elif c < 0.08:
            ops.append((rng.choice([0, 7, 9]), 0, 0))
    s = header(st, pm, v=rng.choice([9, 9, rng.randrange(-50, 50)]))
    for o in ops:
        s += list(o)
    return s


def exhaustive():
    """every op sequence of length <= 4 after two calls, over a small alphabet"""
    alpha = [(2, 0, 0), (2, 1, 0), (3, 0, enc(0, 300)), (3, 0, enc(1, 6)), (3, 1, enc(1, 7)), (4, 0, enc(0, 700)),
             (4, 1, enc(1, 800)), (5, 0, 0)]
    out = []
    for st, pm in ((3, 0), (4, 1), (4, 0), (5, 1), (1, 3)):
        for n in range(1, 5):
            for seq in itertools.product(alpha, repeat=n):
                s = header(st, pm) + [1, 0, 5, 1, 1, 8, 2, 0, 0, 2, 1, 0]
                for o in seq:
                    s += list(o)
                out.append(s)
    return out


def ops_of(s):
    raw = [tuple(s[i:i + 3]) for i in range(8, len(s) - 2, 3)]
    if raw:
        return raw
    req = s[3]
    io = 4 * (s[5] + 11 * req) if s[4] == 0 else 4 * s[5] + 1
    bo = 4 * (s[7] + 13 * req) if s[6] == 0 else 4 * s[7] + 1
    return [(1, 0, req), (2, 0, 0), (3, 0, io), (2, 0, 0), (4, 0, bo), (2, 0, 0)]


def outcome(b):
    return (b % 4 if b % 4 < 2 else 2, b // 4)


def decode(t):
    try:
        i = 0
        nc = t[i]; i += 1
        calls = [(t[i + 2 * j], t[i + 2 * j + 1]) for j in range(nc)]; i += 2 * nc
        nr = t[i]; i += 1
        ready = [(t[i + 2 * j], t[i + 2 * j + 1]) for j in range(nr)]; i += 2 * nr
        no = t[i]; i += 1
        flags = t[i:i + no]; i += no
        ne = t[i]; i += 1
        events = [tuple(t[i + 4 * j:i + 4 * j + 4]) for j in range(ne)]; i += 4 * ne
        if i != len(t) or len(flags) != no or (events and len(events[-1]) != 4):
            return None
        return calls, ready, flags, events
    except IndexError:
        return None


def monitor(s, t):
    """independent restatement of the property over the implementation's trace"""
    d = decode(t)
    if d is None or len(s) < 8:
        return "malformed or panicking run: %s" % t[:12]
    calls, ready, flags, events = d
    st, pm, v = s[0], s[1], s[2]
    if not 0 <= st <= 5:
        st = 5
    ops = ops_of(s)
    if len(flags) != len(ops):
        return "trace has %d op flags for %d ops" % (len(flags), len(ops))
    handled_fn = {0: lambda e: True, 1: lambda e: e % 2 == 0, 2: lambda e: True, 3: lambda e: False}[pm % 4]
    reqs, inner_out, backup_out, ready_errs = [], {}, {}, []
    for (o, a, b), f in zip(ops, flags):
        if o == 1:
            reqs.append(b)
        elif o == 3 and f:
            inner_out.setdefault(a, outcome(b))
        elif o == 4 and f:
            backup_out.setdefault(a, outcome(b))
        elif o == 6:
            ready_errs.append(b)
    if len(reqs) != len(calls):
        return "%d calls made, %d results" % (len(reqs), len(calls))
    # completion ("ALWAYS passes through", "the produced response"): which calls were polled (effectively: the future
    # was alive) after their inner answer — and, for the Service strategy, again after the backup's answer
    polled_after_inner, polled_after_backup, seen_in, seen_bk = set(), set(), set(), set()
    for (o, a, b), f in zip(ops, flags):
        if not f:
            continue
        if o == 3:
            seen_in.add(a)
        elif o == 4:
            seen_bk.add(a)
        elif o == 2:
            if a in seen_bk and a in polled_after_inner:
                polled_after_backup.add(a)
            elif a in seen_in:
                polled_after_inner.add(a)
    # events tagged -1 (a closure invoked outside any call() / poll of a call's future) cannot be attributed to a
    # call: they are left to the trace comparison
    for k, ((kind, payload), req) in enumerate(zip(calls, reqs)):
        evs = [e for e in events if e[0] == k]
        inner_evs = [e for e in evs if e[1] == 0]
        fb_evs = [e for e in evs if e[1] != 0]
        io = inner_out.get(k)
        if len(inner_evs) > 1 or any(e[2] != req for e in inner_evs):
            return "call %d: inner service must be called once with the original request %d, saw %s" % (k, req, inner_evs)
        if fb_evs and (io is None or io[0] != 1):
            return "call %d: the fallback (event %s) was triggered although the inner service did not fail (%s)" % (
                k, fb_evs[0][1:], "no answer yet" if io is None else "answer %s" % (io,))
        if kind not in (0, 1, 2):
            # no result: fine unless the inner service answered and the future was polled after that (and, where the
            # strategy calls the backup service, was polled again after the backup's answer)
            if io is not None and io[0] in (0, 1) and k in polled_after_inner:
                needs_backup = io[0] == 1 and handled_fn(io[1]) and st == 4
                bo = backup_out.get(k)
                if not needs_backup or (bo is not None and bo[0] in (0, 1) and k in polled_after_backup):
                    what = {3: "panicked", 4: "was still unfinished when it was dropped", 5: "is unfinished"}.get(kind, "has kind %d" % kind)
                    return "call %d: the inner service answered %s and the future was polled afterwards, but the call %s" % (
                        k, io, what)
            continue
        if io is None or len(inner_evs) != 1:
            return "call %d completed without an answer of the inner service" % k
        if io[0] == 0:
            if (kind, payload) != (0, io[1]):
                return "call %d: a successful inner response %d was replaced by %s" % (k, io[1], (kind, payload))
            continue
        if io[0] != 1:
            continue
        e = io[1]
        strat_evs = [x for x in fb_evs if x[1] >= 2]
        if not handled_fn(e):
            if (kind, payload) != (1, e) or strat_evs:
                return "call %d: error %d refused by the predicate must come back unchanged as Inner, got %s, strategy events %s" % (
                    k, e, (kind, payload), strat_evs)
            continue
        if st == 4:
            bo = backup_out.get(k)
            bevs = [x for x in fb_evs if x[1] == 5]
            if bo is None or len(bevs) != 1 or bevs[0][2] != req:
                return "call %d: backup service must be called once with the original request %d (%s)" % (k, req, bevs)
            exp = (0, bo[1]) if bo[0] == 0 else (2, bo[1]) if bo[0] == 1 else None
            if exp is None:
                continue
        else:
            if any(x[1] == 5 for x in fb_evs):
                return "call %d: backup service called although the strategy is not Service" % k
            # value_fn: the harness's generator returns value + 1 + 100 * (the call being polled): the response must be what
            # the generator produced when invoked for THIS call, and it must have been invoked for it
            exp = {0: (0, v), 1: (0, v + 1 + 100 * k), 2: (0, 1000 + 3 * e), 3: (0, 2000 + 37 * req + e), 5: (1, 5000 + 7 * e)}[st]
            if st == 1 and not any(x[1] == 2 for x in fb_evs):
                return "call %d: value_fn fallback %s returned without invoking the generator for this call" % (k, (kind, payload))
        if (kind, payload) != exp:
            return "call %d (request %d, error %d): strategy %d produced %s, specified %s" % (k, req, e, st, (kind, payload), exp)
    if len(ready) != len(ready_errs):
        return "%d readiness checks, %d results" % (len(ready_errs), len(ready))
    for (kind, payload), e in zip(ready, ready_errs):
        ok = (kind, payload) == (1, e) or (st == 5 and handled_fn(e) and (kind, payload) == (1, 5000 + 7 * e))
        if not ok:
            return "readiness error %d came back as %s" % (e, (kind, payload))
    return None


def nontrivial(s, t):
    d = decode(t)
    if d is None:
        return False
    ops = ops_of(s)
    return any(o == 3 and f and outcome(b)[0] == 1 for (o, a, b), f in zip(ops, d[2]))


def classify(s, t):
    out = ["strategy%d" % s[0], "pred%d" % (s[1] % 4), "handle_first" if (s[1] >> 2) & 1 else "handle_last"]
    route = s[1] >> 3
    if route:
        out.append("route_convenience" if route & 16 and s[1] % 4 == 0 else "route_builder_variant")
        for bit, name in ((1, "name_first"), (2, "on_event_between"), (4, "name_on_event_last"), (8, "strategy_overridden")):
            if route & bit and not (route & 16 and s[1] % 4 == 0):
                out.append(name)
        if route & 32 and s[1] % 4 != 0:
            out.append("handle_overridden")
    ops = ops_of(s)
    out.append("ops_script" if len(s) > 8 else "single_call")
    d = decode(t)
    if d:
        calls, ready, flags, events = d
        out.append("calls_%d" % min(len(calls), 4))
        for (o, a, b), f in zip(ops, flags):
            if o == 3 and f:
                out.append(("inner_ok", "inner_err", "inner_panic")[outcome(b)[0]])
            if o == 4 and f:
                out.append(("backup_ok", "backup_err", "backup_panic")[outcome(b)[0]])
            if o in (3, 4) and not f:
                out.append("ineffective_done")
            if o == 5 and f:
                out.append("dropped")
            if o == 6:
                out.append("readiness_error")
        for kind, _ in calls:
            out.append("result_%d" % kind)
        # overlapping: a call created while an earlier one is unfinished
        if len(calls) > 1:
            out.append("overlapping_calls")
        out = sorted(set(out))
    return out


def shrink(s):
    if len(s) <= 8:
        return
    n = (len(s) - 8) // 3
    for i in range(n):
        yield s[:8 + 3 * i] + s[8 + 3 * (i + 1):8 + 3 * n]
    if s[1] >= 8:
        yield [s[0], s[1] % 8] + s[2:]
