"""C17 fallback: generator, independent monitor."""
PROP = "C17"
DRIVER = "c17"
MODEL = "C17"
MODEL_QUALID = "Model.Fallback.run_script"
FORMAT = "[strategy 0..5 (value,value_fn,from_error,from_request_error,service,exception); pred_mode mod 4: 0=none 1=even-errors 2=all 3=none-accepted, pred_mode >= 4: the builder calls handle() BEFORE the strategy setter; value; req; inner_kind 0=ok 1=err; inner_val; backup_kind; backup_val] -> [n_inner_calls; req_seen_by_inner; n_backup_calls; req_seen_by_backup; result_kind 0=Ok 1=Err(Inner) 2=Err(FallbackFailed); payload]"
RULE = "full grid strategies x predicates x inner/backup outcomes x payloads (finite, enumerated completely) plus random payloads; non-trivial = the inner call failed (a fallback decision is taken)"
TRUSTED = ["closures passed to the layer (fe, fre, fx, predicates) are mirrored by hand in Model/Fallback.v run_script and harness/src/bin/c17.rs"]
ASSUMPTIONS = ["backup service and strategy closures are deterministic functions of their arguments"]


def corpus():
    return [[4, 1, 9, 5, 1, 8, 1, 77], [0, 1, 9, 5, 1, 7, 0, 0]]


def generate(rng, tier):
    out = []
    for st in range(6):
        for pm in range(8):
            for ik in (0, 1):
                for iv in (6, 7):
                    for bk in (0, 1):
                        for req in (0, 5):
                            out.append([st, pm, 9, req, ik, iv, bk, 77])
    n = 200 if tier == "quick" else 5000
    for _ in range(n):
        out.append([rng.randrange(6), rng.randrange(8), rng.randrange(-50, 50), rng.randrange(-100, 100),
                    rng.randrange(2), rng.randrange(-1000, 1000), rng.randrange(2), rng.randrange(-1000, 1000)])
    return out


def monitor(s, t):
    """independent restatement of the property over the implementation's trace"""
    if len(t) != 6:
        return "malformed or panicking run: %s" % t
    st, pm, v, req, ik, iv, bk, bv = s
    n_in, req_in, n_b, req_b, kind, payload = t
    if n_in != 1 or req_in != req:
        return "inner service must be called exactly once with the original request"
    if ik == 0:
        if (kind, payload) != (0, iv + 11 * req) or n_b != 0:
            return "a successful inner response was replaced or triggered the fallback"
        return None
    e = iv
    handled = {0: True, 1: e % 2 == 0, 2: True, 3: False}[pm % 4]
    if not handled:
        if (kind, payload) != (1, e) or n_b != 0:
            return "error refused by the predicate must come back unchanged as Inner"
        return None
    exp = {0: (0, v), 1: (0, v + 1), 2: (0, 1000 + 3 * e), 3: (0, 2000 + 37 * req + e),
           4: ((0, bv + 13 * req) if bk == 0 else (2, bv)), 5: (1, 5000 + 7 * e)}[st]
    if (kind, payload) != exp:
        return "strategy %d produced %s, specified %s" % (st, (kind, payload), exp)
    if (st == 4) != (n_b == 1) or (st == 4 and req_b != req):
        return "backup service must be called iff strategy is Service, with the original request"
    return None


def nontrivial(s, t):
    return s[4] == 1


def classify(s, t):
    return ["strategy%d" % s[0], "pred%d" % (s[1] % 4), "handle_first" if s[1] >= 4 else "handle_last", "inner_err" if s[4] else "inner_ok"]
