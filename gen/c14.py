"""C14: backoff delays are total, monotone and capped.
Generator (script families: one configuration, increasing attempt numbers), decoder and an
independent monitor in exact rational arithmetic over the implementation's trace."""
import math
import struct
from fractions import Fraction

PROP = "C14"
DRIVER = "c14"
MODEL = "C14"
MODEL_QUALID = "Model.Backoff.run_script"
USES_F64 = True
FORMAT = ("script [kind; initial_ns; multiplier_bits (u64 pattern of the f64); has_cap; cap_ns; factor_bits; n; attempt x n; oracle x n] "
          "kind 0 FixedInterval, 1 ExponentialBackoff through RetryPolicy::next_backoff, 2 ExponentialRandomBackoff, "
          "3 ReconnectPolicy::exponential, 4 ReconnectPolicy::exponential_random, 5 ReconnectPolicy::fixed, 6 ReconnectPolicy::none, "
          "7 FnInterval through RetryPolicy and ReconnectPolicy::Custom, 8 ReconnectLayer end-to-end (attempt slot = [retries; step_ms; max; route]: "
          "max 0 = unlimited_attempts, v = max_attempts(v-1); route 0 = ReconnectPolicy::exponential(initial, cap), 1 = the builder's default policy), "
          "9 RetryLayer end-to-end (max 0 = max_attempts(retries+1), v = max_attempts(v); route 0 = .backoff(ExponentialBackoff), 1 = .exponential_backoff(initial), "
          "2 = the builder's default backoff). trace: per attempt [panicked; ns] (kinds 0,1,3,5,6; -1 = no delay), [panicked; jittered ns; un-jittered base ns] "
          "(kinds 2,4), [panicked; ns; panicked; ns] (kind 7); kinds 8,9: [panicked; inner calls; instant in ms of every call after the first]. "
          "All durations are total nanoseconds (up to 2^64*10^9-1). The oracle slot (jittered kinds) is filled by model_input with the values the "
          "implementation returned: the model echoes an oracle value iff it lies between its results for the two extreme draws.")
RULE = ("families = one configuration x a sorted list of attempts: {0..70, 100, 1000, 1023, 1024, 1025, 2^31-1, 2^31, 2^32, 2^63, usize::MAX} and random sorted lists; "
        "initial in {0, 1 ns, 1 ms, 100 ms, 1 s, 1 day, u64::MAX/4 s, random}; multipliers {1, 1+2^-52, 1.1, 1.5, 2, 3.3, 10, random in [1,10]}; "
        "caps none / below the initial / ms .. years / Duration::MAX; factors {0, 0.1, 0.5, 1, random, out-of-range (clamped)}; "
        "dense sweep of every attempt 0..10^4 (runs of 101 consecutive attempts): two configurations (plus two over 0..399) in quick, nine in thorough; "
        "attempts strictly between 10^4 and 2^31: log-uniform, with multipliers close to 1 (1+10^-U(1,9), 1+2^-U(7,20), 1+U*0.01) for which the product is still an "
        "ordinary number of seconds there (60 families in quick, 1200 in thorough, two ladders k*10^4 / k*10^3), and 10 % of the attempts of every random family; "
        "a few multipliers far outside [1,10] (1e10, 1e300, 1+2^-40); end-to-end loops of 20-300 retries and one of 66000 in quick (70000 for both layers in thorough: "
        "beyond u8/u16 counters), with max_attempts at usize::MAX / u32::MAX / small values, through the builders' default backoff, and with a first delay of "
        "Duration::MAX handed to tokio::time::sleep; the four upstream reproducers are in the corpus; "
        "non-trivial = some attempt in the family reaches the cap / saturates / hits the zero branch, or the family is jittered")
TRUSTED = ["Flocq 4.1.0 binary64 (b64_mult/plus/minus/div, binary_normalize, Bcompare) as the meaning of f64 arithmetic",
           "glue transcribed in Model/Backoff.v from the Rust sources: Duration::as_secs_f64, integer->f64 casts, compiler-builtins __powidf2 "
           "(and that LLVM lowers f64::powi to it on this target), Duration::try_from_secs_f64 (round half to even to ns, Err from 2^64 s), f64::max/clamp: "
           "all tied to the real thing only by this bit-exact correspondence run",
           "rand 0.9 random_range(lo..=hi) returns a value in [lo, hi] or panics when !(lo <= hi) or hi-lo is not finite (read from "
           "rand-0.9.5/src/distr/uniform_float.rs); the draw itself is an oracle",
           "end-to-end kinds: tokio::time::sleep fires at the first clock step at or after its deadline and accepts every Duration (far-future deadline on overflow)",
           "build profile: the harness is built once, `cargo build --release` with opt-level = 1 and overflow-checks = true (harness/Cargo.toml): arithmetic overflow in the "
           "loops' counters would panic as in a debug build; no other profile / target is part of the evidence (f64::powi lowering is profile-dependent in principle)",
           "loop counters beyond what can be executed (2^32 reconnect failures, usize::MAX retries) are covered by the theorems C14_retry_loop_total / "
           "C14_reconnect_loop_total over Model.Backoff.retry_step / reconnect_step, which kinds 8/9 tie to the real loops for the first <= 70000 steps; "
           "harness/src/bin/c16_soak.rs drives the real reconnect layer through 2^32 + 16 failures (not part of the registered check)"]
ASSUMPTIONS = ["well-formed configuration for the theorems and the monitor: multiplier finite and >= 1, factor in [0,1] (after ::new's clamp any non-NaN factor); "
               "ill-formed configurations are still compared bit-for-bit against the model",
               "no bound on the attempt number in the theorems (N); scripts carry usize values",
               "jittered kinds: checked by interval membership (a necessary condition for the existence of a draw)"]

NANOS = 10 ** 9
MS = 10 ** 6
DUR_MAX = 2 ** 64 * NANOS - 1
USIZE_MAX = 2 ** 64 - 1
JIT = (2, 4)


def bits(x):
    return struct.unpack("<Q", struct.pack("<d", x))[0]


def unbits(b):
    return struct.unpack("<d", struct.pack("<Q", b & (2 ** 64 - 1)))[0]


def mk(kind, ini, m, cap, f, attempts):
    return [kind, ini, bits(m), 0 if cap is None else 1, 0 if cap is None else cap, bits(f), len(attempts)] + list(attempts)


STD_ATTEMPTS = list(range(0, 71)) + [100, 1000, 1023, 1024, 1025, 2 ** 31 - 1, 2 ** 31, 2 ** 32, 2 ** 63, USIZE_MAX]
SHORT_ATTEMPTS = [0, 1, 2, 3, 5, 8, 13, 21, 34, 55, 67, 68, 69, 1024, 2 ** 31, USIZE_MAX]
INITIALS = [0, 1, MS, 100 * MS, NANOS, 86400 * NANOS, (USIZE_MAX // 4) * NANOS]
MULTS = [1.0, 1.0 + 2.0 ** -52, 1.5, 2.0, 10.0, 1.1, 3.3]
FACTORS = [0.0, 0.1, 0.5, 1.0]
YEAR = 365 * 86400 * NANOS


def caps_for(ini):
    return [None, max(0, ini // 2), ini, 5 * NANOS, 3600 * NANOS, 30 * YEAR, DUR_MAX]


def corpus():
    return [
        # upstream reproducers (fa2667d): 100 ms x2 capped at 5 s panicked at attempt 68
        mk(1, 100 * MS, 2.0, 5 * NANOS, 0.0, [66, 67, 68, 69, 70, 316]),
        mk(3, 100 * MS, 2.0, 5 * NANOS, 0.0, [66, 67, 68, 69, 70, 316]),
        # attempt usize::MAX wrapped to exponent -1 (50 ms); attempt 2^31 wrapped to i32::MIN (0)
        mk(1, 100 * MS, 2.0, 5 * NANOS, 0.0, [2 ** 31 - 1, 2 ** 31, 2 ** 32, USIZE_MAX]),
        mk(1, 100 * MS, 2.0, None, 0.0, [2 ** 31 - 1, 2 ** 31, 2 ** 32, USIZE_MAX]),
        # initial 0 with attempt 2000: 0 * inf = NaN panicked
        mk(1, 0, 2.0, None, 0.0, [0, 1, 2000]),
        mk(2, 0, 2.0, None, 0.5, [0, 1, 2000]),
        mk(4, 100 * MS, 2.0, 5 * NANOS, 0.5, [0, 1, 2, 7, 68, 2000, USIZE_MAX]),
        # ill-formed (NaN factor): ::new lets NaN through, random_range panics - model predicts it
        mk(2, 100 * MS, 2.0, None, float("nan"), [1, 2]),
        mk(0, 12345, 2.0, None, 0.0, [0, 7, USIZE_MAX]),
        mk(5, 12345, 2.0, None, 0.0, [0, 7, USIZE_MAX]),
        mk(6, 12345, 2.0, None, 0.0, [0, 7, USIZE_MAX]),
        mk(7, 12345, 2.0, None, 0.0, [0, 7, 5000, USIZE_MAX]),
        # end to end: default reconnect policy, 80 retries (upstream died at the 68th), 1 s clock steps
        mk(8, 100 * MS, 2.0, 5 * NANOS, 0.0, [80, 1000]),
        mk(9, 100 * MS, 2.0, 5 * NANOS, 0.0, [80, 1000]),
        # hours of virtual time: cap 1 h, one-minute clock steps
        mk(8, 100 * MS, 2.0, 3600 * NANOS, 0.0, [40, 60000]),
        # loop counters: more retries than a u8 holds (a narrowed counter restarts the schedule at 256)
        mk(8, MS, 2.0, 50 * MS, 0.0, [300, 10]),
        mk(9, MS, 2.0, 50 * MS, 0.0, [300, 10]),
        # max_attempts at the ends of its type: usize::MAX (retry), u32::MAX (reconnect: never exceeded
        # by the saturating counter), and small values (the loop stops early)
        mk(9, MS, 2.0, 20 * MS, 0.0, [40, 10, USIZE_MAX, 0]),
        mk(8, MS, 2.0, 20 * MS, 0.0, [40, 10, 2 ** 32, 0]),
        mk(9, MS, 2.0, 20 * MS, 0.0, [40, 10, 5, 0]),
        mk(8, MS, 2.0, 20 * MS, 0.0, [40, 10, 6, 0]),
        mk(8, MS, 2.0, 20 * MS, 0.0, [40, 10, 1, 0]),
        # the first sleep is as long as a Duration can be (the loops must hand it to tokio::time::sleep, which accepts it;
        # `sleep_until(Instant::now() + delay)` would overflow): retries = 0, so the run ends after the first poll
        mk(9, DUR_MAX, 2.0, None, 0.0, [0, 10, 2, 0]),
        mk(9, 10 ** 29, 2.0, None, 0.0, [0, 10, 5, 0]),
        mk(8, DUR_MAX, 2.0, DUR_MAX, 0.0, [0, 10]),
        mk(8, 10 ** 29, 2.0, DUR_MAX, 0.0, [0, 10, 7, 0]),
        # attempts between 10^4 and 2^31 with a multiplier close to 1: 2866 ns x 1.00011949^100000 = 0.44 s, far below the cap
        mk(1, 2866, 1.00011949, 93900000000000000, 0.0, [10 ** 4, 50000, 99999, 10 ** 5, 100001, 200000, 10 ** 6]),
        mk(2, 2866, 1.00011949, None, 0.3, [10 ** 4, 10 ** 5, 10 ** 6]),
        # the builders' own backoff: ReconnectConfig::builder() default policy (100 ms .. 5 s),
        # RetryConfigBuilder::exponential_backoff(initial) and the builder default (100 ms x2, no cap)
        mk(8, 0, 2.0, 0, 0.0, [12, 1000, 0, 1]),
        mk(9, 3 * MS, 2.0, None, 0.0, [14, 50, 0, 1]),
        mk(9, 0, 2.0, None, 0.0, [10, 100, 0, 2]),
    ]


def near_one(rng):
    """multipliers for which initial * m^attempt is an ordinary number of seconds at attempts 10^4 .. 10^7
    (1.0001^100000 = e^10): 1 + 10^-U(1,9), 1 + 2^-U(7,20), 1 + U * 0.01"""
    r = rng.random()
    if r < 0.4:
        return 1.0 + 10.0 ** -rng.uniform(1, 9)
    if r < 0.8:
        return 1.0 + 2.0 ** -rng.uniform(7, 20)
    return 1.0 + rng.random() * 0.01


def log_attempt(rng, lo=10 ** 4, hi=2 ** 31):
    """log-uniform attempt number in [lo, hi)"""
    return min(hi - 1, max(lo, int(math.exp(rng.uniform(math.log(lo), math.log(hi))))))


def rand_mult(rng):
    r = rng.random()
    if r < 0.45:
        return rng.choice(MULTS)
    if r < 0.7:
        return rng.uniform(1.0, 10.0)
    if r < 0.8:
        return 1.0 + rng.randrange(1, 2 ** 20) * 2.0 ** -52
    if r < 0.92:
        return near_one(rng)
    return unbits(bits(1.0) + rng.randrange(0, bits(10.0) - bits(1.0) + 1))


def rand_initial(rng):
    r = rng.random()
    if r < 0.5:
        return rng.choice(INITIALS)
    if r < 0.7:
        return rng.randrange(0, 10 * NANOS)
    if r < 0.9:
        return rng.randrange(0, 10 ** rng.randrange(1, 29)) % (DUR_MAX + 1)
    return DUR_MAX - rng.randrange(0, 4)


def rand_cap(rng, ini):
    r = rng.random()
    if r < 0.5:
        return rng.choice(caps_for(ini))
    if r < 0.75:
        return rng.randrange(0, 100 * NANOS)
    return rng.randrange(0, 10 ** rng.randrange(1, 29)) % (DUR_MAX + 1)


def rand_attempts(rng, n):
    out = set()
    while len(out) < n:
        r = rng.random()
        if r < 0.55:
            out.add(rng.randrange(0, 200))
        elif r < 0.73:
            out.add(rng.randrange(0, 10001))
        elif r < 0.83:
            out.add(log_attempt(rng))                     # strictly between 10^4 and 2^31
        elif r < 0.92:
            out.add(rng.choice([1023, 1024, 1025, 2 ** 31 - 2, 2 ** 31 - 1, 2 ** 31, 2 ** 32 - 1, 2 ** 32, 2 ** 63, USIZE_MAX - 1, USIZE_MAX]))
        else:
            out.add(rng.randrange(0, 2 ** 64))
    return sorted(out)


def rand_factor(rng):
    r = rng.random()
    if r < 0.6:
        return rng.choice(FACTORS)
    if r < 0.9:
        return rng.random()
    return rng.choice([-0.5, 1.5, 7.0, -0.0])     # clamped by ::new


def generate(rng, tier):
    out = []
    quick = tier == "quick"
    # systematic grid: the configurations named in the property, standard attempt list
    for ini in INITIALS:
        for m in MULTS[:5] if quick else MULTS:
            for cap in (caps_for(ini)[:5] if quick else caps_for(ini)):
                att = SHORT_ATTEMPTS if quick and (ini, m) != (100 * MS, 2.0) else STD_ATTEMPTS
                out.append(mk(1, ini, m, cap, 0.0, att))
    for ini in INITIALS:
        for cap in caps_for(ini)[1:]:
            out.append(mk(3, ini, 2.0, cap, 0.0, STD_ATTEMPTS if not quick else SHORT_ATTEMPTS))
            for f in FACTORS:
                out.append(mk(4, ini, 2.0, cap, f, SHORT_ATTEMPTS))
    for ini in INITIALS:
        for m in (2.0, 1.5, 10.0):
            for f in FACTORS:
                for cap in (None, 5 * NANOS, DUR_MAX):
                    out.append(mk(2, ini, m, cap, f, SHORT_ATTEMPTS))
    # random families
    n = 350 if quick else 6000
    for _ in range(n):
        kind = rng.choice([1, 1, 1, 2, 3, 4])
        ini = rand_initial(rng)
        cap = rand_cap(rng, ini)
        if kind in (3, 4) and cap is None:
            cap = 5 * NANOS
        att = rand_attempts(rng, rng.randrange(2, 24 if quick else 40))
        out.append(mk(kind, ini, rand_mult(rng), cap, rand_factor(rng), att))
    for _ in range(10 if quick else 100):
        att = rand_attempts(rng, 6)
        ini = rand_initial(rng)
        out.append(mk(rng.choice([0, 5, 6, 7]), min(ini, DUR_MAX - 1000), 2.0, None, 0.0, att))
    # attempts strictly between 10^4 and 2^31 with multipliers close to 1: the band in which the product is an
    # ordinary number of seconds long after the dense sweep ends ("grown but not yet capped")
    for _ in range(60 if quick else 1200):
        m = near_one(rng)
        # an attempt range in which initial * m^a moves from about the initial to about 10^12 x initial
        top = min(2 ** 31, max(2 * 10 ** 4, int(27.6 / math.log(m)))) if m > 1.0 else 2 ** 31
        att = sorted({log_attempt(rng, 10 ** 4, top) for _ in range(20)} | {10 ** 4, top - 1, top, 2 * top} |
                     {rng.choice([20000, 65535, 65536, 10 ** 5, 10 ** 6, 10 ** 7]) for _ in range(2)})
        ini = int(10 ** rng.uniform(0, 9)) if rng.random() < 0.8 else rand_initial(rng)
        cap = rng.choice([None, None, DUR_MAX, 30 * YEAR, 3600 * NANOS, min(DUR_MAX, int(ini * 10 ** rng.uniform(0, 14)))])
        kind = rng.choice([1, 1, 1, 2])
        out.append(mk(kind, ini, m, cap, rand_factor(rng), att))
    # two fixed ladders: m = 1 + 2^-20 at every 10^4-th attempt up to 10^7, m = 1.0001 at every 10^3-th up to 10^6
    if not quick:
        out.append(mk(1, 1000, 1.0 + 2.0 ** -20, None, 0.0, [k * 10 ** 4 for k in range(0, 1001)]))
        out.append(mk(1, 2866, 1.0001, 3 * YEAR, 0.0, [k * 10 ** 3 for k in range(0, 1001)]))
    else:
        out.append(mk(1, 1000, 1.0 + 2.0 ** -20, None, 0.0, [k * 10 ** 5 for k in range(0, 101)]))
        out.append(mk(1, 2866, 1.0001, 3 * YEAR, 0.0, [k * 10 ** 4 for k in range(0, 101)]))
    # multipliers that are well-formed (finite, >= 1) but far outside [1, 10]: overflow to +inf after a
    # few attempts (1e300: at attempt 2), or barely above 1
    for m in (1e10, 1e300, 1.0 + 2.0 ** -40):
        for ini, cap in ((MS, None), (100 * MS, 5 * NANOS), (1, DUR_MAX)):
            out.append(mk(1, ini, m, cap, 0.0, SHORT_ATTEMPTS))
            out.append(mk(2, ini, m, cap, 0.5, SHORT_ATTEMPTS))
    # dense sweep: EVERY attempt 0..10^4, in runs of 101 consecutive attempts
    dense = [(1, 100 * MS, 2.0, 5 * NANOS), (1, NANOS, 1.0 + 2.0 ** -12, None)]
    if quick:
        for ini, m, cap in ((MS, 1.5, None), (NANOS, 1.0 + 2.0 ** -52, None)):
            for lo in range(0, 400, 100):
                out.append(mk(1, ini, m, cap, 0.0, list(range(lo, lo + 100))))
    else:
        dense += [(1, 100 * MS, 2.0, None), (1, MS, 1.5, None), (1, 1, 10.0, 30 * YEAR), (1, NANOS, 1.0 + 2.0 ** -52, None),
                  (1, 86400 * NANOS, 1.1, None), (1, 123456789, 3.3, 3600 * NANOS), (3, 100 * MS, 2.0, 5 * NANOS)]
    for kind, ini, m, cap in dense:
        for lo in range(0, 10000, 100):
            out.append(mk(kind, ini, m, cap, 0.0, list(range(lo, lo + 101))))
    # end to end: (kind, initial, multiplier, cap, retries, step_ms, max, route)
    e2e = [(8, 100 * MS, 2.0, 5 * NANOS, 30, 250, 0, 0), (9, 100 * MS, 2.0, 5 * NANOS, 30, 250, 0, 0), (9, MS, 10.0, 2 * NANOS, 30, 100, 0, 0),
           (9, 7 * MS, 1.5, None, 20, 50, 0, 0), (8, 3 * MS, 2.0, 700 * MS, 75, 7, 0, 0),
           (8, MS, 2.0, 64 * MS, 300, 8, 0, 0), (9, 2 * MS, 1.5, 60 * MS, 300, 10, USIZE_MAX, 0),
           (8, 2 * MS, 2.0, 50 * MS, 60, 10, 2 ** 32, 0), (8, 2 * MS, 2.0, 50 * MS, 60, 10, rng.randrange(1, 40), 0),
           (9, 2 * MS, 2.0, 50 * MS, 60, 10, rng.randrange(1, 40), 0),
           (8, 0, 2.0, 0, rng.randrange(5, 15), 500, 0, 1), (9, rng.randrange(1, 20) * MS, 2.0, None, 12, 20, 0, 1),
           (9, 0, 2.0, None, rng.randrange(5, 11), 100, 0, 2),
           (9, DUR_MAX - rng.randrange(0, 10 ** 20), 2.0, None, 0, 10, 3, 0), (8, DUR_MAX - rng.randrange(0, 10 ** 20), 2.0, DUR_MAX, 0, 10, 0, 0)]
    # more retries than a u16 holds (reconnect; the retry loop's turn is in thorough): cap = 3 clock steps, so that a
    # restarted schedule shows as a drop of more than one step
    e2e.append((8, MS, 2.0, 24 * MS, 66000, 8, 0, 0))
    if not quick:
        e2e += [(8, 100 * MS, 2.0, 5 * NANOS, 200, 1000, 0, 0), (9, 100 * MS, 2.0, 60 * NANOS, 100, 1000, 0, 0),
                (8, MS, 2.0, 86400 * NANOS, 45, 600000, 0, 0),
                # more retries than a u16 holds, one clock step per retry once the cap is reached
                # (cap = 3 clock steps, so that a restarted schedule shows as a drop of more than one step)
                (8, MS, 2.0, 24 * MS, 70000, 8, 0, 0), (9, MS, 2.0, 24 * MS, 70000, 8, USIZE_MAX, 0)]
    for kind, ini, m, cap, k, step, mx, route in e2e:
        out.append(mk(kind, ini, m, cap, 0.0, [k, step] if (mx, route) == (0, 0) else [k, step, mx, route]))
    return out


# ---------------------------------------------------------------- decoding
def parse(s):
    s = list(s) + [0] * max(0, 7 - len(s))
    kind, ini, mb, has_cap, cap, fb, n = s[:7]
    n = max(0, n)
    g = lambda i: s[i] if 0 <= i < len(s) else 0
    att = [min(max(g(7 + i), 0), USIZE_MAX) for i in range(n)]
    return dict(kind=kind, ini=max(0, ini), m=unbits(mb), cap=(cap if has_cap else None), f=unbits(fb), n=n, att=att)


def width(kind):
    return {0: 2, 1: 2, 3: 2, 5: 2, 6: 2, 2: 3, 4: 3, 7: 4}.get(kind, 0)


def model_input(s, impl):
    """oracle for the jittered kinds: the values the implementation returned"""
    p = parse(s)
    if p["kind"] not in JIT:
        return s
    base = list(s[:7 + p["n"]]) + [0] * max(0, 7 + p["n"] - len(s))
    orc = [(impl[3 * i + 1] if 3 * i + 1 < len(impl) else 0) for i in range(p["n"])]
    return base + orc


def wellformed(p):
    m, f = (p["m"] if p["kind"] in (1, 2) else 2.0), p["f"]
    return (not math.isnan(m)) and 1.0 <= m < math.inf and not math.isnan(f)


def exact_value(ini, m, a):
    """initial * m^a in nanoseconds as integers (N, D, extra) meaning N/D with a relative slack of
    extra * 2^-52; exact (extra = 0) when affordable; None when the product is far beyond 2^64 s"""
    if ini == 0:
        return 0, 1, 0
    if m == 1.0:
        return ini, 1, 0
    lg = a * math.log2(m) + math.log2(ini / 1e9)
    if lg > 70:
        return None
    M = Fraction(m)
    if a <= 2000:
        return ini * M.numerator ** a, M.denominator ** a, 0
    # large exponent (the multiplier is then within 2^-4 of 1): exp/log1p in double precision,
    # relative error below 1e-13 since |a*log1p(m-1)| < 50
    v = Fraction(math.exp(a * math.log1p(m - 1.0)))
    return ini * v.numerator, v.denominator, 1000


def monitor(s, t):
    """independent restatement of the property over the implementation's trace"""
    p = parse(s)
    kind = p["kind"]
    if t == [-999] or t == [-998]:
        return "the driver panicked / died outside an attempt"
    if kind in (8, 9):
        k = p["att"][0] if p["att"] else 0
        mx = p["att"][2] if len(p["att"]) > 2 else 0
        route = p["att"][3] if len(p["att"]) > 3 else 0
        if len(t) < 2 or t[0] != 0:
            return "retry/reconnect loop panicked or produced no trace: %s" % t[:4]
        # the loop keeps going until the configured number of attempts is used up (or for ever)
        # (reconnect, /repo 4ccf9b3: max_attempts(u32::MAX) is a bound too: 2^32 calls)
        limit = (k + 1 if mx == 0 else mx) if kind == 9 else (None if mx == 0 else mx)
        calls = k + 1 if limit is None else min(k + 1, max(1, limit))
        if t[1] != calls or len(t) != 1 + calls:
            return "loop against a dead backend made %d calls, expected %d" % (t[1], calls)
        inst = [0] + t[2:]
        if any(b < a for a, b in zip(inst, inst[1:])):
            return "call instants not monotone"
        cap = p["cap"]
        if route != 0:
            cap = 5 * NANOS if kind == 8 else None
        if cap is not None:
            p = dict(p, cap=cap)
            step = p["att"][1]
            gaps = [b - a for a, b in zip(inst, inst[1:])]
            if any(g * MS > p["cap"] + step * MS for g in gaps):
                return "a gap between attempts exceeds the cap"
            if any(g2 < g1 - step for g1, g2 in zip(gaps, gaps[1:])):
                return "gaps between attempts decrease"
        return None
    w = width(kind)
    if w == 0:
        return None
    if len(t) != w * p["n"]:
        return "malformed trace (length %d, expected %d)" % (len(t), w * p["n"])
    rows = [t[w * i:w * i + w] for i in range(p["n"])]
    wf = wellformed(p)
    if kind in (0, 5, 6, 7):
        for a, r in zip(p["att"], rows):
            if r[0] != 0 or (kind == 7 and r[2] != 0):
                return "panic at attempt %d" % a
            exp = {0: p["ini"], 5: p["ini"], 6: -1, 7: p["ini"] + a % 1000}[kind]
            if r[1] != exp or (kind == 7 and r[3] != exp):
                return "fixed/custom/none policy returned %s at attempt %d, expected %d" % (r, a, exp)
        return None
    if not wf:
        return None     # outside the property's configurations; still compared against the model
    cap = p["cap"] if p["cap"] is not None else DUR_MAX
    m = p["m"] if kind in (1, 2) else 2.0
    f = min(max(p["f"], 0.0), 1.0)
    prev = None
    for a, r in zip(p["att"], rows):
        if r[0] != 0:
            return "panic at attempt %d" % a
        base = r[1] if kind in (1, 3) else r[2]
        if base < 0 or base > cap:
            return "attempt %d: delay %d ns above the cap %d" % (a, base, cap)
        if prev is not None and prev[0] <= a and base < prev[1]:
            return "not monotone: attempt %d -> %d ns, attempt %d -> %d ns" % (prev[0], prev[1], a, base)
        prev = (a, base)
        ev = exact_value(p["ini"], m, min(a, 2 ** 31 - 1))
        if ev is None:
            if base != cap:
                return "attempt %d: product is far above the cap but the delay is %d, not the cap %d" % (a, base, cap)
        else:
            N, D, extra = ev
            rel = min(a, 2 ** 31 - 1) + 3 + extra          # in units of 2^-52 (C14_real_value / C14_real_capped)
            T = 2 ** 52
            lo_ok = (base + 1) * D * T >= N * (T - rel)     # base >= v(1-rel) - 1
            hi_ok = (base - 1) * D * T <= N * (T + rel)     # base <= v(1+rel) + 1
            if N * (T + rel) + D * T < cap * D * T:         # v(1+rel) + 1 < cap: the cap cannot intervene
                if not (lo_ok and hi_ok):
                    return "attempt %d: delay %d ns is not initial*multiplier^attempt = %s ns within %d*2^-52" % (
                        a, base, N // D, rel)
            elif N * (T - rel) - D * T > cap * D * T:       # v(1-rel) - 1 > cap: must be capped
                if base != cap:
                    return "attempt %d: product exceeds the cap but the delay is %d, not the cap %d" % (a, base, cap)
            elif not (lo_ok or base == cap):
                return "attempt %d: delay %d ns neither the product nor the cap" % (a, base)
        if kind in JIT:
            j = r[1]
            F = Fraction(f)
            tol = Fraction(base, 2 ** 49) + 1               # C14_jitter_real
            if not (base * (1 - F) - tol <= j <= min(base * (1 + F) + tol, DUR_MAX)):
                return "attempt %d: jittered delay %d ns outside [%s, %s] (base %d, factor %s)" % (
                    a, j, float(base * (1 - F)), float(base * (1 + F)), base, f)
    return None


def nontrivial(s, t):
    p = parse(s)
    if p["kind"] in JIT or p["kind"] in (8, 9):
        return True
    if p["kind"] not in (1, 3):
        return False
    cap = p["cap"] if p["cap"] is not None else DUR_MAX
    vals = t[1::2]
    return any(v == cap for v in vals) or (p["ini"] > 0 and any(v == 0 for v in vals))


def classify(s, t):
    p = parse(s)
    out = ["kind%d" % p["kind"]]
    if p["kind"] in (1, 2, 3, 4):
        ini = p["ini"]
        out.append("initial=0" if ini == 0 else "initial<1ms" if ini < MS else "initial<=1s" if ini <= NANOS
                   else "initial<=1day" if ini <= 86400 * NANOS else "initial>1day")
        m = p["m"] if p["kind"] in (1, 2) else 2.0
        out.append("mult=1" if m == 1.0 else "mult<1+2^-30" if m < 1 + 2.0 ** -30 else "mult<2" if m < 2 else "mult=2" if m == 2
                   else "mult<=10" if m <= 10 else "mult other")
        out.append("cap none" if p["cap"] is None else "cap<initial" if p["cap"] < ini else "cap=max" if p["cap"] == DUR_MAX else "cap finite")
        mx = max(p["att"]) if p["att"] else 0
        if any(10 ** 4 < a < 2 ** 31 - 2 for a in p["att"]):
            out.append("some attempt in (10^4, 2^31-2)")
        out.append("attempts<=70" if mx <= 70 else "attempts<=10^4" if mx <= 10 ** 4 else "attempts<2^31" if mx < 2 ** 31 else "attempts>=2^31")
        w = width(p["kind"])
        cap = p["cap"] if p["cap"] is not None else DUR_MAX
        vals = t[1::2] if w == 2 else t[2::3]
        if any(v == cap for v in vals):
            out.append("reaches cap")
        if any(x == 1 for x in t[0::w]):
            out.append("panic")
    if p["kind"] in JIT:
        f = p["f"]
        out.append("factor nan" if math.isnan(f) else "factor=0" if f == 0 else "factor=1" if f == 1 else "factor in (0,1)" if 0 < f < 1 else "factor clamped")
    return out


def shrink(s):
    p = parse(s)
    if p["kind"] in (8, 9):
        return
    n = p["n"]
    head = list(s[:6])
    att = list(s[7:7 + n])
    if n > 2:
        for i in range(n):
            a2 = att[:i] + att[i + 1:]
            yield head + [len(a2)] + a2
    if n > 4:
        yield head + [n // 2] + att[:n // 2]
        yield head + [n - n // 2] + att[n // 2:]
