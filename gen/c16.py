"""C16: reconnect retries only connection failures, a bounded number of times.
Generator, trace decoder and an independent monitor over the implementation's trace."""
import itertools

PROP = "C16"
DRIVER = "c16"
MODEL = "C16"
MODEL_QUALID = "Model.Reconnect.run_script"
FORMAT = ("script [has_max(bit0: 1 max_attempts(max), 0 unlimited; has_max//2: 0 one service per request, 1 all requests through one ReconnectService, 2 through clones of one); max; "
          "pred_mode(0 none,1 error flag,2 code even,3 never); policy(0 None,1 Fixed p1,2 Custom table,3 exponential p1..p2 ms); p1; p2; "
          "retry(bit0: retry_on_reconnect; //2 != 0: calls beyond L fail with a connection failure for ever); nreq; L; "
          "delay x L (Custom: delay for attempt k); nreq blocks [(okind(0 ok,1 err flagged connection failure,2 err flagged other) payload gated(0 immediate,1 on Complete) ready(0 ok,1 error 100000+payload,2 pending until MakeReady)) x L]; "
          "(op a)*] op 1=Poll a 2=Advance a(ms) 3=Complete a 4=MakeReady a 5=Call a. Durations (p1 of Fixed, delay table): below 2^40 milliseconds, 2^40+n = n nanoseconds. "
          "trace: per event [r(-1 no poll,0 pending,1 Ok,2 Err,5 poll panicked,9 nothing to poll); kind(1 MaxAttemptsExceeded,2 ConnectionFailed,3 ConnectionFailedNoRetry,4 ServiceError); payload; attempts; wake mask; "
          "published state(0 connected,1 disconnected,2 reconnecting); inner calls started; finished; hash of the on_state_change `to` states of the event; hash of the on_reconnect attempt numbers] "
          "++ per request [ncalls; (start_ms, end_ms|-1) per inner call] ++ [calls on an instance not polled ready]")
RULE = ("structured schedules (call / complete / poll / advance-by-the-delay / make-ready rounds over 1-3 requests sharing the published state, random omissions and late polls; "
        "requests through separate services, one shared service or its clones) + uniformly random event lists "
        "+ all outcome streams up to a small length x max_attempts {0,1,2,none} x policy {none,fixed,custom,exponential} x retry flag x predicate "
        "+ delays that are not whole milliseconds (1 ns .. 2.9 ms, polled every millisecond) + long delays (minutes to 2^36 ms, polled one millisecond before and at the deadline) "
        "+ bursts of 130-300 zero-delay failures in one poll (tokio's cooperative budget of 128 per poll, incl. gated calls and a positive delay at the budget edge) "
        "+ one run of 10^4 calls compared with the model, and marathon runs of 66000-70000 calls (max_attempts 65600 / 70000 / unlimited) judged by the monitor alone "
        "(the unary-nat model cannot run them; model_input gives the model an empty script and compare skips them); "
        "non-trivial = some request saw a reconnectable failure (a reconnect decision is taken)")
TRUSTED = ["tokio::time::sleep (ready at the first poll at or after the deadline rounded UP to a whole millisecond), oneshot wake-ups, and tokio's cooperative budget "
           "(128 completed Sleep/oneshot operations per poll of a task; the next one returns Pending after waking the task itself): modelled in Lib/TokioTime.v + Model/Reconnect.v drive, tied to the library only by this correspondence run",
           "the scripted inner service, error type (Display-parsed by the predicates) and policy closures in harness/src/bin/c16.rs mirror Model/Reconnect.v run_script",
           "ReconnectPolicy::exponential modelled as min(initial * 2^attempt, max) for whole-ms values (the f64 arithmetic itself is C14)"]
ASSUMPTIONS = ["polls and clock advances happen at whole-millisecond instants (delays are arbitrary nanosecond values below 2^40 ms; Duration::MAX, which tokio turns into a 30-year sleep, is not driven)",
               "runs of 2^32 failures cannot be executed by a check: the counter's behaviour there (saturation, an overflowing count exceeds every max_attempts, repo fixes 0c0148b and 4ccf9b3) is modelled exactly and proved (C16_exceeded_u32, C16_overflowing_count_exceeds_every_max) but a revert of those fixes is not found by this check; harness/src/bin/c16_soak.rs executes it in ~13 minutes",
               "every poll of a call future starts with the cooperative budget of a fresh task poll (128), as under any tokio executor; a future polled inside tokio::task::unconstrained is outside the model",
               "the jittered policy (ExponentialRandom) is covered by the single-request theorems (any delay function of the attempt number) but not by the correspondence run; in the step machine all requests share one policy function",
               "the `attempts` field and the variant of the returned ReconnectError are pinned by the model comparison only: the property asks for an error wrapping the last inner error"]


def build(has_max, mx, pred, policy, p1, p2, retry, delays, reqs, evs):
    L = len(delays)
    s = [has_max, mx, pred, policy, p1, p2, retry, len(reqs), L] + list(delays)
    for entries in reqs:
        assert len(entries) == L
        for e in entries:
            s += list(e)
    for e in evs:
        s += list(e)
    return s


FLAG = 1 << 40
MS = 1000000


def ns_of(e):
    """duration encoding shared with Lib/TokioTime.v and the driver"""
    return max(0, e) * MS if e < FLAG else e - FLAG


def parse(s):
    s = list(s) + [0] * max(0, 9 - len(s))
    has_max, mx, pred, policy, p1, p2, retry, n, L = s[:9]
    n, L = max(0, n), max(0, L)
    g = lambda i: s[i] if 0 <= i < len(s) else 0
    delays = [ns_of(g(9 + k)) for k in range(L)]
    blk = 4 * L
    reqs = []
    for i in range(n):
        base = 9 + L + i * blk
        reqs.append([tuple(g(base + 4 * k + j) for j in range(4)) for k in range(L)])
    rest = s[9 + L + n * blk:]
    evs = []
    for j in range(0, len(rest) - 1, 2):
        op, a = rest[j], rest[j + 1]
        if op in (1, 3, 4, 5) and 0 <= a < n:
            evs.append((op, a))
        elif op == 2:
            evs.append((op, a))
    return dict(max=(max(0, mx) if has_max % 2 else None), handle=has_max // 2, pred=pred, policy=policy, p1=p1, p2=max(0, p2),
                retry=retry % 2 != 0, tail=retry // 2 != 0, n=n, L=L, delays=delays, reqs=reqs, evs=evs)


W = 10


def decode(s, t):
    p = parse(s)
    ne = len(p["evs"])
    if len(t) < W * ne + p["n"] + 1:
        return None
    evt = [t[W * k:W * k + W] for k in range(ne)]
    pos = W * ne
    calls = []
    for i in range(p["n"]):
        if pos >= len(t):
            return None
        c = t[pos]; pos += 1
        if c < 0 or pos + 2 * c > len(t):
            return None
        calls.append([(t[pos + 2 * j], t[pos + 2 * j + 1]) for j in range(c)])
        pos += 2 * c
    if pos != len(t) - 1:
        return None
    return p, evt, calls, t[-1]


def entry(p, i, k):
    ent = p["reqs"][i]
    return ent[k] if k < len(ent) else ((1, k, 0, 0) if p["tail"] else (0, 0, 0, 0))


def terminal(p, i, k):
    """the outcome of call k ends the request whatever happens next: success, an error the predicate does not
    classify as a connection failure, a failure beyond max_attempts, or no delay from the policy"""
    e = entry(p, i, k)
    return (e[0] == 0 or not reconnectable(p, e) or (p["max"] is not None and k + 1 > p["max"])
            or delay(p, k + 1) is None)


def reconnectable(p, e):
    kind, payload = e[0], e[1]
    if kind == 0:
        return False
    return {0: True, 1: kind == 1, 2: payload % 2 == 0}.get(p["pred"], False)


def delay(p, attempt):
    """ReconnectPolicy::delay_for_attempt restated, in nanoseconds; None = no delay"""
    if p["policy"] == 0:
        return None
    if p["policy"] == 1:
        return ns_of(p["p1"])
    if p["policy"] == 2:
        return p["delays"][attempt] if attempt < p["L"] else 0
    return min(max(0, p["p1"]) * 2 ** attempt, p["p2"]) * MS


def monitor(s, t):
    """C16 and nothing more: (a) at most max_attempts+1 inner calls (when limited); (b) a call is
    retried only after an error the predicate classifies as a connection failure (and only when
    retry_on_reconnect / the policy allow a retry at all); (c) the retry starts no earlier than the
    failure + the policy's delay; (d) the future returns the first success, or an error carrying the
    last inner error (which variant and its `attempts` counter are not the property's business; the
    readiness error of the service before a retry is accepted, as the repaired code returns it);
    it gives up after a connection failure only for a reason the statement allows (max_attempts,
    no delay from the policy, retry_on_reconnect off, service not ready); a request whose newest call
    ended with an outcome that ends it (success, other error, beyond max_attempts, no delay) has returned,
    or at least has woken itself to do so;
    (e) the published state is connected right after a success, and - for ONE request, as the
    statement says: scripts in which exactly one request is ever submitted - not connected while a
    connection failure of that request is being handled.
    Which non-connected value is published, the state before anything happened, after a
    no-retry return etc. are pinned by the model comparison only."""
    d = decode(s, t)
    if d is None:
        return "malformed or panicking run: %s" % t[:12]
    p, evt, calls, viol = d
    n = p["n"]
    if viol != 0:
        return "inner service called %d times on an instance that was not polled ready" % viol
    returned = {}
    now = 0
    submitted = sorted({a for (op, a) in p["evs"] if op in (1, 5)})
    single = submitted[0] if len(submitted) == 1 else None     # "for one request": exactly one was ever submitted
    for k, ((op, a), o) in enumerate(zip(p["evs"], evt)):
        r, kind, payload, attempts, mask, cs, started, finished = o[:8]
        if op == 2:
            now += max(0, a)
        if op == 1:
            if r == 5:
                return "request %d: the poll panicked instead of returning a result (event %d)" % (a, k)
            if r in (1, 2):
                if a in returned:
                    return "request %d returned twice" % a
                returned[a] = (r, kind, payload, attempts, k, now)
            if r == 1 and cs != 0:
                return "request %d succeeded but the published state is %d, not connected" % (a, cs)
        if single is not None and finished >= 1 and single not in returned:
            # one request: it has observed the outcome of call finished-1 and has not returned
            last = entry(p, single, finished - 1)
            if reconnectable(p, last) and cs == 0:
                return "a connection failure is being handled (call %d) but the published state is connected (event %d)" % (finished - 1, k)
    for i in range(n):
        cs_ = calls[i]
        nc = len(cs_)
        if p["max"] is not None and nc > p["max"] + 1:
            return "request %d: %d inner calls with max_attempts %d" % (i, nc, p["max"])
        if (nc >= 1 and i not in returned and cs_[nc - 1][1] >= 0 and terminal(p, i, nc - 1)
                and evt and not (evt[-1][4] >> i) & 1):
            # the outcome was observed inside a poll of the request; the future is still pending and nothing
            # has woken it (a future that merely yields once more before returning has its wake flag set)
            return "request %d observed the terminal outcome %s of call %d but has not returned" % (i, entry(p, i, nc - 1)[:2], nc - 1)
        for k in range(nc - 1):
            e = entry(p, i, k)
            if not reconnectable(p, e):
                return "request %d: call %d followed outcome %s which is not a connection failure" % (i, k + 1, e[:2])
            if not p["retry"]:
                return "request %d retried although retry_on_reconnect is false" % i
            dl = delay(p, k + 1)
            if dl is None:
                return "request %d retried although the policy gives no delay" % i
            st, en = cs_[k]
            if en < 0:
                return "request %d: call %d started while call %d still in flight" % (i, k + 1, k)
            if cs_[k + 1][0] * MS < en * MS + dl:
                return "request %d: call %d started at %d ms, earlier than failure at %d ms + delay %d ns" % (i, k + 1, cs_[k + 1][0], en, dl)
        if i in returned:
            r, kind, payload, attempts, k, tret = returned[i]
            if nc < 1:
                return "request %d returned without an inner call" % i
            last = entry(p, i, nc - 1)
            if cs_[nc - 1][1] < 0:
                return "request %d returned while its last inner call was in flight" % i
            if last[0] == 0:
                exp = (1, last[1])
            elif (not reconnectable(p, last) or (p["max"] is not None and nc > p["max"])
                  or delay(p, nc) is None or not p["retry"]):
                exp = (2, last[1])
            else:
                nxt = entry(p, i, nc)
                if nxt[3] != 1:
                    return "request %d gave up after a connection failure (attempt %d) although it must retry" % (i, nc)
                if (r, payload) == (2, last[1]):
                    continue          # the last inner error is as good as the readiness error
                exp = (2, 100000 + nxt[1])
            if (r, payload) != exp:
                return "request %d returned %s, the last outcome it observed is %s" % (i, (r, payload), exp)
    return None


# ---------------------------------------------------------------- generators
def corpus():
    e = lambda kind, pay, gated=0, ready=0: (kind, pay, gated, ready)
    out = []
    # two connection failures then success, fixed delay 5, prompt polling
    out.append(build(1, 3, 0, 1, 5, 0, 1, [0, 0, 0], [[e(1, 11), e(1, 12), e(0, 13)]],
                     [(1, 0), (2, 5), (1, 0), (2, 5), (1, 0)]))
    # max_attempts 1: the second failure exceeds
    out.append(build(1, 1, 0, 2, 0, 0, 1, [0, 3, 4], [[e(1, 1), e(1, 2), e(0, 3)]],
                     [(5, 0), (2, 2), (1, 0), (2, 3), (1, 0)]))
    # max_attempts 0
    out.append(build(1, 0, 0, 1, 1, 0, 1, [0], [[e(1, 7)]], [(1, 0)]))
    # policy None -> ConnectionFailed ; retry_on_reconnect false -> NoRetry after the delay
    out.append(build(0, 0, 0, 0, 0, 0, 1, [0], [[e(1, 7)]], [(1, 0)]))
    out.append(build(0, 0, 0, 1, 4, 0, 0, [0], [[e(1, 7)]], [(1, 0), (2, 3), (1, 0), (2, 1), (1, 0)]))
    # predicate: other error is a ServiceError, state untouched
    out.append(build(0, 0, 1, 1, 2, 0, 1, [0, 0, 0], [[e(1, 1), e(2, 2), e(0, 3)]], [(1, 0), (2, 2), (1, 0)]))
    # exponential 2..16, unlimited, four failures
    out.append(build(0, 0, 0, 3, 2, 16, 1, [0] * 6, [[e(1, 1), e(1, 2), e(1, 3), e(1, 4), e(0, 5), e(0, 6)]],
                     [(1, 0), (2, 4), (1, 0), (2, 8), (1, 0), (2, 16), (1, 0), (2, 15), (1, 0), (2, 1), (1, 0)]))
    # readiness error / pending readiness; two requests share the state
    out.append(build(1, 5, 0, 1, 1, 0, 1, [0, 0, 0], [[e(1, 1), e(0, 2, 0, 1), e(0, 3)], [e(1, 11, 1), e(0, 12, 1, 2), e(0, 13)]],
                     [(1, 0), (1, 1), (3, 1), (1, 1), (2, 1), (1, 0), (1, 1), (4, 1), (1, 1), (3, 1), (1, 1)]))
    # delays of 1 ns, 0.999999 ms, 1.000001 ms, 1.9 ms (Custom): the timer fires at the next whole millisecond
    out.append(build(0, 0, 0, 2, 0, 0, 1, [0, FLAG + 1, FLAG + 999999, FLAG + 1000001, FLAG + 1900000, FLAG + 0],
                     [[e(1, 1), e(1, 2), e(1, 3), e(1, 4), e(1, 5), e(0, 6)]],
                     [(1, 0), (1, 0), (2, 1), (1, 0), (1, 0), (2, 1), (1, 0), (2, 1), (1, 0), (2, 1), (1, 0), (2, 1), (1, 0), (2, 1), (1, 0), (2, 1), (1, 0)]))
    # Fixed 0.5 ms
    out.append(build(1, 3, 0, 1, FLAG + 500000, 0, 1, [0, 0, 0], [[e(1, 1), e(1, 2), e(0, 3)]], [(1, 0), (1, 0), (2, 1), (1, 0), (2, 1), (1, 0)]))
    # one minute, one hour, 2^36 ms
    out.append(build(0, 0, 0, 2, 0, 0, 1, [0, 61000, 3600000, 2 ** 36 + 7], [[e(1, 1), e(1, 2), e(1, 3), e(0, 4)]],
                     [(1, 0), (2, 60999), (1, 0), (2, 1), (1, 0), (2, 3599999), (1, 0), (2, 1), (1, 0), (2, 2 ** 36), (1, 0), (2, 6), (1, 0), (2, 1), (1, 0)]))
    # 150 immediate connection failures, zero delay, unlimited: the first poll stops at the 129th sleep (cooperative budget)
    out.append(build(0, 0, 0, 1, 0, 0, 1, [0] * 150, [[e(1, k) for k in range(150)]], [(1, 0), (1, 0), (1, 0)]))
    out.append(build(0, 0, 0, 1, 0, 0, 1, [0] * 150, [[e(1, k, 1 if k in (0, 127) else 0) for k in range(150)]],
                     [(1, 0), (3, 0), (1, 0), (3, 0), (1, 0), (1, 0)]))
    out.append(build(0, 0, 0, 2, 0, 0, 1, [0] * 129 + [3] + [0] * 20, [[e(1, k) for k in range(150)]],
                     [(5, 0), (1, 0), (1, 0), (2, 3), (1, 0), (1, 0)]))
    # 300 calls on a table of 2: the tail fails with a connection failure for ever (retry = 3), max_attempts 299
    out.append(build(1, 299, 0, 1, 0, 0, 3, [0, 0], [[e(1, 1), e(1, 2)]], [(1, 0), (1, 0), (1, 0), (1, 0)]))
    # two requests through ONE ReconnectService / through clones of it
    for hm in (1, 2):
        out.append(build(1 + 2 * hm, 5, 0, 1, 1, 0, 1, [0, 0, 0], [[e(1, 1), e(0, 2, 0, 1), e(0, 3)], [e(1, 11, 1), e(0, 12, 1, 2), e(0, 13)]],
                         [(1, 0), (1, 1), (3, 1), (1, 1), (2, 1), (1, 0), (1, 1), (4, 1), (1, 1), (3, 1), (1, 1)]))
    # one request fails and sleeps, the other succeeds: the shared state reads connected meanwhile (the state clause is per request)
    out.append(build(0, 0, 0, 1, 10, 0, 1, [0, 0], [[e(0, 1), e(0, 2)], [e(1, 11), e(0, 12)]], [(1, 1), (1, 0), (2, 10), (1, 1)]))
    return out


def rand_entries(rng, i, L, p_ok, p_gated, p_rdy):
    ent = []
    for k in range(L):
        x = rng.random()
        kind = 0 if x < p_ok else (1 if x < p_ok + (1 - p_ok) * 0.8 else 2)
        ready = 0 if rng.random() > p_rdy else rng.choice([1, 2, 2])
        ent.append((kind, 100 * i + 10 * k + rng.randrange(10), 1 if rng.random() < p_gated else 0, ready))
    return ent


def random_header(rng):
    n = rng.choice([1, 1, 1, 2, 2, 3])
    L = rng.randint(1, 6)
    has_max = rng.choice([0, 1, 1, 1]) + 2 * rng.choice([0, 0, 0, 1, 2])
    mx = rng.choice([0, 1, 1, 2, 2, 3, 5])
    pred = rng.choice([0, 0, 0, 1, 1, 1, 2, 3])
    policy = rng.choice([0, 1, 1, 2, 2, 2, 3])
    p1 = rng.choice([0, 1, 2, 3, 5])
    p2 = rng.choice([0, 4, 10, 16, 40])
    retry = rng.choice([0, 1, 1, 1, 1])
    delays = [rng.choice([0, 0, 1, 2, 3, 5, 10]) for _ in range(L)]
    p_ok = rng.choice([0.05, 0.15, 0.4])
    p_gated = rng.choice([0.0, 0.5, 1.0])
    p_rdy = rng.choice([0.0, 0.0, 0.15, 0.3])
    reqs = [rand_entries(rng, i, L, p_ok, p_gated, p_rdy) for i in range(n)]
    return has_max, mx, pred, policy, p1, p2, retry, delays, reqs


def some_delays(h):
    has_max, mx, pred, policy, p1, p2, retry, delays, reqs = h
    if policy == 1:
        return [p1, p1 + 1]
    if policy == 2:
        return delays + [1]
    if policy == 3:
        return [min(p1 * 2 ** a, p2) for a in range(1, 5)] + [1]
    return [1]


def structured(rng):
    h = random_header(rng)
    n = len(h[8])
    ds = some_delays(h)
    evs = []
    i = rng.randrange(n)
    sticky = rng.choice([0.0, 0.5, 0.8])
    keep = rng.choice([0.85, 0.97])
    for _ in range(rng.randint(2, 18)):
        if rng.random() >= sticky:
            i = rng.randrange(n)
        rnd = [(5, i), (3, i), (1, i), (2, rng.choice(ds)), (1, i), (4, i), (1, i)]
        if rng.random() < 0.7:
            rnd = rnd[1:]
        for e in rnd:
            if rng.random() < keep:
                evs.append(e)
            if rng.random() < 0.1:
                evs.append((1, rng.randrange(n)))
            if rng.random() < 0.05:
                evs.append((2, rng.choice([1, 1, 2, 7])))
    return build(*h, evs)


def unstructured(rng, maxlen=40):
    h = random_header(rng)
    n = len(h[8])
    evs = []
    for _ in range(rng.randint(1, maxlen)):
        x = rng.random()
        if x < 0.42:
            evs.append((1, rng.randrange(n)))
        elif x < 0.65:
            evs.append((2, rng.choice([0, 1, 1, 2, 3, 4, 5, 9, 10])))
        elif x < 0.87:
            evs.append((3, rng.randrange(n)))
        elif x < 0.94:
            evs.append((4, rng.randrange(n)))
        else:
            evs.append((5, rng.randrange(n)))
    return build(*h, evs)


SUB_MS = [1, 400000, 999999, 1000001, 1500000, 1900000, 2000001, 2999999, 900000, 500]
LONG_MS = [65, 1000, 61000, 120000, 3600000, 86400000, 2 ** 31, 2 ** 32 + 1, 2 ** 36 + 7]


def submilli(rng):
    """delays that are not whole milliseconds (Fixed or Custom); polled every millisecond"""
    n = rng.choice([1, 1, 2])
    L = rng.randint(2, 5)
    policy = rng.choice([1, 2, 2])
    p1 = FLAG + rng.choice(SUB_MS)
    delays = [FLAG + rng.choice(SUB_MS) for _ in range(L)]
    if rng.random() < 0.3:
        delays[rng.randrange(L)] = rng.choice([0, 1, 2])
    reqs = []
    for i in range(n):
        nf = rng.randint(1, L)
        reqs.append([((1 if k < nf else 0), 100 * i + 10 * k + rng.randrange(10), 1 if rng.random() < 0.3 else 0, 0) for k in range(L)])
    evs = []
    for _ in range(L + 1):
        for i in range(n):
            evs += [(3, i), (1, i)]
            for _ in range(rng.choice([3, 4])):
                evs += [(2, 1), (1, i)]
    retry = rng.choice([1, 1, 1, 0])
    return build(rng.choice([0, 1, 2, 3, 4, 5]), L + 1, 0, policy, p1, 0, retry, delays, reqs, evs)


def long_delays(rng):
    """delays of minutes .. 2^36 ms (Custom table): pending one millisecond before the deadline, retried at it"""
    L = rng.randint(2, 4)
    dms = [0] + [rng.choice(LONG_MS) for _ in range(L - 1)]
    ent = [(1, 10 * k + 1, 1 if rng.random() < 0.3 else 0, 0) for k in range(L - 1)] + [(0, 99, 0, 0)]
    evs = [(3, 0), (1, 0)]
    for b in dms[1:]:
        cut = max(1, min(rng.choice([1, 1, 2, 60, b // 2]), b - 1))
        evs += [(2, b - cut), (1, 0), (2, cut - 1), (1, 0), (2, 1), (3, 0), (1, 0), (3, 0), (1, 0)]
    return build(rng.choice([0, 1]), L + 1, 0, 2, 0, 0, rng.choice([1, 1, 0]), dms, [ent], evs)


def coop_burst(rng):
    """130-300 immediately failing calls with zero delay: one poll can complete only 128 sleeps"""
    n = rng.choice([1, 1, 1, 2])
    L = rng.randint(130, 300)
    policy = rng.choice([1, 2, 2, 3])
    delays = [0] * L
    for _ in range(rng.choice([0, 0, 1, 2])):
        delays[min(L - 1, rng.choice([127, 128, 129, 130, rng.randrange(L)]))] = rng.choice([1, 3, FLAG + 500000])
    has_max = rng.choice([0, 0, 1])
    mx = rng.choice([L + 50, 400, 200, 129, 128, 127])
    reqs = []
    for i in range(n):
        gated_at = set(rng.sample(range(L), rng.choice([0, 0, 0, 1, 2])))
        if rng.random() < 0.4:
            gated_at |= {rng.choice([0, 126, 127, 128, 129])}
        nf = rng.choice([L, L, rng.randint(100, L)])
        rdy_at = rng.choice([-1, -1, -1, -1, 1, 128, 129, rng.randrange(L)])
        reqs.append([((1 if k < nf else 0), 1000 * i + k, 1 if k in gated_at else 0,
                      (rng.choice([1, 2, 2]) if k == rdy_at else 0)) for k in range(L)])
    evs = []
    for _ in range(rng.randint(4, 14)):
        i = rng.randrange(n)
        x = rng.random()
        if x < 0.5:
            evs.append((1, i))
        elif x < 0.7:
            evs += [(3, i), (1, i)]
        elif x < 0.85:
            evs += [(2, rng.choice([1, 3])), (1, i)]
        elif x < 0.93:
            evs += [(4, i), (1, i)]
        else:
            evs.append((5, i))
    return build(has_max + 2 * rng.choice([0, 0, 1, 2]), mx, 0, policy, 0, rng.choice([0, 0, 5]), 1, delays, reqs, evs)


def long_run(rng, calls, mx):
    """one request, zero Fixed delay, every call fails with a connection failure (tail mode): 128 calls per poll.
    mx None = unlimited (never returns), else max_attempts = mx (MaxAttemptsExceeded after mx + 1 calls)"""
    polls = calls // 128 + 3
    return build(0 if mx is None else 1, mx or 0, 0, 1, 0, 0, 3, [], [[]], [(1, 0)] * polls)


MARATHON = 20000          # above this many calls the model is not run (unary nat): judged by the monitor alone


def is_marathon(s):
    p = parse(s)
    return p["tail"] and sum(1 for (op, a) in p["evs"] if op == 1) * 128 > MARATHON and (p["max"] is None or p["max"] > MARATHON)


def model_input(s, impl_trace):
    return [] if is_marathon(s) else s


def compare(s, impl, model):
    if is_marathon(s):
        return None
    return None if impl == model else "traces differ"


def exhaustive(maxlen, maxes, policies, retries=(0, 1), preds=(0, 1)):
    """every outcome stream up to maxlen over {ok, connection failure, other error}: one request, prompt polling"""
    for L in range(1, maxlen + 1):
        for kinds in itertools.product((0, 1, 2), repeat=L):
            for mx in maxes:
                for pol in policies:
                    for rt in retries:
                        for pr in preds:
                            ent = [(k, 10 * j + 1 + k, 0, 0) for j, k in enumerate(kinds)]
                            evs = [(1, 0)]
                            for a in range(1, L + 1):
                                dl = {0: 1, 1: 2, 2: a, 3: min(1 * 2 ** a, 8)}[pol]
                                evs += [(2, dl), (1, 0)]
                            yield build(0 if mx is None else 1, mx or 0, pr, pol, {1: 2, 3: 1}.get(pol, 0), 8, rt,
                                        list(range(L)), [ent], evs)


def generate(rng, tier):
    out = []
    if tier == "quick":
        out += [structured(rng) for _ in range(1300)]
        out += [unstructured(rng) for _ in range(400)]
        out += list(exhaustive(3, (0, 1, 2, None), (0, 1, 2, 3), retries=(0, 1), preds=(1,)))
        out += [submilli(rng) for _ in range(150)]
        out += [long_delays(rng) for _ in range(60)]
        out += [coop_burst(rng) for _ in range(80)]
        out += [long_run(rng, 10001, 10000), long_run(rng, 65700, 65600), long_run(rng, 70100, 70000), long_run(rng, 66000, None)]
    else:
        out += [structured(rng) for _ in range(30000)]
        out += [unstructured(rng, 80) for _ in range(10000)]
        out += list(exhaustive(5, (0, 1, 2, None), (0, 1, 2, 3)))
        out += [submilli(rng) for _ in range(3000)]
        out += [long_delays(rng) for _ in range(1000)]
        out += [coop_burst(rng) for _ in range(600)]
        out += [long_run(rng, 10001, 10000), long_run(rng, 16001, 16000), long_run(rng, 65700, 65600), long_run(rng, 70100, 70000),
                long_run(rng, 131200, 131100), long_run(rng, 66000, None)]
    return out


def nontrivial(s, t):
    d = decode(s, t)
    if not d:
        return True
    p, evt, calls, _ = d
    for i, cs_ in enumerate(calls):
        for k, (st, en) in enumerate(cs_):
            if en >= 0 and reconnectable(p, entry(p, i, k)):
                return True
    return False


def classify(s, t):
    d = decode(s, t)
    p = parse(s)
    out = ["nreq%d" % p["n"], "max_%s" % ("none" if p["max"] is None else min(p["max"], 3)), "pred%d" % p["pred"],
           "policy%d" % p["policy"], "retry_%s" % ("on" if p["retry"] else "off"), "handle_mode_%d" % p["handle"]]
    if p["tail"]:
        out.append("tail_fails_for_ever")
    ds = ([ns_of(p["p1"])] if p["policy"] == 1 else p["delays"] if p["policy"] == 2 else [])
    if any(x % MS for x in ds):
        out.append("has_submillisecond_delay")
    if any(x >= 60000 * MS for x in ds):
        out.append("has_delay_of_a_minute_or_more")
    if d:
        _, evt, calls, _ = d
        m = max([len(c) for c in calls] + [0])
        out.append("most_calls_%s" % (min(m, 5) if m < 129 else "129plus" if m < 10000 else "10000plus" if m < 65536 else "65536plus"))
        if any(o[0] == 0 and o[4] & (1 << a) for (op, a), o in zip(p["evs"], evt) if op == 1):
            out.append("poll_ended_self_woken_(coop_budget)")
        for o in evt:
            if o[0] == 1:
                out.append("saw_ok")
            if o[0] == 2:
                out.append("saw_%s" % {1: "max_exceeded", 2: "connection_failed", 3: "no_retry", 4: "service_error"}.get(o[1], "?"))
                if o[1] == 4 and o[2] >= 100000:
                    out.append("saw_readiness_error")
        if any(o[5] == 2 for o in evt):
            out.append("saw_reconnecting")
        if any(o[5] == 0 for o in evt):
            out.append("saw_connected")
    return sorted(set(out))


def shrink(s):
    p = parse(s)
    L, n = p["L"], p["n"]
    head_len = 9 + L + n * 4 * L
    head, body = list(s[:head_len]), list(s[head_len:])
    for i in range(len(body) // 2):
        yield head + body[:2 * i] + body[2 * i + 2:]
