"""C16: reconnect retries only connection failures, a bounded number of times.
Generator, trace decoder and an independent monitor over the implementation's trace."""
import itertools

PROP = "C16"
DRIVER = "c16"
MODEL = "C16"
MODEL_QUALID = "Model.Reconnect.run_script"
FORMAT = ("script [has_max; max; pred_mode(0 none,1 error flag,2 code even,3 never); policy(0 None,1 Fixed p1,2 Custom table,3 exponential p1..p2); p1; p2; retry_on_reconnect; nreq; L; "
          "delay_ms x L (Custom: delay for attempt k); nreq blocks [(okind(0 ok,1 err flagged connection failure,2 err flagged other) payload gated(0 immediate,1 on Complete) ready(0 ok,1 error 100000+payload,2 pending until MakeReady)) x L]; "
          "(op a)*] op 1=Poll a 2=Advance a(ms) 3=Complete a 4=MakeReady a 5=Call a. "
          "trace: per event [r(-1 no poll,0 pending,1 Ok,2 Err,9 nothing to poll); kind(1 MaxAttemptsExceeded,2 ConnectionFailed,3 ConnectionFailedNoRetry,4 ServiceError); payload; attempts; wake mask; "
          "published state(0 connected,1 disconnected,2 reconnecting); inner calls started; finished] ++ per request [ncalls; (start_ms, end_ms|-1) per inner call] ++ [calls on an instance not polled ready]")
RULE = ("structured schedules (call / complete / poll / advance-by-the-delay / make-ready rounds over 1-3 requests sharing the published state, random omissions and late polls) "
        "+ uniformly random event lists + all outcome streams up to a small length x max_attempts {0,1,2,none} x policy {none,fixed,custom,exponential} x retry flag x predicate; "
        "non-trivial = some request saw a reconnectable failure (a reconnect decision is taken)")
TRUSTED = ["tokio::time::sleep (ready iff now >= deadline at whole-ms instants), oneshot wake-ups: modelled, tied to the library only by this correspondence run",
           "the scripted inner service, error type (Display-parsed by the predicates) and policy closures in harness/src/bin/c16.rs mirror Model/Reconnect.v run_script",
           "ReconnectPolicy::exponential modelled as min(initial * 2^attempt, max) for whole-ms values (the f64 arithmetic itself is C14)"]
ASSUMPTIONS = ["whole-millisecond delays and instants", "fewer than 2^32 reconnectable failures per request (attempt: u32)",
               "one poll makes boundedly many attempts (the model bounds the micro-steps of one poll; scripts stay below)",
               "the jittered policy (ExponentialRandom) is covered by the theorems (any delay function) but not by the correspondence run"]


def build(has_max, mx, pred, policy, p1, p2, retry, delays, reqs, evs):
    L = len(delays)
    s = [has_max, mx, pred, policy, p1, p2, retry, len(reqs), L] + list(delays)
    for entries in reqs:
        assert len(entries) == L
        for e in entries:
            s += list(e)
    for e in evs:
        s += list(e)
    return s


def parse(s):
    s = list(s) + [0] * max(0, 9 - len(s))
    has_max, mx, pred, policy, p1, p2, retry, n, L = s[:9]
    n, L = max(0, n), max(0, L)
    g = lambda i: s[i] if 0 <= i < len(s) else 0
    delays = [max(0, g(9 + k)) for k in range(L)]
    blk = 4 * L
    reqs = []
    for i in range(n):
        base = 9 + L + i * blk
        reqs.append([tuple(g(base + 4 * k + j) for j in range(4)) for k in range(L)])
    rest = s[9 + L + n * blk:]
    evs = []
    for j in range(0, len(rest) - 1, 2):
        op, a = rest[j], rest[j + 1]
        if op in (1, 3, 4, 5) and 0 <= a < n:
            evs.append((op, a))
        elif op == 2:
            evs.append((op, a))
    return dict(max=(max(0, mx) if has_max else None), pred=pred, policy=policy, p1=max(0, p1), p2=max(0, p2),
                retry=retry != 0, n=n, L=L, delays=delays, reqs=reqs, evs=evs)


W = 8


def decode(s, t):
    p = parse(s)
    ne = len(p["evs"])
    if len(t) < W * ne + p["n"] + 1:
        return None
    evt = [t[W * k:W * k + W] for k in range(ne)]
    pos = W * ne
    calls = []
    for i in range(p["n"]):
        if pos >= len(t):
            return None
        c = t[pos]; pos += 1
        if c < 0 or pos + 2 * c > len(t):
            return None
        calls.append([(t[pos + 2 * j], t[pos + 2 * j + 1]) for j in range(c)])
        pos += 2 * c
    if pos != len(t) - 1:
        return None
    return p, evt, calls, t[-1]


def entry(p, i, k):
    ent = p["reqs"][i]
    return ent[k] if k < len(ent) else (0, 0, 0, 0)


def reconnectable(p, e):
    kind, payload = e[0], e[1]
    if kind == 0:
        return False
    return {0: True, 1: kind == 1, 2: payload % 2 == 0}.get(p["pred"], False)


def delay(p, attempt):
    """ReconnectPolicy::delay_for_attempt restated; None = no delay"""
    if p["policy"] == 0:
        return None
    if p["policy"] == 1:
        return p["p1"]
    if p["policy"] == 2:
        return p["delays"][attempt] if attempt < p["L"] else 0
    return min(p["p1"] * 2 ** attempt, p["p2"])


def monitor(s, t):
    d = decode(s, t)
    if d is None:
        return "malformed or panicking run: %s" % t[:12]
    p, evt, calls, viol = d
    n = p["n"]
    if viol != 0:
        return "inner service called %d times on an instance that was not polled ready" % viol
    returned = {}
    now = 0
    state = 1           # ReconnectState starts disconnected
    connected_seen = False
    for k, ((op, a), o) in enumerate(zip(p["evs"], evt)):
        r, kind, payload, attempts, mask, cs, started, finished = o
        if op == 2:
            now += max(0, a)
        if op != 1:
            if r != -1:
                return "result outside a poll (event %d)" % k
            if cs != state:
                return "published state changed from %d to %d without a poll (event %d)" % (state, cs, k)
        else:
            if r in (1, 2):
                if a in returned:
                    return "request %d returned twice" % a
                returned[a] = (r, kind, payload, attempts, k, now)
            if r == 1 and cs != 0:
                return "request %d succeeded but the published state is %d, not connected" % (a, cs)
            if r == 2 and kind == 3 and cs != 0:
                return "ConnectionFailedNoRetry must leave the state connected for the next request"
            if r == 2 and kind in (1, 2) and cs != 1:
                return "kind %d error returned with published state %d (disconnected expected)" % (kind, cs)
            if r in (1,) or (r == 2 and kind == 3):
                connected_seen = True
        if cs == 0 and not connected_seen:
            return "published state connected although no request has succeeded (event %d)" % k
        if n == 1:
            # single request: the state is a function of what this request has seen
            if finished == 0 and cs != 1:
                return "state %d before any inner call finished" % cs
            if finished >= 1 and 0 not in returned:
                last = entry(p, 0, finished - 1)
                if reconnectable(p, last) and cs != 2:
                    return "a reconnectable failure is being handled (call %d) but the published state is %d" % (finished - 1, cs)
        state = cs
    for i in range(n):
        cs_ = calls[i]
        nc = len(cs_)
        if p["max"] is not None and nc > p["max"] + 1:
            return "request %d: %d inner calls with max_attempts %d" % (i, nc, p["max"])
        for k in range(nc - 1):
            e = entry(p, i, k)
            if not reconnectable(p, e):
                return "request %d: call %d followed outcome %s which is not a connection failure" % (i, k + 1, e[:2])
            if not p["retry"]:
                return "request %d retried although retry_on_reconnect is false" % i
            dl = delay(p, k + 1)
            if dl is None:
                return "request %d retried although the policy gives no delay" % i
            st, en = cs_[k]
            if en < 0:
                return "request %d: call %d started while call %d still in flight" % (i, k + 1, k)
            if cs_[k + 1][0] < en + dl:
                return "request %d: call %d started at %d, earlier than failure at %d + delay %d" % (i, k + 1, cs_[k + 1][0], en, dl)
        if i in returned:
            r, kind, payload, attempts, k, tret = returned[i]
            if nc < 1:
                return "request %d returned without an inner call" % i
            last = entry(p, i, nc - 1)
            if cs_[nc - 1][1] < 0:
                return "request %d returned while its last inner call was in flight" % i
            if last[0] == 0:
                exp = (1, 0, last[1], 0)
            elif not reconnectable(p, last):
                exp = (2, 4, last[1], 0)
            elif p["max"] is not None and nc > p["max"]:
                exp = (2, 1, last[1], nc)
            elif delay(p, nc) is None:
                exp = (2, 2, last[1], 0)
            elif not p["retry"]:
                exp = (2, 3, last[1], 0)
                if tret < cs_[nc - 1][1] + delay(p, nc):
                    return "request %d: ConnectionFailedNoRetry returned before the delay elapsed" % i
            else:
                nxt = entry(p, i, nc)
                if nxt[3] != 1:
                    return "request %d gave up after a reconnectable failure (attempt %d) although it must retry" % (i, nc)
                exp = (2, 4, 100000 + nxt[1], 0)
            if (r, kind, payload, attempts) != exp:
                return "request %d returned %s, specified %s" % (i, (r, kind, payload, attempts), exp)
    return None


# ---------------------------------------------------------------- generators
def corpus():
    e = lambda kind, pay, gated=0, ready=0: (kind, pay, gated, ready)
    out = []
    # two connection failures then success, fixed delay 5, prompt polling
    out.append(build(1, 3, 0, 1, 5, 0, 1, [0, 0, 0], [[e(1, 11), e(1, 12), e(0, 13)]],
                     [(1, 0), (2, 5), (1, 0), (2, 5), (1, 0)]))
    # max_attempts 1: the second failure exceeds
    out.append(build(1, 1, 0, 2, 0, 0, 1, [0, 3, 4], [[e(1, 1), e(1, 2), e(0, 3)]],
                     [(5, 0), (2, 2), (1, 0), (2, 3), (1, 0)]))
    # max_attempts 0
    out.append(build(1, 0, 0, 1, 1, 0, 1, [0], [[e(1, 7)]], [(1, 0)]))
    # policy None -> ConnectionFailed ; retry_on_reconnect false -> NoRetry after the delay
    out.append(build(0, 0, 0, 0, 0, 0, 1, [0], [[e(1, 7)]], [(1, 0)]))
    out.append(build(0, 0, 0, 1, 4, 0, 0, [0], [[e(1, 7)]], [(1, 0), (2, 3), (1, 0), (2, 1), (1, 0)]))
    # predicate: other error is a ServiceError, state untouched
    out.append(build(0, 0, 1, 1, 2, 0, 1, [0, 0, 0], [[e(1, 1), e(2, 2), e(0, 3)]], [(1, 0), (2, 2), (1, 0)]))
    # exponential 2..16, unlimited, four failures
    out.append(build(0, 0, 0, 3, 2, 16, 1, [0] * 6, [[e(1, 1), e(1, 2), e(1, 3), e(1, 4), e(0, 5), e(0, 6)]],
                     [(1, 0), (2, 4), (1, 0), (2, 8), (1, 0), (2, 16), (1, 0), (2, 15), (1, 0), (2, 1), (1, 0)]))
    # readiness error / pending readiness; two requests share the state
    out.append(build(1, 5, 0, 1, 1, 0, 1, [0, 0, 0], [[e(1, 1), e(0, 2, 0, 1), e(0, 3)], [e(1, 11, 1), e(0, 12, 1, 2), e(0, 13)]],
                     [(1, 0), (1, 1), (3, 1), (1, 1), (2, 1), (1, 0), (1, 1), (4, 1), (1, 1), (3, 1), (1, 1)]))
    return out


def rand_entries(rng, i, L, p_ok, p_gated, p_rdy):
    ent = []
    for k in range(L):
        x = rng.random()
        kind = 0 if x < p_ok else (1 if x < p_ok + (1 - p_ok) * 0.8 else 2)
        ready = 0 if rng.random() > p_rdy else rng.choice([1, 2, 2])
        ent.append((kind, 100 * i + 10 * k + rng.randrange(10), 1 if rng.random() < p_gated else 0, ready))
    return ent


def random_header(rng):
    n = rng.choice([1, 1, 1, 2, 2, 3])
    L = rng.randint(1, 6)
    has_max = rng.choice([0, 1, 1, 1])
    mx = rng.choice([0, 1, 1, 2, 2, 3, 5])
    pred = rng.choice([0, 0, 0, 1, 1, 1, 2, 3])
    policy = rng.choice([0, 1, 1, 2, 2, 2, 3])
    p1 = rng.choice([0, 1, 2, 3, 5])
    p2 = rng.choice([0, 4, 10, 16, 40])
    retry = rng.choice([0, 1, 1, 1, 1])
    delays = [rng.choice([0, 0, 1, 2, 3, 5, 10]) for _ in range(L)]
    p_ok = rng.choice([0.05, 0.15, 0.4])
    p_gated = rng.choice([0.0, 0.5, 1.0])
    p_rdy = rng.choice([0.0, 0.0, 0.15, 0.3])
    reqs = [rand_entries(rng, i, L, p_ok, p_gated, p_rdy) for i in range(n)]
    return has_max, mx, pred, policy, p1, p2, retry, delays, reqs


def some_delays(h):
    has_max, mx, pred, policy, p1, p2, retry, delays, reqs = h
    if policy == 1:
        return [p1, p1 + 1]
    if policy == 2:
        return delays + [1]
    if policy == 3:
        return [min(p1 * 2 ** a, p2) for a in range(1, 5)] + [1]
    return [1]


def structured(rng):
    h = random_header(rng)
    n = len(h[8])
    ds = some_delays(h)
    evs = []
    i = rng.randrange(n)
    sticky = rng.choice([0.0, 0.5, 0.8])
    keep = rng.choice([0.85, 0.97])
    for _ in range(rng.randint(2, 18)):
        if rng.random() >= sticky:
            i = rng.randrange(n)
        rnd = [(5, i), (3, i), (1, i), (2, rng.choice(ds)), (1, i), (4, i), (1, i)]
        if rng.random() < 0.7:
            rnd = rnd[1:]
        for e in rnd:
            if rng.random() < keep:
                evs.append(e)
            if rng.random() < 0.1:
                evs.append((1, rng.randrange(n)))
            if rng.random() < 0.05:
                evs.append((2, rng.choice([1, 1, 2, 7])))
    return build(*h, evs)


def unstructured(rng, maxlen=40):
    h = random_header(rng)
    n = len(h[8])
    evs = []
    for _ in range(rng.randint(1, maxlen)):
        x = rng.random()
        if x < 0.42:
            evs.append((1, rng.randrange(n)))
        elif x < 0.65:
            evs.append((2, rng.choice([0, 1, 1, 2, 3, 4, 5, 9, 10])))
        elif x < 0.87:
            evs.append((3, rng.randrange(n)))
        elif x < 0.94:
            evs.append((4, rng.randrange(n)))
        else:
            evs.append((5, rng.randrange(n)))
    return build(*h, evs)


def exhaustive(maxlen, maxes, policies, retries=(0, 1), preds=(0, 1)):
    """every outcome stream up to maxlen over {ok, connection failure, other error}: one request, prompt polling"""
    for L in range(1, maxlen + 1):
        for kinds in itertools.product((0, 1, 2), repeat=L):
            for mx in maxes:
                for pol in policies:
                    for rt in retries:
                        for pr in preds:
                            ent = [(k, 10 * j + 1 + k, 0, 0) for j, k in enumerate(kinds)]
                            evs = [(1, 0)]
                            for a in range(1, L + 1):
                                dl = {0: 1, 1: 2, 2: a, 3: min(1 * 2 ** a, 8)}[pol]
                                evs += [(2, dl), (1, 0)]
                            yield build(0 if mx is None else 1, mx or 0, pr, pol, {1: 2, 3: 1}.get(pol, 0), 8, rt,
                                        list(range(L)), [ent], evs)


def generate(rng, tier):
    out = []
    if tier == "quick":
        out += [structured(rng) for _ in range(1300)]
        out += [unstructured(rng) for _ in range(400)]
        out += list(exhaustive(3, (0, 1, 2, None), (0, 1, 2, 3), retries=(0, 1), preds=(1,)))
    else:
        out += [structured(rng) for _ in range(30000)]
        out += [unstructured(rng, 80) for _ in range(10000)]
        out += list(exhaustive(5, (0, 1, 2, None), (0, 1, 2, 3)))
    return out


def nontrivial(s, t):
    d = decode(s, t)
    if not d:
        return True
    p, evt, calls, _ = d
    for i, cs_ in enumerate(calls):
        for k, (st, en) in enumerate(cs_):
            if en >= 0 and reconnectable(p, entry(p, i, k)):
                return True
    return False


def classify(s, t):
    d = decode(s, t)
    p = parse(s)
    out = ["nreq%d" % p["n"], "max_%s" % ("none" if p["max"] is None else min(p["max"], 3)), "pred%d" % p["pred"],
           "policy%d" % p["policy"], "retry_%s" % ("on" if p["retry"] else "off")]
    if d:
        _, evt, calls, _ = d
        out.append("most_calls_%d" % min(max([len(c) for c in calls] + [0]), 5))
        for o in evt:
            if o[0] == 1:
                out.append("saw_ok")
            if o[0] == 2:
                out.append("saw_%s" % {1: "max_exceeded", 2: "connection_failed", 3: "no_retry", 4: "service_error"}.get(o[1], "?"))
                if o[1] == 4 and o[2] >= 100000:
                    out.append("saw_readiness_error")
        if any(o[5] == 2 for o in evt):
            out.append("saw_reconnecting")
        if any(o[5] == 0 for o in evt):
            out.append("saw_connected")
    return sorted(set(out))


def shrink(s):
    p = parse(s)
    L, n = p["L"], p["n"]
    head_len = 9 + L + n * 4 * L
    head, body = list(s[:head_len]), list(s[head_len:])
    for i in range(len(body) // 2):
        yield head + body[:2 * i] + body[2 * i + 2:]
