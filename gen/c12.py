"""C12: hedge starts a bounded number of attempts and fails only when all have failed.
Generator, trace decoder and an independent monitor over the implementation's trace."""
import itertools

PROP = "C12"
DRIVER = "c12"
MODEL = "C12"
MODEL_QUALID = "Model.Hedge.run_script"
FORMAT = ("script [max; mode; ncalls; nd; d_1..d_nd; (op a b)*] mode 0=Fixed(d_1 ms) 1=Immediate 2=Dynamic(attempt k -> d_k ms, 0 beyond nd); "
          "op 1=Poll i 2=Drop i 3=Advance a(ms) 4=Complete a b (a=16*i+k: attempt k of call i; b: 0 ok,1 err,2 panic; the value carried is a). "
          "Call i uses request value i on its own clone of the hedge service. "
          "trace: per event [r; v; ns; wake mask; in-flight; now_ms] with r: -1 no poll, 0 pending, 1 Ok(v), 2 Err(Inner v), "
          "3 Err(AllAttemptsFailed v), 5 panicked, 9 nothing to poll; ns = sum_i (inner calls started for call i in this event)*32^i")
RULE = ("timeline scripts built from a vector of per-attempt completion instants (before / at / after the ideal start of each later attempt, "
        "never) and outcomes (ok, err, panic) with prompt, lazy or sparse polling and occasional cancellation, max 1..5, fixed / zero / immediate / "
        "per-attempt delays incl. zeros; random event soups over 1-2 concurrent calls; exhaustive short scripts over a small alphabet (thorough); "
        "non-trivial = at least one hedge attempt was started or the call resolved with AllAttemptsFailed")
TRUSTED = ["tokio mpsc (FIFO, receiver woken by every send and by the last sender going away), tokio::spawn (tasks run in spawn order when the harness yields), "
           "time::sleep (ready iff now >= deadline at whole ms; a zero sleep is ready at its first poll) and the biased select! are modelled, tied to the libraries only by this correspondence run",
           "poll atomicity: the call future's state is touched only inside one poll; attempt tasks touch only the channel"]
ASSUMPTIONS = ["whole-millisecond instants", "single-threaded deterministic executor: spawned attempt tasks run, in spawn order, right after the event that spawned or unblocked them",
               "the inner service is always ready (poll_ready of every clone returns Ready(Ok) at once)",
               "at most one hedged call per request value, so that attempt k of call i is the k-th inner call with request i"]

EVW = 6


def mk(mx, mode, ncalls, ds, evs):
    s = [mx, mode, ncalls, len(ds)] + list(ds)
    for e in evs:
        s += list(e)
    return s


def header(s):
    g = lambda i: s[i] if i < len(s) else 0
    mx = max(1, min(16, max(0, g(0))))
    mode = g(1)
    ncalls = min(4, max(0, g(2)))
    nd = min(16, max(0, g(3)))
    ds = [min(100000, max(0, g(4 + j))) for j in range(nd)]
    body = s[4 + nd:]
    evs = [tuple(body[i:i + 3]) for i in range(0, len(body) - len(body) % 3, 3)]
    keep = []
    for (op, a, b) in evs:
        if op in (1, 2):
            if 0 <= a < ncalls:
                keep.append((op, a, b))
        elif op == 3:
            keep.append((op, min(100000, max(0, a)), b))
        elif op == 4:
            if a >= 0 and a // 16 < ncalls:
                keep.append((op, a, b))
    return mx, mode, ncalls, ds, keep


def delay_of(mode, ds, k):
    """configured delay before attempt k (k >= 1)"""
    if mode == 1:
        return 0
    if mode == 2:
        return ds[k - 1] if 1 <= k <= len(ds) else 0
    return ds[0] if ds else 0


def latency_mode(mode, ds):
    if mode == 1:
        return False
    if mode == 2:
        return True
    return (ds[0] if ds else 0) > 0


def decode(s, t):
    mx, mode, ncalls, ds, evs = header(s)
    if len(t) != EVW * len(evs):
        return None
    return mx, mode, ncalls, ds, [(e, t[EVW * k:EVW * k + EVW]) for k, e in enumerate(evs)]


# ---------------------------------------------------------------------------
# independent monitor: restates the clauses of C12 over the implementation's trace.
def monitor(s, t):
    d = decode(s, t)
    if d is None:
        return "malformed or panicking run: %s" % t[:12]
    mx, mode, ncalls, ds, evt = d
    lat = latency_mode(mode, ds) and mx > 1
    for i in range(ncalls):
        m = monitor_call(i, mx, mode, ds, lat, evt)
        if m:
            return "call %d: %s" % (i, m)
    return None


def monitor_call(i, mx, mode, ds, lat, evt):
    starts = []          # instant of the k-th inner call of this hedged call
    outcome = {}         # attempt -> (b, event index of the Complete)
    delivered = []       # (event index, attempt, b) in queue order, while the call future is alive
    alive = True         # future neither resolved nor dropped
    first_poll = None
    taken = 0            # number of delivered results the future has already looked at
    panics = False
    for idx, (e, o) in enumerate(evt):
        op, a, b = e
        r, v, ns, mask, infl, now = o
        n_new = (ns >> (5 * i)) & 31
        woke = (mask >> i) & 1
        if op == 4 and a // 16 == i:
            k = a % 16
            if k not in outcome:
                outcome[k] = (min(b, 2) if b in (0, 1) else 2, idx)
                if outcome[k][0] == 2:
                    panics = True
                if k < len(starts) and alive and outcome[k][0] != 2:
                    delivered.append((idx, k, outcome[k][0]))
        if n_new and not (op == 1 and a == i):
            return "inner call started outside a poll of the hedged call (event %d)" % idx
        if op == 1 and a == i:
            if not alive:
                if r != 9:
                    return "poll of a finished call returned %d" % r
                continue
            if first_poll is None:
                first_poll = now
            # --- what was queued when this poll began
            pend = delivered[taken:]
            oks = [(j, k) for (j, k, bb) in pend if bb == 0]
            # clause 3: first success wins, at the first poll at which one is queued
            if oks:
                kwin = oks[0][1]
                if r != 1 or v != 16 * i + kwin:
                    return ("a success of attempt %d was queued at the poll at %d ms but the call returned (r=%d, v=%d)"
                            % (kwin, now, r, v))
            elif r == 1:
                return "resolved Ok(%d) at %d ms without a queued success" % (v, now)
            if r == 2:
                return "Err(Inner) is never produced by the hedge"
            # clause 4: AllAttemptsFailed only if every attempt was started and has failed
            errs_all = [(j, k) for (j, k, bb) in delivered if bb == 1]
            if r == 3:
                if len(starts) != mx:
                    return "AllAttemptsFailed at %d ms with %d of %d attempts started" % (now, len(starts), mx)
                # an attempt has failed when its error was delivered, or when its task panicked
                failed = set(k for (_, k) in errs_all) | set(k for k in outcome if outcome[k][0] == 2 and k < len(starts))
                if sorted(failed) != list(range(mx)):
                    return ("AllAttemptsFailed at %d ms but only attempts %s have failed"
                            % (now, sorted(failed)))
                if lat and len(errs_all) != mx:
                    return "latency mode: AllAttemptsFailed with %d delivered errors" % len(errs_all)
                if lat or mx == 1:
                    if v != 16 * i:
                        return "AllAttemptsFailed carries %d, not the primary's error %d" % (v, 16 * i)
                else:
                    # parallel mode keeps the first error received (reported: the documentation says the primary's)
                    if v != 16 * i + errs_all[0][1]:
                        return "AllAttemptsFailed carries %d, not the first received error" % v
            if r == 5 and not panics:
                return "the call future panicked without a scripted inner panic"
            # a pending poll must not be sitting on a decided call (no result is lost)
            if r == 0:
                if len(errs_all) >= mx:
                    return "all %d attempts have failed and were delivered, yet the poll at %d ms is pending" % (mx, now)
                if not lat and len(starts) == mx and all(k in outcome for k in range(mx)):
                    return "every attempt has finished, yet the poll at %d ms is pending" % now
            taken = len(delivered)
            if r != 0:
                alive = False
            # --- attempts started by this poll (their tasks run right after it)
            for _ in range(n_new):
                k = len(starts)
                starts.append(now)
                if alive and k in outcome and outcome[k][0] != 2:
                    delivered.append((idx, k, outcome[k][0]))
            # clause 1: bounded
            if len(starts) > mx:
                return "%d inner calls started, max_hedged_attempts = %d" % (len(starts), mx)
            # clause 2: spacing
            if len(starts) < 1:
                return "the first poll did not start the primary"
            if starts[0] != first_poll:
                return "primary started at %d, first poll at %d" % (starts[0], first_poll)
            if lat:
                for k in range(1, len(starts)):
                    if starts[k] < starts[k - 1] + delay_of(mode, ds, k):
                        return ("attempt %d started at %d ms, less than %d ms after attempt %d (%d ms)"
                                % (k, starts[k], delay_of(mode, ds, k), k - 1, starts[k - 1]))
                if r == 0 and len(starts) < mx and now >= starts[-1] + delay_of(mode, ds, len(starts)):
                    return ("pending poll at %d ms left the elapsed hedge timer (due %d ms) unserved"
                            % (now, starts[-1] + delay_of(mode, ds, len(starts))))
            else:
                if len(starts) != mx or any(x != first_poll for x in starts):
                    return "parallel mode: starts %s, expected %d starts at %d ms" % (starts, mx, first_poll)
            # primary succeeded before the first delay elapsed: exactly one inner call
        if op == 2 and a == i:
            alive = False
        # wake-up: an unseen queued result must have woken the call future
        if alive and len(delivered) > taken and not woke:
            return "result of attempt %d queued at event %d but the call future was not woken" % (delivered[taken][1], idx)
        # timer: in latency mode the elapsed hedge timer must have woken the future
        if alive and lat and starts and len(starts) < mx and now >= starts[-1] + delay_of(mode, ds, len(starts)) and not woke:
            return "hedge timer elapsed at %d ms without waking the call future" % (starts[-1] + delay_of(mode, ds, len(starts)))
    # clause 1, second half: primary's success queued before the first delay elapsed => one inner call
    if lat and starts:
        for (j, k, bb) in delivered:
            if k == 0 and bb == 0 and evt[j][1][5] < starts[0] + delay_of(mode, ds, 1) and len(starts) != 1:
                return "primary succeeded at %d ms, before the first hedge delay, yet %d inner calls were started" % (evt[j][1][5], len(starts))
    return None


# ---------------------------------------------------------------------------
def corpus():
    P, D, A, C = (lambda i=0: (1, i, 0)), (lambda i=0: (2, i, 0)), (lambda d: (3, d, 0)), (lambda i, k, b: (4, 16 * i + k, b))
    return [
        # upstream defect 1a4d08f: delay 10 ms, 2 attempts, primary ok at 100 ms, hedge fails at once
        # => Ok at 100 ms, not AllAttemptsFailed at 11 ms
        mk(2, 0, 1, [10], [P(), C(0, 1, 1), A(10), P(), A(1), P(), A(89), C(0, 0, 0), P()]),
        # upstream defect dfabe11: dynamic delays [0, 50]: attempt 2 not before 50 ms after attempt 1
        mk(3, 2, 1, [0, 50], [P(), A(49), P(), A(1), P(), C(0, 0, 1), P(), C(0, 1, 1), C(0, 2, 1), P()]),
        # parallel mode, all fail, hedge 1 fails first: the carried error is hedge 1's
        mk(3, 1, 1, [], [P(), C(0, 1, 1), P(), C(0, 0, 1), C(0, 2, 1), P()]),
        # single attempt
        mk(1, 0, 1, [10], [P(), C(0, 0, 1), P()]),
        # hedge succeeds while the primary is still running
        mk(3, 0, 1, [5], [P(), A(5), C(0, 0, 1), P(), A(5), P(), C(0, 1, 0), C(0, 2, 0), P()]),
        # two concurrent calls; inner panics in parallel mode
        mk(3, 1, 2, [], [P(0), P(1), C(0, 0, 2), C(0, 1, 2), C(0, 2, 2), P(0), C(1, 0, 1), C(1, 1, 2), C(1, 2, 0), P(1)]),
        # latency mode, primary panics, hedge fails: the call stays pending for ever
        mk(2, 0, 1, [10], [P(), C(0, 0, 2), A(10), P(), C(0, 1, 1), P(), A(100), P()]),
        # primary succeeds exactly when the hedge timer fires: the result wins (biased select)
        mk(2, 0, 1, [10], [P(), A(10), C(0, 0, 0), P()]),
        # an error and the elapsed timer in the same poll: error taken first, then the hedge is started
        mk(2, 0, 1, [10], [P(), A(10), C(0, 0, 1), P(), C(0, 1, 1), P()]),
        # cancellation: no hedge after the drop, attempts already started keep running
        mk(3, 0, 1, [10], [P(), A(10), P(), D(), A(20), P(), C(0, 0, 0), C(0, 1, 0)]),
        # all zeros dynamic: everything in the first poll, still the latency loop's failure rule
        mk(3, 2, 1, [0, 0], [P(), C(0, 2, 1), C(0, 1, 1), P(), C(0, 0, 1), P()]),
        # fixed zero delay = parallel
        mk(4, 0, 1, [0], [C(0, 3, 0), P(), P()]),
        # lazy polling: timers elapse long before the polls
        mk(4, 0, 1, [10], [P(), A(35), P(), A(5), P(), A(10), P(), A(10), P()]),
    ]


TIMES_NEAR = (-1, 0, 1)


def timeline_script(rng, ncalls=1):
    mx = rng.choice([1, 2, 2, 3, 3, 4, 5])
    kind = rng.random()
    if kind < 0.45:
        mode, ds = 0, [rng.choice([1, 2, 5, 10, 10, 20])]
    elif kind < 0.55:
        mode, ds = rng.choice([(0, [0]), (1, []), (1, [7])])
    else:
        mode = 2
        ds = [rng.choice([0, 0, 1, 3, 5, 10, 20]) for _ in range(rng.randint(0, mx))]
    ideal = [0]
    for k in range(1, mx):
        ideal.append(ideal[-1] + delay_of(mode, ds, k))
    horizon = ideal[-1] + 25
    todo = []   # (time, order, event)
    for i in range(ncalls):
        off = 0 if i == 0 else rng.choice([0, 0, 3, ideal[-1]])
        for k in range(mx):
            x = rng.random()
            if x < 0.12:
                continue    # never completes
            base = rng.choice(ideal + [ideal[k], ideal[min(k + 1, mx - 1)], horizon - 5])
            tm = max(0, base + rng.choice(TIMES_NEAR + (0, 2, 7)) + off)
            if rng.random() < 0.15:
                tm = 0      # completed before it even starts: fails / succeeds at once
            b = rng.choice([0, 1, 1, 1, 1, 2]) if rng.random() < 0.7 else rng.choice([0, 1])
            todo.append((tm, rng.random(), (4, 16 * i + k, b)))
        if rng.random() < 0.12:
            todo.append((rng.randint(0, horizon), rng.random(), (2, i, 0)))
    todo.sort()
    style = rng.choice(["prompt", "prompt", "lazy", "sparse"])
    evs = []
    t = 0

    def polls():
        for i in range(ncalls):
            if style == "prompt" or (style == "lazy" and rng.random() < 0.5) or (style == "sparse" and rng.random() < 0.15):
                evs.append((1, i, 0))
    # call i's first poll
    for i in range(ncalls):
        evs.append((1, i, 0))
    marks = sorted(set([x for x in ideal] + [tm for (tm, _, _) in todo] + [horizon]))
    ti = 0
    for mark in marks:
        if mark > t:
            if style == "prompt":
                evs.append((3, mark - t, 0))
            else:
                # split the advance at a random point so that polls happen strictly between marks, too
                cut = rng.randint(0, mark - t)
                if 0 < cut < mark - t:
                    evs.append((3, cut, 0)); polls(); evs.append((3, mark - t - cut, 0))
                else:
                    evs.append((3, mark - t, 0))
            t = mark
            polls()
        while ti < len(todo) and todo[ti][0] <= t:
            evs.append(todo[ti][2]); ti += 1
            polls()
    for i in range(ncalls):
        evs.append((1, i, 0))
    return mk(mx, mode, ncalls, ds, evs)


def random_script(rng, maxlen=30):
    mx = rng.choice([1, 2, 2, 3, 3, 4])
    mode, ds = rng.choice([(0, [3]), (0, [5]), (0, [0]), (1, []), (2, [0, 4]), (2, [2, 0, 3]), (2, [0, 0, 5]), (2, [])])
    ncalls = rng.choice([1, 1, 2, 2, 3])
    evs = []
    for _ in range(rng.randint(3, maxlen)):
        x = rng.random()
        i = rng.randrange(ncalls)
        if x < 0.45:
            evs.append((1, i, 0))
        elif x < 0.50:
            evs.append((2, i, 0))
        elif x < 0.72:
            evs.append((3, rng.choice([1, 1, 2, 3, 4, 5, 5, 8]), 0))
        else:
            evs.append((4, 16 * i + rng.randrange(mx + 1), rng.choice([0, 1, 1, 1, 2])))
    return mk(mx, mode, ncalls, ds, evs)


def exhaustive(depth, mx, mode, ds, ncalls=1):
    alpha = [(1, 0, 0), (3, 1, 0), (3, 2, 0)]
    for k in range(mx):
        alpha += [(4, k, 0), (4, k, 1)]
    if ncalls > 1:
        alpha += [(1, 1, 0), (4, 16, 1), (4, 17, 0)]
    alpha += [(2, 0, 0), (4, 0, 2)]
    for L in range(1, depth + 1):
        for evs in itertools.product(alpha, repeat=L):
            yield mk(mx, mode, ncalls, ds, evs)


def generate(rng, tier):
    out = []
    if tier == "quick":
        out += [timeline_script(rng) for _ in range(1200)]
        out += [timeline_script(rng, 2) for _ in range(200)]
        out += [random_script(rng) for _ in range(600)]
        out += list(exhaustive(3, 2, 0, [2]))
    else:
        out += [timeline_script(rng) for _ in range(30000)]
        out += [timeline_script(rng, 2) for _ in range(6000)]
        out += [random_script(rng, 50) for _ in range(15000)]
        out += list(exhaustive(5, 2, 0, [2]))
        out += list(exhaustive(4, 3, 2, [0, 2]))
        out += list(exhaustive(4, 2, 1, []))
        out += list(exhaustive(4, 3, 0, [1]))
        out += list(exhaustive(3, 2, 0, [1], 2))
    return out


def nontrivial(s, t):
    d = decode(s, t)
    if not d:
        return True
    mx, mode, ncalls, ds, evt = d
    tot = 0
    for (e, o) in evt:
        if o[0] == 3:
            return True
        tot += sum((o[2] >> (5 * i)) & 31 for i in range(ncalls))
    return tot > ncalls


def classify(s, t):
    d = decode(s, t)
    mx, mode, ncalls, ds, evs = header(s)
    out = ["max%d" % mx, "calls%d" % ncalls]
    if mode == 1:
        out.append("delay_immediate")
    elif mode == 2:
        out.append("delay_dynamic" + ("_zero_first" if (not ds or ds[0] == 0) else ""))
    else:
        out.append("delay_fixed" + ("_zero" if not latency_mode(mode, ds) else ""))
    if d:
        evt = d[4]
        rs = set(o[0] for (_, o) in evt)
        for r, name in ((1, "ok"), (3, "all_failed"), (5, "panic")):
            if r in rs:
                out.append("saw_" + name)
        for (e, o) in evt:
            if o[0] == 1:
                out.append("won_by_primary" if o[1] % 16 == 0 else "won_by_hedge")
        if any(e[0] == 2 for (e, _) in evt):
            out.append("has_cancel")
        if any(e[0] == 4 and e[2] == 1 for (e, _) in evt):
            out.append("has_inner_error")
        tot = sum(sum((o[2] >> (5 * i)) & 31 for i in range(ncalls)) for (_, o) in evt)
        out.append("starts_%s" % ("le_calls" if tot <= ncalls else "hedged"))
    return out


def shrink(s):
    """candidate smaller scripts: remove one event"""
    nd = min(16, max(0, s[3] if len(s) > 3 else 0))
    head, body = s[:4 + nd], s[4 + nd:]
    for i in range(len(body) // 3):
        yield head + body[:3 * i] + body[3 * i + 3:]
