"""C12: hedge starts a bounded number of attempts and fails only when all have failed.
Generator, trace decoder and an independent monitor over the implementation's trace."""
import itertools

PROP = "C12"
DRIVER = "c12"
MODEL = "C12"
MODEL_QUALID = "Model.Hedge.run_script"
FORMAT = ("script [max; mode; ncalls; nd; d_1..d_nd; (op a b)*] max: 0..16 as given to the builder (0 becomes 1); above 16 it is the configured maximum (capped at usize::MAX) "
          "if the delay is Fixed and positive, else it counts as 16; mode mod 4: 0=Fixed(d_1) 1=Immediate 2=Dynamic(attempt k -> d_k, 0 beyond nd); "
          "(mode/4) mod 2 = 1: gated readiness (attempt clones of the inner service are not ready until the script's Ready op; the instance used by the primary is ready); "
          "(mode/8) mod 4: 0 = each call on its own Hedge value, 1 = all calls through one Hedge value, 2 = call i through a clone of the value used by call i-1, "
          "3 = even calls through one value, odd calls through a fresh clone of it; (mode/32) mod 2 = 1: the d_k are microseconds, else milliseconds; d_k >= 10^18 = Duration::MAX; "
          "op 1=Poll i 2=Drop i 3=Advance a(ms) 4=Complete a b (a=16*i+n: the n-th inner call made for call i; b: 0 ok,1 err,2 panic; the value carried is a) "
          "5=Ready a (a=16*i+k: the clone of hedge attempt k of call i becomes ready) 6=ReadyErr a (a=16*i+k: poll_ready of that clone returns Err(64+a) from now on: "
          "the attempt fails without an inner call) 7=SyncPanic a (a=16*i+n: that inner call panics, synchronously inside inner.call() if it has not been made yet). "
          "8=Create i (Hedge::call() now, no poll; otherwise a call is made by its first Poll/Drop). Call i uses request value i. "
          "trace: per event [r; v; ns; nl; wake mask; in-flight; now_ms] with r: -1 no poll, 0 pending, 1 Ok(v), 2 Err(Inner v), "
          "3 Err(AllAttemptsFailed v), 5 panicked, 9 nothing to poll; ns = sum_i (inner calls started for call i in this event)*32^i; "
          "nl = sum_i (hedge attempt tasks of call i that ran for the first time, i.e. asked their clone for readiness, in this event)*32^i")
RULE = ("timeline scripts built from a vector of per-attempt completion instants (before / at / after the ideal start of each later attempt, "
        "never) and outcomes (ok, err, panic in the inner future, panic inside inner.call()) with prompt, lazy or sparse polling and occasional cancellation, max 1..16, fixed / zero / immediate / "
        "per-attempt delays incl. zeros, sub-millisecond and fractional-millisecond delays (microsecond unit), 30-100 s delays and Duration::MAX (fixed and per-attempt); "
        "back-pressured clones (gated readiness: ready before launch, at launch, later, after the primary's success, never; out of order); "
        "clones whose poll_ready fails (before launch, while the attempt waits, after its call; gated or not); "
        "1-4 concurrent calls on separate Hedge values, through one value, through a chain of clones; calls made some time before their first poll (Create); "
        "max_hedged_attempts 0 (builder clamp), 17..300 with runs long enough to reach them, and usize::MAX / just above and at tokio's Semaphore::MAX_PERMITS (fixed positive delay); "
        "random event soups; exhaustive short scripts over a small alphabet (thorough); "
        "non-trivial = at least one hedge attempt was started or the call resolved with AllAttemptsFailed")
TRUSTED = ["tokio mpsc (FIFO, receiver woken by every send and by the last sender going away), tokio::spawn (tasks run in spawn order when the harness yields), "
           "time::sleep (millisecond resolution, rounding up: ready iff now >= deadline rounded up to a whole ms; a zero sleep is ready at its first poll; Duration::MAX never elapses) "
           "and the biased select! are modelled, tied to the libraries only by this correspondence run",
           "poll atomicity: the call future's state is touched only inside one poll; attempt tasks touch only the channel"]
ASSUMPTIONS = ["whole-millisecond instants (the clock moves in 1 ms steps); delays may be any number of microseconds",
               "single-threaded deterministic executor: spawned attempt tasks run, in spawn order, right after the event that spawned or unblocked them",
               "poll_ready of an attempt clone is Ready(Ok) at once, Pending until the script's Ready op (gated runs), or Ready(Err) once the script's ReadyErr op has been seen; "
               "the instance the caller drove to readiness (used by the primary) never fails",
               "at most one hedged call per request value, so that the n-th inner call of call i is the n-th inner call with request i",
               "max_hedged_attempts above 16 is driven only with a fixed positive delay (one hedge per poll at most), and only the first 16 inner calls of a call can be completed by a script"]
# scripts on which the REAL code violates the property (kept out of the pass/fail decision by the coordinator)
KNOWN_DEFECT = []

EVW = 7
DMAX = 10 ** 18
INF = 10 ** 30
USIZE_MAX = 2 ** 64 - 1
MAX_PERMITS = USIZE_MAX >> 3     # tokio::sync::Semaphore::MAX_PERMITS: mpsc::channel panics above it


def mk(mx, mode, ncalls, ds, evs):
    s = [mx, mode, ncalls, len(ds)] + list(ds)
    for e in evs:
        s += list(e)
    return s


def header(s):
    g = lambda i: s[i] if i < len(s) else 0
    mode = min(63, max(0, g(1)))    # mode % 4: delay kind, (mode // 4) % 2: gated, (mode // 8) % 4: sharing, (mode // 32) % 2: microseconds
    ncalls = min(4, max(0, g(2)))
    nd = min(16, max(0, g(3)))
    ds = [min(DMAX, max(0, g(4 + j))) for j in range(nd)]
    fixed_pos = mode % 4 not in (1, 2) and nd > 0 and ds[0] > 0
    mx = min(g(0), USIZE_MAX) if g(0) > 16 and fixed_pos else max(1, min(16, max(0, g(0))))
    body = s[4 + nd:]
    evs = [tuple(body[i:i + 3]) for i in range(0, len(body) - len(body) % 3, 3)]
    keep = []
    for (op, a, b) in evs:
        if op in (1, 2, 8):
            if 0 <= a < ncalls:
                keep.append((op, a, b))
        elif op == 3:
            keep.append((op, min(100000, max(0, a)), b))
        elif op in (4, 5, 6, 7):
            if a >= 0 and a // 16 < ncalls:
                keep.append((op, a, b))
    return mx, mode, ncalls, ds, keep


def micros(mode):
    return (mode // 32) % 2 == 1


def raw_delay(mode, ds, k):
    kind = mode % 4
    if kind == 1:
        return 0
    if kind == 2:
        return ds[k - 1] if 1 <= k <= len(ds) else 0
    return ds[0] if ds else 0


def delay_us(mode, ds, k):
    """configured delay before attempt k (k >= 1) in microseconds; INF for Duration::MAX"""
    d = raw_delay(mode, ds, k)
    if d >= DMAX:
        return INF
    return d if micros(mode) else 1000 * d


def delay_of(mode, ds, k):
    """the same in whole milliseconds, rounded up (what a millisecond timer does); used by the generators only"""
    d = delay_us(mode, ds, k)
    return d if d == INF else (d + 999) // 1000


def gated(mode):
    return (mode // 4) % 2 == 1


def latency_mode(mode, ds):
    kind = mode % 4
    if kind == 1:
        return False
    if kind == 2:
        return True
    return (ds[0] if ds else 0) > 0


def decode(s, t):
    mx, mode, ncalls, ds, evs = header(s)
    if len(t) != EVW * len(evs):
        return None
    return mx, mode, ncalls, ds, [(e, t[EVW * k:EVW * k + EVW]) for k, e in enumerate(evs)]


# ---------------------------------------------------------------------------
# independent monitor: restates the clauses of C12 over the implementation's trace, and nothing else.
# Vocabulary: attempt task k of a call is *launched* when it runs for the first time (the
# primary: its inner call; a hedge: its clone is asked for readiness) and *started* when its
# inner call is made (at launch if its clone is ready, else when the script readies the clone);
# it has *failed* when its inner call's error was delivered, when its task panicked, or when its
# clone's poll_ready failed (then it never makes an inner call).
# What the property leaves open is NOT checked here (it stays pinned by the comparison with the
# model's trace): which attempt's error AllAttemptsFailed carries; whether losing attempts are
# cancelled or run on once the call has resolved or was dropped; that a call whose attempts have
# all failed does report so; how soon after its delay a hedge is launched; whether a hedge is
# launched in the very poll that finds the primary's success; wake-ups that deliver no success;
# Err(Inner) versus AllAttemptsFailed (both count as the call giving up).
# Two layers. (1) monitor_free needs no bookkeeping about attempts: it states every clause in the form
# that can be read off the inner calls alone (the n-th inner call made for the request, its scripted
# outcome, the readiness failures scripted for the call). (2) monitor_call follows the attempts through
# the trace and states the clauses in their exact form (launch instants pairwise, all at once in parallel
# mode, first QUEUED success, nobody waiting); to know which attempt made which inner call it relies on
# the event discipline of the code as written (the primary is started by the first poll, hedges are
# launched by polls, a launched hedge whose clone is ready makes its call at once, a waiting one when its
# clone is readied). A trace that does not keep this discipline is not a violation of C12: the second
# layer then ABSTAINS on that call (Unfollowable) and only layer 1 and the comparison with the model
# speak. Abstention is not silent: classify() labels the script `monitor_layer2_abstained`, compare()
# says so in its message, and compare() fails the run if traces that EQUAL the model's are abstained on
# (on the unchanged tree the second layer follows every script).
class Unfollowable(Exception):
    pass


ABSTENTION = {"scripts": 0, "abstained": 0, "reported": False}


def monitor(s, t):
    d = decode(s, t)
    if d is None:
        return "malformed or panicking run: %s" % t[:12]
    mx, mode, ncalls, ds, evt = d
    lat = latency_mode(mode, ds) and mx > 1
    ABSTENTION["scripts"] += 1
    abstained = False
    for i in range(ncalls):
        m = monitor_free(i, mx, mode, ds, lat, evt)
        if not m:
            try:
                m = monitor_call(i, mx, mode, ds, lat, evt)
            except Unfollowable:
                m = None
                abstained = True
        if m:
            return "call %d: %s" % (i, m)
    if abstained:
        ABSTENTION["abstained"] += 1
    return None


def abstention(s, t):
    """why the second layer of the monitor does not follow this trace (None: it does)"""
    d = decode(s, t)
    if d is None:
        return None
    mx, mode, ncalls, ds, evt = d
    lat = latency_mode(mode, ds) and mx > 1
    for i in range(ncalls):
        try:
            monitor_call(i, mx, mode, ds, lat, evt)
        except Unfollowable as u:
            return "call %d: %s" % (i, u)
    return None


def compare(s, impl, model):
    if impl != model:
        why = abstention(s, impl)
        return "traces differ" + ("; the monitor's second layer abstains on the implementation's trace (%s)" % why if why else "")
    why = abstention(s, impl)
    if why:
        # the implementation agrees with the model and yet the monitor cannot follow it: a defect of the monitor
        return "the monitor's second layer abstains on a trace that equals the model's (%s)" % why
    if not ABSTENTION["reported"] and ABSTENTION["abstained"] > 20 and 50 * ABSTENTION["abstained"] > ABSTENTION["scripts"]:
        ABSTENTION["reported"] = True
        return ("the monitor's second layer abstained on %d of %d scripts: clauses 3 and 4 were judged in their bookkeeping-free form only"
                % (ABSTENTION["abstained"], ABSTENTION["scripts"]))
    return None


def monitor_free(i, mx, mode, ds, lat, evt):
    """All four clauses in the form that needs no bookkeeping about attempts.
    1: at most max inner calls, for the whole life of the request (also after the call resolved or was dropped).
    2: attempt k is not started before (start of the primary) + delay(1) + ... + delay(k), whatever 'started' means
       under back-pressure, so neither is the k-th inner call in time order after the first one.
    3: a poll of the unresolved call that finds a successful inner call (made and completed at earlier events, the call
       future having been polled at an earlier event: inner futures are driven by the call future's tasks) returns
       Ok with the value of an earliest such success, Ok is returned only then, and such a success wakes the future.
    4: the call gives up only if at least max attempts can have failed: inner calls made and completed with an error
       or a panic, plus clones whose readiness failure was scripted."""
    total = 0
    made = []            # event index at which inner call n was made
    t_first = None       # instant of the first inner call
    due = 0              # microseconds after t_first before which inner call number `total` must not happen
    outcome = {}         # n -> (b, event index of the Complete / SyncPanic)
    rfail = set()        # hedge clones with a scripted readiness failure
    alive = True
    last_poll = -1
    first_poll = None    # event index of the first poll of the call future
    for idx, (e, o) in enumerate(evt):
        op, a, b = e
        r, v, ns, nl, mask, infl, now = o
        if op in (4, 7) and a // 16 == i and a % 16 not in outcome:
            outcome[a % 16] = (2 if op == 7 or b not in (0, 1) else b, idx)
        if op == 6 and a // 16 == i and a % 16 >= 1:
            rfail.add(a % 16)
        if op == 2 and a == i:
            alive = False
        if op == 1 and a == i and alive:
            # an inner future exists from inner.call() on but is driven only once the call future has been polled:
            # a result is available after the call was made, completed, and the call future polled for the first time
            avail = dict((n, max(made[n], outcome[n][1], first_poll)) for n in range(total)
                         if n in outcome and outcome[n][0] == 0 and first_poll is not None)
            if first_poll is None:
                first_poll = idx
            if avail:
                first = min(avail.values())
                winners = [16 * i + n for n in avail if avail[n] == first]
                if r != 1 or v not in winners:
                    return ("inner call(s) %s had succeeded before the poll at %d ms but the call returned (r=%d, v=%d)"
                            % (sorted(avail), now, r, v))
            elif r == 1:
                return "resolved Ok(%d) at %d ms although no inner call made so far has succeeded" % (v, now)
            # C12 quantifies over outcomes ok / error: a panic of the call future is not judged once an inner call
            # that was actually made has panicked (the inner panic propagating); any other panic is a give-up
            # (made by this event at the latest: Hedge::call() and the first poll share an event unless `Create` is used)
            excused = r == 5 and any(outcome[n][0] == 2 for n in outcome if n < total + ((ns >> (5 * i)) & 31))
            if r in (2, 3, 5) and not excused:
                failed = len([n for n in outcome if n < total and outcome[n][0] != 0]) + len([k for k in rfail if k < mx])
                if failed < mx:
                    return ("%s at %d ms although only %d of %d attempts can have failed (%d inner calls made)"
                            % ({2: "Err(Inner)", 3: "AllAttemptsFailed", 5: "panic of the call future"}[r], now, failed, mx, total))
            if r != 0:
                alive = False
            last_poll = idx
        for _ in range((ns >> (5 * i)) & 31):
            if total >= mx:
                return "%d inner calls started by %d ms, max_hedged_attempts = %d" % (total + 1, now, mx)
            if t_first is None:
                t_first = now
            if lat and 1000 * (now - t_first) < due:
                return ("inner call %d at %d ms, less than the first %d configured delays (%s us) after the first inner call (%d ms)"
                        % (total, now, total, due, t_first))
            total += 1
            made.append(idx)
            if lat and total < mx:
                due = min(INF, due + delay_us(mode, ds, total))
        if alive and last_poll >= 0 and not (mask >> i) & 1:      # a future that was never polled has no waker
            for n in range(total):
                if n in outcome and outcome[n][0] == 0 and max(made[n], outcome[n][1], first_poll) >= last_poll:
                    return "inner call %d had succeeded by event %d but the call future was not woken" % (n, idx)
    return None


def monitor_call(i, mx, mode, ds, lat, evt):
    launch = []          # launch instant of attempt task k
    calls = []           # (task, instant) of the n-th inner call of this hedged call
    waiting = []         # launched hedge tasks whose clone is not ready yet
    ready = set()        # hedge clones the script has made ready
    failing = set()      # hedge clones whose poll_ready fails
    outcome = {}         # inner call n -> (b, event index of the Complete)
    delivered = []       # (event index, task, inner call n or None, b) in queue order, while the call future is alive
    alive = True         # future neither resolved nor dropped
    first_poll = None
    taken = 0            # number of delivered results the future has already looked at
    is_gated = gated(mode)
    dus = lambda k: delay_us(mode, ds, k)

    def is_ready(k):
        return k == 0 or (not is_gated) or k in ready

    def start_call(idx, k, now):
        n = len(calls)
        calls.append((k, now))
        if n in outcome and outcome[n][0] != 2:
            delivered.append((idx, k, n, outcome[n][0]))

    for idx, (e, o) in enumerate(evt):
        op, a, b = e
        r, v, ns, nl, mask, infl, now = o
        n_new = (ns >> (5 * i)) & 31
        l_new = (nl >> (5 * i)) & 31
        woke = (mask >> i) & 1
        if not alive:
            break        # nothing else is promised about a call that has resolved or was dropped
        if op in (4, 7) and a // 16 == i:
            n = a % 16
            if op == 7:
                b = 2
            if n not in outcome:
                outcome[n] = (b if b in (0, 1) else 2, idx)
                if n < len(calls) and outcome[n][0] != 2:
                    delivered.append((idx, calls[n][0], n, outcome[n][0]))
        if op == 5 and a // 16 == i:
            k = a % 16
            fresh = k not in ready
            ready.add(k)
            if is_gated and fresh and k in waiting:
                waiting.remove(k)
                if n_new != 1:
                    raise Unfollowable("clone of attempt %d became ready at %d ms but %d inner calls were made" % (k, now, n_new))
                start_call(idx, k, now)
                n_new = 0
        if op == 6 and a // 16 == i:
            k = a % 16
            if k not in failing:
                failing.add(k)
                if k in waiting:
                    waiting.remove(k)
                    delivered.append((idx, k, None, 1))
        if op == 2 and a == i:
            # cancellation
            alive = False
            continue
        if (n_new or l_new) and not (op == 1 and a == i):
            raise Unfollowable("inner call started / hedge launched outside a poll of the hedged call and without a Ready (event %d)" % idx)
        if op == 1 and a == i:
            if first_poll is None:
                first_poll = now
            # --- what was queued when this poll began
            pend = delivered[taken:]
            oks = [(j, n) for (j, k, n, bb) in pend if bb == 0]
            # clause 3: first success wins, at the first poll at which one is queued -- also
            # while a hedge is waiting for its clone to become ready
            if oks:
                nwin = oks[0][1]
                if r != 1 or v != 16 * i + nwin:
                    return ("a success of inner call %d was queued at the poll at %d ms but the call returned (r=%d, v=%d)%s"
                            % (nwin, now, r, v, " while hedge task(s) %s wait for readiness" % waiting if waiting else ""))
            elif r == 1:
                return "resolved Ok(%d) at %d ms without a queued success" % (v, now)
            # clause 4: the call gives up (AllAttemptsFailed; Err(Inner) and a panic of the call future are
            # no better) only if every attempt was launched, none is still waiting to be started, and each has failed.
            # C12 quantifies over outcomes ok / error: once an inner call that was made has panicked, a panic
            # of the call future (the inner panic propagating) is not judged.
            if r == 5 and any(outcome[n][0] == 2 for n in outcome if n < len(calls) + n_new):
                alive = False
                continue
            if r in (2, 3, 5):
                what = {2: "Err(Inner)", 3: "AllAttemptsFailed", 5: "panic of the call future"}[r]
                if len(launch) != mx:
                    return "%s at %d ms with %d of %d attempts started" % (what, now, len(launch), mx)
                if waiting:
                    return "%s at %d ms while attempt(s) %s have not made their inner call yet" % (what, now, waiting)
                failed = set(k for (_, k, _, bb) in delivered if bb == 1) | \
                    set(calls[n][0] for n in outcome if outcome[n][0] == 2 and n < len(calls))
                if len(failed) != mx or any(k >= mx for k in failed):
                    return "%s at %d ms but only attempts %s have failed" % (what, now, sorted(failed))
            taken = len(delivered)
            if r != 0:
                alive = False
                continue
            # --- tasks launched by this poll run right after it, in order
            n_launch = l_new + (1 if not launch else 0)
            if not launch and n_new < 1:
                raise Unfollowable("the first poll did not start the primary")
            started_here = 0
            for _ in range(n_launch):
                k = len(launch)
                launch.append(now)
                if k >= 1 and k in failing:
                    delivered.append((idx, k, None, 1))
                elif is_ready(k):
                    start_call(idx, k, now)
                    started_here += 1
                else:
                    waiting.append(k)
            if started_here != n_new:
                raise Unfollowable("poll at %d ms launched tasks up to %d; %d of them have a ready clone but %d inner calls were made"
                                   % (now, len(launch) - 1, started_here, n_new))
            # clause 1: bounded
            if len(launch) > mx or len(calls) > mx:
                return "%d attempts launched, %d inner calls started, max_hedged_attempts = %d" % (len(launch), len(calls), mx)
            # clause 2: spacing (of the launch instants; an inner call is made at launch or later)
            if launch[0] != first_poll or calls[0] != (0, first_poll):
                return "primary started at %s, first poll at %d" % (calls[0], first_poll)
            if lat:
                for k in range(1, len(launch)):
                    if 1000 * launch[k] < 1000 * launch[k - 1] + dus(k):
                        return ("attempt %d launched at %d ms, less than %s us after attempt %d (%d ms)"
                                % (k, launch[k], dus(k), k - 1, launch[k - 1]))
            else:
                if len(launch) != mx or any(x != first_poll for x in launch):
                    return "parallel mode: launches %s, expected %d at %d ms" % (launch, mx, first_poll)
        for (k, tm) in calls:
            if tm < launch[k] or (lat and k >= 1 and 1000 * tm < 1000 * launch[k - 1] + dus(k)):
                return "inner call of attempt %d at %d ms, before its launch / the configured delay" % (k, tm)
        if lat and not is_gated:
            # without back-pressure, clause 2 read on the inner calls themselves
            for n in range(1, len(calls)):
                if 1000 * calls[n][1] < 1000 * calls[n - 1][1] + dus(calls[n][0]):
                    return ("inner call %d (attempt %d) at %d ms, less than %s us after inner call %d at %d ms"
                            % (n, calls[n][0], calls[n][1], dus(calls[n][0]), n - 1, calls[n - 1][1]))
        # "as soon as it is available": an unseen queued success must have woken the call future
        if first_poll is not None and any(bb == 0 for (_, _, _, bb) in delivered[taken:]) and not woke:
            return "a success was queued at event %d but the call future was not woken" % idx
    return None


# ---------------------------------------------------------------------------
def corpus():
    P, D, A, C = (lambda i=0: (1, i, 0)), (lambda i=0: (2, i, 0)), (lambda d: (3, d, 0)), (lambda i, k, b: (4, 16 * i + k, b))
    R = lambda i, k: (5, 16 * i + k, 0)
    E = lambda i, k: (6, 16 * i + k, 0)
    G = 4    # gated readiness
    US = 32  # delays in microseconds
    ONE, CHAIN, ALT = 8, 16, 24   # sharing of the Hedge value
    return [
        # seeded regression C12-2: the hedge delay elapses, the hedge's clone is not ready, the primary
        # succeeds meanwhile => Ok at the next poll (the hedge never gets ready / gets ready later)
        mk(2, G + 0, 1, [10], [P(), A(10), P(), A(5), C(0, 0, 0), P()]),
        mk(2, G + 0, 1, [10], [P(), A(10), P(), A(5), C(0, 0, 0), P(), R(0, 1), C(0, 1, 0)]),
        # ... and the timer for the next hedge keeps running while hedge 1 waits; errors are counted
        mk(3, G + 0, 1, [10], [P(), A(10), P(), A(10), P(), R(0, 2), C(0, 1, 1), P(), R(0, 1), C(0, 2, 1), C(0, 0, 1), P()]),
        # parallel mode with back-pressure: clones become ready out of order, all fail
        mk(3, G + 1, 1, [], [P(), R(0, 2), C(0, 1, 1), R(0, 1), C(0, 2, 1), C(0, 0, 1), P()]),
        # parallel mode: not all-failed while a hedge is still waiting for its clone
        mk(2, G + 1, 1, [], [P(), C(0, 0, 1), P(), R(0, 1), P(), C(0, 1, 0), P()]),
        # clone made ready before the hedge is launched: starts at the deadline
        mk(2, G + 0, 1, [10], [R(0, 1), P(), A(10), P(), C(0, 1, 0), P()]),
        # dropped call: a waiting hedge still makes its inner call when its clone gets ready
        mk(2, G + 0, 1, [10], [P(), A(10), P(), D(), R(0, 1), C(0, 1, 0), C(0, 0, 0)]),
        # upstream defect 1a4d08f: delay 10 ms, 2 attempts, primary ok at 100 ms, hedge fails at once
        # => Ok at 100 ms, not AllAttemptsFailed at 11 ms
        mk(2, 0, 1, [10], [P(), C(0, 1, 1), A(10), P(), A(1), P(), A(89), C(0, 0, 0), P()]),
        # upstream defect dfabe11: dynamic delays [0, 50]: attempt 2 not before 50 ms after attempt 1
        mk(3, 2, 1, [0, 50], [P(), A(49), P(), A(1), P(), C(0, 0, 1), P(), C(0, 1, 1), C(0, 2, 1), P()]),
        # parallel mode, all fail, hedge 1 fails first: the carried error is hedge 1's
        mk(3, 1, 1, [], [P(), C(0, 1, 1), P(), C(0, 0, 1), C(0, 2, 1), P()]),
        # single attempt
        mk(1, 0, 1, [10], [P(), C(0, 0, 1), P()]),
        # hedge succeeds while the primary is still running
        mk(3, 0, 1, [5], [P(), A(5), C(0, 0, 1), P(), A(5), P(), C(0, 1, 0), C(0, 2, 0), P()]),
        # two concurrent calls; inner panics in parallel mode
        mk(3, 1, 2, [], [P(0), P(1), C(0, 0, 2), C(0, 1, 2), C(0, 2, 2), P(0), C(1, 0, 1), C(1, 1, 2), C(1, 2, 0), P(1)]),
        # latency mode, primary panics, hedge fails: the call stays pending for ever
        mk(2, 0, 1, [10], [P(), C(0, 0, 2), A(10), P(), C(0, 1, 1), P(), A(100), P()]),
        # primary succeeds exactly when the hedge timer fires: the result wins (biased select)
        mk(2, 0, 1, [10], [P(), A(10), C(0, 0, 0), P()]),
        # an error and the elapsed timer in the same poll: error taken first, then the hedge is started
        mk(2, 0, 1, [10], [P(), A(10), C(0, 0, 1), P(), C(0, 1, 1), P()]),
        # cancellation: no hedge after the drop, attempts already started keep running
        mk(3, 0, 1, [10], [P(), A(10), P(), D(), A(20), P(), C(0, 0, 0), C(0, 1, 0)]),
        # all zeros dynamic: everything in the first poll, still the latency loop's failure rule
        mk(3, 2, 1, [0, 0], [P(), C(0, 2, 1), C(0, 1, 1), P(), C(0, 0, 1), P()]),
        # fixed zero delay = parallel
        mk(4, 0, 1, [0], [C(0, 3, 0), P(), P()]),
        # lazy polling: timers elapse long before the polls
        mk(4, 0, 1, [10], [P(), A(35), P(), A(5), P(), A(10), P(), A(10), P()]),
        # ---- a clone's poll_ready fails: the attempt fails without an inner call
        # latency mode, no back-pressure: hedge 1's clone fails at launch, the primary fails later => all failed
        # with ONE inner call; the primary's error is carried
        mk(2, 0, 1, [10], [E(0, 1), P(), A(10), P(), P(), C(0, 0, 1), P()]),
        # ... but not before the primary has failed, and a later success of the primary still wins
        mk(2, 0, 1, [10], [E(0, 1), P(), A(10), P(), A(5), P(), C(0, 0, 0), P()]),
        # back-pressure: the waiting hedge's clone fails while it waits; hedge 2 then makes inner call 1
        mk(3, G + 0, 1, [10], [P(), A(10), P(), E(0, 1), P(), A(10), R(0, 2), P(), C(0, 1, 1), C(0, 0, 1), P()]),
        # parallel mode: every hedge clone fails, the primary fails last / the primary succeeds
        mk(3, 1, 1, [], [E(0, 1), E(0, 2), P(), P(), C(0, 0, 1), P()]),
        mk(3, 1, 1, [], [E(0, 1), E(0, 2), P(), P(), C(0, 0, 0), P()]),
        # parallel + gated: fails while waiting, after Ready (no effect: the call was made), dropped call
        mk(3, G + 1, 1, [], [P(), R(0, 1), E(0, 1), E(0, 2), P(), C(0, 1, 1), C(0, 0, 1), P()]),
        mk(2, G + 0, 1, [10], [P(), A(10), P(), D(), E(0, 1), C(0, 0, 0)]),
        # readiness failure wakes the call future; errors counted towards max in latency mode
        mk(3, 2, 1, [0, 5], [E(0, 1), P(), C(0, 0, 1), P(), A(5), P(), C(0, 1, 1), P()]),
        # ---- sub-millisecond and fractional delays (microsecond unit): 900 us behaves as 1 ms, 1500 us as 2 ms
        mk(2, US + 0, 1, [900], [P(), P(), A(1), P(), C(0, 1, 0), P()]),
        mk(3, US + 2, 1, [1500, 2500], [P(), A(1), P(), A(1), P(), A(2), P(), A(1), P(), C(0, 2, 0), P()]),
        mk(3, US + 0, 1, [1], [P(), A(1), P(), A(1), P(), C(0, 0, 1), C(0, 1, 1), C(0, 2, 1), P()]),
        mk(3, US + 2, 1, [1000, 1001], [P(), A(1), P(), A(1), P(), A(1), P()]),
        # ---- Duration::MAX ("never hedge"): the primary alone decides / only the hedges before it exist
        mk(2, 0, 1, [DMAX], [P(), A(100000), P(), C(0, 0, 0), P()]),
        mk(2, 0, 1, [DMAX], [P(), A(50), C(0, 0, 1), P(), A(100000), P()]),
        mk(3, 2, 1, [5, DMAX], [P(), A(5), P(), A(100000), P(), C(0, 1, 0), P()]),
        mk(3, 2, 1, [DMAX, 0], [P(), A(1000), P(), C(0, 0, 0), P()]),
        mk(2, US + 0, 1, [DMAX], [P(), A(1000), P(), C(0, 0, 0), P()]),
        # ---- long delays that do elapse
        mk(2, 0, 1, [60000], [P(), A(59999), P(), A(1), P(), C(0, 1, 0), P()]),
        mk(3, 2, 1, [100000, 30000], [P(), A(100000), P(), A(29999), P(), A(1), P(), C(0, 2, 1), C(0, 1, 1), C(0, 0, 1), P()]),
        # ---- several calls through ONE Hedge value / a chain of clones / alternating: each has its own attempts
        mk(2, ONE + 0, 3, [10], [P(0), C(0, 0, 1), A(10), P(0), C(0, 1, 1), P(0), P(1), C(1, 0, 1), P(1), A(10), P(1), C(1, 1, 0), P(1),
                                 P(2), A(10), P(2), C(2, 1, 1), C(2, 0, 1), P(2)]),
        mk(2, CHAIN + 0, 3, [10], [P(0), P(1), C(0, 0, 1), C(1, 0, 1), A(10), P(0), P(1), C(0, 1, 1), P(0), P(2), C(1, 1, 0), P(1),
                                   A(10), P(2), C(2, 1, 1), C(2, 0, 1), P(2)]),
        mk(3, ALT + 1, 4, [], [P(0), P(1), P(2), P(3), C(0, 0, 1), C(0, 1, 1), C(0, 2, 1), P(0), C(1, 2, 0), P(1), C(2, 0, 1), P(2), C(3, 1, 1), P(3)]),
        mk(2, ONE + G + 0, 2, [5], [P(0), A(5), P(0), P(1), A(5), P(1), R(1, 1), R(0, 1), C(0, 1, 0), C(1, 1, 1), C(1, 0, 1), P(0), P(1)]),
        # ---- the inner service panics synchronously inside call(): like a panicking inner future
        mk(2, 0, 1, [10], [(7, 0, 0), P(), A(10), P(), C(0, 1, 0), P()]),
        mk(3, 1, 1, [], [(7, 1, 0), P(), (7, 0, 0), C(0, 2, 1), P()]),
        mk(2, 1, 1, [], [(7, 0, 0), (7, 1, 0), P(), P()]),
        # ---- fix 787162c: a maximum above tokio's channel limit (usize::MAX = "no limit") used to panic every call
        # before the primary was sent (reproducer notes/fix-demos/hedge_huge_max.rs); at / just above the limit; with hedges
        mk(USIZE_MAX, 0, 1, [50], [P(), C(0, 0, 0), P()]),
        mk(MAX_PERMITS + 1, 0, 1, [50], [P(), C(0, 0, 0), P()]),
        mk(MAX_PERMITS, 0, 1, [50], [P(), C(0, 0, 1), P(), A(50), P(), C(0, 1, 0), P()]),
        mk(USIZE_MAX, 0, 1, [10], [P(), A(10), P(), C(0, 1, 0), P()]),
        mk(USIZE_MAX, 0, 1, [10], [P(), C(0, 0, 1), A(10), P(), C(0, 1, 1), P(), A(10), P(), A(10), P(), C(0, 3, 0), P()]),
        mk(USIZE_MAX, 32 + 4, 2, [1500], [P(0), P(1), A(2), P(0), P(1), R(1, 1), C(1, 1, 0), P(1), E(0, 1), P(0), A(2), P(0), C(0, 1, 0), P(0)]),
        # ---- max_hedged_attempts(0): the builder stores 1
        mk(0, 0, 1, [10], [P(), C(0, 0, 0), P()]),
        mk(0, 1, 1, [], [P(), A(5), P(), C(0, 0, 1), P()]),
        # ---- the call is made some time before its first poll: the hedge delay counts from the first poll (the start of
        # the primary), not from Hedge::call()
        mk(2, 0, 1, [400], [(8, 0, 0), A(150), P(), A(399), P(), A(1), P(), C(0, 1, 0), P()]),
        mk(3, 2, 1, [5, 7], [(8, 0, 0), A(20), P(), A(5), P(), A(6), P(), A(1), P(), C(0, 2, 1), C(0, 1, 1), C(0, 0, 1), P()]),
        mk(2, 0, 1, [10], [(8, 0, 0), A(30), D()]),
        mk(2, ONE + 0, 2, [10], [(8, 0, 0), (8, 1, 0), A(10), P(1), A(5), P(0), A(5), P(1), P(0), A(5), P(0), C(0, 1, 0), C(1, 0, 0), P(0), P(1)]),
        # ---- more than 16 attempts: the bound is reached after 19 hedges; 300 attempts in a run of 310 polls
        mk(20, 0, 1, [1], [P()] + [x for _ in range(25) for x in (A(1), P())]),
        mk(300, 0, 1, [1], [P()] + [x for _ in range(310) for x in (A(1), P())]),
        # ---- max_hedged_attempts = 16, parallel: all fail / the last one succeeds
        mk(16, 1, 1, [], [P()] + [C(0, k, 1) for k in range(16)] + [P()]),
        mk(16, 1, 1, [], [P()] + [C(0, k, 1) for k in range(15)] + [P(), C(0, 15, 0), P()]),
    ]


TIMES_NEAR = (-1, 0, 1)


def timeline_script(rng, ncalls=1):
    mx_raw = rng.choice([0, 1, 2, 2, 3, 3, 4, 5, 5, 7, 16])
    mx = max(1, mx_raw)
    kind = rng.random()
    unit = 0
    if kind < 0.38:
        mode, ds = 0, [rng.choice([1, 2, 5, 10, 10, 20])]
    elif kind < 0.48:
        mode, ds = rng.choice([(0, [0]), (1, []), (1, [7])])
    elif kind < 0.58:
        # microsecond unit: sub-millisecond, fractional, exact
        unit = 32
        if rng.random() < 0.5:
            mode, ds = 0, [rng.choice([1, 500, 900, 999, 1000, 1001, 1500, 2500, 4999])]
        else:
            mode, ds = 2, [rng.choice([0, 1, 900, 1000, 1001, 1500, 2000, 3300]) for _ in range(rng.randint(1, mx))]
    elif kind < 0.64:
        # Duration::MAX somewhere, or a long delay
        if rng.random() < 0.5:
            mode, ds = 0, [rng.choice([DMAX, DMAX, 30000, 100000])]
        else:
            mode = 2
            ds = [rng.choice([0, 3, 10, DMAX, 30000]) for _ in range(rng.randint(1, mx))]
    else:
        mode = 2
        ds = [rng.choice([0, 0, 1, 3, 5, 10, 20]) for _ in range(rng.randint(0, mx))]
    mode += unit
    ideal = [0]
    for k in range(1, mx):
        d = delay_of(mode, ds, k)
        ideal.append(ideal[-1] + (d if d < INF else 40))     # a hedge that is never due: still look around a plausible instant
    horizon = ideal[-1] + 25
    is_g = rng.random() < 0.45
    if is_g:
        mode += 4
    if ncalls > 1 or rng.random() < 0.1:
        mode += 8 * rng.choice([0, 1, 1, 2, 3])
    todo = []   # (time, order, event)
    created_early = set()
    for i in range(ncalls):
        off = 0 if i == 0 else rng.choice([0, 0, 3, min(ideal[-1], 200)])
        if rng.random() < 0.2:
            # Hedge::call() at 0, first poll `off` ms later: every instant of this call shifts with its first poll
            created_early.add(i)
            off = rng.choice([1, 3, 7, min(ideal[min(1, mx - 1)], 200) + rng.choice([0, 1, 5])])
            todo.append((off, -1.0, (1, i, 0)))
        # clones whose poll_ready fails (with or without back-pressure)
        if rng.random() < 0.3 and mx >= 2:
            for k in range(1, mx):
                if rng.random() < (0.5 if mx <= 5 else 0.2):
                    x = rng.random()
                    tm = 0 if x < 0.5 else ideal[k] if x < 0.7 else ideal[k] + rng.choice([1, 2, 5, 8])
                    todo.append((max(0, tm + off), rng.random(), (6, 16 * i + k, 0)))
        if is_g:
            # the seeded-regression shape: primary succeeds after the first hedge delay while hedge 1 is unready
            shape = rng.random() < 0.3 and mx >= 2
            for k in range(1, mx):
                x = rng.random()
                if shape and k == 1:
                    x = rng.choice([0.0, 0.9])
                if x < 0.2:
                    continue            # never ready
                if x < 0.4:
                    tm = 0              # ready before it is launched
                elif x < 0.6:
                    tm = ideal[k]       # ready exactly when due
                else:
                    tm = ideal[k] + rng.choice([1, 2, 5, 8, 12, 20])
                if shape and k == 1 and x > 0.5:
                    tm = ideal[1] + rng.choice([8, 12, 20])
                todo.append((max(0, tm + off), rng.random(), (5, 16 * i + k, 0)))
            if shape:
                todo.append((ideal[1] + off + rng.choice([0, 1, 3, 5]), rng.random(), (4, 16 * i, 0)))
        for k in range(mx):
            x = rng.random()
            if x < 0.12:
                continue    # never completes
            base = rng.choice(ideal + [ideal[k], ideal[min(k + 1, mx - 1)], horizon - 5])
            tm = max(0, base + rng.choice(TIMES_NEAR + (0, 2, 7)) + off)
            if rng.random() < 0.15:
                tm = 0      # completed before it even starts: fails / succeeds at once
            b = rng.choice([0, 1, 1, 1, 1, 2]) if rng.random() < 0.7 else rng.choice([0, 1])
            if b == 2 and rng.random() < 0.5:
                todo.append((tm, rng.random(), (7, 16 * i + k, 0)))    # panic inside inner.call() if not made yet
            else:
                todo.append((tm, rng.random(), (4, 16 * i + k, b)))
        if rng.random() < 0.12:
            todo.append((rng.randint(0, horizon), rng.random(), (2, i, 0)))
    todo.sort()
    style = rng.choice(["prompt", "prompt", "lazy", "sparse"])
    evs = []
    t = 0

    def polls():
        for i in range(ncalls):
            if style == "prompt" or (style == "lazy" and rng.random() < 0.5) or (style == "sparse" and rng.random() < 0.15):
                evs.append((1, i, 0))
    # call i's first poll (or its creation only)
    for i in range(ncalls):
        evs.append((8, i, 0) if i in created_early else (1, i, 0))
    marks = sorted(set([x for x in ideal] + [tm for (tm, _, _) in todo] + [horizon]))
    ti = 0
    for mark in marks:
        while mark > t:
            step = min(mark - t, 100000)
            if style == "prompt":
                evs.append((3, step, 0))
            else:
                # split the advance at a random point so that polls happen strictly between marks, too
                cut = rng.randint(0, step)
                if 0 < cut < step:
                    evs.append((3, cut, 0)); polls(); evs.append((3, step - cut, 0))
                else:
                    evs.append((3, step, 0))
            t += step
            polls()
        while ti < len(todo) and todo[ti][0] <= t:
            evs.append(todo[ti][2]); ti += 1
            polls()
    for i in range(ncalls):
        evs.append((1, i, 0))
    return mk(mx_raw, mode, ncalls, ds, evs)


def large_max_script(rng):
    """max_hedged_attempts above 16 -- up to usize::MAX -- with a fixed positive delay: one hedge per poll at most"""
    big = rng.choice([17, 64, 300, MAX_PERMITS, MAX_PERMITS + 1, USIZE_MAX, USIZE_MAX])
    mode, ds = rng.choice([(0, [1]), (0, [2]), (0, [5]), (0, [10]), (32, [1500]), (32, [700])])
    d = delay_of(mode, ds, 1)
    is_g = rng.random() < 0.3
    if is_g:
        mode += 4
    ncalls = rng.choice([1, 1, 2])
    if ncalls > 1:
        mode += 8 * rng.choice([0, 1, 2])
    evs = [(1, i, 0) for i in range(ncalls)]
    launched = 1
    for _ in range(rng.randint(3, 26)):
        x = rng.random()
        i = rng.randrange(ncalls)
        if x < 0.3:
            evs.append((3, rng.choice([d, d, d - 1 if d > 1 else d, 1, d + 1]), 0))
        elif x < 0.6:
            evs.append((1, i, 0)); launched += 1
        elif x < 0.64:
            evs.append((2, i, 0))
        elif x < 0.9 or not is_g:
            evs.append((4, 16 * i + rng.randrange(min(launched, 15) + 1), rng.choice([0, 1, 1, 1, 2])))
        elif x < 0.96:
            evs.append((5, 16 * i + rng.randrange(1, min(launched, 14) + 2), 0))
        else:
            evs.append((6, 16 * i + rng.randrange(1, min(launched, 14) + 2), 0))
    evs += [(1, i, 0) for i in range(ncalls)]
    return mk(big, mode, ncalls, ds, evs)


def random_script(rng, maxlen=30):
    mx = rng.choice([0, 1, 2, 2, 3, 3, 4])
    mode, ds = rng.choice([(0, [3]), (0, [5]), (0, [0]), (1, []), (2, [0, 4]), (2, [2, 0, 3]), (2, [0, 0, 5]), (2, []),
                           (32, [1500]), (34, [900, 0, 2001]), (0, [DMAX]), (2, [2, DMAX])])
    ncalls = rng.choice([1, 1, 2, 2, 3, 4])
    is_g = rng.random() < 0.5
    if is_g:
        mode += 4
    mode += 8 * rng.choice([0, 0, 1, 2, 3])
    p_err = rng.choice([0, 0, 0.08, 0.15])
    evs = []
    mxe = max(1, mx)
    for _ in range(rng.randint(3, maxlen)):
        x = rng.random()
        i = rng.randrange(ncalls)
        if rng.random() < 0.04:
            evs.append((8, i, 0))
        elif rng.random() < p_err:
            evs.append((6, 16 * i + rng.randrange(1, mxe + 1), 0))
        elif is_g and rng.random() < 0.15:
            evs.append((5, 16 * i + rng.randrange(1, mxe + 1), 0))
        elif x < 0.45:
            evs.append((1, i, 0))
        elif x < 0.50:
            evs.append((2, i, 0))
        elif x < 0.72:
            evs.append((3, rng.choice([1, 1, 2, 3, 4, 5, 5, 8]), 0))
        elif x < 0.97:
            evs.append((4, 16 * i + rng.randrange(mxe + 1), rng.choice([0, 1, 1, 1, 2])))
        else:
            evs.append((7, 16 * i + rng.randrange(mxe + 1), 0))
    return mk(mx, mode, ncalls, ds, evs)


def exhaustive(depth, mx, mode, ds, ncalls=1, rerr=False, create=False):
    alpha = [(1, 0, 0), (3, 1, 0), (3, 2, 0)]
    amx, mx = min(mx, 3), mx      # the alphabet names the first inner calls / clones only
    for k in range(amx):
        alpha += [(4, k, 0), (4, k, 1)]
    if create:
        alpha += [(8, 0, 0)]
    if ncalls > 1:
        alpha += [(1, 1, 0), (4, 16, 1), (4, 17, 0)]
    alpha += [(2, 0, 0), (4, 0, 2)]
    if rerr:
        alpha += [(7, 1, 0)]
    if gated(mode):
        alpha += [(5, k, 0) for k in range(1, amx)]
    if rerr:
        alpha += [(6, k, 0) for k in range(1, amx)]
    for L in range(1, depth + 1):
        for evs in itertools.product(alpha, repeat=L):
            yield mk(mx, mode, ncalls, ds, evs)


def generate(rng, tier):
    out = []
    if tier == "quick":
        out += [timeline_script(rng) for _ in range(1500)]
        out += [timeline_script(rng, 2) for _ in range(250)]
        out += [timeline_script(rng, rng.choice([3, 4])) for _ in range(80)]
        out += [random_script(rng) for _ in range(700)]
        out += [large_max_script(rng) for _ in range(250)]
        out += list(exhaustive(3, 2, 0, [2], create=True))
        out += list(exhaustive(3, 2, 4, [1], rerr=True))
        out += list(exhaustive(3, 2, 1, [], rerr=True))
    else:
        out += [timeline_script(rng) for _ in range(34000)]
        out += [timeline_script(rng, 2) for _ in range(6000)]
        out += [timeline_script(rng, rng.choice([3, 4])) for _ in range(2000)]
        out += [random_script(rng, 50) for _ in range(16000)]
        out += [large_max_script(rng) for _ in range(6000)]
        out += list(exhaustive(5, 2, 0, [2]))
        out += list(exhaustive(4, 2, 0, [2], create=True))
        out += list(exhaustive(3, USIZE_MAX, 0, [1]))
        out += list(exhaustive(4, 3, 2, [0, 2]))
        out += list(exhaustive(4, 2, 1, []))
        out += list(exhaustive(4, 3, 0, [1]))
        out += list(exhaustive(3, 2, 0, [1], 2))
        out += list(exhaustive(3, 2, 8 + 0, [1], 2))
        out += list(exhaustive(3, 2, 16 + 1, [], 2))
        out += list(exhaustive(5, 2, 4, [1]))
        out += list(exhaustive(4, 3, 4 + 2, [0, 1]))
        out += list(exhaustive(4, 3, 4 + 1, []))
        out += list(exhaustive(4, 2, 0, [1], rerr=True))
        out += list(exhaustive(4, 2, 4, [1], rerr=True))
        out += list(exhaustive(4, 3, 1, [], rerr=True))
        out += list(exhaustive(3, 3, 4 + 2, [0, 1], rerr=True))
        out += list(exhaustive(4, 2, 32 + 0, [1500]))
    return out


def nontrivial(s, t):
    d = decode(s, t)
    if not d:
        return True
    mx, mode, ncalls, ds, evt = d
    tot = 0
    for (e, o) in evt:
        if o[0] == 3:
            return True
        tot += sum((o[2] >> (5 * i)) & 31 for i in range(ncalls))
    return tot > ncalls


def classify(s, t):
    d = decode(s, t)
    mx, mode, ncalls, ds, evs = header(s)
    raw_max = s[0] if s else 0
    out = ["max%s" % (mx if mx <= 5 else "6to16" if mx <= 16 else "_17to300" if mx <= 300 else "_at_channel_limit" if mx == MAX_PERMITS
                      else "_above_channel_limit"), "calls%d" % ncalls, "gated" if gated(mode) else "always_ready",
           "share%d" % ((mode // 8) % 4)]
    if mode % 4 == 1:
        out.append("delay_immediate")
    elif mode % 4 == 2:
        out.append("delay_dynamic" + ("_zero_first" if (not ds or ds[0] == 0) else ""))
    else:
        out.append("delay_fixed" + ("_zero" if not latency_mode(mode, ds) else ""))
    used = [raw_delay(mode, ds, k) for k in range(1, min(mx, 17))]
    if any(x >= DMAX for x in used):
        out.append("delay_has_duration_max")
    if any(20000 <= x < DMAX for x in used) and not micros(mode):
        out.append("delay_has_30s_or_more")
    if micros(mode) and mode % 4 != 1:
        out.append("delay_microseconds")
        if any(0 < x < 1000 for x in used):
            out.append("delay_sub_millisecond")
        if any(x % 1000 for x in used if x < DMAX):
            out.append("delay_fractional_ms")
    if any(e[0] == 6 for e in evs):
        out.append("has_ready_err")
    if any(e[0] == 7 for e in evs):
        out.append("has_sync_panic_in_call")
    if raw_max <= 0:
        out.append("max0_through_builder")
    if d:
        evt = d[4]
        out.append("monitor_layer2_abstained" if abstention(s, t) else "monitor_layer2_followed")
        # a call made (Create) at an earlier instant than its first poll
        made_at = {}
        for (e, o) in evt:
            if e[0] == 8 and e[1] not in made_at:
                made_at[e[1]] = o[6]
            if e[0] == 1 and e[1] in made_at and made_at[e[1]] is not None:
                if o[6] > made_at[e[1]]:
                    out.append("first_poll_later_than_call")
                made_at[e[1]] = None
            if e[0] in (1, 2) and e[1] not in made_at:
                made_at[e[1]] = None
        rs = set(o[0] for (_, o) in evt)
        for r, name in ((1, "ok"), (3, "all_failed"), (5, "panic")):
            if r in rs:
                out.append("saw_" + name)
        for (e, o) in evt:
            if o[0] == 1:
                out.append("won_by_primary" if o[1] % 16 == 0 else "won_by_hedge")
        if any(e[0] == 2 for (e, _) in evt):
            out.append("has_cancel")
        if any(e[0] == 4 and e[2] == 1 for (e, _) in evt):
            out.append("has_inner_error")
        tot = sum(sum((o[2] >> (5 * i)) & 31 for i in range(ncalls)) for (_, o) in evt)
        out.append("starts_%s" % ("le_calls" if tot <= ncalls else "hedged"))
        nlaunch = sum(sum((o[3] >> (5 * i)) & 31 for i in range(ncalls)) for (_, o) in evt)
        if nlaunch + ncalls > tot and nlaunch:
            out.append("hedge_launched_without_inner_call")
        # per call: launched hedges, inner calls; Ok / AllAttemptsFailed seen while fewer inner calls than launched attempts
        ls = [0] * ncalls; cs = [0] * ncalls
        for (e, o) in evt:
            for i in range(ncalls):
                ls[i] += (o[3] >> (5 * i)) & 31; cs[i] += (o[2] >> (5 * i)) & 31
            if o[0] == 1 and e[0] == 1 and ls[e[1]] + 1 > cs[e[1]]:
                out.append("ok_while_hedge_without_inner_call")
            if o[0] == 3 and e[0] == 1 and cs[e[1]] < mx:
                out.append("all_failed_with_readiness_failure")
    return out


def shrink(s):
    """candidate smaller scripts: remove one event"""
    nd = min(16, max(0, s[3] if len(s) > 3 else 0))
    head, body = s[:4 + nd], s[4 + nd:]
    for i in range(len(body) // 3):
        yield head + body[:3 * i] + body[3 * i + 3:]
