"""C12: hedge starts a bounded number of attempts and fails only when all have failed.
Generator, trace decoder and an independent monitor over the implementation's trace."""
import itertools

PROP = "C12"
DRIVER = "c12"
MODEL = "C12"
MODEL_QUALID = "Model.Hedge.run_script"
FORMAT = ("script [max; mode; ncalls; nd; d_1..d_nd; (op a b)*] mode mod 4: 0=Fixed(d_1 ms) 1=Immediate 2=Dynamic(attempt k -> d_k ms, 0 beyond nd); "
          "mode/4 = 1: gated readiness (clones of the inner service are not ready until the script's Ready op; the instance used by the primary is ready); "
          "op 1=Poll i 2=Drop i 3=Advance a(ms) 4=Complete a b (a=16*i+n: the n-th inner call made for call i; b: 0 ok,1 err,2 panic; the value carried is a) "
          "5=Ready a (a=16*i+k: the clone of hedge attempt k of call i becomes ready). "
          "Call i uses request value i on its own hedge service over the shared inner service. "
          "trace: per event [r; v; ns; nl; wake mask; in-flight; now_ms] with r: -1 no poll, 0 pending, 1 Ok(v), 2 Err(Inner v), "
          "3 Err(AllAttemptsFailed v), 5 panicked, 9 nothing to poll; ns = sum_i (inner calls started for call i in this event)*32^i; "
          "nl = sum_i (hedge attempt tasks of call i that ran for the first time, i.e. asked their clone for readiness, in this event)*32^i")
RULE = ("timeline scripts built from a vector of per-attempt completion instants (before / at / after the ideal start of each later attempt, "
        "never) and outcomes (ok, err, panic) with prompt, lazy or sparse polling and occasional cancellation, max 1..5, fixed / zero / immediate / "
        "per-attempt delays incl. zeros; back-pressured clones (gated readiness: ready before launch, at launch, later, after the primary's success, never; out of order); "
        "random event soups over 1-3 concurrent calls; exhaustive short scripts over a small alphabet (thorough); "
        "non-trivial = at least one hedge attempt was started or the call resolved with AllAttemptsFailed")
TRUSTED = ["tokio mpsc (FIFO, receiver woken by every send and by the last sender going away), tokio::spawn (tasks run in spawn order when the harness yields), "
           "time::sleep (ready iff now >= deadline at whole ms; a zero sleep is ready at its first poll) and the biased select! are modelled, tied to the libraries only by this correspondence run",
           "poll atomicity: the call future's state is touched only inside one poll; attempt tasks touch only the channel"]
ASSUMPTIONS = ["whole-millisecond instants", "single-threaded deterministic executor: spawned attempt tasks run, in spawn order, right after the event that spawned or unblocked them",
               "poll_ready of a clone never fails: it is Ready(Ok) at once, or Pending until the script's Ready op (gated runs)",
               "at most one hedged call per request value, so that the n-th inner call of call i is the n-th inner call with request i"]

EVW = 7


def mk(mx, mode, ncalls, ds, evs):
    s = [mx, mode, ncalls, len(ds)] + list(ds)
    for e in evs:
        s += list(e)
    return s


def header(s):
    g = lambda i: s[i] if i < len(s) else 0
    mx = max(1, min(16, max(0, g(0))))
    mode = min(7, max(0, g(1)))     # mode % 4: delay kind, mode // 4: gated readiness
    ncalls = min(4, max(0, g(2)))
    nd = min(16, max(0, g(3)))
    ds = [min(100000, max(0, g(4 + j))) for j in range(nd)]
    body = s[4 + nd:]
    evs = [tuple(body[i:i + 3]) for i in range(0, len(body) - len(body) % 3, 3)]
    keep = []
    for (op, a, b) in evs:
        if op in (1, 2):
            if 0 <= a < ncalls:
                keep.append((op, a, b))
        elif op == 3:
            keep.append((op, min(100000, max(0, a)), b))
        elif op in (4, 5):
            if a >= 0 and a // 16 < ncalls:
                keep.append((op, a, b))
    return mx, mode, ncalls, ds, keep


def delay_of(mode, ds, k):
    """configured delay before attempt k (k >= 1)"""
    mode = mode % 4
    if mode == 1:
        return 0
    if mode == 2:
        return ds[k - 1] if 1 <= k <= len(ds) else 0
    return ds[0] if ds else 0


def gated(mode):
    return (mode // 4) % 2 == 1


def latency_mode(mode, ds):
    mode = mode % 4
    if mode == 1:
        return False
    if mode == 2:
        return True
    return (ds[0] if ds else 0) > 0


def decode(s, t):
    mx, mode, ncalls, ds, evs = header(s)
    if len(t) != EVW * len(evs):
        return None
    return mx, mode, ncalls, ds, [(e, t[EVW * k:EVW * k + EVW]) for k, e in enumerate(evs)]


# ---------------------------------------------------------------------------
# independent monitor: restates the clauses of C12 over the implementation's trace.
# Vocabulary: attempt task k of a call is *launched* when it runs for the first time (the
# primary: its inner call; a hedge: its clone is asked for readiness) and *started* when its
# inner call is made (at launch if its clone is ready, else when the script readies the clone).
def monitor(s, t):
    d = decode(s, t)
    if d is None:
        return "malformed or panicking run: %s" % t[:12]
    mx, mode, ncalls, ds, evt = d
    lat = latency_mode(mode, ds) and mx > 1
    for i in range(ncalls):
        m = monitor_call(i, mx, mode, ds, lat, evt)
        if m:
            return "call %d: %s" % (i, m)
    return None


def monitor_call(i, mx, mode, ds, lat, evt):
    launch = []          # launch instant of attempt task k
    calls = []           # (task, instant) of the n-th inner call of this hedged call
    waiting = []         # launched hedge tasks whose clone is not ready yet
    ready = set()        # hedge clones the script has made ready
    outcome = {}         # inner call n -> (b, event index of the Complete)
    delivered = []       # (event index, task, n, b) in queue order, while the call future is alive
    alive = True         # future neither resolved nor dropped
    first_poll = None
    taken = 0            # number of delivered results the future has already looked at
    panics = False
    is_gated = gated(mode)

    def is_ready(k):
        return k == 0 or (not is_gated) or k in ready

    def start_call(idx, k, now):
        n = len(calls)
        calls.append((k, now))
        if alive and n in outcome and outcome[n][0] != 2:
            delivered.append((idx, k, n, outcome[n][0]))

    def due():
        """instant at which the next hedge is due (latency mode, a further hedge possible)"""
        return launch[-1] + delay_of(mode, ds, len(launch))

    for idx, (e, o) in enumerate(evt):
        op, a, b = e
        r, v, ns, nl, mask, infl, now = o
        n_new = (ns >> (5 * i)) & 31
        l_new = (nl >> (5 * i)) & 31
        woke = (mask >> i) & 1
        if op == 4 and a // 16 == i:
            n = a % 16
            if n not in outcome:
                outcome[n] = (b if b in (0, 1) else 2, idx)
                if outcome[n][0] == 2:
                    panics = True
                if n < len(calls) and alive and outcome[n][0] != 2:
                    delivered.append((idx, calls[n][0], n, outcome[n][0]))
        if op == 5 and a // 16 == i:
            k = a % 16
            fresh = k not in ready
            ready.add(k)
            if is_gated and fresh and k in waiting:
                waiting.remove(k)
                if n_new != 1:
                    return "clone of attempt %d became ready at %d ms but %d inner calls were made" % (k, now, n_new)
                start_call(idx, k, now)
                n_new = 0
        if (n_new or l_new) and not (op == 1 and a == i):
            return "inner call started / hedge launched outside a poll of the hedged call and without a Ready (event %d)" % idx
        if op == 1 and a == i:
            if not alive:
                if r != 9:
                    return "poll of a finished call returned %d" % r
                continue
            if first_poll is None:
                first_poll = now
            # --- what was queued when this poll began
            pend = delivered[taken:]
            oks = [(j, n) for (j, k, n, bb) in pend if bb == 0]
            # clause 3: first success wins, at the first poll at which one is queued -- also
            # while a hedge is waiting for its clone to become ready
            if oks:
                nwin = oks[0][1]
                if r != 1 or v != 16 * i + nwin:
                    return ("a success of inner call %d was queued at the poll at %d ms but the call returned (r=%d, v=%d)%s"
                            % (nwin, now, r, v, " while hedge task(s) %s wait for readiness" % waiting if waiting else ""))
            elif r == 1:
                return "resolved Ok(%d) at %d ms without a queued success" % (v, now)
            if r == 2:
                return "Err(Inner) is never produced by the hedge"
            # clause 4: AllAttemptsFailed only if every attempt was started and has failed
            errs_all = [(j, k, n) for (j, k, n, bb) in delivered if bb == 1]
            if r == 3:
                if len(launch) != mx or len(calls) != mx:
                    return "AllAttemptsFailed at %d ms with %d of %d attempts launched, %d started" % (now, len(launch), mx, len(calls))
                # an attempt has failed when its error was delivered, or when its task panicked
                failed = set(n for (_, _, n) in errs_all) | set(n for n in outcome if outcome[n][0] == 2 and n < len(calls))
                if sorted(failed) != list(range(mx)):
                    return ("AllAttemptsFailed at %d ms but only inner calls %s have failed"
                            % (now, sorted(failed)))
                if lat and len(errs_all) != mx:
                    return "latency mode: AllAttemptsFailed with %d delivered errors" % len(errs_all)
                if lat or mx == 1:
                    if v != 16 * i:
                        return "AllAttemptsFailed carries %d, not the primary's error %d" % (v, 16 * i)
                else:
                    # parallel mode keeps the first error received (reported: the documentation says the primary's)
                    if v != 16 * i + errs_all[0][2]:
                        return "AllAttemptsFailed carries %d, not the first received error" % v
            if r == 5 and not panics:
                return "the call future panicked without a scripted inner panic"
            # a pending poll must not be sitting on a decided call (no result is lost)
            if r == 0:
                if len(errs_all) >= mx:
                    return "all %d attempts have failed and were delivered, yet the poll at %d ms is pending" % (mx, now)
                if not lat and len(launch) == mx and not waiting and len(calls) == mx and all(n in outcome for n in range(mx)):
                    return "every attempt has finished, yet the poll at %d ms is pending" % now
            taken = len(delivered)
            if r != 0:
                alive = False
            # --- tasks launched by this poll run right after it, in order
            n_launch = l_new + (1 if not launch else 0)
            if not launch and n_new < 1:
                return "the first poll did not start the primary"
            started_here = 0
            for _ in range(n_launch):
                k = len(launch)
                launch.append(now)
                if is_ready(k):
                    start_call(idx, k, now)
                    started_here += 1
                else:
                    waiting.append(k)
            if started_here != n_new:
                return ("poll at %d ms launched tasks up to %d; %d of them have a ready clone but %d inner calls were made"
                        % (now, len(launch) - 1, started_here, n_new))
            # clause 1: bounded
            if len(launch) > mx or len(calls) > mx:
                return "%d attempts launched, %d inner calls started, max_hedged_attempts = %d" % (len(launch), len(calls), mx)
            # clause 2: spacing (of the launch instants; an inner call is made at launch or later)
            if launch[0] != first_poll or calls[0] != (0, first_poll):
                return "primary started at %s, first poll at %d" % (calls[0], first_poll)
            if lat:
                for k in range(1, len(launch)):
                    if launch[k] < launch[k - 1] + delay_of(mode, ds, k):
                        return ("attempt %d launched at %d ms, less than %d ms after attempt %d (%d ms)"
                                % (k, launch[k], delay_of(mode, ds, k), k - 1, launch[k - 1]))
                if r == 0 and len(launch) < mx and now >= due():
                    return ("pending poll at %d ms left the elapsed hedge timer (due %d ms) unserved"
                            % (now, due()))
            else:
                if len(launch) != mx or any(x != first_poll for x in launch):
                    return "parallel mode: launches %s, expected %d at %d ms" % (launch, mx, first_poll)
        if op == 2 and a == i:
            alive = False
        for (k, tm) in calls:
            if tm < launch[k] or (lat and k >= 1 and tm < launch[k - 1] + delay_of(mode, ds, k)):
                return "inner call of attempt %d at %d ms, before its launch / the configured delay" % (k, tm)
        # wake-up: an unseen queued result must have woken the call future
        if alive and len(delivered) > taken and not woke:
            return "result of inner call %d queued at event %d but the call future was not woken" % (delivered[taken][2], idx)
        # timer: in latency mode the elapsed hedge timer must have woken the future
        if alive and lat and launch and len(launch) < mx and now >= due() and not woke:
            return "hedge timer elapsed at %d ms without waking the call future" % due()
    # clause 1, second half: primary's success queued before the first delay elapsed => one attempt
    if lat and launch:
        for (j, k, n, bb) in delivered:
            if k == 0 and bb == 0 and evt[j][1][6] < launch[0] + delay_of(mode, ds, 1) and (len(launch) != 1 or len(calls) != 1):
                return "primary succeeded at %d ms, before the first hedge delay, yet %d attempts were launched" % (evt[j][1][6], len(launch))
    return None


# ---------------------------------------------------------------------------
def corpus():
    P, D, A, C = (lambda i=0: (1, i, 0)), (lambda i=0: (2, i, 0)), (lambda d: (3, d, 0)), (lambda i, k, b: (4, 16 * i + k, b))
    R = lambda i, k: (5, 16 * i + k, 0)
    G = 4   # gated readiness
    return [
        # seeded regression C12-2: the hedge delay elapses, the hedge's clone is not ready, the primary
        # succeeds meanwhile => Ok at the next poll (the hedge never gets ready / gets ready later)
        mk(2, G + 0, 1, [10], [P(), A(10), P(), A(5), C(0, 0, 0), P()]),
        mk(2, G + 0, 1, [10], [P(), A(10), P(), A(5), C(0, 0, 0), P(), R(0, 1), C(0, 1, 0)]),
        # ... and the timer for the next hedge keeps running while hedge 1 waits; errors are counted
        mk(3, G + 0, 1, [10], [P(), A(10), P(), A(10), P(), R(0, 2), C(0, 1, 1), P(), R(0, 1), C(0, 2, 1), C(0, 0, 1), P()]),
        # parallel mode with back-pressure: clones become ready out of order, all fail
        mk(3, G + 1, 1, [], [P(), R(0, 2), C(0, 1, 1), R(0, 1), C(0, 2, 1), C(0, 0, 1), P()]),
        # parallel mode: not all-failed while a hedge is still waiting for its clone
        mk(2, G + 1, 1, [], [P(), C(0, 0, 1), P(), R(0, 1), P(), C(0, 1, 0), P()]),
        # clone made ready before the hedge is launched: starts at the deadline
        mk(2, G + 0, 1, [10], [R(0, 1), P(), A(10), P(), C(0, 1, 0), P()]),
        # dropped call: a waiting hedge still makes its inner call when its clone gets ready
        mk(2, G + 0, 1, [10], [P(), A(10), P(), D(), R(0, 1), C(0, 1, 0), C(0, 0, 0)]),
        # upstream defect 1a4d08f: delay 10 ms, 2 attempts, primary ok at 100 ms, hedge fails at once
        # => Ok at 100 ms, not AllAttemptsFailed at 11 ms
        mk(2, 0, 1, [10], [P(), C(0, 1, 1), A(10), P(), A(1), P(), A(89), C(0, 0, 0), P()]),
        # upstream defect dfabe11: dynamic delays [0, 50]: attempt 2 not before 50 ms after attempt 1
        mk(3, 2, 1, [0, 50], [P(), A(49), P(), A(1), P(), C(0, 0, 1), P(), C(0, 1, 1), C(0, 2, 1), P()]),
        # parallel mode, all fail, hedge 1 fails first: the carried error is hedge 1's
        mk(3, 1, 1, [], [P(), C(0, 1, 1), P(), C(0, 0, 1), C(0, 2, 1), P()]),
        # single attempt
        mk(1, 0, 1, [10], [P(), C(0, 0, 1), P()]),
        # hedge succeeds while the primary is still running
        mk(3, 0, 1, [5], [P(), A(5), C(0, 0, 1), P(), A(5), P(), C(0, 1, 0), C(0, 2, 0), P()]),
        # two concurrent calls; inner panics in parallel mode
        mk(3, 1, 2, [], [P(0), P(1), C(0, 0, 2), C(0, 1, 2), C(0, 2, 2), P(0), C(1, 0, 1), C(1, 1, 2), C(1, 2, 0), P(1)]),
        # latency mode, primary panics, hedge fails: the call stays pending for ever
        mk(2, 0, 1, [10], [P(), C(0, 0, 2), A(10), P(), C(0, 1, 1), P(), A(100), P()]),
        # primary succeeds exactly when the hedge timer fires: the result wins (biased select)
        mk(2, 0, 1, [10], [P(), A(10), C(0, 0, 0), P()]),
        # an error and the elapsed timer in the same poll: error taken first, then the hedge is started
        mk(2, 0, 1, [10], [P(), A(10), C(0, 0, 1), P(), C(0, 1, 1), P()]),
        # cancellation: no hedge after the drop, attempts already started keep running
        mk(3, 0, 1, [10], [P(), A(10), P(), D(), A(20), P(), C(0, 0, 0), C(0, 1, 0)]),
        # all zeros dynamic: everything in the first poll, still the latency loop's failure rule
        mk(3, 2, 1, [0, 0], [P(), C(0, 2, 1), C(0, 1, 1), P(), C(0, 0, 1), P()]),
        # fixed zero delay = parallel
        mk(4, 0, 1, [0], [C(0, 3, 0), P(), P()]),
        # lazy polling: timers elapse long before the polls
        mk(4, 0, 1, [10], [P(), A(35), P(), A(5), P(), A(10), P(), A(10), P()]),
    ]


TIMES_NEAR = (-1, 0, 1)


def timeline_script(rng, ncalls=1):
    mx = rng.choice([1, 2, 2, 3, 3, 4, 5])
    kind = rng.random()
    if kind < 0.45:
        mode, ds = 0, [rng.choice([1, 2, 5, 10, 10, 20])]
    elif kind < 0.55:
        mode, ds = rng.choice([(0, [0]), (1, []), (1, [7])])
    else:
        mode = 2
        ds = [rng.choice([0, 0, 1, 3, 5, 10, 20]) for _ in range(rng.randint(0, mx))]
    ideal = [0]
    for k in range(1, mx):
        ideal.append(ideal[-1] + delay_of(mode, ds, k))
    horizon = ideal[-1] + 25
    is_g = rng.random() < 0.45
    if is_g:
        mode += 4
    todo = []   # (time, order, event)
    for i in range(ncalls):
        off = 0 if i == 0 else rng.choice([0, 0, 3, ideal[-1]])
        if is_g:
            # the seeded-regression shape: primary succeeds after the first hedge delay while hedge 1 is unready
            shape = rng.random() < 0.3 and mx >= 2
            for k in range(1, mx):
                x = rng.random()
                if shape and k == 1:
                    x = rng.choice([0.0, 0.9])
                if x < 0.2:
                    continue            # never ready
                if x < 0.4:
                    tm = 0              # ready before it is launched
                elif x < 0.6:
                    tm = ideal[k]       # ready exactly when due
                else:
                    tm = ideal[k] + rng.choice([1, 2, 5, 8, 12, 20])
                if shape and k == 1 and x > 0.5:
                    tm = ideal[1] + rng.choice([8, 12, 20])
                todo.append((max(0, tm + off), rng.random(), (5, 16 * i + k, 0)))
            if shape:
                todo.append((ideal[1] + off + rng.choice([0, 1, 3, 5]), rng.random(), (4, 16 * i, 0)))
        for k in range(mx):
            x = rng.random()
            if x < 0.12:
                continue    # never completes
            base = rng.choice(ideal + [ideal[k], ideal[min(k + 1, mx - 1)], horizon - 5])
            tm = max(0, base + rng.choice(TIMES_NEAR + (0, 2, 7)) + off)
            if rng.random() < 0.15:
                tm = 0      # completed before it even starts: fails / succeeds at once
            b = rng.choice([0, 1, 1, 1, 1, 2]) if rng.random() < 0.7 else rng.choice([0, 1])
            todo.append((tm, rng.random(), (4, 16 * i + k, b)))
        if rng.random() < 0.12:
            todo.append((rng.randint(0, horizon), rng.random(), (2, i, 0)))
    todo.sort()
    style = rng.choice(["prompt", "prompt", "lazy", "sparse"])
    evs = []
    t = 0

    def polls():
        for i in range(ncalls):
            if style == "prompt" or (style == "lazy" and rng.random() < 0.5) or (style == "sparse" and rng.random() < 0.15):
                evs.append((1, i, 0))
    # call i's first poll
    for i in range(ncalls):
        evs.append((1, i, 0))
    marks = sorted(set([x for x in ideal] + [tm for (tm, _, _) in todo] + [horizon]))
    ti = 0
    for mark in marks:
        if mark > t:
            if style == "prompt":
                evs.append((3, mark - t, 0))
            else:
                # split the advance at a random point so that polls happen strictly between marks, too
                cut = rng.randint(0, mark - t)
                if 0 < cut < mark - t:
                    evs.append((3, cut, 0)); polls(); evs.append((3, mark - t - cut, 0))
                else:
                    evs.append((3, mark - t, 0))
            t = mark
            polls()
        while ti < len(todo) and todo[ti][0] <= t:
            evs.append(todo[ti][2]); ti += 1
            polls()
    for i in range(ncalls):
        evs.append((1, i, 0))
    return mk(mx, mode, ncalls, ds, evs)


def random_script(rng, maxlen=30):
    mx = rng.choice([1, 2, 2, 3, 3, 4])
    mode, ds = rng.choice([(0, [3]), (0, [5]), (0, [0]), (1, []), (2, [0, 4]), (2, [2, 0, 3]), (2, [0, 0, 5]), (2, [])])
    ncalls = rng.choice([1, 1, 2, 2, 3])
    is_g = rng.random() < 0.5
    if is_g:
        mode += 4
    evs = []
    for _ in range(rng.randint(3, maxlen)):
        x = rng.random()
        i = rng.randrange(ncalls)
        if is_g and rng.random() < 0.15:
            evs.append((5, 16 * i + rng.randrange(1, mx + 1), 0))
        elif x < 0.45:
            evs.append((1, i, 0))
        elif x < 0.50:
            evs.append((2, i, 0))
        elif x < 0.72:
            evs.append((3, rng.choice([1, 1, 2, 3, 4, 5, 5, 8]), 0))
        else:
            evs.append((4, 16 * i + rng.randrange(mx + 1), rng.choice([0, 1, 1, 1, 2])))
    return mk(mx, mode, ncalls, ds, evs)


def exhaustive(depth, mx, mode, ds, ncalls=1):
    alpha = [(1, 0, 0), (3, 1, 0), (3, 2, 0)]
    for k in range(mx):
        alpha += [(4, k, 0), (4, k, 1)]
    if ncalls > 1:
        alpha += [(1, 1, 0), (4, 16, 1), (4, 17, 0)]
    alpha += [(2, 0, 0), (4, 0, 2)]
    if gated(mode):
        alpha += [(5, k, 0) for k in range(1, mx)]
    for L in range(1, depth + 1):
        for evs in itertools.product(alpha, repeat=L):
            yield mk(mx, mode, ncalls, ds, evs)


def generate(rng, tier):
    out = []
    if tier == "quick":
        out += [timeline_script(rng) for _ in range(1200)]
        out += [timeline_script(rng, 2) for _ in range(200)]
        out += [random_script(rng) for _ in range(600)]
        out += list(exhaustive(3, 2, 0, [2]))
        out += list(exhaustive(3, 2, 4, [1]))
    else:
        out += [timeline_script(rng) for _ in range(30000)]
        out += [timeline_script(rng, 2) for _ in range(6000)]
        out += [random_script(rng, 50) for _ in range(15000)]
        out += list(exhaustive(5, 2, 0, [2]))
        out += list(exhaustive(4, 3, 2, [0, 2]))
        out += list(exhaustive(4, 2, 1, []))
        out += list(exhaustive(4, 3, 0, [1]))
        out += list(exhaustive(3, 2, 0, [1], 2))
        out += list(exhaustive(5, 2, 4, [1]))
        out += list(exhaustive(4, 3, 4 + 2, [0, 1]))
        out += list(exhaustive(4, 3, 4 + 1, []))
    return out


def nontrivial(s, t):
    d = decode(s, t)
    if not d:
        return True
    mx, mode, ncalls, ds, evt = d
    tot = 0
    for (e, o) in evt:
        if o[0] == 3:
            return True
        tot += sum((o[2] >> (5 * i)) & 31 for i in range(ncalls))
    return tot > ncalls


def classify(s, t):
    d = decode(s, t)
    mx, mode, ncalls, ds, evs = header(s)
    out = ["max%d" % mx, "calls%d" % ncalls, "gated" if gated(mode) else "always_ready"]
    if mode % 4 == 1:
        out.append("delay_immediate")
    elif mode % 4 == 2:
        out.append("delay_dynamic" + ("_zero_first" if (not ds or ds[0] == 0) else ""))
    else:
        out.append("delay_fixed" + ("_zero" if not latency_mode(mode, ds) else ""))
    if d:
        evt = d[4]
        rs = set(o[0] for (_, o) in evt)
        for r, name in ((1, "ok"), (3, "all_failed"), (5, "panic")):
            if r in rs:
                out.append("saw_" + name)
        for (e, o) in evt:
            if o[0] == 1:
                out.append("won_by_primary" if o[1] % 16 == 0 else "won_by_hedge")
        if any(e[0] == 2 for (e, _) in evt):
            out.append("has_cancel")
        if any(e[0] == 4 and e[2] == 1 for (e, _) in evt):
            out.append("has_inner_error")
        tot = sum(sum((o[2] >> (5 * i)) & 31 for i in range(ncalls)) for (_, o) in evt)
        out.append("starts_%s" % ("le_calls" if tot <= ncalls else "hedged"))
        nlaunch = sum(sum((o[3] >> (5 * i)) & 31 for i in range(ncalls)) for (_, o) in evt)
        if nlaunch + ncalls > tot and nlaunch:
            out.append("hedge_waited_for_readiness")
        # Ok returned while some launched hedge had not made its inner call yet
        ls = [0] * ncalls; cs = [0] * ncalls
        for (e, o) in evt:
            for i in range(ncalls):
                ls[i] += (o[3] >> (5 * i)) & 31; cs[i] += (o[2] >> (5 * i)) & 31
            if o[0] == 1 and e[0] == 1 and ls[e[1]] + 1 > cs[e[1]]:
                out.append("ok_while_hedge_waiting")
    return out


def shrink(s):
    """candidate smaller scripts: remove one event"""
    nd = min(16, max(0, s[3] if len(s) > 3 else 0))
    head, body = s[:4 + nd], s[4 + nd:]
    for i in range(len(body) // 3):
        yield head + body[:3 * i] + body[3 * i + 3:]
