"""C08 retry budget (token bucket, AIMD budget) under a baton scheduler: generator + independent monitor."""
import itertools

PROP = "C08"
DRIVER = "c08"
MODEL = "C08"
MODEL_QUALID = "Model.Budget.run_script"
FORMAT = ("[kind 0=token-bucket 1=AIMD-budget; p0..p5 (tb: max_tokens, initial_tokens | aimd: min_budget, "
          "max_budget, deposit_amount, withdraw_amount, decrease factor num, den); npre; (code arg)*; nthreads; "
          "{ncalls; (code arg)*}*; nsched; thread-id*]  call codes 0 try_withdraw 1 deposit 2 balance() "
          "3 current_max(); each schedule entry = ONE atomic operation of that worker (finished workers are "
          "skipped), afterwards worker 0 runs to completion, then worker 1, ... -> return values of the prelude calls, per entry [op 0 skip/1 load/"
          "2 store/3 cas/4 rmw; return value of the call completed by this operation or -1; balance(); ceiling], "
          "per worker [atomic steps; return values (withdraw 0/1, deposit 2, reads: value)], [balance(); ceiling]")
RULE = ("exhaustive schedules (all thread-id words up to a length covering every interleaving of the first "
        "steps) for 2-3 workers x <=2 calls each over {withdraw, deposit}; random schedules for up to 4 workers x "
        "6 calls incl. reads, with balances at 0/1/max boundaries, initial > max, AIMD floors/ceilings and "
        "decrease factors 0..1 (and >1); non-trivial = at least two workers performed atomic steps inside the "
        "scheduled part")
TRUSTED = [
    "verif-hooks atomics (tower_resilience_core::verif::atomic): fetch_update = load + compare-exchange loop "
    "exactly as std's; compare_exchange_weak never fails spuriously under the hook (spurious failure is a "
    "schedule choice of the model only, covered by the theorems, not by the correspondence run)",
    "per-location sequential consistency: all orderings in budget.rs/aimd.rs are Relaxed on single locations; "
    "hardware reorderings across locations are not exhibited (the only cross-location read, the AIMD budget "
    "reading its ceiling, is covered because the theorems hold for any ceiling value read)",
    "decrease (current as f64 * factor) as usize modelled as an abstract function dec (theorems: for ALL dec); "
    "executable instance floor(x*num/den), generator keeps only (factor, max) pairs on which IEEE binary64 "
    "agrees with it for every x <= max (checked with Python floats)",
]
ASSUMPTIONS = ["0 <= initial, max_tokens*1000 < 2^64, min_budget <= max_budget (AimdController::new panics otherwise)",
               "values stay below 2^63 (saturating adds are modelled exactly, u64 wrap of fetch_add is not reachable)"]

W, D, B, M = 0, 1, 2, 3


def mk(kind, params, pre, progs, sched):
    s = [kind] + list(params) + [0] * (6 - len(params))
    s.append(len(pre))
    for c in pre:
        s += [c, 0]
    s.append(len(progs))
    for p in progs:
        s.append(len(p))
        for c in p:
            s += [c, 0]
    s.append(len(sched))
    s += list(sched)
    return s


def parse(s):
    kind, params = s[0], s[1:7]
    pos = 7
    npre = s[pos]; pos += 1
    pre = [s[pos + 2 * i] for i in range(npre)]; pos += 2 * npre
    nth = s[pos]; pos += 1
    progs = []
    for _ in range(nth):
        nc = s[pos]; pos += 1
        progs.append([s[pos + 2 * i] for i in range(nc)]); pos += 2 * nc
    ns = s[pos]; pos += 1
    sched = s[pos:pos + ns]
    return kind, params, pre, progs, sched


def float_exact(num, den, mx):
    """the modelling bound: floor(x*num/den) == ((x as f64) * (num/den)) as usize for all 0 <= x <= mx"""
    if den == 0:
        return False
    f = num / den
    return all(int(float(x) * f) == (x * num) // den for x in range(0, mx + 1))


FACTORS = [(1, 2), (0, 1), (1, 4), (3, 4), (1, 1), (3, 2), (9, 10), (1, 3), (7, 10)]


def corpus():
    out = []
    # the upstream defect shape: a deposit interleaved with a successful withdrawal.
    # worker 0 deposits (load .. cas), worker 1 withdraws in between (load, cas)
    out.append(mk(0, [5, 2], [], [[D], [W]], [0, 1, 1, 0, 0]))
    out.append(mk(0, [5, 2], [], [[D], [W, W]], [0, 1, 1, 1, 1, 0, 0]))
    out.append(mk(0, [3, 1], [], [[D, D], [W, W]], [0, 1, 1, 0, 0, 1, 0, 1, 0]))
    out.append(mk(1, [1, 4, 1, 1, 1, 2], [W], [[D], [W]], [0, 0, 1, 1, 0, 0, 0, 0]))
    out.append(mk(1, [1, 4, 2, 1, 1, 2], [W, W], [[D], [W, W]], [0, 0, 1, 1, 0, 1, 1, 0, 0, 0]))
    # exhausted AIMD budget: failed withdrawals shrink the ceiling while a deposit holds an old ceiling
    out.append(mk(1, [1, 4, 3, 2, 1, 2], [W, W], [[D], [W, W]], [0, 1, 1, 1, 1, 1, 1, 0, 0, 0, 0]))
    # initial > max (the constructor does not clamp)
    out.append(mk(0, [2, 5], [], [[D], [W, B]], [0, 1, 0, 1, 1]))
    # empty bucket
    out.append(mk(0, [2, 0], [], [[W, D], [W, D]], [0, 1, 0, 1, 0, 1, 0]))
    return out


def words(n, length):
    return itertools.product(range(n), repeat=length)


def progs_over(alpha, maxlen):
    out = []
    for k in range(1, maxlen + 1):
        out += [list(p) for p in itertools.product(alpha, repeat=k)]
    return out


def generate(rng, tier):
    out = []
    thorough = tier == "thorough"
    tb_cfgs = [(3, 1), (1, 1), (2, 0)]
    ab_cfgs = [(1, 3, 1, 1, 1, 2), (0, 2, 2, 1, 0, 1)]
    one = progs_over([W, D], 1)
    two = progs_over([W, D], 2)
    # --- exhaustive: 2 workers x 1 call
    L = 7 if thorough else 6
    for cfg in tb_cfgs:
        for p0 in one:
            for p1 in one:
                for w in words(2, L):
                    out.append(mk(0, cfg, [], [p0, p1], w))
    L = 11 if thorough else 7
    for cfg in (ab_cfgs if thorough else ab_cfgs[:1]):
        for pre in ([], [W, W, W]):
            for p0 in one:
                for p1 in one:
                    for w in words(2, L):
                        out.append(mk(1, cfg, pre, [p0, p1], w))
    # --- exhaustive: 2 workers x <=2 calls, 3 workers x 1 call
    if thorough:
        for cfg in tb_cfgs[:2]:
            for p0 in two:
                for p1 in two:
                    for w in words(2, 10):
                        out.append(mk(0, cfg, [], [p0, p1], w))
        for p0 in one:
            for p1 in one:
                for p2 in one:
                    for w in words(3, 7):
                        out.append(mk(0, (2, 1), [], [p0, p1, p2], w))
                    for w in words(3, 7):
                        out.append(mk(1, ab_cfgs[0], [W, W], [p0, p1, p2], w))
    else:
        allw = list(words(2, 8))
        for p0 in two:
            for p1 in two:
                for w in rng.sample(allw, 12):
                    out.append(mk(0, (2, 1), [], [p0, p1], w))
        allw3 = list(words(3, 6))
        for p0 in one:
            for p1 in one:
                for p2 in one:
                    for w in rng.sample(allw3, 30):
                        out.append(mk(0, (2, 1), [], [p0, p1, p2], w))
    # --- random: up to 4 workers x 6 calls
    n = 20000 if thorough else 900
    for _ in range(n):
        nth = rng.randint(2, 4)
        kind = rng.randrange(2)
        if kind == 0:
            mx = rng.choice([0, 1, 2, 3, 5, 50])
            init = rng.choice([0, 1, mx, mx, max(0, mx - 1), mx + 2])
            params = (mx, init)
            alpha = [W, W, D, D, B]
            pre = [rng.choice([W, D]) for _ in range(rng.choice([0, 0, 0, 2, mx]))]
        else:
            mx = rng.choice([1, 2, 3, 4, 8, 20, 100])
            mn = rng.choice([0, 1, mx // 2, mx])
            num, den = rng.choice(FACTORS)
            if not float_exact(num, den, mx):
                num, den = 1, 2
            params = (mn, mx, rng.choice([0, 1, 1, 2, 5]), rng.choice([1, 1, 2, 3]), num, den)
            alpha = [W, W, W, D, D, B, M]
            pre = [W] * rng.choice([0, 0, mx, mx // 2, mx + 2 if mx < 10 else 0])
        progs = [[rng.choice(alpha) for _ in range(rng.randint(1, 6))] for _ in range(nth)]
        total = sum(len(p) for p in progs) * (3 if kind == 0 else 5)
        style = rng.randrange(3)
        if style == 0:      # uniform
            sched = [rng.randrange(nth) for _ in range(rng.randint(0, total))]
        elif style == 1:    # bursts
            sched = []
            while len(sched) < total:
                sched += [rng.randrange(nth)] * rng.randint(1, 4)
        else:               # one worker starved until late
            slow = rng.randrange(nth)
            sched = [rng.choice([t for t in range(nth) if t != slow] + ([slow] if rng.random() < 0.1 else []))
                     for _ in range(total)]
            k = rng.randrange(len(sched) + 1)
            sched[k:k] = [slow] * rng.randint(1, 3)
        out.append(mk(kind, params, pre, progs, sched))
    return out


# ----------------------------------------------------------------------------
def split_trace(s, t):
    kind, params, pre, progs, sched = parse(s)
    n = len(sched)
    need = len(pre) + 4 * n + sum(1 + len(p) for p in progs) + 2
    if len(t) != need:
        return None
    pre_rets = t[:len(pre)]
    t = t[len(pre):]
    entries = [t[4 * i:4 * i + 4] for i in range(n)]
    pos = 4 * n
    per = []
    for p in progs:
        per.append((t[pos], t[pos + 1:pos + 1 + len(p)]))
        pos += 1 + len(p)
    return entries, per, t[pos:pos + 2], pre_rets


def seq_op(kind, params, bal, ceil, c):
    """the budgets as sequential objects (whole-token units for the token bucket)"""
    if kind == 0:
        mx = params[0]
        if c == W:
            return (0, bal) if bal < 1 else (1, bal - 1)
        if c == D:
            return (2, min(bal + 1, mx))
        return (bal, bal)
    raise ValueError


def monitor(s, t):
    """Independent restatement of C08 over the implementation's trace:
    conservation and cap after every atomic step; ceiling bounds; for the token bucket the completed
    operations, ordered by the step that completed them, replay on the sequential object with the same
    return values and the same balance after every step (linearizability, linearization point = the
    completing step); return values reported per worker agree with the per-step completions."""
    kind, params, pre, progs, sched = parse(s)
    sp = split_trace(s, t)
    if sp is None:
        return "malformed or panicking run: %s" % t[:12]
    entries, per, final, pre_rets = sp
    if kind == 0:
        mx, init = params[0], params[1]
        cost, amount, cap = 1, 1, max(mx, init)
        bal0 = init
    else:
        mn, mxb, amount, cost = params[0], params[1], params[2], params[3]
        cap, bal0 = mxb, mxb
    # the prelude ran alone before the workers: its grants and deposits count too
    for c, r in zip(pre, pre_rets):
        if (c == W and r not in (0, 1)) or (c == D and r != 2):
            return "prelude call code %d returned %d" % (c, r)
    pre_grants = sum(1 for c, r in zip(pre, pre_rets) if c == W and r == 1)
    pre_deps = sum(1 for c in pre if c == D)
    done_idx = [0] * len(progs)        # completed calls per worker
    begun = [False] * len(progs)       # current call has performed a step
    grants = pre_grants
    deposits_done = pre_deps
    for k, (op, done, bal, ceil) in enumerate(entries):
        tid = sched[k]
        if op == 0:
            if done != -1:
                return "skipped entry %d reports a completed call" % k
        else:
            if not (0 <= tid < len(progs)) or done_idx[tid] >= len(progs[tid]):
                return "entry %d: worker %d stepped although it has no call left" % (k, tid)
            begun[tid] = True
            if done != -1:
                c = progs[tid][done_idx[tid]]
                if per[tid][1][done_idx[tid]] != done:
                    return "worker %d call %d: per-step completion %d != reported result %d" % (
                        tid, done_idx[tid], done, per[tid][1][done_idx[tid]])
                if c == W:
                    if done not in (0, 1):
                        return "try_withdraw returned %d" % done
                    grants += done
                elif c == D:
                    if done != 2:
                        return "deposit returned %d" % done
                    deposits_done += 1
                done_idx[tid] += 1
                begun[tid] = False
        if bal < 0 or bal > cap:
            return "balance %d outside [0, %d] after entry %d" % (bal, cap, k)
        if kind == 1 and not (params[0] <= ceil <= params[1]):
            return "AIMD ceiling %d outside [%d, %d] after entry %d" % (ceil, params[0], params[1], k)
        # deposits that may already have added their tokens: completed or in progress
        dep_maybe = deposits_done + sum(1 for i, p in enumerate(progs)
                                        if begun[i] and done_idx[i] < len(p) and p[done_idx[i]] == D)
        if grants * cost + bal > bal0 + dep_maybe * amount:
            return "conservation violated after entry %d: grants %d * %d + balance %d > initial %d + deposits %d * %d" % (
                k, grants, cost, bal, bal0, dep_maybe, amount)
    # final state (everything completed)
    fb, fc = final
    g_all = sum(1 for (st, rs), p in zip(per, progs) for r, c in zip(rs, p) if c == W and r == 1) + pre_grants
    d_all = sum(1 for p in progs for c in p if c == D) + pre_deps
    for (st, rs), p in zip(per, progs):
        for r, c in zip(rs, p):
            if (c == W and r not in (0, 1)) or (c == D and r != 2) or (c in (B, M) and r < 0):
                return "bad return value %d for call code %d" % (r, c)
    if g_all * cost + fb > bal0 + d_all * amount:
        return "conservation violated at quiescence: grants %d * %d + balance %d > initial %d + deposits %d * %d" % (
            g_all, cost, fb, bal0, d_all, amount)
    if fb < 0 or fb > cap:
        return "final balance %d outside [0, %d]" % (fb, cap)
    if kind == 1 and not (params[0] <= fc <= params[1]):
        return "final AIMD ceiling %d outside [%d, %d]" % (fc, params[0], params[1])
    # linearizability of the token bucket: prelude, then the completions in the order of the
    # completing steps, then the sequential tail
    if kind == 0:
        bal = bal0
        for c, r0 in zip(pre, pre_rets):
            r, bal = seq_op(0, params, bal, 0, c)
            if r != r0:
                return "prelude call %d returned %d, sequential object returns %d" % (c, r0, r)
        idx = [0] * len(progs)
        for k, (op, done, snap, _) in enumerate(entries):
            if op != 0 and done != -1:
                tid = sched[k]
                c = progs[tid][idx[tid]]
                idx[tid] += 1
                r, bal = seq_op(0, params, bal, 0, c)
                if r != done:
                    return "not linearizable at the completing step: entry %d call %d returned %d, sequential object returns %d" % (k, c, done, r)
            if snap != bal:
                return "balance %d after entry %d differs from the sequential object's %d" % (snap, k, bal)
        # the rest ran one worker at a time
        for tid, p in enumerate(progs):
            for j in range(idx[tid], len(p)):
                r, bal = seq_op(0, params, bal, 0, p[j])
                if per[tid][1][j] != r:
                    return "worker %d call %d returned %d in the sequential tail, sequential object returns %d" % (
                        tid, j, per[tid][1][j], r)
        if bal != fb:
            return "final balance %d differs from the sequential object's %d" % (fb, bal)
    return None


def nontrivial(s, t):
    kind, params, pre, progs, sched = parse(s)
    sp = split_trace(s, t)
    if sp is None:
        return False
    active = {sched[k] for k, e in enumerate(sp[0]) if e[0] != 0}
    return len(active) >= 2


def classify(s, t):
    kind, params, pre, progs, sched = parse(s)
    sp = split_trace(s, t)
    out = ["token_bucket" if kind == 0 else "aimd_budget", "workers%d" % len(progs)]
    if sp is None:
        return out + ["malformed"]
    entries, per, final, pre_rets = sp
    cas = sum(1 for e in entries if e[0] == 3)
    comp = sum(1 for e in entries if e[1] != -1)
    # a failed CAS = a cas step that neither completed a call nor (deposit of the AIMD budget) moved on:
    # visible as more cas steps than completions
    if cas > comp:
        out.append("cas_retry_or_multi_cas")
    rets = [r for (st, rs), p in zip(per, progs) for r, c in zip(rs, p) if c == W]
    if 0 in rets:
        out.append("withdraw_refused")
    if 1 in rets:
        out.append("withdraw_granted")
    if kind == 0 and params[1] > params[0]:
        out.append("initial_gt_max")
    if kind == 1 and any(e[3] < params[1] for e in entries):
        out.append("ceiling_decreased")
    # defect shape: a deposit's steps straddle a granted withdrawal of another worker
    idx = [0] * len(progs)
    open_dep = set()
    shape = False
    for k, e in enumerate(entries):
        if e[0] == 0:
            continue
        tid = sched[k]
        c = progs[tid][idx[tid]] if idx[tid] < len(progs[tid]) else None
        if c == D:
            open_dep.add(tid)
        if e[1] != -1:
            if c == W and e[1] == 1 and any(o != tid for o in open_dep):
                shape = True
            open_dep.discard(tid)
            idx[tid] += 1
    if shape:
        out.append("deposit_straddles_granted_withdraw")
    out.append("sched_len_%s" % ("0-8" if len(sched) <= 8 else "9-20" if len(sched) <= 20 else "21+"))
    return out


def shrink(s):
    kind, params, pre, progs, sched = parse(s)
    for i in range(len(sched)):
        yield mk(kind, params, pre, progs, sched[:i] + sched[i + 1:])
    for ti, p in enumerate(progs):
        for j in range(len(p)):
            q = [list(x) for x in progs]
            del q[ti][j]
            if all(len(x) > 0 for x in q):
                yield mk(kind, params, pre, q, sched)
    if pre:
        yield mk(kind, params, pre[:-1], progs, sched)
