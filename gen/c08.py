"""C08 retry budget (token bucket, AIMD budget) under a baton scheduler: generator + independent monitor."""
import itertools

PROP = "C08"
DRIVER = "c08"
MODEL = "C08"
MODEL_QUALID = "Model.Budget.run_script"
FORMAT = ("[kind 0=token-bucket 1=AIMD-budget 2/3=the same two built by RetryBudgetBuilder and used through "
          "Arc<dyn RetryBudget>; p0..p5 (tb: max_tokens, initial_tokens, (kind 2) 1 = initial_tokens not set | "
          "aimd: min_budget (kind 3: -1 = not set, the builder's default floor), max_budget, deposit_amount, "
          "withdraw_amount, decrease factor num, den); npre; "
          "(code arg)*; nthreads; {ncalls; (code arg)*}*; nsched; thread-id*]  call codes 0 try_withdraw 1 deposit "
          "2 balance() 3 current_max() (kinds 0,2,3: balance()); each schedule entry = ONE atomic operation of that "
          "worker (finished workers are skipped), afterwards worker 0 runs to completion, then worker 1, ... -> "
          "return values of the prelude calls, per entry [op 0 skip/1 load/2 store/3 cas/4 rmw; return value of the "
          "call completed by this operation or -1; balance(); ceiling (0 where there is no accessor)], per worker "
          "[atomic steps; return values (withdraw 0/1, deposit 2, reads: value)], [balance(); ceiling]")
RULE = ("exhaustive schedules (all thread-id words up to a length covering every interleaving of the first "
        "steps) for 2-3 workers x <=2 calls each over {withdraw, deposit}; random schedules for up to 4 workers x "
        "6 calls incl. reads, with balances at 0/1/max boundaries, initial > max (clamped by the constructor), "
        "sizes at and beyond 2^64/1000 and u64::MAX (saturating scale), AIMD floors/ceilings, withdraw_amount 0 and "
        "> max, deposit_amount up to u64::MAX, decrease factors 0..1 (and >1), both construction routes (new / "
        "builder + dyn object); virtual time advances between all steps (monotonic AND wall clock: "
        "harness VIRT_REALTIME); non-trivial = at least two workers "
        "performed atomic steps inside the scheduled part")
TRUSTED = [
    "verif-hooks atomics (tower_resilience_core::verif::atomic): fetch_update = load + compare-exchange loop "
    "exactly as std's; compare_exchange_weak never fails spuriously under the hook (spurious failure is a "
    "schedule choice of the model only, covered by the theorems, not by the correspondence run)",
    "per-location sequential consistency: all orderings in budget.rs/aimd.rs are Relaxed on single locations; "
    "hardware reorderings across locations are not exhibited (the only cross-location read, the AIMD budget "
    "reading its ceiling, is covered because the theorems hold for any ceiling value read)",
    "decrease (current as f64 * factor) as usize modelled as an abstract function dec (theorems: for ALL dec); "
    "executable instance floor(x*num/den), generator keeps only (factor, max) pairs on which IEEE binary64 "
    "agrees with it for every x <= max (checked with Python floats); factors 0, 1 and 1/2^k are exact for every "
    "limit up to usize::MAX (the binary64 rounding of the limit is modelled: Model.Budget.r53) and are the ones "
    "used above 1000",
]
ASSUMPTIONS = ["0 <= initial_tokens, max_tokens, amounts <= usize::MAX = 2^64-1 (64-bit target); "
               "an explicitly set min_budget <= max_budget (AimdController::new panics otherwise: a configuration "
               "error documented by the panic); an UNSET min_budget defaults to min(10, max_budget) (/repo cf1b0d8; "
               "before, .aimd().max_budget(n).build() panicked for n < 10) -- kind 3 with p0 = -1 drives it",
               "TokenBucketBudget::new: sizes above (2^64-1)/1000 tokens saturate at u64::MAX thousandths "
               "(defined behaviour since /repo a863e6a, modelled exactly); saturating adds are modelled exactly"]

W, D, B, M = 0, 1, 2, 3
U64 = (1 << 64) - 1
TBCAP = U64 // 1000          # whole tokens a token bucket can hold


def mk(kind, params, pre, progs, sched):
    s = [kind] + list(params) + [0] * (6 - len(params))
    s.append(len(pre))
    for c in pre:
        s += [c, 0]
    s.append(len(progs))
    for p in progs:
        s.append(len(p))
        for c in p:
            s += [c, 0]
    s.append(len(sched))
    s += list(sched)
    return s


def parse(s):
    kind, params = s[0], s[1:7]
    pos = 7
    npre = s[pos]; pos += 1
    pre = [s[pos + 2 * i] for i in range(npre)]; pos += 2 * npre
    nth = s[pos]; pos += 1
    progs = []
    for _ in range(nth):
        nc = s[pos]; pos += 1
        progs.append([s[pos + 2 * i] for i in range(nc)]); pos += 2 * nc
    ns = s[pos]; pos += 1
    sched = s[pos:pos + ns]
    return kind, params, pre, progs, sched


def is_tb(kind):
    return kind in (0, 2)


def r53(x):
    """(x as f64) for 0 <= x < 2^64 as an integer: round to nearest even at 53 bits (= Model.Budget.r53)"""
    if x < 1 << 53:
        return x
    e = x.bit_length() - 53
    p = 1 << e
    q, r = divmod(x, p)
    if 2 * r > p or (2 * r == p and q % 2 == 1):
        q += 1
    return q * p


assert all(r53(x) == int(float(x)) for x in [(1 << 64) - 1, (1 << 64) - 2, (1 << 53) + 3, (1 << 53) + 1, (1 << 63) + 1024,
                                             (1 << 63) + 1025, 12345678901234567890, 3 << 61])


def float_exact(num, den, mx):
    """the modelling bound: Model.Budget.dec_q num den x == ((x as f64) * (num/den)) as usize for all 0 <= x <= mx.
    Factors 0, 1 and 1/2^k are exact for EVERY x (the rounding of x to binary64 is modelled, r53; the product by a
    power of two is exact; the cast truncates and saturates)"""
    if den == 0:
        return False
    if num == 0 or num == den or (num == 1 and den in (2, 4, 8)):
        return True
    if mx > 1000:
        return False
    f = num / den
    return all(int(float(x) * f) == (x * num) // den for x in range(0, mx + 1))


FACTORS = [(1, 2), (0, 1), (1, 4), (3, 4), (1, 1), (3, 2), (9, 10), (1, 3), (7, 10)]


def corpus():
    out = []
    # the upstream defect shape: a deposit interleaved with a successful withdrawal.
    # worker 0 deposits (load .. cas), worker 1 withdraws in between (load, cas)
    out.append(mk(0, [5, 2], [], [[D], [W]], [0, 1, 1, 0, 0]))
    out.append(mk(0, [5, 2], [], [[D], [W, W]], [0, 1, 1, 1, 1, 0, 0]))
    out.append(mk(0, [3, 1], [], [[D, D], [W, W]], [0, 1, 1, 0, 0, 1, 0, 1, 0]))
    out.append(mk(1, [1, 4, 1, 1, 1, 2], [W], [[D], [W]], [0, 0, 1, 1, 0, 0, 0, 0]))
    out.append(mk(1, [1, 4, 2, 1, 1, 2], [W, W], [[D], [W, W]], [0, 0, 1, 1, 0, 1, 1, 0, 0, 0]))
    # exhausted AIMD budget: failed withdrawals shrink the ceiling while a deposit holds an old ceiling
    out.append(mk(1, [1, 4, 3, 2, 1, 2], [W, W], [[D], [W, W]], [0, 1, 1, 1, 1, 1, 1, 0, 0, 0, 0]))
    # initial > max: the constructor clamps (before /repo a863e6a the balance started at 5 > max 2 and the
    # first deposit lowered it)
    out.append(mk(0, [2, 5], [B], [[D], [W, B]], [0, 1, 0, 1, 1]))
    out.append(mk(0, [0, 3], [B, W], [[D], [W, B]], [0, 1, 0, 1, 1]))
    out.append(mk(2, [2, 5, 0], [B], [[D], [W, B]], [0, 1, 0, 1, 1]))
    # sizes at / beyond (2^64-1)/1000 tokens: the scaled representation saturates (it overflowed before a863e6a)
    for mx, init in ((TBCAP, TBCAP), (TBCAP + 1, TBCAP + 1), (U64, U64), (TBCAP + 1, 3), (3, U64), (U64, TBCAP),
                     (1 << 63, 1 << 63), ((1 << 53) + 1, (1 << 53) + 1)):
        out.append(mk(0, [mx, init], [B, W], [[D, B], [W, D]], [0, 1, 0, 1, 1, 0, 0, 1]))
        out.append(mk(2, [mx, init, 0], [B, W], [[D, B], [W, D]], [0, 1, 0, 1, 1, 0, 0, 1]))
    out.append(mk(2, [U64, 0, 1], [B, W], [[D, B], [W, D]], [0, 1, 0, 1, 1, 0, 0, 1]))
    # empty bucket
    out.append(mk(0, [2, 0], [], [[W, D], [W, D]], [0, 1, 0, 1, 0, 1, 0]))
    # AIMD budget at the integer boundary: max = amount = u64::MAX (saturating add in deposit and in the
    # controller's record_success), withdraw_amount 0 and > max
    out.append(mk(1, [0, U64, U64, 1, 0, 1], [W, D], [[D, B], [W, M]], [0, 1, 0, 1, 0, 0, 0, 1, 0, 0, 1]))
    out.append(mk(1, [U64, U64, 1, U64, 0, 1], [W, W, D], [[D, B], [W, M]], [0, 1, 0, 1, 0, 0, 0, 1, 0, 0, 1]))
    out.append(mk(1, [U64 - 1, U64, 2, 1, 0, 1], [W, W, W], [[D, D], [D, M]], [0, 1, 0, 1, 0, 0, 0, 1, 0, 0, 1, 1, 1]))
    out.append(mk(1, [1, 4, 1, 0, 1, 2], [W], [[D, W], [W, W]], [0, 1, 1, 0, 0, 1, 0, 0, 0]))
    out.append(mk(1, [1, 4, 1, 5, 1, 2], [W], [[D, W], [W, M]], [0, 1, 1, 0, 0, 1, 0, 0, 0, 1, 1]))
    # record_failure's upper clamp with a factor <= 1 (review 2, D3): max = 2^64-2, factor 1: (max as f64) = 2^64, the
    # cast saturates to usize::MAX > max; max = 2^53+3 rounds to 2^53+4. A refused withdrawal runs record_failure,
    # the deposit that follows caps at the ceiling: without the clamp ceiling and balance end above max_budget
    for mxb in (U64 - 1, (1 << 53) + 3):
        out.append(mk(1, [0, mxb, 1, U64, 1, 1], [W, M], [[D, B], [W, M]], [0, 1, 0, 1, 0, 0, 0, 1, 0, 0, 1]))
        out.append(mk(1, [1, mxb, 2, mxb, 1, 1], [W, W, M, D, B], [[D, B], [W, M]], [0, 1, 0, 1, 0, 0, 0, 1, 0, 0, 1]))
        out.append(mk(3, [0, mxb, 1, U64, 1, 1], [W, D, B], [[D, B], [W, B]], [0, 1, 0, 1, 0, 0, 0, 1, 0, 0, 1]))
    out.append(mk(1, [0, 1 << 63, 1, U64, 1, 2], [W, M, W, M], [[D, B], [W, M]], [0, 1, 0, 1, 0, 0, 0, 1, 0, 0, 1]))
    # builder with only max_budget set below the default floor 10 (before /repo cf1b0d8 build() panicked: min > max)
    for mxb in (0, 1, 4, 9, 10, 11):
        out.append(mk(3, [-1, mxb, 1, 5, 0, 1], [W, D, B], [[D, B], [W, B]], [0, 1, 0, 1, 0, 0, 0, 1, 0, 0, 1]))
    out.append(mk(3, [-1, 5, 2, 1, 1, 2], [W] * 6, [[D, W], [D, B]], [0, 0, 0, 1, 1, 1, 0, 0, 1, 0]))
    # the builder route with deposit_amount != withdraw_amount (an exchange of the two in
    # AimdBudgetBuilder::build grants retries that were never funded)
    out.append(mk(3, [1, 4, 1, 2, 1, 2], [W, W, B], [[D, W], [D, B]], [0, 0, 0, 1, 1, 1, 0, 0, 1, 0]))
    out.append(mk(3, [0, 6, 2, 1, 1, 2], [W] * 6 + [D, B], [[D, W], [W, B]], [0, 1, 0, 1, 0, 1, 0, 0, 1]))
    return out


def words(n, length):
    return itertools.product(range(n), repeat=length)


def progs_over(alpha, maxlen):
    out = []
    for k in range(1, maxlen + 1):
        out += [list(p) for p in itertools.product(alpha, repeat=k)]
    return out


def rand_sched(rng, nth, total):
    style = rng.randrange(3)
    if style == 0:      # uniform
        return [rng.randrange(nth) for _ in range(rng.randint(0, total))]
    if style == 1:      # bursts
        sched = []
        while len(sched) < total:
            sched += [rng.randrange(nth)] * rng.randint(1, 4)
        return sched
    slow = rng.randrange(nth)   # one worker starved until late
    sched = [rng.choice([t for t in range(nth) if t != slow] + ([slow] if rng.random() < 0.1 else []))
             for _ in range(total)]
    k = rng.randrange(len(sched) + 1)
    sched[k:k] = [slow] * rng.randint(1, 3)
    return sched


BIG = [TBCAP - 1, TBCAP, TBCAP + 1, U64, U64 - 1, U64 - 1, 1 << 63, (1 << 53) + 1, (1 << 53) + 3, (1 << 53) + 3, 1 << 32]
BIGFACT = [(0, 1), (1, 1), (1, 1), (1, 2), (1, 4)]


def rand_script(rng):
    nth = rng.randint(2, 4)
    via_builder = rng.random() < 0.2
    if rng.randrange(2) == 0:
        kind = 2 if via_builder else 0
        if rng.random() < 0.12:
            mx = rng.choice(BIG)
            init = rng.choice([0, 1, mx, mx, mx - 1, mx + 1 if mx < U64 else mx, U64, TBCAP])
        else:
            mx = rng.choice([0, 1, 2, 3, 5, 50])
            init = rng.choice([0, 1, mx, mx, max(0, mx - 1), mx + 2, 2 * mx + 1, U64])
        params = (mx, init, 1 if (kind == 2 and rng.random() < 0.3) else 0)
        alpha = [W, W, D, D, B]
        pre = [rng.choice([W, D, B]) for _ in range(rng.choice([0, 0, 0, 2, min(mx, 6)]))]
        per_call = 3
    else:
        kind = 3 if via_builder else 1
        if rng.random() < 0.12:
            mx = rng.choice(BIG)
            mn = rng.choice([0, 1, mx - 1, mx])
            num, den = rng.choice(BIGFACT)
            amount = rng.choice([0, 1, 2, U64, mx, 1 << 63])
            w = rng.choice([0, 1, mx, mx, U64, U64, mx - 1])     # mostly refused: the exhausted path moves the ceiling
            pre = [rng.choice([W, W, D])] * rng.choice([0, 1, 2, 3])
        else:
            mx = rng.choice([1, 2, 3, 4, 8, 20, 100])
            mn = rng.choice([0, 1, mx // 2, mx])
            num, den = rng.choice(FACTORS)
            if not float_exact(num, den, mx):
                num, den = 1, 2
            amount = rng.choice([0, 1, 1, 2, 5, mx + 3])
            w = rng.choice([1, 1, 2, 3, 0, mx, mx + 1])
            pre = [W] * rng.choice([0, 0, mx, mx // 2, mx + 2 if mx < 10 else 0])
        if kind == 3 and rng.random() < 0.4:
            mn = -1                      # min_budget left unset
        params = (mn, mx, amount, w, num, den)
        alpha = [W, W, W, D, D, B, M]
        per_call = 5
    progs = [[rng.choice(alpha) for _ in range(rng.randint(1, 6))] for _ in range(nth)]
    total = sum(len(p) for p in progs) * per_call
    return mk(kind, params, pre, progs, rand_sched(rng, nth, total))


def generate(rng, tier):
    out = []
    thorough = tier == "thorough"
    tb_cfgs = [(3, 1), (1, 1), (2, 0), (1, 4)]
    ab_cfgs = [(1, 3, 1, 1, 1, 2), (0, 2, 2, 1, 0, 1)]
    one = progs_over([W, D], 1)
    two = progs_over([W, D], 2)
    # --- exhaustive: 2 workers x 1 call
    L = 7 if thorough else 6
    for cfg in tb_cfgs:
        for p0 in one:
            for p1 in one:
                for w in words(2, L):
                    out.append(mk(0, cfg, [], [p0, p1], w))
    L = 11 if thorough else 7
    for cfg in (ab_cfgs if thorough else ab_cfgs[:1]):
        for pre in ([], [W, W, W]):
            for p0 in one:
                for p1 in one:
                    for w in words(2, L):
                        out.append(mk(1, cfg, pre, [p0, p1], w))
    # the builder route, deposit_amount != withdraw_amount
    for p0 in one:
        for p1 in one:
            for w in words(2, 7 if thorough else 5):
                out.append(mk(3, (1, 4, 1, 2, 1, 2), [W], [p0 + [B], p1], w))
                out.append(mk(2, (2, 1, 0), [], [p0, p1 + [B]], w))
    # --- exhaustive: 2 workers x <=2 calls, 3 workers x 1 call
    if thorough:
        for cfg in tb_cfgs[:2]:
            for p0 in two:
                for p1 in two:
                    for w in words(2, 10):
                        out.append(mk(0, cfg, [], [p0, p1], w))
        for p0 in one:
            for p1 in one:
                for p2 in one:
                    for w in words(3, 7):
                        out.append(mk(0, (2, 1), [], [p0, p1, p2], w))
                    for w in words(3, 7):
                        out.append(mk(1, ab_cfgs[0], [W, W], [p0, p1, p2], w))
    else:
        allw = list(words(2, 8))
        for p0 in two:
            for p1 in two:
                for w in rng.sample(allw, 12):
                    out.append(mk(0, (2, 1), [], [p0, p1], w))
        allw3 = list(words(3, 6))
        for p0 in one:
            for p1 in one:
                for p2 in one:
                    for w in rng.sample(allw3, 30):
                        out.append(mk(0, (2, 1), [], [p0, p1, p2], w))
    # --- random: up to 4 workers x 6 calls
    for _ in range(20000 if thorough else 1100):
        out.append(rand_script(rng))
    return out


# ----------------------------------------------------------------------------
def split_trace(s, t):
    kind, params, pre, progs, sched = parse(s)
    n = len(sched)
    need = len(pre) + 4 * n + sum(1 + len(p) for p in progs) + 2
    if len(t) != need:
        return None
    pre_rets = t[:len(pre)]
    t = t[len(pre):]
    entries = [t[4 * i:4 * i + 4] for i in range(n)]
    pos = 4 * n
    per = []
    for p in progs:
        per.append((t[pos], t[pos + 1:pos + 1 + len(p)]))
        pos += 1 + len(p)
    return entries, per, t[pos:pos + 2], pre_rets


# ---- the budgets as sequential objects over a SET of possible balances [lo, hi] (the AIMD deposit caps at an
# unknown ceiling within [min_budget, max_budget], so one history has several sequential explanations) ----
def seq_apply(obj, iv, c, r):
    """obj = ('tb', cap) | ('ab', mn, mx, amount, w, has_max). Returns the interval of balances after call c
    returned r from some balance in iv, or None when no balance in iv explains r."""
    lo, hi = iv
    if obj[0] == "tb":
        cap = obj[1]
        cost, add, dlo, dhi = 1, 1, cap, cap
    else:
        _, mn, mx, add, cost, has_max = obj
        dlo, dhi = mn, mx
        if c == M and has_max:
            return iv if mn <= r <= mx else None
    if c == W:
        if r == 1:
            return (max(lo, cost) - cost, hi - cost) if hi >= cost else None
        if r == 0:
            return (lo, min(hi, cost - 1)) if lo < cost else None
        return None
    if c == D:
        return (min(lo + add, dlo), min(hi + add, dhi)) if r == 2 else None
    return (r, r) if lo <= r <= hi else None          # balance()


def linearizable(obj, start, ops, reads):
    """ops: (inv, res, call, ret) with distinct instants; reads: (instant, value) = balance() by an observer.
    Is there an order of all of them that respects real time (a before b whenever res(a) < inv(b)) and that
    the sequential object explains?  Just-in-time search: an operation is linearized, possibly after other
    pending ones, at the latest when it responds."""
    evs = []
    for i, (inv, res, c, r) in enumerate(ops):
        evs.append((inv, 0, i))
        evs.append((res, 2, i))
    for k, (at, v) in enumerate(reads):
        evs.append((at, 1, k))
    evs.sort()
    seen = set()

    def subsets_then(pending, last, iv):
        """all ways to linearize some of `pending` (any order) and then `last` (an op index, or a read value
        given as ('r', v)); yields (remaining pending, interval)"""
        stack = [(pending, iv)]
        done = set()
        while stack:
            pend, cur = stack.pop()
            if (pend, cur) in done:
                continue
            done.add((pend, cur))
            if isinstance(last, tuple):
                nxt = (last[1], last[1]) if cur[0] <= last[1] <= cur[1] else None
                if nxt is not None:
                    yield pend, nxt
            elif last in pend:
                nxt = seq_apply(obj, cur, ops[last][2], ops[last][3])
                if nxt is not None:
                    yield pend - {last}, nxt
            for o in pend:
                if o == last:
                    continue
                nxt = seq_apply(obj, cur, ops[o][2], ops[o][3])
                if nxt is not None:
                    stack.append((pend - {o}, nxt))

    def go(pos, pending, iv):
        """pending: invoked, not yet linearized"""
        while pos < len(evs):
            key = (pos, pending, iv)
            if key in seen:
                return False
            seen.add(key)
            at, typ, i = evs[pos]
            if typ == 0:
                pending = pending | {i}
                pos += 1
            elif typ == 2 and i not in pending:
                pos += 1                     # linearized earlier
            else:
                last = i if typ == 2 else ("r", reads[i][1])
                for pend2, iv2 in subsets_then(pending, last, iv):
                    if go(pos + 1, pend2, iv2):
                        return True
                return False
        return True

    return go(0, frozenset(), (start, start))


def history(pre, pre_rets, progs, sched, entries, per, final_bal):
    """operations with their intervals. Instants: schedule entry k completes a call at 4k+2; the worker invokes
    its next call right away (4k+3: it then waits at that call's first atomic step); the observer reads the
    balance at 4k+4. The prelude ran alone before (negative instants); every worker's first call is invoked
    at -1; after the schedule worker 0 runs to completion, then worker 1, ..."""
    ops, reads = [], []
    for i, (c, r) in enumerate(zip(pre, pre_rets)):
        ops.append((-100000 + 4 * i, -100000 + 4 * i + 2, c, r))
    n = len(sched)
    idx = [0] * len(progs)
    inv = [-1] * len(progs)
    for k, (op, done, bal, _) in enumerate(entries):
        if op != 0 and done != -1:
            tid = sched[k]
            ops.append((inv[tid], 4 * k + 2, progs[tid][idx[tid]], done))
            idx[tid] += 1
            inv[tid] = 4 * k + 3
        reads.append((4 * k + 4, bal))
    for tid, p in enumerate(progs):
        base = 4 * n + 10 + 1000 * tid
        for j in range(idx[tid], len(p)):
            ops.append((inv[tid], base + 2, p[j], per[tid][1][j]))
            inv[tid] = base + 3
            base += 4
    reads.append((4 * n + 10 + 1000 * (len(progs) + 1), final_bal))
    return ops, reads


def monitor(s, t):
    """Independent restatement of C08 over the implementation's trace:
    (1) conservation: grants*cost + balance <= initial + deposits*amount after every atomic step (a deposit
        counts from its invocation: it may have added its tokens) and exactly at quiescence;
    (2) cap: 0 <= balance <= configured maximum after every step (for EVERY initial balance); the AIMD ceiling
        within [min_budget, max_budget];
    (3) 'as if executed one at a time': the history of calls (invocation .. response intervals) together with the
        observer's balance() after every step is linearizable w.r.t. the sequential budget (AIMD: a deposit caps
        at some ceiling within [min_budget, max_budget]) -- any linearization point inside an operation's
        interval is accepted, not a particular atomic step."""
    kind, params, pre, progs, sched = parse(s)
    if list(t) == [-5]:
        # the driver saw a worker complete a call without a single scheduled atomic step: the budget's atomics do
        # not go through the instrumented wrappers on this tree, the workers ran unobserved, there is no history
        # to judge. The model still answers the script, so the check reports a correspondence failure
        # (no-failing-input-found), never a failing input.
        return None
    sp = split_trace(s, t)
    if sp is None:
        return "malformed or panicking run: %s" % t[:12]
    entries, per, final, pre_rets = sp
    if is_tb(kind):
        mx, init = params[0], params[1]
        if kind == 2 and params[2] == 1:
            init = mx
        cost, amount, cap = 1, 1, mx
        bal0 = min(init, mx)            # the funded initial balance: never above the configured maximum
    else:
        mn, mxb, amount, cost = params[0], params[1], params[2], params[3]
        if mn < 0:                      # kind 3, min_budget not set: the default floor never exceeds the maximum
            mn = min(10, mxb)
            params = [mn] + list(params[1:])
        cap, bal0 = mxb, mxb
    reads_max = kind == 1               # call code 3 = current_max() only on the concrete AimdBudget
    check_ceiling = kind == 1           # the dyn object has no ceiling accessor
    def bad_ret(c, r):
        if c == W:
            return r not in (0, 1)
        if c == D:
            return r != 2
        return r < 0
    # the prelude ran alone before the workers: its grants and deposits count too
    for c, r in zip(pre, pre_rets):
        if bad_ret(c, r):
            return "prelude call code %d returned %d" % (c, r)
    pre_grants = sum(1 for c, r in zip(pre, pre_rets) if c == W and r == 1)
    pre_deps = sum(1 for c in pre if c == D)
    done_idx = [0] * len(progs)        # completed calls per worker
    grants = pre_grants
    deposits_done = pre_deps
    for k, (op, done, bal, ceil) in enumerate(entries):
        tid = sched[k]
        if op == 0:
            if done != -1:
                return "skipped entry %d reports a completed call" % k
        else:
            if not (0 <= tid < len(progs)) or done_idx[tid] >= len(progs[tid]):
                return "entry %d: worker %d stepped although it has no call left" % (k, tid)
            if done != -1:
                c = progs[tid][done_idx[tid]]
                if per[tid][1][done_idx[tid]] != done:
                    return "worker %d call %d: per-step completion %d != reported result %d" % (
                        tid, done_idx[tid], done, per[tid][1][done_idx[tid]])
                if bad_ret(c, done):
                    return "call code %d returned %d" % (c, done)
                if c == W:
                    grants += done
                elif c == D:
                    deposits_done += 1
                done_idx[tid] += 1
        if bal < 0 or bal > cap:
            return "balance %d outside [0, %d] after entry %d" % (bal, cap, k)
        if check_ceiling and not (params[0] <= ceil <= params[1]):
            return "AIMD ceiling %d outside [%d, %d] after entry %d" % (ceil, params[0], params[1], k)
        # deposits that may already have added their tokens: completed, or invoked (the call a worker is in)
        dep_maybe = deposits_done + sum(1 for i, p in enumerate(progs)
                                        if done_idx[i] < len(p) and p[done_idx[i]] == D)
        if grants * cost + bal > bal0 + dep_maybe * amount:
            return "conservation violated after entry %d: grants %d * %d + balance %d > initial %d + deposits %d * %d" % (
                k, grants, cost, bal, bal0, dep_maybe, amount)
    # final state (everything completed)
    fb, fc = final
    g_all = sum(1 for (st, rs), p in zip(per, progs) for r, c in zip(rs, p) if c == W and r == 1) + pre_grants
    d_all = sum(1 for p in progs for c in p if c == D) + pre_deps
    for (st, rs), p in zip(per, progs):
        for r, c in zip(rs, p):
            if bad_ret(c, r):
                return "bad return value %d for call code %d" % (r, c)
    if g_all * cost + fb > bal0 + d_all * amount:
        return "conservation violated at quiescence: grants %d * %d + balance %d > initial %d + deposits %d * %d" % (
            g_all, cost, fb, bal0, d_all, amount)
    if fb < 0 or fb > cap:
        return "final balance %d outside [0, %d]" % (fb, cap)
    if check_ceiling and not (params[0] <= fc <= params[1]):
        return "final AIMD ceiling %d outside [%d, %d]" % (fc, params[0], params[1])
    # linearizability
    if is_tb(kind):
        if max(mx, init) > TBCAP:
            return None     # saturating sizes: how many whole tokens fit is representation-defined; (1) and (2) hold
        obj = ("tb", cap)
    else:
        obj = ("ab", params[0], params[1], amount, cost, reads_max)
    ops, reads = history(pre, pre_rets, progs, sched, entries, per, fb)
    if not linearizable(obj, bal0, ops, reads):
        return ("not linearizable: no sequential order of the calls (within their invocation..response intervals) "
                "explains the return values and the balances read after every step")
    return None


def nontrivial(s, t):
    kind, params, pre, progs, sched = parse(s)
    sp = split_trace(s, t)
    if sp is None:
        return False
    active = {sched[k] for k, e in enumerate(sp[0]) if e[0] != 0}
    return len(active) >= 2


def classify(s, t):
    kind, params, pre, progs, sched = parse(s)
    sp = split_trace(s, t)
    out = ["token_bucket" if is_tb(kind) else "aimd_budget", "workers%d" % len(progs)]
    if kind >= 2:
        out.append("via_builder_dyn")
    if sp is None:
        return out + ["malformed"]
    entries, per, final, pre_rets = sp
    cas = sum(1 for e in entries if e[0] == 3)
    comp = sum(1 for e in entries if e[1] != -1)
    # a failed CAS = a cas step that neither completed a call nor (deposit of the AIMD budget) moved on:
    # visible as more cas steps than completions
    if cas > comp:
        out.append("cas_retry_or_multi_cas")
    rets = [r for (st, rs), p in zip(per, progs) for r, c in zip(rs, p) if c == W]
    if 0 in rets:
        out.append("withdraw_refused")
    if 1 in rets:
        out.append("withdraw_granted")
    if is_tb(kind):
        if params[1] > params[0] and not (kind == 2 and params[2] == 1):
            out.append("initial_gt_max")
        if max(params[0], params[1]) > TBCAP:
            out.append("tb_saturating_size")
        elif max(params[0], params[1]) >= 1 << 32:
            out.append("tb_big_size")
    else:
        if any(e[3] < params[1] for e in entries) and kind == 1:
            out.append("ceiling_decreased")
        if params[1] >= 1 << 32:
            out.append("aimd_big_max")
        if params[2] >= 1 << 32:
            out.append("aimd_big_amount")
        if params[0] < 0:
            out.append("builder_min_unset")
        if params[3] == 0:
            out.append("withdraw_amount_0")
        if params[3] > params[1]:
            out.append("withdraw_amount_gt_max")
        if params[2] != params[3]:
            out.append("amounts_differ")
    # defect shape: a deposit's steps straddle a granted withdrawal of another worker
    idx = [0] * len(progs)
    open_dep = set()
    shape = False
    for k, e in enumerate(entries):
        if e[0] == 0:
            continue
        tid = sched[k]
        c = progs[tid][idx[tid]] if idx[tid] < len(progs[tid]) else None
        if c == D:
            open_dep.add(tid)
        if e[1] != -1:
            if c == W and e[1] == 1 and any(o != tid for o in open_dep):
                shape = True
            open_dep.discard(tid)
            idx[tid] += 1
    if shape:
        out.append("deposit_straddles_granted_withdraw")
    out.append("sched_len_%s" % ("0-8" if len(sched) <= 8 else "9-20" if len(sched) <= 20 else "21+"))
    return out


def shrink(s):
    kind, params, pre, progs, sched = parse(s)
    for i in range(len(sched)):
        yield mk(kind, params, pre, progs, sched[:i] + sched[i + 1:])
    for ti, p in enumerate(progs):
        for j in range(len(p)):
            q = [list(x) for x in progs]
            del q[ti][j]
            if all(len(x) > 0 for x in q):
                yield mk(kind, params, pre, q, sched)
    if pre:
        yield mk(kind, params, pre[:-1], progs, sched)
