"""Shared by C03, C04, C09: circuit breaker scripts, trace decoding, generators."""
import itertools

DRIVER = "c03"
MODEL = "C03"
MODEL_QUALID = "Model.Circuit.run_script"
NCFG = 14
PER_EV = 11
FORMAT = ("script [time_based + 2*unit_us + 4*unit_ns (unit_us / unit_ns = 1: every duration and advance of the script is in MICROseconds / NANOseconds instead of ms; the model is unit-agnostic); wsize; wdur_ms; min_calls (<0: not set, defaults to wsize); fnum; fden; slow_on; slow_thr_ms; snum; sden; wait_open_ms; permitted; has_fallback; n; (op a b)*] "
          "op 1=Poll a 2=Drop a 3=Advance a(ms) 4=Complete a b 5=ForceOpen 6=ForceClosed 7=Reset 8=Call a (create the call future without polling it) 15/16/17=force_open/force_closed/reset called on the service's own handle (the fallback service when a fallback is configured) instead of the plain clone, 25/26=HealthTriggerable::trigger_unhealthy/trigger_healthy on the service's handle (cargo feature health-integration; = force_open/force_closed by a spawned task); events naming a caller outside 0..n-1 are skipped; "
          "outcome b: 0 ok, 1 ok classified failure, 2 err, 3 err classified success, 4 inner panic, 5 ok on which the failure classifier panics. "
          "trace per event [r; started (number of inner calls started by the event); state; state_sync(+10 if is_open disagrees, +20 +100*code(the service handle's lock-free view) if that view differs from the plain clone's); metrics.state; total; failures; successes; slow; in-flight; wake mask (callers 0..119 only)]; "
          "operator actions and state_sync/is_open go through a clone of the plain breaker taken before with_fallback, state()/metrics() and the callers through (clones of) the service itself; "
          "r: -1 no poll, 0 pending, 1 Ok, 2 Err(Inner), 3 OpenCircuit, 4 fallback response, 5 panicked, 9 nothing to poll; states 0 Closed 1 Open 2 HalfOpen")
TRUSTED = ["rates are compared as exact rationals in the model (cnt*den >= num*total); the code compares binary64 quotients — equal for the small counts/denominators generated (distinct small rationals never round to the same double)",
           "tokio Mutex around the Circuit is free at poll granularity (no guard is held across an await); oneshot gate",
           "poll atomicity"]
ASSUMPTIONS = ["whole-millisecond instants, or whole-microsecond / whole-nanosecond instants in scripts with the unit_us / unit_ns bit (1 ns is the resolution of Duration and Instant: nothing finer exists)", "a wait_duration_in_open of 10^18 ms in a script stands for Duration::MAX (stay open until closed by hand)", "sliding_window_duration is always set for time-based windows"]


US_WAITS = [500, 999, 1500, 1900, 1001, 2000, 2750]      # sub-units; mostly not whole multiples of 1000
NS_WAITS = US_WAITS + [900, 1500500, 999999, 2000001]     # nanoseconds: also not whole µs / ms


def cfg(tb=0, wsize=4, wdur=100, minc=2, fnum=1, fden=2, slow_on=0, slow_thr=50, snum=1, sden=2, wait=30, perm=2, fb=0, n=4, us=0):
    """us=1: the script is in microseconds, us=2: in nanoseconds"""
    return [tb + (2 if us == 1 else 4 if us == 2 else 0), wsize, wdur, minc, fnum, fden, slow_on, slow_thr, snum, sden, wait, perm, fb, n]


def events(s):
    body = s[NCFG:]
    evs = [tuple(body[i:i + 3]) for i in range(0, len(body) - len(body) % 3, 3)]
    n = s[13]
    out = []
    for e in evs:
        if e[0] in (1, 2, 8) and 0 <= e[1] < n:
            out.append(e)
        elif e[0] == 3:
            out.append(e)
        elif e[0] == 4 and 0 <= e[1] < n:
            out.append(e)
        elif e[0] in (5, 6, 7):
            out.append(e)
        elif e[0] in (15, 16, 17):
            out.append((e[0] - 10, e[1], e[2]))   # same operator action, through the service's own handle
        elif e[0] in (25, 26):
            out.append((e[0] - 20, e[1], e[2]))   # health trigger = force_open / force_closed by a spawned task
    return out


def via(rng, op):
    """an operator action through the plain clone (op) or through the service's own handle (op + 10)"""
    x = rng.random()
    if x < 0.12 and op in (5, 6):
        return op + 20          # HealthTriggerable::trigger_unhealthy / trigger_healthy
    return op + 10 if x < 0.45 else op


def decode(s, t):
    evs = events(s)
    if len(t) != PER_EV * len(evs):
        return None
    return [(e, t[PER_EV * k:PER_EV * k + PER_EV]) for k, e in enumerate(evs)]


def seq_call(i, outcome, latency):
    """one sequential call: first poll, latency, completion, second poll"""
    ev = [1, i, 0]
    if latency:
        ev += [3, latency, 0]
    ev += [4, i, outcome, 1, i, 0]
    return ev


def corpus():
    out = []
    # count-based window really slides: many successes then failures
    s = cfg(0, 3, 100, 3, 1, 2, 0, 50, 1, 2, 30, 2, 0, 12)
    for i in range(6):
        s += seq_call(i, 0, 0)
    for i in range(6, 9):
        s += seq_call(i, 2, 0)
    out.append(s)
    # reset while closed clears the window
    s = cfg(0, 2, 100, 2, 1, 2, 0, 50, 1, 2, 30, 2, 0, 6)
    s += seq_call(0, 2, 0) + [7, 0, 0] + seq_call(1, 2, 0) + seq_call(2, 0, 0)
    out.append(s)
    # half-open burst: 6 callers, 2 permitted
    s = cfg(0, 2, 100, 2, 1, 2, 0, 50, 1, 2, 30, 2, 0, 10)
    s += seq_call(0, 2, 0) + seq_call(1, 2, 0) + [3, 30, 0]
    for i in range(2, 8):
        s += [1, i, 0]
    s += [4, 2, 0, 1, 2, 0, 4, 3, 0, 1, 3, 0, 1, 8, 0]
    out.append(s)
    # time-based: trial successes further apart than the window still close the breaker
    s = cfg(1, 2, 20, 2, 1, 2, 0, 50, 1, 2, 10, 2, 0, 8)
    s += seq_call(0, 2, 0) + seq_call(1, 2, 0) + [3, 10, 0] + seq_call(2, 0, 0) + [3, 50, 0] + seq_call(3, 0, 0) + seq_call(4, 0, 0)
    out.append(s)
    # cancelled trial gives its slot back
    s = cfg(0, 2, 100, 2, 1, 2, 0, 50, 1, 2, 10, 1, 1, 8)
    s += seq_call(0, 2, 0) + seq_call(1, 2, 0) + [3, 10, 0, 1, 2, 0, 1, 3, 0, 2, 2, 0, 1, 4, 0, 4, 4, 0, 1, 4, 0]
    out.append(s)
    # slow calls trip the breaker
    s = cfg(0, 2, 100, 2, 1, 1, 1, 20, 1, 2, 10, 1, 0, 6)
    s += seq_call(0, 0, 20) + seq_call(1, 0, 19) + seq_call(2, 0, 25)
    out.append(s)
    # Coq's C09_literal_bound_refuted replayed: permitted 1, three panicking/ongoing trial calls in ONE half-open phase
    s = cfg(0, 2, 100, 2, 1, 2, 0, 50, 1, 2, 10, 1, 0, 8)
    s += seq_call(0, 2, 0) + seq_call(1, 2, 0) + [3, 10, 0, 1, 2, 0, 4, 2, 4, 1, 2, 0, 1, 3, 0, 4, 3, 4, 1, 3, 0, 1, 4, 0, 1, 5, 0]
    out.append(s)
    # the failure classifier panics on the only trial's result: nothing is recorded, the slot is not handed back,
    # the breaker stays half-open and rejects every caller (50 ms later too) until an operator closes it
    s = cfg(0, 2, 100, 2, 1, 2, 0, 50, 1, 2, 10, 1, 0, 8)
    s += seq_call(0, 2, 0) + seq_call(1, 2, 0) + [3, 10, 0, 1, 2, 0, 4, 2, 5, 1, 2, 0, 1, 3, 0, 3, 50, 0, 1, 4, 0, 6, 0, 0, 1, 5, 0]
    out.append(s)
    # minimum_number_of_calls not set: defaults to the window size (3), both window types
    for tb in (0, 1):
        s = cfg(tb, 3, 100, -1, 1, 2, 0, 50, 1, 2, 10, 1, 0, 6)
        for i in range(5):
            s += seq_call(i, 2, 0)
        out.append(s)
    # slow-call rate exactly at its threshold 7/20 (0.35): opens on the 20th call; with 6 slow calls it stays closed
    for k in (7, 6):
        s = cfg(0, 20, 10 ** 6, 20, 1, 1, 1, 5, 7, 20, 30, 1, 0, 22)
        for i in range(20):
            s += seq_call(i, 0, 5 if i < k else 0)
        s += seq_call(20, 0, 0)
        out.append(s)
    # microsecond script: wait 1500 µs; callers at 1000 µs and 1499 µs are rejected, the one at 1500 µs is the trial;
    # and a wait of 500 µs is not "no wait": the call right after opening is rejected
    s = cfg(0, 2, 100000, 2, 1, 2, 0, 500, 1, 2, 1500, 1, 0, 8, us=1)
    s += seq_call(0, 2, 0) + seq_call(1, 2, 0) + [3, 1000, 0, 1, 2, 0, 3, 499, 0, 1, 3, 0, 3, 1, 0, 1, 4, 0]
    out.append(s)
    s = cfg(1, 2, 100000, 2, 1, 2, 0, 500, 1, 2, 500, 1, 1, 8, us=1)
    s += [5, 0, 0, 1, 0, 0, 3, 499, 0, 1, 1, 0, 3, 1, 0, 1, 2, 0]
    out.append(s)
    # reset THROUGH THE FALLBACK SERVICE's own handle while closed empties the window (op 17), force_open / force_closed
    # through it (15 / 16) act on the same circuit as the plain clone
    s = cfg(0, 2, 100, 2, 1, 2, 0, 50, 1, 2, 30, 2, 1, 8)
    s += seq_call(0, 2, 0) + [17, 0, 0] + seq_call(1, 2, 0) + seq_call(2, 0, 0) + [15, 0, 0, 1, 3, 0, 16, 0, 0, 1, 4, 0, 5, 0, 0, 16, 0, 0, 1, 5, 0,
                                                                            25, 0, 0, 1, 6, 0, 26, 0, 0, 1, 7, 0]
    out.append(s)
    # nanosecond script: wait 1500 ns: callers at 1000 ns and 1499 ns are rejected; wait 900 ns is not "no wait"
    s = cfg(0, 2, 10 ** 8, 2, 1, 2, 0, 500, 1, 2, 1500, 1, 0, 8, us=2)
    s += seq_call(0, 2, 0) + seq_call(1, 2, 0) + [3, 1000, 0, 1, 2, 0, 3, 499, 0, 1, 3, 0, 3, 1, 0, 1, 4, 0]
    out.append(s)
    s = cfg(1, 2, 10 ** 8, 2, 1, 2, 0, 500, 1, 2, 900, 1, 1, 8, us=2)
    s += [15, 0, 0, 1, 0, 0, 3, 899, 0, 1, 1, 0, 3, 1, 0, 1, 2, 0]
    out.append(s)
    # a rate just below its threshold: 1/3 with 33 failures of 100 stays closed, 34 opens
    for kf in (33, 34):
        s = cfg(0, 100, 10 ** 6, 100, 1, 3, 0, 50, 1, 2, 30, 1, 0, 102)
        for i in range(100):
            s += seq_call(i, 2 if i < kf else 0, 0)
        out.append(s)
    # a call made (future created) before the breaker opens and first polled while it is open; with a fallback;
    # force_open goes through a clone taken before with_fallback
    s = cfg(0, 2, 100, 2, 1, 2, 0, 50, 1, 2, 10, 1, 1, 6)
    s += [8, 0, 0, 5, 0, 0, 1, 0, 0, 1, 1, 0, 3, 9, 0, 1, 2, 0, 3, 1, 0, 1, 3, 0, 4, 3, 0, 1, 3, 0]
    out.append(s)
    # slow state-transition listener (first field + 8, driver-only): wait - 1 units pass inside the transition;
    # calls 2 and 29 units after the breaker was observed open are still shielded, the one at 30 is the trial
    for fb in (0, 1):
        for us in (0, 1, 2):
            s = cfg(0, 2, 100, 2, 1, 2, 0, 50, 1, 2, 30, 1, fb, 6, us=us)
            s[0] |= 8
            s += seq_call(0, 2, 0) + seq_call(1, 2, 0) + [3, 2, 0, 1, 2, 0, 3, 27, 0, 1, 3, 0, 3, 1, 0, 1, 4, 0, 4, 4, 0, 1, 4, 0,
                                                          5, 0, 0, 3, 29, 0, 1, 5, 0]
            out.append(s)
    return out


def random_cfg(rng, n, us=False):
    if us:
        tb = rng.random() < 0.4
        fnum, fden = rng.choice([(0, 1), (1, 3), (1, 2), (2, 3), (1, 1), (1, 2)])
        snum, sden = rng.choice([(0, 1), (1, 3), (1, 2), (1, 1)])
        return cfg(int(tb), rng.choice([1, 2, 3, 4]), rng.choice([1500, 2999, 20000]), rng.choice([0, 1, 2, 3]), fnum, fden,
                   int(rng.random() < 0.4), rng.choice([500, 1500, 1999]), snum, sden, rng.choice(NS_WAITS if us == 2 else US_WAITS),
                   rng.choice([1, 1, 2, 3]), int(rng.random() < 0.3), n, us=int(us))
    tb = rng.random() < 0.4
    wsize = rng.choice([1, 2, 3, 4, 5])
    minc = rng.choice([0, 1, 2, 3, 4, 6])
    fnum, fden = rng.choice([(0, 1), (1, 10), (1, 3), (1, 2), (2, 3), (1, 1), (1, 2), (1, 2)])
    slow_on = rng.random() < 0.4
    snum, sden = rng.choice([(0, 1), (1, 3), (1, 2), (1, 1)])
    return cfg(int(tb), wsize, rng.choice([10, 20, 50]), minc, fnum, fden, int(slow_on), rng.choice([5, 10, 20]),
               snum, sden, rng.choice([0, 10, 10, 30, 10 ** 18]), rng.choice([1, 1, 2, 3]), int(rng.random() < 0.3), n)


def us_advances(wait, wdur=None, slow_thr=None):
    """advances (µs) that land exactly on, 1 µs before and 1 µs after the configured durations, on the millisecond
    boundaries around them, and their complements"""
    out = [1, wait - 1, wait, wait + 1, 1000 * (wait // 1000), 1000 * (wait // 1000) - 1, 999, 1000, 1,
           max(1, wait - 1000 * (wait // 1000)), max(1, wait // 2),
           10 ** 6 * (wait // 10 ** 6), max(1, wait - 10 ** 6 * (wait // 10 ** 6))]
    for d in (wdur, slow_thr):
        if d:
            out += [d - 1, d, d + 1]
    return [x for x in out if x > 0]


def random_seq_history(rng, length=None, us=False):
    """C04: sequential histories over {success, failure, slow success, slow failure, wait, force_open, force_closed, reset}"""
    L = length or rng.randint(3, 40)
    s = random_cfg(rng, L, us)
    slow_thr = s[7]
    if us:
        adv = us_advances(s[10], s[2], None)
        i = 0
        fail_p = rng.choice([0.5, 0.5, 0.9])
        for _ in range(L):
            x = rng.random()
            if x < 0.60:
                fail = rng.random() < fail_p
                outcome = (rng.choice([2, 2, 1]) if fail else rng.choice([0, 0, 3]))
                lat = rng.choice([0, 0, 1, slow_thr - 1, slow_thr, slow_thr + 1])
                s += seq_call(i, outcome, max(0, lat))
                i += 1
            elif x < 0.90:
                s += [3, rng.choice(adv), 0]
            elif x < 0.95:
                s += [via(rng, 5), 0, 0]
            elif x < 0.975:
                s += [via(rng, 6), 0, 0]
            else:
                s += [via(rng, 7), 0, 0]
        return s
    i = 0
    fail_p = rng.choice([0.1, 0.5, 0.5, 0.9])
    for _ in range(L):
        x = rng.random()
        if x < 0.70:
            fail = rng.random() < fail_p
            outcome = (rng.choice([2, 2, 1]) if fail else rng.choice([0, 0, 3]))
            lat = rng.choice([0, 0, 1, slow_thr - 1, slow_thr, slow_thr + 3])
            s += seq_call(i, outcome, max(0, lat))
            i += 1
        elif x < 0.88:
            s += [3, rng.choice([1, 5, 9, 10, 10, 11, 20, 30, 50, 51]), 0]
        elif x < 0.92:
            s += [via(rng, 5), 0, 0]
        elif x < 0.96:
            s += [via(rng, 6), 0, 0]
        else:
            s += [via(rng, 7), 0, 0]
    return s


def long_no_transition(rng):
    """many successes without a transition, then failures (the window must slide)"""
    k = rng.randint(20, 120)
    w = rng.choice([2, 3, 5])
    s = cfg(0, w, 100, rng.choice([1, w, w + 2]), 1, 2, 0, 50, 1, 2, 30, 2, 0, k + 2 * w + 2)
    for i in range(k):
        s += seq_call(i, 0, 0)
    for i in range(k, k + 2 * w + 2):
        s += seq_call(i, 2, 0)
    return s


def rate_boundary_scripts(rng, maxden):
    """threshold num/den, window of den calls with exactly num failures: the failure rate EQUALS the threshold,
    so the breaker must open. The pairs chosen are those where binary64 arithmetic is fragile
    ((num/den)*den != num), i.e. where a float rewrite of the comparison would go wrong."""
    out = []
    fragile = [(n, d) for d in range(2, maxden + 1) for n in range(1, d) if (n / d) * d != n]
    for (num, den) in fragile:
        for tb in (0, 1):
            s = cfg(tb, den, 10 ** 6, den, num, den, 0, 50, 1, 2, 30, 1, 0, den + 2)
            fails = set(rng.sample(range(den), num))
            for i in range(den):
                s += seq_call(i, 2 if i in fails else 0, 0)
            out.append(s)
    return out


def us_wait_boundary(rng, ns=False):
    """wait_duration_in_open that is NOT a whole number of milliseconds (script unit = µs): open the breaker (by two
    failures or force_open), then new callers at elapsed = wait-1 µs, wait, wait+1 µs, at the millisecond boundaries
    below the wait, and right after opening (a wait below 1 ms must not count as 0)"""
    wait = rng.choice(NS_WAITS if ns else US_WAITS)
    perm = rng.choice([1, 2])
    n = 14
    s = cfg(int(rng.random() < 0.5), 2, rng.choice([5000, 50000]) * (1000 if wait > 10 ** 5 else 1), 2, 1, 2, 0, 500, 1, 2, wait, perm,
            int(rng.random() < 0.3), n, us=2 if ns else 1)
    if rng.random() < 0.6:
        s += seq_call(0, 2, rng.choice([0, 0, 3])) + seq_call(1, 2, 0)
    else:
        s += [via(rng, 5), 0, 0]
    nxt = 2
    elapsed = 0
    marks = sorted(set(x for x in [0, 1, 999, 1000, 1001, 1000 * (wait // 1000), 10 ** 6 * (wait // 10 ** 6), wait - 1, wait, wait + 1, wait // 2]
                       if 0 <= x <= wait + 1))
    marks = [m for m in marks if rng.random() < 0.7 or m in (wait - 1, 1000 * (wait // 1000))]
    for m in marks:
        if m > elapsed:
            s += [3, m - elapsed, 0]
            elapsed = m
        if nxt < n - 2:
            s += [1, nxt, 0]
            if rng.random() < 0.3:
                s += [4, nxt, rng.choice([0, 2]), 1, nxt, 0]
            nxt += 1
    s += [3, rng.choice([1, wait]), 0, 1, nxt, 0]
    return s


def farey_neighbour_scripts(rng, count, maxden=12):
    """rates CLOSE TO BUT NOT EQUAL TO the threshold: threshold num/den, a window of w in {den+1, 2*den+1, 97, 100} calls
    (minimum = window), of which k = ceil(w*num/den) are failures — the smallest count that reaches the threshold:
    the breaker must open on the last call — or k-1: it must stay closed (e.g. 1/3 with 33 of 100: 0.33 < 1/3).
    The same for the slow-call rate. A comparison in whole percent, with a tolerance, or in f32 goes wrong here."""
    out = []
    from math import gcd
    pairs = [(n, d) for d in range(2, maxden + 1) for n in range(1, d) if gcd(n, d) == 1] + [(7, 20), (35, 100), (1, 1000), (99, 100), (67, 200)]
    for _ in range(count):
        if rng.random() < 0.5:
            num, den = rng.choice(pairs)
            w = rng.choice([den + 1, 2 * den + 1, 97, 100] if den < 100 else [97, 100, 101])
            k = -(-w * num // den)
            k -= rng.randrange(2)
        else:
            # the other way round: a window w with k marked calls, and the threshold with denominator <= 64 that is
            # closest to k/w from above (the breaker must stay closed) or from below / equal (it must open):
            # |rate - threshold| = 1/(w*den) or so — no tolerance, however small, survives
            w = rng.choice([50, 64, 97, 100, 101])
            k = rng.randint(1, w - 1)
            above = rng.random() < 0.5
            best = None
            for d in range(2, 65):
                n = (k * d) // w + 1 if above else (k * d) // w
                if n <= 0 or n > d:
                    continue
                gap = abs(n * w - k * d) / (w * d)
                if best is None or gap < best[0] or (gap == best[0] and rng.random() < 0.3):
                    best = (gap, n, d)
            if best is None:
                continue
            num, den = best[1], best[2]
        if k < 0 or k > w:
            continue
        tb = rng.randrange(2)
        slow = rng.random() < 0.4
        n = w + 3
        if slow:
            s = cfg(tb, w, 10 ** 6, w, 1, 1, 1, 5, num, den, 30, 1, int(rng.random() < 0.2), n)
        else:
            s = cfg(tb, w, 10 ** 6, w, num, den, 0, 50, 1, 2, 30, 1, int(rng.random() < 0.2), n)
        marked = set(rng.sample(range(w), k))
        for i in range(w):
            if slow:
                s += seq_call(i, 0, rng.choice([5, 7]) if i in marked else rng.choice([0, 4]))
            else:
                s += seq_call(i, rng.choice([2, 1]) if i in marked else rng.choice([0, 3]), 0)
        s += seq_call(w, 0, 0) + seq_call(w + 1, 0, 0)
        out.append(s)
    return out


def long_run_then_failures(rng, m=1):
    """256*m - j successes (1 <= j <= window) without any transition, then failures: when the window is full of
    failures 256*m .. 256*m + window - 1 calls have been recorded since the last transition — a counter of recorded
    calls narrowed to u8 has just wrapped to less than the window size / the minimum and would not let the breaker
    open, which it must do exactly when the window is full of failures"""
    w = rng.choice([3, 4, 5])
    k = 256 * m - rng.randint(1, w)
    s = cfg(rng.randrange(2), w, 10 ** 6, rng.choice([1, w, w + 2]), 1, 1, 0, 50, 1, 2, 30, 2, 0, k + w + 4)
    for i in range(k):
        s += seq_call(i, 0, 0)
    for i in range(k, k + w + 4):
        s += seq_call(i, 2, 0)
    return s


def slow_rate_boundary_scripts(rng, maxden):
    """as rate_boundary_scripts for the SLOW-call rate: slow threshold num/den (failure threshold 1, no failures),
    window of den successful calls of which exactly num take >= slow_call_duration_threshold: the slow-call rate
    EQUALS its threshold, so the breaker must open on the last call (and not before: a second script has num-1
    slow calls and must stay closed)"""
    out = []
    fragile = [(n, d) for d in range(2, maxden + 1) for n in range(1, d) if (n / d) * d != n]
    for (num, den) in fragile:
        tb = rng.randrange(2)
        for k in (num, num - 1):
            s = cfg(tb, den, 10 ** 6, den, 1, 1, 1, 5, num, den, 30, 1, 0, den + 2)
            slow = set(rng.sample(range(den), k))
            for i in range(den):
                s += seq_call(i, 0, rng.choice([5, 6, 9]) if i in slow else rng.choice([0, 0, 4]))
            s += seq_call(den, 0, 0)
            out.append(s)
    return out


def unset_minimum_history(rng):
    """minimum_number_of_calls is not set (script value -1): the builder default is the window size"""
    s = random_seq_history(rng)
    s[3] = -1
    if rng.random() < 0.5:
        s[1] = rng.choice([2, 3, 4, 5])
    return s


def classifier_panic_trials(rng):
    """half-open trials whose result makes the failure classifier panic (outcome 5): no outcome is recorded and the
    slot is NOT handed back (the guard was marked recorded before classify() ran); with every slot so consumed the
    breaker stays half-open rejecting everything until an operator acts"""
    perm = rng.choice([1, 1, 2, 3])
    tb = int(rng.random() < 0.5)
    wait = rng.choice([0, 10, 20])
    n = 2 + perm + 8
    s = cfg(tb, 2, rng.choice([15, 50]), 2, 1, 2, 0, 50, 1, 2, wait, perm, int(rng.random() < 0.3), n)
    s += seq_call(0, 2, 0) + seq_call(1, 2, 0) + [3, wait, 0]
    nxt = 2
    trials = []
    for _ in range(perm):
        s += [1, nxt, 0]
        trials.append(nxt)
        nxt += 1
    rng.shuffle(trials)
    for j in trials:
        x = rng.random()
        s += [4, j, 5 if x < 0.6 else rng.choice([0, 4]), 1, j, 0]
        if rng.random() < 0.5:
            s += [1, nxt, 0]
            nxt += 1
    s += [3, rng.choice([1, wait, 60]), 0, 1, nxt, 0]
    nxt += 1
    s += [via(rng, rng.choice([5, 6, 7])), 0, 0, 3, wait, 0]
    while nxt < n:
        s += [1, nxt, 0]
        if rng.random() < 0.5:
            s += [4, nxt, rng.choice([0, 2, 5]), 1, nxt, 0]
        nxt += 1
    return s


def random_concurrent(rng, maxn=8, maxlen=40):
    n = rng.randint(2, maxn)
    s = random_cfg(rng, n)
    L = rng.randint(5, maxlen)
    for _ in range(L):
        x = rng.random()
        if x < 0.41:
            s += [1, rng.randrange(n), 0]
        elif x < 0.45:
            s += [8, rng.randrange(n), 0]      # call() without a poll
        elif x < 0.52:
            s += [2, rng.randrange(n), 0]
        elif x < 0.70:
            s += [3, rng.choice([1, 5, 9, 10, 10, 11, 20, 30]), 0]
        elif x < 0.94:
            s += [4, rng.randrange(n), rng.choice([0, 0, 1, 2, 2, 2, 3, 4, 0, 0, 1, 2, 2, 2, 3, 5])]
        elif x < 0.96:
            s += [via(rng, 5), 0, 0]
        elif x < 0.98:
            s += [via(rng, 6), 0, 0]
        else:
            s += [via(rng, 7), 0, 0]
    return s


def half_open_burst(rng, us=False):
    """open the breaker, wait, then a burst of callers while half-open (us: the script is in µs, the wait is not a
    whole number of ms and the burst may begin 1 µs too early: then everybody must be rejected)"""
    n = rng.randint(4, 10)
    tb = int(rng.random() < 0.5)
    perm = rng.choice([1, 2, 3, rng.choice([4, 5, 8])])
    wait = rng.choice(NS_WAITS if us == 2 else US_WAITS) if us else rng.choice([10, 20, rng.choice([0, 10])])
    slow_on = int(rng.random() < 0.3)          # slow (successful) trials must still count as successes
    s = cfg(tb, 2, rng.choice([15000000, 50000000] if us == 2 else [15000, 50000] if us else [15, 50]), 2, 1, 2, slow_on, 5, rng.choice([1, 1, 0]), 2, wait, perm,
            int(rng.random() < 0.3), n + 4, us=int(us))
    stale = []
    if rng.random() < 0.3:
        # calls admitted while Closed are still in flight when the breaker opens and goes half-open; they complete
        # (or are cancelled) during the half-open phase: their outcome is recorded in the half-open state
        for j in range(rng.choice([1, 2])):
            s += [1, n + 2 + j, 0]
            stale.append(n + 2 + j)
    s += seq_call(n, 2, 0) + seq_call(n + 1, 2, 0)
    early = us and rng.random() < 0.4
    s += [3, wait - 1 if early else wait, 0]
    order = list(range(n))
    rng.shuffle(order)
    if early:
        k = rng.randint(1, 2)
        for i in order[:k]:
            s += [1, i, 0]                      # 1 µs before the wait has elapsed: rejected
        order = order[k:]
        s += [3, 1, 0]
    pending = []
    for i in order:
        if stale and rng.random() < 0.3:
            j = stale.pop()
            s += rng.choice([[4, j, 0, 1, j, 0], [4, j, 2, 1, j, 0], [2, j, 0], [4, j, 4, 1, j, 0]])
        s += [1, i, 0]
        pending.append(i)
        if rng.random() < 0.3 and pending:
            j = rng.choice(pending)
            act = rng.random()
            if act < 0.5:
                s += [4, j, rng.choice([0, 0, 2, 4]), 1, j, 0]
            elif act < 0.7:
                s += [2, j, 0]
            else:
                s += [3, rng.choice([1, 5, 20, 60]), 0]
    for j in pending + stale:
        if rng.random() < 0.7:
            s += [4, j, rng.choice([0, 0, 2]), 1, j, 0]
    return s


def multi_phase_burst(rng):
    """several half-open phases in a row; trial calls of an EARLIER phase are still in flight when the breaker
    re-opened (a sibling trial failed, or force_open) and went half-open again, and are only then cancelled,
    completed or left alone, after which more callers arrive (a stale trial must give nothing back to the
    phase that is current now)"""
    perm = rng.choice([1, 2, 2, 3])
    tb = int(rng.random() < 0.5)
    wait = rng.choice([10, 20])
    phases = rng.randint(2, 3)
    n = 2 + phases * (perm + 3)
    s = cfg(tb, 2, rng.choice([15, 50]), 2, 1, 2, 0, 50, 1, 2, wait, perm, int(rng.random() < 0.3), n)
    s += seq_call(0, 2, 0) + seq_call(1, 2, 0)
    nxt = 2
    stale = []
    for ph in range(phases):
        s += [3, wait + rng.choice([0, 0, 3]), 0]
        mine = []
        for _ in range(perm + rng.choice([0, 0, 1])):
            s += [1, nxt, 0]
            mine.append(nxt)
            nxt += 1
        mine = mine[:perm]                       # those beyond perm were rejected at once
        # deal with left-overs of earlier phases while this phase is full
        for j in list(stale):
            x = rng.random()
            if x < 0.6:
                s += [2, j, 0]; stale.remove(j)
            elif x < 0.75:
                s += [4, j, rng.choice([0, 2, 4]), 1, j, 0]; stale.remove(j)
        for _ in range(rng.choice([1, 1, 2])):
            s += [1, nxt, 0]
            nxt += 1
        if ph == phases - 1:
            break
        # re-open: one trial fails (if another stays in flight) or the operator forces it open
        if len(mine) >= 2 and rng.random() < 0.7:
            j = mine.pop(rng.randrange(len(mine)))
            s += [4, j, 2, 1, j, 0]
        else:
            s += [via(rng, 5), 0, 0]
        stale += mine
    return s


def slow_listener(rng):
    """bit 3 of the first field (driver-only): a state-transition listener during which wait_open - 1 units of time
    pass. Only on count-based scripts without slow-call detection (see harness/src/bin/c03.rs): there the unchanged
    code cannot tell the difference, and the model (which ignores the bit) is compared as usual."""
    for _ in range(50):
        f = rng.choice([us_wait_boundary, us_wait_boundary, random_seq_history, half_open_burst, random_concurrent, multi_phase_burst])
        s = list(f(rng))
        if s[0] & 1 == 0 and s[6] == 0 and 2 <= s[10] < 10 ** 15:
            s[0] |= 8
            return s
    s = cfg(0, 2, 100, 2, 1, 2, 0, 50, 1, 2, 30, 1, 0, 4)
    s[0] |= 8
    return s + seq_call(0, 2, 0) + seq_call(1, 2, 0) + [3, 2, 0, 1, 2, 0, 3, 27, 0, 1, 3, 0]


def shrink(s):
    head, body = s[:NCFG], s[NCFG:]
    k = len(body) // 3
    for i in range(k):
        yield head + body[:3 * i] + body[3 * i + 3:]


def classify(s, t):
    out = ["time_based" if s[0] & 1 else "count_based", "fallback" if s[12] else "nofallback", "slow_on" if s[6] else "slow_off"]
    d = decode(s, t)
    if d:
        states = set(o[2] for (_, o) in d)
        for c, name in ((1, "reached_open"), (2, "reached_half_open")):
            if c in states:
                out.append(name)
        if any(o[0] in (3, 4) for (_, o) in d):
            out.append("saw_rejection")
        if any(e[0] == 2 for (e, _) in d):
            out.append("has_cancel")
        if any(e[0] in (5, 6, 7) for (e, _) in d):
            out.append("has_override")
        if any(e[0] == 4 and e[2] == 5 for (e, _) in d):
            out.append("classifier_panic")
        if any(e[0] == 4 and e[2] == 4 for (e, _) in d):
            out.append("inner_panic")
    if s[3] < 0:
        out.append("minimum_unset")
    if s[11] > 3:
        out.append("permitted>3")
    if s[10] == 0:
        out.append("wait=0")
    if (s[0] >> 1) & 1:
        out.append("unit_us")
    if (s[0] >> 2) & 1:
        out.append("unit_ns")
    if (s[0] >> 3) & 1:
        out.append("slow_listener")
    body = s[NCFG:]
    if any(body[i] in (15, 16, 17) for i in range(0, len(body) - len(body) % 3, 3)):
        out.append("operator_via_service_handle")
    if any(body[i] in (25, 26) for i in range(0, len(body) - len(body) % 3, 3)):
        out.append("health_trigger")
    if len(body) // 12 > 256:
        out.append(">256_calls")
    return out


def nontrivial(s, t):
    d = decode(s, t)
    if not d:
        return True
    return any(o[2] != 0 for (_, o) in d)   # the breaker left Closed at least once
