"""C15: rate limiter decides every call within its timeout; rejected calls go nowhere."""
from ratelimiter_common import *
PROP = "C15"
RULE = ("as C02; callers are polled whenever woken (bursts, crowds) and also lazily (random); drops while sleeping; idle gaps of (about) two periods followed by limit+1 fresh callers at one "
        "instant or spread over up to several periods, also for the periods (559, 561, 672, 801 ms) at which the f64 quotient of two periods is below 2.0; refresh_period 0 / Duration::MAX / "
        "beyond Instant's range with timeouts 0 / finite / Duration::MAX; non-trivial = some caller had to wait or was rejected")


def monitor(s, t):
    """The property over the implementation's trace, nothing else. Readings left open by the text are all accepted:
    'arrival' is the first poll for the deadline clauses (the latest reading) and the earlier of call()/first poll for the
    later-window clause (the weakest demand); callers already waiting count as possible owners of spare capacity (a
    first-come-first-served limiter is allowed); windows may be aligned to anything. Deliberately NOT demanded (the text does not):
    that a caller without a permit is made to wait rather than rejected at once."""
    d = decode(s, t)
    if d is None:
        return "malformed or panicking run: %s" % t[:12]
    wt, limit = s[0], s[1]
    P, timeout, n = dur(s[2]), dur(s[3]), s[4] % 1000
    if limit < 1 or P < 0:
        return None
    K = 3 if wt == 2 else 1      # every admission the window type can still count lies within the last K periods
    now = 0
    first, called, state, nstarts, inner_panic = {}, {}, {}, {}, set()
    adm = []                 # (instant, arrival of the caller if it had to wait else None)
    last_touch = None        # last instant at which the limiter may have been consulted (a call() or a poll of an undecided caller)
    gap_adm = 0              # admissions since the limiter was created / since the end of the last idle gap of two periods
    for (e, o) in d:
        op, a, b = e
        r, started, infl, mask = o
        if op in (3, 6):
            now += max(0, a)
            for i, st in state.items():
                if st == 'wait' and first[i] + timeout <= now and not (mask >> i) & 1:
                    return "caller %d is still asleep at %d, beyond its arrival %d + timeout %d (not woken)" % (i, now, first[i], timeout)
            if started:
                # somebody's request reached the inner service while only the clock moved: an admission all the same
                gap_adm += started
                adm += [(now, None)] * started
        elif op == 2:
            state[a] = 'end'
            if started:
                gap_adm += started
                adm += [(now, None)] * started
        elif op == 4:
            if b == 2:
                inner_panic.add(a)
            if started:
                gap_adm += started
                adm += [(now, None)] * started
        elif op == 5:
            if state.get(a, 'new') == 'new':
                called.setdefault(a, now)
                if last_touch is not None and now - last_touch >= 2 * P:
                    gap_adm = 0
                last_touch = now
            if started:
                # the request reached the inner service in call(), before any decision: counts as this caller's
                gap_adm += started
                adm += [(now, None)] * started
                nstarts[a] = nstarts.get(a, 0) + started
                if nstarts[a] > 1:
                    return "caller %d reached the inner service %d times" % (a, nstarts[a])
        elif op == 1:
            i = a
            st = state.get(i, 'new')
            if st == 'end':
                if started:
                    return "polling the finished caller %d made %d inner call(s)" % (i, started)
                continue
            if started > 1:
                return "caller %d's request reached the inner service %d times in one poll" % (i, started)
            if st in ('new', 'wait'):
                if last_touch is not None and now - last_touch >= 2 * P:
                    gap_adm = 0          # the limiter has been idle for two full periods
                last_touch = now
            if st == 'new':
                first[i] = now
                called.setdefault(i, now)
                waiting = sum(1 for x in state.values() if x == 'wait')
                if not started and not nstarts.get(i) and r != 5:
                    # admitted at once when the current window has spare capacity: whatever the window alignment, all
                    # admissions the limiter can still hold against this caller lie within the last K periods
                    recent = sum(1 for (x, _) in adm if now - K * P < x <= now)
                    if recent + waiting < limit:
                        return ("fresh caller %d at %d was not admitted at once although only %d call(s) were admitted in the last %d ms and %d caller(s) were waiting (limit %d)"
                                % (i, now, recent, K * P, waiting, limit))
                    # after two idle periods (or a new limiter) the next limit calls are admitted without waiting
                    if gap_adm + waiting < limit:
                        return ("fresh caller %d at %d was not admitted at once although the limiter had been idle for two periods (or was new) and only %d call(s) "
                                "were admitted since, %d waiting (limit %d)" % (i, now, gap_adm, waiting, limit))
            if started:
                gap_adm += started
                adm.append((now, called[i] if (st == 'wait' and called[i] < now) else None))
                nstarts[i] = nstarts.get(i, 0) + started
                if nstarts[i] > 1:
                    return "caller %d reached the inner service %d times" % (i, nstarts[i])
            if r == 3:
                if nstarts.get(i):
                    return "rejected caller %d reached the inner service" % i
                state[i] = 'end'
            elif r == 5:
                # a panic is a decision only when it is the inner service's own (scripted) panic coming through an admitted call
                if not (nstarts.get(i) and i in inner_panic):
                    return ("caller %d's call panicked at %d instead of being admitted or rejected with the rate-limited error "
                            "(no inner-service panic was scripted for it)" % (i, now))
                state[i] = 'end'
            elif r in (1, 2):
                if not nstarts.get(i):
                    return "caller %d got the inner service's result without its request having reached the inner service" % i
                state[i] = 'end'
            elif r == 0:
                if nstarts.get(i):
                    state[i] = 'run'
                else:
                    state[i] = 'wait'
                    if now >= first[i] + timeout:
                        return "caller %d polled at %d is still undecided at/after its arrival %d + timeout %d" % (i, now, first[i], timeout)
    if wt == 0 and P > 0:
        # fixed window: a caller admitted after waiting took a permit of a later window: some valid cut of time into
        # windows puts a cut between its arrival and its admission
        times = [x for (x, _) in adm]
        if not feasible(times, limit, P, arrived=[w for (_, w) in adm]):
            if feasible(times, limit, P):
                return ("fixed window: admissions %s (arrival of those that waited: %s) cannot be cut into windows >= %d ms with <= %d admissions such that every "
                        "caller that waited is admitted in a later window than the one it arrived in" % (times, [w for (_, w) in adm], P, limit))
            return "fixed window: admissions at %s cannot be cut into consecutive windows >= %d ms with at most %d admissions each" % (times, P, limit)
    return None
