"""C15: rate limiter decides every call within its timeout; rejected calls go nowhere."""
from ratelimiter_common import *
PROP = "C15"
RULE = ("as C02; callers are polled whenever woken (bursts) and also lazily (random); drops while sleeping; idle gaps of two periods followed by limit fresh callers; "
        "non-trivial = some caller had to wait or was rejected")


def monitor(s, t):
    d = decode(s, t)
    if d is None:
        return "malformed or panicking run: %s" % t[:12]
    wt, limit, P, timeout, n = s[:NCFG]
    if limit < 1 or P <= 0:
        return None
    now = 0
    first, state, nstarts = {}, {}, {}
    adm_times = []
    last_touch = 0           # last instant at which a poll may have called try_acquire (limiter created at 0)
    burst = None             # after two idle periods: {"t": instant, "k": fresh arrivals so far}
    for (e, o) in d:
        op, a, b = e
        r, started, infl, mask = o
        if op == 3:
            now += max(0, a)
            for i, st in state.items():
                if st == 'wait' and first[i] + timeout <= now and not (mask >> i) & 1:
                    return "caller %d is still asleep at %d, beyond its arrival %d + timeout %d (not woken)" % (i, now, first[i], timeout)
        elif op == 2:
            state[a] = 'end'
        elif op == 1:
            i = a
            st = state.get(i, 'new')
            if st == 'end':
                continue
            if st == 'new':
                first[i] = now
                # spare capacity for certain: nothing was admitted during the last two periods before this
                # instant, and fewer than `limit` calls have been admitted at this very instant
                recent = [x for x in adm_times if now - 2 * P < x < now]
                at_now = sum(1 for x in adm_times if x == now)
                if not recent and at_now < limit and not started:
                    return ("fresh caller %d at %d was not admitted at once although nothing was admitted in the two periods before and only %d of %d permits were taken at this instant"
                            % (i, now, at_now, limit))
            if st in ('new', 'wait'):
                last_touch_new = now
            if started:
                adm_times.append(now)
                nstarts[i] = nstarts.get(i, 0) + 1
                if nstarts[i] > 1:
                    return "caller %d reached the inner service %d times" % (i, nstarts[i])
            if r == 3:
                if nstarts.get(i):
                    return "rejected caller %d reached the inner service" % i
                state[i] = 'end'
            elif r in (1, 2, 5):
                state[i] = 'end'
            elif r == 0:
                if started or st == 'run':
                    state[i] = 'run'
                else:
                    state[i] = 'wait'
                    if now >= first[i] + timeout:
                        return "caller %d polled at %d is still undecided at/after its arrival %d + timeout %d" % (i, now, first[i], timeout)
            if st in ('new', 'wait'):
                last_touch = now
    return None
