"""C07: bulkhead never loses capacity and rejects only by timeout."""
from bulkhead_common import *
PROP = "C07"
RULE = "as C01; after every script all callers are dropped and cap+1 fresh callers are polled: exactly cap must start; non-trivial = some caller queued, timed out or panicked"


def monitor(s, t):
    d = decode(s, t)
    if d is None:
        return "malformed or panicking run: %s" % t[:10]
    cap, mw, n, evt = d
    now = 0
    first = {}          # caller -> first poll instant
    state = {}          # caller -> 'wait' | 'run' | 'end'
    probe = evt[-(cap + 1):]
    for k, (e, o) in enumerate(evt):
        op, a, b = e
        r, started, seen, mask, infl = o
        if op == 3:
            old = now
            now += max(0, a)
            if mw >= 0:
                for i, st in state.items():
                    if st == 'wait' and old < first[i] + mw <= now and not (mask >> i) & 1:
                        return "caller %d still waiting at its deadline %d was not woken" % (i, first[i] + mw)
        elif op == 2:
            state[a] = 'end'
        elif op == 1:
            i = a
            if state.get(i) == 'end':
                continue
            fresh = i not in first
            if fresh:
                first[i] = now
                waiting = [j for j, st in state.items() if st == 'wait']
                running = [j for j, st in state.items() if st == 'run']
                if len(running) < cap and not waiting and not started:
                    return "caller %d arrived with %d in flight (cap %d) and nobody queued but was not admitted at once" % (i, len(running), cap)
            if r == 4:
                return "BulkheadFull returned (semaphore is never closed)"
            if r == 3:
                if mw < 0:
                    return "timeout rejection without max_wait_duration"
                if now < first[i] + mw:
                    return "caller %d rejected at %d, before arrival %d + max_wait %d" % (i, now, first[i], mw)
                if started or state.get(i) == 'run':
                    return "rejected caller %d reached the inner service" % i
            if r == 0 and not started and state.get(i, 'wait') == 'wait' and mw >= 0 and now >= first[i] + mw:
                return "caller %d polled at/after its deadline is still pending" % i
            if started:
                state[i] = 'run'
            elif fresh or state.get(i) == 'wait':
                state[i] = 'wait'
            if r not in (0,):
                state[i] = 'end'
    # capacity probe
    ok = sum(1 for (_, o) in probe if o[1] == 1)
    if ok != cap or probe[-1][1][1] != 0:
        return "after the history, with nothing in flight, %d of %d probe callers were admitted (cap %d)" % (ok, cap + 1, cap)
    return None
