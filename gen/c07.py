"""C07: bulkhead never loses capacity and rejects only by timeout."""
from bulkhead_common import *
PROP = "C07"
RULE = "as C01; after every script all callers are dropped and cap+1 fresh callers are polled: the first cap must start; non-trivial = some caller queued, timed out or panicked"


def monitor(s, t):
    """C07 over the implementation's trace alone. 'Arrived' is read either way the text allows (call() or first poll):
    a rejection is early only if it precedes call() + max_wait, late only if the caller is still pending when polled at
    or after first poll + max_wait. Which of permit and timer wins an exact tie, the order in which waiters are served
    and spurious wake-ups are left open."""
    if panicked(s, t):
        return panicked(s, t)
    d = decode(s, t)
    if d is None:
        return "malformed or panicking run: %s" % t[:10]
    cap, mw, n, evt = d
    mwn = ns_of(mw) if mw >= 0 else -1     # nanoseconds
    now = 0
    called = {}         # caller -> instant its call future was created (call())
    first = {}          # caller -> first poll instant
    state = {}          # caller -> 'wait' | 'run' | 'end' (absent: never polled)
    reached = set()     # requests the inner service's call() has seen (the inner service's own record)
    barred = {}         # requests that must never reach the inner service -> why
    probe = evt[-probe_len(s[0]):]
    need = min(cap, len(probe))
    for k, (e, o) in enumerate(evt):
        op, a, b = e
        r, started, seen, mask, infl, ids = o
        for j in started_ids(ids):
            if j in barred:
                return "request %d reached the wrapped service although it was %s" % (j, barred[j])
            reached.add(j)
        if op in (1, 2, 5) and a not in called:
            called[a] = now
        if op == 6:
            for j in range(n + len(probe)):
                called.setdefault(j, now)
        if op == 3:
            old = now
            now += ns_of(a)
            if mw >= 0:
                for i, st in state.items():
                    # the timer takes effect at the first millisecond tick at or after the deadline
                    if st == 'wait' and i < MASKW and old < ceil_ms(first[i] + mwn) <= now and not (mask >> i) & 1:
                        return "caller %d still waiting at its deadline %d ns was not woken" % (i, first[i] + mwn)
        elif op == 2:
            if state.get(a) in (None, 'wait'):
                if a in reached:
                    return "request %d was cancelled while waiting but had reached the wrapped service" % a
                barred[a] = "cancelled while waiting"
            state[a] = 'end'
        elif op == 1 and state.get(a) != 'end':
            i = a
            fresh = i not in first
            waiting = [j for j, st in state.items() if st == 'wait' and j != i]
            running = [j for j, st in state.items() if st == 'run']
            if fresh:
                first[i] = now
                if len(running) < cap and not waiting and not started:
                    return "caller %d arrived with %d in flight (cap %d) and nobody queued but was not admitted at once" % (i, len(running), cap)
            elif state.get(i) == 'wait' and len(running) < cap and not waiting and r == 0 and not started:
                return "caller %d is the only one waiting, %d in flight (cap %d), and its poll neither admitted nor rejected it: capacity lost" % (i, len(running), cap)
            if r == 4:
                return "caller %d was rejected with BulkheadFull, not with the bulkhead timeout error" % i
            if r in (1, 2, 5) and not started and state.get(i, 'wait') == 'wait' and i not in reached:
                return "caller %d could not get a slot and ended with %s instead of the bulkhead timeout error" % (
                    i, {1: "Ok", 2: "an inner error", 5: "a panic"}[r])
            if r == 3:
                if mw < 0:
                    return "timeout rejection without max_wait_duration"
                if now < called[i] + mwn:
                    return "caller %d rejected at %d ns, before arrival %d + max_wait %d" % (i, now, called[i], mwn)
                if started or state.get(i) == 'run' or i in reached:
                    return "rejected caller %d reached the inner service" % i
                barred[i] = "rejected"
            if r == 0 and not started and state.get(i, 'wait') == 'wait' and mw >= 0 and now >= ceil_ms(first[i] + mwn):
                return "caller %d polled at/after its deadline is still pending" % i
            if started:
                state[i] = 'run'
            elif fresh or state.get(i) == 'wait':
                state[i] = 'wait'
            if r not in (0,):
                state[i] = 'end'
        # capacity is not parked on a sleeping caller: whenever a slot is free and callers wait, one of them has been woken
        waiting = [j for j, st in state.items() if st == 'wait']
        nrun = sum(1 for st in state.values() if st == 'run')
        if waiting and nrun < cap and max(waiting) < MASKW and not any((mask >> j) & 1 for j in waiting):
            return "after event %d %s: %d in flight (cap %d), callers %s wait and none of them has been woken: capacity lost" % (k, e, nrun, cap, waiting)
    # capacity probe: nothing is in flight or waiting any more; cap fresh callers arrive one after the other
    ok = sum(1 for (_, o) in probe[:need] if o[1] >= 1)
    if ok != need:
        return "after the history, with nothing in flight, only %d of the first %d probe callers were admitted (cap %d)" % (ok, need, cap)
    return None
