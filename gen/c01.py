"""C01: bulkhead never lets more than max_concurrent_calls into the inner service."""
from bulkhead_common import *
PROP = "C01"
RULE = ("random scripts (callers, polls in any order, cancellations at any point, advances hitting deadlines exactly, ok/err/panic/sync-panic/never inner outcomes; "
        "caps 1..8 and the presets, max_wait none/zero/finite/huge/Duration::MAX, every builder route and handle kind) + all scripts up to a small length over 3 callers "
        "+ fills beyond capacity + long sequential histories; non-trivial = some caller queued, timed out or panicked")


def monitor(s, t):
    """C01 and nothing else: at no observed instant are more than max_concurrent_calls requests inside the inner service.
    Observed instants: after every event (the inner service's own in-flight counter) and at every start of an inner
    call -- inside a poll or anywhere else -- (the count that call saw, itself included)."""
    if panicked(s, t):
        return panicked(s, t)
    d = decode(s, t)
    if d is None:
        return "malformed or panicking run: %s" % t[:10]
    cap, mw, n, evt = d
    for (e, o) in evt:
        if o[4] > cap:
            return "in-flight %d exceeds max_concurrent_calls %d after event %s" % (o[4], cap, e)
        if o[2] > cap:
            return "inner service saw %d concurrent calls, cap %d (event %s)" % (o[2], cap, e)
    return None
