"""C01: bulkhead never lets more than max_concurrent_calls into the inner service."""
from bulkhead_common import *
PROP = "C01"
RULE = "random scripts (callers, polls in any order, cancellations at any point, advances hitting deadlines exactly, ok/err/panic/never inner outcomes) + all scripts up to a small length over 3 callers; non-trivial = some caller queued, timed out or panicked"


def monitor(s, t):
    d = decode(s, t)
    if d is None:
        return "malformed or panicking run: %s" % t[:10]
    cap, mw, n, evt = d
    for (e, o) in evt:
        if o[4] > cap:
            return "in-flight %d exceeds max_concurrent_calls %d after event %s" % (o[4], cap, e)
        if o[1] and o[2] > cap:
            return "inner service saw %d concurrent calls, cap %d" % (o[2], cap)
    return None
