"""C11: coalesce runs one inner call per key and shares its result with all waiters."""
import itertools

PROP = "C11"
DRIVER = "c11"
MODEL = "C11"
MODEL_QUALID = "Model.Coalesce.run_script"
FORMAT = ("script [n; (op a b)*] callers 0..n-1: op 1=Poll a 2=Drop a 4=Complete a b(0 ok,1 err,2 panic: outcome of caller a's own inner call) "
          "5=Call a with key b (service.call: the role is decided here). "
          "trace: per event [r; val; wake mask; mask of callers whose inner call is in flight] with "
          "r: -1 no poll, 0 pending, 1 Ok(val), 2 Err(Service(val)), 3 LeaderCancelled, 4 RecvError, 5 panicked, 9 nothing to poll; "
          "val = id of the caller whose inner call produced the value")
RULE = ("random scripts over 2-6 callers and 1-3 keys: calls at any time (also after a key was freed), polls in any order, drops of "
        "leaders and waiters at any point (before the first poll, while pending, after the inner call completed but before the leader "
        "was polled), ok/err/panic/never outcomes, completions before the call; plus staged scenarios (leader + k waiters, then finish / "
        "drop / panic, then late polls and a fresh call); plus all scripts up to a small length over 3 callers and 2 keys; "
        "non-trivial = some request was coalesced as a waiter")
TRUSTED = ["tokio broadcast channel (one message, try_recv: value before Closed, Closed once the only sender is dropped) and the "
           "parking_lot mutex around the map are modelled; tied to the libraries only by this correspondence run",
           "poll atomicity: call(), poll and drop each take the map lock once and never hold it across a Pending"]
ASSUMPTIONS = ["single-threaded deterministic executor: one call/poll/drop at a time (a leader's Drop removes the key before its inner "
               "future is dropped; a call racing in between on another thread is outside the model)"]


def events(s):
    n = max(0, s[0]) if s else 0
    body = s[1:]
    evs = []
    for k in range(0, len(body) - len(body) % 3, 3):
        op, a, b = body[k:k + 3]
        if op in (1, 2, 4, 5) and 0 <= a < n:
            evs.append((op, a, b))
    return n, evs


def decode(s, t):
    n, evs = events(s)
    if len(t) != 4 * len(evs):
        return None
    return n, [(e, t[4 * k:4 * k + 4]) for k, e in enumerate(evs)]


CODE = {0: 1, 1: 2}


def monitor(s, t):
    d = decode(s, t)
    if d is None:
        return "malformed or panicking run: %s" % t[:10]
    n, evt = d
    key = [None] * n
    state = ["idle"] * n        # idle | leader | waiter | resolved | dropped
    leader_of = [None] * n      # for waiters
    fate = [None] * n           # for leaders: None (leading) | ("res", code) | "gone"
    comp = [None] * n           # outcome of the effective Complete
    polled = [False] * n
    fl = 0
    for k, (e, o) in enumerate(evt):
        op, a, b = e
        r, val, mask, fl2 = o
        # clause 1: at most one inner call in flight per key, always
        per = {}
        for j in range(n):
            if (fl2 >> j) & 1:
                if key[j] is None and not (op == 5 and j == a):
                    return "inner call of caller %d in flight before its call() (event %d)" % (j, k)
                kk = key[j] if key[j] is not None else max(0, b)
                per[kk] = per.get(kk, 0) + 1
        for kk, c in per.items():
            if c > 1:
                return "%d inner calls in flight for key %d (event %d)" % (c, kk, k)
        if op == 5:
            if state[a] == "idle":
                kk = max(0, b)
                key[a] = kk
                leaders = [j for j in range(n) if (fl >> j) & 1 and key[j] == kk and j != a]
                if leaders:
                    # arrived while a call for this key is in flight: must not call the inner service
                    if fl2 != fl:
                        return "caller %d arrived while caller %d's call for key %d was in flight but the in-flight set changed %d -> %d (event %d)" % (a, leaders[0], kk, fl, fl2, k)
                    state[a] = "waiter"
                    leader_of[a] = leaders[0]
                else:
                    # key free: a fresh inner call must start now
                    if fl2 != fl | (1 << a):
                        return "caller %d arrived with key %d free but no fresh inner call started (in-flight %d -> %d, event %d)" % (a, kk, fl, fl2, k)
                    state[a] = "leader"
            elif fl2 != fl:
                return "repeated Call changed the in-flight set (event %d)" % k
        elif op == 4:
            if comp[a] is None:
                comp[a] = b if b in (0, 1) else 2
                if state[a] == "leader" and polled[a] and not (mask >> a) & 1:
                    return "leader %d not woken by the completion of its inner call (event %d)" % (a, k)
            if fl2 != fl:
                return "Complete changed the in-flight set (event %d)" % k
        elif op == 2:
            if state[a] == "leader":
                fate[a] = "gone"
                state[a] = "dropped"
                if fl2 != fl & ~(1 << a):
                    return "leader %d dropped: in-flight set %d -> %d (event %d)" % (a, fl, fl2, k)
            else:
                if state[a] == "waiter":
                    state[a] = "dropped"
                if fl2 != fl:
                    return "drop of non-leader %d changed the in-flight set (event %d)" % (a, k)
        elif op == 1:
            if state[a] == "leader":
                polled[a] = True
                c = comp[a]
                if c is None:
                    if r != 0:
                        return "leader %d resolved (r=%d) before its inner call completed (event %d)" % (a, r, k)
                    if fl2 != fl:
                        return "pending leader poll changed the in-flight set (event %d)" % k
                else:
                    if c == 2:
                        if r != 5:
                            return "leader %d: inner panic but r=%d (event %d)" % (a, r, k)
                        fate[a] = "gone"
                    else:
                        if r != CODE[c] or val != a:
                            return "leader %d: inner outcome %d but r=%d val=%d (event %d)" % (a, c, r, val, k)
                        fate[a] = ("res", CODE[c])
                    state[a] = "resolved"
                    if fl2 != fl & ~(1 << a):
                        return "leader %d finished: in-flight set %d -> %d (event %d)" % (a, fl, fl2, k)
            elif state[a] == "waiter":
                l = leader_of[a]
                f = fate[l]
                if f is None:
                    # clause: a waiter is pending only while its leader is still leading - and it keeps itself awake
                    if r != 0:
                        return "waiter %d resolved (r=%d) while its leader %d is still in flight (event %d)" % (a, r, l, k)
                    if not (mask >> a) & 1:
                        return "pending waiter %d did not arrange to be polled again (event %d)" % (a, k)
                elif f == "gone":
                    if r != 3:
                        return "waiter %d: leader %d dropped/panicked but r=%d (expected LeaderCancelled at this poll) (event %d)" % (a, l, r, k)
                    state[a] = "resolved"
                else:
                    if r != f[1] or val != l:
                        return "waiter %d: leader %d finished with code %d but waiter got r=%d val=%d (event %d)" % (a, l, f[1], r, val, k)
                    state[a] = "resolved"
                if fl2 != fl:
                    return "waiter poll changed the in-flight set (event %d)" % k
            else:
                if r != 9:
                    return "poll of caller %d in state %s returned %d (event %d)" % (a, state[a], r, k)
                if fl2 != fl:
                    return "no-op poll changed the in-flight set (event %d)" % k
        fl = fl2
    return None


def corpus():
    return [
        # leader 0 + waiters 1,2 on key 7; leader finishes ok; waiters get a clone; fresh call afterwards leads
        [4, 5, 0, 7, 5, 1, 7, 5, 2, 7, 1, 1, 0, 1, 0, 0, 4, 0, 0, 1, 0, 0, 1, 1, 0, 5, 3, 7, 1, 2, 0, 1, 3, 0],
        # error result is shared too
        [3, 5, 0, 1, 5, 1, 1, 4, 0, 1, 1, 0, 0, 1, 1, 0],
        # leader dropped: waiter gets LeaderCancelled, key free at once
        [4, 5, 0, 1, 5, 1, 1, 1, 1, 0, 2, 0, 0, 5, 2, 1, 1, 1, 0, 5, 3, 1, 1, 3, 0, 4, 2, 0, 1, 2, 0, 1, 3, 0],
        # leader panics
        [3, 5, 0, 1, 5, 1, 1, 4, 0, 2, 1, 0, 0, 1, 1, 0, 5, 2, 1],
        # two keys interleaved
        [4, 5, 0, 1, 5, 1, 2, 5, 2, 1, 5, 3, 2, 4, 1, 0, 1, 1, 0, 1, 2, 0, 1, 3, 0, 4, 0, 1, 1, 0, 0, 1, 2, 0],
        # completed inner call, leader dropped before being polled
        [2, 5, 0, 0, 5, 1, 0, 4, 0, 0, 2, 0, 0, 1, 1, 0],
    ]


def random_script(rng, maxn=6, maxlen=36, nkeys=None):
    n = rng.randint(2, maxn)
    nk = nkeys or rng.choice([1, 2, 2, 3])
    s = [n]
    called = set()
    for _ in range(rng.randint(4, maxlen)):
        x = rng.random()
        if x < 0.28:
            cand = [i for i in range(n) if i not in called]
            i = rng.choice(cand) if cand and rng.random() < 0.9 else rng.randrange(n)
            called.add(i)
            s += [5, i, rng.randrange(nk)]
        elif x < 0.68:
            i = rng.choice(sorted(called)) if called and rng.random() < 0.9 else rng.randrange(n)
            s += [1, i, 0]
        elif x < 0.80:
            i = rng.choice(sorted(called)) if called and rng.random() < 0.9 else rng.randrange(n)
            s += [2, i, 0]
        else:
            s += [4, rng.randrange(n), rng.choice([0, 0, 1, 1, 2])]
    # tail: everything still alive is polled twice (bounded number of polls after the last external event)
    for _ in range(2):
        for i in range(n):
            s += [1, i, 0]
    return s


def staged(rng):
    """leader + waiters on one key, some polled; then the leader finishes / is dropped / panics; late polls; a fresh call"""
    n = rng.randint(3, 6)
    k0 = rng.randrange(3)
    s = [n, 5, 0, k0]
    ws = list(range(1, n - 1))
    for w in ws:
        s += [5, w, k0 if rng.random() < 0.8 else (k0 + 1) % 3]
        if rng.random() < 0.5:
            s += [1, w, 0]
    if rng.random() < 0.7:
        s += [1, 0, 0]
    if rng.random() < 0.3 and ws:
        s += [2, rng.choice(ws), 0]
    end = rng.choice(["ok", "err", "panic", "drop", "drop_after_complete"])
    if end == "ok":
        s += [4, 0, 0, 1, 0, 0]
    elif end == "err":
        s += [4, 0, 1, 1, 0, 0]
    elif end == "panic":
        s += [4, 0, 2, 1, 0, 0]
    elif end == "drop":
        s += [2, 0, 0]
    else:
        s += [4, 0, rng.choice([0, 1]), 2, 0, 0]
    order = ws[:]
    rng.shuffle(order)
    fresh_at = rng.randint(0, len(order))
    for idx, w in enumerate(order):
        if idx == fresh_at:
            s += [5, n - 1, k0]
        s += [1, w, 0]
    if fresh_at == len(order):
        s += [5, n - 1, k0]
    s += [1, n - 1, 0, 4, n - 1, rng.choice([0, 1]), 1, n - 1, 0]
    for w in ws:
        s += [1, w, 0]
    return s


def late_drop(rng):
    """a leader finishes and is polled, but its (finished) future is dropped only later, after a new leader for
    the same key has started and a waiter has joined it"""
    k0 = rng.randrange(3)
    s = [4, 5, 0, k0, 1, 0, 0, 4, 0, rng.choice([0, 1]), 1, 0, 0]      # leader 0: call, poll, complete, poll (done)
    s += [5, 1, k0]                                                     # new leader 1 on the same key
    if rng.random() < 0.7:
        s += [1, 1, 0]
    s += [5, 2, k0]                                                     # waiter 2 joins leader 1
    if rng.random() < 0.5:
        s += [1, 2, 0]
    s += [2, 0, 0]                                                      # late drop of the finished leader 0
    if rng.random() < 0.5:
        s += [5, 3, k0, 1, 3, 0]                                        # another request for the key
    s += [1, 2, 0, 4, 1, rng.choice([0, 1]), 1, 1, 0, 1, 2, 0, 1, 3, 0]
    return s


def exhaustive(depth, n=3):
    alpha = [(5, 0, 0), (5, 1, 0), (5, 2, 0), (5, 2, 1), (1, 0, 0), (1, 1, 0), (1, 2, 0),
             (2, 0, 0), (2, 1, 0), (4, 0, 0), (4, 0, 2), (4, 2, 1)]
    for L in range(1, depth + 1):
        for evs in itertools.product(alpha, repeat=L):
            s = [n]
            for e in evs:
                s += list(e)
            yield s


def generate(rng, tier):
    out = []
    if tier == "quick":
        out += [random_script(rng) for _ in range(1500)]
        out += [staged(rng) for _ in range(700)]
        out += [late_drop(rng) for _ in range(100)]
        out += list(exhaustive(2))
    else:
        out += [random_script(rng, 6, 70) for _ in range(30000)]
        out += [staged(rng) for _ in range(10000)]
        out += [late_drop(rng) for _ in range(2000)]
        out += list(exhaustive(5))
    return out


def nontrivial(s, t):
    d = decode(s, t)
    if not d:
        return True
    n, evt = d
    fl = 0
    for (e, o) in evt:
        if e[0] == 5 and o[3] == fl and fl != 0:
            return True     # a call that did not start an inner call while something was in flight
        fl = o[3]
    return False


def classify(s, t):
    d = decode(s, t)
    out = []
    if d:
        n, evt = d
        out.append("callers%d" % n)
        out.append("keys%d" % len(set(max(0, e[2]) for (e, _) in evt if e[0] == 5)))
        rs = set(o[0] for (_, o) in evt)
        for r, name in ((1, "ok"), (2, "service_err"), (3, "leader_cancelled"), (4, "recv_error"), (5, "panic")):
            if r in rs:
                out.append("saw_" + name)
        if any(o[0] in (1, 2) and o[1] != e[1] for (e, o) in evt if e[0] == 1):
            out.append("shared_result")
        if nontrivial(s, t):
            out.append("has_waiter")
        if any(e[0] == 2 for (e, _) in evt):
            out.append("has_drop")
        # a key used again by a fresh leader after an earlier leader of that key
        leaders = {}
        fl = 0
        for (e, o) in evt:
            if e[0] == 5 and o[3] != fl:
                kk = max(0, e[2])
                leaders[kk] = leaders.get(kk, 0) + 1
            fl = o[3]
        if any(v > 1 for v in leaders.values()):
            out.append("key_reused")
    return out


def shrink(s):
    head, body = s[:1], s[1:]
    k = len(body) // 3
    for i in range(k):
        yield head + body[:3 * i] + body[3 * i + 3:]
