"""C11: coalesce runs one inner call per key and shares its result with all waiters."""
import itertools

PROP = "C11"
DRIVER = "c11"
MODEL = "C11"
MODEL_QUALID = "Model.Coalesce.run_script"
FORMAT = ("script [h; (op a b)*] callers 0..n-1 with n = h % 100; h // 100 = f selects how the driver builds and shares the service "
          "(f%4: 0 fresh clone of one base service per call, 1 every call on the base value, 2 chain of clones, 3 base and one long-lived "
          "clone alternately; (f//4)%2: key type whose Hash sends every key to one bucket; (f//8)%2: layer built through builder().name().build()); "
          "op 1=Poll a 2=Drop a 4=Complete a b(0 ok,1 err,2 panic: outcome of caller a's own inner call) "
          "5=Call a with key b (service.call: the role is decided here) 6=Arm a (the next Clone of a value produced by caller a's inner "
          "call panics, once) 7=Call a with key b where the inner service's call() panics if this request reaches it "
          "8=Call a with key b during which the metrics recorder panics (role counter; crate built with feature metrics) "
          "3=Advance: b milliseconds pass (a ignored). "
          "trace: per event [r; val; wake mask; mask of callers whose inner call is in flight; mask of armed Clone panics] with "
          "r: -1 nothing, 0 pending, 1 Ok(val), 2 Err(Service(val)), 3 LeaderCancelled, 4 RecvError, 5 panicked (poll, or the call() of op 7/8 after the scripted fault went off), 7 call() panicked on its own, "
          "9 nothing to poll; val = id of the caller whose inner call produced the value")
RULE = ("random scripts over 2-8 callers and 1-12 keys: calls at any time (also after a key was freed), polls in any order, drops of "
        "leaders and waiters at any point (before the first poll, while pending, after the inner call completed but before the leader "
        "was polled), ok/err/panic/never outcomes, completions before the call, inner.call() panicking under a would-be leader or a "
        "would-be waiter, the metrics recorder panicking in call() in either role, time passing (1 ms .. 1 day) at any point, Clone panics armed before the leader's completing poll or between it and a waiter's poll; every way of sharing "
        "the service value (clone per call, one value, clone chain, two values), colliding-hash keys, builder route; plus staged scenarios "
        "(leader + k waiters, then finish / drop / panic / clone panic, then late polls and a fresh call; a call that panics followed by "
        "requests for the same key; a pending leader with polled waiters while seconds, minutes, a day pass; 17-99 requests fanning in on "
        "one key); plus all scripts up to a small length over 3 callers and 2 keys (three alphabets); "
        "non-trivial = some request was coalesced as a waiter")
TRUSTED = ["tokio broadcast channel (one message, try_recv: value before Closed, Closed once the only sender is dropped, one Clone per "
           "receipt) and the parking_lot mutex around the map are modelled; tied to the libraries only by this correspondence run",
           "poll atomicity: call(), poll and drop each take the map lock once and never hold it across a Pending"]
ASSUMPTIONS = ["single-threaded deterministic executor: one call/poll/drop at a time (a leader's Drop removes the key before its inner "
               "future is dropped; a call racing in between on another thread is outside the model)",
               "panics are contained at the boundary of the call()/poll they occur in (catch_unwind, as a task boundary does) and the "
               "panicked future is dropped"]
W = 5       # trace integers per event


def ncallers(s):
    h = s[0] if s else 0
    return 0 if h < 0 else h % 100


def events(s):
    n = ncallers(s)
    body = s[1:]
    evs = []
    for k in range(0, len(body) - len(body) % 3, 3):
        op, a, b = body[k:k + 3]
        if op in (1, 2, 3, 4, 5, 6, 7, 8) and 0 <= a < n:
            evs.append((op, a, b))
    return n, evs


def decode(s, t):
    n, evs = events(s)
    if len(t) != W * len(evs):
        return None
    return n, [(e, t[W * k:W * k + W]) for k, e in enumerate(evs)]


CODE = {0: 1, 1: 2}


def monitor(s, t):
    """The property over the implementation's trace.  What the implementation is told by the script (calls, keys, outcomes of
    the inner calls, which Clone / inner.call() panics) and what it is seen to do (results of polls, which inner calls are in
    flight, wake flags, whether an armed Clone panic went off) - nothing about how it does it."""
    d = decode(s, t)
    if d is None:
        return "malformed or panicking run: %s" % t[:10]
    n, evt = d
    key = [None] * n
    state = ["idle"] * n        # idle | leader | waiter | resolved | dropped
    leader_of = [None] * n      # for waiters
    fate = [None] * n           # for leaders: None (leading) | ("res", code) | "gone"
    comp = [None] * n           # outcome of the effective Complete
    polled = [False] * n        # returned Pending at least once (so it has handed out a waker)
    fl = 0
    bm = 0

    def settled(l, mask, k, how):
        # no request waits forever: a pending waiter must be woken no later than the event that settles its leader's fate
        for j in range(n):
            if state[j] == "waiter" and leader_of[j] == l and polled[j] and not (mask >> j) & 1:
                return "waiter %d is pending and was not woken when its leader %d %s: nothing will poll it again (event %d)" % (j, l, how, k)
        return None

    for k, (e, o) in enumerate(evt):
        op, a, b = e
        r, val, mask, fl2, bm2 = o
        went_off = bm & ~bm2        # armed Clone panics that fired during this event
        # clause 1: at most one inner call in flight per key, always
        per = {}
        for j in range(n):
            if (fl2 >> j) & 1:
                if key[j] is None and not (op in (5, 7, 8) and j == a):
                    return "inner call of caller %d in flight before its call() (event %d)" % (j, k)
                kk = key[j] if key[j] is not None else max(0, b)
                per[kk] = per.get(kk, 0) + 1
        for kk, c in per.items():
            if c > 1:
                return "%d inner calls in flight for key %d (event %d)" % (c, kk, k)
        if op in (5, 7, 8) and r not in (-1, 5):
            return "call() of caller %d panicked although nothing it was given panicked (r=%d, event %d)" % (a, r, k)
        if op == 8 and state[a] == "idle" and r == 5:
            # the recorder panicked inside call(): the request is gone whatever its role would have been; no inner call may
            # have been started, and the key must be as usable as before (checked when the next request for it arrives)
            key[a] = max(0, b)
            if fl2 != fl:
                return "call() of caller %d unwound (metrics recorder panicked) but the in-flight set changed %d -> %d (event %d)" % (a, fl, fl2, k)
            state[a] = "resolved"
        elif op in (5, 7, 8):
            if state[a] == "idle":
                kk = max(0, b)
                key[a] = kk
                leaders = [j for j in range(n) if (fl >> j) & 1 and key[j] == kk and j != a]
                if leaders:
                    # arrived while a call for this key is in flight: must not call the inner service
                    if fl2 != fl:
                        return "caller %d arrived while caller %d's call for key %d was in flight but the in-flight set changed %d -> %d (event %d)" % (a, leaders[0], kk, fl, fl2, k)
                    if r == 5:
                        return "caller %d arrived while caller %d's call for key %d was in flight but reached the inner service (its call() panicked) (event %d)" % (a, leaders[0], kk, k)
                    state[a] = "waiter"
                    leader_of[a] = leaders[0]
                elif op in (5, 8):
                    # key free: a fresh inner call must start now (op 8 whose recorder was not consulted is an ordinary call)
                    if fl2 != fl | (1 << a):
                        return "caller %d arrived with key %d free but no fresh inner call started (in-flight %d -> %d, event %d)" % (a, kk, fl, fl2, k)
                    state[a] = "leader"
                else:
                    # key free and inner.call() panics: the call unwinds, there is no future and no inner call;
                    # the key must still be free (checked when the next request for it arrives)
                    if r != 5:
                        return "caller %d arrived with key %d free, inner.call() panicked, but call() reported r=%d (event %d)" % (a, kk, r, k)
                    if fl2 != fl:
                        return "panicking inner.call() of caller %d changed the in-flight set %d -> %d (event %d)" % (a, fl, fl2, k)
                    state[a] = "resolved"
            elif fl2 != fl:
                return "repeated Call changed the in-flight set (event %d)" % k
        elif op == 6:
            if fl2 != fl:
                return "Arm changed the in-flight set (event %d)" % k
        elif op == 3:
            # the crate has no business with the clock: whatever a request is waiting for, it is not the time
            if fl2 != fl:
                return "the passage of %d ms changed the set of inner calls in flight %d -> %d (event %d)" % (b, fl, fl2, k)
        elif op == 4:
            if comp[a] is None:
                comp[a] = b if b in (0, 1) else 2
                if state[a] == "leader" and polled[a] and not (mask >> a) & 1:
                    return "leader %d not woken by the completion of its inner call (event %d)" % (a, k)
            if fl2 != fl:
                return "Complete changed the in-flight set (event %d)" % k
        elif op == 2:
            if state[a] == "leader":
                fate[a] = "gone"
                state[a] = "dropped"
                if fl2 != fl & ~(1 << a):
                    return "leader %d dropped: in-flight set %d -> %d (event %d)" % (a, fl, fl2, k)
                m = settled(a, mask, k, "was dropped")
                if m:
                    return m
            else:
                if state[a] == "waiter":
                    state[a] = "dropped"
                if fl2 != fl:
                    return "drop of non-leader %d changed the in-flight set (event %d)" % (a, k)
        elif op == 1:
            if state[a] == "leader":
                c = comp[a]
                if c is None:
                    polled[a] = True
                    if r != 0:
                        return "leader %d resolved (r=%d) before its inner call completed (event %d)" % (a, r, k)
                    if fl2 != fl:
                        return "pending leader poll changed the in-flight set (event %d)" % k
                elif r == 0 and (mask >> a) & 1:
                    # still pending although its inner call has completed, but it has asked to be polled again: a yield, its business
                    polled[a] = True
                    if fl2 != fl & ~(1 << a) and fl2 != fl:
                        return "pending leader poll changed the in-flight set %d -> %d (event %d)" % (fl, fl2, k)
                else:
                    if c == 2:
                        if r != 5:
                            return "leader %d: inner panic but r=%d (event %d)" % (a, r, k)
                        fate[a] = "gone"
                        how = "panicked"
                    elif (went_off >> a) & 1:
                        # cloning the result for the waiters panicked inside the leader's poll: the leader panics
                        if r != 5:
                            return "leader %d: a Clone of its result panicked in its poll but r=%d (event %d)" % (a, r, k)
                        fate[a] = "gone"
                        how = "panicked (Clone of its result)"
                    else:
                        if r != CODE[c] or val != a:
                            return "leader %d: inner outcome %d but r=%d val=%d (event %d)" % (a, c, r, val, k)
                        fate[a] = ("res", CODE[c])
                        how = "completed"
                    state[a] = "resolved"
                    if fl2 != fl & ~(1 << a):
                        return "leader %d finished: in-flight set %d -> %d (event %d)" % (a, fl, fl2, k)
                    m = settled(a, mask, k, how)
                    if m:
                        return m
            elif state[a] == "waiter":
                l = leader_of[a]
                f = fate[l]
                if f is None:
                    # a waiter is pending while its leader is still leading (how it arranges to be polled again is its business:
                    # waking itself now, or being woken when the leader's fate is settled - see settled())
                    if r != 0:
                        return "waiter %d resolved (r=%d) while its leader %d is still in flight (event %d)" % (a, r, l, k)
                    polled[a] = True
                elif f == "gone":
                    if r != 3:
                        return "waiter %d: leader %d dropped/panicked but r=%d (expected LeaderCancelled at this poll) (event %d)" % (a, l, r, k)
                    state[a] = "resolved"
                elif (went_off >> l) & 1:
                    # the clone for this waiter could not be made: its own poll panics, nobody else is affected
                    if r != 5:
                        return "waiter %d: the Clone of leader %d's result panicked in its poll but r=%d (event %d)" % (a, l, r, k)
                    state[a] = "resolved"
                else:
                    if r != f[1] or val != l:
                        return "waiter %d: leader %d finished with code %d but waiter got r=%d val=%d (event %d)" % (a, l, f[1], r, val, k)
                    state[a] = "resolved"
                if fl2 != fl:
                    return "waiter poll changed the in-flight set (event %d)" % k
            else:
                if r != 9:
                    return "poll of caller %d in state %s returned %d (event %d)" % (a, state[a], r, k)
                if fl2 != fl:
                    return "no-op poll changed the in-flight set (event %d)" % k
        fl = fl2
        bm = bm2
    return None


def corpus():
    return [
        # leader 0 + waiters 1,2 on key 7; leader finishes ok; waiters get a clone; fresh call afterwards leads
        [4, 5, 0, 7, 5, 1, 7, 5, 2, 7, 1, 1, 0, 1, 0, 0, 4, 0, 0, 1, 0, 0, 1, 1, 0, 5, 3, 7, 1, 2, 0, 1, 3, 0],
        # error result is shared too
        [3, 5, 0, 1, 5, 1, 1, 4, 0, 1, 1, 0, 0, 1, 1, 0],
        # leader dropped: waiter gets LeaderCancelled, key free at once
        [4, 5, 0, 1, 5, 1, 1, 1, 1, 0, 2, 0, 0, 5, 2, 1, 1, 1, 0, 5, 3, 1, 1, 3, 0, 4, 2, 0, 1, 2, 0, 1, 3, 0],
        # leader panics
        [3, 5, 0, 1, 5, 1, 1, 4, 0, 2, 1, 0, 0, 1, 1, 0, 5, 2, 1],
        # two keys interleaved
        [4, 5, 0, 1, 5, 1, 2, 5, 2, 1, 5, 3, 2, 4, 1, 0, 1, 1, 0, 1, 2, 0, 1, 3, 0, 4, 0, 1, 1, 0, 0, 1, 2, 0],
        # completed inner call, leader dropped before being polled
        [2, 5, 0, 0, 5, 1, 0, 4, 0, 0, 2, 0, 0, 1, 1, 0],
        # inner.call() panics under the would-be leader 0 (e253d90): the key is free, caller 1 leads and completes, 2 waits on 1
        [3, 7, 0, 4, 1, 0, 0, 5, 1, 4, 5, 2, 4, 1, 2, 0, 4, 1, 0, 1, 1, 0, 1, 2, 0],
        # the same through one service value / colliding-hash keys / builder
        [103, 7, 0, 4, 5, 1, 4, 4, 1, 1, 1, 1, 0], [403, 7, 0, 4, 5, 1, 4, 4, 1, 1, 1, 1, 0], [803, 7, 0, 4, 5, 1, 4, 4, 1, 1, 1, 1, 0],
        # a would-be waiter never reaches the panicking inner.call()
        [2, 5, 0, 3, 7, 1, 3, 4, 0, 0, 1, 0, 0, 1, 1, 0],
        # Clone of the leader's result panics in the leader's completing poll (553aee1): waiters get LeaderCancelled, key free
        [4, 5, 0, 2, 5, 1, 2, 1, 1, 0, 6, 0, 0, 4, 0, 0, 1, 0, 0, 1, 1, 0, 5, 2, 2, 4, 2, 1, 1, 2, 0],
        # ... of an error result; no waiter present, a later request must lead
        [2, 5, 0, 0, 6, 0, 0, 4, 0, 1, 1, 0, 0, 5, 1, 0, 4, 1, 0, 1, 1, 0],
        # Clone panics for the first waiter only (armed after the leader completed): the second waiter still gets the result
        [3, 5, 0, 1, 5, 1, 1, 5, 2, 1, 4, 0, 0, 1, 0, 0, 6, 0, 0, 1, 1, 0, 1, 2, 0],
        # the metrics recorder panics in call() of the would-be leader 0 (279420e): key free, 1 leads and completes, 2 shares
        [3, 8, 0, 4, 1, 0, 0, 5, 1, 4, 5, 2, 4, 1, 2, 0, 4, 1, 0, 1, 1, 0, 1, 2, 0],
        [103, 8, 0, 4, 5, 1, 4, 4, 1, 1, 1, 1, 0], [1503, 8, 0, 4, 5, 1, 4, 4, 1, 1, 1, 1, 0],
        # ... of a would-be waiter: only that request is lost, the leader and the other waiter are not disturbed
        [3, 5, 0, 2, 8, 1, 2, 5, 2, 2, 1, 1, 0, 4, 0, 0, 1, 0, 0, 1, 2, 0],
        # time passes while the leader is pending: waiters keep waiting (no timer anywhere), then share the late result
        [3, 5, 0, 1, 5, 1, 1, 5, 2, 1, 1, 0, 0, 1, 1, 0, 3, 0, 29999, 1, 1, 0, 3, 0, 1, 1, 1, 0, 1, 2, 0, 3, 0, 86400000, 1, 1, 0, 1, 2, 0,
         4, 0, 0, 1, 0, 0, 1, 1, 0, 1, 2, 0],
        # twenty requests on one key: one inner call, nineteen waiters
        [20] + sum(([5, i, 3] for i in range(20)), []) + [1, 7, 0, 1, 19, 0, 4, 0, 1, 1, 0, 0] + sum(([1, i, 0] for i in range(1, 20)), []),
        # eight callers on colliding keys 0..4
        [408, 5, 0, 0, 5, 1, 1, 5, 2, 2, 5, 3, 3, 5, 4, 4, 5, 5, 0, 5, 6, 1, 5, 7, 4, 4, 4, 0, 1, 4, 0, 1, 7, 0, 4, 0, 1, 1, 0, 0, 1, 5, 0,
         4, 1, 0, 1, 6, 0, 1, 1, 0, 1, 6, 0],
    ]


# durations in ms around the values a timeout would plausibly have (1 s, 5 s, 10 s, 30 s, 1 min, 5 min, 1 h, 1 day)
SPANS = [1, 999, 1000, 5000, 10000, 29999, 30000, 30001, 60000, 300000, 3600000, 86400000]


def header(rng, n, plain=0.4):
    """h = n + 100 f: how the driver builds and shares the service value"""
    if rng.random() < plain:
        return n
    return n + 100 * (rng.randrange(4) + 4 * rng.randrange(2) + 8 * rng.randrange(2))


def random_script(rng, maxn=8, maxlen=36, nkeys=None):
    n = rng.randint(2, maxn)
    nk = nkeys or rng.choice([1, 2, 2, 3, 5, 12])
    s = [header(rng, n)]
    called = set()
    faults = rng.random() < 0.5
    for _ in range(rng.randint(4, maxlen)):
        x = rng.random()
        if x < 0.28:
            cand = [i for i in range(n) if i not in called]
            i = rng.choice(cand) if cand and rng.random() < 0.9 else rng.randrange(n)
            called.add(i)
            s += [rng.choice([7, 8]) if faults and rng.random() < 0.25 else 5, i, rng.randrange(nk)]
        elif x < 0.66:
            i = rng.choice(sorted(called)) if called and rng.random() < 0.9 else rng.randrange(n)
            s += [1, i, 0]
        elif x < 0.78:
            i = rng.choice(sorted(called)) if called and rng.random() < 0.9 else rng.randrange(n)
            s += [2, i, 0]
        elif x < 0.84 and faults:
            i = rng.choice(sorted(called)) if called and rng.random() < 0.8 else rng.randrange(n)
            s += [6, i, 0]
        elif x < 0.88:
            s += [3, 0, rng.choice(SPANS)]
        else:
            s += [4, rng.randrange(n), rng.choice([0, 0, 1, 1, 2])]
    # tail: everything still alive is polled twice (bounded number of polls after the last external event)
    for _ in range(2):
        for i in range(n):
            s += [1, i, 0]
    return s


def staged(rng):
    """leader + waiters on one key, some polled; then the leader finishes / is dropped / panics (inner future, or the Clone of its
    result); late polls (a Clone panic may hit one waiter); a fresh call"""
    n = rng.randint(3, 8)
    k0 = rng.randrange(3)
    s = [header(rng, n), 5, 0, k0]
    ws = list(range(1, n - 1))
    for w in ws:
        s += [rng.choice([7, 8]) if rng.random() < 0.12 else 5, w, k0 if rng.random() < 0.8 else (k0 + 1) % 3]
        if rng.random() < 0.5:
            s += [1, w, 0]
    if rng.random() < 0.7:
        s += [1, 0, 0]
    if rng.random() < 0.3:
        # the leader stays pending for a long time; the waiters are polled meanwhile and must keep waiting
        for _ in range(rng.randint(1, 3)):
            s += [3, 0, rng.choice(SPANS)]
            for w in ws:
                if rng.random() < 0.6:
                    s += [1, w, 0]
    if rng.random() < 0.3 and ws:
        s += [2, rng.choice(ws), 0]
    end = rng.choice(["ok", "err", "panic", "drop", "drop_after_complete", "clone_panic", "clone_panic", "waiter_clone_panic"])
    if end == "ok":
        s += [4, 0, 0, 1, 0, 0]
    elif end == "err":
        s += [4, 0, 1, 1, 0, 0]
    elif end == "panic":
        s += [4, 0, 2, 1, 0, 0]
    elif end == "drop":
        s += [2, 0, 0]
    elif end == "clone_panic":
        x = [[6, 0, 0], [4, 0, rng.choice([0, 1])]]
        rng.shuffle(x)
        s += x[0] + x[1] + [1, 0, 0]
    elif end == "waiter_clone_panic":
        s += [4, 0, rng.choice([0, 1]), 1, 0, 0, 6, 0, 0]
    else:
        s += [4, 0, rng.choice([0, 1]), 2, 0, 0]
    order = ws[:]
    rng.shuffle(order)
    fresh_at = rng.randint(0, len(order))
    fresh = [rng.choice([7, 8]), n - 1, k0, 5, n - 1, k0] if rng.random() < 0.1 else [5, n - 1, k0]
    for idx, w in enumerate(order):
        if idx == fresh_at:
            s += fresh
        s += [1, w, 0]
    if fresh_at == len(order):
        s += fresh
    s += [1, n - 1, 0, 4, n - 1, rng.choice([0, 1]), 1, n - 1, 0]
    for w in ws:
        s += [1, w, 0]
    return s


def call_panics(rng):
    """inner.call() or the metrics recorder panics under a would-be leader; then requests for the same key (the first must lead), waiters on it, results"""
    n = rng.randint(3, 6)
    k0 = rng.randrange(4)
    s = [header(rng, n)]
    if rng.random() < 0.3:
        s += [5, n - 1, (k0 + 1) % 4]                  # an unrelated leader on another key
    s += [rng.choice([7, 8]), 0, k0]
    if rng.random() < 0.3:
        s += [1, 0, 0]                                  # nothing to poll
    for w in range(1, n - 1):
        s += [rng.choice([7, 8]) if rng.random() < 0.25 else 5, w, k0 if rng.random() < 0.85 else (k0 + 1) % 4]
        if rng.random() < 0.5:
            s += [1, w, 0]
    l = rng.randrange(1, n - 1)
    s += [4, l, rng.choice([0, 1, 2])]
    for _ in range(2):
        for w in range(n):
            s += [1, w, 0]
    return s


def slow_leader(rng):
    """a leader whose inner call takes very long: waiters are polled again and again while time passes (they must stay pending:
    their leader is neither dropped nor panicked), late joiners, then the late result reaches everybody"""
    n = rng.randint(3, 6)
    k0 = rng.randrange(3)
    s = [header(rng, n), 5, 0, k0]
    joined = []
    if rng.random() < 0.7:
        s += [1, 0, 0]
    for w in range(1, n):
        if rng.random() < 0.6:
            s += [5, w, k0]
            joined.append(w)
            if rng.random() < 0.7:
                s += [1, w, 0]
    for _ in range(rng.randint(1, 4)):
        s += [3, 0, rng.choice(SPANS)]
        for w in joined:
            if rng.random() < 0.7:
                s += [1, w, 0]
        late = [w for w in range(1, n) if w not in joined]
        if late and rng.random() < 0.5:
            w = rng.choice(late)
            s += [5, w, k0, 1, w, 0]
            joined.append(w)
    s += [4, 0, rng.choice([0, 0, 1, 2])]
    if rng.random() < 0.5:
        s += [3, 0, rng.choice(SPANS)]
    s += [1, 0, 0]
    for _ in range(2):
        for w in range(1, n):
            s += [1, w, 0]
    return s


def fan_in(rng):
    """many requests (17-40, sometimes 64 or 99) for one key while its call is in flight - far more than any plausible cap on waiters - a few on a
    second key; then the result (or the leader's drop) reaches every one of them"""
    n = rng.choice([rng.randint(17, 40)] * 5 + [64, 99])      # 99 = the most a script header can name
    k0 = rng.randrange(3)
    s = [header(rng, n, 0.6)]
    order = list(range(n))
    rng.shuffle(order)
    lead = order[0]
    other = []
    for idx, i in enumerate(order):
        if idx > 0 and rng.random() < 0.08:
            s += [5, i, k0 + 1]
            other.append(i)
        else:
            s += [5, i, k0]
        if rng.random() < 0.3:
            s += [1, i, 0]
    end = rng.choice(["ok", "err", "drop", "panic"])
    if end == "drop":
        s += [2, lead, 0]
    else:
        s += [4, lead, {"ok": 0, "err": 1, "panic": 2}[end], 1, lead, 0]
    if other:
        s += [4, other[0], 0, 1, other[0], 0]
    for i in order:
        s += [1, i, 0]
    return s


def late_drop(rng):
    """a leader finishes and is polled, but its (finished) future is dropped only later, after a new leader for
    the same key has started and a waiter has joined it"""
    k0 = rng.randrange(3)
    s = [header(rng, 4), 5, 0, k0, 1, 0, 0, 4, 0, rng.choice([0, 1]), 1, 0, 0]      # leader 0: call, poll, complete, poll (done)
    s += [5, 1, k0]                                                     # new leader 1 on the same key
    if rng.random() < 0.7:
        s += [1, 1, 0]
    s += [5, 2, k0]                                                     # waiter 2 joins leader 1
    if rng.random() < 0.5:
        s += [1, 2, 0]
    s += [2, 0, 0]                                                      # late drop of the finished leader 0
    if rng.random() < 0.5:
        s += [5, 3, k0, 1, 3, 0]                                        # another request for the key
    s += [1, 2, 0, 4, 1, rng.choice([0, 1]), 1, 1, 0, 1, 2, 0, 1, 3, 0]
    return s


ALPHA = [(5, 0, 0), (5, 1, 0), (5, 2, 0), (5, 2, 1), (1, 0, 0), (1, 1, 0), (1, 2, 0),
         (2, 0, 0), (2, 1, 0), (4, 0, 0), (4, 0, 2), (4, 2, 1)]
# the two panics that are not the inner future's: inner.call() and Clone
ALPHA2 = [(7, 0, 0), (5, 0, 0), (5, 1, 0), (7, 1, 0), (5, 2, 0), (6, 0, 0), (1, 0, 0), (1, 1, 0), (1, 2, 0),
          (4, 0, 0), (4, 0, 1), (2, 0, 0)]


# the recorder's panic, and time
ALPHA3 = [(8, 0, 0), (8, 1, 0), (5, 0, 0), (5, 1, 0), (5, 2, 0), (1, 0, 0), (1, 1, 0), (1, 2, 0), (4, 0, 0), (2, 0, 0), (3, 0, 30000)]


def exhaustive(depth, h=3, alpha=ALPHA):
    for L in range(1, depth + 1):
        for evs in itertools.product(alpha, repeat=L):
            s = [h]
            for e in evs:
                s += list(e)
            yield s


def generate(rng, tier):
    out = []
    if tier == "quick":
        out += [random_script(rng) for _ in range(1500)]
        out += [staged(rng) for _ in range(800)]
        out += [call_panics(rng) for _ in range(250)]
        out += [late_drop(rng) for _ in range(100)]
        out += [slow_leader(rng) for _ in range(300)]
        out += [fan_in(rng) for _ in range(120)]
        out += list(exhaustive(2))
        out += list(exhaustive(2, 3, ALPHA2))
        out += list(exhaustive(2, 103, ALPHA2))
        out += list(exhaustive(2, 3, ALPHA3))
    else:
        out += [random_script(rng, 8, 70) for _ in range(30000)]
        out += [staged(rng) for _ in range(12000)]
        out += [call_panics(rng) for _ in range(4000)]
        out += [late_drop(rng) for _ in range(2000)]
        out += [slow_leader(rng) for _ in range(6000)]
        out += [fan_in(rng) for _ in range(2500)]
        out += list(exhaustive(5, 3, ALPHA3))
        out += list(exhaustive(5))
        out += list(exhaustive(5, 3, ALPHA2))
        out += list(exhaustive(3, 103, ALPHA2))
        out += list(exhaustive(3, 1503, ALPHA))
    return out


def nontrivial(s, t):
    d = decode(s, t)
    if not d:
        return True
    n, evt = d
    fl = 0
    for (e, o) in evt:
        if e[0] in (5, 7, 8) and o[3] == fl and fl != 0 and o[0] != 5:
            return True     # a call that did not start an inner call while something was in flight
        fl = o[3]
    return False


def classify(s, t):
    d = decode(s, t)
    out = []
    if d:
        n, evt = d
        out.append("callers%d" % n if n <= 8 else "callers9-16" if n <= 16 else "callers17+")
        nk = len(set(max(0, e[2]) for (e, _) in evt if e[0] in (5, 7, 8)))
        out.append("keys%d" % nk if nk <= 5 else "keys6+")
        f = s[0] // 100 if s and s[0] >= 0 else 0
        out.append("share%d" % (f % 4))
        if (f // 4) % 2:
            out.append("colliding_hash_keys")
        if (f // 8) % 2:
            out.append("builder_route")
        rs = set(o[0] for (e, o) in evt if e[0] == 1)
        for r, name in ((1, "ok"), (2, "service_err"), (3, "leader_cancelled"), (4, "recv_error"), (5, "panic")):
            if r in rs:
                out.append("saw_" + name)
        if any(o[0] in (1, 2) and o[1] != e[1] for (e, o) in evt if e[0] == 1):
            out.append("shared_result")
        if nontrivial(s, t):
            out.append("has_waiter")
        if any(e[0] == 2 for (e, _) in evt):
            out.append("has_drop")
        if any(e[0] == 7 and o[0] == 5 for (e, o) in evt):
            out.append("inner_call_panicked")
        if any(e[0] == 7 and o[0] == -1 and o[3] != 0 for (e, o) in evt):
            out.append("call_panic_armed_for_a_waiter")
        fl = 0
        for (e, o) in evt:
            if e[0] == 8 and o[0] == 5:
                out.append("recorder_panicked_in_call")
                out.append("recorder_panicked_while_a_call_in_flight" if fl != 0 else "recorder_panicked_nothing_in_flight")
            fl = o[3]
        # time passed while some waiter had already returned Pending and was polled again afterwards
        pend, aged = set(), set()
        for (e, o) in evt:
            if e[0] == 1 and o[0] == 0:
                if e[1] in aged:
                    out.append("pending_waiter_or_leader_polled_after_time_passed")
                pend.add(e[1])
            elif e[0] == 3 and e[2] > 0:
                aged |= pend
                out.append("time_passes")
            elif e[0] in (1, 2):
                pend.discard(e[1]); aged.discard(e[1])
        # the largest number of requests coalesced on one inner call
        cnt = {}
        fl = 0
        lead_of_key = {}
        for (e, o) in evt:
            if e[0] in (5, 7, 8) and o[0] != 5:
                kk = max(0, e[2])
                if o[3] != fl:
                    lead_of_key[kk] = e[1]; cnt[e[1]] = 0
                elif kk in lead_of_key and (fl >> lead_of_key[kk]) & 1:
                    cnt[lead_of_key[kk]] += 1
            fl = o[3]
        mw = max(cnt.values()) if cnt else 0
        if mw >= 16:
            out.append("waiters16+")
        elif mw >= 8:
            out.append("waiters8-15")
        bm = 0
        for (e, o) in evt:
            if e[0] == 1 and bm & ~o[4]:
                out.append("clone_panic_in_leader_poll" if (bm & ~o[4]) >> e[1] & 1 else "clone_panic_in_waiter_poll")
            bm = o[4]
        # a key used again by a fresh leader after an earlier leader of that key
        leaders = {}
        fl = 0
        for (e, o) in evt:
            if e[0] in (5, 7, 8) and (o[3] != fl or o[0] == 5):
                kk = max(0, e[2])
                leaders[kk] = leaders.get(kk, 0) + 1
            fl = o[3]
        if any(v > 1 for v in leaders.values()):
            out.append("key_reused")
    return sorted(set(out))


def shrink(s):
    head, body = s[:1], s[1:]
    k = len(body) // 3
    for i in range(k):
        yield head + body[:3 * i] + body[3 * i + 3:]
    if head and head[0] >= 100:
        yield [head[0] % 100] + body
